import sys,subprocess
pid=sys.argv[1]
taken=subprocess.run(["python3","/tmp/taken.py",pid],capture_output=True,text=True).stdout
prop=open(f'/tmp/props/{pid}.txt').read()
print(f"""You are helping test a verification effort for the Go library fiorix/go-diameter (Diameter base protocol, RFC 6733). Your job: write ONE realistic code change (a "seeded defect") to the library that BREAKS the semantic property below, while the library still compiles and its existing test suite still passes.

You have your own scratch git worktree of the repository at /tmp/seed-o/{pid} (work ONLY there; never touch /repo, and do not read or touch anything under /verif). The sandbox has no network. In every shell call first run:
  export GOFLAGS=-mod=mod GOPROXY=off GOSUMDB=off GOTOOLCHAIN=local
The default `go` is 1.23. `go test ./diam` as a whole aborts in this sandbox at SCTP tests (no kernel SCTP), so run focused tests with -run. The existing suite can be run with: /tmp/run_pinned_tests.sh /tmp/seed-o/{pid}   (it must print '140 passing, 0 not passing').

=== The property ===
{prop}
=== end of property ===

Ideas that are ALREADY TAKEN for this property - do not reuse them or close variants of them; find a different mechanism, a different code path or a different scenario:
{taken}
Requirements for the change:
1. It must be a plausible change a developer could make (an "optimisation", "cleanup", "refactoring", "feature", or a subtly wrong bug fix) - not sabotage that any use would expose at once. It should need something SPECIFIC to manifest: a particular interleaving, a fault at a particular point, a multi-step sequence of operations, an unusual (but legal) input, a boundary size, or two cooperating sites that each look fine alone. Prefer subtle over blatant. Be creative: avoid the most obvious idea (e.g. simple off-by-one in the main loop); look for secondary code paths, rarely used API entry points, unusual data types, boundary sizes, error paths, second connections, re-registrations, etc.
2. Only non-test .go files of the library may change (no *_test.go edits, no new test files in the patch, no dictionary XML edits unless the property is about dictionaries). The library must build (`go build ./...` and `go build -tags verif ./diam/...`) and the existing suite must still pass with the change (run the script above).
3. Write a demonstration: a single Go test file (package-internal or external test, your choice) that PASSES on the unchanged code and FAILS with your change, showing the property is violated. It must not depend on kernel SCTP or the network beyond loopback TCP / in-memory pipes (net.Pipe or a custom net.Conn are fine). The file MUST begin with a comment block containing these two lines exactly in this form (used by an automated confirmer):
   // goes in diam/<subdir or nothing> 
   // go test -vet=off -count=1 ./diam/<pkg> -run 'TestSeed{pid}o_' -v
   (first line: the package directory, relative to the repository root, where the file must be copied, e.g. `// goes in diam` or `// goes in diam/sm`; second line: the exact command, run from the repository root, that runs it; name your test functions TestSeed{pid}o_<Something>.)
IMPORTANT: several agents work in sibling worktrees of the same repository at the same time. `git stash` is SHARED between worktrees - never use git stash. To test the unchanged code, save your change with `git diff > /tmp/seed-out-o/{pid}/o/patch.diff`, revert with `git checkout -- .`, and re-apply with `git apply /tmp/seed-out-o/{pid}/o/patch.diff`.
4. Verify yourself: (a) demo passes on the unchanged worktree; (b) with the change applied: builds, existing suite passes, demo fails.

Deliverables - write exactly these files into /tmp/seed-out-o/{pid}/o/ :
  - patch.diff   : output of `git diff` in the worktree containing ONLY the library change (not the demo file). It must apply with `git apply` on a clean checkout of the same commit.
  - demo_test.go : the demonstration file (as described in 3).
  - notes.md     : what was changed, why the property breaks, what exactly is needed for it to manifest, and what you ran.
When done, leave the worktree in any state (it will be deleted). Reply with a 5-line summary: what the change is, which file(s), what it needs to manifest, and confirmation that the three files are written and that (a) and (b) were verified.""")
