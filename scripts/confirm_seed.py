#!/usr/bin/env python3
"""confirm_seed.py <Cxx> <a|b>: re-confirms a seeded change in a fresh scratch worktree:
   demo passes on HEAD; with the patch: builds, pinned suite passes, demo fails.
   On success stores it under /verif/seeded/<Cxx>-<v>/ with meta.json."""
import sys, os, re, subprocess, json, shutil
pid, v = sys.argv[1], sys.argv[2]
base = sys.argv[3] if len(sys.argv) > 3 else "/tmp/seed-out"
src = f"{base}/{pid}/{v}"
env = dict(os.environ, GOFLAGS="-mod=mod", GOPROXY="off", GOSUMDB="off", GOTOOLCHAIN="local")
demo = [f for f in os.listdir(src) if f.endswith(".go")]
if not demo:
    print("no demo"); sys.exit(2)
demo = demo[0]
head = open(os.path.join(src, demo)).read()
cmt = "\n".join(l for l in head.split("\n")[:60] if l.startswith("//"))
m = re.search(r"(diam(?:/[a-z]+)*)/?[\s)(,]", cmt[cmt.lower().index("goes in"):]) if "goes in" in cmt.lower() else None
pkgdir = m.group(1) if m else None
if not pkgdir:
    m2 = re.search(r"\./(diam(?:/[a-z]+)*)", cmt)
    pkgdir = m2.group(1) if m2 else None
g = re.search(r"go test [^\n]*", cmt)
cmd = g.group(0).strip() if g else None
cmd = re.sub(r"<worktree>", ".", cmd or "")
print("dir:", pkgdir, "| cmd:", cmd)
if not pkgdir or not cmd:
    sys.exit(2)
wt = f"/tmp/cs-{pid}{v}"
subprocess.run(["git", "-C", "/repo", "worktree", "remove", "--force", wt], capture_output=True)
subprocess.run(["git", "-C", "/repo", "worktree", "add", "-q", "--detach", wt, "HEAD"], check=True)
res = {}
try:
    shutil.copy(os.path.join(src, demo), os.path.join(wt, pkgdir, "zz_seed_demo_test.go"))
    def run(c):
        p = subprocess.run(c, shell=True, cwd=wt, env=env, capture_output=True, text=True, errors='replace', timeout=900)
        return p.returncode, (p.stdout + p.stderr)[-1500:]
    rc0, out0 = run(cmd)
    res["demo_without_change"] = dict(rc=rc0, tail=out0[-400:])
    rcp, outp = run(f"git apply {src}/patch.diff")
    res["apply"] = rcp
    files = subprocess.run("git diff --name-only", shell=True, cwd=wt, capture_output=True, text=True).stdout.split()
    res["files_changed"] = files
    rcb, outb = run("go build ./... && go build -tags verif ./diam/...")
    res["build"] = rcb
    os.remove(os.path.join(wt, pkgdir, "zz_seed_demo_test.go"))
    rcs, outs = run(f"/verif/scripts/run_pinned_tests.sh {wt}")
    res["pinned_suite_with_change"] = dict(rc=rcs, tail=outs.strip().split("\n")[0] if outs.strip() else "")
    shutil.copy(os.path.join(src, demo), os.path.join(wt, pkgdir, "zz_seed_demo_test.go"))
    rc1, out1 = run(cmd)
    res["demo_with_change"] = dict(rc=rc1, tail=out1[-600:])
    ok = rc0 == 0 and rcp == 0 and rcb == 0 and rcs == 0 and rc1 != 0 and not any(f.endswith("_test.go") for f in files)
    res["confirmed"] = ok
finally:
    subprocess.run(["git", "-C", "/repo", "worktree", "remove", "--force", wt], capture_output=True)
print(json.dumps({k: (v if not isinstance(v, dict) else v.get("rc")) for k, v in res.items()}))
if res.get("confirmed"):
    dst = f"/verif/seeded/{pid}-{v}"
    os.makedirs(dst, exist_ok=True)
    shutil.copy(f"{src}/patch.diff", dst)
    shutil.copy(os.path.join(src, demo), os.path.join(dst, demo))
    if os.path.exists(f"{src}/notes.md"):
        shutil.copy(f"{src}/notes.md", dst)
    notes = open(f"{src}/notes.md").read() if os.path.exists(f"{src}/notes.md") else ""
    meta = dict(property=pid, variant=v, breaks=pid, files_changed=res["files_changed"],
                needs_to_manifest=notes[:1500],
                demo=dict(file=demo, package_dir=pkgdir, command=cmd),
                confirmed_by="scripts/confirm_seed.py in a fresh scratch worktree of /repo HEAD (removed afterwards)",
                ran=res, detected_by=None)
    json.dump(meta, open(f"{dst}/meta.json", "w"), indent=1)
sys.exit(0 if res.get("confirmed") else 1)
