#!/bin/bash
# usage: try_seed.sh <patch.diff> <ID> [<ID>...]
# applies a seeded change to /repo, runs the quick checks, always restores /repo.
patch=$1; shift
REPO=${VERIF_REPO:-/repo}
VERIF=$(cd "$(dirname "$0")/.." && pwd)
export VERIF_EVIDENCE_DIR=$(mktemp -d)
cd $REPO || exit 2
if ! git diff --quiet; then echo "$REPO has local changes; refusing"; exit 2; fi
git apply "$patch" || { echo "patch does not apply"; exit 2; }
# the harness binary the checks leave behind was built with the change applied: rebuild it afterwards
trap 'git -C $REPO checkout -- . ; git -C $REPO clean -fdq; rm -rf "$VERIF_EVIDENCE_DIR"; (cd $VERIF/harness && GOFLAGS=-mod=mod GOPROXY=off GOSUMDB=off GOTOOLCHAIN=local go build -tags verif -o harness . >/dev/null 2>&1)' EXIT
for id in "$@"; do
  out=$(cd $VERIF && ./check "$id" 2>/dev/null); rc=$?
  echo "== $id rc=$rc"; echo "$out" | grep -v KNOWN-FINDING | head -3
  f=$(echo "$out" | sed -n 's/.*replay=\(\S*\).*/\1/p' | head -1)
  [ -n "$f" ] && python3 -c "
import json,sys; r=json.load(open('$f')); print('   cause:', r.get('cause')); print('   line :', (r.get('line') or '')[:300]); 
if r.get('broken'): print('   broken:', [b[0] for b in r['broken']])
if r.get('disagreements'): print('   disagree:', r['disagreements'][0]['line'][:200])"
done
