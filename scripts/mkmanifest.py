#!/usr/bin/env python3
"""Regenerates MANIFEST.json from verifcfg.PROPS and the per-property texts in manifest_texts.py."""
import json, sys, os
sys.path.insert(0, os.path.dirname(os.path.dirname(os.path.abspath(__file__))))
import verifcfg as cfg
import manifest_texts as mt
props = [json.loads(l) for l in open('/verif/properties.jsonl')]
hooks_commits = mt.HOOK_COMMITS
checks = []
na = []
for p in props:
    pid = p['id']
    if pid in cfg.PROPS and pid in mt.TEXT and cfg.PROPS[pid].get('theorems'):
        t = mt.TEXT[pid]
        checks.append(dict(
            property_id=pid,
            quick_cmd=f"./check {pid} --tier quick",
            thorough_cmd=f"./check {pid} --tier thorough",
            evidence_file=f"/verif/evidence/{pid}.json",
            replay_cmd_template="./check replay {path}",
            engine="lean4-proof+correspondence",
            level_claimed=dict(category="proof", text=t['level'], design_ref=t.get('ref', 'DESIGN.md section 6, ' + pid)),
            level_note=t['note'],
            technique=t.get('technique', "Lean 4 theorems about a hand-written executable model (induction over fuel / structure / operation lists), model tied to the source by regenerated Gen facts and differential execution"),
        ))
    else:
        na.append(dict(property_id=pid, reason=mt.NA.get(pid, "check not built yet (construction in progress); planned as Lean 4 proof + correspondence, see DESIGN.md section 6")))
m = dict(
    version=1,
    setup_cmd="./check setup",
    hooks=dict(guard="verif", enable="go build -tags verif (the harness module replaces github.com/fiorix/go-diameter/v4 => /repo)",
               baseline_off_cmd="/verif/scripts/baseline.sh", source_commits=hooks_commits, add_only=True),
    engines=[dict(name="lean4-proof+correspondence", path="/verif/check",
                  serves_properties=[c['property_id'] for c in checks],
                  kind_free_text="Lean 4 model + theorems (lake build, #print axioms audit, leanchecker in thorough tier); Go extractor regenerates lean/Gen from /repo; Go harness runs the real code and a compiled Lean driver judges every case against the model and the Spec")],
    checks=checks,
    notes=mt.NOTES,
    not_applicable=na,
)
json.dump(m, open('/verif/MANIFEST.json', 'w'), indent=1)
print(len(checks), "checks,", len(na), "not claimed")
