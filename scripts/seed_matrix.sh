#!/bin/bash
# runs every seeded change under /verif/seeded against the quick check of the property it breaks
# (plus any extra ids given in meta.json "also_check"), writes the outcome into meta.json
cd "$(dirname "$0")/.."
V=$(pwd)
for d in seeded/*/; do
  s=$(basename $d); id=${s%-*}
  [ -n "$1" ] && [[ ! "$s" =~ $1 ]] && continue
  out=$(scripts/try_seed.sh $V/$d/patch.diff $id 2>&1)
  rc=$(echo "$out" | sed -n 's/^== .* rc=\([0-9]*\)/\1/p' | head -1)
  cause=$(echo "$out" | sed -n 's/^ *cause: //p' | head -1)
  broken=$(echo "$out" | sed -n 's/^ *broken: //p' | head -1)
  nf=$(echo "$out" | grep -c "no-failing-input-found")
  echo "$s rc=$rc cause=${cause:-none} broken=${broken:-} nofail=$nf"
  python3 - "$d/meta.json" "$id" "$rc" "$cause" "$broken" "$nf" <<'PY'
import json,sys
p,idn,rc,cause,broken,nf=sys.argv[1:7]
m=json.load(open(p))
m['detected_by']=dict(check=idn, detected=(rc=='1'), cause=cause or None, broken_obligations=broken or None, with_failing_input=(rc=='1' and nf=='0'))
json.dump(m,open(p,'w'),indent=1)
PY
done
