#!/bin/bash
# usage: run_pinned_tests.sh <worktree>: pinned suite (guard off) in a worktree of /repo; exit 0 iff all stable tests pass
export GOFLAGS=-mod=mod GOPROXY=off GOSUMDB=off GOTOOLCHAIN=local
cd "$1" || exit 2
out=$(mktemp)
go test -json -vet=off -count=1 -timeout 25m ./... > "$out" 2>/dev/null
python3 - "$out" <<'PY'
import json,sys
passed=set()
for l in open(sys.argv[1]):
    try: e=json.loads(l)
    except Exception: continue
    if e.get('Action')=='pass' and e.get('Test'):
        passed.add(e['Package']+'::'+e['Test'])
base=json.load(open('/root/.vp/BASELINE.json'))['stable_pass']
if isinstance(base,str): base=eval(base)
missing=[t for t in base if t not in passed]
print(f"pinned suite: {len(base)} tests, {len(base)-len(missing)} passing, {len(missing)} not passing")
for t in missing: print("MISSING", t)
sys.exit(1 if missing else 0)
PY
rc=$?
rm -f "$out"
exit $rc
