#!/bin/bash
# Runs the repository's pinned test suite with the 'verif' guard OFF and
# compares the set of passing tests with /root/.vp/BASELINE.json (stable_pass).
# exit 0 iff every stable test passes.
export GOFLAGS=-mod=mod GOPROXY=off GOSUMDB=off GOTOOLCHAIN=local
cd /repo || exit 2
out=$(mktemp)
go test -json -vet=off -count=1 -timeout 25m ./... > "$out" 2>/dev/null
python3 - "$out" <<'PY'
import json,sys
passed=set()
for l in open(sys.argv[1]):
    try: e=json.loads(l)
    except Exception: continue
    if e.get('Action')=='pass' and e.get('Test'):
        passed.add(e['Package']+'::'+e['Test'])
try:
    base=json.load(open('/root/.vp/BASELINE.json'))['stable_pass']
except Exception:
    base=[]
missing=[t for t in base if t not in passed]
print(f"baseline: {len(base)} stable tests, {len(base)-len(missing)} passing, {len(missing)} missing")
for t in missing: print("MISSING", t)
sys.exit(1 if missing else 0)
PY
rc=$?
rm -f "$out"
exit $rc
