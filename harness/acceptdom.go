package main

import (
	"crypto/ecdsa"
	"crypto/elliptic"
	"crypto/rand"
	"crypto/tls"
	"crypto/x509"
	"crypto/x509/pkix"
	"fmt"
	"math/big"
	"net"
	"strings"
	"sync"
	"syscall"
	"time"

	"github.com/fiorix/go-diameter/v4/diam"
	"github.com/fiorix/go-diameter/v4/diam/dict"
)

// conn accept: Server.Serve over a scripted net.Listener.
//   A  Accept returns a new in-memory connection
//   T  Accept fails with a temporary error that is not a timeout (ECONNABORTED)
//   F  Accept fails with a temporary error (EMFILE)
//   U  Accept fails with an error that is both temporary and a timeout
//   P  Accept fails with a permanent error
// After every event the harness waits for Serve to be parked in Accept again (or to have
// returned) and reports what it sees.

type acceptRes struct {
	c   net.Conn
	err error
}

type scriptListener struct {
	mu      sync.Mutex
	ch      chan acceptRes
	waiting int
	calls   int
	closed  int
}

func (l *scriptListener) Accept() (net.Conn, error) {
	l.mu.Lock()
	l.waiting++
	l.calls++
	l.mu.Unlock()
	r := <-l.ch
	l.mu.Lock()
	l.waiting--
	l.mu.Unlock()
	return r.c, r.err
}
func (l *scriptListener) Close() error   { l.mu.Lock(); l.closed++; l.mu.Unlock(); return nil }
func (l *scriptListener) Addr() net.Addr { return memAddr{"tcp", "10.1.2.3:3868"} }
func (l *scriptListener) ncalls() int    { l.mu.Lock(); defer l.mu.Unlock(); return l.calls }

type bothErr struct{}

func (bothErr) Error() string   { return "accept: i/o timeout" }
func (bothErr) Timeout() bool   { return true }
func (bothErr) Temporary() bool { return true }

type acceptPermErr struct{}

func (acceptPermErr) Error() string { return "accept: listener failed" }

// a self-signed certificate for the TLS variant of the accept script (made once per process)
var acceptTLS = sync.OnceValue(func() *tls.Config {
	key, err := ecdsa.GenerateKey(elliptic.P256(), rand.Reader)
	if err != nil {
		return nil
	}
	tmpl := &x509.Certificate{SerialNumber: big.NewInt(1), Subject: pkix.Name{CommonName: "verif"},
		NotBefore: time.Now().Add(-time.Hour), NotAfter: time.Now().Add(24 * time.Hour),
		KeyUsage: x509.KeyUsageDigitalSignature, ExtKeyUsage: []x509.ExtKeyUsage{x509.ExtKeyUsageServerAuth}, DNSNames: []string{"verif"}}
	der, err := x509.CreateCertificate(rand.Reader, tmpl, tmpl, &key.PublicKey, key)
	if err != nil {
		return nil
	}
	return &tls.Config{Certificates: []tls.Certificate{{Certificate: [][]byte{der}, PrivateKey: key}}}
})

type countHandler struct {
	mu      sync.Mutex
	ids     map[uint32]bool
	count   map[string]int
	release chan struct{} // a message with hop-by-hop id 777777 keeps its handler inside until this is closed
	held    chan struct{}
}

func (h *countHandler) ServeDIAM(c diam.Conn, m *diam.Message) {
	if m.Header.HopByHopID == 777777 && h.release != nil {
		close(h.held)
		<-h.release
		return
	}
	h.mu.Lock()
	h.count[c.RemoteAddr().String()]++
	if h.ids != nil {
		h.ids[m.Header.HopByHopID] = true
	}
	h.mu.Unlock()
}
func (h *countHandler) saw(id uint32) bool { h.mu.Lock(); defer h.mu.Unlock(); return h.ids[id] }
func (h *countHandler) get(k string) int   { h.mu.Lock(); defer h.mu.Unlock(); return h.count[k] }

// conn accept ... tls=1: the listener is a TLS listener (the handshake is the connection's own
// business, not the accept loop's): A is a client that completes the handshake and sends a
// request, S a peer that connects and then says nothing at all.
func execConnAcceptTLS(evS string) string {
	cfg := acceptTLS()
	if cfg == nil {
		return "err"
	}
	l := &scriptListener{ch: make(chan acceptRes)}
	h := &countHandler{count: map[string]int{}, ids: map[uint32]bool{}}
	srv := &diam.Server{Handler: h, Dict: dict.Default}
	done := make(chan error, 1)
	go func() { done <- srv.Serve(tls.NewListener(l, cfg)) }()
	returned := false
	waitParked := func(want int, limit time.Duration) bool {
		deadline := time.Now().Add(limit)
		for time.Now().Before(deadline) {
			if l.ncalls() >= want {
				return true
			}
			select {
			case <-done:
				returned = true
				return false
			default:
			}
			time.Sleep(200 * time.Microsecond)
		}
		return false
	}
	waitParked(1, time.Second)
	var clients []*tls.Conn
	var pipes []net.Conn
	probe := func(tc *tls.Conn, id uint32) bool {
		tc.SetWriteDeadline(time.Now().Add(500 * time.Millisecond))
		if _, err := tc.Write(simpleMsg(280, 0x80, 0, id, id)); err != nil {
			return false
		}
		return waitFor(func() bool { return h.saw(id) }, 500*time.Millisecond)
	}
	var outs []string
	id := uint32(0)
	for _, e := range strings.Split(evS, ",") {
		if e != "A" && e != "S" {
			continue
		}
		if returned {
			outs = append(outs, "skip")
			continue
		}
		sc, cc := net.Pipe()
		pipes = append(pipes, sc, cc)
		nc := l.ncalls()
		select {
		case l.ch <- acceptRes{c: sc}:
		case <-time.After(1500 * time.Millisecond):
			outs = append(outs, e+":not-accepting")
			continue
		}
		served := 0
		var tc *tls.Conn
		if e == "A" {
			tc = tls.Client(cc, &tls.Config{InsecureSkipVerify: true})
			cc.SetDeadline(time.Now().Add(2 * time.Second))
			if err := tc.Handshake(); err == nil {
				cc.SetDeadline(time.Time{})
				clients = append(clients, tc)
				id++
				if probe(tc, id) {
					served = 1
				}
			}
		}
		again := waitParked(nc+1, 1500*time.Millisecond)
		st := "run"
		if returned {
			st = "stopped"
		} else if !again {
			st = "stuck"
		}
		if e == "A" {
			outs = append(outs, fmt.Sprintf("A:served=%d,%s", served, st))
		} else {
			outs = append(outs, "S:"+st)
		}
	}
	alive := 0
	for _, tc := range clients {
		id++
		if probe(tc, id) {
			alive++
		}
	}
	outs = append(outs, fmt.Sprintf("alive=%d/%d", alive, len(clients)))
	for _, p := range pipes {
		p.Close()
	}
	if !returned {
		select {
		case l.ch <- acceptRes{err: acceptPermErr{}}:
		case <-time.After(time.Second):
		}
	}
	return strings.Join(outs, " ; ")
}

func execConnAccept(toks []string) string {
	evS, _ := kvGet(toks, "ev")
	if t, _ := kvGet(toks, "tls"); t == "1" {
		return execConnAcceptTLS(evS)
	}
	l := &scriptListener{ch: make(chan acceptRes)}
	h := &countHandler{count: map[string]int{}}
	// hold=1: from the first accepted connection on, a handler of that connection stays blocked
	// for the rest of the script (released before the final probe); X: the most recently accepted
	// other connection is closed by its peer. Neither concerns the listener or the other connections.
	holdS, _ := kvGet(toks, "hold")
	if holdS == "1" {
		h.release = make(chan struct{})
		h.held = make(chan struct{})
	}
	holding := false
	var heldConn *memConn
	srv := &diam.Server{Handler: h, Dict: dict.Default}
	done := make(chan error, 1)
	go func() { done <- srv.Serve(l) }()
	returned := false
	// wait for the Accept call number `want` to have begun, or for Serve to return
	waitParked := func(want int, limit time.Duration) bool {
		deadline := time.Now().Add(limit)
		for time.Now().Before(deadline) {
			if l.ncalls() >= want {
				return true
			}
			select {
			case <-done:
				returned = true
				return false
			default:
			}
			time.Sleep(200 * time.Microsecond)
		}
		return false
	}
	waitParked(1, time.Second)
	var conns []*memConn
	probe := func(mc *memConn, id uint32) bool {
		key := mc.remote.String()
		before := h.get(key)
		mc.deliver(simpleMsg(280, 0x80, 0, id, id))
		return waitFor(func() bool { return h.get(key) > before }, 500*time.Millisecond)
	}
	var outs []string
	id := uint32(0)
	for _, e := range strings.Split(evS, ",") {
		if returned {
			outs = append(outs, "skip")
			continue
		}
		var res acceptRes
		var mc *memConn
		if e == "X" {
			done := "none"
			for i := len(conns) - 1; i >= 0; i-- {
				if conns[i] != heldConn && !conns[i].isDone() {
					conns[i].peerEOF()
					waitFor(conns[i].isClosed, 300*time.Millisecond)
					done = "done"
					break
				}
			}
			outs = append(outs, "X:"+done)
			continue
		}
		switch e {
		case "A":
			mc = newMemConn()
			mc.remote = memAddr{"tcp", fmt.Sprintf("10.9.9.%d:49152", len(conns)+1)}
			res.c = mc
		case "T":
			res.err = &net.OpError{Op: "accept", Net: "tcp", Err: syscall.ECONNABORTED}
		case "F":
			res.err = &net.OpError{Op: "accept", Net: "tcp", Err: syscall.EMFILE}
		case "U":
			res.err = bothErr{}
		case "P":
			res.err = acceptPermErr{}
		default:
			continue
		}
		nc := l.ncalls()
		select {
		case l.ch <- res:
		case <-time.After(3 * time.Second):
			outs = append(outs, e+":not-accepting")
			continue
		}
		t0 := time.Now()
		again := waitParked(nc+1, 4*time.Second)
		ms := time.Since(t0).Milliseconds()
		st := "run"
		if returned {
			st = "stopped"
		} else if !again {
			st = "stuck"
		}
		switch e {
		case "A":
			conns = append(conns, mc)
			id++
			served := 0
			if probe(mc, id) {
				served = 1
			}
			outs = append(outs, fmt.Sprintf("A:served=%d,%s", served, st))
			if holdS == "1" && !holding && served == 1 {
				holding = true
				heldConn = mc
				mc.deliver(simpleMsg(280, 0x80, 0, 777777, 777777))
				select {
				case <-h.held:
				case <-time.After(time.Second):
				}
			}
		case "P":
			l.mu.Lock()
			cl := l.closed
			l.mu.Unlock()
			outs = append(outs, fmt.Sprintf("P:%s,lclosed=%d", st, cl))
		default:
			outs = append(outs, fmt.Sprintf("%s:ms=%d,%s", e, ms, st))
		}
	}
	// every connection accepted so far is still served, whatever happened to the listener
	if h.release != nil {
		close(h.release)
		time.Sleep(time.Millisecond)
	}
	alive, total := 0, 0
	for _, mc := range conns {
		if mc.isDone() { // closed by its peer (X)
			continue
		}
		total++
		id++
		if probe(mc, id) {
			alive++
		}
	}
	outs = append(outs, fmt.Sprintf("alive=%d/%d", alive, total))
	for _, mc := range conns {
		mc.Close()
	}
	if !returned {
		select {
		case l.ch <- acceptRes{err: acceptPermErr{}}:
		case <-time.After(3 * time.Second):
		}
	}
	return strings.Join(outs, " ; ")
}

func genConnAccept(r *RNG, n int, op string, emit func(string)) {
	for i := 0; i < n; i++ {
		var evs []string
		steps := 2 + r.Intn(7)
		for s := 0; s < steps; s++ {
			c := r.Intn(100)
			switch {
			case c < 45:
				evs = append(evs, "A")
			case c < 65:
				evs = append(evs, "T")
			case c < 80:
				evs = append(evs, "F")
			case c < 90:
				evs = append(evs, "U")
			case c < 94:
				evs = append(evs, "P")
			default:
				evs = append(evs, "A")
			}
		}
		if i%37 == 5 { // a long run of temporary errors: the back-off reaches its cap
			evs = append([]string{"A"}, strings.Split(strings.Repeat("T,", 9)+"A", ",")...)
		}
		line := "conn accept ev=" + strings.Join(evs, ",")
		if r.Chance(40) { // with a handler blocked on the first connection, and peers leaving
			for k := range evs {
				if k > 0 && r.Chance(20) {
					evs[k] = "X"
				}
			}
			line = "conn accept ev=" + strings.Join(evs, ",") + " hold=1"
		}
		emit(line)
		if i%6 == 1 { // a TLS listener with peers that never start their handshake
			var te []string
			for k, m := 0, 2+r.Intn(5); k < m; k++ {
				te = append(te, []string{"A", "A", "S"}[r.Intn(3)])
			}
			emit("conn accept ev=" + strings.Join(te, ",") + " tls=1")
		}
	}
}

func init() {
	executors["conn accept"] = execConnAccept
	connGens["accept"] = genConnAccept
}

// conn tlscn when=<before|after> peer=<garbage|eof>: a TLS connection whose handshake fails;
// CloseNotify is requested before or after the failure. The connection is gone either way.
func execConnTLSCN(toks []string) string {
	when, _ := kvGet(toks, "when")
	peer, _ := kvGet(toks, "peer")
	sc, cc := net.Pipe()
	defer sc.Close()
	defer cc.Close()
	tc := tls.Client(sc, &tls.Config{InsecureSkipVerify: true})
	c, err := diam.NewConn(tc, "pipe", diam.HandlerFunc(func(diam.Conn, *diam.Message) {}), dict.Default)
	if err != nil {
		return "err"
	}
	var cn <-chan struct{}
	if when == "before" {
		cn = c.(diam.CloseNotifier).CloseNotify()
	}
	// the peer: takes the ClientHello and answers with something that is not TLS, or hangs up
	go func() {
		buf := make([]byte, 4096)
		cc.SetReadDeadline(time.Now().Add(time.Second))
		cc.Read(buf)
		if peer == "garbage" {
			cc.SetWriteDeadline(time.Now().Add(time.Second))
			cc.Write([]byte("HTTP/1.1 400 Bad Request\r\n\r\n"))
			time.Sleep(20 * time.Millisecond)
		}
		cc.Close()
	}()
	// give the handshake time to fail
	time.Sleep(60 * time.Millisecond)
	if when != "before" {
		time.Sleep(5 * time.Millisecond)
		cn = c.(diam.CloseNotifier).CloseNotify()
	}
	st := "open"
	select {
	case <-cn:
		st = "closed"
	case <-time.After(400 * time.Millisecond):
	}
	return fmt.Sprintf("cn=%s", st)
}

func init() {
	executors["conn tlscn"] = execConnTLSCN
	connGens["tlscn"] = func(r *RNG, n int, op string, emit func(string)) {
		for i := 0; i < n; i++ {
			emit(fmt.Sprintf("conn tlscn when=%s peer=%s seq=%d", []string{"before", "after"}[i%2], []string{"garbage", "eof"}[(i/2)%2], i))
		}
	}
}
