package main

import (
	"fmt"
	"net"
	"strings"
	"sync"
	"syscall"
	"time"

	"github.com/fiorix/go-diameter/v4/diam"
	"github.com/fiorix/go-diameter/v4/diam/dict"
)

// conn accept: Server.Serve over a scripted net.Listener.
//   A  Accept returns a new in-memory connection
//   T  Accept fails with a temporary error that is not a timeout (ECONNABORTED)
//   F  Accept fails with a temporary error (EMFILE)
//   U  Accept fails with an error that is both temporary and a timeout
//   P  Accept fails with a permanent error
// After every event the harness waits for Serve to be parked in Accept again (or to have
// returned) and reports what it sees.

type acceptRes struct {
	c   net.Conn
	err error
}

type scriptListener struct {
	mu      sync.Mutex
	ch      chan acceptRes
	waiting int
	calls   int
	closed  int
}

func (l *scriptListener) Accept() (net.Conn, error) {
	l.mu.Lock()
	l.waiting++
	l.calls++
	l.mu.Unlock()
	r := <-l.ch
	l.mu.Lock()
	l.waiting--
	l.mu.Unlock()
	return r.c, r.err
}
func (l *scriptListener) Close() error   { l.mu.Lock(); l.closed++; l.mu.Unlock(); return nil }
func (l *scriptListener) Addr() net.Addr { return memAddr{"tcp", "10.1.2.3:3868"} }
func (l *scriptListener) ncalls() int    { l.mu.Lock(); defer l.mu.Unlock(); return l.calls }

type bothErr struct{}

func (bothErr) Error() string   { return "accept: i/o timeout" }
func (bothErr) Timeout() bool   { return true }
func (bothErr) Temporary() bool { return true }

type acceptPermErr struct{}

func (acceptPermErr) Error() string { return "accept: listener failed" }

type countHandler struct {
	mu    sync.Mutex
	count map[string]int
}

func (h *countHandler) ServeDIAM(c diam.Conn, m *diam.Message) {
	h.mu.Lock()
	h.count[c.RemoteAddr().String()]++
	h.mu.Unlock()
}
func (h *countHandler) get(k string) int { h.mu.Lock(); defer h.mu.Unlock(); return h.count[k] }

func execConnAccept(toks []string) string {
	evS, _ := kvGet(toks, "ev")
	l := &scriptListener{ch: make(chan acceptRes)}
	h := &countHandler{count: map[string]int{}}
	srv := &diam.Server{Handler: h, Dict: dict.Default}
	done := make(chan error, 1)
	go func() { done <- srv.Serve(l) }()
	returned := false
	// wait for the Accept call number `want` to have begun, or for Serve to return
	waitParked := func(want int, limit time.Duration) bool {
		deadline := time.Now().Add(limit)
		for time.Now().Before(deadline) {
			if l.ncalls() >= want {
				return true
			}
			select {
			case <-done:
				returned = true
				return false
			default:
			}
			time.Sleep(200 * time.Microsecond)
		}
		return false
	}
	waitParked(1, time.Second)
	var conns []*memConn
	probe := func(mc *memConn, id uint32) bool {
		key := mc.remote.String()
		before := h.get(key)
		mc.deliver(simpleMsg(280, 0x80, 0, id, id))
		return waitFor(func() bool { return h.get(key) > before }, 500*time.Millisecond)
	}
	var outs []string
	id := uint32(0)
	for _, e := range strings.Split(evS, ",") {
		if returned {
			outs = append(outs, "skip")
			continue
		}
		var res acceptRes
		var mc *memConn
		switch e {
		case "A":
			mc = newMemConn()
			mc.remote = memAddr{"tcp", fmt.Sprintf("10.9.9.%d:49152", len(conns)+1)}
			res.c = mc
		case "T":
			res.err = &net.OpError{Op: "accept", Net: "tcp", Err: syscall.ECONNABORTED}
		case "F":
			res.err = &net.OpError{Op: "accept", Net: "tcp", Err: syscall.EMFILE}
		case "U":
			res.err = bothErr{}
		case "P":
			res.err = acceptPermErr{}
		default:
			continue
		}
		nc := l.ncalls()
		select {
		case l.ch <- res:
		case <-time.After(3 * time.Second):
			outs = append(outs, e+":not-accepting")
			continue
		}
		t0 := time.Now()
		again := waitParked(nc+1, 4*time.Second)
		ms := time.Since(t0).Milliseconds()
		st := "run"
		if returned {
			st = "stopped"
		} else if !again {
			st = "stuck"
		}
		switch e {
		case "A":
			conns = append(conns, mc)
			id++
			served := 0
			if probe(mc, id) {
				served = 1
			}
			outs = append(outs, fmt.Sprintf("A:served=%d,%s", served, st))
		case "P":
			l.mu.Lock()
			cl := l.closed
			l.mu.Unlock()
			outs = append(outs, fmt.Sprintf("P:%s,lclosed=%d", st, cl))
		default:
			outs = append(outs, fmt.Sprintf("%s:ms=%d,%s", e, ms, st))
		}
	}
	// every connection accepted so far is still served, whatever happened to the listener
	alive := 0
	for _, mc := range conns {
		id++
		if probe(mc, id) {
			alive++
		}
	}
	outs = append(outs, fmt.Sprintf("alive=%d/%d", alive, len(conns)))
	for _, mc := range conns {
		mc.Close()
	}
	if !returned {
		select {
		case l.ch <- acceptRes{err: acceptPermErr{}}:
		case <-time.After(3 * time.Second):
		}
	}
	return strings.Join(outs, " ; ")
}

func genConnAccept(r *RNG, n int, op string, emit func(string)) {
	for i := 0; i < n; i++ {
		var evs []string
		steps := 2 + r.Intn(7)
		for s := 0; s < steps; s++ {
			c := r.Intn(100)
			switch {
			case c < 45:
				evs = append(evs, "A")
			case c < 65:
				evs = append(evs, "T")
			case c < 80:
				evs = append(evs, "F")
			case c < 90:
				evs = append(evs, "U")
			case c < 94:
				evs = append(evs, "P")
			default:
				evs = append(evs, "A")
			}
		}
		if i%37 == 5 { // a long run of temporary errors: the back-off reaches its cap
			evs = append([]string{"A"}, strings.Split(strings.Repeat("T,", 9)+"A", ",")...)
		}
		emit("conn accept ev=" + strings.Join(evs, ","))
	}
}

func init() {
	executors["conn accept"] = execConnAccept
	connGens["accept"] = genConnAccept
}
