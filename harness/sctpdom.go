//go:build verif

package main

// Domain "sctp" (C19, the stream clause of C16, C14 over an association): diam.SCTPConn over
// the in-memory backend of the 'verif' hook.
//
//	sctp demux fin=<eof|err> chunks=<σ:hex,σ:hex,...>
//	      the connection's reader loop by hand: ResetCurrentStream; ReadMessage - until the first
//	      error. Output: "<stream>:<hop-by-hop id> ... <end class>"
//	sctp serve cn=<none|start|end> fin=<eof|err> chunks=...
//	      a real diam.Conn (reader goroutine) over the association; the handler answers every
//	      request with Message.Answer(2001).WriteTo(conn). Output: handler calls, writes seen by
//	      the backend with their stream, final state of transport and CloseNotify channel.

import (
	"sync/atomic"
	"encoding/hex"
	"fmt"
	"io"
	"net"
	"os"
	"strconv"
	"strings"
	"sync"
	"time"

	"github.com/fiorix/go-diameter/v4/diam"
	"github.com/fiorix/go-diameter/v4/diam/datatype"
	"github.com/fiorix/go-diameter/v4/diam/dict"
)

type sctpChunk struct {
	stream uint16
	data   []byte
}

type sctpWrite struct {
	stream uint16
	ppid   uint32
	data   []byte
}

type sctpBackend struct {
	mu     sync.Mutex
	cond   *sync.Cond
	chunks []sctpChunk
	fin    error // returned once the chunks are exhausted (nil: block)
	closed bool
	writes []sctpWrite
	reads  int
	stall  time.Duration // sctp wstall: the next armed write waits this long before it is taken
	armed  bool
}

// armStall: the next SCTPWrite stalls (once) before the transport takes its bytes
func (b *sctpBackend) armStall() {
	b.mu.Lock()
	b.armed = b.stall > 0
	b.mu.Unlock()
}

func newSCTPBackend(chunks []sctpChunk, fin error) *sctpBackend {
	b := &sctpBackend{chunks: chunks, fin: fin}
	b.cond = sync.NewCond(&b.mu)
	return b
}

func (b *sctpBackend) SCTPRead(p []byte) (int, uint16, bool, error) {
	b.mu.Lock()
	defer b.mu.Unlock()
	b.reads++
	for {
		if b.closed {
			return 0, 0, false, errMemClosed
		}
		if len(b.chunks) > 0 {
			c := b.chunks[0]
			n := copy(p, c.data)
			if n == len(c.data) {
				b.chunks = b.chunks[1:]
			} else {
				b.chunks[0].data = c.data[n:]
			}
			return n, c.stream, true, nil
		}
		if b.fin != nil {
			return 0, 0, false, b.fin
		}
		b.cond.Wait()
	}
}

func (b *sctpBackend) SCTPWrite(p []byte, stream uint16, ppid uint32) (int, error) {
	b.mu.Lock()
	if b.armed {
		b.armed = false
		d := b.stall
		b.mu.Unlock()
		time.Sleep(d)
		b.mu.Lock()
	}
	defer b.mu.Unlock()
	if b.closed {
		return 0, errMemClosed
	}
	b.writes = append(b.writes, sctpWrite{stream, ppid, append([]byte(nil), p...)})
	return len(p), nil
}

func (b *sctpBackend) Close() error {
	b.mu.Lock()
	b.closed = true
	b.cond.Broadcast()
	b.mu.Unlock()
	return nil
}
func (b *sctpBackend) isClosed() bool       { b.mu.Lock(); defer b.mu.Unlock(); return b.closed }
func (b *sctpBackend) LocalAddr() net.Addr  { return memAddr{"sctp", "10.1.2.3/10.1.2.4:3868"} }
func (b *sctpBackend) RemoteAddr() net.Addr { return memAddr{"sctp", "10.9.9.9:49152"} }

func parseChunks(s string) ([]sctpChunk, bool) {
	var out []sctpChunk
	if s == "" || s == "-" {
		return out, true
	}
	for _, t := range strings.Split(s, ",") {
		p := strings.SplitN(t, ":", 2)
		if len(p) != 2 {
			return nil, false
		}
		st, err := strconv.Atoi(p[0])
		if err != nil {
			return nil, false
		}
		d, err := hex.DecodeString(p[1])
		if err != nil || len(d) == 0 {
			return nil, false
		}
		out = append(out, sctpChunk{uint16(st), d})
	}
	return out, true
}

func finErr(s string) error {
	if s == "err" {
		return errMemRead
	}
	return io.EOF
}

func execSctpDemux(toks []string) string {
	cs, _ := kvGet(toks, "chunks")
	fs, _ := kvGet(toks, "fin")
	chunks, ok := parseChunks(cs)
	if !ok {
		return "badinput"
	}
	be := newSCTPBackend(chunks, finErr(fs))
	msc := diam.NewVerifSCTPConn(be)
	defer diam.VerifReleaseSCTPConn(msc)
	var outs []string
	for i := 0; i < 10000; i++ {
		msc.ResetCurrentStream()
		m, err := diam.ReadMessage(msc, dict.Default)
		if err != nil {
			// the stream the failing message was being read from, when the header got that far
			at := ""
			if cs := msc.CurrentStream(); cs != diam.InvalidStreamID {
				at = fmt.Sprintf("@%d", cs)
			}
			outs = append(outs, classifyReadErr(err)+at)
			break
		}
		outs = append(outs, fmt.Sprintf("%d:%d", m.MessageStream(), m.Header.HopByHopID))
	}
	return strings.Join(outs, " ")
}

func execSctpServe(toks []string) string {
	cs, _ := kvGet(toks, "chunks")
	fs, _ := kvGet(toks, "fin")
	cnMode, _ := kvGet(toks, "cn")
	chunks, ok := parseChunks(cs)
	if !ok {
		return "badinput"
	}
	// the association delivers nothing until the script says so
	be := newSCTPBackend(nil, nil)
	msc := diam.NewVerifSCTPConn(be)
	defer diam.VerifReleaseSCTPConn(msc)
	var mu sync.Mutex
	var events []string
	var active int32
	h := diam.HandlerFunc(func(c diam.Conn, m *diam.Message) {
		// one association is one connection: its handlers run one at a time, whatever the streams
		if atomic.AddInt32(&active, 1) > 1 {
			mu.Lock()
			events = append(events, "OVERLAP")
			mu.Unlock()
		}
		defer atomic.AddInt32(&active, -1)
		mu.Lock()
		events = append(events, fmt.Sprintf("h:%d:%d", m.MessageStream(), m.Header.HopByHopID))
		mu.Unlock()
		time.Sleep(150 * time.Microsecond)
		if m.Header.CommandFlags&diam.RequestFlag != 0 {
			a := m.Answer(2001)
			a.NewAVP(264, 0x40, 0, datatype.DiameterIdentity("srv"))
			be.mu.Lock()
			before := len(be.writes)
			be.mu.Unlock()
			a.WriteTo(c)
			be.mu.Lock()
			for _, w := range be.writes[before:] {
				hbh := uint32(0)
				if len(w.data) >= 16 {
					hbh = uint32(w.data[12])<<24 | uint32(w.data[13])<<16 | uint32(w.data[14])<<8 | uint32(w.data[15])
				}
				events = append(events, fmt.Sprintf("w:%d:%d:%d", w.stream, hbh, w.ppid>>24))
			}
			be.mu.Unlock()
		}
	})
	var hh diam.Handler = h
	if os.Getenv("VERIF_DEBUG") != "" {
		hh = dbgHandler{h}
	}
	c, err := diam.NewConn(msc, "mem-sctp", hh, dict.Default)
	if err != nil {
		return "err"
	}
	var cn <-chan struct{}
	if cnMode == "start" {
		cn = c.(diam.CloseNotifier).CloseNotify()
	}
	be.mu.Lock()
	be.chunks = chunks
	be.fin = finErr(fs)
	be.cond.Broadcast()
	be.mu.Unlock()
	// the reader ends when the association does (EOF / error / undecodable message)
	waitFor(be.isClosed, 2*time.Second)
	time.Sleep(time.Millisecond)
	if cnMode == "end" {
		cn = c.(diam.CloseNotifier).CloseNotify()
	}
	cnState := "none"
	if cn != nil {
		select {
		case <-cn:
			cnState = "closed"
		case <-time.After(150 * time.Millisecond):
			cnState = "open"
		}
	}
	end := "open"
	if be.isClosed() {
		end = "closed"
	}
	be.Close()
	mu.Lock()
	defer mu.Unlock()
	// the stream the reader was pinned to when it stopped (which buffered stream the heap served
	// last is not observable otherwise; ties between equally long buffers are the heap's choice)
	at := ""
	if cs := msc.CurrentStream(); cs != diam.InvalidStreamID {
		at = fmt.Sprintf(" at=%d", cs)
	}
	return strings.TrimSpace(strings.Join(events, " ") + " end=" + end + " cn=" + cnState + at)
}

type dbgHandler struct{ diam.HandlerFunc }

func (d dbgHandler) Error(er *diam.ErrorReport)             { fmt.Fprintln(os.Stderr, "ERROR REPORT:", er.Error) }
func (d dbgHandler) ErrorReports() <-chan *diam.ErrorReport { return nil }

// ---- generators

type sctpStream struct {
	id    uint16
	bytes []byte
}

func cutChunks(r *RNG, st sctpStream, mode int) []sctpChunk {
	var out []sctpChunk
	b := st.bytes
	for len(b) > 0 {
		var k int
		switch mode {
		case 0: // small pieces, often inside the 20-byte header
			k = 1 + r.Intn(30)
		case 1: // big pieces spanning messages
			k = 1 + r.Intn(4000)
		default:
			k = 1 + r.Intn(200)
		}
		if k > len(b) {
			k = len(b)
		}
		out = append(out, sctpChunk{st.id, b[:k]})
		b = b[k:]
	}
	return out
}

func interleave(r *RNG, per [][]sctpChunk) []sctpChunk {
	var out []sctpChunk
	idx := make([]int, len(per))
	for {
		var live []int
		for i := range per {
			if idx[i] < len(per[i]) {
				live = append(live, i)
			}
		}
		if len(live) == 0 {
			return out
		}
		i := live[r.Intn(len(live))]
		// bursts: sometimes several chunks of the same stream in a row
		n := 1
		if r.Chance(30) {
			n += r.Intn(3)
		}
		for ; n > 0 && idx[i] < len(per[i]); n-- {
			out = append(out, per[i][idx[i]])
			idx[i]++
		}
	}
}

func showChunks(cs []sctpChunk) string {
	if len(cs) == 0 {
		return "-"
	}
	var p []string
	for _, c := range cs {
		p = append(p, fmt.Sprintf("%d:%s", c.stream, hex.EncodeToString(c.data)))
	}
	return strings.Join(p, ",")
}

func genSctp(r *RNG, n int, op string, emit func(string)) {
	if op == "exhaustive" {
		genSctpExhaustive(emit)
		return
	}
	if op == "canswer" {
		genSctpCAnswer(r, n, emit)
		return
	}
	if op == "wstall" {
		genSctpWStall(r, n, emit)
		return
	}
	for i := 0; i < n; i++ {
		ns := 1 + r.Intn(4)
		id := uint32(0)
		var per [][]sctpChunk
		used := map[uint16]bool{}
		for s := 0; s < ns; s++ {
			sid := uint16(r.Intn(8))
			if r.Chance(10) {
				sid = uint16([]int{15, 255, 65535, 16}[r.Intn(4)])
			}
			if used[sid] {
				continue
			}
			used[sid] = true
			var b []byte
			for j, k := 0, r.Intn(4); j < k; j++ {
				id++
				var m []byte
				switch r.Intn(6) {
				case 0:
					m = simpleMsg(280, 0x80, 0, id, id)
				case 1: // above the pooled 1 KiB body
					m = simpleMsg(280, 0x80, 0, id, id, diam.NewAVP(264, 0x40, 0, datatype.DiameterIdentity(strings.Repeat("x", 1000+r.Intn(2000)))))
				case 2:
					m = simpleMsg(257, 0, 0, id, id, diam.NewAVP(268, 0x40, 0, datatype.Unsigned32(2001)))
				default:
					m = simpleMsg(280, 0x80, 0, id, id, diam.NewAVP(264, 0x40, 0, datatype.DiameterIdentity(strings.Repeat("a", r.Intn(60)))), diam.NewAVP(296, 0x40, 0, datatype.DiameterIdentity("r")))
				}
				b = append(b, m...)
			}
			if op != "serve" {
				switch r.Intn(12) {
				case 0: // stream ends inside a message
					if len(b) > 3 {
						b = b[:len(b)-1-r.Intn(len(b)-1)]
					}
				case 1: // a command no dictionary knows, followed by data
					id++
					b = append(b, rawHeader(20, 0x80, 9999, 0, id, id)...)
					b = append(b, r.Bytes(r.Intn(30))...)
				case 2: // declared length below the header
					id++
					b = append(b, rawHeader(r.Intn(20), 0x80, 280, 0, id, id)...)
				}
			} else if r.Chance(15) {
				id++
				b = append(b, rawHeader(20, 0x80, 9999, 0, id, id)...)
				b = append(b, r.Bytes(8+r.Intn(30))...)
			}
			if len(b) == 0 {
				continue
			}
			per = append(per, cutChunks(r, sctpStream{sid, b}, r.Intn(3)))
		}
		chunks := interleave(r, per)
		fin := "eof"
		if r.Chance(20) {
			fin = "err"
		}
		if op == "serve" {
			emit(fmt.Sprintf("sctp serve cn=%s fin=%s chunks=%s", []string{"none", "start", "start", "end"}[r.Intn(4)], fin, showChunks(chunks)))
		} else {
			emit(fmt.Sprintf("sctp demux fin=%s chunks=%s", fin, showChunks(chunks)))
		}
	}
}

// two streams x two messages (20 and 28 bytes) each, every single cut point per stream, every
// interleaving of the resulting (at most 2+2) chunks
func genSctpExhaustive(emit func(string)) {
	mk := func(base uint32) []byte {
		a := simpleMsg(280, 0x80, 0, base, base)
		b := simpleMsg(280, 0x80, 0, base+1, base+1, diam.NewAVP(264, 0x40, 0, datatype.DiameterIdentity("a")))
		return append(a, b...)
	}
	s0, s1 := mk(1), mk(11)
	for c0 := 0; c0 <= len(s0); c0 += 1 {
		for c1 := 0; c1 <= len(s1); c1 += 3 {
			split := func(id uint16, b []byte, c int) []sctpChunk {
				if c == 0 || c == len(b) {
					return []sctpChunk{{id, b}}
				}
				return []sctpChunk{{id, b[:c]}, {id, b[c:]}}
			}
			a, b := split(0, s0, c0), split(1, s1, c1)
			// all interleavings preserving per-stream order
			var rec func(i, j int, acc []sctpChunk)
			rec = func(i, j int, acc []sctpChunk) {
				if i == len(a) && j == len(b) {
					emit(fmt.Sprintf("sctp demux fin=eof chunks=%s", showChunks(acc)))
					return
				}
				if i < len(a) {
					rec(i+1, j, append(append([]sctpChunk(nil), acc...), a[i]))
				}
				if j < len(b) {
					rec(i, j+1, append(append([]sctpChunk(nil), acc...), b[j]))
				}
			}
			rec(0, 0, nil)
		}
	}
}

func init() {
	executors["sctp demux"] = execSctpDemux
	executors["sctp serve"] = execSctpServe
	generators["sctp"] = genSctp
}
