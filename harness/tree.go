package main

import (
	"encoding/binary"
	"encoding/hex"
	"fmt"
	"math"
	"strconv"
	"strings"
	"time"

	"github.com/fiorix/go-diameter/v4/diam"
	"github.com/fiorix/go-diameter/v4/diam/datatype"
)

// Canonical text form of AVP trees and headers, shared with the Lean driver
// (Driver/Util.lean): A(code,flags,length,vendor,val); val = s<t>:<hex> | a:<hex> |
// 4:<hex> | 6:<hex> | f<t>:<bits> | t:<unix> | g[...]

func hexOrDash(b []byte) string {
	if len(b) == 0 {
		return "-"
	}
	return hex.EncodeToString(b)
}

func showVal(d datatype.Type) string {
	switch v := d.(type) {
	case datatype.Unknown:
		return "s0:" + hexOrDash([]byte(v))
	case datatype.DiameterIdentity:
		return "s2:" + hexOrDash([]byte(v))
	case datatype.DiameterURI:
		return "s3:" + hexOrDash([]byte(v))
	case datatype.Grouped:
		return "s7:" + hexOrDash([]byte(v))
	case datatype.IPFilterRule:
		return "s8:" + hexOrDash([]byte(v))
	case datatype.OctetString:
		return "s12:" + hexOrDash([]byte(v))
	case datatype.QoSFilterRule:
		return "s13:" + hexOrDash([]byte(v))
	case datatype.UTF8String:
		return "s15:" + hexOrDash([]byte(v))
	case datatype.Address:
		return "a:" + hexOrDash([]byte(v))
	case datatype.IPv4:
		return "4:" + hexOrDash([]byte(v))
	case datatype.IPv6:
		return "6:" + hexOrDash([]byte(v))
	case datatype.Enumerated:
		return fmt.Sprintf("f4:%d", uint32(v))
	case datatype.Float32:
		return fmt.Sprintf("f5:%d", math.Float32bits(float32(v)))
	case datatype.Float64:
		return fmt.Sprintf("f6:%d", math.Float64bits(float64(v)))
	case datatype.Integer32:
		return fmt.Sprintf("f10:%d", uint32(v))
	case datatype.Integer64:
		return fmt.Sprintf("f11:%d", uint64(v))
	case datatype.Unsigned32:
		return fmt.Sprintf("f16:%d", uint32(v))
	case datatype.Unsigned64:
		return fmt.Sprintf("f17:%d", uint64(v))
	case datatype.Time:
		return fmt.Sprintf("t:%d", time.Time(v).Unix())
	case *datatype.Time:
		return "tp:pointer"
	case *diam.GroupedAVP:
		return "g" + showAVPs(v.AVP)
	case nil:
		return "nil"
	}
	return fmt.Sprintf("?%T", d)
}

func showAVP(a *diam.AVP) string {
	if a == nil {
		return "nilavp"
	}
	return fmt.Sprintf("A(%d,%d,%d,%d,%s)", a.Code, a.Flags, a.Length, a.VendorID, showVal(a.Data))
}

func showAVPs(as []*diam.AVP) string {
	var sb strings.Builder
	sb.WriteByte('[')
	for i, a := range as {
		if i > 0 {
			sb.WriteByte(';')
		}
		sb.WriteString(showAVP(a))
	}
	sb.WriteByte(']')
	return sb.String()
}

func showHdr(h *diam.Header) string {
	return fmt.Sprintf("H(%d,%d,%d,%d,%d,%d,%d)", h.Version, h.MessageLength, h.CommandFlags, h.CommandCode, h.ApplicationID, h.HopByHopID, h.EndToEndID)
}

// ---- parsing

type parser struct {
	s string
	i int
}

func (p *parser) fail(msg string) { panic(fmt.Sprintf("tree parse: %s at %d in %.60q", msg, p.i, p.s)) }
func (p *parser) peek() byte {
	if p.i < len(p.s) {
		return p.s[p.i]
	}
	return 0
}
func (p *parser) expect(c byte) {
	if p.peek() != c {
		p.fail("expected " + string(c))
	}
	p.i++
}
func (p *parser) nat() uint64 {
	j := p.i
	for p.i < len(p.s) && p.s[p.i] >= '0' && p.s[p.i] <= '9' {
		p.i++
	}
	if j == p.i {
		p.fail("number")
	}
	v, err := strconv.ParseUint(p.s[j:p.i], 10, 64)
	if err != nil {
		p.fail("number range")
	}
	return v
}
func (p *parser) int() int64 {
	neg := false
	if p.peek() == '-' {
		neg = true
		p.i++
	}
	v := int64(p.nat())
	if neg {
		return -v
	}
	return v
}
func (p *parser) hex() []byte {
	if p.peek() == '-' {
		p.i++
		return []byte{}
	}
	j := p.i
	for p.i < len(p.s) && strings.IndexByte("0123456789abcdefABCDEF", p.s[p.i]) >= 0 {
		p.i++
	}
	b, err := hex.DecodeString(p.s[j:p.i])
	if err != nil {
		p.fail("hex")
	}
	return b
}

func (p *parser) val() datatype.Type {
	switch p.peek() {
	case 's':
		p.i++
		t := p.nat()
		p.expect(':')
		b := p.hex()
		switch t {
		case 0:
			return datatype.Unknown(b)
		case 2:
			return datatype.DiameterIdentity(b)
		case 3:
			return datatype.DiameterURI(b)
		case 7:
			return datatype.Grouped(b)
		case 8:
			return datatype.IPFilterRule(b)
		case 12:
			return datatype.OctetString(b)
		case 13:
			return datatype.QoSFilterRule(b)
		case 15:
			return datatype.UTF8String(b)
		}
		p.fail("string type")
	case 'a':
		p.i++
		p.expect(':')
		return datatype.Address(p.hex())
	case '4':
		p.i++
		p.expect(':')
		return datatype.IPv4(p.hex())
	case '6':
		p.i++
		p.expect(':')
		return datatype.IPv6(p.hex())
	case 'f':
		p.i++
		t := p.nat()
		p.expect(':')
		n := p.nat()
		switch t {
		case 4:
			return datatype.Enumerated(int32(uint32(n)))
		case 5:
			return datatype.Float32(math.Float32frombits(uint32(n)))
		case 6:
			return datatype.Float64(math.Float64frombits(n))
		case 10:
			return datatype.Integer32(int32(uint32(n)))
		case 11:
			return datatype.Integer64(int64(n))
		case 16:
			return datatype.Unsigned32(uint32(n))
		case 17:
			return datatype.Unsigned64(n)
		}
		p.fail("fixed type")
	case 't':
		p.i++
		p.expect(':')
		return datatype.Time(time.Unix(p.int(), 0))
	case 'g':
		p.i++
		return &diam.GroupedAVP{AVP: p.avps()}
	}
	p.fail("value")
	return nil
}

// avp builds the AVP the way an API user does: diam.NewAVP (Length computed by the library).
func (p *parser) avp() *diam.AVP {
	p.expect('A')
	p.expect('(')
	code := uint32(p.nat())
	p.expect(',')
	flags := uint8(p.nat())
	p.expect(',')
	_ = p.nat() // length: ignored, the library computes it
	p.expect(',')
	vendor := uint32(p.nat())
	p.expect(',')
	d := p.val()
	p.expect(')')
	return diam.NewAVP(code, flags, vendor, d)
}

func (p *parser) avps() []*diam.AVP {
	p.expect('[')
	var out []*diam.AVP
	if p.peek() == ']' {
		p.i++
		return out
	}
	for {
		out = append(out, p.avp())
		if p.peek() == ';' {
			p.i++
			continue
		}
		p.expect(']')
		return out
	}
}

func parseAVPs(s string) []*diam.AVP {
	p := &parser{s: s}
	as := p.avps()
	if p.i != len(s) {
		p.fail("trailing")
	}
	return as
}

func parseHdr(s string) *diam.Header {
	p := &parser{s: s}
	p.expect('H')
	p.expect('(')
	var f [7]uint64
	for i := 0; i < 7; i++ {
		f[i] = p.nat()
		if i < 6 {
			p.expect(',')
		}
	}
	p.expect(')')
	return &diam.Header{Version: uint8(f[0]), MessageLength: uint32(f[1]), CommandFlags: uint8(f[2]), CommandCode: uint32(f[3]), ApplicationID: uint32(f[4]), HopByHopID: uint32(f[5]), EndToEndID: uint32(f[6])}
}

func kvGet(toks []string, k string) (string, bool) {
	for _, t := range toks {
		if strings.HasPrefix(t, k+"=") {
			return t[len(k)+1:], true
		}
	}
	return "", false
}

func be32(n uint32) []byte { b := make([]byte, 4); binary.BigEndian.PutUint32(b, n); return b }
func be24(n uint32) []byte { return []byte{byte(n >> 16), byte(n >> 8), byte(n)} }
