package main

import (
	"bytes"
	"encoding/hex"
	"fmt"
	"net"
	"strconv"
	"strings"
	"sync"
	"time"

	"github.com/fiorix/go-diameter/v4/diam"
	"github.com/fiorix/go-diameter/v4/diam/datatype"
	"github.com/fiorix/go-diameter/v4/diam/dict"
	"github.com/fiorix/go-diameter/v4/diam/sm"
	"github.com/fiorix/go-diameter/v4/diam/sm/smpeer"
)

func settingsMenu(k int) *sm.Settings {
	switch k {
	case 0:
		return &sm.Settings{OriginHost: "srv.example.org", OriginRealm: "example.org", VendorID: 13, ProductName: "verif"}
	case 1:
		return &sm.Settings{OriginHost: "a", OriginRealm: "b", VendorID: 0, ProductName: "", OriginStateID: 7, FirmwareRevision: 3,
			HostIPAddresses: []datatype.Address{datatype.Address(net.ParseIP("192.168.1.1")), datatype.Address(net.ParseIP("2001:db8::5"))}}
	case 2:
		return &sm.Settings{OriginHost: "srv2", OriginRealm: "r2", VendorID: 4294967295, ProductName: "p", FirmwareRevision: 1}
	}
	return &sm.Settings{OriginHost: "h", OriginRealm: "r", VendorID: 1, ProductName: "x", HostIPAddress: datatype.Address(net.ParseIP("10.0.0.9"))}
}

var localMenu = map[string]string{
	"v4": "10.1.2.3:3868", "loop": "127.0.0.1:3868", "multi": "10.0.0.1/10.0.0.2:3868", "multiloop": "127.0.0.1/10.0.0.2:3868",
	"v6": "[::1]:3868", "empty": "", "badport": "10.1.2.3:38x8",
	"v6g": "[2001:db8::7]:3868", "v6z": "[fe80::1%eth0]:3868", "mix6": "127.0.0.1/10.0.0.3/[2001:db8::8]:3868",
}

type evLog struct {
	mu  sync.Mutex
	evs []string
}

func (l *evLog) add(s string) { l.mu.Lock(); l.evs = append(l.evs, s); l.mu.Unlock() }

func showMetaGo(c diam.Conn) string {
	m, ok := smpeer.FromContext(c.Context())
	if !ok {
		return "nometa"
	}
	if m == nil { // a context entry without metadata: the gate would take it for a completed handshake
		return "nilmeta"
	}
	var ids []string
	for _, a := range m.Applications {
		ids = append(ids, strconv.Itoa(int(a)))
	}
	return hexOrDash([]byte(m.OriginHost)) + "/" + hexOrDash([]byte(m.OriginRealm)) + "/" + strings.Join(ids, ".")
}

func registerApp(machine *sm.StateMachine, regs string, log *evLog) {
	if regs == "-" || regs == "" {
		return
	}
	mk := func(k int) diam.HandlerFunc {
		return func(c diam.Conn, m *diam.Message) {
			log.add(fmt.Sprintf("A%d:%d:%s", k, m.Header.HopByHopID, showMetaGo(c)))
		}
	}
	for _, t := range strings.Split(regs, ",") {
		p := strings.Split(t, ":")
		switch {
		case p[0] == "a" && len(p) == 2:
			k, _ := strconv.Atoi(p[1])
			machine.HandleFunc("ALL", mk(k))
		case p[0] == "n" && len(p) == 3:
			k, _ := strconv.Atoi(p[2])
			machine.Handle(p[1], mk(k))
		case p[0] == "i" && len(p) == 5:
			a, _ := strconv.ParseUint(p[1], 10, 32)
			c, _ := strconv.ParseUint(p[2], 10, 32)
			k, _ := strconv.Atoi(p[4])
			machine.HandleIdx(diam.CommandIndex{AppID: uint32(a), Code: uint32(c), Request: p[3] == "R"}, mk(k))
		}
	}
	// registrations of built-in keys are refused with an error report; drain it
	select {
	case <-machine.ErrorReports():
	default:
	}
}

func readOne(b []byte) string {
	m, err := diam.ReadMessage(bytes.NewReader(b), dict.Default)
	if err != nil {
		return "unreadable:" + hex.EncodeToString(b)
	}
	return showHdr(m.Header) + showAVPs(m.AVP)
}

func execSMServer(toks []string) string {
	cfgS, _ := kvGet(toks, "cfg")
	loc, _ := kvGet(toks, "local")
	regs, _ := kvGet(toks, "regs")
	segs, _ := kvGet(toks, "segs")
	cfgK, _ := strconv.Atoi(cfgS)
	log := &evLog{}
	machine := sm.New(settingsMenu(cfgK))
	registerApp(machine, regs, log)
	go func() { // keep the report channel empty
		for range machine.ErrorReports() {
		}
	}()
	if locs, ok := kvGet(toks, "locals"); ok {
		// one state machine serving several connections one after another
		var outs []string
		ls := strings.Split(locs, ",")
		ss := strings.Split(segs, "^")
		// connections that completed the handshake, with their metadata as it was then
		type hs struct {
			c    diam.Conn
			meta string
		}
		var hmu sync.Mutex
		var done []hs
		stop := make(chan struct{})
		go func() {
			for {
				select {
				case c := <-machine.HandshakeNotify():
					hmu.Lock()
					done = append(done, hs{c, showMetaGo(c)})
					hmu.Unlock()
				case <-stop:
					return
				}
			}
		}()
		allKept := &keeper{machine: machine}
		for i, l := range ls {
			if i >= len(ss) {
				break
			}
			log.mu.Lock()
			log.evs = nil
			log.mu.Unlock()
			outs = append(outs, runSMConnK(machine, log, l, ss[i], allKept))
		}
		close(stop)
		res := strings.Join(outs, " || ")
		// what the application kept from the earlier connections (dispatched messages, messages
		// handed out with error reports) is as it was, after all the later connections' reads
		if n := allKept.changed(); n > 0 {
			res += fmt.Sprintf(" KEPT:changed=%d", n)
		}
		hmu.Lock()
		for i, h := range done {
			if now := showMetaGo(h.c); now != h.meta {
				res += fmt.Sprintf(" META:changed=%d:%s->%s", i, h.meta, now)
				break
			}
		}
		hmu.Unlock()
		return res
	}
	return runSMConn(machine, log, loc, segs)
}

func runSMConn(machine *sm.StateMachine, log *evLog, loc, segs string) string {
	return runSMConnK(machine, log, loc, segs, nil)
}

// runSMConnK: with a keeper of the caller's (one for all connections of a line) the verdict on
// what was kept is the caller's too
func runSMConnK(machine *sm.StateMachine, log *evLog, loc, segs string, shared *keeper) string {
	mc := newMemConn()
	if s, ok := localMenu[loc]; ok {
		mc.local = memAddr{"tcp", s}
	}
	ending := false
	mc.writeHook = func(c *memConn, b []byte) (int, error) {
		c.record(b)
		log.add("W:" + readOne(b))
		return len(b), nil
	}
	closeSeen := false
	var cmu sync.Mutex
	origClose := func() {
		cmu.Lock()
		if !closeSeen && !ending {
			closeSeen = true
			log.add("C")
		}
		cmu.Unlock()
	}
	wrapped := &closeSpy{memConn: mc, onClose: origClose}
	kp := shared
	if kp == nil {
		kp = &keeper{machine: machine}
	}
	if _, err := diam.NewConn(wrapped, "mem", kp, dict.Default); err != nil {
		return "err"
	}
	for _, s := range strings.Split(segs, "|") {
		b, err := hex.DecodeString(s)
		if err != nil {
			return "badinput"
		}
		if mc.isClosed() {
			break
		}
		mc.deliver(b)
		waitFor(mc.readerParked, 2*time.Second)
	}
	end := "open"
	if mc.isClosed() {
		end = "closed"
	}
	cmu.Lock()
	ending = true
	cmu.Unlock()
	mc.peerEOF()
	waitFor(mc.isClosed, time.Second)
	// messages the application kept (dispatched ones, reported ones) are as they were
	kept := ""
	if n := kp.changed(); n > 0 && shared == nil {
		kept = fmt.Sprintf(" KEPT:changed=%d", n)
	}
	log.mu.Lock()
	defer log.mu.Unlock()
	return strings.Join(append(log.evs, "end="+end), " ") + kept
}

// keeper wraps the state machine: every message dispatched on the connection, and every message
// handed out in an error report, is remembered together with what it looked like at that moment
type keeper struct {
	machine *sm.StateMachine
	mu      sync.Mutex
	msgs    []*diam.Message
	fps     []string
}

func (k *keeper) keep(m *diam.Message) {
	if m == nil {
		return
	}
	fp := ""
	guard(func() { fp = fmt.Sprintf("%+v|%s", *m.Header, m.String()) })
	k.mu.Lock()
	k.msgs = append(k.msgs, m)
	k.fps = append(k.fps, fp)
	k.mu.Unlock()
}
func (k *keeper) ServeDIAM(c diam.Conn, m *diam.Message) { k.keep(m); k.machine.ServeDIAM(c, m) }
func (k *keeper) Error(er *diam.ErrorReport) {
	if er != nil {
		k.keep(er.Message)
	}
	k.machine.Error(er)
}
func (k *keeper) ErrorReports() <-chan *diam.ErrorReport { return k.machine.ErrorReports() }

// changed reports how many kept messages no longer look as they did
func (k *keeper) changed() int {
	k.mu.Lock()
	defer k.mu.Unlock()
	n := 0
	for i, m := range k.msgs {
		fp := ""
		guard(func() { fp = fmt.Sprintf("%+v|%s", *m.Header, m.String()) })
		if fp != k.fps[i] {
			n++
		}
	}
	return n
}

type closeSpy struct {
	*memConn
	onClose func()
}

func (c *closeSpy) Close() error { c.onClose(); return c.memConn.Close() }

// ---------------------------------------------------------------- message builders

type cerSpec struct {
	host, realm   int // 0 absent, 1 present, 2 present empty, 3 vendor-flagged (decodes as opaque), 4 wrong type (Unsigned32)
	inband        int // 0 absent, 1 zero, 2 non-zero, 3 vendor-flagged, 4 wrong type
	apps          []string
	osid          bool
	flags         uint8
	hbh, e2e, app uint32
}

// application AVP kinds: As/Au (acct/auth supported), Ax/Bx unsupported, Aw/Bw wrong type for the id, Ar/Br relay,
// Vs.. vendor-specific groups: Vsa (vendor first, supported auth), Vxa, Vna (no app id inside), Vbad (not grouped), Vas (app first)
func appAVP(kind string) *diam.AVP {
	u := func(code uint32, id uint32) *diam.AVP { return diam.NewAVP(code, 0x40, 0, datatype.Unsigned32(id)) }
	grp := func(as ...*diam.AVP) *diam.AVP {
		return diam.NewAVP(260, 0x40, 0, &diam.GroupedAVP{AVP: as})
	}
	switch kind {
	case "As":
		return u(259, 3) // Base Accounting: acct
	case "Vy":
		return grp(u(266, 10415), u(258, 16777999)) // an application only a custom dictionary knows
	case "Au":
		return u(258, 4) // Charging Control: auth
	case "Au2":
		return u(258, 16777251)
	case "Ax":
		return u(259, 999)
	case "Bx":
		return u(258, 999)
	case "Aw":
		return u(259, 4) // id 4 is auth, asked as acct
	case "Bw":
		return u(258, 3) // id 3 is acct, asked as auth
	case "Ar":
		return u(259, 0xffffffff)
	case "Br":
		return u(258, 0xffffffff)
	case "At": // wrong data type
		return diam.NewAVP(258, 0x40, 0, datatype.OctetString("x"))
	case "Av": // vendor flagged: decodes as opaque data
		return diam.NewAVP(258, 0xc0, 999, datatype.Unknown([]byte{0, 0, 0, 4}))
	case "Vsa":
		return grp(u(266, 10415), u(258, 16777251))
	case "Vas":
		return grp(u(258, 16777251), u(266, 10415))
	case "Vxa":
		return grp(u(266, 10415), u(258, 999))
	case "Vax":
		return grp(u(258, 999), u(266, 10415))
	case "Vna":
		return grp(u(266, 10415))
	case "Vem":
		return grp()
	case "Vsx": // supported then unsupported inside one group
		return grp(u(258, 4), u(259, 999))
	case "Vxs":
		return grp(u(259, 999), u(258, 4))
	case "Vbad":
		return diam.NewAVP(260, 0xc0, 999, datatype.Unknown([]byte{1, 2, 3, 4}))
	}
	return u(258, 4)
}

var appKinds = []string{"As", "Au", "Au2", "Ax", "Bx", "Aw", "Bw", "Ar", "Br", "At", "Av", "Vsa", "Vas", "Vxa", "Vax", "Vna", "Vem", "Vsx", "Vxs", "Vbad"}

func namedAVP(code uint32, mode int, val string) *diam.AVP {
	switch mode {
	case 1:
		return diam.NewAVP(code, 0x40, 0, datatype.DiameterIdentity(val))
	case 2:
		return diam.NewAVP(code, 0x40, 0, datatype.DiameterIdentity(""))
	case 3:
		return diam.NewAVP(code, 0xc0, 999, datatype.Unknown([]byte(val)))
	case 4:
		return diam.NewAVP(code, 0x40, 0, datatype.Unsigned32(65))
	}
	return nil
}

func (c cerSpec) bytes() []byte {
	m := diam.NewMessage(257, c.flags, c.app, 1, 1, dict.Default)
	m.Header.HopByHopID, m.Header.EndToEndID = c.hbh, c.e2e
	var as []*diam.AVP
	if a := namedAVP(264, c.host, "peer.example.net"); a != nil {
		as = append(as, a)
	}
	if a := namedAVP(296, c.realm, "example.net"); a != nil {
		as = append(as, a)
	}
	as = append(as, diam.NewAVP(257, 0x40, 0, datatype.Address(net.ParseIP("10.9.8.7").To4())))
	as = append(as, diam.NewAVP(266, 0x40, 0, datatype.Unsigned32(99)), diam.NewAVP(269, 0, 0, datatype.UTF8String("peer")))
	if c.osid {
		as = append(as, diam.NewAVP(278, 0x40, 0, datatype.Unsigned32(1234)))
	}
	switch c.inband {
	case 1:
		as = append(as, diam.NewAVP(299, 0x40, 0, datatype.Unsigned32(0)))
	case 2:
		as = append(as, diam.NewAVP(299, 0x40, 0, datatype.Unsigned32(1)))
	case 3:
		as = append(as, diam.NewAVP(299, 0xc0, 999, datatype.Unknown([]byte{0, 0, 0, 0})))
	case 4:
		as = append(as, diam.NewAVP(299, 0x40, 0, datatype.OctetString("zz")))
	}
	for _, k := range c.apps {
		as = append(as, appAVP(k))
	}
	for _, a := range as {
		m.AddAVP(a)
	}
	b, _ := m.Serialize()
	return b
}

func goodCER(r *RNG) cerSpec {
	return cerSpec{host: 1, realm: 1, inband: []int{0, 1}[r.Intn(2)], apps: []string{[]string{"Au", "As", "Au2", "Ar", "Vsa", "Vas"}[r.Intn(6)]}, flags: 0x80, hbh: genID(r), e2e: genID(r)}
}

func randomCER(r *RNG) cerSpec {
	c := cerSpec{flags: 0x80, hbh: []uint32{0, 1, 0x80000000, 0xffffffff, r.U32()}[r.Intn(5)], e2e: []uint32{0, 1, 0xffffffff, r.U32()}[r.Intn(4)]}
	c.host = []int{1, 1, 1, 1, 0, 2, 3, 4}[r.Intn(8)]
	c.realm = []int{1, 1, 1, 1, 0, 2, 3, 4}[r.Intn(8)]
	c.inband = []int{0, 0, 1, 1, 2, 3, 4}[r.Intn(7)]
	c.osid = r.Chance(30)
	for i, n := 0, r.Intn(5); i < n; i++ {
		c.apps = append(c.apps, appKinds[r.Intn(len(appKinds))])
	}
	if r.Chance(30) {
		c.flags |= []uint8{0x40, 0x20, 0x10, 0x08, 0x60}[r.Intn(5)]
	}
	if r.Chance(5) {
		c.app = 4
	}
	return c
}

func simpleMsg(cmd uint32, flags uint8, app, hbh, e2e uint32, as ...*diam.AVP) []byte {
	m := diam.NewMessage(cmd, flags, app, 1, 1, dict.Default)
	m.Header.HopByHopID, m.Header.EndToEndID = hbh, e2e
	for _, a := range as {
		m.AddAVP(a)
	}
	b, _ := m.Serialize()
	return b
}

func dwrBytes(r *RNG, mode int) []byte {
	var as []*diam.AVP
	if mode != 1 {
		host := "peer.example.net"
		if r.Chance(30) { // the same FQDN, spelled with capitals (a DiameterIdentity is case-insensitive)
			host = "Peer.Example.NET"
		}
		as = append(as, diam.NewAVP(264, 0x40, 0, datatype.DiameterIdentity(host)))
	}
	if mode != 2 {
		as = append(as, diam.NewAVP(296, 0x40, 0, datatype.DiameterIdentity("example.net")))
	}
	flags := uint8(0x80)
	if mode == 3 {
		flags |= 0x40
	}
	app := uint32(0)
	if mode == 4 {
		app = 4
	}
	// optional AVPs a real peer's watchdog carries
	if r.Chance(35) {
		as = append(as, diam.NewAVP(278, 0x40, 0, datatype.Unsigned32([]uint32{0, 1, 1234567, 0xffffffff}[r.Intn(4)])))
	}
	if r.Chance(10) {
		as = append(as, diam.NewAVP(281, 0, 0, datatype.UTF8String("watchdog")))
	}
	return simpleMsg(280, flags, app, []uint32{0, genID(r)}[r.Intn(2)], genID(r), as...)
}

func histMessage(r *RNG, serial *uint32) []byte {
	*serial++
	s := *serial
	switch r.Intn(13) {
	case 12: // a complete message with an AVP that cannot be decoded (an IPv4 Host-IP-Address of 3 bytes)
		return simpleMsgRaw(272, 0x80, 4, s, s, append(rawAVP(263, 0x40, 0, 12, []byte("sess"), true), rawAVP(257, 0x40, 0, 13, []byte{0, 1, 10, 0, 0}, true)...))
	case 0, 1, 2:
		return goodCER(r).bytes()
	case 3, 4:
		return randomCER(r).bytes()
	case 5, 6:
		return dwrBytes(r, r.Intn(5))
	case 7: // CCR app 4
		return simpleMsg(272, 0x80, 4, s, s, diam.NewAVP(263, 0x40, 0, datatype.UTF8String("sess")))
	case 8: // CCA
		return simpleMsg(272, 0, 4, s, s, diam.NewAVP(268, 0x40, 0, datatype.Unsigned32(2001)))
	case 9: // ULR S6a
		return simpleMsg(316, 0x80, 16777251, s, s, diam.NewAVP(263, 0x40, 0, datatype.UTF8String("s6a")))
	case 10: // stray CEA
		return simpleMsg(257, 0, 0, s, s, diam.NewAVP(268, 0x40, 0, datatype.Unsigned32(2001)), diam.NewAVP(264, 0x40, 0, datatype.DiameterIdentity("x")), diam.NewAVP(296, 0x40, 0, datatype.DiameterIdentity("y")))
	default: // unknown application, command resolved through base
		return simpleMsg(280, 0x80, 777, s, s, diam.NewAVP(264, 0x40, 0, datatype.DiameterIdentity("p")), diam.NewAVP(296, 0x40, 0, datatype.DiameterIdentity("q")))
	}
}

func simpleMsgRaw(cmd uint32, flags uint8, app, hbh, e2e uint32, body []byte) []byte {
	return append(rawHeader(20+len(body), flags, cmd, app, hbh, e2e), body...)
}

func genRegs(r *RNG) string {
	var regs []string
	h := 0
	for i, n := 0, r.Intn(5); i < n; i++ {
		h++
		switch r.Intn(12) {
		case 10:
			regs = append(regs, fmt.Sprintf("i:4:272:A:%d", h))
		case 11:
			regs = append(regs, fmt.Sprintf("i:16777251:316:A:%d", h))
		case 0:
			regs = append(regs, fmt.Sprintf("n:CCR:%d", h))
		case 1:
			regs = append(regs, fmt.Sprintf("n:CCA:%d", h))
		case 2:
			regs = append(regs, fmt.Sprintf("i:4:272:R:%d", h))
		case 3:
			regs = append(regs, fmt.Sprintf("a:%d", h))
		case 4:
			regs = append(regs, fmt.Sprintf("n:ULR:%d", h))
		case 5: // attempts to take over the built-ins
			regs = append(regs, fmt.Sprintf("n:%s:%d", []string{"CER", "CEA", "DWR", "DWA"}[r.Intn(4)], h))
		case 6:
			regs = append(regs, fmt.Sprintf("i:0:%d:%s:%d", []int{257, 280}[r.Intn(2)], []string{"R", "A"}[r.Intn(2)], h))
		case 7:
			regs = append(regs, fmt.Sprintf("i:16777251:316:R:%d", h))
		case 8: // CER-coded request of another application
			regs = append(regs, fmt.Sprintf("i:4:257:R:%d", h))
		case 9:
			regs = append(regs, fmt.Sprintf("i:777:280:R:%d", h))
		}
	}
	if len(regs) == 0 {
		return "-"
	}
	return strings.Join(regs, ",")
}

func genSMServer(r *RNG, n int, op string, emit func(string)) {
	if op == "tlscer" {
		for i := 0; i < n; i++ {
			c := cerSpec{host: 1, realm: 1, inband: []int{2, 2, 1, 0}[r.Intn(4)], apps: []string{[]string{"Au", "Bx", "As", "Vsa"}[r.Intn(4)]}, flags: 0x80, hbh: genID(r), e2e: genID(r)}
			if r.Chance(30) {
				c.apps = nil
			}
			emit(fmt.Sprintf("smserver tlscer cfg=3 segs=%s", hex.EncodeToString(c.bytes())))
		}
		return
	}
	if op == "many" {
		for _, k := range []int{3, 20, 40, 70} {
			emit(fmt.Sprintf("smserver many n=%d", k))
		}
		return
	}
	locals := []string{"v4", "v4", "v4", "loop", "multi", "multiloop", "v6", "v6g", "v6z", "mix6", "empty", "badport"}
	if op == "multi" {
		for i := 0; i < n; i++ {
			k := 2 + r.Intn(3)
			var ls, ss []string
			for j := 0; j < k; j++ {
				ls = append(ls, locals[r.Intn(len(locals))])
				c := goodCER(r)
				if r.Chance(30) {
					c = randomCER(r)
				}
				// what this peer sends: its CER and then application traffic; some peers skip the
				// CER, or send everything in one segment (the handshake of ANOTHER connection must
				// not open the door for them)
				serial := uint32(200 + 50*j)
				var script [][]byte
				if !r.Chance(30) {
					script = append(script, c.bytes())
				}
				for q, nq := 0, r.Intn(4); q < nq; q++ {
					script = append(script, histMessage(r, &serial))
				}
				if len(script) == 0 {
					script = append(script, c.bytes())
				}
				var segs []string
				if r.Chance(30) {
					var one []byte
					for _, b := range script {
						one = append(one, b...)
					}
					segs = []string{hex.EncodeToString(one)}
				} else {
					for _, b := range script {
						segs = append(segs, hex.EncodeToString(b))
					}
				}
				ss = append(ss, strings.Join(segs, "|"))
			}
			emit(fmt.Sprintf("smserver multi cfg=%d locals=%s regs=%s segs=%s", []int{0, 0, 2, 1}[r.Intn(4)], strings.Join(ls, ","), genRegs(r), strings.Join(ss, "^")))
		}
		return
	}
	for i := 0; i < n; i++ {
		var segs []string
		serial := uint32(100)
		switch op {
		case "cer": // one CER, every shape
			segs = []string{hex.EncodeToString(randomCER(r).bytes())}
			if r.Chance(40) {
				segs = append(segs, hex.EncodeToString(simpleMsg(272, 0x80, 4, 7, 7, diam.NewAVP(263, 0x40, 0, datatype.UTF8String("s")))))
			}
		default:
			var prev []byte
			for s, ns := 0, 1+r.Intn(5); s < ns; s++ {
				var seg []byte
				for k, nk := 0, 1+r.Intn(3); k < nk; k++ {
					m := histMessage(r, &serial)
					// retransmissions: the very same message (same identifiers) again, as sm.Client's
					// CER and DWR retransmission loops send it
					if prev != nil && r.Chance(25) {
						m = prev
					}
					prev = m
					seg = append(seg, m...)
				}
				segs = append(segs, hex.EncodeToString(seg))
			}
		}
		emit(fmt.Sprintf("smserver hist cfg=%d local=%s regs=%s segs=%s", r.Intn(4), locals[r.Intn(len(locals))], genRegs(r), strings.Join(segs, "|")))
	}
}

func init() {
	executors["smserver multi"] = execSMServer
	executors["smserver hist"] = execSMServer
	generators["smserver"] = genSMServer
}
