package main

import (
	"sync/atomic"
	"errors"
	"encoding/hex"
	"fmt"
	"reflect"
	"runtime"
	"strconv"
	"strings"
	"sync"
	"time"

	"github.com/fiorix/go-diameter/v4/diam"
	"github.com/fiorix/go-diameter/v4/diam/datatype"
	"github.com/fiorix/go-diameter/v4/diam/dict"
)

// a handler that blocks every message until the script releases it, and counts error reports
type heldHandler struct {
	mu      sync.Mutex
	conns   map[diam.Conn]*connObs
	byIndex []*connObs
}

type connObs struct {
	mu      sync.Mutex
	conn    diam.Conn
	mc      *memConn
	handed  []uint32
	active  int
	release chan string // "H" return, "P" panic
	reports int
	cn      <-chan struct{}
}

func (h *heldHandler) obsFor(c diam.Conn) *connObs {
	h.mu.Lock()
	defer h.mu.Unlock()
	return h.conns[c]
}

func (h *heldHandler) ServeDIAM(c diam.Conn, m *diam.Message) {
	o := h.obsFor(c)
	if o == nil {
		return
	}
	o.mu.Lock()
	o.handed = append(o.handed, m.Header.HopByHopID)
	o.active++
	o.mu.Unlock()
	cmd := <-o.release
	o.mu.Lock()
	o.active--
	o.mu.Unlock()
	if cmd == "P" {
		scriptedPanic()
	}
}

// ErrorReporter
func (h *heldHandler) Error(er *diam.ErrorReport) {
	if er == nil || er.Conn == nil {
		return
	}
	if o := h.obsFor(er.Conn); o != nil {
		o.mu.Lock()
		o.reports++
		o.mu.Unlock()
	}
}
func (h *heldHandler) ErrorReports() <-chan *diam.ErrorReport { return nil }

// goroutines of the library attached to nothing in particular: count by stack frames
func countStacks(sub string) int {
	buf := make([]byte, 1<<20)
	n := runtime.Stack(buf, true)
	cnt := 0
	for _, g := range strings.Split(string(buf[:n]), "\n\n") {
		if strings.Contains(g, sub) {
			cnt++
		}
	}
	return cnt
}

func (o *connObs) snapshot(readers0, copiers0 int, idx, nconns int, serveAlive, copierAlive bool) string {
	o.mu.Lock()
	defer o.mu.Unlock()
	ch := "none"
	if o.cn != nil {
		select {
		case <-o.cn:
			ch = "closed"
		default:
			ch = "open"
		}
	}
	var ids []string
	for _, h := range o.handed {
		ids = append(ids, strconv.Itoa(int(h)))
	}
	hs := strings.Join(ids, ".")
	if hs == "" {
		hs = "-"
	}
	g := "r"
	if !serveAlive {
		g = "x"
	}
	if copierAlive {
		g += "c"
	} else {
		g += "-"
	}
	cl := "open"
	if o.mc.isClosed() {
		cl = "closed"
	}
	return fmt.Sprintf("%s,%s,%d,%s,%s,%d", ch, hs, o.active, g, cl, o.reports)
}

// per-connection goroutine liveness, from goroutine stacks: the reader is the goroutine running
// diam.(*conn).serve(<conn pointer>); the close-notifier copier is the goroutine running
// closeNotify.func1 that was created by that reader goroutine.
func goroutinesFor(mc *memConn) (serve, copier bool) {
	buf := make([]byte, 1<<20)
	n := runtime.Stack(buf, true)
	for _, g := range strings.Split(string(buf[:n]), "\n\n") {
		if strings.Contains(g, "diam.(*conn).serve("+mc.tag) {
			serve = true
		}
		if mc.serveID != "" && strings.Contains(g, "closeNotify.func") && strings.Contains(g, "in goroutine "+mc.serveID+"\n") {
			copier = true
		}
	}
	return
}

func findServeID(tag string) string {
	for i := 0; i < 200; i++ {
		buf := make([]byte, 1<<20)
		n := runtime.Stack(buf, true)
		for _, g := range strings.Split(string(buf[:n]), "\n\n") {
			if strings.Contains(g, "diam.(*conn).serve("+tag) {
				f := strings.Fields(g)
				if len(f) > 1 && f[0] == "goroutine" {
					return f[1]
				}
			}
		}
		time.Sleep(100 * time.Microsecond)
	}
	return ""
}

func execConnServe(toks []string) string {
	nS, _ := kvGet(toks, "n")
	evS, _ := kvGet(toks, "ev")
	n, _ := strconv.Atoi(nS)
	if n < 1 {
		n = 1
	}
	h := &heldHandler{conns: map[diam.Conn]*connObs{}}
	var handler diam.Handler = h
	var mux *diam.ServeMux
	if hs, _ := kvGet(toks, "h"); hs == "mux" {
		// handlers registered by name in a ServeMux shared by all connections
		mux = diam.NewServeMux()
		mux.HandleFunc("ALL", h.ServeDIAM)
		mux.HandleFunc("DWR", h.ServeDIAM)
		handler = mux
		stop := make(chan struct{})
		defer close(stop)
		go func() {
			for {
				select {
				case er := <-mux.ErrorReports():
					h.Error(er)
				case <-stop:
					return
				}
			}
		}()
	}
	noReports := false
	if hs, _ := kvGet(toks, "h"); hs == "mux2" {
		// a mux with a handler for DWR only and no catch-all, whose error reports nobody collects:
		// messages without a handler are reported by the mux itself, from inside the dispatch
		mux = diam.NewServeMux()
		mux.HandleFunc("DWR", h.ServeDIAM)
		handler = mux
		noReports = true
	}
	xs, _ := kvGet(toks, "x")
	var obs []*connObs
	for i := 0; i < n; i++ {
		mc := newMemConn()
		o := &connObs{mc: mc, release: make(chan string)}
		// the connection must be known to the handler before the reader can dispatch
		h.mu.Lock()
		mc.coalesce = xs == "1"
		c, err := newConnTagged(mc, handler)
		if err != nil {
			h.mu.Unlock()
			return "err"
		}
		o.conn = c
		h.conns[c] = o
		h.mu.Unlock()
		obs = append(obs, o)
		// the script starts with the reader parked in its first Read
		waitFor(mc.readerParked, time.Second)
	}
	stable := func() string {
		var parts []string
		for _, o := range obs {
			s, c := goroutinesFor(o.mc)
			sn := o.snapshot(0, 0, 0, n, s, c)
			if noReports { // nobody reads the report channel: what was offered cannot be observed
				sn = sn[:strings.LastIndex(sn, ",")] + ",*"
			}
			parts = append(parts, sn)
		}
		return strings.Join(parts, "|")
	}
	settle := func() string {
		last := ""
		same := 0
		deadline := time.Now().Add(400 * time.Millisecond)
		for time.Now().Before(deadline) {
			runtime.Gosched()
			time.Sleep(250 * time.Microsecond)
			cur := stable()
			if cur == last {
				same++
				if same >= 6 {
					return cur
				}
			} else {
				same = 0
				last = cur
			}
		}
		return last
	}
	var outs []string
	nreg := 0
	for _, t := range strings.Split(evS, ",") {
		p := strings.SplitN(t, ":", 2)
		if len(p) != 2 {
			continue
		}
		k, _ := strconv.Atoi(p[0])
		if k >= len(obs) {
			continue
		}
		o := obs[k]
		e := p[1]
		enabled := true
		var regDone chan struct{}
		switch {
		case e == "T": // the Read in progress fails with a timeout error
			o.mc.mu.Lock()
			ok := !o.mc.closed && !o.mc.rdEOF && o.mc.rdErr == nil && len(o.mc.inbox) == 0 && o.mc.blocked > 0
			o.mc.mu.Unlock()
			if !ok {
				enabled = false
			} else {
				o.mc.timeout()
			}
		case e == "M": // a handler is registered on the live mux (no handler is running anywhere)
			busy := mux == nil
			for _, oo := range obs {
				oo.mu.Lock()
				if oo.active > 0 {
					busy = true
				}
				oo.mu.Unlock()
			}
			if busy {
				enabled = false
			} else {
				nreg++
				regDone = make(chan struct{})
				name := fmt.Sprintf("X%d", nreg)
				go func() {
					mux.HandleFunc(name, func(diam.Conn, *diam.Message) {})
					close(regDone)
				}()
			}
		case e == "E":
			if o.mc.isDone() {
				enabled = false
			} else {
				o.mc.peerEOF()
			}
		case e == "R":
			if o.mc.isDone() {
				enabled = false
			} else {
				o.mc.readError(errMemRead)
			}
		case e == "Y": // a read error that calls itself temporary (and is not a timeout)
			if o.mc.isDone() {
				enabled = false
			} else {
				o.mc.readError(scriptedErr{temp: true})
			}
		case e == "L":
			if o.mc.isClosed() {
				enabled = false
			} else {
				o.conn.Close()
			}
		case e == "N":
			ch := o.conn.(diam.CloseNotifier).CloseNotify()
			o.mu.Lock()
			o.cn = ch
			o.mu.Unlock()
		case e == "H" || e == "P":
			o.mu.Lock()
			act := o.active
			o.mu.Unlock()
			if act == 0 {
				enabled = false
			} else {
				o.release <- e
			}
		case strings.HasPrefix(e, "D"):
			b, err := hex.DecodeString(e[1:])
			if err != nil || len(b) == 0 || o.mc.isDone() {
				enabled = false
			} else {
				o.mc.deliver(b)
			}
		}
		if !enabled {
			outs = append(outs, "skip")
			continue
		}
		g := settle()
		if regDone != nil {
			select {
			case <-regDone:
			case <-time.After(300 * time.Millisecond):
				g += "|regblocked"
			}
		}
		outs = append(outs, g)
	}
	// clean up: end every connection so that nothing leaks into the next case
	for _, o := range obs {
		o.mc.Close()
	}
	for _, o := range obs {
		for i := 0; i < 50; i++ {
			o.mu.Lock()
			act := o.active
			o.mu.Unlock()
			if act == 0 {
				break
			}
			select {
			case o.release <- "H":
			default:
				time.Sleep(200 * time.Microsecond)
			}
		}
	}
	return strings.Join(outs, " ; ")
}

func (c *memConn) isDone() bool {
	c.mu.Lock()
	defer c.mu.Unlock()
	return c.closed || c.rdEOF || c.rdErr != nil
}

// newConnTagged starts the connection and learns the *conn pointer (through reflection on the
// returned Conn) and the reader goroutine's id, so that goroutine dumps can be attributed.
func newConnTagged(mc *memConn, h diam.Handler) (diam.Conn, error) {
	c, err := diam.NewConn(mc, "mem", h, dict.Default)
	if err != nil {
		return nil, err
	}
	ptr := reflect.ValueOf(c).Elem().FieldByName("conn").Pointer()
	mc.tag = fmt.Sprintf("0x%x", ptr)
	mc.serveID = findServeID(mc.tag)
	return c, nil
}

// ---- generators

func connMsg(r *RNG, id uint32) []byte {
	switch r.Intn(4) {
	case 0:
		return simpleMsg(280, 0x80, 0, id, id, diam.NewAVP(264, 0x40, 0, datatype.DiameterIdentity("a")), diam.NewAVP(296, 0x40, 0, datatype.DiameterIdentity("b")))
	case 1:
		return simpleMsg(272, 0x80, 4, id, id, diam.NewAVP(263, 0x40, 0, datatype.UTF8String("s")))
	case 2:
		return simpleMsg(257, 0, 0, id, id, diam.NewAVP(268, 0x40, 0, datatype.Unsigned32(2001)))
	}
	return simpleMsg(280, 0, 0, id, id)
}

// genConnFaults2: several connections on a mux that handles DWR only and whose error reports are
// never collected: undecodable input (fills the one-slot report channel), messages nobody
// handles (reported by the mux from inside the dispatch), then watchdog requests everywhere.
func genConnFaults2(r *RNG, n int, emit func(string)) {
	for i := 0; i < n; i++ {
		nc := 2 + r.Intn(2)
		id := uint32(0)
		var evs []string
		dead := make([]bool, nc)
		dwr := func(k int) {
			id++
			evs = append(evs, fmt.Sprintf("%d:D%s", k, hex.EncodeToString(simpleMsg(280, 0x80, 0, id, id, diam.NewAVP(264, 0x40, 0, datatype.DiameterIdentity("a")), diam.NewAVP(296, 0x40, 0, datatype.DiameterIdentity("b"))))))
			evs = append(evs, fmt.Sprintf("%d:H", k))
		}
		unhandled := func(k int) {
			id++
			var m []byte
			switch r.Intn(3) {
			case 0:
				m = simpleMsg(272, 0x80, 4, id, id, diam.NewAVP(263, 0x40, 0, datatype.UTF8String("s")))
			case 1:
				m = simpleMsg(257, 0x80, 0, id, id) // a header-only CER: no handler for it on this mux
			default:
				m = simpleMsg(280, 0, 0, id, id)
			}
			evs = append(evs, fmt.Sprintf("%d:D%s", k, hex.EncodeToString(m)))
		}
		for s, steps := 0, 3+r.Intn(7); s < steps; s++ {
			k := r.Intn(nc)
			if dead[k] {
				continue
			}
			switch c := r.Intn(10); {
			case c < 2: // undecodable: unknown command / truncated AVP, closes k and offers a report
				bad := rawHeader(28, 0x80, 280, 0, 1, 1)
				bad = append(bad, rawAVP(264, 0x40, 0, 40, []byte("xy"), false)...)
				if r.Bool() {
					bad = append(rawHeader(20, 0x80, 9999, 0, 1, 1), 1, 2, 3)
				}
				evs = append(evs, fmt.Sprintf("%d:D%s", k, hex.EncodeToString(bad)))
				dead[k] = true
			case c < 6:
				unhandled(k)
			default:
				dwr(k)
			}
		}
		for k := 0; k < nc; k++ {
			if !dead[k] {
				dwr(k)
			}
		}
		emit(fmt.Sprintf("conn serve n=%d h=mux2 ev=%s", nc, strings.Join(evs, ",")))
	}
}

func genConnServe(r *RNG, n int, op string, emit func(string)) {
	if strings.HasPrefix(op, "cnall") {
		genConnAll(r, op, emit)
		return
	}
	if op == "faults2" {
		genConnFaults2(r, n, emit)
		return
	}
	for i := 0; i < n; i++ {
		nc := 1
		if op == "multi" {
			nc = 2 + r.Intn(2)
		}
		useMux := op == "multi" || r.Chance(30)
		id := uint32(0)
		var evs []string
		pendingBytes := make([][]byte, nc)
		steps := 3 + r.Intn(8)
		if op == "closenotify" {
			steps = 2 + r.Intn(6)
		}
		for s := 0; s < steps; s++ {
			k := r.Intn(nc)
			choice := r.Intn(100)
			switch {
			case choice < 40: // deliver: whole message(s), or a fragment of one
				var b []byte
				if len(pendingBytes[k]) > 0 {
					b = pendingBytes[k]
					pendingBytes[k] = nil
				} else {
					for j, m := 0, 1+r.Intn(3); j < m; j++ {
						id++
						b = append(b, connMsg(r, id)...)
					}
					if op == "faults" && r.Chance(15) { // undecodable: unknown command / short length, with trailing data
						bad := rawHeader([]int{20, 12, 28, 32, 32}[r.Intn(5)], 0x80, []uint32{9999, 257}[r.Intn(2)], 0, 1, 1)
						if bad[3] == 28 {
							bad = append(bad, rawAVP(264, 0xc0, 0, 8, nil, false)...)
						}
						if bad[3] == 32 { // an AVP whose Length runs past the end of the (complete) message
							bad = append(bad, rawAVP(264, 0x40, 0, 40, []byte("abcd"), false)...)
						}
						b = append(b, bad...)
						b = append(b, r.Bytes(r.Intn(40))...)
					}
					if r.Chance(30) && len(b) > 4 {
						cut := 1 + r.Intn(len(b)-1)
						if r.Chance(40) { // inside the 20-byte header of the first message
							cut = 1 + r.Intn(19)
						}
						pendingBytes[k] = b[cut:]
						b = b[:cut]
					}
				}
				evs = append(evs, fmt.Sprintf("%d:D%s", k, hex.EncodeToString(b)))
			case choice < 63:
				evs = append(evs, fmt.Sprintf("%d:H", k))
			case choice < 73:
				evs = append(evs, fmt.Sprintf("%d:N", k))
			case choice < 79:
				evs = append(evs, fmt.Sprintf("%d:E", k))
			case choice < 83:
				evs = append(evs, fmt.Sprintf("%d:%s", k, []string{"R", "R", "Y"}[r.Intn(3)]))
			case choice < 87:
				evs = append(evs, fmt.Sprintf("%d:L", k))
			case choice < 91:
				evs = append(evs, fmt.Sprintf("%d:T", k))
			case choice < 96 && (op == "faults" || op == "multi"):
				evs = append(evs, fmt.Sprintf("%d:P", k))
				if useMux && r.Chance(50) {
					evs = append(evs, "0:M")
				}
			case choice < 98 && useMux:
				evs = append(evs, "0:M")
			default:
				evs = append(evs, fmt.Sprintf("%d:H", k))
			}
		}
		// drain: release handlers and request the notifier late, end the connection
		for k := 0; k < nc; k++ {
			evs = append(evs, fmt.Sprintf("%d:H", k))
			if r.Chance(50) {
				evs = append(evs, fmt.Sprintf("%d:%s", k, []string{"E", "L", "R", "Y"}[r.Intn(4)]))
				evs = append(evs, fmt.Sprintf("%d:H", k))
			}
			if r.Chance(40) {
				evs = append(evs, fmt.Sprintf("%d:N", k))
			}
		}
		if useMux && r.Chance(50) {
			evs = append(evs, "0:M")
			id++
			evs = append(evs, fmt.Sprintf("%d:D%s", r.Intn(nc), hex.EncodeToString(connMsg(r, id))))
		}
		opts := ""
		if useMux {
			opts += " h=mux"
		}
		if r.Chance(50) {
			opts += " x=1"
		}
		emit(fmt.Sprintf("conn serve n=%d%s ev=%s", nc, opts, strings.Join(evs, ",")))
	}
}

// genConnAll: every event sequence of length 1..L (op "cnall<L>") over the alphabet
// {message, first part of a message / its rest, undecodable message with trailing data,
//
//	CloseNotify, peer EOF, read error, read timeout, local Close, handler return},
//
// on one connection; events the transport cannot perform any more (after EOF / error / Close)
// are not enumerated, and at most two CloseNotify requests per sequence.
func genConnAll(r *RNG, op string, emit func(string)) {
	L, _ := strconv.Atoi(strings.TrimPrefix(op, "cnall"))
	if L < 1 {
		L = 4
	}
	type st struct {
		evs  []string
		done bool
		id   uint32
		rest []byte
		nreq int
		coal bool
	}
	alphabet := []string{"D", "F", "B", "N", "E", "R", "T", "L", "H"}
	var rec func(s st)
	rec = func(s st) {
		if len(s.evs) >= L {
			x := ""
			if s.coal {
				x = " x=1"
			}
			emit(fmt.Sprintf("conn serve n=1%s ev=%s", x, strings.Join(s.evs, ",")))
		}
		if len(s.evs) >= L {
			return
		}
		for _, a := range alphabet {
			n := s
			n.evs = append(append([]string(nil), s.evs...), "")
			var ev string
			switch a {
			case "D", "F", "B":
				if s.done {
					continue
				}
				var b []byte
				if len(s.rest) > 0 {
					if a != "F" {
						continue // a message is half delivered: only its rest can follow
					}
					b = s.rest
					n.rest = nil
				} else {
					n.id++
					switch a {
					case "D":
						b = simpleMsg(280, 0x80, 0, n.id, n.id, diam.NewAVP(264, 0x40, 0, datatype.DiameterIdentity("a")))
					case "F":
						m := simpleMsg(280, 0x80, 0, n.id, n.id, diam.NewAVP(264, 0x40, 0, datatype.DiameterIdentity("a")))
						cut := []int{7, 20, 25}[int(n.id)%3]
						b, n.rest = m[:cut], m[cut:]
					case "B":
						b = append(rawHeader(20, 0x80, 9999, 0, n.id, n.id), make([]byte, 30)...)
					}
				}
				ev = "0:D" + hex.EncodeToString(b)
			case "N":
				if s.nreq >= 2 {
					continue
				}
				n.nreq++
				ev = "0:N"
			case "E", "R", "L":
				if s.done {
					continue
				}
				n.done = true
				ev = "0:" + a
			case "T":
				if s.done {
					continue
				}
				ev = "0:T"
			case "H":
				ev = "0:H"
			}
			n.evs[len(n.evs)-1] = ev
			n.coal = len(n.evs)%2 == 0
			rec(n)
		}
	}
	rec(st{})
}

func init() {
	executors["conn serve"] = execConnServe
	for _, op := range []string{"serve", "multi", "faults", "faults2", "closenotify", "cnall3", "cnall4", "cnall5", "cnall6"} {
		connGens[op] = genConnServe
	}
}

// scriptedPanic: handlers do not only panic with strings. The value rotates through the kinds a
// Go program produces: a string, an error value, a runtime error, and values of uncomparable
// dynamic type (an error declared as a slice, a map)
type sliceErr []string

func (e sliceErr) Error() string { return "slice error" }

var scriptedPanicN uint32

func scriptedPanic() { scriptedEnd(true) }

// scriptedPanicOnly: the same without Goexit (for handlers that the harness calls directly)
func scriptedPanicOnly() { scriptedEnd(false) }

func scriptedEnd(allowExit bool) {
	// (two in a row of each uncomparable kind: code that compares a panic value with the previous
	// one must survive that too)
	switch []int{5, 0, 6, 1, 1, 2, 3, 3, 4}[atomic.AddUint32(&scriptedPanicN, 1)%9] {
	case 5: // a nil error value: with the library's language version recover() returns nil for it
		var err error
		panic(err)
	case 6: // the handler's goroutine is ended without a panic at all
		if allowExit {
			runtime.Goexit()
		}
		panic("scripted handler panic")
	case 0:
		panic("scripted handler panic")
	case 1:
		panic(sliceErr{"scripted", "handler", "panic"})
	case 2:
		panic(errors.New("scripted handler panic"))
	case 3:
		panic(map[string]int{"scripted": 1})
	default:
		var m map[string]int
		m["nil map write"] = 1
	}
}
