package main

import (
	"time"
	"fmt"
	"strconv"
	"strings"

	"github.com/fiorix/go-diameter/v4/diam"
	"github.com/fiorix/go-diameter/v4/diam/dict"
)

func execMux(toks []string) string {
	regs, _ := kvGet(toks, "regs")
	msg, _ := kvGet(toks, "msg")
	mux := diam.NewServeMux()
	var called []int
	mk := func(k int) diam.HandlerFunc { return func(diam.Conn, *diam.Message) { called = append(called, k) } }
	if regs != "-" && regs != "" {
		for _, t := range strings.Split(regs, ",") {
			p := strings.Split(t, ":")
			switch {
			case p[0] == "a" && len(p) == 2:
				k, _ := strconv.Atoi(p[1])
				mux.HandleFunc("ALL", mk(k))
			case p[0] == "n" && len(p) == 3:
				k, _ := strconv.Atoi(p[2])
				mux.Handle(p[1], mk(k))
			case p[0] == "i" && len(p) == 5:
				a, _ := strconv.ParseUint(p[1], 10, 32)
				c, _ := strconv.ParseUint(p[2], 10, 32)
				k, _ := strconv.Atoi(p[4])
				mux.HandleIdx(diam.CommandIndex{AppID: uint32(a), Code: uint32(c), Request: p[3] == "R"}, mk(k))
			default:
				return "badinput"
			}
		}
	}
	p := strings.Split(msg, ":")
	if len(p) != 3 {
		return "badinput"
	}
	a, _ := strconv.ParseUint(p[0], 10, 32)
	c, _ := strconv.ParseUint(p[1], 10, 32)
	flags := uint8(0)
	if p[2] == "R" {
		flags = 0x80
	}
	m := diam.NewMessage(uint32(c), flags, uint32(a), 1, 1, dict.Default)
	if r := guard(func() { mux.ServeDIAM(nil, m) }); r != "" {
		return r
	}
	reported := false
	select {
	case <-mux.ErrorReports():
		reported = true
	default:
	}
	switch {
	case len(called) == 1 && !reported:
		return fmt.Sprintf("h%d", called[0])
	case len(called) == 0 && reported:
		return "report"
	case len(called) == 0:
		return "nothing"
	}
	return fmt.Sprintf("multi%v-report=%v", called, reported)
}

func execMuxSeq(toks []string) string {
	ops, _ := kvGet(toks, "ops")
	mux := diam.NewServeMux()
	var called []int
	panicNext := false
	mk := func(k int) diam.HandlerFunc {
		return func(diam.Conn, *diam.Message) {
			called = append(called, k)
			if panicNext {
				panicNext = false
				scriptedPanicOnly()
			}
		}
	}
	var outs []string
	// a registration made after a handler has panicked (and the panic was recovered, as conn.serve
	// does) must still go through
	reg := func(f func()) bool {
		done := make(chan struct{})
		go func() { f(); close(done) }()
		select {
		case <-done:
			return true
		case <-time.After(time.Second):
			return false
		}
	}
	for _, t := range strings.Split(ops, ",") {
		p := strings.Split(t, ":")
		if (p[0] == "a" || p[0] == "n" || p[0] == "i") && len(outs) > 0 && strings.HasSuffix(outs[len(outs)-1], "!") {
			// the first registration after a panic is watched
			tt := t
			ok := reg(func() {
				q := strings.Split(tt, ":")
				switch {
				case q[0] == "a" && len(q) == 2:
					k, _ := strconv.Atoi(q[1])
					mux.HandleFunc("ALL", mk(k))
				case q[0] == "n" && len(q) == 3:
					k, _ := strconv.Atoi(q[2])
					mux.Handle(q[1], mk(k))
				case q[0] == "i" && len(q) == 5:
					a, _ := strconv.ParseUint(q[1], 10, 32)
					c, _ := strconv.ParseUint(q[2], 10, 32)
					k, _ := strconv.Atoi(q[4])
					mux.HandleIdx(diam.CommandIndex{AppID: uint32(a), Code: uint32(c), Request: q[3] == "R"}, mk(k))
				}
			})
			if !ok {
				outs = append(outs, "registration-stuck")
				return strings.Join(outs, ",")
			}
			outs[len(outs)-1] += "+"
			continue
		}
		switch {
		case p[0] == "a" && len(p) == 2:
			k, _ := strconv.Atoi(p[1])
			mux.HandleFunc("ALL", mk(k))
		case p[0] == "n" && len(p) == 3:
			k, _ := strconv.Atoi(p[2])
			mux.Handle(p[1], mk(k))
		case p[0] == "i" && len(p) == 5:
			a, _ := strconv.ParseUint(p[1], 10, 32)
			c, _ := strconv.ParseUint(p[2], 10, 32)
			k, _ := strconv.Atoi(p[4])
			mux.HandleIdx(diam.CommandIndex{AppID: uint32(a), Code: uint32(c), Request: p[3] == "R"}, mk(k))
		case (p[0] == "d" || p[0] == "p") && len(p) == 4:
			panicNext = p[0] == "p"
			a, _ := strconv.ParseUint(p[1], 10, 32)
			c, _ := strconv.ParseUint(p[2], 10, 32)
			flags := uint8(0)
			if p[3] == "R" {
				flags = 0x80
			}
			called = nil
			m := diam.NewMessage(uint32(c), flags, uint32(a), 1, 1, dict.Default)
			armed := panicNext
			if r := guard(func() { mux.ServeDIAM(nil, m) }); r != "" || (armed && !panicNext) {
				// (a nil panic value is invisible to recover(): the handler having taken the
				// order is what says that it panicked)
				if p[0] == "p" && len(called) == 1 {
					outs = append(outs, fmt.Sprintf("h%d!", called[0]))
				} else {
					outs = append(outs, r)
				}
				continue
			}
			panicNext = false
			reported := false
			select {
			case <-mux.ErrorReports():
				reported = true
			default:
			}
			switch {
			case len(called) == 1 && !reported:
				outs = append(outs, fmt.Sprintf("h%d", called[0]))
			case len(called) == 0 && reported:
				outs = append(outs, "report")
			default:
				outs = append(outs, fmt.Sprintf("multi%d-report=%v", len(called), reported))
			}
		default:
			return "badinput"
		}
	}
	return strings.Join(outs, ",")
}

func genMuxSeq(r *RNG, n int, emit func(string)) {
	v := view()
	for i := 0; i < n; i++ {
		app := v.apps[r.Intn(len(v.apps))]
		code := v.cmds[app][r.Intn(len(v.cmds[app]))]
		cmd, _ := dict.Default.FindCommand(app, code)
		h := 0
		var ops []string
		for j, k := 0, 3+r.Intn(8); j < k; j++ {
			rb := []string{"R", "A"}[r.Intn(2)]
			h++
			switch r.Intn(7) {
			case 0:
				ops = append(ops, fmt.Sprintf("n:%s%s:%d", cmd.Short, rb, h))
			case 1:
				ops = append(ops, fmt.Sprintf("i:%d:%d:%s:%d", app, code, rb, h))
			case 2:
				ops = append(ops, fmt.Sprintf("a:%d", h))
			case 3: // the handler that is chosen panics (the connection's serve loop recovers)
				ops = append(ops, fmt.Sprintf("p:%d:%d:%s", app, code, rb))
			default:
				ops = append(ops, fmt.Sprintf("d:%d:%d:%s", app, code, rb))
			}
		}
		ops = append(ops, fmt.Sprintf("d:%d:%d:R", app, code), fmt.Sprintf("d:%d:%d:A", app, code))
		emit("mux seq ops=" + strings.Join(ops, ","))
	}
}

func genMux(r *RNG, n int, op string, emit func(string)) {
	if op == "seq" {
		genMuxSeq(r, n, emit)
		return
	}
	v := view()
	type msgT struct {
		app, code uint32
		short     string
	}
	var msgs []msgT
	for _, app := range v.apps {
		for _, c := range v.cmds[app] {
			if cmd, err := dict.Default.FindCommand(app, c); err == nil {
				msgs = append(msgs, msgT{app, c, cmd.Short})
			}
		}
	}
	// application ids that fall back to the base dictionary, and commands nobody defines
	msgs = append(msgs, msgT{77, 257, "CE"}, msgT{16777251, 280, "DW"}, msgT{4, 9999, ""}, msgT{0, 8388635, ""}, msgT{16777302, 8388635, "SL"})
	for i := 0; i < n; i++ {
		m := msgs[r.Intn(len(msgs))]
		R := r.Bool()
		rb := "A"
		if R {
			rb = "R"
		}
		var regs []string
		h := 1
		add := func(s string) { regs = append(regs, fmt.Sprintf(s, h)); h++ }
		k := r.Intn(8)
		if op == "subsets" {
			// all 2^9 subsets of: own idx/name/ALL, and neighbours differing in app, code, R bit
			mask := i % 512
			cand := []string{
				fmt.Sprintf("i:%d:%d:%s:%%d", m.app, m.code, rb), fmt.Sprintf("n:%s%s:%%d", m.short, rb), "a:%d",
				fmt.Sprintf("i:%d:%d:%s:%%d", m.app+1, m.code, rb), fmt.Sprintf("i:%d:%d:%s:%%d", m.app, m.code+1, rb),
				fmt.Sprintf("i:%d:%d:%s:%%d", m.app, m.code, map[bool]string{true: "A", false: "R"}[R]),
				fmt.Sprintf("n:%s%s:%%d", m.short, map[bool]string{true: "A", false: "R"}[R]), "n:ZZR:%d", fmt.Sprintf("n:%s:%%d", m.short),
			}
			for b := 0; b < 9; b++ {
				if mask&(1<<uint(b)) != 0 && !(strings.HasPrefix(cand[b], "n::") || strings.Contains(cand[b], "n:R:") || strings.Contains(cand[b], "n:A:")) {
					add(cand[b])
				}
			}
			// order matters for re-registration only; shuffle
			for x := len(regs) - 1; x > 0; x-- {
				y := r.Intn(x + 1)
				regs[x], regs[y] = regs[y], regs[x]
			}
		} else {
			for j := 0; j < k; j++ {
				other := msgs[r.Intn(len(msgs))]
				switch r.Intn(10) {
				case 9:
					if r.Bool() {
						add(fmt.Sprintf("i:%d:%d:%s:%%d", []uint32{4294967295, 0}[r.Intn(2)], m.code, rb))
					} else {
						// keys that differ from the catch-all's own index in one component only
						add([]string{"i:4294967295:16777215:A:%d", "i:4294967295:4294967295:R:%d", "i:4294967294:4294967295:A:%d", "i:4294967295:255:A:%d"}[r.Intn(4)])
					}
				case 0, 1:
					add(fmt.Sprintf("i:%d:%d:%s:%%d", m.app, m.code, rb))
				case 2:
					if m.short != "" {
						add(fmt.Sprintf("n:%s%s:%%d", m.short, rb))
					}
				case 3:
					add("a:%d")
				case 4:
					add(fmt.Sprintf("i:%d:%d:%s:%%d", other.app, other.code, []string{"R", "A"}[r.Intn(2)]))
				case 5:
					if other.short != "" {
						add(fmt.Sprintf("n:%s%s:%%d", other.short, []string{"R", "A"}[r.Intn(2)]))
					}
				case 6:
					add(fmt.Sprintf("i:%d:%d:%s:%%d", m.app, m.code, map[bool]string{true: "A", false: "R"}[R]))
				case 7:
					if r.Bool() {
						add("i:4294967295:4294967295:A:%d") // the catch-all's own index
					} else {
						// the relay application id (0xffffffff is an ordinary id for HandleIdx), and
						// application 0, with the message's own code and R bit
						add(fmt.Sprintf("i:%d:%d:%s:%%d", []uint32{4294967295, 0}[r.Intn(2)], m.code, rb))
					}
				case 8:
					add("n:ALL:%d")
				}
			}
		}
		rs := strings.Join(regs, ",")
		if rs == "" {
			rs = "-"
		}
		emit(fmt.Sprintf("mux dispatch regs=%s msg=%d:%d:%s", rs, m.app, m.code, rb))
	}
}

func init() {
	executors["mux dispatch"] = execMux
	executors["mux seq"] = execMuxSeq
	generators["mux"] = genMux
}
