package main

import (
	"reflect"
	"unsafe"
)

// unsafePointer gives write access to an unexported (embedded) struct field of an addressable value
func unsafePointer(v reflect.Value) unsafe.Pointer { return unsafe.Pointer(v.UnsafeAddr()) }
