package main

// Domain "smclient" (C12, C13, client half of C10): sm.Client over an in-memory transport with
// an event-driven scripted peer (it reacts to the k-th CER / DWR it sees; only silence is
// timed, by the library's own timers, which run on short real intervals).
//
//	smclient cea <spec>                                     smparser.CEA.Parse on a generated CEA
//	smclient dial r=<R> beh=<b1.b2..> post=<p1.p2..> wf=<k> handshake against a scripted peer
//	smclient wd r=<R> beh=<cycle/cycle/..>                  watchdog cycles against a scripted peer

import (
	"os"
	"encoding/hex"
	"fmt"
	"net"
	"strconv"
	"strings"
	"sync"
	"time"

	"github.com/fiorix/go-diameter/v4/diam"
	"github.com/fiorix/go-diameter/v4/diam/datatype"
	"github.com/fiorix/go-diameter/v4/diam/dict"
	"github.com/fiorix/go-diameter/v4/diam/sm"
	"github.com/fiorix/go-diameter/v4/diam/sm/smparser"
	"github.com/fiorix/go-diameter/v4/diam/sm/smpeer"
)

const clientInterval = 30 * time.Millisecond

type ceaSpec struct {
	rc          int // 0 absent, else the Result-Code
	host, realm int // as namedAVP modes
	apps        []string
}

func (c ceaSpec) bytes(hbh, e2e uint32) []byte {
	m := diam.NewMessage(257, 0, 0, 1, 1, dict.Default)
	m.Header.HopByHopID, m.Header.EndToEndID = hbh, e2e
	if c.rc != 0 {
		m.NewAVP(268, 0x40, 0, datatype.Unsigned32(uint32(c.rc)))
	}
	if a := namedAVP(264, c.host, "srv.example.net"); a != nil {
		m.AddAVP(a)
	}
	if a := namedAVP(296, c.realm, "example.net"); a != nil {
		m.AddAVP(a)
	}
	m.NewAVP(257, 0x40, 0, datatype.Address(net.ParseIP("10.9.8.7").To4()))
	m.NewAVP(266, 0x40, 0, datatype.Unsigned32(99))
	m.NewAVP(269, 0, 0, datatype.UTF8String("peer"))
	for _, k := range c.apps {
		m.AddAVP(appAVP(k))
	}
	b, _ := m.Serialize()
	return b
}

func classifyCEAErr(err error) string {
	if err == nil {
		return "ok"
	}
	switch err {
	case smparser.ErrMissingResultCode:
		return "missingrc"
	case smparser.ErrMissingOriginHost:
		return "missinghost"
	case smparser.ErrMissingOriginRealm:
		return "missingrealm"
	case smparser.ErrMissingApplication, smparser.ErrNoCommonApplication:
		return "application"
	case sm.ErrHandshakeTimeout:
		return "timeout"
	}
	if e, ok := err.(*smparser.ErrFailedResultCode); ok {
		return fmt.Sprintf("failedrc:%d", e.CEA.ResultCode)
	}
	if _, ok := err.(*smparser.ErrUnexpectedAVP); ok {
		return "unexpected"
	}
	s := err.Error()
	if strings.Contains(s, "closed network connection") || strings.Contains(s, "scripted write error") {
		return "write"
	}
	return "other:" + strings.ReplaceAll(s, " ", "_")
}

// smclient cea rc=<n> host=<mode> realm=<mode> apps=<k,k,..>
func execCEA(toks []string) string {
	var c ceaSpec
	if v, ok := kvGet(toks, "rc"); ok {
		c.rc, _ = strconv.Atoi(v)
	}
	if v, ok := kvGet(toks, "host"); ok {
		c.host, _ = strconv.Atoi(v)
	}
	if v, ok := kvGet(toks, "realm"); ok {
		c.realm, _ = strconv.Atoi(v)
	}
	if v, ok := kvGet(toks, "apps"); ok && v != "-" {
		c.apps = strings.Split(v, ",")
	}
	b := c.bytes(7, 8)
	m, err := diam.ReadMessage(bytesReader(b), dict.Default)
	if err != nil {
		return "unreadable"
	}
	cea := new(smparser.CEA)
	res := ""
	if r := guard(func() { res = classifyCEAErr(cea.Parse(m, smparser.Client)) }); r != "" {
		return r
	}
	if res == "ok" {
		meta := smpeer.FromCEA(cea)
		var ids []string
		for _, a := range meta.Applications {
			ids = append(ids, strconv.Itoa(int(a)))
		}
		res = "ok " + hexOrDash([]byte(meta.OriginHost)) + "/" + hexOrDash([]byte(meta.OriginRealm)) + "/" + strings.Join(ids, ".")
	}
	return res + " msg=" + hex.EncodeToString(b)
}

var errScriptedWrite = fmt.Errorf("scripted write error")

type peerScript struct {
	mu         sync.Mutex
	beh        []string // reaction to the k-th CER
	wf         int      // the wf-th transport write fails (1-based; 0: none)
	writes     int
	cers       [][]byte
	cerTimes   []time.Time
	dwrs       [][]byte
	dwrBeh     []string // reaction to the k-th DWR overall
	dwrIdx     int
	onFirstCER func() // called once, after the first CER has been written and before the peer reacts
	osid       uint32 // Origin-State-Id counter of the `O` reaction
}

func ceaFor(kind string, hbh, e2e uint32) []byte {
	switch kind {
	case "S":
		return ceaSpec{rc: 2001, host: 1, realm: 1, apps: []string{"Au"}}.bytes(hbh, e2e)
	case "F":
		return ceaSpec{rc: 5012, host: 1, realm: 1, apps: []string{"Au"}}.bytes(hbh, e2e)
	case "M":
		return ceaSpec{rc: 2001, host: 0, realm: 1, apps: []string{"Au"}}.bytes(hbh, e2e)
	case "A":
		return ceaSpec{rc: 2001, host: 1, realm: 1}.bytes(hbh, e2e)
	case "U":
		return ceaSpec{rc: 2001, host: 1, realm: 1, apps: []string{"Bx"}}.bytes(hbh, e2e)
	case "R": // a relay agent: only the relay application id
		return ceaSpec{rc: 2001, host: 1, realm: 1, apps: []string{"Ar"}}.bytes(hbh, e2e)
	case "Y": // shares only application 16777999, which the embedded dictionaries do not have
		return ceaSpec{rc: 2001, host: 1, realm: 1, apps: []string{"Vy"}}.bytes(hbh, e2e)
	}
	return nil
}

func dwaFor(rc uint32, hbh, e2e uint32) []byte {
	return simpleMsg(280, 0, 0, hbh, e2e, diam.NewAVP(268, 0x40, 0, datatype.Unsigned32(rc)),
		diam.NewAVP(264, 0x40, 0, datatype.DiameterIdentity("srv.example.net")), diam.NewAVP(296, 0x40, 0, datatype.DiameterIdentity("example.net")))
}

func hdrIDs(b []byte) (cmd uint32, req bool, hbh, e2e uint32) {
	if len(b) < 20 {
		return
	}
	cmd = uint32(b[5])<<16 | uint32(b[6])<<8 | uint32(b[7])
	req = b[4]&0x80 != 0
	hbh = uint32(b[12])<<24 | uint32(b[13])<<16 | uint32(b[14])<<8 | uint32(b[15])
	e2e = uint32(b[16])<<24 | uint32(b[17])<<16 | uint32(b[18])<<8 | uint32(b[19])
	return
}

func (p *peerScript) hook(c *memConn, b []byte) (int, error) {
	p.mu.Lock()
	cmd, req, hbh, e2e := hdrIDs(b)
	// wf=k: the k-th transmission of the CER fails (other writes - an answer to a peer's
	// watchdog request during the handshake - do not count)
	if cmd == 257 && req {
		p.writes++
		if p.wf != 0 && p.writes == p.wf {
			p.mu.Unlock()
			return 0, errScriptedWrite
		}
	}
	var react string
	switch {
	case cmd == 257 && req:
		p.cers = append(p.cers, append([]byte(nil), b...))
		p.cerTimes = append(p.cerTimes, time.Now())
		if k := len(p.cers) - 1; k < len(p.beh) {
			react = "cer:" + p.beh[k]
		}
	case cmd == 280 && req:
		p.dwrs = append(p.dwrs, append([]byte(nil), b...))
		if p.dwrIdx < len(p.dwrBeh) {
			react = "dwr:" + p.dwrBeh[p.dwrIdx]
		}
		p.dwrIdx++
	}
	first := p.onFirstCER
	if cmd == 257 && req && len(p.cers) == 1 {
		p.onFirstCER = nil
	} else {
		first = nil
	}
	p.mu.Unlock()
	c.record(b)
	if first != nil {
		first()
	}
	switch react {
	case "cer:S", "cer:F", "cer:M", "cer:A", "cer:U", "cer:Y", "cer:R":
		c.deliver(ceaFor(react[4:], hbh, e2e))
	case "cer:P": // an application answer instead of a CEA: must not reach the application before the handshake
		c.deliver(simpleMsg(272, 0, 4, 700+hbh%7, 700, diam.NewAVP(268, 0x40, 0, datatype.Unsigned32(2001))))
	case "cer:W": // a watchdog request carrying Origin-State-Id, then an application answer, before any CEA
		c.deliver(simpleMsg(280, 0x80, 0, 500+hbh%5, 500, diam.NewAVP(264, 0x40, 0, datatype.DiameterIdentity("srv.example.net")),
			diam.NewAVP(296, 0x40, 0, datatype.DiameterIdentity("example.net")), diam.NewAVP(278, 0x40, 0, datatype.Unsigned32(77))))
		c.deliver(simpleMsg(272, 0, 4, 700+hbh%7, 700, diam.NewAVP(268, 0x40, 0, datatype.Unsigned32(2001))))
	case "cer:X": // in ONE segment: a failing CEA, then a valid one, then an application answer
		seg := append([]byte(nil), ceaFor("F", hbh, e2e)...)
		seg = append(seg, ceaFor("S", hbh, e2e)...)
		seg = append(seg, simpleMsg(272, 0, 4, 700+hbh%7, 700, diam.NewAVP(268, 0x40, 0, datatype.Unsigned32(2001)))...)
		c.deliver(seg)
	case "cer:C": // the peer sends a CER of its own (acceptable) and an application answer, and only then its CEA:
		// a dialled connection is not a listener - nothing of that reaches the application before the CEA
		c.deliver(cerSpec{host: 1, realm: 1, apps: []string{"Au"}, flags: 0x80, hbh: 4242, e2e: 4242}.bytes())
		c.deliver(simpleMsg(272, 0, 4, 700+hbh%7, 700, diam.NewAVP(268, 0x40, 0, datatype.Unsigned32(2001))))
		waitFor(c.readerParked, time.Second)
		c.deliver(ceaFor("S", hbh, e2e))
	case "cer:Z": // in ONE segment: the success CEA and, right behind it, an application answer
		seg := append([]byte(nil), ceaFor("S", hbh, e2e)...)
		seg = append(seg, simpleMsg(272, 0, 4, 7777, 7777, diam.NewAVP(268, 0x40, 0, datatype.Unsigned32(2001)))...)
		c.deliver(seg)
	case "cer:L": // a success CEA that takes a third of an interval to arrive
		go func() { time.Sleep(clientInterval / 3); c.deliver(ceaFor("S", hbh, e2e)) }()
	case "cer:D":
		c.peerEOF()
	case "dwr:A": // answer at once; the reader and dwr() race for who is first
		c.deliver(dwaFor(2001, hbh, e2e))
	case "dwr:E": // early: the answer is handled by the reader before Write returns to dwr()
		c.deliver(dwaFor(2001, hbh, e2e))
		waitFor(c.readerParked, time.Second)
	case "dwr:L": // late but in time: a third of an interval after the request
		go func() { time.Sleep(clientInterval / 3); c.deliver(dwaFor(2001, hbh, e2e)) }()
	case "dwr:V": // very late but in time: one and a half watchdog intervals after the request
		// (only scripted for clients whose RetransmitInterval is three watchdog intervals)
		go func() { time.Sleep(clientInterval * 3 / 2); c.deliver(dwaFor(2001, hbh, e2e)) }()
	case "dwr:K": // answered at once; the peer spells its Origin-Host with capitals this time
		c.deliver(simpleMsg(280, 0, 0, hbh, e2e, diam.NewAVP(268, 0x40, 0, datatype.Unsigned32(2001)),
			diam.NewAVP(264, 0x40, 0, datatype.DiameterIdentity("SRV.Example.NET")), diam.NewAVP(296, 0x40, 0, datatype.DiameterIdentity("example.net"))))
	case "dwr:O": // answered at once, by a peer whose Origin-State-Id differs from answer to answer
		// (RFC 6733 8.16: it changes when the peer has lost state, e.g. restarted behind a proxy)
		p.mu.Lock()
		p.osid++
		o := p.osid
		p.mu.Unlock()
		c.deliver(simpleMsg(280, 0, 0, hbh, e2e, diam.NewAVP(268, 0x40, 0, datatype.Unsigned32(2001)),
			diam.NewAVP(264, 0x40, 0, datatype.DiameterIdentity("srv.example.net")), diam.NewAVP(296, 0x40, 0, datatype.DiameterIdentity("example.net")),
			diam.NewAVP(278, 0x40, 0, datatype.Unsigned32(1000+o/2))))
	case "dwr:T": // the same request answered three times
		for i := 0; i < 3; i++ {
			c.deliver(dwaFor(2001, hbh, e2e))
			waitFor(c.readerParked, time.Second)
		}
	case "dwr:F":
		c.deliver(dwaFor(5012, hbh, e2e))
		waitFor(c.readerParked, time.Second)
	}
	return len(b), nil
}

// customClientDict: the base dictionary plus an application of the operator's own
var customDictOnce sync.Once
var customDictP *dict.Parser

func customClientDict() *dict.Parser {
	customDictOnce.Do(func() {
		p, err := dict.NewParser()
		if err != nil {
			return
		}
		repo := os.Getenv("VERIF_REPO")
		if repo == "" {
			repo = "/repo"
		}
		if err := p.LoadFile(repo + "/diam/dict/testdata/base.xml"); err != nil {
			return
		}
		x := `<?xml version="1.0" encoding="UTF-8"?><diameter><application id="16777999" type="auth" name="Operator-Own"><command code="8388999" short="OO" name="Operator-Own"><request><rule avp="Origin-Host" required="true" max="1"/></request><answer><rule avp="Origin-Host" required="true" max="1"/></answer></command></application></diameter>`
		if err := p.Load(strings.NewReader(x)); err != nil {
			return
		}
		customDictP = p
	})
	return customDictP
}

// the application lists a client is configured with (am=<k>)
func clientApps(k int) (sv, auth, acct, vsa []*diam.AVP) {
	u := func(code, v uint32) *diam.AVP { return diam.NewAVP(code, 0x40, 0, datatype.Unsigned32(v)) }
	grp := func(ms ...*diam.AVP) *diam.AVP { return diam.NewAVP(260, 0x40, 0, &diam.GroupedAVP{AVP: ms}) }
	switch k {
	case 3: // one application, which only the client's own dictionary knows (am=3 also gives the client that dictionary)
		// (advertised as a vendor-specific application, like 3GPP ones)
		return []*diam.AVP{u(265, 10415)}, nil, nil, []*diam.AVP{grp(u(266, 10415), u(258, 16777999))}
	case 1: // several vendor-specific applications of one vendor, Vendor-Id first (RFC layout), two auth applications
		return []*diam.AVP{u(265, 10415), u(265, 13019)}, []*diam.AVP{u(258, 4), u(258, 1)}, []*diam.AVP{u(259, 3)},
			[]*diam.AVP{grp(u(266, 10415), u(258, 16777251)), grp(u(266, 10415), u(258, 16777238)), grp(u(266, 10415), u(259, 16777251))}
	case 2: // application id first, the same group twice, no supported-vendor list
		return nil, []*diam.AVP{u(258, 4)}, nil,
			[]*diam.AVP{grp(u(258, 16777251), u(266, 10415)), grp(u(258, 16777251), u(266, 10415)), grp(u(259, 3), u(266, 13019))}
	}
	return []*diam.AVP{u(265, 10415)}, []*diam.AVP{u(258, 4)}, []*diam.AVP{u(259, 3)}, []*diam.AVP{grp(u(266, 10415), u(258, 16777251))}
}

func newClient(machine *sm.StateMachine, r int, wd bool) *sm.Client {
	return newClientApps(machine, r, wd, 0)
}

// ri: RetransmitInterval as a multiple of the watchdog interval
func newClientRI(machine *sm.StateMachine, r int, wd bool, ri int) *sm.Client {
	c := newClientApps(machine, r, wd, 0)
	if ri > 1 {
		c.RetransmitInterval = time.Duration(ri) * clientInterval
	}
	return c
}

func newClientApps(machine *sm.StateMachine, r int, wd bool, am int) *sm.Client {
	sv, auth, acct, vsa := clientApps(am)
	var own *dict.Parser
	if am == 3 {
		own = customClientDict()
	}
	return &sm.Client{
		Dict:    own,
		Handler: machine, MaxRetransmits: uint(r), RetransmitInterval: clientInterval,
		EnableWatchdog: wd, WatchdogInterval: clientInterval,
		AuthApplicationID: auth, AcctApplicationID: acct, VendorSpecificApplicationID: vsa, SupportedVendorID: sv,
	}
}

func splitDots(s string) []string {
	if s == "" || s == "-" {
		return nil
	}
	return strings.Split(s, ".")
}

func execDial(toks []string) string {
	rS, _ := kvGet(toks, "r")
	behS, _ := kvGet(toks, "beh")
	postS, _ := kvGet(toks, "post")
	wfS, _ := kvGet(toks, "wf")
	cfgS, _ := kvGet(toks, "cfg")
	R, _ := strconv.Atoi(rS)
	wf, _ := strconv.Atoi(wfS)
	cfgK, _ := strconv.Atoi(cfgS)
	machine := sm.New(settingsMenu(cfgK))
	go func() {
		for range machine.ErrorReports() {
		}
	}()
	var hmu sync.Mutex
	handled := 0
	metaSeen := "nometa"
	zHandled := 0
	machine.HandleFunc("CCA", func(c diam.Conn, m *diam.Message) {
		hmu.Lock()
		if m.Header.EndToEndID == 7777 { // the answer that came in the same segment as the success CEA
			zHandled++
			hmu.Unlock()
			return
		}
		handled++
		metaSeen = "meta"
		if _, ok := smpeer.FromContext(c.Context()); !ok {
			metaSeen = "nometa"
		}
		hmu.Unlock()
	})
	// the application also registers for DWA by name (this client runs no watchdog of its own)
	machine.HandleFunc("DWA", func(c diam.Conn, m *diam.Message) {
		hmu.Lock()
		handled++
		metaSeen = "meta"
		if _, ok := smpeer.FromContext(c.Context()); !ok {
			metaSeen = "nometa"
		}
		hmu.Unlock()
	})
	am := 0
	if a, ok := kvGet(toks, "am"); ok {
		am, _ = strconv.Atoi(a)
	}
	cli := newClientApps(machine, R, false, am)
	// earlier connections of the same client and state machine, each from another local address,
	// each completing its handshake: they must leave nothing behind that shows in this one
	if prevS, ok := kvGet(toks, "prev"); ok {
		prev, _ := strconv.Atoi(prevS)
		for k := 0; k < prev; k++ {
			pc := newMemConn()
			pc.local = memAddr{"tcp", fmt.Sprintf("10.7.%d.%d:3868", k, 1+k)}
			pps := &peerScript{beh: []string{"S"}}
			pc.writeHook = pps.hook
			if c, err := cli.NewConn(pc, "mem"); err == nil && c != nil && k%2 == 0 {
				c.Close()
			}
		}
	}
	// conc=1: another dial through the same client starts while this one waits for its CEA (right
	// after the first CER has been written): each handshake must be decided by the CEA of its own
	// connection
	var concDone chan struct{}
	var startConc func()
	if cS, _ := kvGet(toks, "conc"); cS == "1" {
		concDone = make(chan struct{})
		startConc = func() {
			oc := newMemConn()
			oc.local = memAddr{"tcp", "10.8.0.1:3868"}
			ops := &peerScript{beh: []string{"L"}}
			oc.writeHook = ops.hook
			go func() {
				defer close(concDone)
				if c, err := cli.NewConn(oc, "mem"); err == nil && c != nil {
					time.Sleep(clientInterval)
				}
				oc.Close()
			}()
			// until the other handshake has registered its handlers and written its CER
			waitFor(func() bool { return oc.nWrites() > 0 }, clientInterval/3)
		}
	}
	defer func() {
		if concDone != nil && startConc == nil {
			<-concDone
		}
	}()
	mc := newMemConn()
	if la, ok := kvGet(toks, "la"); ok && la != "" {
		mc.local = memAddr{"tcp", la + ":3868"}
		if la == "zone" { // a link-local IPv6 endpoint with a zone: nothing that can be advertised
			mc.local = memAddr{"tcp", "[fe80::1%eth0]:3868"}
		}
	}
	if la6, ok := kvGet(toks, "la6"); ok && la6 != "" { // an IPv6 local endpoint: [2001:db8::k]:3868
		mc.local = memAddr{"tcp", "[2001:db8::" + la6 + "]:3868"}
	}
	ps := &peerScript{beh: splitDots(behS), wf: wf}
	if startConc != nil {
		sc := startConc
		ps.onFirstCER = func() { sc(); startConc = nil }
	}
	mc.writeHook = ps.hook
	type res struct {
		c   diam.Conn
		err error
	}
	done := make(chan res, 1)
	go func() {
		c, err := cli.NewConn(mc, "mem")
		done <- res{c, err}
	}()
	var out res
	select {
	case out = <-done:
	case <-time.After(time.Duration(R+3)*clientInterval + 2*time.Second):
		mc.Close()
		return "hang"
	}
	ps.mu.Lock()
	ncer := len(ps.cers)
	same := 1
	for _, c := range ps.cers {
		if hex.EncodeToString(c) != hex.EncodeToString(ps.cers[0]) {
			same = 0
		}
	}
	gap := "na"
	for i := 1; i < len(ps.cerTimes); i++ {
		if gap == "na" {
			gap = "ok"
		}
		if ps.cerTimes[i].Sub(ps.cerTimes[i-1]) < clientInterval {
			gap = "short"
		}
	}
	cer0 := ""
	if ncer > 0 {
		cer0 = readOne(ps.cers[0])
	}
	ps.mu.Unlock()
	hmu.Lock()
	pre := handled
	hmu.Unlock()
	class := classifyCEAErr(out.err)
	if out.err == nil && out.c == nil {
		class = "nilconn"
	}
	// a short pause lets a Close issued on the failure path land
	time.Sleep(2 * time.Millisecond)
	closed := 0
	if mc.isClosed() {
		closed = 1
	}
	post := "-"
	if out.err == nil && out.c != nil {
		nq := 0
		for i, p := range splitDots(postS) {
			switch p {
			case "S", "F", "M", "A", "U":
				mc.deliver(ceaFor(p, uint32(900+i), uint32(900+i)))
			case "D": // a DWA (this client runs no watchdog): the application's own "DWA" handler gets it
				nq++
				mc.deliver(dwaFor(2001, uint32(800+i), uint32(800+i)))
			case "Q":
				nq++
				mc.deliver(simpleMsg(272, 0, 4, uint32(800+i), uint32(800+i), diam.NewAVP(268, 0x40, 0, datatype.Unsigned32(2001))))
			}
			waitFor(mc.readerParked, time.Second)
		}
		st := "open"
		if mc.isClosed() {
			st = "closed"
		}
		hmu.Lock()
		post = fmt.Sprintf("%s,%d/%d,%s", st, handled-pre, nq, metaSeen)
		hmu.Unlock()
		if nq == 0 {
			post = fmt.Sprintf("%s,0/0,-", st)
		}
	}
	// after a failed handshake nothing the peer sent along may reach the application: what is
	// still in the read buffer is dispatched after the Close, so wait for the reader to end
	late := "-"
	if out.err != nil {
		waitFor(mc.readerSawClose, time.Second)
		hmu.Lock()
		late = strconv.Itoa(handled)
		hmu.Unlock()
	}
	zTok := ""
	if strings.Contains(behS, "Z") {
		// what followed the success CEA in its segment has passed the gate and reached the application
		waitFor(mc.readerParked, time.Second)
		hmu.Lock()
		zTok = fmt.Sprintf(" z=%d", zHandled)
		hmu.Unlock()
	}
	mc.Close()
	return fmt.Sprintf("out=%s cers=%d same=%d gap=%s closed=%d pre=%d post=%s late=%s%s cer=%s", class, ncer, same, gap, closed, pre, post, late, zTok, cer0)
}

func execWD(toks []string) string {
	rS, _ := kvGet(toks, "r")
	behS, _ := kvGet(toks, "beh")
	R, _ := strconv.Atoi(rS)
	machine := sm.New(settingsMenu(0))
	go func() {
		for range machine.ErrorReports() {
		}
	}()
	var cycles [][]string
	var flat []string
	for _, c := range strings.Split(behS, "/") {
		var cyc []string
		for _, ch := range c {
			cyc = append(cyc, string(ch))
			flat = append(flat, string(ch))
		}
		cycles = append(cycles, cyc)
	}
	// nowd=1: the state machine has served an earlier connection of a client without watchdog
	// (what one client is configured to do must not decide what another gets)
	if p, _ := kvGet(toks, "nowd"); p == "1" {
		c0 := newClient(machine, R, false)
		pc := newMemConn()
		pc.local = memAddr{"tcp", "10.1.2.8:3868"}
		pps := &peerScript{beh: []string{"S"}}
		pc.writeHook = pps.hook
		if c, err := c0.NewConn(pc, "mem"); err == nil && c != nil {
			defer pc.Close()
		}
	}
	mc := newMemConn()
	ps := &peerScript{beh: []string{"S"}, dwrBeh: flat}
	mc.writeHook = ps.hook
	ri := 1
	if v, ok := kvGet(toks, "ri"); ok {
		ri, _ = strconv.Atoi(v)
		if ri < 1 {
			ri = 1
		}
	}
	cli := newClientRI(machine, R, true, ri)
	c, err := cli.NewConn(mc, "mem")
	if err != nil || c == nil {
		mc.Close()
		return "handshake-failed"
	}
	// chat=1: the watched peer keeps sending application answers (but answers DWRs as scripted);
	// chat=2: another connection of the same client and state machine is busy meanwhile.
	// Neither may change what the watchdog does on the watched connection.
	if chat, _ := kvGet(toks, "chat"); chat == "1" || chat == "2" {
		target := mc
		if chat == "2" {
			mc2 := newMemConn()
			mc2.local = memAddr{"tcp", "10.1.2.9:3868"}
			var always []string
			for i := 0; i < 400; i++ {
				always = append(always, "A")
			}
			ps2 := &peerScript{beh: []string{"S"}, dwrBeh: always}
			mc2.writeHook = ps2.hook
			if c2, err := cli.NewConn(mc2, "mem"); err == nil && c2 != nil {
				target = mc2
				defer mc2.Close()
			}
		}
		stop := make(chan struct{})
		defer close(stop)
		go func() {
			id := uint32(70000)
			for {
				select {
				case <-stop:
					return
				case <-time.After(clientInterval / 4):
					id++
					target.deliver(simpleMsg(272, 0, 4, id, id, diam.NewAVP(268, 0x40, 0, datatype.Unsigned32(2001))))
				}
			}
		}()
	}
	// wait until the script is used up or the client closes
	want := len(flat)
	deadline := time.Now().Add(time.Duration(want+4)*2*clientInterval*time.Duration(ri) + 2*time.Second)
	for time.Now().Before(deadline) {
		ps.mu.Lock()
		n := ps.dwrIdx
		ps.mu.Unlock()
		if mc.isClosed() || n >= want {
			break
		}
		time.Sleep(time.Millisecond)
	}
	// the last reaction may still lead to a close (silence) or not (answer): give it one full cycle
	if !mc.isClosed() {
		last := ""
		if len(flat) > 0 {
			last = flat[len(flat)-1]
		}
		if last == "N" || last == "F" {
			waitFor(mc.isClosed, 12*clientInterval*time.Duration(ri))
		} else if last == "V" {
			time.Sleep(2 * clientInterval)
		} else {
			time.Sleep(clientInterval / 3)
		}
	}
	closed := 0
	if mc.isClosed() {
		closed = 1
	}
	ps.mu.Lock()
	// group the DWRs by hop-by-hop id: one id per dwr() call
	var groups []string
	lastID := uint32(0)
	cnt := 0
	sameIdent := 1
	for i, d := range ps.dwrs {
		_, _, hbh, _ := hdrIDs(d)
		if i == 0 || hbh != lastID {
			if cnt > 0 {
				groups = append(groups, strconv.Itoa(cnt))
			}
			cnt = 0
			lastID = hbh
		}
		cnt++
		if hex.EncodeToString(d[20:]) != hex.EncodeToString(ps.dwrs[0][20:]) {
			sameIdent = 0
		}
	}
	if cnt > 0 {
		groups = append(groups, strconv.Itoa(cnt))
	}
	dwr0 := ""
	if len(ps.dwrs) > 0 {
		dwr0 = showAVPsOf(ps.dwrs[0])
	}
	ps.mu.Unlock()
	mc.Close()
	g := strings.Join(groups, ".")
	if g == "" {
		g = "-"
	}
	return fmt.Sprintf("cycles=%s same=%d closed=%d dwr=%s", g, sameIdent, closed, dwr0)
}

func showAVPsOf(b []byte) string {
	m, err := diam.ReadMessage(bytesReader(b), dict.Default)
	if err != nil {
		return "unreadable"
	}
	return showAVPs(m.AVP)
}

func genSMClient(r *RNG, n int, op string, emit func(string)) {
	switch op {
	case "cea":
		for i := 0; i < n; i++ {
			c := ceaSpec{rc: []int{2001, 2001, 2001, 0, 5012, 5010, 3004, 1, 4294967295}[r.Intn(9)],
				host: []int{1, 1, 1, 1, 0, 2, 3, 4}[r.Intn(8)], realm: []int{1, 1, 1, 1, 0, 2, 3, 4}[r.Intn(8)]}
			for j, k := 0, r.Intn(5); j < k; j++ {
				c.apps = append(c.apps, appKinds[r.Intn(len(appKinds))])
			}
			a := "-"
			if len(c.apps) > 0 {
				a = strings.Join(c.apps, ",")
			}
			emit(fmt.Sprintf("smclient cea rc=%d host=%d realm=%d apps=%s", c.rc, c.host, c.realm, a))
		}
	case "dialall": // every behaviour string for budgets 0..2, with and without a write failure
		var rec func(R int, beh []string)
		rec = func(R int, beh []string) {
			if len(beh) > 0 {
				last := beh[len(beh)-1]
				if (last != "N" && last != "P" && last != "W") || len(beh) == R+1 {
					emit(fmt.Sprintf("smclient dial r=%d cfg=%d beh=%s post=%s wf=0", R, len(beh)%4, strings.Join(beh, "."), []string{"-", "S", "F.Q", "Q.S.Q", "M.U.A.Q"}[len(beh)%5]))
					return
				}
			}
			for _, b := range []string{"S", "F", "M", "A", "U", "N", "D", "P", "W", "X"} {
				rec(R, append(append([]string(nil), beh...), b))
			}
		}
		for R := 0; R <= 2; R++ {
			rec(R, nil)
			for wf := 1; wf <= R+1; wf++ {
				var beh []string
				for k := 0; k < R+1; k++ {
					beh = append(beh, "N")
				}
				emit(fmt.Sprintf("smclient dial r=%d cfg=0 beh=%s post=- wf=%d", R, strings.Join(beh, "."), wf))
			}
		}
	case "dial":
		for i := 0; i < n; i++ {
			R := r.Intn(4)
			var beh []string
			for k := 0; k < R+1; k++ {
				b := []string{"N", "N", "P", "S", "S", "F", "M", "A", "U", "D", "W", "X", "Z", "C", "Y", "R"}[r.Intn(16)]
				beh = append(beh, b)
				if b != "N" && b != "P" && b != "W" {
					break
				}
			}
			var post []string
			for k, m := 0, r.Intn(5); k < m; k++ {
				post = append(post, []string{"S", "F", "Q", "Q", "M", "A", "U", "D"}[r.Intn(8)])
			}
			p := "-"
			if len(post) > 0 {
				p = strings.Join(post, ".")
			}
			wf := 0
			if r.Chance(10) {
				wf = 1 + r.Intn(R+1)
			}
			line := fmt.Sprintf("smclient dial r=%d cfg=%d beh=%s post=%s wf=%d", R, r.Intn(4), strings.Join(beh, "."), p, wf)
			if r.Chance(35) { // not the first connection of this client, and not from the usual local address
				line += fmt.Sprintf(" la=%d.%d.%d.%d prev=%d", 1+r.Intn(220), r.Intn(256), r.Intn(256), 1+r.Intn(250), r.Intn(3))
			}
			if r.Chance(25) {
				line += " conc=1"
			}
			if r.Chance(30) {
				line += fmt.Sprintf(" am=%d", 1+r.Intn(2))
			} else if r.Chance(8) {
				// the client has a dictionary of its own with one more application, and advertises only that one
				var b3 []string
				for k := 0; k < R; k++ {
					b3 = append(b3, "N")
				}
				b3 = append(b3, "Y")
				// (no application traffic afterwards: the scripted answers are of applications this dictionary lacks)
				line = fmt.Sprintf("smclient dial r=%d cfg=%d beh=%s post=%s wf=0 am=3", R, r.Intn(4), strings.Join(b3[len(b3)-1-r.Intn(R+1):], "."), []string{"-", "S", "S.F"}[r.Intn(3)])
			}
			if !strings.Contains(line, " la=") && r.Chance(15) {
				line += fmt.Sprintf(" la6=%d", 1+r.Intn(9))
			} else if !strings.Contains(line, " la=") && r.Chance(12) {
				line += " la=zone"
			}
			emit(line)
		}
	case "redial":
		for _, k := range []int{3, 20, 40, 70} {
			emit(fmt.Sprintf("smclient redial n=%d", k))
		}
	case "dialtcp":
		for _, via := range []string{"plain", "timeout", "ext"} {
			to := 150 + r.Intn(100)
			emit(fmt.Sprintf("smclient dialtcp via=%s to=%d wait=%d", via, to, to+60+r.Intn(60)))
		}
	case "wd":
		for i := 0; i < n; i++ {
			R := r.Intn(3)
			var cyc []string
			ncyc := 1 + r.Intn(3)
			for c := 0; c < ncyc; c++ {
				s := ""
				for k := 0; k < R+1; k++ {
					b := []string{"A", "E", "E", "L", "F", "N", "T", "O", "K"}[r.Intn(9)]
					s += b
					if b == "A" || b == "E" || b == "L" || b == "T" || b == "O" || b == "K" {
						break
					}
				}
				cyc = append(cyc, s)
				if strings.Trim(s, "NF") == "" { // a silent cycle ends the connection
					break
				}
			}
			line := fmt.Sprintf("smclient wd r=%d beh=%s", R, strings.Join(cyc, "/"))
			if r.Chance(25) { // RetransmitInterval longer than the watchdog interval; slow answers
				line = fmt.Sprintf("smclient wd r=%d beh=%s ri=3", R, strings.ReplaceAll(strings.Join(cyc, "/"), "L", "V"))
				emit(line)
				continue
			}
			if r.Chance(30) {
				line += fmt.Sprintf(" chat=%d", 1+r.Intn(2))
			}
			if r.Chance(20) {
				line += " nowd=1"
			}
			emit(line)
		}
	}
}

func init() {
	executors["smclient cea"] = execCEA
	executors["smclient dial"] = execDial
	executors["smclient wd"] = execWD
	generators["smclient"] = genSMClient
}
