package main

// sctp wstall: a Server with a WriteTimeout serves a multistream association whose transport
// stalls in the first write of every answer for longer than that timeout (the peer's receive
// window is closed for a while) and then takes the bytes. Handlers answer with
// WriteToWithRetry / WriteTo. C07: every message reaches the transport whole and exactly once,
// and a write that was reported as failed has not been delivered.
//
//   sctp wstall wt=<ms> stall=<ms> retries=<k> n=<msgs> stream=<s> => w:<id>:<times on the wire>:<nil|err> ...

import (
	"fmt"
	"sort"
	"strconv"
	"strings"
	"sync"
	"time"

	"github.com/fiorix/go-diameter/v4/diam"
	"github.com/fiorix/go-diameter/v4/diam/datatype"
	"github.com/fiorix/go-diameter/v4/diam/dict"
)

func execSctpWStall(toks []string) string {
	geti := func(k string, def int) int {
		if v, ok := kvGet(toks, k); ok {
			if n, err := strconv.Atoi(v); err == nil {
				return n
			}
		}
		return def
	}
	wt, stall, retries, n, stream := geti("wt", 10), geti("stall", 40), geti("retries", 1), geti("n", 2), geti("stream", 0)
	if n < 1 || n > 16 || wt < 0 || stall < 0 || stall > 500 {
		return "badinput"
	}
	be := newSCTPBackend(nil, nil)
	be.stall = time.Duration(stall) * time.Millisecond
	msc := diam.NewVerifSCTPConn(be)
	defer diam.VerifReleaseSCTPConn(msc)
	var mu sync.Mutex
	errs := map[uint32]string{}
	answered := 0
	hf := diam.HandlerFunc(func(c diam.Conn, m *diam.Message) {
		a := m.Answer(2001)
		a.NewAVP(264, 0x40, 0, datatype.DiameterIdentity("srv"))
		be.armStall()
		var err error
		if retries > 0 {
			_, err = a.WriteToWithRetry(c, uint(retries))
		} else {
			_, err = a.WriteTo(c)
		}
		mu.Lock()
		if err != nil {
			errs[m.Header.HopByHopID] = "err"
		} else {
			errs[m.Header.HopByHopID] = "nil"
		}
		answered++
		mu.Unlock()
	})
	l := &scriptListener{ch: make(chan acceptRes, 2)}
	srv := &diam.Server{Handler: hf, Dict: dict.Default, WriteTimeout: time.Duration(wt) * time.Millisecond}
	done := make(chan error, 1)
	go func() { done <- srv.Serve(l) }()
	l.ch <- acceptRes{c: msc}
	be.mu.Lock()
	for i := 0; i < n; i++ {
		id := uint32(7000 + i)
		be.chunks = append(be.chunks, sctpChunk{uint16(stream), simpleMsg(280, 0x80, 0, id, id,
			diam.NewAVP(264, 0x40, 0, datatype.DiameterIdentity("a")), diam.NewAVP(296, 0x40, 0, datatype.DiameterIdentity("b")))})
	}
	be.cond.Broadcast()
	be.mu.Unlock()
	ok := waitFor(func() bool { mu.Lock(); defer mu.Unlock(); return answered == n }, time.Duration(n*(stall+50)+1500)*time.Millisecond)
	// whatever is still inside the transport gets the time to come out
	time.Sleep(time.Duration(stall+20) * time.Millisecond)
	be.mu.Lock()
	count := map[uint32]int{}
	for _, w := range be.writes {
		if len(w.data) >= 16 {
			count[uint32(w.data[12])<<24|uint32(w.data[13])<<16|uint32(w.data[14])<<8|uint32(w.data[15])]++
		}
	}
	be.mu.Unlock()
	be.Close()
	l.ch <- acceptRes{err: acceptPermErr{}}
	select {
	case <-done:
	case <-time.After(time.Second):
	}
	if !ok {
		return "stalled"
	}
	var ids []int
	for i := 0; i < n; i++ {
		ids = append(ids, 7000+i)
	}
	sort.Ints(ids)
	var out []string
	mu.Lock()
	for _, id := range ids {
		e := errs[uint32(id)]
		if e == "" {
			e = "none"
		}
		out = append(out, fmt.Sprintf("w:%d:%d:%s", id, count[uint32(id)], e))
	}
	mu.Unlock()
	return strings.Join(out, " ")
}

func genSctpWStall(r *RNG, n int, emit func(string)) {
	for i := 0; i < n; i++ {
		wt := []int{0, 5, 10, 15}[r.Intn(4)]
		stall := []int{0, 30, 45, 60}[r.Intn(4)]
		emit(fmt.Sprintf("sctp wstall wt=%d stall=%d retries=%d n=%d stream=%d", wt, stall, r.Intn(4), 1+r.Intn(3), []int{0, 1, 3, 9}[r.Intn(4)]))
	}
}

func init() {
	executors["sctp wstall"] = execSctpWStall
}
