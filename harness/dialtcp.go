package main

// smclient dialtcp: the client's own dial entry points over loopback TCP, against a scripted
// peer. After a successful handshake the connection is usable and stays usable - also later
// than any dial timeout the caller gave, and after a pause (C12).
//
//   smclient dialtcp via=<plain|timeout|ext> to=<ms> wait=<ms> => dial=<ok|err> w1=<ok|err> w2=<ok|err> recv=<n>

import (
	"fmt"
	"io"
	"net"
	"strconv"
	"sync/atomic"
	"time"

	"github.com/fiorix/go-diameter/v4/diam"
	"github.com/fiorix/go-diameter/v4/diam/datatype"
	"github.com/fiorix/go-diameter/v4/diam/dict"
	"github.com/fiorix/go-diameter/v4/diam/sm"
)

func execDialTCP(toks []string) string {
	via, _ := kvGet(toks, "via")
	toS, _ := kvGet(toks, "to")
	waitS, _ := kvGet(toks, "wait")
	toMs, _ := strconv.Atoi(toS)
	waitMs, _ := strconv.Atoi(waitS)
	ln, err := net.Listen("tcp", "127.0.0.1:0")
	if err != nil {
		return "no-loopback"
	}
	defer ln.Close()
	var recv int32
	go func() {
		c, err := ln.Accept()
		if err != nil {
			return
		}
		defer c.Close()
		for {
			m, err := diam.ReadMessage(c, dict.Default)
			if err != nil {
				if err != io.EOF {
					_ = err
				}
				return
			}
			if m.Header.CommandCode == 257 && m.Header.CommandFlags&0x80 != 0 {
				c.Write(ceaFor("S", m.Header.HopByHopID, m.Header.EndToEndID))
				continue
			}
			if m.Header.CommandCode == 272 {
				atomic.AddInt32(&recv, 1)
			}
		}
	}()
	machine := sm.New(settingsMenu(0))
	go func() {
		for range machine.ErrorReports() {
		}
	}()
	cli := newClient(machine, 1, false)
	cli.RetransmitInterval = 2 * time.Second
	to := time.Duration(toMs) * time.Millisecond
	var c diam.Conn
	switch via {
	case "timeout":
		c, err = cli.DialTimeout(ln.Addr().String(), to)
	case "ext":
		c, err = cli.DialExt("tcp", ln.Addr().String(), to, nil)
	default:
		c, err = cli.Dial(ln.Addr().String())
	}
	if err != nil || c == nil {
		return "dial=err"
	}
	defer c.Close()
	send := func(id uint32) string {
		m := diam.NewRequest(272, 4, dict.Default)
		m.Header.HopByHopID, m.Header.EndToEndID = id, id
		m.NewAVP(263, 0x40, 0, datatype.UTF8String("s"))
		if _, err := m.WriteTo(c); err != nil {
			return "err"
		}
		return "ok"
	}
	w1 := send(1)
	time.Sleep(time.Duration(waitMs) * time.Millisecond)
	w2 := send(2)
	waitFor(func() bool { return atomic.LoadInt32(&recv) >= 2 }, time.Second)
	return fmt.Sprintf("dial=ok w1=%s w2=%s recv=%d", w1, w2, atomic.LoadInt32(&recv))
}

func init() {
	executors["smclient dialtcp"] = execDialTCP
}
