package main

// Many connections, one after another, on ONE state machine whose optional channels
// (HandshakeNotify, ErrorReports) the application does not read - the usual case.
//
//   smserver many n=<k>  => ok=<connections whose CER got a success CEA and whose request reached the handler>/<k>
//   smclient redial n=<k> => ok=<dials that returned a usable connection>/<k>

import (
	"crypto/tls"
	"encoding/hex"
	"fmt"
	"net"
	"strconv"
	"strings"
	"sync/atomic"
	"time"

	"github.com/fiorix/go-diameter/v4/diam"
	"github.com/fiorix/go-diameter/v4/diam/datatype"
	"github.com/fiorix/go-diameter/v4/diam/dict"
	"github.com/fiorix/go-diameter/v4/diam/sm"
)

func execSMServerMany(toks []string) string {
	nS, _ := kvGet(toks, "n")
	n, _ := strconv.Atoi(nS)
	if n < 1 || n > 200 {
		return "badinput"
	}
	machine := sm.New(settingsMenu(0))
	var handled int32
	machine.HandleFunc("CCR", func(c diam.Conn, m *diam.Message) { atomic.AddInt32(&handled, 1) })
	r := NewRNG(uint64(n))
	ok := 0
	for i := 0; i < n; i++ {
		mc := newMemConn()
		mc.remote = memAddr{"tcp", fmt.Sprintf("10.9.2.%d:%d", 1+i%250, 40000+i)}
		if _, err := diam.NewConn(mc, "mem", machine, dict.Default); err != nil {
			return "err"
		}
		before := atomic.LoadInt32(&handled)
		cer := goodCER(r)
		mc.deliver(cer.bytes())
		mc.deliver(simpleMsg(272, 0x80, 4, uint32(i+1), uint32(i+1), diam.NewAVP(263, 0x40, 0, datatype.UTF8String("s"))))
		got := waitFor(func() bool { return atomic.LoadInt32(&handled) > before }, time.Second)
		cea := false
		for _, w := range mc.writtenMsgs() {
			if len(w) >= 20 && w[5] == 0 && w[6] == 1 && w[7] == 1 && w[4]&0x80 == 0 {
				cea = true
			}
		}
		if got && cea {
			ok++
		}
		mc.Close()
	}
	return fmt.Sprintf("ok=%d/%d", ok, n)
}

func execSMClientRedial(toks []string) string {
	nS, _ := kvGet(toks, "n")
	n, _ := strconv.Atoi(nS)
	if n < 1 || n > 200 {
		return "badinput"
	}
	machine := sm.New(settingsMenu(0))
	cli := newClient(machine, 0, false)
	ok := 0
	for i := 0; i < n; i++ {
		mc := newMemConn()
		ps := &peerScript{beh: []string{"S"}}
		mc.writeHook = ps.hook
		c, err := cli.NewConn(mc, "mem")
		if err == nil && c != nil {
			m := diam.NewRequest(272, 4, dict.Default)
			m.NewAVP(263, 0x40, 0, datatype.UTF8String("s"))
			if _, werr := m.WriteTo(c); werr == nil {
				ok++
			}
		}
		mc.Close()
		if err != nil {
			// a failed dial after a success CEA: everything after it is lost as well; stop early
			break
		}
	}
	return fmt.Sprintf("ok=%d/%d", ok, n)
}

func init() {
	executors["smserver many"] = execSMServerMany
	executors["smclient redial"] = execSMClientRedial
}

// smserver tlscer cfg=<k> segs=<hex of one CER>: the state machine behind a TLS listener. That
// the transport is encrypted changes nothing in how a CER is judged (C11): the events are those of
// `smserver hist` for the same bytes.
func execSMServerTLS(toks []string) string {
	cfgS, _ := kvGet(toks, "cfg")
	segs, _ := kvGet(toks, "segs")
	cfgK, _ := strconv.Atoi(cfgS)
	cer, err := hex.DecodeString(segs)
	if err != nil {
		return "badinput"
	}
	tcfg := acceptTLS()
	if tcfg == nil {
		return "err"
	}
	machine := sm.New(settingsMenu(cfgK))
	go func() {
		for range machine.ErrorReports() {
		}
	}()
	l := &scriptListener{ch: make(chan acceptRes, 2)}
	srv := &diam.Server{Handler: machine, Dict: dict.Default}
	done := make(chan error, 1)
	go func() { done <- srv.Serve(tls.NewListener(l, tcfg)) }()
	sc, cc := net.Pipe()
	l.ch <- acceptRes{c: sc}
	tc := tls.Client(cc, &tls.Config{InsecureSkipVerify: true})
	cc.SetDeadline(time.Now().Add(2 * time.Second))
	if err := tc.Handshake(); err != nil {
		return "tls-handshake-failed"
	}
	cc.SetDeadline(time.Time{})
	tc.Write(cer)
	var evs []string
	end := "open"
	for {
		cc.SetReadDeadline(time.Now().Add(500 * time.Millisecond))
		m, err := diam.ReadMessage(tc, dict.Default)
		if err != nil {
			if ne, ok := err.(net.Error); !(ok && ne.Timeout()) && !strings.Contains(err.Error(), "timeout") {
				evs = append(evs, "C")
				end = "closed"
			}
			break
		}
		evs = append(evs, "W:"+showHdr(m.Header)+showAVPs(m.AVP))
	}
	tc.Close()
	sc.Close()
	l.ch <- acceptRes{err: acceptPermErr{}}
	select {
	case <-done:
	case <-time.After(time.Second):
	}
	return strings.Join(append(evs, "end="+end), " ")
}

func init() {
	executors["smserver tlscer"] = execSMServerTLS
}
