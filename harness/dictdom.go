package main

import (
	"bytes"
	"fmt"
	"sort"
	"strconv"
	"strings"

	"github.com/fiorix/go-diameter/v4/diam"
	"github.com/fiorix/go-diameter/v4/diam/datatype"
	"github.com/fiorix/go-diameter/v4/diam/dict"
)

// generated dictionary sets: files '!' apps '@' fields '/' lists '+' items '.'
type gAVP struct {
	name         string
	code, vendor uint32
	must, tyName string
}
type gCmd struct {
	code       uint32
	short      string
	nreq, nans int
}
type gApp struct {
	id      uint32
	typ     string
	vendors []uint32
	cmds    []gCmd
	avps    []gAVP
}

func (a gApp) spec() string {
	t := a.typ
	if t == "" {
		t = "-"
	}
	var vs, cs, as []string
	for _, v := range a.vendors {
		vs = append(vs, strconv.Itoa(int(v)))
	}
	for _, c := range a.cmds {
		cs = append(cs, fmt.Sprintf("%d.%s.%d.%d", c.code, c.short, c.nreq, c.nans))
	}
	for _, x := range a.avps {
		m := x.must
		if m == "" {
			m = "-"
		}
		as = append(as, fmt.Sprintf("%s.%d.%d.%s.%s", x.name, x.code, x.vendor, m, x.tyName))
	}
	j := func(l []string, sep string) string {
		if len(l) == 0 {
			return "-"
		}
		return strings.Join(l, sep)
	}
	return fmt.Sprintf("%d/%s/%s/%s/%s", a.id, t, j(vs, "."), j(cs, "+"), j(as, "+"))
}

func specOf(files [][]gApp) string {
	var fs []string
	for _, f := range files {
		var as []string
		for _, a := range f {
			as = append(as, a.spec())
		}
		fs = append(fs, strings.Join(as, "@"))
	}
	return strings.Join(fs, "!")
}

func parseSpecGo(spec string) [][]gApp {
	var files [][]gApp
	for _, f := range strings.Split(spec, "!") {
		var apps []gApp
		for _, t := range strings.Split(f, "@") {
			p := strings.Split(t, "/")
			if len(p) != 5 {
				continue
			}
			var a gApp
			id, _ := strconv.ParseUint(p[0], 10, 32)
			a.id = uint32(id)
			if p[1] != "-" {
				a.typ = p[1]
			}
			if p[2] != "-" {
				for _, v := range strings.Split(p[2], ".") {
					n, _ := strconv.ParseUint(v, 10, 32)
					a.vendors = append(a.vendors, uint32(n))
				}
			}
			if p[3] != "-" {
				for _, c := range strings.Split(p[3], "+") {
					q := strings.Split(c, ".")
					if len(q) == 4 {
						code, _ := strconv.ParseUint(q[0], 10, 32)
						nr, _ := strconv.Atoi(q[2])
						na, _ := strconv.Atoi(q[3])
						a.cmds = append(a.cmds, gCmd{uint32(code), q[1], nr, na})
					}
				}
			}
			if p[4] != "-" {
				for _, c := range strings.Split(p[4], "+") {
					q := strings.Split(c, ".")
					if len(q) == 5 {
						code, _ := strconv.ParseUint(q[1], 10, 32)
						vend, _ := strconv.ParseUint(q[2], 10, 32)
						m := q[3]
						if m == "-" {
							m = ""
						}
						a.avps = append(a.avps, gAVP{q[0], uint32(code), uint32(vend), m, q[4]})
					}
				}
			}
			apps = append(apps, a)
		}
		files = append(files, apps)
	}
	return files
}

func xmlOf(apps []gApp) string {
	var b strings.Builder
	b.WriteString("<?xml version=\"1.0\" encoding=\"UTF-8\"?>\n<diameter>\n")
	for _, a := range apps {
		fmt.Fprintf(&b, "<application id=\"%d\"", a.id)
		if a.typ != "" {
			fmt.Fprintf(&b, " type=\"%s\"", a.typ)
		}
		fmt.Fprintf(&b, " name=\"gen%d\">\n", a.id)
		for _, v := range a.vendors {
			fmt.Fprintf(&b, "<vendor id=\"%d\" name=\"v%d\"/>\n", v, v)
		}
		for _, c := range a.cmds {
			fmt.Fprintf(&b, "<command code=\"%d\" short=\"%s\" name=\"%s-Cmd\">\n<request>", c.code, c.short, c.short)
			for i := 0; i < c.nreq; i++ {
				b.WriteString("<rule avp=\"Origin-Host\" required=\"true\" max=\"1\"/>")
			}
			b.WriteString("</request>\n<answer>")
			for i := 0; i < c.nans; i++ {
				b.WriteString("<rule avp=\"Origin-Host\" required=\"true\" max=\"1\"/>")
			}
			b.WriteString("</answer>\n</command>\n")
		}
		for _, x := range a.avps {
			fmt.Fprintf(&b, "<avp name=\"%s\" code=\"%d\" must=\"%s\" may=\"P\" must-not=\"-\" may-encrypt=\"-\"", x.name, x.code, x.must)
			if x.vendor != 0 {
				fmt.Fprintf(&b, " vendor-id=\"%d\"", x.vendor)
			}
			// `Type#k`: k enumeration items (Enumerated) or k rules (any other type)
			ty, k := x.tyName, 0
			if i := strings.Index(ty, "#"); i >= 0 {
				k, _ = strconv.Atoi(ty[i+1:])
				ty = ty[:i]
			}
			if k == 0 {
				fmt.Fprintf(&b, ">\n<data type=\"%s\"/>\n</avp>\n", ty)
			} else {
				fmt.Fprintf(&b, ">\n<data type=\"%s\">\n", ty)
				for j := 0; j < k; j++ {
					if ty == "Enumerated" {
						fmt.Fprintf(&b, "<item code=\"%d\" name=\"ITEM_%d\"/>\n", j, j)
					} else {
						fmt.Fprintf(&b, "<rule avp=\"Origin-Host\" required=\"false\" max=\"%d\"/>\n", j+1)
					}
				}
				b.WriteString("</data>\n</avp>\n")
			}
		}
		b.WriteString("</application>\n")
	}
	b.WriteString("</diameter>\n")
	return b.String()
}

type loadedSet struct {
	p     *dict.Parser
	loads []string
}

var setCache = map[string]*loadedSet{}

func loadSet(files [][]gApp) *loadedSet {
	p, _ := dict.NewParser()
	ls := &loadedSet{p: p}
	for _, f := range files {
		if err := p.Load(bytes.NewReader([]byte(xmlOf(f)))); err != nil {
			ls.loads = append(ls.loads, "0")
		} else {
			ls.loads = append(ls.loads, "1")
		}
	}
	return ls
}

func showDictAVP(a *dict.AVP) string {
	if a == nil {
		return "none"
	}
	app := uint32(0)
	if a.App != nil {
		app = a.App.ID
	}
	return fmt.Sprintf("(%d,%d,%s,%d,%d,%d)", app, a.Code, a.Name, a.VendorID, int(a.Data.Type), len(a.Data.Enum)+len(a.Data.Rule))
}

func evalQueryGo(p *dict.Parser, q string) string {
	f := strings.Split(q, ":")
	u := func(s string) uint32 { n, _ := strconv.ParseUint(s, 10, 32); return uint32(n) }
	var out string
	r := guard(func() {
		switch {
		case f[0] == "c" && len(f) == 4:
			a, err := p.FindAVPWithVendor(u(f[1]), u(f[2]), u(f[3]))
			if err != nil {
				if a != nil {
					out = fmt.Sprintf("unk(%d,%d)", a.Code, a.VendorID)
				} else {
					out = "none"
				}
			} else {
				out = showDictAVP(a)
			}
		case f[0] == "i" && len(f) == 4:
			a, err := p.FindAVPWithVendor(u(f[1]), int(u(f[2])), u(f[3]))
			if err != nil || a == nil {
				out = "none"
			} else {
				out = showDictAVP(a)
			}
		case f[0] == "n" && len(f) == 4:
			a, err := p.FindAVPWithVendor(u(f[1]), f[2], u(f[3]))
			if err != nil || a == nil {
				out = "none"
			} else {
				out = showDictAVP(a)
			}
		case f[0] == "k" && len(f) == 3:
			c, err := p.FindCommand(u(f[1]), u(f[2]))
			if err != nil {
				out = "none"
			} else {
				out = fmt.Sprintf("(%d,%s,%d,%d)", c.Code, c.Short, len(c.Request.Rule), len(c.Answer.Rule))
			}
		case f[0] == "a" && len(f) == 3:
			var a *dict.App
			var err error
			if f[2] == "-" {
				a, err = p.App(u(f[1]))
			} else {
				a, err = p.App(u(f[1]), f[2])
			}
			if err != nil {
				out = "none"
			} else {
				t := a.Type
				if t == "" {
					t = "-"
				}
				out = fmt.Sprintf("(%d,%s)", a.ID, t)
			}
		default:
			out = "badquery"
		}
	})
	if r != "" {
		return r
	}
	return out
}

func execDictQuery(toks []string) string {
	set, _ := kvGet(toks, "set")
	qsT, _ := kvGet(toks, "qs")
	var qs []string
	if qsT != "-" {
		qs = strings.Split(qsT, ";")
	}
	evalAll := func(p *dict.Parser) string {
		var rs []string
		for _, q := range qs {
			rs = append(rs, evalQueryGo(p, q))
		}
		return strings.Join(rs, ";")
	}
	if set == "default" {
		return "loads=- " + evalAll(dict.Default)
	}
	files := parseSpecGo(set)
	if kS, ok := kvGet(toks, "k"); ok {
		k, _ := strconv.Atoi(kS)
		if k > len(files) {
			k = len(files)
		}
		// one parser, loaded in two stages (monotonicity is about loading FURTHER dictionaries)
		p, _ := dict.NewParser()
		var loads []string
		load := func(f []gApp) {
			if err := p.Load(bytes.NewReader([]byte(xmlOf(f)))); err != nil {
				loads = append(loads, "0")
			} else {
				loads = append(loads, "1")
			}
		}
		for _, f := range files[:k] {
			load(f)
		}
		r1 := evalAll(p)
		for _, f := range files[k:] {
			load(f)
		}
		r2 := evalAll(p)
		return "loads=" + strings.Join(loads, ",") + " " + r1 + " | " + r2
	}
	ls := loadSet(files)
	l := strings.Join(ls.loads, ",")
	if l == "" {
		l = "-"
	}
	return "loads=" + l + " " + evalAll(ls.p)
}

// every type name the loader accepts must be encodable and decodable
func execDictTypes(toks []string) string {
	var names []string
	for n := range datatype.Available {
		names = append(names, n)
	}
	sort.Strings(names)
	// the driver lists them in source order of datatype.Available; sort both sides the same way
	var out []string
	for _, n := range orderedTypeNames() {
		res := "ok"
		r := guard(func() {
			app := gApp{id: 0, cmds: []gCmd{{257, "CE", 1, 1}}, avps: []gAVP{{"X-Typed", 9001, 0, "M", n}}}
			p, _ := dict.NewParser()
			if err := p.Load(bytes.NewReader([]byte(xmlOf([]gApp{app})))); err != nil {
				res = "load-error"
				return
			}
			tid := datatype.Available[n]
			var v datatype.Type
			if tid == datatype.GroupedType {
				v = &diam.GroupedAVP{}
			} else {
				v = genLeaf(NewRNG(uint64(tid)), tid)
			}
			m := diam.NewMessage(257, 0x80, 0, 1, 1, p)
			m.NewAVP(9001, 0x40, 0, v)
			b, err := m.Serialize()
			if err != nil {
				res = "encode-error"
				return
			}
			m2, err := diam.ReadMessage(bytes.NewReader(b), p)
			if err != nil {
				res = "decode-error"
				return
			}
			b2, _ := m2.Serialize()
			if !bytes.Equal(b, b2) {
				res = "roundtrip-differs"
			}
		})
		if r != "" {
			res = r
		}
		out = append(out, n+"="+res)
	}
	_ = names
	return strings.Join(out, ",")
}

// datatype.Available in the order of the source file (what the extractor emits)
func orderedTypeNames() []string {
	return []string{"Address", "DiameterIdentity", "DiameterURI", "Enumerated", "Float32", "Float64", "Grouped", "IPFilterRule", "IPv4", "IPv6", "Integer32", "Integer64", "OctetString", "QoSFilterRule", "Time", "UTF8String", "Unsigned32", "Unsigned64"}
}

// ---- generators

var genTypeNames = []string{"Unsigned32", "OctetString", "UTF8String", "Grouped", "Address", "Time", "Enumerated", "DiameterIdentity", "Integer64", "IPv6", "QoSFilterRule"}

func genDictSet(r *RNG) [][]gApp {
	appIDs := []uint32{0, 1, 4, 4, 16777251, 16777238, 5, 5, 77}
	nfiles := 1 + r.Intn(4)
	var files [][]gApp
	for f := 0; f < nfiles; f++ {
		var apps []gApp
		for a, na := 0, 1+r.Intn(3); a < na; a++ {
			app := gApp{id: appIDs[r.Intn(len(appIDs))]}
			app.typ = []string{"", "", "auth", "acct", "auth"}[r.Intn(5)]
			if r.Chance(30) {
				app.vendors = []uint32{10415}
			}
			for c, nc := 0, r.Intn(3); c < nc; c++ {
				code := []uint32{257, 272, 280, 300, 301}[r.Intn(5)]
				app.cmds = append(app.cmds, gCmd{code, []string{"CE", "CC", "DW", "XA", "XB"}[r.Intn(5)], r.Intn(3), r.Intn(3)})
			}
			for x, nx := 0, r.Intn(6); x < nx; x++ {
				code := uint32(1 + r.Intn(6))
				name := fmt.Sprintf("G-Avp-%d", 1+r.Intn(6))
				if r.Chance(50) {
					name = fmt.Sprintf("G-Avp-%d", code)
				}
				ty := genTypeNames[r.Intn(len(genTypeNames))]
				if r.Chance(4) {
					ty = "NoSuchType"
				}
				if (ty == "Enumerated" || ty == "Grouped") && r.Chance(60) {
					ty += fmt.Sprintf("#%d", 1+r.Intn(3))
				}
				app.avps = append(app.avps, gAVP{name, code, []uint32{0, 0, 10415, 99, 4294967295}[r.Intn(5)], []string{"M", "", "M,V"}[r.Intn(3)], ty})
			}
			// a later file repeats a definition of an earlier one and only extends its item / rule list
			// (how an operator's dictionary extends an enumeration of the one it builds on)
			if len(files) > 0 && r.Chance(35) {
				prev := files[r.Intn(len(files))]
				if len(prev) > 0 {
					pa := prev[r.Intn(len(prev))]
					if len(pa.avps) > 0 {
						x := pa.avps[r.Intn(len(pa.avps))]
						base := x.tyName
						if i := strings.Index(base, "#"); i >= 0 {
							base = base[:i]
						}
						if base != "NoSuchType" {
							x.tyName = fmt.Sprintf("%s#%d", base, 4+r.Intn(3))
							app.id, app.typ = pa.id, pa.typ
							app.avps = append(app.avps, x)
						}
					}
				}
			}
			apps = append(apps, app)
		}
		files = append(files, apps)
	}
	return files
}

func genDictQueries(r *RNG, n int) string {
	apps := []uint32{0, 1, 4, 16777251, 16777238, 5, 77, 3}
	vendors := []uint32{0, 10415, 99, 4294967295, 4294967295, 7}
	var qs []string
	for i := 0; i < n; i++ {
		a := apps[r.Intn(len(apps))]
		v := vendors[r.Intn(len(vendors))]
		switch r.Intn(8) {
		case 0, 1, 2:
			qs = append(qs, fmt.Sprintf("c:%d:%d:%d", a, 1+r.Intn(7), v))
		case 3:
			qs = append(qs, fmt.Sprintf("i:%d:%d:%d", a, 1+r.Intn(7), v))
		case 4, 5:
			qs = append(qs, fmt.Sprintf("n:%d:G-Avp-%d:%d", a, 1+r.Intn(7), v))
		case 6:
			qs = append(qs, fmt.Sprintf("k:%d:%d", a, []uint32{257, 272, 280, 300, 301, 999}[r.Intn(6)]))
		case 7:
			qs = append(qs, fmt.Sprintf("a:%d:%s", a, []string{"-", "auth", "acct", "zzz"}[r.Intn(4)]))
		}
	}
	return strings.Join(qs, ";")
}

func genDict(r *RNG, n int, op string, emit func(string)) {
	switch op {
	case "types":
		emit("dict types x=1")
	case "default":
		// every (app, code, name, vendor) of the embedded dictionaries and their neighbours
		v := view()
		var qs []string
		flush := func() {
			if len(qs) > 0 {
				emit("dict query set=default qs=" + strings.Join(qs, ";"))
				qs = nil
			}
		}
		apps := append(append([]uint32{}, v.apps...), 2, 77, 16777999)
		count := 0
		for _, app := range apps {
			for _, x := range v.byApp[v.apps[r.Intn(len(v.apps))]] {
				if count >= n {
					flush()
					return
				}
				vend := []uint32{x.vendor, 0, 10415, 4294967295, 12345}[r.Intn(5)]
				switch r.Intn(4) {
				case 0:
					qs = append(qs, fmt.Sprintf("c:%d:%d:%d", app, x.code, vend))
				case 1:
					qs = append(qs, fmt.Sprintf("n:%d:%s:%d", app, x.name, vend))
				case 2:
					qs = append(qs, fmt.Sprintf("c:%d:%d:%d", app, x.code+uint32(r.Intn(3)), vend))
				case 3:
					qs = append(qs, fmt.Sprintf("i:%d:%d:%d", app, x.code, vend))
				}
				count++
				if len(qs) >= 50 {
					flush()
				}
			}
			for _, c := range []uint32{257, 258, 265, 271, 272, 274, 275, 280, 282, 300, 301, 303, 304, 316, 317, 318, 321, 322, 323, 8388635, 9999} {
				qs = append(qs, fmt.Sprintf("k:%d:%d", app, c))
			}
			for _, t := range []string{"-", "auth", "acct", "x"} {
				qs = append(qs, fmt.Sprintf("a:%d:%s", app, t))
			}
			flush()
		}
		flush()
	case "mono":
		for i := 0; i < n; i++ {
			files := genDictSet(r)
			k := r.Intn(len(files) + 1)
			emit(fmt.Sprintf("dict query set=%s k=%d qs=%s", specOf(files), k, genDictQueries(r, 12+r.Intn(20))))
		}
	default:
		for i := 0; i < n; i++ {
			files := genDictSet(r)
			emit(fmt.Sprintf("dict query set=%s qs=%s", specOf(files), genDictQueries(r, 12+r.Intn(20))))
		}
	}
}

func init() {
	executors["dict query"] = execDictQuery
	executors["dict types"] = execDictTypes
	generators["dict"] = genDict
}

// codec findn: the same by-name search in two messages that differ only in their dictionary
func execFindN(toks []string) string {
	sets, _ := kvGet(toks, "sets")
	name, _ := kvGet(toks, "name")
	mode, _ := kvGet(toks, "mode")
	appS, _ := kvGet(toks, "app")
	app, _ := strconv.ParseUint(appS, 10, 32)
	var outs []string
	for _, spec := range strings.Split(sets, "^") {
		ls := loadSet(parseSpecGo(spec))
		as := parseAVPs(findTok(toks, "["))
		m := diam.NewMessage(257, 0x80, uint32(app), 1, 1, ls.p)
		for _, a := range as {
			m.AddAVP(a)
		}
		var res []*diam.AVP
		var err error
		r := guard(func() {
			if mode == "first" {
				var a *diam.AVP
				a, err = m.FindAVP(name, dict.UndefinedVendorID)
				if err == nil {
					res = []*diam.AVP{a}
				}
			} else {
				res, err = m.FindAVPs(name, dict.UndefinedVendorID)
			}
		})
		switch {
		case r != "":
			outs = append(outs, r)
		case err != nil:
			outs = append(outs, "err")
		default:
			outs = append(outs, showAVPs(res))
		}
	}
	return strings.Join(outs, " | ")
}

func genFindN(r *RNG, n int, emit func(string)) {
	for i := 0; i < n; i++ {
		name := fmt.Sprintf("G-Avp-%d", 1+r.Intn(3))
		mk := func(code uint32, define bool) [][]gApp {
			app := gApp{id: 0, cmds: []gCmd{{257, "CE", 1, 1}}}
			if define {
				app.avps = append(app.avps, gAVP{name, code, 0, "M", "Unsigned32"})
			}
			app.avps = append(app.avps, gAVP{"G-Other", 7, 0, "M", "Unsigned32"}, gAVP{"G-Grp", 8, 0, "M", "Grouped"})
			return [][]gApp{{app}}
		}
		cA, cB := uint32(1+r.Intn(3)), uint32(1+r.Intn(3))
		sets := specOf(mk(cA, true)) + "^" + specOf(mk(cB, r.Chance(80)))
		if r.Chance(30) {
			sets += "^" + specOf(mk(cA, true))
		}
		serial := uint32(0)
		var mkT func(d int) *diam.AVP
		mkT = func(d int) *diam.AVP {
			serial++
			if d < 2 && r.Chance(30) {
				g := &diam.GroupedAVP{}
				for k, m := 0, r.Intn(3); k < m; k++ {
					g.AVP = append(g.AVP, mkT(d+1))
				}
				return diam.NewAVP(8, 0x40, 0, g)
			}
			return diam.NewAVP(uint32(1+r.Intn(3)), 0x40, 0, datatype.Unsigned32(serial))
		}
		var as []*diam.AVP
		for k, m := 0, 1+r.Intn(5); k < m; k++ {
			as = append(as, mkT(0))
		}
		emit(fmt.Sprintf("codec findn app=0 sets=%s name=%s mode=%s %s", sets, name, []string{"first", "all"}[r.Intn(2)], showAVPs(as)))
	}
}

func init() {
	executors["codec findn"] = execFindN
}
