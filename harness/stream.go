package main

import (
	"bufio"
	"encoding/hex"
	"errors"
	"fmt"
	"io"
	"strconv"
	"strings"

	"github.com/fiorix/go-diameter/v4/diam"
	"github.com/fiorix/go-diameter/v4/diam/dict"
)

// scripted transport: returns the given fragments one Read at a time (never more than the
// caller's buffer), then EOF or a transport error.
type fragReader struct {
	frags    [][]byte
	fin      error
	consumed int
	coalesce bool // the last bytes of the stream are returned together with fin (io.Reader allows it; crypto/tls does it)
}

var errTransport = errors.New("scripted transport error")

func (f *fragReader) Read(p []byte) (int, error) {
	for len(f.frags) > 0 && len(f.frags[0]) == 0 {
		f.frags = f.frags[1:]
	}
	if len(f.frags) == 0 {
		return 0, f.fin
	}
	if len(p) == 0 {
		return 0, nil
	}
	n := copy(p, f.frags[0])
	f.frags[0] = f.frags[0][n:]
	f.consumed += n
	if f.coalesce && len(f.frags) == 1 && len(f.frags[0]) == 0 {
		f.frags = nil
		return n, f.fin
	}
	return n, nil
}

func cutFrags(sizes []int, b []byte) [][]byte {
	var out [][]byte
	for _, n := range sizes {
		if len(b) == 0 {
			break
		}
		if n == 0 {
			continue
		}
		if n > len(b) {
			n = len(b)
		}
		out = append(out, b[:n])
		b = b[n:]
	}
	if len(b) > 0 {
		out = append(out, b)
	}
	return out
}

func classifyReadErr(err error) string {
	switch {
	case err == io.EOF:
		return "eof"
	case err == io.ErrUnexpectedEOF, err == errTransport, err == errMemRead:
		return "errHeader"
	}
	s := err.Error()
	switch {
	case strings.HasPrefix(s, "readBody Error"):
		return "errBody"
	case strings.HasPrefix(s, "Could not find preloaded Command"):
		return "errCommand"
	case strings.HasPrefix(s, "Invalid message length"):
		return "reject"
	}
	return "errDecode"
}

func execStream(toks []string) string {
	bs, err := hex.DecodeString(strings.TrimPrefix(toks[len(toks)-1], "-"))
	if err != nil {
		return "badinput"
	}
	finS, _ := kvGet(toks, "fin")
	via, _ := kvGet(toks, "via")
	fr, _ := kvGet(toks, "frags")
	var sizes []int
	for _, x := range strings.Split(fr, ",") {
		if n, err := strconv.Atoi(x); err == nil {
			sizes = append(sizes, n)
		}
	}
	fin := error(io.EOF)
	if finS == "err" {
		fin = errTransport
	}
	src := &fragReader{frags: cutFrags(sizes, append([]byte(nil), bs...)), fin: fin}
	if co, _ := kvGet(toks, "co"); co == "1" {
		src.coalesce = true
	}
	var rd io.Reader = src
	if via == "bufio" {
		rd = bufio.NewReader(src)
	}
	var out []string
	for i := 0; i < len(bs)/20+3; i++ {
		var m *diam.Message
		var rerr error
		if r := guard(func() { m, rerr = diam.ReadMessage(rd, dict.Default) }); r != "" {
			out = append(out, r)
			break
		}
		if rerr != nil {
			out = append(out, classifyReadErr(rerr))
			break
		}
		out = append(out, "m:"+showHdr(m.Header)+showAVPs(m.AVP))
	}
	c := "na"
	if via != "bufio" {
		c = strconv.Itoa(src.consumed)
	}
	return strings.Join(out, " ") + " consumed=" + c
}

func init() {
	executors["stream read"] = execStream
	generators["stream"] = genStream
}

func streamLine(fin, via string, sizes []int, b []byte) string {
	var ss []string
	for _, n := range sizes {
		ss = append(ss, strconv.Itoa(n))
	}
	f := strings.Join(ss, ",")
	if f == "" {
		f = "-"
	}
	return fmt.Sprintf("stream read fin=%s via=%s frags=%s %s", fin, via, f, hexOrDash(b))
}

// a message of roughly the requested size
func sizedMessage(r *RNG, size int) []byte {
	g := genMessage(r)
	b := g.bytes()
	if size > len(b)+12 {
		pad := size - len(b) - 8
		m := diam.NewMessage(g.hdr.CommandCode, g.hdr.CommandFlags, g.hdr.ApplicationID, g.hdr.HopByHopID, g.hdr.EndToEndID, dict.Default)
		for _, a := range g.avps {
			m.AddAVP(a)
		}
		m.AddAVP(diam.NewAVP(3000099, 0, 0, parseValOf("s0:"+hex.EncodeToString(r.Bytes(pad)))))
		b, _ = m.Serialize()
	}
	return b
}

func genStream(r *RNG, n int, op string, emit func(string)) {
	if op == "exhaustive" {
		genStreamExhaustive(r, n, emit)
		return
	}
	for i := 0; i < n; i++ {
		var stream []byte
		k := 1 + r.Intn(3)
		for j := 0; j < k; j++ {
			size := []int{20, 20, 28, 40, 200, 1000, 1043, 1044, 1045, 1100, 4096, 4200}[r.Intn(12)]
			if r.Chance(1) {
				size = 70000
			}
			var m []byte
			if size == 20 {
				m = rawHeader(20, []byte{0x80, 0}[r.Intn(2)], []uint32{257, 280, 272}[r.Intn(3)], []uint32{0, 0, 4}[r.Intn(3)], genID(r), genID(r))
			} else {
				m = sizedMessage(r, size)
			}
			stream = append(stream, m...)
		}
		// a message whose last AVP is sent without its padding, so that the declared Message
		// Length is not a multiple of four (some stacks do that); another message right behind it
		if r.Chance(12) {
			k := 1 + r.Intn(3) + 4*r.Intn(3)
			last := rawAVP(264, 0x40, 0, 8+k, []byte("peer.example")[:k], false)
			body := append(rawAVP(296, 0x40, 0, 12, []byte("r.ex"), true), last...)
			um := append(rawHeader(20+len(body), 0x80, 280, 0, genID(r), genID(r)), body...)
			if r.Bool() {
				stream = append(um, stream...)
			} else {
				stream = append(append(stream, um...), rawHeader(20, 0x80, 280, 0, genID(r), genID(r))...)
			}
		}
		// damage: declared length 0..19, unknown command, truncation, trailing garbage
		switch r.Intn(10) {
		case 0:
			off := 0
			copy(stream[off+1:off+4], be24(uint32(r.Intn(20))))
		case 1:
			stream = stream[:r.Intn(len(stream)+1)]
		case 2:
			stream = stream[:r.Intn(len(stream)+1)]
		case 3:
			stream[5] = 0x7f // command code unknown to the dictionary
		case 4:
			stream = append(stream, r.Bytes(1+r.Intn(30))...)
		case 5:
			if len(stream) > 44 {
				// second message's declared length
				l := int(stream[1])<<16 | int(stream[2])<<8 | int(stream[3])
				if l+20 <= len(stream) {
					copy(stream[l+1:l+4], be24(uint32(r.Intn(20))))
				}
			}
		}
		fin := "eof"
		if r.Chance(25) {
			fin = "err"
		}
		via := "direct"
		if r.Chance(30) {
			via = "bufio"
		}
		var sizes []int
		switch r.Intn(5) {
		case 0: // one read
		case 1: // byte at a time (short streams) or small reads
			step := 1
			if len(stream) > 300 {
				step = 1 + r.Intn(7)
			}
			for o := 0; o < len(stream); o += step {
				sizes = append(sizes, step)
			}
		case 2: // random splits
			for o := 0; o < len(stream); {
				s := 1 + r.Intn(1+len(stream)/(1+r.Intn(8)))
				sizes = append(sizes, s)
				o += s
			}
		case 3: // splits around the header boundary of each message
			sizes = []int{r.Intn(21), 20 - r.Intn(21) + r.Intn(3)}
		case 4: // mixed with empty slots
			for o := 0; o < len(stream); {
				s := r.Intn(40)
				sizes = append(sizes, s)
				o += s
			}
		}
		line := streamLine(fin, via, sizes, stream)
		if r.Chance(25) {
			// `co=1` goes before the hex (the last token stays the stream)
			line = strings.Replace(line, " frags=", " co=1 frags=", 1)
		}
		emit(line)
	}
}

// every split point and every truncation point of short two-message streams
func genStreamExhaustive(r *RNG, n int, emit func(string)) {
	count := 0
	for count < n {
		m1 := rawHeader(20, 0x80, 280, 0, genID(r), genID(r))
		m2 := append(rawHeader(32, 0, 257, 0, genID(r), genID(r)), rawAVP(268, 0x40, 0, 12, be32(2001), true)...)
		if r.Bool() {
			m1, m2 = m2, m1
		}
		stream := append(append([]byte{}, m1...), m2...)
		for cut := 0; cut <= len(stream) && count < n; cut++ {
			emit(streamLine("eof", "direct", []int{cut}, stream))
			emit(streamLine([]string{"eof", "err"}[cut%2], []string{"direct", "bufio"}[(cut/2)%2], nil, stream[:cut]))
			count += 2
		}
		for l := 0; l < 20 && count < n; l++ {
			s2 := append([]byte{}, stream...)
			copy(s2[1:4], be24(uint32(l)))
			emit(streamLine("eof", "direct", []int{r.Intn(25)}, s2))
			count++
		}
	}
}

func bytesReader(b []byte) io.Reader {
	return &fragReader{frags: [][]byte{append([]byte(nil), b...)}, fin: io.EOF}
}
