package main

// conn stall: a connection whose peer has stopped reading - an application goroutine is stuck in
// a transport Write - and which then ends. However it ends, the transport must be closed (that
// is what releases the stuck writer), the close notification must fire, and - when the
// connection belongs to a Server - the listener and the other connections carry on (C14, C15).
//
//   conn stall how=<L|E|B|P|R> srv=<0|1> cn=<0|1>  =>  closed=<0|1> cn=<fired|quiet|-> write=<err|ok|stuck> b=<served|lost|->
//
// how: L local Close() from a third goroutine, E the peer closes, B undecodable input arrives,
//      P the handler of a request panics, R the transport reports a read error
// srv=1: the connection was accepted by Server.Serve; afterwards a second connection is accepted
//        and must be served.   cn=1: CloseNotify was requested before the stall.

import (
	"fmt"
	"strings"
	"sync"
	"sync/atomic"
	"time"

	"github.com/fiorix/go-diameter/v4/diam"
	"github.com/fiorix/go-diameter/v4/diam/datatype"
	"github.com/fiorix/go-diameter/v4/diam/dict"
)

func execConnStall(toks []string) string {
	how, _ := kvGet(toks, "how")
	srvS, _ := kvGet(toks, "srv")
	cnS, _ := kvGet(toks, "cn")
	var theConn atomic.Value // diam.Conn of connection A, as the handler sees it
	got := make(chan diam.Conn, 4)
	h := diam.HandlerFunc(func(c diam.Conn, m *diam.Message) {
		switch m.Header.HopByHopID {
		case 1: // hello: hands the Conn to the application
			theConn.Store(c)
			got <- c
		case 2:
			scriptedPanic()
		case 3: // connection B's request
			got <- c
		}
	})
	mc := newMemConn()
	var stalled int32
	mc.writeHook = func(c *memConn, b []byte) (int, error) {
		atomic.StoreInt32(&stalled, 1)
		c.mu.Lock()
		for !c.closed {
			c.cond.Wait()
		}
		c.mu.Unlock()
		return 0, errMemClosed
	}
	var l *scriptListener
	var done chan error
	if srvS == "1" {
		l = &scriptListener{ch: make(chan acceptRes)}
		srv := &diam.Server{Handler: h, Dict: dict.Default}
		done = make(chan error, 1)
		go func() { done <- srv.Serve(l) }()
		select {
		case l.ch <- acceptRes{c: mc}:
		case <-time.After(time.Second):
			return "not-accepting"
		}
	} else {
		if _, err := diam.NewConn(mc, "mem", h, dict.Default); err != nil {
			return "err"
		}
	}
	mc.deliver(simpleMsg(280, 0x80, 0, 1, 1, diam.NewAVP(264, 0x40, 0, datatype.DiameterIdentity("a"))))
	var c diam.Conn
	select {
	case c = <-got:
	case <-time.After(time.Second):
		return "no-dispatch"
	}
	var cn <-chan struct{}
	if cnS == "1" {
		if n, ok := c.(diam.CloseNotifier); ok {
			cn = n.CloseNotify()
		}
	}
	waitFor(mc.readerParked, time.Second)
	// the application writes from a goroutine of its own; the transport never takes the bytes
	wres := make(chan error, 1)
	go func() {
		m := diam.NewRequest(272, 4, dict.Default)
		m.NewAVP(263, 0x40, 0, datatype.UTF8String("stalled"))
		_, err := m.WriteTo(c)
		wres <- err
	}()
	waitFor(func() bool { return atomic.LoadInt32(&stalled) == 1 }, time.Second)
	switch how {
	case "L":
		go c.Close()
	case "E":
		mc.peerEOF()
	case "R":
		mc.readError(errMemRead)
	case "B":
		body := rawAVP(264, 0x40, 0, 40, []byte("faulty-peer"), true)
		mc.deliver(append(rawHeader(20+len(body), 0x80, 280, 0, 9, 9), body...))
	case "P":
		mc.deliver(simpleMsg(280, 0x80, 0, 2, 2))
	}
	closed := 0
	if waitFor(mc.isClosed, 1500*time.Millisecond) {
		closed = 1
	}
	write := "stuck"
	select {
	case err := <-wres:
		if err != nil {
			write = "err"
		} else {
			write = "ok"
		}
	case <-time.After(time.Second):
	}
	cnr := "-"
	if cn != nil {
		select {
		case <-cn:
			cnr = "fired"
		case <-time.After(time.Second):
			cnr = "quiet"
		}
	}
	b := "-"
	if l != nil {
		b = "lost"
		mb := newMemConn()
		mb.remote = memAddr{"tcp", "10.9.9.8:49153"}
		select {
		case l.ch <- acceptRes{c: mb}:
			mb.deliver(simpleMsg(280, 0x80, 0, 3, 3))
			select {
			case <-got:
				b = "served"
			case <-time.After(1500 * time.Millisecond):
			}
		case <-time.After(1500 * time.Millisecond):
			b = "not-accepted"
		}
		mb.Close()
		select {
		case l.ch <- acceptRes{err: acceptPermErr{}}:
			select {
			case <-done:
			case <-time.After(time.Second):
			}
		case <-time.After(500 * time.Millisecond):
		}
	}
	mc.Close() // releases whatever is still stuck, so that nothing outlives the line
	return fmt.Sprintf("closed=%d cn=%s write=%s b=%s", closed, cnr, write, b)
}

func init() {
	executors["conn stall"] = execConnStall
	connGens["stall"] = func(r *RNG, n int, op string, emit func(string)) {
		for _, how := range []string{"L", "E", "B", "P", "R"} {
			for srv := 0; srv < 2; srv++ {
				emit(fmt.Sprintf("conn stall how=%s srv=%d cn=%d", how, srv, r.Intn(2)))
				emit(fmt.Sprintf("conn stall how=%s srv=%d cn=1", how, srv))
			}
		}
	}
}

// conn burst k=<n>: n peers have connected before Serve gets to its accept loop (or while it
// was busy): Accept hands them over back to back. Every connection gets a reader of its own:
// each one's messages are dispatched, in order, once (C08, C15).
//
//   conn burst k=<n> => served=<connections fully served>/<n> order=<ok|bad>
func execConnBurst(toks []string) string {
	kS, _ := kvGet(toks, "k")
	K := 0
	fmt.Sscanf(kS, "%d", &K)
	if K < 1 || K > 64 {
		return "badinput"
	}
	type rec struct {
		who string
		id  uint32
	}
	var mu sync.Mutex
	var log []rec
	h := diam.HandlerFunc(func(c diam.Conn, m *diam.Message) {
		mu.Lock()
		log = append(log, rec{c.RemoteAddr().String(), m.Header.HopByHopID})
		mu.Unlock()
		time.Sleep(200 * time.Microsecond)
	})
	l := &scriptListener{ch: make(chan acceptRes, K+1)}
	var conns []*memConn
	for i := 0; i < K; i++ {
		mc := newMemConn()
		mc.remote = memAddr{"tcp", fmt.Sprintf("10.9.1.%d:49152", i+1)}
		for j := 1; j <= 3; j++ {
			mc.deliver(simpleMsg(280, 0x80, 0, uint32(j), uint32(i), diam.NewAVP(264, 0x40, 0, datatype.DiameterIdentity("p"))))
		}
		conns = append(conns, mc)
		l.ch <- acceptRes{c: mc}
	}
	srv := &diam.Server{Handler: h, Dict: dict.Default}
	done := make(chan error, 1)
	go func() { done <- srv.Serve(l) }()
	waitFor(func() bool { mu.Lock(); defer mu.Unlock(); return len(log) >= 3*K }, 2*time.Second)
	time.Sleep(2 * time.Millisecond)
	mu.Lock()
	per := map[string][]uint32{}
	for _, r := range log {
		per[r.who] = append(per[r.who], r.id)
	}
	mu.Unlock()
	served, order := 0, "ok"
	for _, mc := range conns {
		ids := per[mc.remote.String()]
		if len(ids) == 3 && ids[0] == 1 && ids[1] == 2 && ids[2] == 3 {
			served++
		} else if len(ids) > 0 {
			order = "bad"
		}
	}
	for _, mc := range conns {
		mc.Close()
	}
	l.ch <- acceptRes{err: acceptPermErr{}}
	select {
	case <-done:
	case <-time.After(time.Second):
	}
	return fmt.Sprintf("served=%d/%d order=%s", served, K, order)
}

func init() {
	executors["conn burst"] = execConnBurst
	connGens["burst"] = func(r *RNG, n int, op string, emit func(string)) {
		for i := 0; i < n; i++ {
			emit(fmt.Sprintf("conn burst k=%d seq=%d", 2+r.Intn(12), i))
		}
	}
}

// conn pipeline pat=<R|A|H...>: several messages arrive in ONE segment (a peer that pipelines):
// R a request the handler answers, A an answer (nothing is written for it), H only the first
// bytes of a further request (its rest never arrives). Every answer the handler was told is
// written has reached the transport once the reader is waiting for input again (C07).
//
//   conn pipeline pat=RRA => answers=<reached the transport>/<written by handlers>
func execConnPipeline(toks []string) string {
	pat, _ := kvGet(toks, "pat")
	var mu sync.Mutex
	written := 0
	h := diam.HandlerFunc(func(c diam.Conn, m *diam.Message) {
		if m.Header.CommandFlags&diam.RequestFlag == 0 {
			return
		}
		a := m.Answer(2001)
		a.NewAVP(264, 0x40, 0, datatype.DiameterIdentity("srv"))
		if _, err := a.WriteTo(c); err == nil {
			mu.Lock()
			written++
			mu.Unlock()
		}
	})
	mc := newMemConn()
	if _, err := diam.NewConn(mc, "mem", h, dict.Default); err != nil {
		return "err"
	}
	var seg []byte
	for i, ch := range pat {
		id := uint32(100 + i)
		switch ch {
		case 'R':
			seg = append(seg, simpleMsg(280, 0x80, 0, id, id, diam.NewAVP(264, 0x40, 0, datatype.DiameterIdentity("p")))...)
		case 'A':
			seg = append(seg, simpleMsg(280, 0, 0, id, id, diam.NewAVP(268, 0x40, 0, datatype.Unsigned32(2001)))...)
		case 'H':
			full := simpleMsg(280, 0x80, 0, id, id, diam.NewAVP(264, 0x40, 0, datatype.DiameterIdentity("partial")))
			seg = append(seg, full[:24]...)
		}
	}
	mc.deliver(seg)
	waitFor(mc.readerParked, 2*time.Second)
	time.Sleep(2 * time.Millisecond)
	log := mc.allWritten()
	reached := 0
	for o := 0; o+20 <= len(log); {
		l := int(log[o+1])<<16 | int(log[o+2])<<8 | int(log[o+3])
		if l < 20 || o+l > len(log) {
			break
		}
		reached++
		o += l
	}
	mu.Lock()
	w := written
	mu.Unlock()
	mc.Close()
	return fmt.Sprintf("answers=%d/%d", reached, w)
}

func init() {
	executors["conn pipeline"] = execConnPipeline
	connGens["pipeline"] = func(r *RNG, n int, op string, emit func(string)) {
		for _, p := range []string{"R", "RR", "RA", "RRA", "AR", "RAR", "RH", "RRH", "ARAH", "RRRRA"} {
			emit("conn pipeline pat=" + p)
		}
		for i := 0; i < n; i++ {
			var b []byte
			for j, k := 0, 1+r.Intn(7); j < k; j++ {
				b = append(b, "RRA"[r.Intn(3)])
			}
			if r.Chance(30) {
				b = append(b, 'H')
			}
			emit("conn pipeline pat=" + string(b))
		}
	}
}

// conn wfail: a write on the connection fails with an error that does not end the connection
// (a write timeout, a temporary error). The connection goes on reading; its close notification
// has nothing to report yet and fires only when the connection really ends (C14).
//
//   conn wfail cn=<1 before the write|2 after it> kind=<timeout|temp> => w=<err|ok> early=<quiet|fired> alive=<0|1> end=<fired|quiet>
func execConnWFail(toks []string) string {
	cnS, _ := kvGet(toks, "cn")
	kind, _ := kvGet(toks, "kind")
	got := make(chan diam.Conn, 4)
	var second int32
	h := diam.HandlerFunc(func(c diam.Conn, m *diam.Message) {
		switch m.Header.HopByHopID {
		case 1:
			got <- c
		case 2:
			atomic.StoreInt32(&second, 1)
		}
	})
	mc := newMemConn()
	var failed int32
	mc.writeHook = func(c *memConn, b []byte) (int, error) {
		if atomic.CompareAndSwapInt32(&failed, 0, 1) {
			if kind == "temp" {
				return 0, tempWriteErr{}
			}
			return 0, timeoutErr{}
		}
		c.record(b)
		return len(b), nil
	}
	if _, err := diam.NewConn(mc, "mem", h, dict.Default); err != nil {
		return "err"
	}
	mc.deliver(simpleMsg(280, 0x80, 0, 1, 1, diam.NewAVP(264, 0x40, 0, datatype.DiameterIdentity("a"))))
	var c diam.Conn
	select {
	case c = <-got:
	case <-time.After(time.Second):
		return "no-dispatch"
	}
	var cn <-chan struct{}
	if cnS == "1" {
		cn = c.(diam.CloseNotifier).CloseNotify()
	}
	waitFor(mc.readerParked, time.Second)
	m := diam.NewRequest(272, 4, dict.Default)
	m.NewAVP(263, 0x40, 0, datatype.UTF8String("x"))
	w := "ok"
	if _, err := m.WriteTo(c); err != nil {
		w = "err"
	}
	if cnS != "1" {
		cn = c.(diam.CloseNotifier).CloseNotify()
	}
	early := "quiet"
	select {
	case <-cn:
		early = "fired"
	case <-time.After(30 * time.Millisecond):
	}
	mc.deliver(simpleMsg(280, 0x80, 0, 2, 2, diam.NewAVP(264, 0x40, 0, datatype.DiameterIdentity("a"))))
	alive := 0
	if waitFor(func() bool { return atomic.LoadInt32(&second) == 1 }, time.Second) {
		alive = 1
	}
	mc.peerEOF()
	end := "quiet"
	select {
	case <-cn:
		end = "fired"
	case <-time.After(time.Second):
	}
	mc.Close()
	return fmt.Sprintf("w=%s early=%s alive=%d end=%s", w, early, alive, end)
}

type tempWriteErr struct{}

func (tempWriteErr) Error() string   { return "scripted temporary write error" }
func (tempWriteErr) Timeout() bool   { return false }
func (tempWriteErr) Temporary() bool { return true }

func init() {
	executors["conn wfail"] = execConnWFail
	connGens["wfail"] = func(r *RNG, n int, op string, emit func(string)) {
		for _, cn := range []int{1, 2} {
			for _, k := range []string{"timeout", "temp"} {
				emit(fmt.Sprintf("conn wfail cn=%d kind=%s", cn, k))
			}
		}
	}
}

// conn rdl: a Server with a ReadTimeout. The timeout bounds the wait for the NEXT read of a
// message, counted from when that message is begun - however the bytes were cut into reads.
//
//   conn rdl cut=<bytes of the second message that arrive together with the first> => a=<0|1> b=<0|1> end=<open|closed>
//
// t=0 connection accepted; 0.6T message A and the first `cut` bytes of message B arrive in one
// read; 1.3T the rest of B arrives (0.7T after B was begun); 1.5T the verdict is taken.
func execConnRDL(toks []string) string {
	cutS, _ := kvGet(toks, "cut")
	cut := 0
	fmt.Sscanf(cutS, "%d", &cut)
	const T = 400 * time.Millisecond
	var mu sync.Mutex
	seen := map[uint32]bool{}
	h := diam.HandlerFunc(func(c diam.Conn, m *diam.Message) {
		mu.Lock()
		seen[m.Header.HopByHopID] = true
		mu.Unlock()
	})
	l := &scriptListener{ch: make(chan acceptRes, 2)}
	srv := &diam.Server{Handler: h, Dict: dict.Default, ReadTimeout: T}
	done := make(chan error, 1)
	go func() { done <- srv.Serve(l) }()
	mc := newMemConn()
	mc.honourDeadlines = true
	start := time.Now()
	l.ch <- acceptRes{c: mc}
	a := simpleMsg(280, 0x80, 0, 1, 1, diam.NewAVP(264, 0x40, 0, datatype.DiameterIdentity("a")))
	b := simpleMsg(280, 0x80, 0, 2, 2, diam.NewAVP(264, 0x40, 0, datatype.DiameterIdentity("bbbbbbbbbbbbbbbbbbbb")))
	if cut < 0 || cut >= len(b) {
		return "badinput"
	}
	time.Sleep(time.Until(start.Add(T * 6 / 10)))
	mc.deliver(append(append([]byte{}, a...), b[:cut]...))
	time.Sleep(time.Until(start.Add(T * 13 / 10)))
	mc.deliver(b[cut:])
	time.Sleep(time.Until(start.Add(T * 15 / 10)))
	mu.Lock()
	ga, gb := seen[1], seen[2]
	mu.Unlock()
	end := "open"
	if mc.isClosed() {
		end = "closed"
	}
	mc.Close()
	l.ch <- acceptRes{err: acceptPermErr{}}
	select {
	case <-done:
	case <-time.After(time.Second):
	}
	bi := func(x bool) int {
		if x {
			return 1
		}
		return 0
	}
	return fmt.Sprintf("a=%d b=%d end=%s", bi(ga), bi(gb), end)
}

func init() {
	executors["conn rdl"] = execConnRDL
	connGens["rdl"] = func(r *RNG, n int, op string, emit func(string)) {
		for _, c := range []int{0, 1, 7, 19, 20, 21, 30} {
			emit(fmt.Sprintf("conn rdl cut=%d", c))
		}
	}
}

// conn bigblock k=<n>: n connections each deliver a message larger than 64 KiB whose handler
// stays inside until released. A blocked handler holds up its own connection only: all n
// handlers get started, and a small message on yet another connection is served meanwhile (C08).
//
//   conn bigblock k=<n> => started=<handlers started>/<n> other=<served|lost>
func execConnBigBlock(toks []string) string {
	kS, _ := kvGet(toks, "k")
	K := 0
	fmt.Sscanf(kS, "%d", &K)
	if K < 1 || K > 32 {
		return "badinput"
	}
	release := make(chan struct{})
	var started int32
	var small int32
	h := diam.HandlerFunc(func(c diam.Conn, m *diam.Message) {
		if m.Header.HopByHopID == 9 {
			atomic.StoreInt32(&small, 1)
			return
		}
		atomic.AddInt32(&started, 1)
		<-release
	})
	var conns []*memConn
	// srv=1: all connections belong to ONE Server, and all messages to ONE session (Session-Id):
	// neither makes the connections wait for each other
	srvS, _ := kvGet(toks, "srv")
	var l *scriptListener
	var done chan error
	if srvS == "1" {
		l = &scriptListener{ch: make(chan acceptRes, K+3)}
		srv := &diam.Server{Handler: h, Dict: dict.Default}
		done = make(chan error, 1)
		go func() { done <- srv.Serve(l) }()
	}
	start := func(mc *memConn) bool {
		if l != nil {
			l.ch <- acceptRes{c: mc}
			return true
		}
		_, err := diam.NewConn(mc, "mem", h, dict.Default)
		return err == nil
	}
	sess := diam.NewAVP(263, 0x40, 0, datatype.UTF8String("the-one-session;1;2"))
	big := simpleMsg(272, 0x80, 4, 1, 1, sess, diam.NewAVP(264, 0x40, 0, datatype.DiameterIdentity(strings.Repeat("b", 70000))))
	for i := 0; i < K; i++ {
		mc := newMemConn()
		mc.remote = memAddr{"tcp", fmt.Sprintf("10.9.3.%d:49152", i+1)}
		if !start(mc) {
			return "err"
		}
		conns = append(conns, mc)
		mc.deliver(big)
	}
	waitFor(func() bool { return int(atomic.LoadInt32(&started)) == K }, 2*time.Second)
	n := atomic.LoadInt32(&started)
	other := newMemConn()
	other.remote = memAddr{"tcp", "10.9.3.99:49152"}
	res := "lost"
	if start(other) {
		other.deliver(simpleMsg(272, 0x80, 4, 9, 9, sess, diam.NewAVP(264, 0x40, 0, datatype.DiameterIdentity("s"))))
		other.deliver(append(rawHeader(20+70008, 0x80, 280, 0, 9, 9), rawAVP(264, 0x40, 0, 70008, []byte(strings.Repeat("c", 70000)), true)...))
		if waitFor(func() bool { return atomic.LoadInt32(&small) == 1 }, 2*time.Second) {
			res = "served"
		}
	}
	close(release)
	for _, mc := range append(conns, other) {
		mc.Close()
	}
	if l != nil {
		l.ch <- acceptRes{err: acceptPermErr{}}
		select {
		case <-done:
		case <-time.After(time.Second):
		}
	}
	return fmt.Sprintf("started=%d/%d other=%s", n, K, res)
}

func init() {
	executors["conn bigblock"] = execConnBigBlock
	connGens["bigblock"] = func(r *RNG, n int, op string, emit func(string)) {
		for _, k := range []int{2, 5, 9} {
			emit(fmt.Sprintf("conn bigblock k=%d", k))
			emit(fmt.Sprintf("conn bigblock k=%d srv=1", k))
		}
	}
}

// conn fullrep cn=<1|2>: the application does not read ErrorReports (its one slot is taken by an
// earlier connection's report). A later connection that ends with something reportable still
// ends: transport closed, close notification fired - whether it was asked for while the reader
// was waiting for input (1) or after the end (2) (C14, C15).
//
//   conn fullrep cn=<1|2> => closed=<0|1> cn=<fired|quiet>
func execConnFullRep(toks []string) string {
	cnS, _ := kvGet(toks, "cn")
	mux := diam.NewServeMux()
	garbage := append(rawHeader(20, 0x80, 9999, 0, 1, 1), 1, 2, 3)
	a := newMemConn()
	if _, err := diam.NewConn(a, "mem", mux, dict.Default); err != nil {
		return "err"
	}
	a.deliver(garbage)
	waitFor(a.isClosed, time.Second)
	b := newMemConn()
	b.remote = memAddr{"tcp", "10.9.4.2:49152"}
	cb, err := diam.NewConn(b, "mem", mux, dict.Default)
	if err != nil {
		return "err"
	}
	waitFor(b.readerParked, time.Second)
	var cn <-chan struct{}
	if cnS == "1" {
		cn = cb.(diam.CloseNotifier).CloseNotify()
	}
	b.deliver(garbage)
	closed := 0
	if waitFor(b.isClosed, time.Second) {
		closed = 1
	}
	if cnS != "1" {
		time.Sleep(5 * time.Millisecond)
		got := make(chan (<-chan struct{}), 1)
		go func() { got <- cb.(diam.CloseNotifier).CloseNotify() }()
		select {
		case cn = <-got:
		case <-time.After(time.Second):
			b.Close()
			return fmt.Sprintf("closed=%d cn=stuck", closed)
		}
	}
	res := "quiet"
	select {
	case <-cn:
		res = "fired"
	case <-time.After(time.Second):
	}
	b.Close()
	// the slot is emptied so that nothing of this line stays behind
	select {
	case <-mux.ErrorReports():
	default:
	}
	return fmt.Sprintf("closed=%d cn=%s", closed, res)
}

func init() {
	executors["conn fullrep"] = execConnFullRep
	connGens["fullrep"] = func(r *RNG, n int, op string, emit func(string)) {
		emit("conn fullrep cn=1")
		emit("conn fullrep cn=2")
	}
}

// conn slowh: a Server with a ReadTimeout whose handlers take longer than that timeout, with the
// next messages already waiting in the same segment. The timeout bounds reads, not handlers: the
// handlers still run one at a time, in arrival order, each starting after the previous returned (C08).
//
//   conn slowh rt=<ms> hold=<ms> n=<k> => ev=s1,e1,s2,e2,... max=<handlers active at once>
func execConnSlowH(toks []string) string {
	geti := func(k string, def int) int {
		v, _ := kvGet(toks, k)
		n := def
		fmt.Sscanf(v, "%d", &n)
		return n
	}
	rt, hold, n := geti("rt", 20), geti("hold", 60), geti("n", 2)
	if n < 1 || n > 8 || rt < 0 || hold < 0 || hold > 400 {
		return "badinput"
	}
	var mu sync.Mutex
	var ev []string
	active, maxActive, ended := 0, 0, 0
	h := diam.HandlerFunc(func(c diam.Conn, m *diam.Message) {
		mu.Lock()
		ev = append(ev, fmt.Sprintf("s%d", m.Header.HopByHopID))
		active++
		if active > maxActive {
			maxActive = active
		}
		mu.Unlock()
		time.Sleep(time.Duration(hold) * time.Millisecond)
		mu.Lock()
		ev = append(ev, fmt.Sprintf("e%d", m.Header.HopByHopID))
		active--
		ended++
		mu.Unlock()
	})
	l := &scriptListener{ch: make(chan acceptRes, 2)}
	srv := &diam.Server{Handler: h, Dict: dict.Default, ReadTimeout: time.Duration(rt) * time.Millisecond}
	done := make(chan error, 1)
	go func() { done <- srv.Serve(l) }()
	mc := newMemConn()
	mc.honourDeadlines = true
	l.ch <- acceptRes{c: mc}
	var seg []byte
	for i := 1; i <= n; i++ {
		seg = append(seg, simpleMsg(280, 0x80, 0, uint32(i), uint32(i), diam.NewAVP(264, 0x40, 0, datatype.DiameterIdentity("a")))...)
	}
	mc.deliver(seg)
	waitFor(func() bool { mu.Lock(); defer mu.Unlock(); return ended == n }, time.Duration(n*hold+1500)*time.Millisecond)
	time.Sleep(time.Duration(hold/2+5) * time.Millisecond)
	mu.Lock()
	out := fmt.Sprintf("ev=%s max=%d", strings.Join(ev, ","), maxActive)
	mu.Unlock()
	mc.Close()
	l.ch <- acceptRes{err: acceptPermErr{}}
	select {
	case <-done:
	case <-time.After(time.Second):
	}
	return out
}

func init() {
	executors["conn slowh"] = execConnSlowH
	connGens["slowh"] = func(r *RNG, n int, op string, emit func(string)) {
		for i := 0; i < n; i++ {
			emit(fmt.Sprintf("conn slowh rt=%d hold=%d n=%d", []int{0, 10, 20, 30}[r.Intn(4)], []int{0, 50, 70, 90}[r.Intn(4)], 2+r.Intn(3)))
		}
	}
}
