package main

// Domain "reflect" (C18): Message.Marshal / Message.Unmarshal on a family of tagged struct types.
// A reflection walker (trusted glue) describes each type's shape and each value to the Lean
// model; the dictionary entries the tags name are read from the real parser and put on the line.
//
//	reflect rt ty=<family index> seed=<n> => dict=.. sh=<shape> v=<value> m=<AVPs|err> u=<value after Unmarshal> w=<value after wire round trip>

import (
	"bytes"
	"fmt"
	"math"
	"net"
	"os"
	"reflect"
	"strconv"
	"strings"
	"time"

	"github.com/fiorix/go-diameter/v4/diam"
	"github.com/fiorix/go-diameter/v4/diam/datatype"
	"github.com/fiorix/go-diameter/v4/diam/dict"
)

const reflectDictXML = `<?xml version="1.0" encoding="UTF-8"?>
<diameter>
 <application id="0">
  <avp name="V-OS" code="9001" must="M" may="P" must-not="V" may-encrypt="-"><data type="OctetString"/></avp>
  <avp name="V-UTF8" code="9002" must="-" may="P" must-not="V" may-encrypt="-"><data type="UTF8String"/></avp>
  <avp name="V-ID" code="9003" must="M" may="P" must-not="V" may-encrypt="-"><data type="DiameterIdentity"/></avp>
  <avp name="V-URI" code="9004" must="-" may="P" must-not="V" may-encrypt="-"><data type="DiameterURI"/></avp>
  <avp name="V-IPF" code="9005" must="-" may="P" must-not="V" may-encrypt="-"><data type="IPFilterRule"/></avp>
  <avp name="V-QOS" code="9006" must="-" may="P" must-not="V" may-encrypt="-"><data type="QoSFilterRule"/></avp>
  <avp name="V-U32" code="9007" must="M" may="P" must-not="V" may-encrypt="-"><data type="Unsigned32"/></avp>
  <avp name="V-U64" code="9008" must="-" may="P" must-not="V" may-encrypt="-"><data type="Unsigned64"/></avp>
  <avp name="V-I32" code="9009" must="-" may="P" must-not="V" may-encrypt="-"><data type="Integer32"/></avp>
  <avp name="V-I64" code="9010" must="M" may="P" must-not="V" may-encrypt="-"><data type="Integer64"/></avp>
  <avp name="V-ENUM" code="9011" must="M" may="P" must-not="V" may-encrypt="-"><data type="Enumerated"/></avp>
  <avp name="V-F32" code="9012" must="-" may="P" must-not="V" may-encrypt="-"><data type="Float32"/></avp>
  <avp name="V-F64" code="9013" must="-" may="P" must-not="V" may-encrypt="-"><data type="Float64"/></avp>
  <avp name="V-ADDR" code="9014" must="M" may="P" must-not="V" may-encrypt="-"><data type="Address"/></avp>
  <avp name="V-IP4" code="9015" must="-" may="P" must-not="V" may-encrypt="-"><data type="IPv4"/></avp>
  <avp name="V-IP6" code="9016" must="-" may="P" must-not="V" may-encrypt="-"><data type="IPv6"/></avp>
  <avp name="V-TIME" code="9017" must="M" may="P" must-not="V" may-encrypt="-"><data type="Time"/></avp>
  <avp name="V-GRP" code="9018" must="M" may="P" must-not="V" may-encrypt="-"><data type="Grouped"/></avp>
  <avp name="V-GRP2" code="9019" vendor-id="10415" must="M,V" may="P" must-not="-" may-encrypt="-"><data type="Grouped"/></avp>
  <avp name="V-VU32" code="9020" vendor-id="10415" must="V" may="P" must-not="-" may-encrypt="-"><data type="Unsigned32"/></avp>
  <avp name="V-VOS" code="9021" vendor-id="10415" must="V,M" may="P" must-not="-" may-encrypt="-"><data type="OctetString"/></avp>
  <avp name="V-NOV" code="9022" vendor-id="10415" must="M" may="P" must-not="-" may-encrypt="-"><data type="UTF8String"/></avp>
  <avp name="V-NOV2" code="9023" vendor-id="5535" must="-" may="P,M" must-not="-" may-encrypt="-"><data type="Unsigned32"/></avp>
  <avp name="V-VNOVENDOR" code="9024" must="V" may="P" must-not="-" may-encrypt="-"><data type="OctetString"/></avp>
  <avp name="V-GNOV" code="9025" vendor-id="10415" must="M" may="P" must-not="-" may-encrypt="-"><data type="Grouped"/></avp>
 </application>
 <application id="77" type="auth" name="Reflect-Other">
  <avp name="V-U32" code="9107" must="-" may="P,M" must-not="V" may-encrypt="-"><data type="Unsigned32"/></avp>
  <avp name="V-OS" code="9001" vendor-id="10415" must="M,V" may="P" must-not="-" may-encrypt="-"><data type="OctetString"/></avp>
  <avp name="V-GRP" code="9118" must="-" may="P,M" must-not="V" may-encrypt="-"><data type="Grouped"/></avp>
  <avp name="V-ID" code="9003" must="-" may="P,M" must-not="V" may-encrypt="-"><data type="DiameterIdentity"/></avp>
  <avp name="V-I64" code="9110" vendor-id="5535" must="V" may="P" must-not="-" may-encrypt="-"><data type="Integer64"/></avp>
  <avp name="V-VU32" code="9020" must="M" may="P" must-not="V" may-encrypt="-"><data type="Unsigned32"/></avp>
 </application>
</diameter>`

var reflectDict *dict.Parser

func reflectParser() *dict.Parser {
	if reflectDict != nil {
		return reflectDict
	}
	p, err := dict.NewParser()
	if err != nil {
		panic(err)
	}
	repo := os.Getenv("VERIF_REPO")
	if repo == "" {
		repo = "/repo"
	}
	if err := p.LoadFile(repo + "/diam/dict/testdata/base.xml"); err != nil {
		panic(err)
	}
	if err := p.Load(bytes.NewReader([]byte(reflectDictXML))); err != nil {
		panic(err)
	}
	reflectDict = p
	return p
}

// ---- the struct family

type rfInner struct {
	U32 uint32               `avp:"V-U32"`
	OS  datatype.OctetString `avp:"V-OS,omitempty"`
}
type rfInner2 struct {
	ID   string   `avp:"V-ID"`
	Nums []uint32 `avp:"V-U32"`
	In   *rfInner `avp:"V-GRP"`
}
type rfEmbedded struct {
	I64  int64  `avp:"V-I64"`
	UTF8 string `avp:"V-UTF8,omitempty"`
}

type rf0 struct {
	OS   datatype.OctetString      `avp:"V-OS"`
	UTF8 datatype.UTF8String       `avp:"V-UTF8"`
	ID   datatype.DiameterIdentity `avp:"V-ID"`
	URI  datatype.DiameterURI      `avp:"V-URI"`
	IPF  datatype.IPFilterRule     `avp:"V-IPF"`
	QOS  datatype.QoSFilterRule    `avp:"V-QOS"`
}
type rf1 struct {
	U32  datatype.Unsigned32 `avp:"V-U32"`
	U64  datatype.Unsigned64 `avp:"V-U64"`
	I32  datatype.Integer32  `avp:"V-I32"`
	I64  datatype.Integer64  `avp:"V-I64"`
	Enum datatype.Enumerated `avp:"V-ENUM"`
	F32  datatype.Float32    `avp:"V-F32"`
	F64  datatype.Float64    `avp:"V-F64"`
}
type rf2 struct {
	Addr datatype.Address `avp:"V-ADDR"`
	IP4  datatype.IPv4    `avp:"V-IP4"`
	IP6  datatype.IPv6    `avp:"V-IP6"`
	Time datatype.Time    `avp:"V-TIME"`
}
type rf3 struct { // native Go scalars
	OS   string  `avp:"V-OS"`
	U32  uint32  `avp:"V-U32"`
	U64  uint64  `avp:"V-U64"`
	I32  int32   `avp:"V-I32"`
	I64  int64   `avp:"V-I64"`
	Enum int32   `avp:"V-ENUM"`
	F32  float32 `avp:"V-F32"`
	F64  float64 `avp:"V-F64"`
}
type rf4 struct {
	N   int       `avp:"V-U32"`
	E   int       `avp:"V-ENUM"`
	Raw []byte    `avp:"V-OS"`
	IP  net.IP    `avp:"V-ADDR"`
	T   time.Time `avp:"V-TIME"`
}
type rf5 struct { // pointers
	OS  *string                    `avp:"V-OS"`
	U32 *uint32                    `avp:"V-U32"`
	ID  *datatype.DiameterIdentity `avp:"V-ID"`
	T   *datatype.Time             `avp:"V-TIME"`
	Ad  *datatype.Address          `avp:"V-ADDR"`
}
type rf6 struct { // slices
	OS   []string             `avp:"V-OS"`
	U32  []uint32             `avp:"V-U32"`
	Ad   []datatype.Address   `avp:"V-ADDR"`
	I64  []datatype.Integer64 `avp:"V-I64"`
	PStr []*string            `avp:"V-UTF8"`
}
type rf7 struct { // AVP shapes
	A  diam.AVP    `avp:"V-GRP"`
	P  *diam.AVP   `avp:"V-GRP2"`
	S  []*diam.AVP `avp:"V-U32"`
	ID string      `avp:"V-ID"`
}
type rf8 struct { // nested
	In  rfInner   `avp:"V-GRP"`
	PIn *rfInner2 `avp:"V-GRP2"`
	U64 uint64    `avp:"V-U64"`
}
type rf9 struct { // slices of structs
	Ins  []rfInner  `avp:"V-GRP"`
	PIns []*rfInner `avp:"V-GRP2"`
}
type rf10 struct { // embedded
	rfEmbedded
	OS string `avp:"V-OS"`
}
type RfPubEmb struct {
	F64 float64 `avp:"V-F64"`
	ID  string  `avp:"V-ID"`
}
type rf11 struct {
	RfPubEmb
	U32 uint32 `avp:"V-U32,omitempty"`
	In  struct {
		I32 int32 `avp:"V-I32"`
	} `avp:"V-GRP"`
}
type rf12 struct { // omitempty everywhere
	OS   string              `avp:"V-OS,omitempty"`
	U32  uint32              `avp:"V-U32,omitempty"`
	F64  float64             `avp:"V-F64,omitempty"`
	Ad   datatype.Address    `avp:"V-ADDR,omitempty"`
	P    *uint64             `avp:"V-U64,omitempty"`
	S    []int32             `avp:"V-I32,omitempty"`
	In   *rfInner            `avp:"V-GRP,omitempty"`
	E    datatype.Enumerated `avp:"V-ENUM,omitempty"`
	Skip int                 // no tag
}
type rf13 struct { // vendor-specific entries
	VU32 uint32   `avp:"V-VU32"`
	VOS  []string `avp:"V-VOS"`
	G2   *rfInner `avp:"V-GRP2"`
}
type rf14 struct { // grouped AVP carried as raw bytes
	Raw datatype.Grouped `avp:"V-GRP"`
	N   uint32           `avp:"V-U32"`
}
type rf15 struct { // conversions Go allows: []byte for a string type, string for an address
	B []byte `avp:"V-UTF8"`
	S string `avp:"V-IP4"`
	I int64  `avp:"V-U32"`
	U uint32 `avp:"V-I64"`
}
type rf16 struct { // mismatches
	S string    `avp:"V-OS"`
	T time.Time `avp:"V-U32"`
}
type rf17 struct {
	S string    `avp:"V-OS"`
	T time.Time `avp:"V-UTF8"`
}
type rf18 struct {
	S  string `avp:"V-OS"`
	No string `avp:"No-Such-AVP"`
}
type rf19 struct { // two fields naming the same AVP
	A uint32   `avp:"V-U32"`
	B []uint32 `avp:"V-U32"`
}
type rf20 struct { // deep nesting
	L1 *struct {
		L2 *struct {
			L3 []rfInner `avp:"V-GRP"`
			ID string    `avp:"V-ID"`
		} `avp:"V-GRP2"`
		U64 uint64 `avp:"V-U64"`
	} `avp:"V-GRP"`
}

type rfAllOmit struct { // a grouped struct all of whose members may be omitted
	A uint32 `avp:"V-U32,omitempty"`
	B string `avp:"V-OS,omitempty"`
}
type rf23 struct {
	T  rfAllOmit   `avp:"V-GRP"`
	P  *rfAllOmit  `avp:"V-GRP2"`
	S  []rfAllOmit `avp:"V-GNOV"`
	ID string      `avp:"V-ID"`
}
type rf24 struct {
	PS []*rfAllOmit `avp:"V-GRP"`
	In *struct {
		E  *rfAllOmit  `avp:"V-GRP2"`
		ES []rfAllOmit `avp:"V-GNOV"`
	} `avp:"V-GRP2"`
}
type rfEmb2 struct {
	F32 float32 `avp:"V-F32"`
	URI string  `avp:"V-URI"`
}
type rfRoutesFirst struct { // a grouped struct that starts with pass-through AVPs
	S   []*diam.AVP `avp:"V-U32"`
	U64 uint64      `avp:"V-U64"`
	OS  string      `avp:"V-OS"`
}
type rf25 struct { // pass-through AVPs first, ordinary fields after them
	S   []*diam.AVP `avp:"V-U32"`
	ID  string      `avp:"V-ID"`
	I64 int64       `avp:"V-I64"`
}
type rf26 struct {
	Skip *uint32        `avp:"V-ENUM"`
	G    rfRoutesFirst  `avp:"V-GRP"`
	PG   *rfRoutesFirst `avp:"V-GRP2"`
	UTF  string         `avp:"V-UTF8"`
}
type rf27 struct { // datatype-typed fields whose type is a sibling (same Go kind) of the AVP's data type
	ID  datatype.UTF8String       `avp:"V-ID"`
	U   datatype.OctetString      `avp:"V-UTF8"`
	URI datatype.DiameterIdentity `avp:"V-URI"`
	E   datatype.Integer32        `avp:"V-ENUM"`
	OS  []datatype.UTF8String     `avp:"V-OS"`
	PI  *datatype.Enumerated      `avp:"V-I32"`
}
type rf21 struct { // embedded structs after tagged fields, and between them
	OS string `avp:"V-OS"`
	rfEmbedded
	U32 uint32 `avp:"V-U32"`
	RfPubEmb
	Enum int32 `avp:"V-ENUM,omitempty"`
	rfEmb2
}
type rf22 struct { // dictionary entries whose Must and vendor id do not line up
	NoV   string   `avp:"V-NOV"`
	NoV2  []uint32 `avp:"V-NOV2"`
	VOnly string   `avp:"V-VNOVENDOR"`
	G     *struct {
		NoV string `avp:"V-NOV"`
		U32 uint32 `avp:"V-U32"`
	} `avp:"V-GNOV"`
}

var rfFamily = []func() interface{}{
	func() interface{} { return new(rf21) }, func() interface{} { return new(rf22) },
	func() interface{} { return new(rf23) }, func() interface{} { return new(rf24) },
	func() interface{} { return new(rf0) }, func() interface{} { return new(rf1) }, func() interface{} { return new(rf2) },
	func() interface{} { return new(rf3) }, func() interface{} { return new(rf4) }, func() interface{} { return new(rf5) },
	func() interface{} { return new(rf6) }, func() interface{} { return new(rf7) }, func() interface{} { return new(rf8) },
	func() interface{} { return new(rf9) }, func() interface{} { return new(rf10) }, func() interface{} { return new(rf11) },
	func() interface{} { return new(rf12) }, func() interface{} { return new(rf13) }, func() interface{} { return new(rf14) },
	func() interface{} { return new(rf15) }, func() interface{} { return new(rf16) }, func() interface{} { return new(rf17) },
	func() interface{} { return new(rf18) }, func() interface{} { return new(rf19) }, func() interface{} { return new(rf20) },
	func() interface{} { return new(rf25) }, func() interface{} { return new(rf26) },
	func() interface{} { return new(rf27) },
}

// ---- walker

var (
	tAVP    = reflect.TypeOf(diam.AVP{})
	tTime   = reflect.TypeOf(time.Time{})
	tDTime  = reflect.TypeOf(datatype.Time{})
	tNetIP  = reflect.TypeOf(net.IP{})
	tBytes  = reflect.TypeOf([]byte{})
	dtTypes = map[reflect.Type]int{
		reflect.TypeOf(datatype.Unknown{}): 0, reflect.TypeOf(datatype.Address{}): 1, reflect.TypeOf(datatype.DiameterIdentity("")): 2,
		reflect.TypeOf(datatype.DiameterURI("")): 3, reflect.TypeOf(datatype.Enumerated(0)): 4, reflect.TypeOf(datatype.Float32(0)): 5,
		reflect.TypeOf(datatype.Float64(0)): 6, reflect.TypeOf(datatype.Grouped{}): 7, reflect.TypeOf(datatype.IPFilterRule("")): 8,
		reflect.TypeOf(datatype.IPv4{}): 9, reflect.TypeOf(datatype.Integer32(0)): 10, reflect.TypeOf(datatype.Integer64(0)): 11,
		reflect.TypeOf(datatype.OctetString("")): 12, reflect.TypeOf(datatype.QoSFilterRule("")): 13, tDTime: 14,
		reflect.TypeOf(datatype.UTF8String("")): 15, reflect.TypeOf(datatype.Unsigned32(0)): 16, reflect.TypeOf(datatype.Unsigned64(0)): 17,
		reflect.TypeOf(datatype.IPv6{}): 18,
	}
)

type rfNames struct {
	idx   map[string]int
	order []string
}

func (n *rfNames) get(s string) int {
	if s == "" {
		return 0
	}
	if i, ok := n.idx[s]; ok {
		return i
	}
	n.order = append(n.order, s)
	n.idx[s] = len(n.order)
	return len(n.order)
}

func leafName(t reflect.Type) (string, bool) {
	if k, ok := dtTypes[t]; ok {
		return "d" + strconv.Itoa(k), true
	}
	switch {
	case t == tTime:
		return "time", true
	case t == tNetIP:
		return "ip", true
	case t == tBytes:
		return "bytes", true
	}
	switch t.Kind() {
	case reflect.String:
		return "string", true
	case reflect.Int:
		return "int", true
	case reflect.Int32:
		return "int32", true
	case reflect.Int64:
		return "int64", true
	case reflect.Uint32:
		return "uint32", true
	case reflect.Uint64:
		return "uint64", true
	case reflect.Float32:
		return "float32", true
	case reflect.Float64:
		return "float64", true
	}
	return "", false
}

func shapeOf(t reflect.Type, names *rfNames) string {
	if t == tAVP {
		return "A"
	}
	if l, ok := leafName(t); ok {
		return "L" + l
	}
	switch t.Kind() {
	case reflect.Ptr:
		return "P(" + shapeOf(t.Elem(), names) + ")"
	case reflect.Slice:
		return "S(" + shapeOf(t.Elem(), names) + ")"
	case reflect.Struct:
		var fs []string
		for i := 0; i < t.NumField(); i++ {
			f := t.Field(i)
			tag := string(f.Tag)
			name, omit := "", 0
			if strings.HasPrefix(tag, "avp:\"") {
				name = tag[5 : len(tag)-1]
				if strings.HasSuffix(name, ",omitempty") {
					name = strings.TrimSuffix(name, ",omitempty")
					omit = 1
				}
			}
			emb := 0
			if f.Anonymous && f.Type.Kind() == reflect.Struct && len(f.Tag) == 0 {
				emb = 1
			}
			fs = append(fs, fmt.Sprintf("(%d,%d,%d,%s)", names.get(name), omit, emb, shapeOf(f.Type, names)))
		}
		return "T[" + strings.Join(fs, ";") + "]"
	}
	return "X"
}

func valueOf(v reflect.Value) string {
	t := v.Type()
	if t == tAVP {
		a := v.Interface().(diam.AVP)
		if a.Data == nil {
			return "a:nil"
		}
		return "a:" + showAVP(&a)
	}
	if _, ok := leafName(t); ok {
		switch {
		case t == tTime:
			return "l:t:" + strconv.FormatInt(v.Interface().(time.Time).Unix(), 10)
		case t == tDTime:
			return "l:t:" + strconv.FormatInt(time.Time(v.Interface().(datatype.Time)).Unix(), 10)
		}
		switch t.Kind() {
		case reflect.String:
			return "l:s:" + hexOrDash([]byte(v.String()))
		case reflect.Int, reflect.Int32, reflect.Int64:
			return "l:i:" + strconv.FormatInt(v.Int(), 10)
		case reflect.Uint32, reflect.Uint64:
			return "l:i:" + strconv.FormatUint(v.Uint(), 10)
		case reflect.Float32:
			return "l:f:" + strconv.FormatUint(uint64(math.Float32bits(float32(v.Float()))), 10)
		case reflect.Float64:
			return "l:f:" + strconv.FormatUint(math.Float64bits(v.Float()), 10)
		case reflect.Slice:
			return "l:b:" + hexOrDash(v.Bytes())
		}
	}
	switch t.Kind() {
	case reflect.Ptr:
		if v.IsNil() {
			return "n"
		}
		return "p(" + valueOf(v.Elem()) + ")"
	case reflect.Slice:
		if v.IsNil() {
			return "n"
		}
		var es []string
		for i := 0; i < v.Len(); i++ {
			es = append(es, valueOf(v.Index(i)))
		}
		return "s[" + strings.Join(es, ";") + "]"
	case reflect.Struct:
		var fs []string
		for i := 0; i < v.NumField(); i++ {
			fs = append(fs, valueOf(v.Field(i)))
		}
		return "t[" + strings.Join(fs, ";") + "]"
	}
	return "x"
}

// ---- random values

func fillValue(r *RNG, v reflect.Value, depth int) {
	t := v.Type()
	if t == tAVP {
		inner := diam.NewAVP(9007, 0x40, 0, datatype.Unsigned32(r.U32()))
		v.Set(reflect.ValueOf(*diam.NewAVP(9018, 0x40, 0, &diam.GroupedAVP{AVP: []*diam.AVP{inner}})))
		return
	}
	str := func() string {
		switch r.Intn(5) {
		case 0:
			return ""
		case 1:
			return string(r.Bytes(1 + r.Intn(3)))
		}
		return string(r.Bytes(r.Intn(12)))
	}
	switch {
	case t == tTime:
		v.Set(reflect.ValueOf(time.Unix(int64(r.Intn(2000000000)), 0)))
		return
	case t == tDTime:
		v.Set(reflect.ValueOf(datatype.Time(time.Unix(int64(r.Intn(2000000000)), 0))))
		return
	}
	if k, ok := dtTypes[t]; ok && (k == 1 || k == 9 || k == 18) || t == tNetIP {
		var b []byte
		switch {
		case k == 9 && ok:
			b = r.Bytes(4)
		case k == 18 && ok:
			b = r.Bytes(16)
			b[0] = 0x20
		default:
			if r.Bool() {
				b = r.Bytes(4)
			} else {
				b = r.Bytes(16)
				b[0] = 0x20
			}
		}
		if r.Chance(8) {
			b = nil
		}
		v.SetBytes(b)
		return
	}
	switch t.Kind() {
	case reflect.String:
		v.SetString(str())
	case reflect.Int:
		v.SetInt(int64([]uint32{0, 1, 7, 0x7fffffff, 0x80000000, 0xffffffff, r.U32()}[r.Intn(7)]))
		if r.Chance(5) {
			v.SetInt(-1 - int64(r.Intn(5)))
		}
	case reflect.Int32:
		v.SetInt(int64(int32([]uint32{0, 1, 0x7fffffff, 0x80000000, 0xffffffff, r.U32()}[r.Intn(6)])))
	case reflect.Int64:
		v.SetInt(int64([]uint64{0, 1, 0x7fffffffffffffff, 0x8000000000000000, 0xffffffffffffffff, uint64(r.U32())<<32 | uint64(r.U32())}[r.Intn(6)]))
	case reflect.Uint32:
		v.SetUint(uint64([]uint32{0, 1, 0x80000000, 0xffffffff, r.U32()}[r.Intn(5)]))
	case reflect.Uint64:
		v.SetUint([]uint64{0, 1, 0x8000000000000000, 0xffffffffffffffff, uint64(r.U32())<<32 | uint64(r.U32())}[r.Intn(5)])
	case reflect.Float32:
		v.SetFloat(float64(math.Float32frombits([]uint32{0, 0x80000000, 0x3f800000, 0x7f800000, 0x00000001, r.U32() & 0x7f7fffff}[r.Intn(6)])))
	case reflect.Float64:
		v.SetFloat(math.Float64frombits([]uint64{0, 0x8000000000000000, 0x3ff0000000000000, 0x7ff0000000000000, 1, (uint64(r.U32())<<32 | uint64(r.U32())) & 0x7fefffffffffffff}[r.Intn(6)]))
	case reflect.Slice:
		if t.Elem().Kind() == reflect.Uint8 {
			b := r.Bytes(r.Intn(10))
			if r.Chance(15) {
				b = nil
			}
			v.SetBytes(b)
			return
		}
		if t == reflect.TypeOf([]*diam.AVP(nil)) {
			n := r.Intn(4)
			s := reflect.MakeSlice(t, n, n+r.Intn(3)*2) // built by append: spare capacity is normal
			for i := 0; i < n; i++ {
				a := diam.NewAVP(9007, 0x40, 0, datatype.Unsigned32(r.U32()))
				if r.Chance(40) { // written as a literal, as a caller may: no cached Length
					a = &diam.AVP{Code: 9007, Flags: 0x40, Data: datatype.Unsigned32(r.U32())}
				}
				s.Index(i).Set(reflect.ValueOf(a))
			}
			if n == 0 && r.Bool() {
				return
			}
			v.Set(s)
			return
		}
		n := r.Intn(4)
		if n == 0 && r.Bool() {
			return // nil slice
		}
		s := reflect.MakeSlice(t, n, n)
		for i := 0; i < n; i++ {
			fillValue(r, s.Index(i), depth+1)
			if t.Elem().Kind() == reflect.Ptr && s.Index(i).IsNil() {
				s.Index(i).Set(reflect.New(t.Elem().Elem()))
				fillValue(r, s.Index(i).Elem(), depth+1)
			}
		}
		v.Set(s)
	case reflect.Ptr:
		if r.Chance(30) {
			return
		}
		if t.Elem() == tAVP {
			inner := diam.NewAVP(9007, 0x40, 0, datatype.Unsigned32(r.U32()))
			v.Set(reflect.ValueOf(diam.NewAVP(9019, 0xc0, 10415, &diam.GroupedAVP{AVP: []*diam.AVP{inner}})))
			return
		}
		v.Set(reflect.New(t.Elem()))
		fillValue(r, v.Elem(), depth+1)
	case reflect.Struct:
		if depth > 0 && r.Chance(20) {
			return // an all-zero struct
		}
		for i := 0; i < t.NumField(); i++ {
			if v.Field(i).CanSet() {
				fillValue(r, v.Field(i), depth+1)
			} else {
				// unexported (embedded lower-case struct): fill through an addressable copy
				fv := reflect.NewAt(t.Field(i).Type, unsafePointer(v.Field(i))).Elem()
				fillValue(r, fv, depth+1)
			}
		}
	}
}

func execReflect(toks []string) string {
	tyS, _ := kvGet(toks, "ty")
	seedS, _ := kvGet(toks, "seed")
	ty, _ := strconv.Atoi(tyS)
	seed, _ := strconv.ParseUint(seedS, 10, 64)
	app := uint32(0) // the application the message belongs to: names resolve in it first, then in the base
	if a, ok := kvGet(toks, "app"); ok {
		n, _ := strconv.ParseUint(a, 10, 32)
		app = uint32(n)
	}
	if ty < 0 || ty >= len(rfFamily) {
		return "badinput"
	}
	p := reflectParser()
	r := NewRNG(seed)
	src := rfFamily[ty]()
	fillValue(r, reflect.ValueOf(src).Elem(), 0)
	names := &rfNames{idx: map[string]int{}}
	sh := shapeOf(reflect.TypeOf(src).Elem(), names)
	val := valueOf(reflect.ValueOf(src).Elem())
	var dents []string
	for _, n := range names.order {
		a, err := p.FindAVP(app, n)
		if err != nil {
			dents = append(dents, "none")
			continue
		}
		m := 0
		if strings.Contains(a.Must, "M") {
			m = 1
		}
		dents = append(dents, fmt.Sprintf("%d:%d:%d:%d", a.Code, a.VendorID, m, int(a.Data.Type)))
	}
	d := strings.Join(dents, ",")
	if d == "" {
		d = "-"
	}
	m := diam.NewMessage(280, 0x80, app, 1, 1, p)
	if pre, _ := kvGet(toks, "pre"); pre == "1" {
		// the message is not fresh: another value of the same type was marshalled into it and
		// read back before (Marshal replaces the AVPs; nothing of the earlier value may remain)
		src0 := rfFamily[ty]()
		fillValue(NewRNG(seed^0x9e3779b97f4a7c15), reflect.ValueOf(src0).Elem(), 0)
		guard(func() {
			if m.Marshal(src0) == nil {
				_ = m.Unmarshal(rfFamily[ty]())
			}
		})
	}
	res := fmt.Sprintf("dict=%s sh=%s v=%s ", d, sh, val)
	var merr error
	if g := guard(func() { merr = m.Marshal(src) }); g != "" {
		return res + "m=" + g
	}
	if merr != nil {
		cls := "err:other"
		s := merr.Error()
		switch {
		case strings.Contains(s, "type mismatched"):
			cls = "err:type-mismatched"
		case strings.Contains(s, "Data type is unknown"):
			cls = "err:data-type-unknown"
		case strings.Contains(s, "Could not find"):
			cls = "err:avp-not-in-dictionary"
		}
		return res + "m=" + cls
	}
	res += "m=" + showAVPs(m.AVP)
	// header length bookkeeping (C02)
	lenRes := " len=ok"
	if g := guard(func() {
		if b, err := m.Serialize(); err != nil || int(m.Header.MessageLength) != len(b) {
			lenRes = " len=bad"
		}
	}); g != "" {
		return res + " len=" + g
	}
	res += lenRes
	dst := rfFamily[ty]()
	if g := guard(func() { _ = m.Unmarshal(dst) }); g != "" {
		return res + " u=" + g
	}
	res += " u=" + valueOf(reflect.ValueOf(dst).Elem())
	// after a wire round trip
	b, err := m.Serialize()
	if err != nil {
		return res + " w=sererr"
	}
	res += " wire=" + hexOrDash(b[20:])
	m2, err := diam.ReadMessage(bytes.NewReader(b), p)
	if err != nil {
		return res + " w=readerr"
	}
	dst2 := rfFamily[ty]()
	if g := guard(func() { _ = m2.Unmarshal(dst2) }); g != "" {
		return res + " w=" + g
	}
	res += " w=" + valueOf(reflect.ValueOf(dst2).Elem())
	if ag, _ := kvGet(toks, "again"); ag == "1" {
		// the struct is used again for the next message: its ordinary fields get new values (its
		// pass-through AVP lists stay), it is marshalled into a second message, and the first
		// message must still be what it was - in memory and for the value it did not share
		decoded := m2 // the message as read back from the wire
		before := showAVPs(m.AVP)
		srcBefore := valueOf(reflect.ValueOf(src).Elem())
		refillKeepingAVPLists(NewRNG(seed^0x51ed270b), reflect.ValueOf(src).Elem(), 0)
		m2 := diam.NewMessage(280, 0x80, app, 2, 2, p)
		state := "same"
		if g := guard(func() { _ = m2.Marshal(src) }); g != "" {
			state = g
		} else if showAVPs(m.AVP) != before {
			state = "changed"
		} else {
			// adding to the first message afterwards does not reach into the struct
			mid := valueOf(reflect.ValueOf(src).Elem())
			m.NewAVP(9007, 0x40, 0, datatype.Unsigned32(77))
			m.NewAVP(9007, 0x40, 0, datatype.Unsigned32(78))
			var chk error
			m3 := diam.NewMessage(280, 0x80, app, 3, 3, p)
			if g := guard(func() { chk = m3.Marshal(src) }); g != "" {
				state = g
			} else if valueOf(reflect.ValueOf(src).Elem()) != mid || (chk == nil && showAVPs(m3.AVP) != showAVPs(m2.AVP)) {
				state = "struct-changed"
			}
		}
		_ = srcBefore
		// the destination is used again too: one struct value receives the first message and then
		// the second; the first message stays what it was
		if state == "same" {
			before1, beforeD := showAVPs(m.AVP), showAVPs(decoded.AVP)
			dstR, dstD := rfFamily[ty](), rfFamily[ty]()
			if g := guard(func() {
				_ = m.Unmarshal(dstR)
				_ = m2.Unmarshal(dstR)
				_ = decoded.Unmarshal(dstD)
				_ = m2.Unmarshal(dstD)
			}); g != "" {
				state = g
			} else if showAVPs(m.AVP) != before1 || showAVPs(decoded.AVP) != beforeD {
				state = "changed-by-unmarshal"
			}
		}
		res += " again=" + state
	}
	return res
}

var tAVPList = reflect.TypeOf([]*diam.AVP(nil))

// refillKeepingAVPLists gives every field a new value, except fields of type []*diam.AVP
func refillKeepingAVPLists(r *RNG, v reflect.Value, depth int) {
	t := v.Type()
	if t == tAVPList {
		return
	}
	if t.Kind() == reflect.Struct && t != tAVP && t != tTime && t != tDTime && rawAVPFields(t, 0) {
		for i := 0; i < t.NumField(); i++ {
			if v.Field(i).CanSet() {
				refillKeepingAVPLists(r, v.Field(i), depth+1)
			}
		}
		return
	}
	if t.Kind() == reflect.Ptr && !v.IsNil() && t.Elem().Kind() == reflect.Struct && t.Elem() != tAVP && rawAVPFields(t.Elem(), 0) {
		refillKeepingAVPLists(r, v.Elem(), depth+1)
		return
	}
	v.Set(reflect.Zero(t))
	fillValue(r, v, depth+1)
}

// rawAVPFields reports whether a struct type carries diam.AVP / *diam.AVP / []*diam.AVP fields
// (fillValue builds those from the base application's codes, so they stay with application 0)
func rawAVPFields(t reflect.Type, depth int) bool {
	for t.Kind() == reflect.Ptr || t.Kind() == reflect.Slice {
		t = t.Elem()
	}
	if t == reflect.TypeOf(diam.AVP{}) {
		return true
	}
	if t.Kind() != reflect.Struct || depth > 6 {
		return false
	}
	for i := 0; i < t.NumField(); i++ {
		if rawAVPFields(t.Field(i).Type, depth+1) {
			return true
		}
	}
	return false
}

func genReflect(r *RNG, n int, op string, emit func(string)) {
	raw := make([]bool, len(rfFamily))
	for i := range rfFamily {
		raw[i] = rawAVPFields(reflect.TypeOf(rfFamily[i]()).Elem(), 0)
	}
	for i := 0; i < n; i++ {
		// the same struct types are used with two applications that define some of the names
		// differently (code, vendor id, flags), interleaved within one process
		app := []int{0, 0, 77}[r.Intn(3)]
		if raw[i%len(rfFamily)] {
			app = 0
		}
		line := fmt.Sprintf("reflect rt ty=%d seed=%d app=%d", i%len(rfFamily), r.U32(), app)
		if r.Chance(30) {
			line += " pre=1"
		}
		if raw[i%len(rfFamily)] || r.Chance(20) {
			line += " again=1"
		}
		emit(line)
	}
}

func init() {
	executors["reflect rt"] = execReflect
	generators["reflect"] = genReflect
}
