module verif/harness

go 1.20

require github.com/fiorix/go-diameter/v4 v4.0.0

require github.com/ishidawataru/sctp v0.0.0-20230406120618-7ff4192f6ff2 // indirect

replace github.com/fiorix/go-diameter/v4 => /repo
