package main

import (
	"bytes"
	"encoding/hex"
	"fmt"
	"sort"
	"strconv"
	"strings"
	"sync"
	"time"

	"github.com/fiorix/go-diameter/v4/diam"
	"github.com/fiorix/go-diameter/v4/diam/datatype"
	"github.com/fiorix/go-diameter/v4/diam/dict"
)

type scriptedErr struct{ temp bool }

func (e scriptedErr) Error() string   { return "scripted write error" }
func (e scriptedErr) Timeout() bool   { return false }
func (e scriptedErr) Temporary() bool { return e.temp }

type permErr struct{}

func (permErr) Error() string { return "scripted permanent error" }

type outcome struct {
	k   int
	err byte // 't', 'p', '-'
}

// scripted writer; with ms=true it also implements diam.MultistreamWriter
type scriptWriter struct {
	outs    []outcome
	offered [][]byte
	acc     []byte
	streams []uint
}

func (w *scriptWriter) Write(b []byte) (int, error) {
	w.offered = append(w.offered, append([]byte(nil), b...))
	if len(w.outs) == 0 {
		w.acc = append(w.acc, b...)
		return len(b), nil
	}
	o := w.outs[0]
	w.outs = w.outs[1:]
	k := o.k
	if k > len(b) {
		k = len(b)
	}
	w.acc = append(w.acc, b[:k]...)
	switch o.err {
	case 't':
		return k, scriptedErr{temp: true}
	case 'p':
		return k, permErr{}
	}
	return k, nil
}

type scriptMSWriter struct {
	scriptWriter
	via []string // how each attempt reached the writer: the stream of WriteStream, or "w" for a plain Write
}

func (w *scriptMSWriter) WriteStream(b []byte, s uint) (int, error) {
	w.streams = append(w.streams, s)
	w.via = append(w.via, strconv.Itoa(int(s)))
	return w.scriptWriter.Write(b)
}
func (w *scriptMSWriter) Write(b []byte) (int, error) {
	w.via = append(w.via, "w")
	return w.scriptWriter.Write(b)
}
func (w *scriptMSWriter) CurrentWriterStream() uint   { return 0 }
func (w *scriptMSWriter) ResetWriterStream()          {}
func (w *scriptMSWriter) SetWriterStream(s uint) uint { return s }

func execRetry(toks []string) string {
	rS, _ := kvGet(toks, "r")
	ms, _ := kvGet(toks, "ms")
	outsS, _ := kvGet(toks, "outs")
	bS, _ := kvGet(toks, "b")
	r, _ := strconv.Atoi(rS)
	b, err := hex.DecodeString(bS)
	if err != nil {
		return "badinput"
	}
	var outs []outcome
	if outsS != "-" {
		for _, t := range strings.Split(outsS, ",") {
			p := strings.Split(t, ":")
			if len(p) != 2 {
				return "badinput"
			}
			k, _ := strconv.Atoi(p[0])
			outs = append(outs, outcome{k, p[1][0]})
		}
	}
	m, rerr := diam.ReadMessage(bytesReader(b), dict.Default)
	if rerr != nil {
		return "badinput:" + rerr.Error()
	}
	var n int64
	var werr error
	var sw *scriptWriter
	via := ""
	res := guard(func() {
		if ms == "1" {
			w := &scriptMSWriter{scriptWriter: scriptWriter{outs: outs}}
			sw = &w.scriptWriter
			if sS, ok := kvGet(toks, "s"); ok { // the stream the message has to leave on
				st, _ := strconv.Atoi(sS)
				k, e := m.WriteToStreamWithRetry(w, uint(st), uint(r))
				n, werr = int64(k), e
				via = " via=" + strings.Join(w.via, ".")
			} else {
				n, werr = m.WriteToWithRetry(w, uint(r))
			}
		} else {
			w := &scriptWriter{outs: outs}
			sw = w
			n, werr = m.WriteToWithRetry(w, uint(r))
		}
	})
	if res != "" {
		return res
	}
	var offs []string
	for _, o := range sw.offered {
		offs = append(offs, hexOrDash(o))
	}
	e := "nil"
	if werr != nil {
		e = "perm"
		if ne, ok := werr.(interface{ Temporary() bool }); ok && ne.Temporary() {
			e = "temp"
		}
	}
	return fmt.Sprintf("off=%s acc=%s n=%d err=%s%s", strings.Join(offs, ","), hexOrDash(sw.acc), n, e, via)
}

func genRetry(r *RNG, n int, op string, emit func(string)) {
	if op == "conn" {
		genRetryConn(r, n, emit)
		return
	}
	if op == "exhaustive" {
		// every outcome script for a 6-byte body remainder is too many for a full message; use
		// the smallest message (20-byte header + one 8-byte AVP = 28 bytes) and enumerate the
		// first two outcomes exhaustively over k in {0,1,27,28} x {t,p,-}
		b := sizedSmall(r)
		cnt := 0
		ks := []int{0, 1, 14, len(b) - 1, len(b)}
		for _, k1 := range ks {
			for _, e1 := range "tp-" {
				for _, k2 := range ks {
					for _, e2 := range "tp-" {
						for ret := 0; ret <= 3; ret++ {
							if cnt >= n {
								return
							}
							o1 := fmt.Sprintf("%d:%c", k1, e1)
							if e1 == '-' {
								o1 = fmt.Sprintf("%d:-", len(b))
							}
							rem := len(b) - k1
							kk := k2
							if kk > rem {
								kk = rem
							}
							o2 := fmt.Sprintf("%d:%c", kk, e2)
							if e2 == '-' {
								o2 = fmt.Sprintf("%d:-", rem)
							}
							emit(fmt.Sprintf("retry write r=%d ms=%d outs=%s,%s b=%s", ret, cnt%2, o1, o2, hex.EncodeToString(b)))
							cnt++
						}
					}
				}
			}
		}
		return
	}
	for i := 0; i < n; i++ {
		var b []byte
		if r.Chance(80) {
			b = sizedSmall(r)
		} else {
			b = sizedMessage(r, []int{1000, 1044, 1100, 4200}[r.Intn(4)])
		}
		b = stableImage(b)
		ret := r.Intn(5)
		rem := len(b)
		var outs []string
		for j, k := 0, r.Intn(6); j < k && rem >= 0; j++ {
			e := "tttp-"[r.Intn(5)]
			acc := 0
			switch r.Intn(4) {
			case 0:
				acc = 0
			case 1:
				acc = rem
			default:
				acc = r.Intn(rem + 1)
			}
			if e == '-' {
				acc = rem
			}
			outs = append(outs, fmt.Sprintf("%d:%c", acc, e))
			rem -= acc
		}
		o := strings.Join(outs, ",")
		if o == "" {
			o = "-"
		}
		line := fmt.Sprintf("retry write r=%d ms=%d outs=%s b=%s", ret, r.Intn(2), o, hex.EncodeToString(b))
		if strings.Contains(line, " ms=1 ") && r.Chance(60) {
			line += fmt.Sprintf(" s=%d", []int{0, 1, 2, 5, 15, 65535}[r.Intn(6)])
		}
		emit(line)
	}
}

// stableImage returns an image that ReadMessage + Serialize reproduces exactly (generated
// messages may contain values that are normalised by a read, e.g. wrong-typed payloads)
func stableImage(b []byte) []byte {
	for i := 0; i < 3; i++ {
		m, err := diam.ReadMessage(bytesReader(b), dict.Default)
		if err != nil {
			return sizedSmall(NewRNG(uint64(len(b))))
		}
		b2, err := m.Serialize()
		if err != nil {
			return sizedSmall(NewRNG(uint64(len(b))))
		}
		if string(b2) == string(b) {
			return b
		}
		b = b2
	}
	return sizedSmall(NewRNG(uint64(len(b))))
}

func sizedSmall(r *RNG) []byte {
	m := diam.NewMessage(280, 0x80, 0, genID(r), genID(r), dict.Default)
	m.NewAVP(264, 0x40, 0, datatype.DiameterIdentity(r.Bytes(r.Intn(9))))
	b, _ := m.Serialize()
	return b
}

// ---------------------------------------------------------------- concurrent writers (C07 B)

// conn cwrite g=<goroutines> m=<messages each> big=<0|1> stall=<0|1>
func execCwrite(toks []string) string {
	gS, _ := kvGet(toks, "g")
	mS, _ := kvGet(toks, "m")
	bigS, _ := kvGet(toks, "big")
	stallS, _ := kvGet(toks, "stall")
	G, _ := strconv.Atoi(gS)
	M, _ := strconv.Atoi(mS)
	mixS, _ := kvGet(toks, "mix")
	mix := mixS == "1"
	mc := newMemConn()
	if stallS == "1" {
		// the transport stalls in the middle of a write: accepts half, lets other goroutines
		// run (they pile up on the connection's mutex), then accepts the rest
		mc.writeHook = func(c *memConn, b []byte) (int, error) {
			h := len(b) / 2
			c.record(b[:h])
			time.Sleep(300 * time.Microsecond)
			c.record(b[h:])
			return len(b), nil
		}
	}
	// hc=1: every second writer does not use the Conn that NewConn returned but the one a handler
	// of this connection was given (it keeps it and answers later, from its own goroutine):
	// all handles of one connection must serialise their writes with each other
	handles := make(chan diam.Conn, 64)
	hf := diam.HandlerFunc(func(c diam.Conn, m *diam.Message) {
		select {
		case handles <- c:
		default:
		}
	})
	var conn diam.Conn
	if wt, _ := kvGet(toks, "wt"); wt == "1" {
		// the connection belongs to a Server that has a WriteTimeout (a deadline is set before
		// every write; the messages must still go out whole)
		l := &scriptListener{ch: make(chan acceptRes, 2)}
		srv := &diam.Server{Handler: hf, Dict: dict.Default, WriteTimeout: 5 * time.Second}
		done := make(chan error, 1)
		go func() { done <- srv.Serve(l) }()
		l.ch <- acceptRes{c: mc}
		mc.deliver(simpleMsg(280, 0x80, 0, 8999, 8999, diam.NewAVP(264, 0x40, 0, datatype.DiameterIdentity("a")), diam.NewAVP(296, 0x40, 0, datatype.DiameterIdentity("b"))))
		select {
		case conn = <-handles:
		case <-time.After(time.Second):
			return "err"
		}
		defer func() {
			l.ch <- acceptRes{err: acceptPermErr{}}
			select {
			case <-done:
			case <-time.After(time.Second):
			}
		}()
	} else {
		c0, err := diam.NewConn(mc, "mem", hf, dict.Default)
		if err != nil {
			return "err"
		}
		conn = c0
	}
	writerConn := make([]diam.Conn, G)
	for g := range writerConn {
		writerConn[g] = conn
	}
	if hc, _ := kvGet(toks, "hc"); hc == "1" {
		for g := 0; g < G; g += 2 {
			mc.deliver(simpleMsg(280, 0x80, 0, uint32(9000+g), uint32(9000+g), diam.NewAVP(264, 0x40, 0, datatype.DiameterIdentity("a")), diam.NewAVP(296, 0x40, 0, datatype.DiameterIdentity("b"))))
			select {
			case c := <-handles:
				writerConn[g] = c
			case <-time.After(time.Second):
			}
		}
	}
	var wg sync.WaitGroup
	start := make(chan struct{})
	for g := 0; g < G; g++ {
		wg.Add(1)
		go func(g int) {
			defer wg.Done()
			conn := writerConn[g]
			<-start
			for i := 0; i < M; i++ {
				size := []int{24, 600, 1010, 1500, 4090, 5000}[(g+i)%6]
				if bigS != "1" {
					size = []int{24, 40, 600, 1010}[(g+i)%4]
				}
				m := diam.NewMessage(280, 0x80, 0, uint32(g+1), uint32(i+1), dict.Default)
				payload := make([]byte, size)
				for k := range payload {
					payload[k] = byte(g*16 + i)
				}
				m.NewAVP(3000001, 0, 0, datatype.Unknown(payload))
				switch {
				case mix && g%3 == 1:
					// the bytes are handed to the connection directly (Conn is an io.Writer)
					if b, err := m.Serialize(); err == nil {
						conn.Write(b)
					}
				case mix && g%3 == 2:
					// an answer: it carries the stream of the request it answers (0 on TCP),
					// where a locally built message carries none
					rq := diam.NewMessage(280, 0x80, 0, uint32(g+1), uint32(i+1), dict.Default)
					if rb, err := rq.Serialize(); err == nil {
						if rm, err := diam.ReadMessage(bytes.NewReader(rb), dict.Default); err == nil {
							a := rm.Answer(2001)
							a.AVP = nil
							a.Header.MessageLength = 20
							a.NewAVP(3000001, 0, 0, datatype.Unknown(payload))
							a.WriteTo(conn)
							break
						}
					}
					m.WriteTo(conn)
				default:
					m.WriteTo(conn)
				}
			}
		}(g)
	}
	close(start)
	wg.Wait()
	conn.Close()
	// parse the transport log
	log := mc.allWritten()
	whole, order := "ok", "ok"
	seen := map[[2]uint32]int{}
	last := map[uint32]uint32{}
	for o := 0; o < len(log); {
		if o+20 > len(log) {
			whole = "truncated-header"
			break
		}
		l := int(log[o+1])<<16 | int(log[o+2])<<8 | int(log[o+3])
		if l < 28 || o+l > len(log) || log[o] != 1 {
			whole = "bad-framing"
			break
		}
		hdr, herr := diam.DecodeHeader(log[o : o+20])
		if herr != nil {
			whole = "bad-header"
			break
		}
		g, i := hdr.HopByHopID, hdr.EndToEndID
		// payload must be this writer's fill byte throughout
		body := log[o+28 : o+l]
		pl := int(log[o+20+5])<<16 | int(log[o+20+6])<<8 | int(log[o+20+7]) - 8
		for k := 0; k < pl && k < len(body); k++ {
			if body[k] != byte((g-1)*16+(i-1)) {
				whole = "interleaved-payload"
			}
		}
		seen[[2]uint32{g, i}]++
		if i != last[g]+1 {
			order = "writer-order-violated"
		}
		last[g] = i
		o += l
	}
	multiset := "ok"
	var keys [][2]uint32
	for k := range seen {
		keys = append(keys, k)
	}
	sort.Slice(keys, func(a, b int) bool {
		return keys[a][0] < keys[b][0] || (keys[a][0] == keys[b][0] && keys[a][1] < keys[b][1])
	})
	if whole == "ok" {
		if len(keys) != G*M {
			multiset = fmt.Sprintf("messages-%d-of-%d", len(keys), G*M)
		}
		for _, k := range keys {
			if seen[k] != 1 {
				multiset = "duplicate"
			}
		}
	}
	return fmt.Sprintf("whole=%s multiset=%s order=%s", whole, multiset, order)
}

func genCwrite(r *RNG, n int, op string, emit func(string)) {
	for i := 0; i < n; i++ {
		emit(fmt.Sprintf("conn cwrite g=%d m=%d big=%d stall=%d seq=%d hc=%d mix=%d wt=%d", 2+r.Intn(7), 1+r.Intn(6), r.Intn(2), []int{1, 1, 0}[r.Intn(3)], i, r.Intn(2), r.Intn(2), []int{0, 0, 1}[r.Intn(3)]))
	}
}

func init() {
	executors["retry write"] = execRetry
	executors["conn cwrite"] = execCwrite
	generators["retry"] = genRetry
	generators["conn"] = func(r *RNG, n int, op string, emit func(string)) {
		if f, ok := connGens[op]; ok {
			f(r, n, op, emit)
		}
	}
	connGens["cwrite"] = genCwrite
}

var connGens = map[string]func(r *RNG, n int, op string, emit func(string)){}
