package main

// conn xtalk: after undecodable input on some connections, several healthy connections receive
// their messages in two segments at the same time (so that their readers hold read buffers
// simultaneously); every handler must be given the bytes of its own connection (C15).
//
//   conn xtalk k=<healthy> f=<faulty per round> rounds=<r> [fk=<kind>] [big=1] => c0=ok c1=ok ... | faults=<closed>/<n>
//
// fk: what the faulty peers send - 0 a complete frame whose AVP cannot be decoded, 1 a header that
// declares a body over 64 KiB, a few bytes of it and then EOF, 2 the same with the EOF after 70000
// bytes, 3 only a header and EOF, 4 a mix by index.  big=1: the healthy messages are themselves
// larger than 64 KiB.

import (
	"fmt"
	"strconv"
	"strings"
	"sync"
	"time"

	"github.com/fiorix/go-diameter/v4/diam"
	"github.com/fiorix/go-diameter/v4/diam/avp"
	"github.com/fiorix/go-diameter/v4/diam/datatype"
	"github.com/fiorix/go-diameter/v4/diam/dict"
)

func execConnXtalk(toks []string) string {
	kS, _ := kvGet(toks, "k")
	fS, _ := kvGet(toks, "f")
	rS, _ := kvGet(toks, "rounds")
	K, _ := strconv.Atoi(kS)
	F, _ := strconv.Atoi(fS)
	R, _ := strconv.Atoi(rS)
	fk := 0
	if v, ok := kvGet(toks, "fk"); ok {
		fk, _ = strconv.Atoi(v)
	}
	bigS, _ := kvGet(toks, "big")
	bigMode := bigS
	if K < 1 || R < 1 {
		return "badinput"
	}
	var mu sync.Mutex
	got := map[uint32]string{} // hop-by-hop id -> Origin-Host the handler saw
	h := diam.HandlerFunc(func(c diam.Conn, m *diam.Message) {
		v := "-"
		if a, err := m.FindAVP(avp.OriginHost, 0); err == nil {
			if s, ok := a.Data.(datatype.DiameterIdentity); ok {
				v = string(s)
			}
		}
		mu.Lock()
		got[m.Header.HopByHopID] = v
		mu.Unlock()
	})
	var conns []*memConn
	for i := 0; i < K; i++ {
		mc := newMemConn()
		mc.local = memAddr{"tcp", fmt.Sprintf("10.4.0.%d:3868", i+1)}
		if _, err := diam.NewConn(mc, "mem", h, dict.Default); err != nil {
			return "err"
		}
		conns = append(conns, mc)
		waitFor(mc.readerParked, time.Second)
	}
	bad := make([]string, K)
	nfault, nclosed := 0, 0
	// first, one message per connection that is larger than the pooled read buffer (it is read
	// into a slice of its own): whatever that path does with the pooled buffer must not show in
	// the small messages that follow
	for i, mc := range conns {
		id := uint32(500 + i)
		host := fmt.Sprintf("medium-%02d.%s", i, strings.Repeat("m", 1100+37*i))
		mc.deliver(simpleMsg(280, 0x80, 0, id, id, diam.NewAVP(264, 0x40, 0, datatype.DiameterIdentity(host))))
		ok := waitFor(func() bool { mu.Lock(); defer mu.Unlock(); _, seen := got[id]; return seen || mc.isClosed() }, 2*time.Second)
		mu.Lock()
		v, seen := got[id]
		mu.Unlock()
		if !ok || !seen {
			bad[i] = "lost"
		} else if v != host {
			bad[i] = "foreign"
		}
	}
	for r := 0; r < R; r++ {
		// complete frames whose only AVP cannot be decoded (its Length runs past the message)
		for j := 0; j < F; j++ {
			fc := newMemConn()
			if _, err := diam.NewConn(fc, "mem", h, dict.Default); err != nil {
				continue
			}
			waitFor(fc.readerParked, time.Second)
			kind := fk
			if fk == 4 {
				kind = (r + j) % 4
			}
			hbh := uint32(900000 + r*100 + j)
			switch kind {
			case 1, 2: // a large body that never arrives in full
				have := 100 + 37*j
				if kind == 2 {
					have = 70000 + j
				}
				fc.deliver(append(rawHeader(20+90000+j*4, 0x80, 280, 0, hbh, 1), make([]byte, have)...))
				waitFor(fc.readerParked, time.Second)
				fc.peerEOF()
			case 3:
				fc.deliver(rawHeader(20+400, 0x80, 280, 0, hbh, 1))
				waitFor(fc.readerParked, time.Second)
				fc.peerEOF()
			default:
				body := rawAVP(264, 0x40, 0, 40, []byte("faulty-peer"), true) // declares 40, carries 19+pad
				fc.deliver(append(rawHeader(20+len(body), 0x80, 280, 0, hbh, 1), body...))
			}
			nfault++
			if waitFor(fc.isClosed, time.Second) {
				nclosed++
			}
		}
		// every healthy connection: first the header and part of the body, then the rest
		// big=1: every healthy message is larger than 64 KiB; big=2: large and small rounds alternate
		// (the small ones are read through the pooled buffer the large ones went around)
		big := bigMode == "1" || (bigMode == "2" && r%2 == 0)
		type half struct{ a, b []byte }
		var msgs []half
		for i := range conns {
			id := uint32(1000*(r+1) + i)
			host := fmt.Sprintf("conn-%02d-round-%d.%s", i, r, strings.Repeat(string(rune('a'+i%26)), xtalkPad(big, i)))
			msg := simpleMsg(280, 0x80, 0, id, id, diam.NewAVP(264, 0x40, 0, datatype.DiameterIdentity(host)),
				diam.NewAVP(296, 0x40, 0, datatype.DiameterIdentity("realm")))
			cut := 20 + 8 + (i % 7)
			msgs = append(msgs, half{msg[:cut], msg[cut:]})
		}
		for i, mc := range conns {
			mc.deliver(msgs[i].a)
		}
		for _, mc := range conns {
			waitFor(mc.readerParked, time.Second)
		}
		for i, mc := range conns {
			mc.deliver(msgs[i].b)
		}
		for i, mc := range conns {
			big := bigMode == "1" || (bigMode == "2" && r%2 == 0)
			id := uint32(1000*(r+1) + i)
			want := fmt.Sprintf("conn-%02d-round-%d.%s", i, r, strings.Repeat(string(rune('a'+i%26)), xtalkPad(big, i)))
			ok := waitFor(func() bool { mu.Lock(); defer mu.Unlock(); _, seen := got[id]; return seen || mc.isClosed() }, 2*time.Second)
			mu.Lock()
			v, seen := got[id]
			mu.Unlock()
			switch {
			case !ok || !seen:
				if bad[i] == "" {
					bad[i] = "lost"
				}
			case v != want:
				if bad[i] == "" {
					bad[i] = "foreign"
				}
			}
		}
	}
	var outs []string
	for i := range conns {
		st := "ok"
		if bad[i] != "" {
			st = bad[i]
		}
		outs = append(outs, fmt.Sprintf("c%d=%s", i, st))
	}
	for _, mc := range conns {
		mc.Close()
	}
	return strings.Join(outs, " ") + fmt.Sprintf(" | faults=%d/%d", nclosed, nfault)
}

func xtalkPad(big bool, i int) int {
	if big {
		return 66000 + 1000*i
	}
	return 40 + i
}

func init() {
	executors["conn xtalk"] = execConnXtalk
	connGens["xtalk"] = func(r *RNG, n int, op string, emit func(string)) {
		for i := 0; i < n; i++ {
			if i%2 == 0 {
				emit(fmt.Sprintf("conn xtalk k=%d f=%d rounds=%d seq=%d", 4+r.Intn(13), 1+r.Intn(4), 2+r.Intn(3), i))
			} else {
				emit(fmt.Sprintf("conn xtalk k=%d f=%d rounds=%d fk=%d big=%d seq=%d", 2+r.Intn(7), 1+r.Intn(5), 2+r.Intn(3), 1+r.Intn(4), r.Intn(3), i))
			}
		}
	}
}
