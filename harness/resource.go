package main

// Domain "resource" (the third sentence of C03): memory and stack consumed while decoding and
// inspecting are bounded by a small multiple of the bytes supplied, never by a claimed length.
// Every case runs in a child process (`harness child ...`) under a memory limit and a timeout: a
// fatal stack overflow or an out-of-memory kill cannot be recovered in-process.
//
//	resource claim declared=<L> supplied=<k>   header claiming L bytes, k bytes delivered, then EOF
//	resource nest depth=<d> op=<decode|string|pretty|serialize|find>
//	                                           d grouped AVPs nested inside each other
//	resource retain msgs=<n> per=<k> g=<goroutines>
//	                                           n messages of k AVPs no dictionary knows (all codes
//	                                           distinct) are decoded by g goroutines and dropped;
//	                                           what stays allocated afterwards is measured

import (
	"bytes"
	"fmt"
	"io"
	"os"
	"os/exec"
	"runtime"
	"runtime/debug"
	"strconv"
	"strings"
	"sync"
	"time"

	"github.com/fiorix/go-diameter/v4/diam"
	"github.com/fiorix/go-diameter/v4/diam/datatype"
	"github.com/fiorix/go-diameter/v4/diam/dict"
)

func nestedBody(depth int) []byte {
	// innermost: Result-Code; around it `depth` Failed-AVP (279, Grouped) layers
	inner := rawAVP(268, 0x40, 0, 12, []byte{0, 0, 7, 209}, true)
	for i := 0; i < depth; i++ {
		inner = rawAVP(279, 0x40, 0, 8+len(inner), inner, true)
	}
	return inner
}

func nestedBodyBad(depth int) []byte {
	inner := rawAVP(268, 0x40, 0, 16, []byte{0, 0, 7, 209}, true)
	for i := 0; i < depth; i++ {
		inner = rawAVP(279, 0x40, 0, 8+len(inner), inner, true)
	}
	return inner
}

// childMain runs one measurement and prints one line; called as `harness child <op> args...`
func childMain(args []string) {
	debug.SetGCPercent(-1) // TotalAlloc then counts every byte allocated
	var before, after runtime.MemStats
	switch args[0] {
	case "claim":
		declared, _ := strconv.Atoi(args[1])
		supplied, _ := strconv.Atoi(args[2])
		msg := rawHeader(declared, 0x80, 280, 0, 1, 1)
		if supplied > 20 {
			body := bytes.Repeat(rawAVP(264, 0x40, 0, 12, []byte("abcd"), true), (supplied-20)/12+1)
			msg = append(msg, body[:supplied-20]...)
		} else {
			msg = msg[:supplied]
		}
		var rd io.Reader = bytes.NewReader(msg)
		if len(args) > 3 && args[3] == "1" { // a message-oriented reader (diam.MultistreamReader)
			rd = &fakeMS{data: msg, stream: 3, cur: diam.InvalidStreamID}
		} else if len(args) > 3 && args[3] == "2" { // the library's own SCTP connection over the in-memory association
			var chunks []sctpChunk
			for rest := msg; len(rest) > 0; {
				k := 1400
				if k > len(rest) {
					k = len(rest)
				}
				chunks = append(chunks, sctpChunk{5, rest[:k]})
				rest = rest[k:]
			}
			rd = diam.NewVerifSCTPConn(newSCTPBackend(chunks, io.EOF))
		}
		runtime.ReadMemStats(&before)
		_, err := diam.ReadMessage(rd, dict.Default)
		runtime.ReadMemStats(&after)
		cls := "ok"
		if err != nil {
			cls = classifyReadErr(err)
		}
		fmt.Printf("err=%s bytes=%d\n", cls, after.TotalAlloc-before.TotalAlloc)
	case "nest":
		depth, _ := strconv.Atoi(args[1])
		op := args[2]
		body := nestedBody(depth)
		if len(args) > 3 && args[3] == "1" {
			// the innermost AVP claims four bytes more than there are: decoding fails at the bottom
			// of the nesting, and the error travels all the way up
			body = nestedBodyBad(depth)
		}
		msg := append(rawHeader(20+len(body), 0x80, 280, 0, 1, 1), body...)
		runtime.ReadMemStats(&before)
		m, err := diam.ReadMessage(bytes.NewReader(msg), dict.Default)
		out := 0
		if err == nil {
			switch op {
			case "string":
				out = len(m.String())
			case "pretty":
				out = len(m.PrettyDump())
			case "serialize":
				b, _ := m.Serialize()
				out = len(b)
			case "find":
				as, _ := m.FindAVPs(268, 0)
				out = len(as)
			}
		}
		runtime.ReadMemStats(&after)
		cls := "ok"
		if err != nil {
			cls = classifyReadErr(err)
		}
		fmt.Printf("err=%s in=%d out=%d bytes=%d\n", cls, len(msg), out, after.TotalAlloc-before.TotalAlloc)
	case "buflen":
		// the application raises the exported MessageBufferLength at run time, after buffers of
		// the old length have been pooled; a message between the two lengths follows
		newLen, _ := strconv.Atoi(args[1])
		body, _ := strconv.Atoi(args[2])
		runtime.GOMAXPROCS(1)
		small := simpleMsg(280, 0x80, 0, 1, 1, diam.NewAVP(264, 0x40, 0, datatype.DiameterIdentity("a")))
		for i := 0; i < 4; i++ {
			diam.ReadMessage(bytes.NewReader(small), dict.Default)
			var w0 bytes.Buffer
			if m0, err := diam.ReadMessage(bytes.NewReader(small), dict.Default); err == nil {
				m0.WriteTo(&w0)
			}
		}
		// a reader that is already waiting for its next message when the length changes (an idle
		// connection): it took its buffer under the old value
		pr, pw := io.Pipe()
		type pres struct {
			m   *diam.Message
			err error
			pan string
		}
		pch := make(chan pres, 1)
		go func() {
			var r pres
			r.pan = guard(func() { r.m, r.err = diam.ReadMessage(pr, dict.Default) })
			pch <- r
		}()
		time.Sleep(20 * time.Millisecond)
		diam.MessageBufferLength = newLen
		big := simpleMsg(280, 0x80, 0, 2, 2, diam.NewAVP(264, 0x40, 0, datatype.DiameterIdentity(strings.Repeat("h", body-8))))
		go func() { pw.Write(big); pw.Close() }()
		pend := "stuck"
		select {
		case r := <-pch:
			switch {
			case r.pan != "":
				pend = r.pan
			case r.err != nil:
				pend = classifyReadErr(r.err)
			case r.m != nil && r.m.Len() == len(big):
				pend = "ok"
			default:
				pend = "short"
			}
		case <-time.After(2 * time.Second):
		}
		res := "ok"
		if g := guard(func() {
			for i := 0; i < 3; i++ {
				if _, err := diam.ReadMessage(bytes.NewReader(big), dict.Default); err != nil {
					res = classifyReadErr(err)
				}
				diam.ReadMessage(bytes.NewReader(small), dict.Default)
			}
		}); g != "" {
			res = g
		}
		// and the other direction: messages of that size are written (the serialisation buffer
		// is pooled too; small writes before the change have filled that pool)
		wres := "ok"
		var sink bytes.Buffer
		if g := guard(func() {
			for i := 0; i < 3; i++ {
				m := diam.NewRequest(280, 0, dict.Default)
				m.NewAVP(264, 0x40, 0, datatype.DiameterIdentity(strings.Repeat("h", body-8)))
				sink.Reset()
				if _, err := m.WriteTo(&sink); err != nil || sink.Len() != m.Len() {
					wres = "short"
				}
			}
		}); g != "" {
			wres = g
		}
		fmt.Printf("err=%s w=%s p=%s\n", strings.ReplaceAll(res, " ", "_"), strings.ReplaceAll(wres, " ", "_"), strings.ReplaceAll(pend, " ", "_"))
	case "retain":
		n, _ := strconv.Atoi(args[1])
		per, _ := strconv.Atoi(args[2])
		g, _ := strconv.Atoi(args[3])
		if g < 1 {
			g = 1
		}
		debug.SetGCPercent(100)
		mk := func(i int) []byte {
			var body []byte
			for j := 0; j < per; j++ {
				code := uint32(3000000 + i*per + j)
				if j%3 == 1 { // vendor-specific unknowns too
					body = append(body, rawAVPVendor(code, 0x80, uint32(40000+i%5000), []byte{1, 2, 3, 4})...)
				} else {
					body = append(body, rawAVP(code, 0, 0, 12, []byte{1, 2, 3, 4}, true)...)
				}
			}
			return append(rawHeader(20+len(body), 0x80, 280, uint32(i%3)*4, uint32(i), 1), body...)
		}
		// warm up: one message, so that one-time initialisation is not counted
		if _, err := diam.ReadMessage(bytes.NewReader(mk(0)), dict.Default); err != nil {
			fmt.Printf("err=%s\n", classifyReadErr(err))
			return
		}
		runtime.GC()
		runtime.ReadMemStats(&before)
		total, bad := 0, 0
		var mu sync.Mutex
		var wg sync.WaitGroup
		for w := 0; w < g; w++ {
			wg.Add(1)
			go func(w int) {
				defer wg.Done()
				for i := 1 + w; i <= n; i += g {
					b := mk(i)
					m, err := diam.ReadMessage(bytes.NewReader(b), dict.Default)
					mu.Lock()
					total += len(b)
					if err != nil || len(m.AVP) != per {
						bad++
					}
					mu.Unlock()
				}
			}(w)
		}
		wg.Wait()
		runtime.GC()
		runtime.GC()
		runtime.ReadMemStats(&after)
		ret := int64(after.HeapAlloc) - int64(before.HeapAlloc)
		if ret < 0 {
			ret = 0
		}
		fmt.Printf("err=ok bad=%d in=%d retained=%d\n", bad, total, ret)
	}
}

func rawAVPVendor(code uint32, flags uint8, vendor uint32, payload []byte) []byte {
	l := 12 + len(payload)
	b := []byte{byte(code >> 24), byte(code >> 16), byte(code >> 8), byte(code), flags, byte(l >> 16), byte(l >> 8), byte(l),
		byte(vendor >> 24), byte(vendor >> 16), byte(vendor >> 8), byte(vendor)}
	b = append(b, payload...)
	for len(b)%4 != 0 {
		b = append(b, 0)
	}
	return b
}

func runChild(timeout time.Duration, args ...string) string {
	self, err := os.Executable()
	if err != nil {
		return "crash:no-executable"
	}
	cmd := exec.Command(self, append([]string{"child"}, args...)...)
	cmd.Env = append(os.Environ(), "GOMEMLIMIT=3GiB", "GOMAXPROCS=2")
	var stdout, stderr bytes.Buffer
	cmd.Stdout, cmd.Stderr = &stdout, &stderr
	if err := cmd.Start(); err != nil {
		return "crash:start"
	}
	done := make(chan error, 1)
	go func() { done <- cmd.Wait() }()
	select {
	case err := <-done:
		if err != nil {
			first := strings.SplitN(strings.TrimSpace(stderr.String()), "\n", 2)[0]
			switch {
			case strings.Contains(stderr.String(), "stack overflow") || strings.Contains(stderr.String(), "goroutine stack exceeds"):
				return "crash:stack-overflow"
			case strings.Contains(stderr.String(), "out of memory"):
				return "crash:out-of-memory"
			}
			return "crash:" + strings.ReplaceAll(first, " ", "_")
		}
	case <-time.After(timeout):
		cmd.Process.Kill()
		<-done
		return "crash:timeout"
	}
	return strings.TrimSpace(stdout.String())
}

func execResource(toks []string) string {
	switch toks[1] {
	case "claim":
		d, _ := kvGet(toks, "declared")
		s, _ := kvGet(toks, "supplied")
		ms, _ := kvGet(toks, "ms")
		return runChild(30*time.Second, "claim", d, s, ms)
	case "nest":
		d, _ := kvGet(toks, "depth")
		op, _ := kvGet(toks, "op")
		bad, _ := kvGet(toks, "bad")
		return runChild(90*time.Second, "nest", d, op, bad)
	case "buflen":
		nl, _ := kvGet(toks, "to")
		b, _ := kvGet(toks, "body")
		return runChild(30*time.Second, "buflen", nl, b)
	case "retain":
		n, _ := kvGet(toks, "msgs")
		k, _ := kvGet(toks, "per")
		g, _ := kvGet(toks, "g")
		return runChild(120*time.Second, "retain", n, k, g)
	}
	return "badinput"
}

func genResource(r *RNG, n int, op string, emit func(string)) {
	switch op {
	case "claim":
		// declared lengths around every regime boundary x a few amounts actually supplied
		for _, L := range []int{20, 21, 1043, 1044, 1045, 4096, 65556, 65557, 131072, 1 << 20, 8 << 20, 16777212, 16777215} {
			for _, k := range []int{20, 21, 32, 1000, 5000, 70000, 300000} {
				if k > L {
					continue
				}
				emit(fmt.Sprintf("resource claim declared=%d supplied=%d", L, k))
			}
			emit(fmt.Sprintf("resource claim declared=%d supplied=%d", L, 20+r.Intn(L-19)))
			// the same through message-oriented readers (the SCTP path of readBodyBytes)
			if L > 1044 {
				emit(fmt.Sprintf("resource claim declared=%d supplied=%d ms=1", L, 20))
				emit(fmt.Sprintf("resource claim declared=%d supplied=%d ms=2", L, []int{20, 1000}[r.Intn(2)]))
			}
		}
	case "nest":
		for _, d := range []int{64, 300, 1000, 3000} {
			emit(fmt.Sprintf("resource nest depth=%d op=decode bad=1", d))
		}
		for _, d := range []int{1, 8, 64, 300, 1000} {
			for _, o := range []string{"decode", "string", "pretty", "serialize", "find"} {
				emit(fmt.Sprintf("resource nest depth=%d op=%s", d, o))
			}
		}
	case "buflen":
		for _, c := range [][2]int{{2048, 1500}, {4096, 1025}, {4096, 4000}, {512, 700}, {65536, 30000}} {
			emit(fmt.Sprintf("resource buflen to=%d body=%d", c[0], c[1]))
		}
	case "retain":
		for _, c := range [][3]int{{2000, 10, 1}, {20000, 10, 1}, {4000, 50, 4}, {20000, 10, 8}, {1000 + r.Intn(3000), 1 + r.Intn(40), 1 + r.Intn(8)}} {
			emit(fmt.Sprintf("resource retain msgs=%d per=%d g=%d", c[0], c[1], c[2]))
		}
	case "nestdeep": // as deep as the 24-bit message length allows
		for _, d := range []int{20000, 200000, 2000000} {
			emit(fmt.Sprintf("resource nest depth=%d op=decode", d))
		}
		for _, o := range []string{"string", "pretty", "serialize", "find"} {
			emit(fmt.Sprintf("resource nest depth=3000 op=%s", o))
		}
		emit("resource nest depth=20000 op=pretty")
		emit("resource nest depth=20000 op=serialize")
	}
}

func init() {
	executors["resource claim"] = execResource
	executors["resource nest"] = execResource
	executors["resource retain"] = execResource
	executors["resource buflen"] = execResource
	generators["resource"] = genResource
}
