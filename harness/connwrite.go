package main

// conn lw: which transport a write through a connection reaches (C15: a connection that has
// ended - by a fault or otherwise - keeps nothing that belongs to a later connection; C07 / C16:
// an answer goes out on the connection its request came in on).
//
//   conn lw ev=O,Q0,O,X0E,O,W0,Q1,...  =>  res=<ok|err|skip>,... | c0=<id.id..> c1=<..> ...
//
// O     a new connection is started (diam.NewConn over an in-memory transport)
// Q<k>  a request arrives on connection k; its handler answers it (Message.Answer, WriteTo)
// X<k><f> connection k ends: E peer closes, R read error, P handler panic, B undecodable input,
//       L local Close
// W<k>  the application writes a message to the retained diam.Conn of connection k from outside
//       any handler
// Every message carries the index of its event as identifier; the transports record what they
// are given.

import (
	"fmt"
	"strconv"
	"strings"
	"time"

	"github.com/fiorix/go-diameter/v4/diam"
	"github.com/fiorix/go-diameter/v4/diam/datatype"
)

func execConnLW(toks []string) string {
	evS, _ := kvGet(toks, "ev")
	type lwConn struct {
		mc *memConn
		c  diam.Conn
	}
	var conns []*lwConn
	handler := diam.HandlerFunc(func(c diam.Conn, m *diam.Message) {
		if m.Header.HopByHopID >= 5000000 {
			scriptedPanic()
		}
		a := m.Answer(2001)
		a.NewAVP(264, 0x40, 0, datatype.DiameterIdentity("srv"))
		a.WriteTo(c)
	})
	var res []string
	for i, e := range strings.Split(evS, ",") {
		if e == "" {
			continue
		}
		id := uint32(1000 + i)
		k := -1
		if len(e) >= 2 {
			end := len(e)
			if e[0] == 'X' {
				end--
			}
			if n, err := strconv.Atoi(e[1:end]); err == nil {
				k = n
			}
		}
		switch e[0] {
		case 'O':
			mc := newMemConn()
			mc.local = memAddr{"tcp", fmt.Sprintf("10.3.0.%d:3868", len(conns)+1)}
			c, err := newConnTagged(mc, handler)
			if err != nil {
				res = append(res, "err")
				continue
			}
			conns = append(conns, &lwConn{mc, c})
			waitFor(mc.readerParked, time.Second)
			res = append(res, "ok")
		case 'Q':
			if k < 0 || k >= len(conns) || conns[k].mc.isDone() {
				res = append(res, "skip")
				continue
			}
			before := conns[k].mc.nWrites()
			conns[k].mc.deliver(simpleMsg(280, 0x80, 0, id, id, diam.NewAVP(264, 0x40, 0, datatype.DiameterIdentity("a")), diam.NewAVP(296, 0x40, 0, datatype.DiameterIdentity("b"))))
			ok := waitFor(func() bool { return conns[k].mc.nWrites() > before && conns[k].mc.readerParked() }, time.Second)
			if ok {
				res = append(res, "ok")
			} else {
				res = append(res, "err")
			}
		case 'X':
			if k < 0 || k >= len(conns) || conns[k].mc.isDone() {
				res = append(res, "skip")
				continue
			}
			mc := conns[k].mc
			switch e[len(e)-1] {
			case 'E':
				mc.peerEOF()
			case 'R':
				mc.readError(errMemRead)
			case 'P':
				mc.deliver(simpleMsg(280, 0x80, 0, 5000000+id, id))
			case 'B':
				mc.deliver(simpleMsg(8388607, 0x80, 0, id, id))
			default:
				conns[k].c.Close()
			}
			waitFor(func() bool { s, _ := goroutinesFor(mc); return mc.isClosed() && !s }, time.Second)
			res = append(res, "ok")
		case 'W':
			if k < 0 || k >= len(conns) {
				res = append(res, "skip")
				continue
			}
			m := diam.NewRequest(280, 0, nil)
			m.Header.HopByHopID, m.Header.EndToEndID = id, id
			m.NewAVP(264, 0x40, 0, datatype.DiameterIdentity("late"))
			var err error
			if g := guard(func() { _, err = m.WriteTo(conns[k].c) }); g != "" || err != nil {
				res = append(res, "err")
			} else {
				res = append(res, "ok")
			}
		default:
			res = append(res, "skip")
		}
	}
	// what each transport was given, as message identifiers
	var wires []string
	for i, lc := range conns {
		b := lc.mc.allWritten()
		var ids []string
		for len(b) >= 20 {
			l := int(b[1])<<16 | int(b[2])<<8 | int(b[3])
			if l < 20 || l > len(b) {
				ids = append(ids, "garbage")
				break
			}
			ids = append(ids, strconv.Itoa(int(uint32(b[12])<<24|uint32(b[13])<<16|uint32(b[14])<<8|uint32(b[15]))))
			b = b[l:]
		}
		if len(b) > 0 && len(b) < 20 {
			ids = append(ids, "partial")
		}
		s := "-"
		if len(ids) > 0 {
			s = strings.Join(ids, ".")
		}
		wires = append(wires, fmt.Sprintf("c%d=%s", i, s))
	}
	for _, lc := range conns {
		lc.mc.Close()
	}
	if len(wires) == 0 {
		wires = []string{"-"}
	}
	return "res=" + strings.Join(res, ",") + " | " + strings.Join(wires, " ")
}

func genConnLW(r *RNG, n int, emit func(string)) {
	for i := 0; i < n; i++ {
		nconn := 0
		var evs []string
		dead := map[int]bool{}
		for j, m := 0, 3+r.Intn(12); j < m; j++ {
			switch {
			case nconn == 0 || r.Chance(25):
				evs = append(evs, "O")
				nconn++
			case r.Chance(25):
				k := r.Intn(nconn)
				evs = append(evs, fmt.Sprintf("X%d%c", k, "ERPBL"[r.Intn(5)]))
				dead[k] = true
			case r.Chance(45):
				// a write from outside a handler, preferably on a connection that has ended
				k := r.Intn(nconn)
				for d := range dead {
					if r.Bool() {
						k = d
					}
				}
				evs = append(evs, fmt.Sprintf("W%d", k))
			default:
				evs = append(evs, fmt.Sprintf("Q%d", r.Intn(nconn)))
			}
		}
		emit("conn lw ev=" + strings.Join(evs, ","))
	}
}

func init() {
	executors["conn lw"] = execConnLW
	connGens["lw"] = func(r *RNG, n int, op string, emit func(string)) { genConnLW(r, n, emit) }
}
