package main

// sctp canswer: answers written concurrently on one multistream connection (C16: an answer
// leaves on the stream its request arrived on, also when several answers - from handlers that
// answer from goroutines of their own - are written at the same time).
//
//   sctp canswer streams=<s.s.s> rounds=<r> => a:<id>:<stream in>:<stream out> ...   (sorted by id)

import (
	"fmt"
	"runtime"
	"sort"
	"strconv"
	"strings"
	"sync"
	"time"

	"github.com/fiorix/go-diameter/v4/diam"
	"github.com/fiorix/go-diameter/v4/diam/datatype"
	"github.com/fiorix/go-diameter/v4/diam/dict"
)

func execSctpCAnswer(toks []string) string {
	ss, _ := kvGet(toks, "streams")
	rs, _ := kvGet(toks, "rounds")
	rounds, _ := strconv.Atoi(rs)
	var streams []uint16
	for _, t := range strings.Split(ss, ".") {
		n, err := strconv.Atoi(t)
		if err != nil {
			return "badinput"
		}
		streams = append(streams, uint16(n))
	}
	if len(streams) == 0 || rounds < 1 {
		return "badinput"
	}
	fwd := -1
	if v, ok := kvGet(toks, "fwd"); ok {
		if k, err := strconv.Atoi(v); err == nil {
			fwd = k
		}
	}
	be := newSCTPBackend(nil, nil)
	msc := diam.NewVerifSCTPConn(be)
	defer diam.VerifReleaseSCTPConn(msc)
	var mu sync.Mutex
	in := map[uint32]uint{}
	var barrier chan struct{}
	var wg sync.WaitGroup
	arrived := 0
	h := diam.HandlerFunc(func(c diam.Conn, m *diam.Message) {
		mu.Lock()
		in[m.Header.HopByHopID] = m.MessageStream()
		arrived++
		b := barrier
		mu.Unlock()
		// fwd=<u>: a relay - the request is first passed on to another (multistream) peer, on
		// stream u of THAT association, and then answered
		if fwd >= 0 {
			up := &fakeMS{cur: diam.InvalidStreamID}
			m.WriteToStream(up, uint(fwd))
		}
		a := m.Answer(2001)
		a.NewAVP(264, 0x40, 0, datatype.DiameterIdentity("srv"))
		go func() { // the application answers from a goroutine of its own
			defer wg.Done()
			<-b
			a.WriteTo(c)
		}()
	})
	conn, err := diam.NewConn(msc, "mem-sctp", h, dict.Default)
	if err != nil {
		return "err"
	}
	// pin=<k>: the application has chosen stream k for what it sends on its own account
	// (SetWriterStream on the connection); answers still follow their requests
	if pinS, ok := kvGet(toks, "pin"); ok {
		if k, err := strconv.Atoi(pinS); err == nil {
			if mw, ok := conn.(diam.MultistreamWriter); ok {
				mw.SetWriterStream(uint(k))
			}
		}
	}
	for r := 0; r < rounds; r++ {
		mu.Lock()
		barrier = make(chan struct{})
		arrived = 0
		mu.Unlock()
		wg.Add(len(streams))
		be.mu.Lock()
		for i, s := range streams {
			id := uint32(1000*(r+1) + i)
			be.chunks = append(be.chunks, sctpChunk{s, simpleMsg(280, 0x80, 0, id, id,
				diam.NewAVP(264, 0x40, 0, datatype.DiameterIdentity("a")), diam.NewAVP(296, 0x40, 0, datatype.DiameterIdentity("b")))})
		}
		be.cond.Broadcast()
		be.mu.Unlock()
		if !waitFor(func() bool { mu.Lock(); defer mu.Unlock(); return arrived == len(streams) }, 2*time.Second) {
			be.Close()
			close(barrier)
			return "stalled"
		}
		runtime.Gosched()
		close(barrier) // all answers of the round are written at once
		wg.Wait()
	}
	be.mu.Lock()
	var out []string
	type row struct {
		id uint32
		s  string
	}
	var rows []row
	for _, w := range be.writes {
		id := uint32(0)
		if len(w.data) >= 16 {
			id = uint32(w.data[12])<<24 | uint32(w.data[13])<<16 | uint32(w.data[14])<<8 | uint32(w.data[15])
		}
		mu.Lock()
		si := in[id]
		mu.Unlock()
		rows = append(rows, row{id, fmt.Sprintf("a:%d:%d:%d", id, si, w.stream)})
	}
	be.mu.Unlock()
	be.Close()
	sort.Slice(rows, func(i, j int) bool { return rows[i].id < rows[j].id })
	for _, r := range rows {
		out = append(out, r.s)
	}
	if len(out) == 0 {
		return "-"
	}
	return strings.Join(out, " ")
}

func genSctpCAnswer(r *RNG, n int, emit func(string)) {
	for i := 0; i < n; i++ {
		k := 2 + r.Intn(7)
		seen := map[int]bool{}
		var ss []string
		for len(ss) < k {
			s := []int{0, 1, 2, 3, 5, 9, 11, 100, 255, 256, 1000, 65535}[r.Intn(12)]
			if !seen[s] {
				seen[s] = true
				ss = append(ss, strconv.Itoa(s))
			}
		}
		line := fmt.Sprintf("sctp canswer streams=%s rounds=%d", strings.Join(ss, "."), 3+r.Intn(10))
		if r.Chance(40) {
			line += fmt.Sprintf(" pin=%d", r.Intn(12))
		}
		if r.Chance(35) {
			line += fmt.Sprintf(" fwd=%d", []int{0, 1, 7, 9, 65535}[r.Intn(5)])
		}
		emit(line)
	}
}

func init() {
	executors["sctp canswer"] = execSctpCAnswer
}
