package main

// Domain "alias" (C06): does anything a decoded message holds share memory with the buffer it
// was decoded from?
//
//	alias leaf t=<typeid> p=<hex>                 datatype.Decode on a private buffer, then the buffer is overwritten
//	alias hist d=<dict> g=<goroutine mode> a=<hex message> later=<hex,hex,...>
//	                                              ReadMessage(a), keep it, then ReadMessage of every later message
//	                                              (same goroutine / other goroutines / GC in between); after each
//	                                              step: is everything observable about the kept message unchanged?

import (
	"bytes"
	"encoding/hex"
	"fmt"
	"os"
	"runtime"
	"strconv"
	"strings"

	"github.com/fiorix/go-diameter/v4/diam"
	"github.com/fiorix/go-diameter/v4/diam/datatype"
	"github.com/fiorix/go-diameter/v4/diam/dict"
)

const aliasExtraDict = `<?xml version="1.0" encoding="UTF-8"?>
<diameter>
 <application id="0">
  <avp name="Verif-IPv4" code="99901" must="M" may="P" must-not="V" may-encrypt="-"><data type="IPv4"/></avp>
  <avp name="Verif-IPv6" code="99902" must="M" may="P" must-not="V" may-encrypt="-"><data type="IPv6"/></avp>
  <avp name="Verif-Octets" code="99903" must="M" may="P" must-not="V" may-encrypt="-"><data type="OctetString"/></avp>
  <avp name="Verif-Group" code="99904" must="M" may="P" must-not="V" may-encrypt="-"><data type="Grouped"/></avp>
 </application>
</diameter>`

var aliasDict *dict.Parser

func aliasParser() *dict.Parser {
	if aliasDict != nil {
		return aliasDict
	}
	p, err := dict.NewParser()
	if err != nil {
		panic(err)
	}
	// the embedded dictionaries, as dict.Default has them, plus four AVPs of the types the
	// embedded dictionaries do not use
	repo := os.Getenv("VERIF_REPO")
	if repo == "" {
		repo = "/repo"
	}
	if err := p.LoadFile(repo + "/diam/dict/testdata/base.xml"); err != nil {
		panic(err)
	}
	if err := p.Load(bytes.NewReader([]byte(aliasExtraDict))); err != nil {
		panic(err)
	}
	aliasDict = p
	return p
}

func fingerprint(m *diam.Message) string {
	b, err := m.Serialize()
	if err != nil {
		return "sererr:" + err.Error()
	}
	return hex.EncodeToString(b) + "|" + m.String()
}

func execAliasLeaf(toks []string) string {
	ts, _ := kvGet(toks, "t")
	ps, _ := kvGet(toks, "p")
	t, _ := strconv.Atoi(ts)
	p, err := hex.DecodeString(strings.TrimPrefix(ps, "-"))
	if err != nil {
		return "badinput"
	}
	buf := append([]byte(nil), p...)
	v, err := datatype.Decode(datatype.TypeID(t), buf)
	if err != nil || v == nil {
		return "err"
	}
	before := hex.EncodeToString(v.Serialize()) + "|" + v.String()
	for i := range buf {
		buf[i] ^= 0xff
	}
	after := hex.EncodeToString(v.Serialize()) + "|" + v.String()
	if before != after {
		return "view"
	}
	return "copy"
}

func execAliasHist(toks []string) string {
	as, _ := kvGet(toks, "a")
	ls, _ := kvGet(toks, "later")
	mode, _ := kvGet(toks, "g")
	ab, err := hex.DecodeString(as)
	if err != nil {
		return "badinput"
	}
	d := aliasParser()
	m, err := diam.ReadMessage(bytes.NewReader(ab), d)
	if err != nil {
		return "readerr"
	}
	// writing or serialising the retained message must not change it either (header included)
	before := fmt.Sprintf("%+v|%s", *m.Header, m.String())
	var sink bytes.Buffer
	_, _ = m.Serialize()
	_, _ = m.WriteTo(&sink)
	var outs []string
	if fmt.Sprintf("%+v|%s", *m.Header, m.String()) == before {
		outs = append(outs, "w:same")
	} else {
		outs = append(outs, "w:changed")
	}
	fp := fingerprint(m)
	for i, l := range strings.Split(ls, ",") {
		lb, err := hex.DecodeString(l)
		if err != nil || len(lb) == 0 {
			continue
		}
		read := func() {
			// through a bufio-less reader, as conn.readMessage does through its own
			_, _ = diam.ReadMessage(bytes.NewReader(lb), d)
		}
		switch mode {
		case "other": // another goroutine (another connection's reader)
			done := make(chan struct{})
			go func() { read(); close(done) }()
			<-done
		case "gc": // the collector runs in between
			if i%2 == 1 {
				runtime.GC()
			}
			read()
		case "mixed":
			if i%2 == 0 {
				done := make(chan struct{})
				go func() { read(); close(done) }()
				<-done
			} else {
				read()
			}
		default:
			read()
		}
		if fingerprint(m) == fp {
			outs = append(outs, "same")
		} else {
			outs = append(outs, "changed")
		}
	}
	return strings.Join(outs, " ")
}

// a message body exercising every kind of value that could be a view
func aliasMessage(r *RNG, big bool, salt byte) []byte {
	var body []byte
	n := 1 + r.Intn(5)
	anyLen := func(small int) int { // mostly short, sometimes around the sizes an optimisation would single out
		switch r.Intn(8) {
		case 0:
			return []int{31, 32, 33, 63, 64, 65, 127, 128, 129, 255, 256, 257, 300, 511, 512, 513}[r.Intn(16)]
		case 1:
			return r.Intn(700)
		}
		return r.Intn(small)
	}
	fill := func(k int) []byte {
		b := make([]byte, k)
		for i := range b {
			b[i] = salt + byte(i) + byte(r.Intn(3))
		}
		return b
	}
	var leaf func(depth int) []byte
	leaf = func(depth int) []byte {
		switch r.Intn(9) {
		case 0: // Host-IP-Address, IPv4
			return rawAVP(257, 0x40, 0, 8+6, append([]byte{0, 1}, fill(4)...), true)
		case 1: // Host-IP-Address, IPv6 (one in three: an IPv4-mapped address, which net.IP.To4 recognises)
			ip6 := fill(16)
			if r.Intn(3) == 0 {
				copy(ip6, []byte{0, 0, 0, 0, 0, 0, 0, 0, 0, 0, 0xff, 0xff})
			}
			return rawAVP(257, 0x40, 0, 8+18, append([]byte{0, 2}, ip6...), true)
		case 2: // Host-IP-Address of another family, odd length
			k := 1 + anyLen(12)
			return rawAVP(257, 0x40, 0, 8+2+k, append([]byte{0, 8}, fill(k)...), true)
		case 3: // an AVP no dictionary knows: datatype.Unknown
			k := anyLen(24)
			if r.Bool() {
				return rawAVP(uint32(70000+r.Intn(100)), 0x80, 99999, 12+k, fill(k), true)
			}
			return rawAVP(uint32(70000+r.Intn(100)), 0, 0, 8+k, fill(k), true)
		case 4:
			return rawAVP(99901, 0x40, 0, 12, fill(4), true)
		case 5:
			return rawAVP(99902, 0x40, 0, 24, fill(16), true)
		case 6:
			k := anyLen(30)
			return rawAVP(99903, 0x40, 0, 8+k, fill(k), true)
		case 7:
			k := 1 + anyLen(20)
			return rawAVP([]uint32{264, 263, 1, 25, 33}[r.Intn(5)], 0x40, 0, 8+k, fill(k), true)
		default:
			if depth >= 3 {
				return rawAVP(99903, 0x40, 0, 8+3, fill(3), true)
			}
			var inner []byte
			for i, c := 0, 1+r.Intn(3); i < c; i++ {
				inner = append(inner, leaf(depth+1)...)
			}
			return rawAVP(99904, 0x40, 0, 8+len(inner), inner, true)
		}
	}
	for i := 0; i < n; i++ {
		l := leaf(0)
		if !big && len(body)+len(l) > 1000 && len(body) > 0 {
			continue
		}
		body = append(body, l...)
	}
	// deep nesting: a value wrapped in many grouped layers (each layer costs 8 octets)
	if r.Chance(20) {
		inner := leaf(3)
		for d, k := 0, []int{5, 12, 16, 17, 18, 24, 33, 40}[r.Intn(8)]; d < k; d++ {
			inner = rawAVP(99904, 0x40, 0, 8+len(inner), inner, true)
		}
		if big || len(body)+len(inner) <= 1000 {
			body = append(body, inner...)
		}
	}
	if big {
		for len(body) <= 1024 {
			body = append(body, leaf(0)...)
		}
	}
	// sizes around the pooled buffer: the body (not the message) decides whether it is pooled, so
	// messages of 1024..1048 octets in all are padded to an exact size with an unknown AVP
	if !big && r.Chance(20) {
		T := []int{1016, 1020, 1024, 1028, 1032, 1036, 1040, 1044, 1048}[r.Intn(9)]
		for len(body) > T-20-8 && len(body) > 0 {
			body = body[:0]
			body = append(body, leaf(1)...)
		}
		if rem := T - 20 - len(body); rem >= 8 {
			pad := rawAVP(uint32(70000+r.Intn(100)), 0, 0, rem, fill(rem-8), true)
			if r.Bool() { // ... at the front, or wrapped in a group at the end
				body = append(pad, body...)
			} else if rem >= 16 {
				inner := rawAVP(uint32(70000+r.Intn(100)), 0, 0, rem-8, fill(rem-16), true)
				body = append(body, rawAVP(99904, 0x40, 0, rem, inner, true)...)
			} else {
				body = append(body, pad...)
			}
		}
	}
	return append(rawHeader(20+len(body), 0x80, 280, 0, uint32(salt)+1, uint32(salt)+1), body...)
}

func genAlias(r *RNG, n int, op string, emit func(string)) {
	if op == "twin" {
		for i := 0; i < n; i++ {
			emit(fmt.Sprintf("alias twin seed=%d", r.U32()))
		}
		return
	}
	if op == "leaf" {
		for i := 0; i < n; i++ {
			t := r.Intn(19)
			var k int
			switch r.Intn(6) {
			case 0:
				k = []int{0, 1, 2, 3, 4, 6, 8, 16, 18}[r.Intn(9)]
			case 1: // thresholds an "optimised" decoder might use
				k = []int{15, 16, 17, 31, 32, 33, 63, 64, 65, 127, 128, 129, 255, 256, 257, 511, 512, 513, 1000, 1023, 1024, 1025, 4096}[r.Intn(23)]
			case 2:
				k = r.Intn(1200)
			default:
				k = r.Intn(24)
			}
			p := r.Bytes(k)
			if t == 1 && k >= 2 && r.Chance(70) { // Address: plausible families
				p[0] = 0
				p[1] = []byte{1, 2, 8, 0, 255}[r.Intn(5)]
				if r.Chance(30) { // the well-formed IP shapes, IPv4-mapped IPv6 among them
					if r.Bool() {
						p = append([]byte{0, 1}, r.Bytes(4)...)
					} else {
						p = append([]byte{0, 2}, r.Bytes(16)...)
						if r.Bool() {
							copy(p[2:], []byte{0, 0, 0, 0, 0, 0, 0, 0, 0, 0, 0xff, 0xff})
						}
					}
				}
			}
			if (t == 9 || t == 18) && r.Chance(40) { // IPv4 / IPv6 typed payloads of both widths, mapped form included
				p = r.Bytes([]int{4, 16}[r.Intn(2)])
				if len(p) == 16 && r.Bool() {
					copy(p, []byte{0, 0, 0, 0, 0, 0, 0, 0, 0, 0, 0xff, 0xff})
				}
			}
			emit(fmt.Sprintf("alias leaf t=%d p=-%s", t, hex.EncodeToString(p)))
		}
		return
	}
	for i := 0; i < n; i++ {
		bigA := r.Chance(10)
		a := aliasMessage(r, bigA, byte(r.Intn(200)))
		var later []string
		for j, k := 0, 1+r.Intn(6); j < k; j++ {
			later = append(later, hex.EncodeToString(aliasMessage(r, r.Chance(10), byte(r.Intn(200)))))
		}
		mode := []string{"same", "same", "other", "gc", "mixed"}[r.Intn(5)]
		emit(fmt.Sprintf("alias hist g=%s a=%s later=%s", mode, hex.EncodeToString(a), strings.Join(later, ",")))
	}
}

func init() {
	executors["alias leaf"] = execAliasLeaf
	executors["alias hist"] = execAliasHist
	generators["alias"] = genAlias
}

// alias twin seed=<n>: two messages that carry byte-identical grouped AVPs are read (from two
// independent readers); the owner of the second edits its tree in place - replaces members' data,
// adds to nested groups. The first message is a value of its own: it serialises as before (C06).
//
//   alias twin seed=<n> => twin=<same|changed> len=<ok|bad>
func execAliasTwin(toks []string) string {
	seedS, _ := kvGet(toks, "seed")
	seed, _ := strconv.ParseUint(seedS, 10, 64)
	r := NewRNG(seed)
	u := func(code, v uint32) *diam.AVP { return diam.NewAVP(code, 0x40, 0, datatype.Unsigned32(v)) }
	grp := func(code uint32, ms ...*diam.AVP) *diam.AVP { return diam.NewAVP(code, 0x40, 0, &diam.GroupedAVP{AVP: ms}) }
	var as []*diam.AVP
	as = append(as, diam.NewAVP(263, 0x40, 0, datatype.UTF8String("twin-session")))
	for i, n := 0, 1+r.Intn(3); i < n; i++ {
		switch r.Intn(3) {
		case 0: // Vendor-Specific-Application-Id
			as = append(as, grp(260, u(266, 10415), u(258, uint32(16777251+r.Intn(3)))))
		case 1: // Failed-AVP holding a Vendor-Specific-Application-Id
			as = append(as, grp(279, grp(260, u(266, uint32(10000+r.Intn(5))), u(259, 3)), u(268, 5012)))
		default: // Proxy-Info {Proxy-Host, Proxy-State}
			as = append(as, grp(284, diam.NewAVP(280, 0x40, 0, datatype.DiameterIdentity("proxy.example")), diam.NewAVP(33, 0x40, 0, datatype.OctetString(r.Bytes(4+r.Intn(20))))))
		}
	}
	wire := simpleMsg(272, 0x80, 4, 11, 11, as...)
	first, err := diam.ReadMessage(bytes.NewReader(wire), dict.Default)
	if err != nil {
		return "unreadable"
	}
	second, err := diam.ReadMessage(bytes.NewReader(append([]byte(nil), wire...)), dict.Default)
	if err != nil {
		return "unreadable"
	}
	// the owner of the second message edits it in place
	var edit func(list []*diam.AVP)
	edit = func(list []*diam.AVP) {
		for _, a := range list {
			if g, ok := a.Data.(*diam.GroupedAVP); ok {
				edit(g.AVP)
				g.AddAVP(diam.NewAVP(268, 0x40, 0, datatype.Unsigned32(4999)))
				continue
			}
			switch a.Data.(type) {
			case datatype.Unsigned32:
				a.Data = datatype.Unsigned32(0)
			case datatype.OctetString:
				a.Data = datatype.OctetString("masked")
			case datatype.DiameterIdentity:
				a.Data = datatype.DiameterIdentity("masked.example")
			}
		}
	}
	guard(func() { edit(second.AVP) })
	twin, ln := "same", "ok"
	guard(func() {
		b, err := first.Serialize()
		if err != nil || !bytes.Equal(b, wire) {
			twin = "changed"
		}
		if first.Len() != int(first.Header.MessageLength) {
			ln = "bad"
		}
	})
	return fmt.Sprintf("twin=%s len=%s", twin, ln)
}

func init() {
	executors["alias twin"] = execAliasTwin
}
