package main

import (
	"bytes"
	"encoding/hex"
	"fmt"
	"io"
	"strconv"
	"strings"
	"time"

	"github.com/fiorix/go-diameter/v4/diam"
	"github.com/fiorix/go-diameter/v4/diam/datatype"
	"github.com/fiorix/go-diameter/v4/diam/dict"
	"github.com/fiorix/go-diameter/v4/diam/sm/smparser"
)

// ------------------------------------------------------------------ panic capture

func panicClass(r interface{}) string {
	s := fmt.Sprint(r)
	switch {
	case strings.Contains(s, "slice bounds"):
		return "slice-bounds"
	case strings.Contains(s, "index out of range"):
		return "index-out-of-range"
	case strings.Contains(s, "interface conversion"):
		return "type-assertion"
	case strings.Contains(s, "nil pointer"):
		return "nil-deref"
	case strings.Contains(s, "closed channel"):
		return "closed-channel"
	case strings.Contains(s, "makeslice"), strings.Contains(s, "out of memory"):
		return "alloc"
	}
	return "other"
}

// guard runs f and returns "" or "panic:<class>".
func guard(f func()) (res string) {
	defer func() {
		if r := recover(); r != nil {
			res = "panic:" + panicClass(r)
		}
	}()
	f()
	return ""
}

func dictByName(name string) *dict.Parser {
	if d, ok := namedDicts[name]; ok {
		return d
	}
	return dict.Default
}

var namedDicts = map[string]*dict.Parser{}

// ------------------------------------------------------------------ struct family for Unmarshal (C03)

type famVSA struct {
	AuthAppID int `avp:"Auth-Application-Id"`
	VendorID  int `avp:"Vendor-Id"`
}
type famStruct struct {
	OriginHost  string                    `avp:"Origin-Host"`
	OriginRealm datatype.DiameterIdentity `avp:"Origin-Realm"`
	ResultCode  uint32                    `avp:"Result-Code"`
	HostIP      []datatype.Address        `avp:"Host-IP-Address"`
	VSA         *famVSA                   `avp:"Vendor-Specific-Application-Id"`
	VSAs        []famVSA                  `avp:"Vendor-Specific-Application-Id"`
	Failed      *diam.AVP                 `avp:"Failed-AVP"`
	Timestamp   time.Time                 `avp:"Event-Timestamp"`
	TimestampD  datatype.Time             `avp:"Event-Timestamp"`
	Session     datatype.UTF8String       `avp:"Session-Id"`
	Class       []datatype.OctetString    `avp:"Class"`
	StateID     uint32                    `avp:"Origin-State-Id"`
	Inband      []*diam.AVP               `avp:"Inband-Security-Id"`
}

func inspect(m *diam.Message) string {
	steps := []struct {
		name string
		f    func()
	}{
		{"String", func() { _ = m.String() }},
		{"PrettyDump", func() { _ = m.PrettyDump() }},
		{"Serialize", func() { _, _ = m.Serialize() }},
		{"Len", func() { _ = m.Len() }},
		{"Unmarshal-CER", func() { var x smparser.CER; _ = m.Unmarshal(&x) }},
		{"Unmarshal-CEA", func() { var x smparser.CEA; _ = m.Unmarshal(&x) }},
		{"Unmarshal-DWR", func() { var x smparser.DWR; _ = m.Unmarshal(&x) }},
		{"Unmarshal-DWA", func() { var x smparser.DWA; _ = m.Unmarshal(&x) }},
		{"Unmarshal-family", func() { var x famStruct; _ = m.Unmarshal(&x) }},
		{"Parse-CER", func() { var x smparser.CER; _, _ = x.Parse(m, smparser.Server) }},
		{"Parse-CEA", func() { var x smparser.CEA; _ = x.Parse(m, smparser.Client) }},
		{"Parse-DWR", func() { var x smparser.DWR; _ = x.Parse(m) }},
		{"FindAVP", func() { _, _ = m.FindAVP(264, dict.UndefinedVendorID) }},
		{"FindAVPs", func() { _, _ = m.FindAVPs(260, dict.UndefinedVendorID) }},
		{"FindAVPsWithPath", func() { _, _ = m.FindAVPsWithPath([]interface{}{260, 258}, dict.UndefinedVendorID) }},
		{"Answer", func() { _ = m.Answer(2001) }},
	}
	for _, st := range steps {
		if r := guard(st.f); r != "" {
			return r + ":" + st.name
		}
	}
	return "ok"
}

// ------------------------------------------------------------------ executors

func execDecode(toks []string) string {
	d := "default"
	if v, ok := kvGet(toks, "d"); ok {
		d = v
	}
	bs, err := hex.DecodeString(strings.TrimPrefix(toks[len(toks)-1], "-"))
	if err != nil {
		return "badinput"
	}
	var m *diam.Message
	var rerr error
	if r := guard(func() { m, rerr = diam.ReadMessage(bytes.NewReader(bs), dictByName(d)) }); r != "" {
		return r
	}
	if rerr != nil {
		return "err"
	}
	var ser []byte
	if r := guard(func() { ser, _ = m.Serialize() }); r != "" {
		return "ok " + showHdr(m.Header) + " " + showAVPs(m.AVP) + " reser=" + r + " insp=" + r + ":Serialize"
	}
	return "ok " + showHdr(m.Header) + " " + showAVPs(m.AVP) + " reser=" + hex.EncodeToString(ser) + " insp=" + inspect(m)
}

type marshalOne struct {
	X []*diam.AVP `avp:"Origin-Host"`
}

var dirtyMsg *diam.Message

// dirtyWriterPool writes a message of 0xff bytes so that the pooled serialisation buffer the
// next WriteTo obtains is not zeroed.
func dirtyWriterPool() {
	if dirtyMsg == nil {
		dirtyMsg = diam.NewMessage(257, 0x80, 0, 1, 1, dict.Default)
		ff := bytes.Repeat([]byte{0xff}, 900)
		dirtyMsg.NewAVP(3000001, 0, 0, datatype.Unknown(ff))
	}
	dirtyMsg.WriteTo(io.Discard)
}

func findTok(toks []string, prefix string) string {
	for _, t := range toks {
		if strings.HasPrefix(t, prefix) {
			return t
		}
	}
	return ""
}

func execBuild(toks []string) string {
	d := "default"
	if v, ok := kvGet(toks, "d"); ok {
		d = v
	}
	ops, _ := kvGet(toks, "ops")
	var out string
	r := guard(func() {
		h := parseHdr(findTok(toks, "H("))
		as := parseAVPs(findTok(toks, "["))
		// asm=<g|v|d...>: other legal ways of putting the same AVPs together (see reassemble)
		asm, _ := kvGet(toks, "asm")
		if asm != "" {
			for i := range as {
				as[i] = reassemble(as[i], asm)
			}
		}
		m := diam.NewMessage(h.CommandCode, h.CommandFlags, h.ApplicationID, h.HopByHopID, h.EndToEndID, dictByName(d))
		var hlens []string
		for i, a := range as {
			op := byte('+')
			if i < len(ops) {
				op = ops[i]
			}
			switch op {
			case '^':
				m.InsertAVP(a)
			case 'a':
				m.AddAVP(a)
			case 'M':
				// Marshal replaces the AVPs assembled so far by those of the struct
				if err := m.Marshal(&marshalOne{X: []*diam.AVP{a}}); err != nil {
					panic("marshal: " + err.Error())
				}
			default:
				// Message.NewAVP builds the AVP itself
				fl := a.Flags
				if strings.Contains(asm, "v") && a.VendorID != 0 {
					fl &^= 0x80
				}
				m.NewAVP(a.Code, fl, a.VendorID, a.Data)
			}
			hlens = append(hlens, strconv.Itoa(int(m.Header.MessageLength)))
		}
		ser, err := m.Serialize()
		if err != nil {
			out = "ser=err"
			return
		}
		out = "ser=" + hex.EncodeToString(ser) + " hlens=" + strings.Join(hlens, ",")
		// SerializeTo into a caller's larger, used scratch buffer writes the same image and
		// leaves the message as it was
		scratch := bytes.Repeat([]byte{0xa5}, len(ser)+1+len(ser)%7)
		hdrBefore := *m.Header
		if err := m.SerializeTo(scratch); err != nil || !bytes.Equal(scratch[:len(ser)], ser) || *m.Header != hdrBefore {
			out += " sto=" + hex.EncodeToString(scratch[:len(ser)])
		} else {
			out += " sto=same"
		}
		// the image actually written: WriteTo serialises into a pooled buffer that an earlier
		// write has left full of other bytes
		dirtyWriterPool()
		var wb bytes.Buffer
		if _, err := m.WriteTo(&wb); err != nil {
			out += " wt=err"
		} else if bytes.Equal(wb.Bytes(), ser) {
			out += " wt=same"
		} else {
			out += " wt=" + hex.EncodeToString(wb.Bytes())
		}
		var m2 *diam.Message
		var rerr error
		if r := guard(func() { m2, rerr = diam.ReadMessage(bytes.NewReader(ser), dictByName(d)) }); r != "" {
			out += " rd=" + r
			return
		}
		if rerr != nil {
			out += " rd=err"
			return
		}
		ser2, _ := m2.Serialize()
		out += " rd=ok " + showHdr(m2.Header) + " " + showAVPs(m2.AVP) + " reser=" + hex.EncodeToString(ser2)
	})
	if r != "" {
		return "ser=" + r
	}
	return out
}

// reassemble builds the same AVP in another legal way:
//
//	g  a grouped AVP is wrapped with NewAVP while its group is still empty and filled afterwards
//	   with GroupedAVP.AddAVP (at every depth)
//	v  a vendor id is passed with flags that lack the V bit (NewAVP sets it)
//	d  the AVP is created around a value of another size and its Data field assigned afterwards
func reassemble(a *diam.AVP, mode string) *diam.AVP {
	if strings.Contains(mode, "t") {
		if _, ok := a.Data.(*diam.GroupedAVP); ok {
			return reassembleTopDown(a)
		}
	}
	if strings.Contains(mode, "r") {
		if g, ok := a.Data.(*diam.GroupedAVP); ok && len(g.AVP) > 0 {
			return reassembleReplace(a)
		}
	}
	fl := a.Flags
	if strings.Contains(mode, "v") && a.VendorID != 0 {
		fl &^= 0x80
	}
	if g, ok := a.Data.(*diam.GroupedAVP); ok && strings.Contains(mode, "g") {
		g2 := &diam.GroupedAVP{}
		a2 := diam.NewAVP(a.Code, fl, a.VendorID, g2)
		for _, c := range g.AVP {
			g2.AddAVP(reassemble(c, mode))
		}
		return a2
	}
	if g, ok := a.Data.(*diam.GroupedAVP); ok {
		g2 := &diam.GroupedAVP{}
		for _, c := range g.AVP {
			g2.AVP = append(g2.AVP, reassemble(c, mode))
		}
		return diam.NewAVP(a.Code, fl, a.VendorID, g2)
	}
	if strings.Contains(mode, "d") {
		a2 := diam.NewAVP(a.Code, fl, a.VendorID, datatype.OctetString("a placeholder of another size"))
		a2.Data = a.Data
		return a2
	}
	return diam.NewAVP(a.Code, fl, a.VendorID, a.Data)
}

// reassembleTopDown (mode t): the outer AVP is made first, around groups that only hold the
// (still empty) shells of their grouped members; its length is asked for; the inner groups are
// completed afterwards, outermost first. Whatever anybody remembered about a size on the way is
// out of date by the time the tree is complete.
func reassembleTopDown(a *diam.AVP) *diam.AVP {
	g := a.Data.(*diam.GroupedAVP)
	g2 := &diam.GroupedAVP{}
	a2 := diam.NewAVP(a.Code, a.Flags, a.VendorID, g2)
	type pending struct {
		shell *diam.AVP
		orig  *diam.AVP
	}
	var todo []pending
	for _, c := range g.AVP {
		if _, ok := c.Data.(*diam.GroupedAVP); ok {
			sh := diam.NewAVP(c.Code, c.Flags, c.VendorID, &diam.GroupedAVP{})
			g2.AddAVP(sh)
			todo = append(todo, pending{sh, c})
		} else {
			g2.AddAVP(diam.NewAVP(c.Code, c.Flags, c.VendorID, c.Data))
		}
	}
	_ = a2.Len()
	for _, p := range todo {
		fillTopDown(a2, p.shell, p.orig)
	}
	return a2
}

func fillTopDown(root, shell, orig *diam.AVP) {
	g := orig.Data.(*diam.GroupedAVP)
	sg := shell.Data.(*diam.GroupedAVP)
	var todo [][2]*diam.AVP
	for _, c := range g.AVP {
		if _, ok := c.Data.(*diam.GroupedAVP); ok {
			sh := diam.NewAVP(c.Code, c.Flags, c.VendorID, &diam.GroupedAVP{})
			sg.AddAVP(sh)
			todo = append(todo, [2]*diam.AVP{sh, c})
		} else {
			sg.AddAVP(diam.NewAVP(c.Code, c.Flags, c.VendorID, c.Data))
		}
		_ = root.Len()
	}
	for _, p := range todo {
		fillTopDown(root, p[0], p[1])
	}
}

// reassembleReplace (mode r): the group is built and wrapped with a placeholder of another size
// in the place of its last member, its length is asked for, and the member is put in afterwards
func reassembleReplace(a *diam.AVP) *diam.AVP {
	g := a.Data.(*diam.GroupedAVP)
	g2 := &diam.GroupedAVP{}
	for i, c := range g.AVP {
		if i == len(g.AVP)-1 {
			g2.AVP = append(g2.AVP, diam.NewAVP(c.Code, 0, 0, datatype.OctetString("a placeholder that is longer than most of the members are")))
		} else {
			g2.AVP = append(g2.AVP, reassemble(c, "r"))
		}
	}
	a2 := diam.NewAVP(a.Code, a.Flags, a.VendorID, g2)
	_ = a2.Len()
	g2.AVP[len(g2.AVP)-1] = reassemble(g.AVP[len(g.AVP)-1], "r")
	return a2
}

// ---- answer (C16): request read from a multistream reader so that it carries a stream

type fakeMS struct {
	data   []byte
	stream uint
	cur    uint
	wrote  []uint
	wbytes [][]byte
}

func (f *fakeMS) Read(b []byte) (int, error) { n, _, err := f.ReadAny(b); return n, err }
func (f *fakeMS) ReadAny(b []byte) (int, uint, error) {
	if len(f.data) == 0 {
		return 0, f.stream, io.EOF
	}
	n := copy(b, f.data)
	f.data = f.data[n:]
	return n, f.stream, nil
}
func (f *fakeMS) ReadStream(b []byte, s uint) (int, error) { n, _, err := f.ReadAny(b); return n, err }
func (f *fakeMS) ReadAtLeast(b []byte, min int, s uint) (int, uint, error) {
	n := 0
	for n < min {
		k, _, err := f.ReadAny(b[n:])
		n += k
		if err != nil {
			return n, f.stream, err
		}
	}
	return n, f.stream, nil
}
func (f *fakeMS) CurrentStream() uint          { return f.cur }
func (f *fakeMS) ResetCurrentStream()          { f.cur = diam.InvalidStreamID }
func (f *fakeMS) SetCurrentStream(s uint) uint { o := f.cur; f.cur = s; return o }
func (f *fakeMS) Write(b []byte) (int, error)  { return f.WriteStream(b, f.cur) }
func (f *fakeMS) WriteStream(b []byte, s uint) (int, error) {
	f.wrote = append(f.wrote, s)
	f.wbytes = append(f.wbytes, append([]byte(nil), b...))
	return len(b), nil
}
func (f *fakeMS) CurrentWriterStream() uint   { return f.cur }
func (f *fakeMS) ResetWriterStream()          {}
func (f *fakeMS) SetWriterStream(s uint) uint { return s }

func execAnswer(toks []string) string {
	h := parseHdr(findTok(toks, "H("))
	rcS, _ := kvGet(toks, "rc")
	stS, _ := kvGet(toks, "stream")
	rc, _ := strconv.ParseUint(rcS, 10, 32)
	st, _ := strconv.ParseUint(stS, 10, 32)
	// the request as the reader returns it: header bytes on stream st
	hb := (&diam.Header{Version: 1, MessageLength: 20, CommandFlags: h.CommandFlags, CommandCode: h.CommandCode, ApplicationID: h.ApplicationID, HopByHopID: h.HopByHopID, EndToEndID: h.EndToEndID}).Serialize()
	// a body is needed only so that the command lookup succeeds; use a dictionary-independent message
	req := &diam.Message{Header: &diam.Header{Version: 1, MessageLength: 20, CommandFlags: h.CommandFlags, CommandCode: h.CommandCode, ApplicationID: h.ApplicationID, HopByHopID: h.HopByHopID, EndToEndID: h.EndToEndID}}
	ms := &fakeMS{data: hb, stream: uint(st), cur: diam.InvalidStreamID}
	noStream := false
	if m, err := diam.ReadMessage(ms, dict.Default); err == nil {
		req = m
	} else {
		// command unknown to the dictionary or without rules: no inbound stream can be attached
		// through the public API; the mirror check is then limited to the header fields.
		noStream = true
	}
	// an earlier answer with the same result code, whose Result-Code AVP the application then
	// edits in place (ordinary handler practice), must not show in this one
	guard(func() {
		prev := req.Answer(uint32(rc))
		for _, x := range prev.AVP {
			if x.Code == 268 {
				x.Data = datatype.Unsigned32(5002)
				x.Flags = 0
			}
		}
	})
	var a *diam.Message
	if r := guard(func() { a = req.Answer(uint32(rc)) }); r != "" {
		return r
	}
	w := &fakeMS{cur: diam.InvalidStreamID}
	if r := guard(func() { _, _ = a.WriteTo(w) }); r != "" {
		return r
	}
	ws := uint(diam.InvalidStreamID)
	if len(w.wrote) == 1 {
		ws = w.wrote[0]
	}
	if noStream {
		return showHdr(a.Header) + " " + showAVPs(a.AVP) + " stream=none"
	}
	out := showHdr(a.Header) + " " + showAVPs(a.AVP) + " stream=" + strconv.FormatUint(uint64(ws), 10)
	if uint(st) != uint(a.MessageStream()) {
		out += " msgstream=" + strconv.FormatUint(uint64(a.MessageStream()), 10)
	}
	return out
}

// ---- find (C20)

func execFind(toks []string) string {
	as := parseAVPs(findTok(toks, "["))
	q, _ := kvGet(toks, "q")
	appS, _ := kvGet(toks, "app")
	app, _ := strconv.ParseUint(appS, 10, 32)
	parts := strings.SplitN(q, ":", 2)
	if len(parts) != 2 {
		return "badinput"
	}
	var codes []interface{}
	for _, c := range strings.Split(parts[1], ".") {
		if c == "" {
			continue
		}
		n, err := strconv.ParseUint(c, 10, 32)
		if err != nil {
			return "badinput"
		}
		codes = append(codes, uint32(n))
	}
	// optional names replace the numbers in the call (the model sees the numbers)
	if nm, ok := kvGet(toks, "names"); ok {
		ns := strings.Split(nm, ",")
		for i := range codes {
			if i < len(ns) && ns[i] != "" {
				codes[i] = ns[i]
			}
		}
	}
	// share=1: equal grouped AVPs of the line are ONE object in the message (an application that
	// puts the same *AVP, with the same *GroupedAVP behind it, into a message twice - directly or
	// inside two different groups)
	if sh, _ := kvGet(toks, "share"); sh == "1" {
		seen := map[string]*diam.AVP{}
		var share func(list []*diam.AVP)
		share = func(list []*diam.AVP) {
			for i, a := range list {
				g, ok := a.Data.(*diam.GroupedAVP)
				if !ok {
					continue
				}
				k := showAVP(a)
				if first, dup := seen[k]; dup {
					list[i] = first
					continue
				}
				seen[k] = a
				share(g.AVP)
			}
		}
		share(as)
	}
	m := diam.NewMessage(257, 0x80, uint32(app), 1, 1, dict.Default)
	for _, a := range as {
		m.AddAVP(a)
	}
	var res []*diam.AVP
	var err error
	treeBefore := showAVPs(m.AVP)
	run := func() (string, string) {
		var rr []*diam.AVP
		var e error
		g := guard(func() {
			switch parts[0] {
			case "first":
				var a *diam.AVP
				a, e = m.FindAVP(codes[0], dict.UndefinedVendorID)
				if e == nil {
					rr = []*diam.AVP{a}
				}
			case "all":
				rr, e = m.FindAVPs(codes[0], dict.UndefinedVendorID)
			default:
				rr, e = m.FindAVPsWithPath(codes, dict.UndefinedVendorID)
			}
		})
		if g != "" {
			return g, ""
		}
		if e != nil {
			return "err", ""
		}
		return showAVPs(rr), ""
	}
	r := guard(func() {
		switch parts[0] {
		case "first":
			var a *diam.AVP
			a, err = m.FindAVP(codes[0], dict.UndefinedVendorID)
			if err == nil {
				res = []*diam.AVP{a}
			}
		case "all":
			res, err = m.FindAVPs(codes[0], dict.UndefinedVendorID)
		default:
			res, err = m.FindAVPsWithPath(codes, dict.UndefinedVendorID)
		}
	})
	if r != "" {
		return r
	}
	first := "err"
	if err == nil {
		first = showAVPs(res)
	}
	// searching is read-only: the same query again gives the same answer, and the tree is as it was
	second, _ := run()
	tail := ""
	if second != first {
		tail += " again=" + second
	}
	if showAVPs(m.AVP) != treeBefore {
		tail += " tree=changed"
	}
	// edit=<k>: the application edits the tree below the top level (the message API is not
	// involved) and asks again: the answer is the reference walk of the tree as it is now
	if ek, ok := kvGet(toks, "edit"); ok && tail == "" {
		code, _ := codes[len(codes)-1].(uint32)
		var firstGroup *diam.GroupedAVP
		var leaf *diam.AVP
		var walk func(as []*diam.AVP)
		walk = func(as []*diam.AVP) {
			for _, a := range as {
				if g, ok := a.Data.(*diam.GroupedAVP); ok {
					if firstGroup == nil {
						firstGroup = g
					}
					walk(g.AVP)
				} else if leaf == nil || (a.Code == code && leaf.Code != code) {
					leaf = a
				}
			}
		}
		walk(m.AVP)
		mk := func() *diam.AVP {
			if leaf == nil {
				return diam.NewAVP(code, 0x40, 0, datatype.OctetString("edit"))
			}
			cp := *leaf
			cp.Code = code
			return &cp
		}
		done := false
		switch ek {
		case "1": // one more member in a group that is already part of the message
			if firstGroup != nil {
				firstGroup.AddAVP(mk())
				done = true
			}
		case "2": // the last top-level AVP is replaced
			if len(m.AVP) > 1 {
				m.AVP[len(m.AVP)-1] = mk()
				done = true
			}
		case "3": // a group is emptied
			if firstGroup != nil && len(firstGroup.AVP) > 0 {
				firstGroup.AVP = nil
				done = true
			}
		}
		if done {
			after, _ := run()
			tail += " edited=" + showAVPs(m.AVP) + " after=" + after
		}
	}
	return first + tail
}

// ------------------------------------------------------------------ dictionary view for generators

type avpInfo struct {
	code, vendor uint32
	typ          datatype.TypeID
	name         string
}

type dictView struct {
	apps   []uint32
	cmds   map[uint32][]uint32 // app -> command codes resolvable (own + base)
	byApp  map[uint32][]avpInfo
	byType map[uint32]map[datatype.TypeID][]avpInfo
}

func buildView(p *dict.Parser) *dictView {
	v := &dictView{cmds: map[uint32][]uint32{}, byApp: map[uint32][]avpInfo{}, byType: map[uint32]map[datatype.TypeID][]avpInfo{}}
	seenApp := map[uint32]bool{}
	var all []*dict.App
	for _, a := range p.Apps() {
		all = append(all, a)
		if !seenApp[a.ID] {
			seenApp[a.ID] = true
			v.apps = append(v.apps, a.ID)
		}
	}
	for _, app := range v.apps {
		seen := map[[2]uint32]bool{}
		cseen := map[uint32]bool{}
		for _, a := range all {
			for _, c := range a.Command {
				if cmd, err := p.FindCommand(app, c.Code); err == nil && !cseen[c.Code] && (len(cmd.Request.Rule) > 0 || len(cmd.Answer.Rule) > 0) {
					cseen[c.Code] = true
					v.cmds[app] = append(v.cmds[app], c.Code)
				}
			}
			for _, x := range a.AVP {
				k := [2]uint32{x.Code, x.VendorID}
				if seen[k] {
					continue
				}
				// keep only what this application actually resolves to
				r, err := p.FindAVPWithVendor(app, x.Code, x.VendorID)
				if err != nil || r == nil {
					continue
				}
				seen[k] = true
				info := avpInfo{code: r.Code, vendor: x.VendorID, typ: r.Data.Type, name: r.Name}
				v.byApp[app] = append(v.byApp[app], info)
				if v.byType[app] == nil {
					v.byType[app] = map[datatype.TypeID][]avpInfo{}
				}
				v.byType[app][r.Data.Type] = append(v.byType[app][r.Data.Type], info)
			}
		}
	}
	return v
}

var defaultView *dictView

func view() *dictView {
	if defaultView == nil {
		defaultView = buildView(dict.Default)
	}
	return defaultView
}

// ------------------------------------------------------------------ value generators

var strLens = []int{0, 0, 1, 2, 3, 4, 5, 6, 7, 8, 9, 11, 12, 13, 16, 17, 31, 32, 33}
var u32Edge = []uint32{0, 1, 2, 0x7f, 0x80, 0xff, 0x100, 0x7fffffff, 0x80000000, 0xfffffffe, 0xffffffff, 2001, 5012}
var u64Edge = []uint64{0, 1, 0x7fffffffffffffff, 0x8000000000000000, 0xffffffffffffffff, 0xffffffff, 0x100000000}
var f32Edge = []uint32{0, 0x80000000, 1, 0x007fffff, 0x00800000, 0x7f800000, 0xff800000, 0x7fc00000, 0x7f800001, 0xffc00001, 0x3f800000}
var f64Edge = []uint64{0, 0x8000000000000000, 1, 0x000fffffffffffff, 0x7ff0000000000000, 0x7ff8000000000000, 0x7ff0000000000001, 0xfff8000000000001, 0x3ff0000000000000}
var timeEdge = []int64{-61505152, -61505151, -1, 0, 1, 1700000000, 2085978495, 2085978496, 2085978497, 4233462143, 4233462144, 2147483647, 2147483648}

func genLen(r *RNG) int {
	k := r.Intn(100)
	switch {
	case k < 80:
		return strLens[r.Intn(len(strLens))]
	case k < 97:
		return r.Intn(60)
	case k < 99:
		return 1020 + r.Intn(10)
	}
	return 4090 + r.Intn(12)
}

// genText: the payload of a string-like AVP. Mostly arbitrary octets; otherwise well-formed
// UTF-8 text over alphabets of 1-, 2-, 3- and 4-byte characters, with character counts around
// the sizes a renderer or an "optimised" decoder might single out - so that byte length and
// character count differ.
var textCounts = []int{0, 1, 2, 7, 15, 16, 17, 20, 31, 32, 33, 40, 60, 63, 64, 65, 100, 127, 128, 129, 200, 255, 256, 257, 300}

func genText(r *RNG) []byte {
	if r.Chance(65) {
		return r.Bytes(genLen(r))
	}
	alphabets := [][]rune{
		[]rune("abcXYZ019 .-_@:/"),
		[]rune("жлыяЩЁüéñß"),
		[]rune("漢字かなカナ한글"),
		[]rune("😀🚀𝔘𐍈"),
	}
	n := textCounts[r.Intn(len(textCounts))]
	if r.Chance(30) {
		n = r.Intn(90)
	}
	mixed := r.Chance(25)
	a := alphabets[r.Intn(len(alphabets))]
	out := make([]rune, n)
	for i := range out {
		if mixed {
			a = alphabets[r.Intn(len(alphabets))]
		}
		out[i] = a[r.Intn(len(a))]
	}
	b := []byte(string(out))
	if r.Chance(5) && len(b) > 2 { // a single invalid byte inside otherwise valid text
		b[r.Intn(len(b))] = 0xff
	}
	return b
}

func genLeaf(r *RNG, t datatype.TypeID) datatype.Type {
	switch t {
	case datatype.UnknownType:
		return datatype.Unknown(genText(r))
	case datatype.DiameterIdentityType:
		return datatype.DiameterIdentity(genText(r))
	case datatype.DiameterURIType:
		return datatype.DiameterURI(genText(r))
	case datatype.IPFilterRuleType:
		return datatype.IPFilterRule(genText(r))
	case datatype.OctetStringType:
		return datatype.OctetString(genText(r))
	case datatype.QoSFilterRuleType:
		return datatype.QoSFilterRule(genText(r))
	case datatype.UTF8StringType:
		return datatype.UTF8String(genText(r))
	case datatype.EnumeratedType:
		return datatype.Enumerated(int32(pickU32(r)))
	case datatype.Integer32Type:
		return datatype.Integer32(int32(pickU32(r)))
	case datatype.Unsigned32Type:
		return datatype.Unsigned32(pickU32(r))
	case datatype.Float32Type:
		return parseValOf(fmt.Sprintf("f5:%d", pickFrom32(r, f32Edge)))
	case datatype.Float64Type:
		return parseValOf(fmt.Sprintf("f6:%d", pickFrom64(r, f64Edge)))
	case datatype.Integer64Type:
		return datatype.Integer64(int64(pickFrom64(r, u64Edge)))
	case datatype.Unsigned64Type:
		return datatype.Unsigned64(pickFrom64(r, u64Edge))
	case datatype.TimeType:
		if r.Chance(60) {
			return datatype.Time(time.Unix(timeEdge[r.Intn(len(timeEdge))], 0))
		}
		return datatype.Time(time.Unix(-61505152+int64(r.U64()%4294967296), 0))
	case datatype.AddressType:
		return genAddress(r)
	case datatype.IPv4Type:
		return datatype.IPv4(r.Bytes(4))
	case datatype.IPv6Type:
		return datatype.IPv6(r.Bytes(16))
	}
	return datatype.Unknown(r.Bytes(genLen(r)))
}

func parseValOf(s string) datatype.Type { p := &parser{s: s}; return p.val() }

func pickU32(r *RNG) uint32 { return pickFrom32(r, u32Edge) }
func pickFrom32(r *RNG, e []uint32) uint32 {
	if r.Chance(55) {
		return e[r.Intn(len(e))]
	}
	return r.U32()
}
func pickFrom64(r *RNG, e []uint64) uint64 {
	if r.Chance(55) {
		return e[r.Intn(len(e))]
	}
	return r.U64()
}

func genAddress(r *RNG) datatype.Address {
	k := r.Intn(100)
	switch {
	case k < 35:
		return datatype.Address(r.Bytes(4))
	case k < 65:
		b := r.Bytes(16)
		if b[10] == 0xff && b[11] == 0xff {
			b[0] |= 1
		}
		b[0] |= 0x20 // never v4-mapped
		return datatype.Address(b)
	case k < 68: // v4-mapped form (net.IP identity with the 4-byte form)
		return datatype.Address(append([]byte{0, 0, 0, 0, 0, 0, 0, 0, 0, 0, 0xff, 0xff}, r.Bytes(4)...))
	default: // another family: family-prefixed raw bytes
		fam := []uint16{3, 4, 8, 8, 8, 15, 16, 17, 28, 1024, 65534}[r.Intn(11)]
		n := []int{1, 2, 3, 5, 6, 9, 10, 11, 12, 13, 15, 16, 20}[r.Intn(13)]
		if r.Chance(6) {
			n = []int{2, 14}[r.Intn(2)] // total length 4 or 16 (ambiguous with IP forms)
		}
		return datatype.Address(append([]byte{byte(fam >> 8), byte(fam)}, r.Bytes(n)...))
	}
}

var leafTypes = []datatype.TypeID{datatype.AddressType, datatype.DiameterIdentityType, datatype.DiameterURIType, datatype.EnumeratedType, datatype.Float32Type, datatype.Float64Type, datatype.IPFilterRuleType, datatype.IPv4Type, datatype.Integer32Type, datatype.Integer64Type, datatype.OctetStringType, datatype.TimeType, datatype.UTF8StringType, datatype.Unsigned32Type, datatype.Unsigned64Type}

// genAVP produces an AVP that is valid for application app under the default dictionary
// (mostly), built through diam.NewAVP.
func genAVP(r *RNG, v *dictView, app uint32, depth int) *diam.AVP {
	k := r.Intn(100)
	var flags uint8
	if r.Chance(50) {
		flags |= 0x40
	}
	if r.Chance(15) {
		flags |= 0x20
	}
	if r.Chance(5) {
		flags |= uint8(r.Intn(32)) // reserved bits
	}
	cands := v.byApp[app]
	switch {
	case k < 8 || len(cands) == 0: // code unknown to the dictionary: opaque data
		code := 3000000 + uint32(r.Intn(1000))
		vendor := uint32(0)
		if r.Chance(50) {
			vendor = 99000 + uint32(r.Intn(5))
			if r.Chance(25) { // the edges of the 32-bit vendor id space
				vendor = []uint32{1, 0x7fffffff, 0x80000000, 0xfffffffe, 0xffffffff}[r.Intn(5)]
			}
		}
		if vendor != 0 {
			flags |= 0x80
		}
		// a literal, not NewAVP: the line must say what is asked for, not what the library made of it
		return &diam.AVP{Code: code, Flags: flags, VendorID: vendor, Data: datatype.Unknown(r.Bytes(genLen(r)))}
	case k < 12: // known code under an undefined vendor: opaque as well
		c := cands[r.Intn(len(cands))]
		return diam.NewAVP(c.code, flags, 99000+uint32(r.Intn(5)), datatype.Unknown(r.Bytes(genLen(r))))
	case k < 15: // V flag with vendor id 0
		c := pickVendor0(r, cands)
		if c.typ != datatype.GroupedType {
			return diam.NewAVP(c.code, flags|0x80, 0, genLeaf(r, c.typ))
		}
	case k < 18: // wrong value type for the code (not valid; correspondence only)
		c := cands[r.Intn(len(cands))]
		return diam.NewAVP(c.code, flags, c.vendor, genLeaf(r, leafTypes[r.Intn(len(leafTypes))]))
	}
	// type-directed: choose a data type first so that rare types are well represented
	var c avpInfo
	if r.Chance(60) {
		types := make([]datatype.TypeID, 0, len(v.byType[app]))
		for _, t := range allTypes {
			if len(v.byType[app][t]) > 0 {
				types = append(types, t)
			}
		}
		t := types[r.Intn(len(types))]
		l := v.byType[app][t]
		c = l[r.Intn(len(l))]
	} else {
		c = cands[r.Intn(len(cands))]
	}
	if c.typ == datatype.GroupedType {
		g := &diam.GroupedAVP{}
		n := 0
		if depth < 4 {
			n = r.Intn(4)
		} else if depth < 12 && r.Chance(70) {
			n = 1
		} else if depth < 40 && r.Chance(85) { // a few very deep chains
			n = 1
		}
		for i := 0; i < n; i++ {
			g.AVP = append(g.AVP, genAVP(r, v, app, depth+1))
		}
		return diam.NewAVP(c.code, flags, c.vendor, g)
	}
	return diam.NewAVP(c.code, flags, c.vendor, genLeaf(r, c.typ))
}

var allTypes = []datatype.TypeID{0, 1, 2, 3, 4, 5, 6, 7, 8, 9, 10, 11, 12, 13, 14, 15, 16, 17, 18}

func pickVendor0(r *RNG, cands []avpInfo) avpInfo {
	for i := 0; i < 20; i++ {
		c := cands[r.Intn(len(cands))]
		if c.vendor == 0 {
			return c
		}
	}
	return cands[0]
}

var idEdge = []uint32{1, 2, 0x7fffffff, 0x80000000, 0xffffffff}

func genID(r *RNG) uint32 {
	if r.Chance(40) {
		return idEdge[r.Intn(len(idEdge))]
	}
	x := r.U32()
	if x == 0 {
		x = 1
	}
	return x
}

type genMsg struct {
	hdr  diam.Header
	avps []*diam.AVP
	ops  string
}

func genMessage(r *RNG) genMsg {
	v := view()
	app := v.apps[r.Intn(len(v.apps))]
	cmds := v.cmds[app]
	cmd := cmds[r.Intn(len(cmds))]
	flags := uint8(0)
	if r.Bool() {
		flags |= 0x80
	}
	if r.Chance(40) {
		flags |= 0x40
	}
	if r.Chance(10) {
		flags |= 0x20
	}
	if r.Chance(10) {
		flags |= 0x10
	}
	if r.Chance(5) {
		flags |= uint8(r.Intn(16))
	}
	// the command must have rules for the chosen R bit, otherwise ReadMessage rejects it
	if c, err := dict.Default.FindCommand(app, cmd); err == nil {
		if flags&0x80 != 0 && len(c.Request.Rule) == 0 {
			flags &^= 0x80
		}
		if flags&0x80 == 0 && len(c.Answer.Rule) == 0 {
			flags |= 0x80
		}
	}
	g := genMsg{hdr: diam.Header{Version: 1, MessageLength: 20, CommandFlags: flags, CommandCode: cmd, ApplicationID: app, HopByHopID: genID(r), EndToEndID: genID(r)}}
	n := []int{0, 1, 1, 2, 3, 4, 5, 6, 8, 12}[r.Intn(10)]
	var ops []byte
	for i := 0; i < n; i++ {
		a := genAVP(r, v, app, 0)
		// now and then the AVP sits inside a chain of grouped AVPs: 7..10 levels (around any
		// small depth bound), 17, 33
		if gl := v.byType[app][datatype.GroupedType]; len(gl) > 0 && r.Chance(6) {
			for d, k := 0, []int{7, 8, 9, 10, 17, 33}[r.Intn(6)]; d < k; d++ {
				c := gl[r.Intn(len(gl))]
				members := []*diam.AVP{a}
				if r.Chance(25) {
					members = append(members, genAVP(r, v, app, 40))
				}
				a = diam.NewAVP(c.code, 0x40, c.vendor, &diam.GroupedAVP{AVP: members})
			}
		}
		g.avps = append(g.avps, a)
		ops = append(ops, "++a^++a^M"[r.Intn(9)])
	}
	g.ops = string(ops)
	return g
}

func (g genMsg) buildLine() string {
	return fmt.Sprintf("codec build d=default ops=%s %s %s", dashIfEmpty(g.ops), showHdr(&g.hdr), showAVPs(g.avps))
}

func dashIfEmpty(s string) string {
	if s == "" {
		return "-"
	}
	return s
}

// serialise through the library in document order (ops ignored)
func (g genMsg) bytes() []byte {
	m := diam.NewMessage(g.hdr.CommandCode, g.hdr.CommandFlags, g.hdr.ApplicationID, g.hdr.HopByHopID, g.hdr.EndToEndID, dict.Default)
	for _, a := range g.avps {
		m.AddAVP(a)
	}
	b, _ := m.Serialize()
	return b
}

// ------------------------------------------------------------------ raw assembly (independent of the library's encoder)

func rawAVP(code uint32, flags uint8, vendor uint32, declared int, payload []byte, pad bool) []byte {
	var b []byte
	b = append(b, be32(code)...)
	b = append(b, flags)
	b = append(b, be24(uint32(declared))...)
	if flags&0x80 != 0 {
		b = append(b, be32(vendor)...)
	}
	b = append(b, payload...)
	if pad {
		for len(b)%4 != 0 {
			b = append(b, 0)
		}
	}
	return b
}

func rawHeader(length int, flags uint8, cmd, app, hbh, e2e uint32) []byte {
	b := []byte{1}
	b = append(b, be24(uint32(length))...)
	b = append(b, flags)
	b = append(b, be24(cmd)...)
	b = append(b, be32(app)...)
	b = append(b, be32(hbh)...)
	b = append(b, be32(e2e)...)
	return b
}

func wrapBody(r *RNG, body []byte) []byte {
	// a base-protocol command with rules for both directions
	cmd := []uint32{257, 280, 282, 272, 271}[r.Intn(5)]
	app := uint32(0)
	if cmd == 272 {
		app = 4
	}
	if cmd == 271 {
		app = 3
	}
	flags := uint8(0x80)
	if r.Bool() {
		flags = 0
	}
	return append(rawHeader(20+len(body), flags, cmd, app, genID(r), genID(r)), body...)
}

// fixed-width and address codes of the base dictionary, used by the frame generator
var fixedCodes = []struct {
	code uint32
	w    int
}{{266, 4}, {268, 4}, {258, 4}, {299, 4}, {278, 4}, {55, 4}, {261, 4}, {273, 4}, {287, 8}, {276, 4}, {291, 4}, {27, 4}, {485, 4}, {480, 4}}
var addrCodes = []uint32{257}
var groupCodes = []uint32{260, 279, 284, 297}
var strCodes = []uint32{264, 296, 263, 1, 25, 269, 281}

func genRecord(r *RNG, depth int) []byte {
	if depth == 0 && r.Chance(5) {
		// a record (well formed or not) below 7..33 levels of grouped AVPs
		inner := genRecord(r, 1)
		for d, k := 0, []int{7, 8, 9, 10, 17, 33}[r.Intn(6)]; d < k; d++ {
			if r.Chance(20) {
				inner = append(inner, genRecord(r, 5)...)
			}
			inner = rawAVP(groupCodes[r.Intn(len(groupCodes))], 0x40, 0, 8+len(inner), inner, true)
		}
		return inner
	}
	k := r.Intn(100)
	flags := uint8(0)
	if r.Chance(50) {
		flags |= 0x40
	}
	switch {
	case k < 40: // fixed-width type with a payload of any length; tail may spell another AVP
		c := fixedCodes[r.Intn(len(fixedCodes))]
		n := r.Intn(25)
		var p []byte
		if r.Chance(50) && n >= 12 {
			inner := rawAVP(264, 0x40, 0, 12, []byte("evil"), true)
			p = append(r.Bytes(n-12), inner...)
			if r.Chance(50) {
				p = append(inner, r.Bytes(n-12)...)
			}
		} else {
			p = r.Bytes(n)
		}
		return rawAVP(c.code, flags, 0, 8+len(p), p, r.Chance(95))
	case k < 60: // Address of every family and length
		fam := []uint16{0, 1, 1, 1, 2, 2, 2, 3, 8, 8, 15, 65534, 65535}[r.Intn(13)]
		n := r.Intn(21)
		var p []byte
		if n >= 2 {
			p = append([]byte{byte(fam >> 8), byte(fam)}, r.Bytes(n-2)...)
		} else {
			p = r.Bytes(n)
		}
		if fam == 2 && n == 18 && r.Chance(30) { // v4-mapped
			copy(p[2:], []byte{0, 0, 0, 0, 0, 0, 0, 0, 0, 0, 0xff, 0xff})
		}
		return rawAVP(257, flags, 0, 8+len(p), p, r.Chance(95))
	case k < 72: // string types
		p := r.Bytes(genLen(r) % 64)
		return rawAVP(strCodes[r.Intn(len(strCodes))], flags, 0, 8+len(p), p, r.Chance(95))
	case k < 80: // vendor flag, possibly short
		p := r.Bytes(r.Intn(12))
		decl := []int{8, 9, 10, 11, 12, 12 + len(p)}[r.Intn(6)]
		return rawAVP(3000000+uint32(r.Intn(10)), flags|0x80, 10415, decl, p, true)
	case k < 88 && depth < 5: // group of records
		var body []byte
		for i, n := 0, r.Intn(4); i < n; i++ {
			body = append(body, genRecord(r, depth+1)...)
		}
		return rawAVP(groupCodes[r.Intn(len(groupCodes))], flags, 0, 8+len(body), body, true)
	case k < 94: // declared length off by a little
		p := r.Bytes(r.Intn(12))
		decl := 8 + len(p) + []int{-9, -8, -1, 1, 2, 3, 4, 8, 100}[r.Intn(9)]
		if decl < 0 {
			decl = 0
		}
		return rawAVP(strCodes[r.Intn(len(strCodes))], flags, 0, decl, p, true)
	default: // unknown code
		p := r.Bytes(genLen(r) % 40)
		return rawAVP(4000000+uint32(r.Intn(10)), flags, 0, 8+len(p), p, true)
	}
}

var lenBoundaries = []int{0, 1, 7, 8, 11, 12, 13, 16, 19, 20}

func mutate(r *RNG, b []byte) []byte {
	b = append([]byte(nil), b...)
	if len(b) < 20 {
		return b
	}
	switch r.Intn(9) {
	case 0: // header length field
		v := lenBoundaries[r.Intn(len(lenBoundaries))]
		if r.Bool() {
			v = len(b) + []int{-4, -1, 1, 4, 1000}[r.Intn(5)]
		}
		if v < 0 {
			v = 0
		}
		copy(b[1:4], be24(uint32(v)))
	case 1: // truncate, keep the header's length
		b = b[:r.Intn(len(b)+1)]
	case 2: // truncate and fix the header's length
		b = b[:20+r.Intn(len(b)-19)]
		copy(b[1:4], be24(uint32(len(b))))
	case 3, 4: // first AVP: length field to a boundary
		if len(b) >= 28 {
			off := avpOffsets(b)
			o := off[r.Intn(len(off))]
			v := lenBoundaries[r.Intn(len(lenBoundaries))]
			if r.Chance(40) {
				cur := int(b[o+5])<<16 | int(b[o+6])<<8 | int(b[o+7])
				v = cur + []int{-5, -4, -3, -2, -1, 1, 2, 3, 4, 5}[r.Intn(10)]
				if v < 0 {
					v = 0
				}
			}
			if r.Chance(5) {
				v = 1<<24 - 1
			}
			copy(b[o+5:o+8], be24(uint32(v)))
		}
	case 5: // flag bit of some AVP
		if len(b) >= 28 {
			off := avpOffsets(b)
			o := off[r.Intn(len(off))]
			b[o+4] ^= 1 << uint(r.Intn(8))
			if r.Chance(60) {
				b[o+4] |= 0x80
			}
		}
	case 6: // random bit
		i := r.Intn(len(b))
		b[i] ^= 1 << uint(r.Intn(8))
	case 7: // random byte run
		i := r.Intn(len(b))
		for j := i; j < len(b) && j < i+1+r.Intn(4); j++ {
			b[j] = byte(r.U64())
		}
	case 8: // command flags / code
		b[4+r.Intn(4)] ^= 1 << uint(r.Intn(8))
	}
	return b
}

// offsets of top-level AVP headers, walking by padded length (stops at nonsense)
func avpOffsets(b []byte) []int {
	var out []int
	for o := 20; o+8 <= len(b); {
		out = append(out, o)
		l := int(b[o+5])<<16 | int(b[o+6])<<8 | int(b[o+7])
		if l < 8 {
			break
		}
		o += (l + 3) &^ 3
	}
	if len(out) == 0 {
		out = []int{20}
	}
	return out
}

func decodeLine(b []byte) string {
	return "codec decode d=default " + hexOrDash(b)
}

// ------------------------------------------------------------------ generators per op

func genCodec(r *RNG, n int, which string, emit func(string)) {
	if which == "findn" {
		genFindN(r, n, emit)
		return
	}
	for i := 0; i < n; i++ {
		switch which {
		case "build":
			line := genMessage(r).buildLine()
			if r.Chance(40) {
				line += " asm=" + []string{"g", "v", "d", "gv", "gd", "gvd", "t", "r", "tv", "rd"}[r.Intn(10)]
			}
			emit(line)
		case "decode":
			k := r.Intn(100)
			switch {
			case k < 15:
				emit(decodeLine(genMessage(r).bytes()))
			case k < 50:
				emit(decodeLine(mutate(r, genMessage(r).bytes())))
			case k < 90:
				var body []byte
				for j, m := 0, 1+r.Intn(4); j < m; j++ {
					body = append(body, genRecord(r, 0)...)
				}
				emit(decodeLine(wrapBody(r, body)))
			default:
				emit(decodeLine(append(rawHeader(20+r.Intn(40), byte(r.U64()), []uint32{257, 280, 272, 9999}[r.Intn(4)], []uint32{0, 4, 77}[r.Intn(3)], 1, 1), r.Bytes(r.Intn(48))...)))
			}
		case "frame":
			var body []byte
			for j, m := 0, 1+r.Intn(5); j < m; j++ {
				body = append(body, genRecord(r, 0)...)
			}
			emit(decodeLine(wrapBody(r, body)))
		case "answer":
			v := view()
			app := v.apps[r.Intn(len(v.apps))]
			cmd := v.cmds[app][r.Intn(len(v.cmds[app]))]
			if r.Chance(10) {
				cmd = uint32(r.Intn(1 << 24))
			}
			ids := []uint32{0, 0, 1, 0x80000000, 0xffffffff, r.U32(), r.U32()}
			flags := uint8(r.U64())
			if r.Chance(70) {
				flags |= 0x80
			}
			rc := []uint32{0, 0, 2001, 5012, 1, 0xffffffff, r.U32()}[r.Intn(7)]
			stream := []uint{0, 1, 2, 5, 15, 65535, uint(r.Intn(16))}[r.Intn(7)]
			h := diam.Header{Version: 1, MessageLength: 20, CommandFlags: flags, CommandCode: cmd, ApplicationID: app, HopByHopID: ids[r.Intn(len(ids))], EndToEndID: ids[r.Intn(len(ids))]}
			emit(fmt.Sprintf("codec answer %s rc=%d stream=%d", showHdr(&h), rc, stream))
		case "find":
			emit(genFind(r))
		}
	}
}

// trees with repeated codes at several depths; every AVP carries a unique value so that the
// printed result identifies positions.
func genFind(r *RNG) string {
	serial := uint32(0)
	leafCodes := []uint32{264, 296, 263, 266, 268, 258, 259}
	grpCodes := []uint32{260, 279, 284, 297}
	var mk func(depth int) *diam.AVP
	mk = func(depth int) *diam.AVP {
		serial++
		if depth < 4 && r.Chance(35) {
			g := &diam.GroupedAVP{}
			for i, n := 0, r.Intn(4); i < n; i++ {
				g.AVP = append(g.AVP, mk(depth+1))
			}
			return diam.NewAVP(grpCodes[r.Intn(len(grpCodes))], uint8(serial%2)*0x40, 0, g)
		}
		c := leafCodes[r.Intn(len(leafCodes))]
		if r.Chance(10) { // a grouped code carried by a non-grouped value
			c = grpCodes[r.Intn(len(grpCodes))]
		}
		return diam.NewAVP(c, 0x40, 0, datatype.Unsigned32(serial))
	}
	var as []*diam.AVP
	for i, n := 0, r.Intn(6); i < n; i++ {
		as = append(as, mk(0))
	}
	all := append(append([]uint32{}, leafCodes...), grpCodes...)
	all = append(all, 257, 1, 3000001) // absent from the tree; the last one unknown to the dictionary
	mode := []string{"first", "all", "path"}[r.Intn(3)]
	if mode == "path" && r.Chance(35) {
		// a path that is there, several times: sibling groups of one code that each hold the last
		// element of the path, with other members before and after it
		G, X := grpCodes[r.Intn(len(grpCodes))], leafCodes[r.Intn(len(leafCodes))]
		path := []uint32{G}
		if r.Chance(40) {
			path = append(path, grpCodes[r.Intn(len(grpCodes))])
		}
		var build func(level int) *diam.AVP
		build = func(level int) *diam.AVP {
			g := &diam.GroupedAVP{}
			for i, n := 0, r.Intn(3); i < n; i++ {
				g.AVP = append(g.AVP, mk(3))
			}
			if level == len(path)-1 {
				for i, n := 0, 1+r.Intn(2); i < n; i++ {
					serial++
					g.AVP = append(g.AVP, diam.NewAVP(X, 0x40, 0, datatype.Unsigned32(serial)))
				}
			} else {
				for i, n := 0, 1+r.Intn(2); i < n; i++ {
					g.AVP = append(g.AVP, build(level+1))
				}
			}
			for i, n := 0, r.Intn(3); i < n; i++ {
				g.AVP = append(g.AVP, mk(3))
			}
			serial++
			return diam.NewAVP(path[level], uint8(serial%2)*0x40, 0, g)
		}
		for i, n := 0, 2+r.Intn(2); i < n; i++ {
			as = append(as, build(0))
			if r.Bool() {
				as = append(as, mk(1))
			}
		}
		var cs []string
		for _, c := range append(path, X) {
			cs = append(cs, strconv.Itoa(int(c)))
		}
		ed := ""
		if r.Chance(30) {
			ed = fmt.Sprintf(" edit=%d", 1+r.Intn(3))
		}
		return fmt.Sprintf("codec find d=default app=0 %s q=path:%s%s", showAVPs(as), strings.Join(cs, "."), ed)
	}
	var codes []string
	k := 1
	if mode == "path" {
		k = r.Intn(4)
	}
	for i := 0; i < k; i++ {
		c := all[r.Intn(len(all))]
		if mode == "path" && i < k-1 && r.Chance(70) {
			c = grpCodes[r.Intn(len(grpCodes))]
		}
		codes = append(codes, strconv.Itoa(int(c)))
	}
	line := fmt.Sprintf("codec find d=default app=0 %s q=%s:%s", showAVPs(as), mode, strings.Join(codes, "."))
	if r.Chance(30) && k > 0 { // query by name
		var names []string
		for _, c := range codes {
			n, _ := strconv.Atoi(c)
			if a, err := dict.Default.FindAVP(0, uint32(n)); err == nil && r.Chance(70) {
				names = append(names, a.Name)
			} else {
				names = append(names, "")
			}
		}
		line += " names=" + strings.Join(names, ",")
	}
	if k > 0 && r.Chance(30) { // the tree is edited between two queries
		line += fmt.Sprintf(" edit=%d", 1+r.Intn(3))
	} else if r.Chance(10) && mode != "path" {
		// a wide message: dozens of groups that do not hold the code in front of the one that does
		var wide []*diam.AVP
		for i, n := 0, 28+r.Intn(12); i < n; i++ {
			g := &diam.GroupedAVP{}
			if r.Bool() {
				g.AVP = append(g.AVP, diam.NewAVP(3000777, 0, 0, datatype.Unsigned32(uint32(i))))
			}
			wide = append(wide, diam.NewAVP(grpCodes[r.Intn(len(grpCodes))], 0x40, 0, g))
		}
		as2 := append(wide, as...)
		line = fmt.Sprintf("codec find d=default app=0 %s q=%s:%s", showAVPs(as2), mode, strings.Join(codes, "."))
	} else if r.Chance(25) {
		// the same grouped AVP twice: once more at the top level and once more inside a new group
		for _, a := range as {
			if _, ok := a.Data.(*diam.GroupedAVP); ok {
				wrap := diam.NewAVP(grpCodes[r.Intn(len(grpCodes))], 0x40, 0, &diam.GroupedAVP{AVP: []*diam.AVP{a}})
				as2 := append(append([]*diam.AVP{}, as...), a, wrap)
				line = fmt.Sprintf("codec find d=default app=0 %s q=%s:%s share=1", showAVPs(as2), mode, strings.Join(codes, "."))
				break
			}
		}
	}
	return line
}
