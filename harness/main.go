// harness: runs the real go-diameter code in-process on generated or replayed inputs and
// prints one correspondence line per case: "<domain> <op> <input> => <canonical output>".
//
//	harness gen <domain> <op> <n> <seed>     write <n> input lines (left-hand sides) to stdout
//	harness run                              read left-hand sides on stdin, execute, print full lines
//	harness both <domain> <op> <n> <seed>    gen | run in one process
package main

import (
	"bufio"
	"fmt"
	"io"
	"log"
	"os"
	"strconv"
	"strings"
)

func execLine(lhs string) (out string) {
	defer func() {
		if r := recover(); r != nil {
			out = "harness-panic:" + strings.ReplaceAll(fmt.Sprint(r), " ", "_")
		}
	}()
	toks := strings.Fields(lhs)
	if len(toks) < 2 {
		return "badinput"
	}
	switch toks[0] + " " + toks[1] {
	case "codec decode":
		return execDecode(toks)
	case "codec build":
		return execBuild(toks)
	case "codec answer":
		return execAnswer(toks)
	case "codec find":
		return execFind(toks)
	}
	if f, ok := executors[toks[0]+" "+toks[1]]; ok {
		return f(toks)
	}
	return "badinput"
}

var executors = map[string]func([]string) string{}
var generators = map[string]func(r *RNG, n int, op string, emit func(string)){}

func init() { generators["codec"] = genCodec }

func main() {
	log.SetOutput(io.Discard) // the library logs recovered panics and accept errors
	if len(os.Args) < 2 {
		fmt.Fprintln(os.Stderr, "usage: harness gen|run|both ...")
		os.Exit(2)
	}
	w := bufio.NewWriterSize(os.Stdout, 1<<20)
	defer w.Flush()
	switch os.Args[1] {
	case "child":
		childMain(os.Args[2:])
		return
	case "gen", "both":
		if len(os.Args) < 6 {
			fmt.Fprintln(os.Stderr, "usage: harness gen <domain> <op> <n> <seed>")
			os.Exit(2)
		}
		n, _ := strconv.Atoi(os.Args[4])
		seed, _ := strconv.ParseUint(os.Args[5], 10, 64)
		g, ok := generators[os.Args[2]]
		if !ok {
			fmt.Fprintln(os.Stderr, "unknown domain", os.Args[2])
			os.Exit(2)
		}
		r := NewRNG(seed)
		both := os.Args[1] == "both"
		g(r, n, os.Args[3], func(lhs string) {
			if both {
				fmt.Fprintf(w, "%s => %s\n", lhs, execLine(lhs))
			} else {
				fmt.Fprintln(w, lhs)
			}
		})
	case "run":
		sc := bufio.NewScanner(os.Stdin)
		sc.Buffer(make([]byte, 1<<20), 1<<28)
		for sc.Scan() {
			lhs := strings.TrimSpace(sc.Text())
			if lhs == "" || strings.HasPrefix(lhs, "#") {
				continue
			}
			if i := strings.Index(lhs, " => "); i >= 0 {
				lhs = lhs[:i]
			}
			fmt.Fprintf(w, "%s => %s\n", lhs, execLine(lhs))
			// flushed line by line: when the process dies (a panic in a goroutine nobody recovers,
			// a fatal runtime error) the first unanswered line is the one being executed
			w.Flush()
		}
	default:
		fmt.Fprintln(os.Stderr, "unknown subcommand")
		os.Exit(2)
	}
}
