package main

import (
	"errors"
	"io"
	"net"
	"runtime"
	"strings"
	"sync"
	"time"
)

// memConn: an in-memory, scriptable net.Conn. Reads block until data, peer EOF, a read error or
// Close; every transport Write is recorded; a write hook can stall, split or fail writes.
type memConn struct {
	mu     sync.Mutex
	cond   *sync.Cond
	inbox  [][]byte
	rdEOF  bool
	rdErr  error
	closed bool

	written     [][]byte
	writeHook   func(c *memConn, b []byte) (int, error)
	blocked     int // goroutines currently blocked in Read
	reads       int
	closes      int
	local       net.Addr
	remote      net.Addr
	timeouts    int  // pending timeout errors to return from Read before data
	coalesce    bool // the last data of the stream is returned together with the EOF / read error
	tag         string
	serveID     string
	closedReads int // Reads that found the transport closed: the reader has got to the end of what was buffered

	honourDeadlines bool
	rdDeadline      time.Time
}

type memAddr struct{ net, s string }

func (a memAddr) Network() string { return a.net }
func (a memAddr) String() string  { return a.s }

func newMemConn() *memConn {
	c := &memConn{local: memAddr{"tcp", "10.1.2.3:3868"}, remote: memAddr{"tcp", "10.9.9.9:49152"}}
	c.cond = sync.NewCond(&c.mu)
	return c
}

type timeoutErr struct{}

func (timeoutErr) Error() string   { return "i/o timeout" }
func (timeoutErr) Timeout() bool   { return true }
func (timeoutErr) Temporary() bool { return true }

var errMemClosed = errors.New("use of closed network connection")
var errMemRead = errors.New("scripted read error")

func (c *memConn) Read(p []byte) (int, error) {
	c.mu.Lock()
	defer c.mu.Unlock()
	c.reads++
	for {
		if c.closed {
			c.closedReads++
			return 0, errMemClosed
		}
		if c.timeouts > 0 {
			c.timeouts--
			return 0, timeoutErr{}
		}
		if len(c.inbox) > 0 {
			n := copy(p, c.inbox[0])
			if n == len(c.inbox[0]) {
				c.inbox = c.inbox[1:]
				if c.coalesce && len(c.inbox) == 0 {
					// io.Reader allows n > 0 together with the error (crypto/tls does it)
					if c.rdErr != nil {
						return n, c.rdErr
					}
					if c.rdEOF {
						return n, io.EOF
					}
				}
			} else {
				c.inbox[0] = c.inbox[0][n:]
			}
			return n, nil
		}
		if c.rdErr != nil {
			return 0, c.rdErr
		}
		if c.rdEOF {
			return 0, io.EOF
		}
		if c.honourDeadlines && !c.rdDeadline.IsZero() {
			d := time.Until(c.rdDeadline)
			if d <= 0 {
				return 0, timeoutErr{}
			}
			// wake this reader up when the deadline passes
			t := time.AfterFunc(d, func() { c.mu.Lock(); c.cond.Broadcast(); c.mu.Unlock() })
			c.blocked++
			c.cond.Wait()
			c.blocked--
			t.Stop()
			continue
		}
		c.blocked++
		c.cond.Wait()
		c.blocked--
	}
}

func (c *memConn) Write(b []byte) (int, error) {
	c.mu.Lock()
	if c.closed {
		c.mu.Unlock()
		return 0, errMemClosed
	}
	hook := c.writeHook
	c.mu.Unlock()
	if hook != nil {
		return hook(c, b)
	}
	c.record(b)
	return len(b), nil
}

func (c *memConn) record(b []byte) {
	c.mu.Lock()
	c.written = append(c.written, append([]byte(nil), b...))
	c.cond.Broadcast()
	c.mu.Unlock()
}

func (c *memConn) Close() error {
	c.mu.Lock()
	c.closed = true
	c.closes++
	c.cond.Broadcast()
	c.mu.Unlock()
	return nil
}

func (c *memConn) LocalAddr() net.Addr                { return c.local }
func (c *memConn) RemoteAddr() net.Addr               { return c.remote }
func (c *memConn) SetDeadline(t time.Time) error      { return nil }

// SetReadDeadline: a Read that finds nothing to return gives up with a timeout error at t
// (only for connections that ask for it with honourDeadlines; the others wait for their script)
func (c *memConn) SetReadDeadline(t time.Time) error {
	c.mu.Lock()
	c.rdDeadline = t
	c.cond.Broadcast()
	c.mu.Unlock()
	return nil
}
func (c *memConn) SetWriteDeadline(t time.Time) error { return nil }

// peer side
func (c *memConn) deliver(b []byte) {
	if len(b) == 0 {
		return
	}
	c.mu.Lock()
	c.inbox = append(c.inbox, append([]byte(nil), b...))
	c.cond.Broadcast()
	c.mu.Unlock()
}
func (c *memConn) peerEOF()             { c.mu.Lock(); c.rdEOF = true; c.cond.Broadcast(); c.mu.Unlock() }
func (c *memConn) readError(e error)    { c.mu.Lock(); c.rdErr = e; c.cond.Broadcast(); c.mu.Unlock() }
func (c *memConn) timeout()             { c.mu.Lock(); c.timeouts++; c.cond.Broadcast(); c.mu.Unlock() }
func (c *memConn) isClosed() bool       { c.mu.Lock(); defer c.mu.Unlock(); return c.closed }
func (c *memConn) readerSawClose() bool { c.mu.Lock(); defer c.mu.Unlock(); return c.closedReads > 0 }
func (c *memConn) allWritten() []byte {
	c.mu.Lock()
	defer c.mu.Unlock()
	var out []byte
	for _, w := range c.written {
		out = append(out, w...)
	}
	return out
}

// writtenMsgs: what the transport was given, cut into messages by declared length
func (c *memConn) writtenMsgs() [][]byte {
	log := c.allWritten()
	var out [][]byte
	for o := 0; o+20 <= len(log); {
		l := int(log[o+1])<<16 | int(log[o+2])<<8 | int(log[o+3])
		if l < 20 || o+l > len(log) {
			break
		}
		out = append(out, log[o:o+l])
		o += l
	}
	return out
}
func (c *memConn) nWrites() int { c.mu.Lock(); defer c.mu.Unlock(); return len(c.written) }

// idle: every byte delivered has been taken and a reader is parked (or the conn is finished)
func (c *memConn) readerParked() bool {
	c.mu.Lock()
	defer c.mu.Unlock()
	return c.closed || (len(c.inbox) == 0 && c.blocked > 0)
}

// waitFor polls cond until it holds (stable twice) or the timeout expires.
func waitFor(cond func() bool, timeout time.Duration) bool {
	deadline := time.Now().Add(timeout)
	stable := 0
	for time.Now().Before(deadline) {
		if cond() {
			stable++
			if stable >= 3 {
				return true
			}
		} else {
			stable = 0
		}
		runtime.Gosched()
		time.Sleep(200 * time.Microsecond)
	}
	return cond()
}

// libGoroutines counts goroutines with a go-diameter frame on their stack (the library's own:
// reader loops, close-notifier copiers, watchdogs), excluding the harness' frames-only ones.
func libGoroutines(match string) int {
	buf := make([]byte, 1<<20)
	n := runtime.Stack(buf, true)
	cnt := 0
	for _, g := range strings.Split(string(buf[:n]), "\n\n") {
		if strings.Contains(g, "github.com/fiorix/go-diameter/v4/diam") && strings.Contains(g, match) {
			cnt++
		}
	}
	return cnt
}
