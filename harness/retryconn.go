package main

// retry conn: Message.WriteToWithRetry on a diam.Conn (C07 A through the library's own writer:
// response.Write over the connection's bufio.Writer), then one more message on the same
// connection.
//
//   retry conn r=<n> outs=<k:e,..> b=<hex> => acc=<hex> n=<n> err=<nil|temp|perm> post=<nil|err>:<hex>
//
// The transport obeys the io.Writer contract whatever the script says: "-" accepts everything;
// an error comes with min(k, len) octets accepted; a script that has run out accepts everything.

import (
	"encoding/hex"
	"fmt"
	"strconv"
	"strings"
	"sync"
	"time"

	"github.com/fiorix/go-diameter/v4/diam"
	"github.com/fiorix/go-diameter/v4/diam/datatype"
	"github.com/fiorix/go-diameter/v4/diam/dict"
)

var retryConnPost = func() []byte {
	m := diam.NewMessage(280, 0, 0, 7, 7, dict.Default)
	m.NewAVP(268, 0x40, 0, datatype.Unsigned32(2001))
	b, _ := m.Serialize()
	return b
}()

func execRetryConn(toks []string) string {
	rS, _ := kvGet(toks, "r")
	outsS, _ := kvGet(toks, "outs")
	bS, _ := kvGet(toks, "b")
	r, _ := strconv.Atoi(rS)
	b, err := hex.DecodeString(bS)
	if err != nil {
		return "badinput"
	}
	var outs []outcome
	if outsS != "-" && outsS != "" {
		for _, t := range strings.Split(outsS, ",") {
			p := strings.Split(t, ":")
			if len(p) != 2 {
				return "badinput"
			}
			k, _ := strconv.Atoi(p[0])
			outs = append(outs, outcome{k, p[1][0]})
		}
	}
	m, rerr := diam.ReadMessage(bytesReader(b), dict.Default)
	if rerr != nil {
		return "badinput:" + rerr.Error()
	}
	mc := newMemConn()
	var mu sync.Mutex
	var acc []byte
	mc.writeHook = func(c *memConn, p []byte) (int, error) {
		mu.Lock()
		defer mu.Unlock()
		if len(outs) == 0 {
			acc = append(acc, p...)
			return len(p), nil
		}
		o := outs[0]
		outs = outs[1:]
		if o.err != 't' && o.err != 'p' {
			acc = append(acc, p...)
			return len(p), nil
		}
		k := o.k
		if k > len(p) {
			k = len(p)
		}
		acc = append(acc, p[:k]...)
		if o.err == 't' {
			return k, scriptedErr{temp: true}
		}
		return k, permErr{}
	}
	c, err := diam.NewConn(mc, "mem", diam.HandlerFunc(func(diam.Conn, *diam.Message) {}), dict.Default)
	if err != nil {
		return "err"
	}
	defer mc.Close()
	waitFor(mc.readerParked, time.Second)
	cls := func(e error) string {
		if e == nil {
			return "nil"
		}
		if ne, ok := e.(interface{ Temporary() bool }); ok && ne.Temporary() {
			return "temp"
		}
		return "perm"
	}
	var n int64
	var werr error
	if g := guard(func() { n, werr = m.WriteToWithRetry(c, uint(r)) }); g != "" {
		return g
	}
	mu.Lock()
	first := append([]byte(nil), acc...)
	acc = nil
	mu.Unlock()
	pm, _ := diam.ReadMessage(bytesReader(retryConnPost), dict.Default)
	var perr error
	if g := guard(func() { _, perr = pm.WriteTo(c) }); g != "" {
		return g
	}
	mu.Lock()
	second := append([]byte(nil), acc...)
	mu.Unlock()
	pc := "nil"
	if perr != nil {
		pc = "err"
	}
	return fmt.Sprintf("acc=%s n=%d err=%s post=%s:%s", hexOrDash(first), n, cls(werr), pc, hexOrDash(second))
}

func genRetryConn(r *RNG, n int, emit func(string)) {
	for i := 0; i < n; i++ {
		var b []byte
		switch r.Intn(5) {
		case 0:
			b = sizedSmall(r)
		case 1:
			b = sizedMessage(r, []int{1000, 1044, 2048}[r.Intn(3)])
		default: // around and above the 4096-octet buffer of the connection's bufio.Writer
			b = sizedMessage(r, []int{4080, 4092, 4096, 4100, 4104, 5000, 6000, 8192, 8200, 12300}[r.Intn(10)])
		}
		b = stableImage(b)
		ret := r.Intn(4)
		rem := len(b)
		var outs []string
		for j, k := 0, r.Intn(5); j < k; j++ {
			e := "tttp-"[r.Intn(5)]
			acc := 0
			switch r.Intn(4) {
			case 0:
				acc = 0
			case 1:
				acc = rem
			default:
				acc = r.Intn(rem + 1)
			}
			outs = append(outs, fmt.Sprintf("%d:%c", acc, e))
		}
		o := strings.Join(outs, ",")
		if o == "" {
			o = "-"
		}
		emit(fmt.Sprintf("retry conn r=%d outs=%s b=%s", ret, o, hex.EncodeToString(b)))
	}
}

func init() {
	executors["retry conn"] = execRetryConn
}
