import Driver.Util
import Driver.DictRt
import Driver.Codec
import Model.Mux
import Spec.Dispatch
/-! Driver.Mux — the `mux` correspondence domain (C09). -/
namespace DV.Drv
open DV.Spec

def parseReg (i : Intern) (t : String) : Intern × Option Reg :=
  match t.splitOn ":" with
  | ["a", h] => (i, h.toNat?.map Reg.all)
  | ["n", name, h] =>
    if name = "ALL" then (i, h.toNat?.map Reg.all) else
    let cs := name.toList
    let last := cs.getLast?.getD ' '
    if last = 'R' ∨ last = 'A' then
      let (i', s) := i.get (String.ofList cs.dropLast)
      (i', h.toNat?.map (Reg.name s (if last = 'R' then 0 else 1)))
    else
      let (i', s) := i.get name
      (i', h.toNat?.map (Reg.name s 2))
  | ["i", a, c, r, h] =>
    (i, match a.toNat?, c.toNat?, h.toNat? with
        | some a, some c, some h => some (Reg.idx a c (r = "R") h)
        | _, _, _ => none)
  | _ => (i, none)

def showDispatch : Dispatch → String
  | .handler h => s!"h{h}"
  | .report => "report"

/-- `mux dispatch regs=<..> msg=<app>:<code>:<R|A> => h<N> | report` -/
def judgeMux (d : DictRt) (i : Intern) (regsTok msgTok : String) (impl : List String) : Intern × Judged :=
  let (i', regs) := (regsTok.splitOn ",").foldl (fun (acc : Intern × List Reg) t =>
      if t = "-" ∨ t = "" then acc else
      let (i2, r) := parseReg acc.1 t
      (i2, match r with | some r => acc.2 ++ [r] | none => acc.2)) (i, [])
  match msgTok.splitOn ":" with
  | [a, c, r] =>
    let app := a.toNat?.getD 0
    let code := c.toNat?.getD 0
    let req := r = "R"
    let short := (d.findCommand app code).map (·.short)
    let m := (Mux.ofRegs regs).dispatch short app code req
    let s := Spec.dispatch regs short app code req
    let implOut := impl.headD ""
    (i', { model := showDispatch m,
           fails := if implOut ≠ showDispatch s then [s!"C09:dispatch-differs:{implOut}-instead-of-{showDispatch s}"] else [],
           tags := [s!"regs={regs.length} cmd={if short.isSome then "known" else "unknown"} out={(showDispatch s).take 1}"] })
  | _ => (i', { model := "badline" })

/-- `mux seq ops=<reg|d:app:code:R,...> => <out>,<out>,...`: registrations and dispatches interleaved
    on one mux (registering a key again after it was used must still replace the handler) -/
def judgeMuxSeq (d : DictRt) (i : Intern) (opsTok : String) (impl : List String) : Intern × Judged :=
  -- `p:` is a dispatch whose handler panics (recovered by the caller, as conn.serve does): the
  -- decision is the same, marked `!`; the first registration after it must go through (`+`):
  -- `ServeDIAM` releases its read lock however the handler returns (C15_mux_lock)
  let mark := fun (outs : List String) => match outs.reverse with
    | last :: rest => if last.endsWith "!" then ((last ++ "+") :: rest).reverse else outs
    | [] => outs
  let step := fun (acc : Intern × List Reg × List String × List String) (t : String) =>
    let (i0, regs, mouts, souts) := acc
    match t.splitOn ":" with
    | [k, a, c, r] =>
      if k = "d" ∨ k = "p" then
        let app := a.toNat?.getD 0
        let code := c.toNat?.getD 0
        let req := r = "R"
        let short := (d.findCommand app code).map (·.short)
        let bang := fun (x : String) => if k = "p" ∧ x ≠ "report" then x ++ "!" else x
        (i0, regs, mouts ++ [bang (showDispatch ((Mux.ofRegs regs).dispatch short app code req))],
          souts ++ [bang (showDispatch (Spec.dispatch regs short app code req))])
      else
        let (i1, r) := parseReg i0 t
        (i1, (match r with | some r => regs ++ [r] | none => regs), mark mouts, mark souts)
    | _ =>
      let (i1, r) := parseReg i0 t
      (i1, (match r with | some r => regs ++ [r] | none => regs), mark mouts, mark souts)
  let (i', regs, mouts, souts) := (opsTok.splitOn ",").foldl step (i, [], [], [])
  let implOut := impl.headD ""
  (i', { model := ",".intercalate mouts,
         fails := (if implOut ≠ ",".intercalate souts then ["C09:dispatch-sequence-differs"] else []) ++
                  (if (implOut.splitOn ",").contains "registration-stuck" then ["C09:registration-blocked-after-a-handler-panicked", "C15:mux-lock-held-after-a-handler-panicked"] else []),
         tags := [s!"seq regs={regs.length} dispatches={souts.length}{if (opsTok.splitOn ",").any (·.startsWith "p:") then " panics" else ""}"] })

end DV.Drv
