import Driver.Util
import Driver.DictRt
import Driver.Codec
import Model.Conn
import Model.Listener
import Model.ConnWrite
import Gen
/-! Driver.Conn — the `conn serve` correspondence domain (C08, C14, C15, C05 over a connection). -/
namespace DV.Drv

def showChan : Chan → String
  | .none => "none" | .open => "open" | .closed => "closed"

/-- snapshot of one connection as the harness can observe it -/
def snapshot (s : CN) : String :=
  let ids := ".".intercalate (s.handed.map (fun m => toString m.hdr.hbh))
  s!"{showChan s.chan},{if ids = "" then "-" else ids},{s.active},{if s.reader = .exited then "x" else "r"}{if s.copier = .reading ∨ s.copier = .writing then "c" else "-"},{if s.closed then "closed" else "open"},{s.reports}"

/-- an event of the script: on connection `k`, or a handler registration on the shared mux -/
inductive ScriptEv where
  | conn (k : Nat) (e : CEv)
  | register

def parseConnEv (t : String) : Option ScriptEv :=
  match t.splitOn ":" with
  | [c, e] =>
    let k := c.toNat?.getD 0
    if e = "E" then some (.conn k .peerEof)
    else if e = "R" then some (.conn k .readErr)
    else if e = "Y" then some (.conn k .readErr)   -- a temporary, non-timeout read error: any failed Read ends the connection
    else if e = "T" then some (.conn k .readTimeout)
    else if e = "L" then some (.conn k .localClose)
    else if e = "N" then some (.conn k .requestCN)
    else if e = "H" then some (.conn k .handlerReturn)
    else if e = "P" then some (.conn k .handlerPanic)
    else if e = "M" then some .register
    else if e.startsWith "D" then (fromHex (e.drop 1).toString).map (fun b => .conn k (CEv.deliver b))
    else none
  | _ => none

/-- `conn serve n=<conns> [h=mux] [x=1] ev=<c:E,c:D<hex>,...> => <snap0>|<snap1>.. ; ...` (one group per event).
    `x=1`: the transport returns its last bytes together with the EOF / error (`CN.coal`).
    `h=mux` (handlers reached through a shared `ServeMux`) does not change what the model
    predicts: that it makes no difference is part of what is being checked. -/
def judgeConn (d : DictRt) (n : Nat) (useMux coal : Bool) (evTok : String) (impl : List String) (mux2 : Bool := false) : Judged :=
  let dfn := d.dictFn
  -- `h=mux2`: only Device-Watchdog requests have a handler; any other message is reported by the
  -- mux and the reader goes on at once - in the model: its handler returns immediately
  let handled := fun (m : Msg) => ¬ mux2 ∨ (m.hdr.cmd = 280 ∧ isRequest m.hdr.flags)
  let rec skipUnhandled (fuel : Nat) (s : CN) : CN :=
    match fuel with
    | 0 => s
    | fuel+1 =>
      if s.reader = .inHandler then
        match s.handed.getLast? with
        | some m =>
          if handled m then s else
          match s.step dfn .handlerReturn with
          | some s1 => skipUnhandled fuel (CN.settle dfn 200 s1)
          | none => s
        | none => s
      else s
  let snap := fun (s : CN) =>
    if mux2 then
      let ids := ".".intercalate ((s.handed.filter handled).map (fun m => toString m.hdr.hbh))
      s!"{showChan s.chan},{if ids = "" then "-" else ids},{s.active},{if s.reader = .exited then "x" else "r"}{if s.copier = .reading ∨ s.copier = .writing then "c" else "-"},{if s.closed then "closed" else "open"},*"
    else snapshot s
  let evs := (evTok.splitOn ",").filterMap parseConnEv
  let init : List CN := List.replicate n (CN.settle dfn 10 { coal := coal })
  let (_, outs, skipped, maxAct, chanBad) := evs.foldl (fun (acc : List CN × List String × Nat × Nat × List String) (ev : ScriptEv) =>
      let (conns, outs, skipped, mx, bad) := acc
      match ev with
      | .register =>
        -- a registration takes the mux write lock: possible only while no handler runs; it
        -- changes nothing on any connection
        if useMux ∧ conns.all (fun s => s.active = 0) then (conns, outs ++ ["|".intercalate (conns.map snap)], skipped, mx, bad)
        else (conns, outs ++ ["skip"], skipped + 1, mx, bad)
      | .conn k e =>
      match conns[k]? with
      | none => (conns, outs, skipped + 1, mx, bad)
      | some s =>
        match s.step dfn e with
        | none => (conns, outs ++ ["skip"], skipped + 1, mx, bad)
        | some s1 =>
          let s2 := skipUnhandled 50 (CN.settle dfn 200 s1)
          let conns' := conns.set k s2
          let bad' := if s2.closes > 1 then bad ++ ["closed-twice"] else if s2.chan = .closed ∧ ¬ s2.terminated then bad ++ ["closed-while-alive"] else bad
          (conns', outs ++ ["|".intercalate (conns'.map snap)], skipped, max mx s2.maxActive, bad')) (init, [], 0, 0, [])
  let out := " ; ".intercalate outs
  let implOut := " ".intercalate impl
  -- Spec verdicts on the implementation's own snapshots
  let implSnaps := (implOut.splitOn " ; ").map (fun g => g.splitOn "|")
  let modelSnaps := outs.map (fun g => g.splitOn "|")
  let hasTimeout := evs.any (fun e => match e with | .conn _ .readTimeout => true | _ => false)
  let hasPanic := evs.any (fun e => match e with | .conn _ .handlerPanic => true | _ => false)
  let hasCN := evs.any (fun e => match e with | .conn _ .requestCN => true | _ => false)
  Id.run do
    let mut fails : List String := []
    let field := fun (snap : String) (i : Nat) => (snap.splitOn ",").getD i ""
    -- C08: never two handlers active on a connection; handed sequence = model's (arrival order)
    for g in implSnaps do
      for sn in g do
        if sn = "regblocked" then
          fails := (if hasPanic then "C15:mux-unusable-after-handler-panic" else "C08:mux-registration-blocked") :: fails
        else if sn ≠ "skip" ∧ (field sn 2).toNat?.getD 0 > 1 then fails := "C08:two-handlers-active-on-one-connection" :: fails
    if implSnaps.length = modelSnaps.length then
      for (gi, gm) in implSnaps.zip modelSnaps do
        for (si, smm) in gi.zip gm do
          if si ≠ smm ∧ si ≠ "skip" ∧ smm ≠ "skip" then
            if field si 1 ≠ field smm 1 then
              fails := (if (field smm 1).startsWith (field si 1) ∨ field si 1 = "-" then "C08:message-not-dispatched-or-delayed" else "C08:handler-order-or-messages-differ") :: fails
              if mux2 then fails := "C15:fault-on-one-connection-stalls-dispatch" :: fails
              if hasCN then fails := "C14:inbound-message-lost-or-reordered-after-closenotify-request" :: fails
              if hasTimeout then fails := "C05:framing-lost-after-failed-read" :: fails
            else if field si 0 ≠ field smm 0 then
              fails := (if field smm 0 = "closed" then "C14:close-notify-did-not-fire" else if field si 0 = "closed" then "C14:close-notify-fired-early-or-unrequested" else "C14:channel-state-differs") :: fails
            else if field si 3 ≠ field smm 3 then
              fails := (if (field smm 3).startsWith "x" ∧ (field si 3).startsWith "r" then "C14:reader-goroutine-still-alive" else if (field si 3).endsWith "c" then "C14:copier-goroutine-still-alive" else "C14:goroutines-differ") :: fails
              if hasTimeout then fails := "C05:connection-continues-after-failed-read" :: fails
            else if field si 4 ≠ field smm 4 then
              fails := (if field smm 4 = "closed" then "C15:faulty-connection-not-closed" else "C15:connection-closed-unexpectedly") :: fails
              if hasTimeout then fails := "C05:connection-continues-after-failed-read" :: fails
            else if field si 5 ≠ field smm 5 then fails := "C15:error-report-count-differs" :: fails
            else fails := "C08:snapshot-differs" :: fails
    else if implOut ≠ out then fails := "C08:event-count-differs" :: fails
    return { model := out, fails := fails.reverse.eraseDups.take 4,
             tags := [s!"conns={n} events={evs.length} skipped={skipped} maxActive={maxAct}{if useMux then " mux" else ""}"] ++ chanBad }

/-- `conn accept ev=A,T,F,U,P,... => A:served=1,run ; T:ms=5,run ; P:stopped,lclosed=1 ; ... ; alive=k/n`.
    Sleeps are compared as ranges: `time.Sleep(d)` lasts at least `d`; the upper slack covers
    scheduling on a loaded machine. -/
def judgeAccept (evTok : String) (impl : List String) (hold : Bool := false) : Judged :=
  let evs := evTok.splitOn ","
  let implOut := " ".intercalate impl
  let groups := implOut.splitOn " ; "
  let step := fun (acc : LS × List String × List String) (eg : String × String) =>
    let (s, outs, fails) := acc
    let (e, g) := eg
    let ev : Option LEv := if e = "A" ∨ e = "S" then some .acceptOk else if e = "T" ∨ e = "F" ∨ e = "U" then some .acceptTemp else if e = "P" then some .acceptPerm else none
    match ev with
    | none =>
      -- X: a peer leaves; nothing to do with the listener (the harness reports that it did it)
      if e = "X" then (s, outs ++ [g], fails) else (s, outs, fails)
    | some ev =>
      match s.step ev with
      | none => (s, outs ++ ["skip"], if g = "skip" then fails else fails ++ ["C15:listener-state-differs"])
      | some s' =>
        match ev with
        | .acceptOk =>
          if e = "S" then
            -- a peer that never starts its TLS handshake: the accept loop goes on all the same
            (s', outs ++ ["S:run"], if g = "S:run" then fails else fails ++ ["C15:silent-peer-stalls-the-accept-loop"])
          else
          let want := s!"A:served=1,run"
          (s', outs ++ [want], if g = want then fails else fails ++ [if g.startsWith "A:served=0" then "C15:accepted-connection-not-served" else "C15:server-stopped-accepting"])
        | .acceptTemp =>
          let d := s'.delay
          let want := s!"{e}:ms={d},run"
          let ok : Bool := match (g.splitOn ":ms=") with
            | [e', rest] =>
              (match rest.splitOn "," with
               | [ms, st] => e' == e && st == "run" && (match ms.toNat? with | some m => decide (d ≤ m + 1 ∧ m ≤ 2 * d + 400) | none => false)
               | _ => false)
            | _ => false
          (s', outs ++ [if ok then g else want], if ok then fails else fails ++ [if g.endsWith ",run" then "C15:accept-backoff-differs" else "C15:transient-accept-error-stops-server"])
        | .acceptPerm =>
          let want := "P:stopped,lclosed=1"
          (s', outs ++ [want], if g = want then fails else fails ++ ["C15:permanent-accept-error-handling-differs"])
  let (s, outs, fails) := (evs.zip groups).foldl step ({}, [], [])
  let left := ((evs.zip groups).filter (fun p => (p.1 = "X" ∧ p.2 = "X:done") ∨ p.1 = "S")).length
  let wantAlive := s!"alive={s.spawned - left}/{s.spawned - left}"
  let lastG := groups.getLast?.getD ""
  let fails := if lastG = wantAlive then fails else fails ++ ["C15:accepted-connections-no-longer-served"]
  -- with a handler held on the first connection every one of these is also a C08 matter
  let fails := if hold ∧ ¬ fails.isEmpty then fails ++ ["C08:blocked-handler-stalls-other-connections-or-the-listener"] else fails
  let fails := if groups.length = evs.length + 1 then fails else fails ++ ["C15:event-count-differs"]
  { model := " ; ".intercalate (outs ++ [wantAlive]), fails := fails.eraseDups.take 4,
    tags := [s!"accept events={evs.length} spawned={s.spawned} temp={s.slept.length} maxsleep={s.slept.foldl max 0} stopped={!s.running}"] }

/-- `conn lw ev=O,Q0,X0E,W0,.. => res=ok,ok,.. | c0=<id.id> c1=..`: which transport the writes
    through each connection reach (message id = 1000 + index of the event). -/
def judgeConnLW (evTok : String) (impl : List String) : Judged :=
  let toks := (evTok.splitOn ",").filter (· ≠ "")
  let pooled := Gen.connBufferSources ≠ ["c.buf=bufio.NewReadWriter(bufio.NewReader(&c.sr),bufio.NewWriter(rwc))"]
  let numOf := fun (t : String) (dropLast : Bool) =>
    let body := (t.drop 1).toString
    let body := if dropLast then (body.take (body.length - 1)).toString else body
    body.toNat?
  -- run the model; remember through which connection each id was written
  let (S, res, via, _) := toks.foldl (fun (acc : OwSys × List String × List (Nat × Nat) × Nat) (t : String) =>
      let (S, res, via, i) := acc
      let id := 1000 + i
      let c0 := t.front
      if c0 = 'O' then ((S.step pooled .openConn).1, res ++ ["ok"], via, i + 1)
      else if c0 = 'X' then
        match numOf t true with
        | some k => let (S', r) := S.step pooled (.die k); (S', res ++ [if r = .ok then "ok" else "skip"], via, i + 1)
        | none => (S, res ++ ["skip"], via, i + 1)
      else if c0 = 'Q' then
        match numOf t false with
        | some k =>
          (match S.conns[k]? with
           | some c => if c.alive then
                let (S', r) := S.step pooled (.write k id)
                (S', res ++ [if r = .ok then "ok" else "err"], via ++ [(id, k)], i + 1)
              else (S, res ++ ["skip"], via, i + 1)
           | none => (S, res ++ ["skip"], via, i + 1))
        | none => (S, res ++ ["skip"], via, i + 1)
      else if c0 = 'W' then
        match numOf t false with
        | some k =>
          let (S', r) := S.step pooled (.write k id)
          (S', res ++ [match r with | .ok => "ok" | .err => "err" | .skip => "skip"], via ++ [(id, k)], i + 1)
        | none => (S, res ++ ["skip"], via, i + 1)
      else (S, res ++ ["skip"], via, i + 1)) (({} : OwSys), [], [], 0)
  let showWire := fun (j : Nat) (c : OwConn) =>
    s!"c{j}={if c.wire.isEmpty then "-" else ".".intercalate (c.wire.map (fun p => toString p.2))}"
  let wires := (List.range S.conns.length).filterMap (fun j => (S.conns[j]?).map (showWire j))
  let out := s!"res={",".intercalate res} | {if wires.isEmpty then "-" else " ".intercalate wires}"
  let implOut := " ".intercalate impl
  Id.run do
    let mut fails : List String := []
    -- Spec verdict on the implementation's own report: every transport holds only messages
    -- written through its own connection, whole
    for w in impl do
      match w.splitOn "=" with
      | [c, ids] =>
        if c.startsWith "c" ∧ ids ≠ "-" then
          let j := (c.drop 1).toString.toNat?.getD 0
          for t in ids.splitOn "." do
            match t.toNat? with
            | some id =>
              match via.find? (fun p => p.1 = id) with
              | some (_, k) => if k ≠ j then fails := "C07:message-reached-a-transport-it-was-not-written-to" :: "C15:write-through-one-connection-reaches-another-connection" :: fails
              | none => fails := "C15:transport-received-a-message-nobody-wrote" :: fails
            | none => fails := "C07:transport-received-malformed-or-partial-message" :: fails
      | _ => pure ()
    return { model := out, fails := (if fails.isEmpty ∧ implOut ≠ out then [] else fails.reverse.eraseDups.take 3),
             tags := [s!"lw conns={S.conns.length} events={toks.length} dead={(S.conns.filter (fun c => ¬ c.alive)).length} latewrites={(toks.filter (fun t => t.startsWith "W")).length}"] }

end DV.Drv
