import Driver.Util
import Driver.DictRt
import Driver.Codec
import Model.Conn
/-! Driver.Conn — the `conn serve` correspondence domain (C08, C14, C15, C05 over a connection). -/
namespace DV.Drv

def showChan : Chan → String
  | .none => "none" | .open => "open" | .closed => "closed"

/-- snapshot of one connection as the harness can observe it -/
def snapshot (s : CN) : String :=
  let ids := ".".intercalate (s.handed.map (fun m => toString m.hdr.hbh))
  s!"{showChan s.chan},{if ids = "" then "-" else ids},{s.active},{if s.reader = .exited then "x" else "r"}{if s.copier = .reading ∨ s.copier = .writing then "c" else "-"},{if s.closed then "closed" else "open"},{s.reports}"

def parseConnEv (t : String) : Option (Nat × CEv) :=
  match t.splitOn ":" with
  | [c, e] =>
    let k := c.toNat?.getD 0
    if e = "E" then some (k, .peerEof)
    else if e = "R" then some (k, .readErr)
    else if e = "L" then some (k, .localClose)
    else if e = "N" then some (k, .requestCN)
    else if e = "H" then some (k, .handlerReturn)
    else if e = "P" then some (k, .handlerPanic)
    else if e.startsWith "D" then (fromHex (e.drop 1).toString).map (fun b => (k, CEv.deliver b))
    else none
  | _ => none

/-- `conn serve n=<conns> ev=<c:E,c:D<hex>,...> => <snap0>|<snap1>.. ; ...` (one group per event) -/
def judgeConn (d : DictRt) (n : Nat) (evTok : String) (impl : List String) : Judged :=
  let dfn := d.dictFn
  let evs := (evTok.splitOn ",").filterMap parseConnEv
  let init : List CN := List.replicate n (CN.settle dfn 10 {})
  let (_, outs, skipped, maxAct, chanBad) := evs.foldl (fun (acc : List CN × List String × Nat × Nat × List String) (ke : Nat × CEv) =>
      let (conns, outs, skipped, mx, bad) := acc
      let (k, e) := ke
      match conns[k]? with
      | none => (conns, outs, skipped + 1, mx, bad)
      | some s =>
        match s.step dfn e with
        | none => (conns, outs ++ ["skip"], skipped + 1, mx, bad)
        | some s1 =>
          let s2 := CN.settle dfn 200 s1
          let conns' := conns.set k s2
          let bad' := if s2.closes > 1 then bad ++ ["closed-twice"] else if s2.chan = .closed ∧ ¬ s2.terminated then bad ++ ["closed-while-alive"] else bad
          (conns', outs ++ ["|".intercalate (conns'.map snapshot)], skipped, max mx s2.maxActive, bad')) (init, [], 0, 0, [])
  let out := " ; ".intercalate outs
  let implOut := " ".intercalate impl
  -- Spec verdicts on the implementation's own snapshots
  let implSnaps := (implOut.splitOn " ; ").map (fun g => g.splitOn "|")
  let modelSnaps := outs.map (fun g => g.splitOn "|")
  Id.run do
    let mut fails : List String := []
    let field := fun (snap : String) (i : Nat) => (snap.splitOn ",").getD i ""
    -- C08: never two handlers active on a connection; handed sequence = model's (arrival order)
    for g in implSnaps do
      for sn in g do
        if sn ≠ "skip" ∧ (field sn 2).toNat?.getD 0 > 1 then fails := "C08:two-handlers-active-on-one-connection" :: fails
    if implSnaps.length = modelSnaps.length then
      for (gi, gm) in implSnaps.zip modelSnaps do
        for (si, smm) in gi.zip gm do
          if si ≠ smm ∧ si ≠ "skip" ∧ smm ≠ "skip" then
            if field si 1 ≠ field smm 1 then
              fails := (if (field smm 1).startsWith (field si 1) ∨ field si 1 = "-" then "C08:message-not-dispatched-or-delayed" else "C08:handler-order-or-messages-differ") :: fails
            else if field si 0 ≠ field smm 0 then
              fails := (if field smm 0 = "closed" then "C14:close-notify-did-not-fire" else if field si 0 = "closed" then "C14:close-notify-fired-early-or-unrequested" else "C14:channel-state-differs") :: fails
            else if field si 3 ≠ field smm 3 then
              fails := (if (field smm 3).startsWith "x" ∧ (field si 3).startsWith "r" then "C14:reader-goroutine-still-alive" else if (field si 3).endsWith "c" then "C14:copier-goroutine-still-alive" else "C14:goroutines-differ") :: fails
            else if field si 4 ≠ field smm 4 then
              fails := (if field smm 4 = "closed" then "C15:faulty-connection-not-closed" else "C15:connection-closed-unexpectedly") :: fails
            else if field si 5 ≠ field smm 5 then fails := "C15:error-report-count-differs" :: fails
            else fails := "C08:snapshot-differs" :: fails
    else if implOut ≠ out then fails := "C08:event-count-differs" :: fails
    return { model := out, fails := fails.reverse.eraseDups.take 3,
             tags := [s!"conns={n} events={evs.length} skipped={skipped} maxActive={maxAct}"] ++ chanBad }

end DV.Drv
