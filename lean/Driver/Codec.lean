import Driver.Util
import Driver.DictRt
import Model.Find
import Spec.Frame
import Spec.Rfc
import Spec.Wire
import Spec.Find
/-! Driver.Codec — the `codec` correspondence domain: model output, agreement, Spec verdicts. -/
namespace DV.Drv
open DV.Spec

/-- result of judging one line -/
structure Judged where
  model : String            -- the model's canonical output
  fails : List String := [] -- Spec verdicts on the implementation's output ("Cxx:cause")
  tags : List String := []  -- model branches exercised / input classes (for the evidence)
  nontrivial : Bool := true

def splitImpl (impl : String) : List String := impl.splitOn " " |>.filter (· ≠ "")

/-- classify why a well-formed wire message does not re-serialise to itself: find the first
    top-level position where re-encoding of the decoded AVP differs from the wire bytes. -/
partial def firstDiffAVP (ty : Nat → Nat → Nat) (as : List AVP) (body : Bytes) : Option (AVP × Bytes) :=
  match as with
  | [] => none
  | a :: r =>
    let w := pad4 a.length
    let wire := body.take w
    if a.enc ≠ wire then
      (match a with
       | .mk _ _ _ _ (.group kids) =>
         (match firstDiffAVP ty kids ((body.take a.length).drop (hdrLen a.flags)) with
          | some x => some x
          | none => some (a, wire))
       | _ => some (a, wire))
    else firstDiffAVP ty r (body.drop w)

def c01WireCause (a : AVP) (wire : Bytes) : String :=
  match a with
  | .mk _ f _ _ (.addr _) =>
    let p := (wire.drop (hdrLen f))
    let fam := rd (p.take 2)
    let plen := a.length - hdrLen f
    if fam = 2 then "C01:addr-family2-v4mapped"
    else if fam ≠ 1 ∧ plen = 16 then "C01:addr-otherfamily-len16"
    else if fam ≠ 1 ∧ plen = 4 then "C01:addr-otherfamily-len4"
    else "C01:wire-roundtrip:address"
  | .mk _ _ _ _ (.str t _) => s!"C01:wire-roundtrip:type{t}"
  | .mk _ _ _ _ (.fix t _) => s!"C01:wire-roundtrip:type{t}"
  | .mk _ _ _ _ (.time _) => "C01:wire-roundtrip:time"
  | .mk _ _ _ _ (.ip4 _) => "C01:wire-roundtrip:ipv4"
  | .mk _ _ _ _ (.ip6 _) => "C01:wire-roundtrip:ipv6"
  | .mk _ _ _ _ (.group _) => "C01:wire-roundtrip:grouped-header"

mutual
partial def depthOf : AVP → Nat
  | .mk _ _ _ _ (.group as) => 1 + depthL as
  | _ => 0
partial def depthL : List AVP → Nat
  | [] => 0
  | a :: r => max (depthOf a) (depthL r)
end

/-- `codec decode d=<dict> <hex> => ok <H> <tree> reser=<hex> insp=<..> | err | panic:<..>` -/
def judgeDecode (d : DictRt) (bs : Bytes) (impl : List String) : Judged :=
  let dfn := d.dictFn
  let m := decodeMsg dfn bs
  let modelOut := match m with
    | .ok msg => s!"ok {showHdr msg.hdr} {showAVPs msg.avps} reser={toHex msg.enc} insp=ok"
    | .err _ => "err"
    | .panic p => s!"panic:{p}"
  let implOk := impl.head? = some "ok"
  let implErr := impl.head? = some "err"
  let implPanic := (impl.head?.getD "").startsWith "panic"
  Id.run do
    let mut fails : List String := []
    let mut tags : List String := []
    -- C03
    if implPanic then fails := s!"C03:panic-decode:{impl.head?.getD ""}" :: fails
    match kv impl "insp" with
    | some v => if v ≠ "ok" then fails := s!"C03:panic-inspect:{v}" :: fails
    | none => pure ()
    -- C04
    if bs.length ≥ 20 then
      match decodeHeader (bs.take 20) with
      | .ok h =>
        if h.len ≥ 20 ∧ bs.length ≥ h.len ∧ cmdHasRules dfn h.app h.cmd h.flags then
          let body := (bs.drop 20).take (h.len - 20)
          let ty := dfn.avpType h.app
          match decodeByFrames ty (body.length + 1) body with
          | .ok as =>
            tags := s!"frames-ok depth={depthL as}" :: tags
            if implOk ∧ impl.getD 2 "" ≠ showAVPs as then
              fails := "C04:reported-avps-differ-from-length-walk" :: fails
            if implErr then fails := "C04:rejected-wellframed-body" :: fails
          | .err e =>
            tags := s!"frames-err:{e}" :: tags
            if implOk then fails := s!"C04:accepted-malformed-framing:{e}" :: fails
          | .panic _ => pure ()
        else tags := "header-rejects" :: tags
      | _ => pure ()
    else tags := "short" :: tags
    -- C01 wire direction
    if wfWire dfn bs then
      tags := "wfwire" :: tags
      let reser := (kv impl "reser").getD ""
      if ¬ implOk then fails := "C01:wellformed-message-rejected" :: fails
      else if reser ≠ toHex bs then
        let cause := match m with
          | .ok msg =>
            (match firstDiffAVP (dfn.avpType msg.hdr.app) msg.avps (bs.drop 20) with
             | some (a, wire) => c01WireCause a wire
             | none => "C01:wire-roundtrip")
          | _ => "C01:wire-roundtrip"
        -- a recorded finding is the behaviour the model exhibits; an image that differs from the
        -- model's as well is something else, even at one of the recorded Address shapes
        let cause := match m with
          | .ok msg => if reser = toHex msg.enc then cause else cause ++ ":image-differs-from-recorded-behaviour"
          | _ => cause
        fails := cause :: fails
    return { model := modelOut, fails := fails.reverse, tags := tags.reverse,
             nontrivial := m.isOk || bs.length ≥ 28 }

mutual
/-- forget the Length fields (C01 compares code, flags, vendor id, typed value, nesting) -/
partial def zeroLen : AVP → AVP
  | .mk c f _ v (.group as) => .mk c f 0 v (.group (zeroLenL as))
  | .mk c f _ v d => .mk c f 0 v d
partial def zeroLenL : List AVP → List AVP
  | [] => []
  | a :: r => zeroLen a :: zeroLenL r
end

/-- normalise an API value to what a read returns (Length filled, V bit set with a vendor id) -/
def opApply (m : Msg) (op : Char) (a : AVP) : Msg :=
  match a with
  | .mk c f _ v d =>
    let a' := newAVP c f v d
    if op = '^' then m.insertAVP a'
    else if op = 'M' then { m with hdr := { m.hdr with len := (20 + lenL [a']) % 4294967296 }, avps := [a'] }
    else m.addAVP a'

/-- `codec build d=<dict> ops=<+^..> <H> <tree> => ser=<hex> hlens=<..> rd=<ok|err|panic..> [<H> <tree>] reser=<hex>` -/
def judgeBuild (d : DictRt) (ops : String) (h : Header) (as : List AVP) (impl : List String) : Judged :=
  let dfn := d.dictFn
  let m0 := newMessage h.cmd h.flags h.app h.hbh h.e2e 0 0
  let (mFinal, hlensRev) := (ops.toList.zip as).foldl
    (fun (acc : Msg × List Nat) (p : Char × AVP) =>
      let m' := opApply acc.1 p.1 p.2
      (m', m'.hdr.len :: acc.2)) (m0, [])
  let hlens := hlensRev.reverse
  let ser := mFinal.enc
  let rd := decodeMsg dfn ser
  let rdOut := match rd with
    | .ok msg => s!"rd=ok {showHdr msg.hdr} {showAVPs msg.avps} reser={toHex msg.enc}"
    | .err _ => "rd=err"
    | .panic p => s!"rd=panic:{p}"
  let modelOut := s!"ser={toHex ser} hlens={",".intercalate (hlens.map toString)} sto=same wt=same {rdOut}"
  Id.run do
    let mut fails : List String := []
    let mut tags : List String := []
    let implSer := (kv impl "ser").getD ""
    let implHlens := (kv impl "hlens").getD ""
    let implRd := (kv impl "rd").getD ""
    let wf := wfMsg dfn h.flags h.cmd h.app h.hbh h.e2e mFinal.avps
    if implRd.startsWith "panic" ∨ implSer.startsWith "panic" then fails := "C03:panic-build" :: fails
    -- the image WriteTo puts on the transport is the image Serialize returns
    match kv impl "wt" with
    | some w =>
      if w ≠ "same" then
        fails := "C02:written-image-differs-from-serialised-image" :: "C01:written-image-not-reproduced-by-read-and-serialise" :: fails
    | none => pure ()
    -- ... and the image SerializeTo writes into a larger scratch buffer, with the message untouched
    match kv impl "sto" with
    | some w =>
      if w ≠ "same" then
        fails := "C02:serializeto-image-differs-from-serialised-image" :: "C01:serializeto-image-not-the-message-image" :: fails
    | none => pure ()
    if wf then
      tags := "wfmsg" :: tags
      -- C02: independent reference encoder
      let ref := Spec.encode h.flags h.cmd h.app h.hbh h.e2e mFinal.avps
      if implSer ≠ toHex ref then fails := "C02:wire-image-differs-from-rfc-reference" :: fails
      -- C02: header length bookkeeping after every operation
      let lastH := if implHlens = "" then "20" else (implHlens.splitOn ",").getLast?.getD ""
      if lastH ≠ toString (implSer.length / 2) then fails := "C02:header-length-not-serialised-size" :: fails
      if implHlens ≠ ",".intercalate (hlens.map toString) then fails := "C02:header-length-after-op" :: fails
      -- C01 API direction
      let expTree := showAVPs (zeroLenL mFinal.avps)
      let expHdr := showHdr { mFinal.hdr with len := ser.length }
      if implRd ≠ "ok" then fails := "C01:api-built-message-not-readable" :: fails
      else
        let hdrTok := impl.find? (·.startsWith "H(") |>.getD ""
        let treeTok := match (impl.find? (·.startsWith "[")).bind parseAVPs with
          | some t => showAVPs (zeroLenL t)
          | none => "unparsable"
        if hdrTok ≠ expHdr then fails := "C01:api-roundtrip-header" :: fails
        if treeTok ≠ expTree then
          fails := "C01:api-roundtrip-tree" :: fails
          -- C02, decode direction: the image equals the reference encoding, yet the typed values read differ
          if implSer = toHex ref then fails := "C02:values-read-from-reference-image-differ" :: fails
        if (kv impl "reser").getD "" ≠ implSer then fails := "C01:api-reserialise-differs" :: fails
    else tags := "not-wfmsg" :: tags
    tags := s!"depth={depthL mFinal.avps} n={mFinal.avps.length}" :: tags
    return { model := modelOut, fails := fails.reverse, tags := tags.reverse, nontrivial := wf }

/-- `codec answer <H> rc=<n> stream=<n> => <H> <tree> stream=<n>` -/
def judgeAnswer (h : Header) (rc stream : Nat) (impl : List String) : Judged :=
  let m : Msg := { hdr := h, avps := [] }
  let a := m.answer rc 111 222
  let modelOut := s!"{showHdr a.hdr} {showAVPs a.avps} stream={if (kv impl "stream") = some "none" then "none" else toString stream}"
  Id.run do
    let mut fails : List String := []
    match parseHdr (impl.getD 0 "") with
    | some ah =>
      if ah.cmd ≠ h.cmd then fails := "C16:command-code" :: fails
      if ah.app ≠ h.app then fails := "C16:application-id" :: fails
      if ah.hbh ≠ h.hbh then fails := (if h.hbh = 0 then "C16:hop-by-hop-zero" else "C16:hop-by-hop") :: fails
      if ah.e2e ≠ h.e2e then fails := (if h.e2e = 0 then "C16:end-to-end-zero" else "C16:end-to-end") :: fails
      if ah.flags / 128 % 2 = 1 then fails := "C16:request-bit-not-cleared" :: fails
      if ah.flags % 128 ≠ h.flags % 128 then fails := "C16:other-flags-changed" :: fails
    | none => fails := "C16:no-answer" :: fails
    let tree := impl.getD 1 ""
    if rc ≠ 0 ∧ ¬ tree.startsWith s!"[A(268,64,12,0,f16:{rc})" then fails := "C16:result-code-avp" :: fails
    if rc = 0 ∧ tree ≠ "[]" then fails := "C16:unexpected-avp" :: fails
    if (kv impl "stream") ≠ some "none" ∧ (kvNat impl "stream") ≠ some stream then fails := "C16:stream-not-mirrored" :: fails
    if (kv impl "msgstream").isSome then fails := "C16:answer-stream-field" :: fails
    return { model := modelOut, fails := fails.reverse,
             tags := [s!"hbh0={decide (h.hbh = 0)} e2e0={decide (h.e2e = 0)} rc0={decide (rc = 0)}"] }

/-- `codec find d=<dict> app=<n> <tree> q=<first|all|path>:<c1.c2..> => [<avps>] | err` -/
def judgeFind (d : DictRt) (app : Nat) (as : List AVP) (mode : String) (codes : List Nat) (impl : List String) : Judged :=
  let c := codes.headD 0
  let resolvable := codes.all (fun c => (d.findCode (chainFuel d.parents) app c UndefinedVendorID).isSome)
  let modelRes : Option (List AVP) :=
    if ¬ resolvable then none
    else if mode = "first" then (findFirstL c as).map (fun a => [a])
    else if mode = "all" then (let r := findAllL c as; if r.isEmpty then none else some r)
    else some (withPath as codes)
  let specRes : Option (List AVP) :=
    if ¬ resolvable then none
    else if mode = "first" then ((preorderL as).find? (fun a => a.code = c)).map (fun a => [a])
    else if mode = "all" then (let r := (preorderL as).filter (fun a => a.code = c); if r.isEmpty then none else some r)
    else some (followPath as codes)
  let render (r : Option (List AVP)) := match r with | some l => showAVPs l | none => "err"
  let implOut := impl.getD 0 ""
  -- `edited=<tree> after=<answer>`: the application changed the tree below the top level and
  -- asked again; the answer is the reference walk of the tree as it is then
  let editBad : Bool := match (kv impl "edited").bind parseAVPs, kv impl "after" with
    | some as', some after =>
      let spec' : Option (List AVP) :=
        if ¬ resolvable then none
        else if mode = "first" then ((preorderL as').find? (fun a => a.code = c)).map (fun a => [a])
        else if mode = "all" then (let r := (preorderL as').filter (fun a => a.code = c); if r.isEmpty then none else some r)
        else some (followPath as' codes)
      after ≠ render spec'
    | none, none => false
    | _, _ => true
  let editModel : String := match (kv impl "edited").bind parseAVPs with
    | some as' =>
      let m' : Option (List AVP) :=
        if ¬ resolvable then none
        else if mode = "first" then (findFirstL c as').map (fun a => [a])
        else if mode = "all" then (let r := findAllL c as'; if r.isEmpty then none else some r)
        else some (withPath as' codes)
      s!" edited={showAVPs as'} after={render m'}"
    | none => ""
  { model := render modelRes ++ editModel,
    fails := (if implOut ≠ render specRes then [s!"C20:{mode}-differs-from-reference-walk"] else []) ++
             (if impl.any (·.startsWith "again=") then ["C20:same-query-again-answers-differently"] else []) ++
             (if impl.any (· = "tree=changed") then ["C20:search-changed-the-message"] else []) ++
             (if editBad then ["C20:answer-after-an-edit-is-not-the-walk-of-the-edited-tree"] else []),
    tags := [s!"{mode} hits={(specRes.getD []).length} depth={depthL as}{if (kv impl "edited").isSome then " edited" else ""}"],
    nontrivial := true }

end DV.Drv
