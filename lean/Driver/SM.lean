import Driver.Util
import Driver.DictRt
import Driver.Codec
import Driver.Mux
import Model.SM
import Model.LocalAddr
import Spec.SMSpec
/-! Driver.SM — the `smserver` correspondence domain (C10, C11, C13 server side, C16 CEA/DWA). -/
namespace DV.Drv

def bytesOfStr (s : String) : Bytes := s.toUTF8.toList

/-- the configurations the harness uses (same table on the Go side) -/
def settingsMenu (k : Nat) : Settings :=
  match k with
  | 0 => { originHost := bytesOfStr "srv.example.org", originRealm := bytesOfStr "example.org", vendorId := 13, productName := bytesOfStr "verif" }
  | 1 => { originHost := bytesOfStr "a", originRealm := bytesOfStr "b", vendorId := 0, productName := [], originStateId := 7, firmware := 3,
           hostIPs := [[192, 168, 1, 1], [32,1,13,184,0,0,0,0,0,0,0,0,0,0,0,5]] }
  | 2 => { originHost := bytesOfStr "srv2", originRealm := bytesOfStr "r2", vendorId := 4294967295, productName := bytesOfStr "p", firmware := 1 }
  | _ => { originHost := bytesOfStr "h", originRealm := bytesOfStr "r", vendorId := 1, productName := bytesOfStr "x", hostIPs := [[10, 0, 0, 9]] }

/-- the harness' menu of local endpoint strings, as entries (what `net.ParseIP` makes of each part
    once the brackets of an IPv6 entry are removed) and whether the port parses -/
def localEndpoint (s : String) : Bool × List HostEntry :=
  let v6 (k : Nat) : Bytes := [0x20, 0x01, 0x0d, 0xb8, 0, 0, 0, 0, 0, 0, 0, 0, 0, 0, 0, UInt8.ofNat k]
  if s = "v4" then (true, [.ip [10, 1, 2, 3]])                                   -- 10.1.2.3:3868
  else if s = "loop" then (true, [.ip [127, 0, 0, 1]])                           -- 127.0.0.1:3868
  else if s = "multi" then (true, [.ip [10, 0, 0, 1], .ip [10, 0, 0, 2]])          -- 10.0.0.1/10.0.0.2:3868
  else if s = "multiloop" then (true, [.ip [127, 0, 0, 1], .ip [10, 0, 0, 2]])     -- 127.0.0.1/10.0.0.2:3868
  else if s = "v6" then (true, [.ip [0,0,0,0,0,0,0,0,0,0,0,0,0,0,0,1]])            -- [::1]:3868
  else if s = "v6g" then (true, [.ip (v6 7)])                                    -- [2001:db8::7]:3868
  else if s = "v6z" then (true, [.unparseable])                                  -- [fe80::1%eth0]:3868 (zoned)
  else if s = "mix6" then (true, [.ip [127, 0, 0, 1], .ip [10, 0, 0, 3], .ip (v6 8)])  -- 127.0.0.1/10.0.0.3/[2001:db8::8]:3868
  else if s = "empty" then (true, [.unparseable])                                -- "" (no local address)
  else if s = "badport" then (false, [.ip [10, 1, 2, 3]])                        -- 10.1.2.3:38x8
  else (true, [])

/-- `getLocalAddresses` (Model.LocalAddr) on the endpoint -/
def localMenu (s : String) : Option (List Bytes) :=
  let (portOk, hosts) := localEndpoint s
  getLocalAddresses portOk hosts

def supportedApps : List SApp :=
  (Gen.dictFiles.flatten.filter (fun a => a.1 ≠ 0)).map (fun (id, typ, vendors, _, _) =>
    { id, typ := if typ = Gen.strAuth then 1 else if typ = Gen.strAcct then 2 else 0, vendor := vendors.getLast?.getD 0 })

def appOKDefault (id typ : Nat) : Bool :=
  (defaultDict.parser.app id (some (if typ = 1 then Gen.strAuth else Gen.strAcct))).isSome

/-- decode the messages of one segment (the reader stops at the first undecodable one) -/
partial def decodeSegment (d : DictFn) (bs : Bytes) : List Msg × Bool :=
  if bs.isEmpty then ([], true) else
  match decodeMsg d bs with
  | .ok m =>
    let (r, ok) := decodeSegment d (bs.drop m.hdr.len)
    (m :: r, ok)
  | _ => ([], false)

def showMeta (m : Meta) : String :=
  s!"{hexOrDash m.host}/{hexOrDash m.realm}/{".".intercalate (m.apps.map toString)}"

def normMsg (d : DictFn) (m : Msg) : String :=
  match decodeMsg d m.enc with
  | .ok x => s!"{showHdr x.hdr}{showAVPs x.avps}"
  | _ => s!"unreadable:{showHdr m.hdr}{showAVPs m.avps}"

def rcOfMsg (as : List AVP) : Option Nat :=
  match firstOf C.resultCode as with
  | some (.mk _ _ _ _ (.fix _ n)) => some n
  | _ => none

/-- parse a `W:H(..)[..]` event -/
def parseW (tok : String) : Option (Header × List AVP) :=
  if ¬ tok.startsWith "W:H(" then none else
  let body := (tok.drop 2).toString
  match body.splitOn ")[" with
  | [h, t] => match parseHdr (h ++ ")"), parseAVPs ("[" ++ t) with
    | some hd, some as => some (hd, as)
    | _, _ => none
  | _ => none

/-- does the written answer mirror the request header (C16)? -/
def mirrors (req ans : Header) : Bool :=
  ans.cmd = req.cmd ∧ ans.app = req.app ∧ ans.hbh = req.hbh ∧ ans.e2e = req.e2e ∧
  ans.flags / 128 % 2 = 0 ∧ ans.flags % 32 = req.flags % 32 ∧ ans.flags / 64 % 2 = req.flags / 64 % 2

/-- classify the first deviation of the implementation's events from the expected ones for
    message `m` (expected = model events `exp`, got = implementation events `got`) -/
def classifySM (env : SMEnv) (target : Target) (hadMeta : Bool) (m : Msg) (exp got : List String) : String :=
  let gotA := got.filter (·.startsWith "A")
  let expA := exp.filter (·.startsWith "A")
  if got.any (fun t => t.startsWith "A" ∧ t.endsWith ":nometa") then "C10:application-handler-ran-before-handshake"
  else if gotA ≠ expA then
    (if ¬ hadMeta ∧ ¬ gotA.isEmpty then "C10:application-handler-ran-before-handshake"
     else if expA.isEmpty then "C10:unexpected-application-handler"
     else if gotA.isEmpty then "C10:application-handler-not-invoked-after-handshake"
     else "C10:wrong-application-handler-or-metadata")
  else
    let gotW := got.filterMap parseW
    match target with
    | .cer =>
      if hadMeta then "C10:cer-after-handshake-not-ignored" else
      (match gotW.head? with
       | none => if exp.any (·.startsWith "W:") then "C11:no-cea-written" else "C11:close-or-events-differ"
       | some (ah, aas) =>
         let rc := (rcOfMsg aas).getD 0
         let acc := DV.Spec.accept env.appOK m.avps
         if acc ∧ rc ≠ 2001 then s!"C11:acceptable-cer-answered-with-{rc}"
         else if ¬ acc ∧ rc = 2001 then "C11:cer-without-common-application-or-identity-accepted"
         else if ¬ acc ∧ ¬ DV.Spec.applies env.appOK rc m.avps then s!"C11:result-code-{rc}-names-a-cause-that-does-not-apply"
         else if ¬ mirrors m.hdr ah then "C16:cea-does-not-mirror-request-header"
         else if ¬ acc ∧ ah.flags / 32 % 2 = 0 then "C11:failure-cea-without-error-bit"
         else if ¬ acc ∧ ¬ got.contains "C" ∧ exp.contains "C" then "C11:connection-not-closed-after-rejected-cer"
         else if strField C.originHost aas ≠ env.cfg.originHost ∨ strField C.originRealm aas ≠ env.cfg.originRealm then "C11:cea-identity-not-from-settings"
         else "C11:cea-content-differs")
    | .dwr | .dwrGated =>
      (match gotW.head? with
       | none => if exp.any (·.startsWith "W:") then "C13:well-formed-dwr-not-answered" else "C13:dwr-events-differ"
       | some (ah, aas) =>
         if exp.isEmpty then "C13:dwr-answered-unexpectedly"
         else if ¬ mirrors m.hdr ah then "C16:dwa-does-not-mirror-request-header,C13:dwa-does-not-carry-the-request-identifiers"
         else if rcOfMsg aas ≠ some 2001 then "C13:dwa-result-code"
         else "C13:dwa-content-differs")
    | .app _ => "C10:application-events-differ"
    | _ => "C10:events-differ"

/-- `smserver hist cfg=<k> local=<menu> regs=<..> segs=<hex|hex..> => <event> <event> .. end=<open|closed>` -/
def judgeSMServer (d : DictRt) (i : Intern) (cfgK : Nat) (localTok regsTok segsTok : String) (impl : List String) : Intern × Judged :=
  let dfn := d.dictFn
  let (i', regs) := (regsTok.splitOn ",").foldl (fun (acc : Intern × List Reg) t =>
      if t = "-" ∨ t = "" then acc else
      let (i2, r) := parseReg acc.1 t
      (i2, match r with | some r => acc.2 ++ [r] | none => acc.2)) (i, [])
  let (i2, sCE) := i'.get "CE"
  let (i3, sDW) := i2.get "DW"
  let cfg := settingsMenu cfgK
  let ips := if cfg.hostIPs.isEmpty then localMenu localTok else some cfg.hostIPs
  let env : SMEnv := { cfg, apps := supportedApps, appOK := appOKDefault, ips, shortCE := sCE, shortDW := sDW, regs }
  let segs := (segsTok.splitOn "|").filterMap fromHex
  let shortOf := fun (m : Msg) => (d.findCommand m.hdr.app m.hdr.cmd).map (·.short)
  -- KEPT:/META: tokens report on what the application kept; they are judged on their own below
  let keptBad := impl.any (·.startsWith "KEPT:changed")
  let metaBad := impl.any (·.startsWith "META:changed")
  let impl := impl.filter (fun t => ¬ t.startsWith "KEPT:" ∧ ¬ t.startsWith "META:")
  let implEvs := impl.filter (fun t => ¬ t.startsWith "end=")
  -- state: conn state, model events, dead, tags, remaining impl events, first failure
  let run := segs.foldl (fun (acc : ConnSt × List String × Bool × List String × List String × Option String) seg =>
      let (s, evs, dead, tags, rest, fail) := acc
      if dead then acc else
      let (msgs, clean) := decodeSegment dfn seg
      let (s', evs', tags', rest', fail') := msgs.foldl (fun (a : ConnSt × List String × List String × List String × Option String) m =>
          let (st0, ev0, tg0, rest0, fail0) := a
          let disp := (Mux.ofRegs (smRegs env.shortCE env.shortDW env.regs)).dispatch (shortOf m) m.hdr.app m.hdr.cmd (isRequest m.hdr.flags)
          let target := match disp with | .handler h => targetOf h | .report => Target.none
          let (st, acts) := smStep env (shortOf m) st0 m
          let new := acts.filterMap (fun act => match act with
            | .wrote w => some ("W:" ++ normMsg dfn w)
            | .app k => some s!"A{k}:{m.hdr.hbh}:{match st0.peer with | some mt => showMeta mt | none => "nometa"}"
            | .closed => if st0.closed then none else some "C"
            | _ => none)
          let tg := acts.filterMap (fun act => match act with
            | .wrote w => some s!"rc={(rcOfMsg w.avps).getD 0}"
            | .app _ => some "app"
            | .ignored => some "ignored"
            | .report => some "report"
            | .writeFailed => some "writefail"
            | _ => none)
          let got := rest0.take new.length
          let fail1 := match fail0 with
            | some f => some f
            | none => if got = new then none else some (classifySM env target st0.peer.isSome m new (rest0.take (max new.length 1)))
          (st, ev0 ++ new, tg0 ++ tg, rest0.drop new.length, fail1)) (s, [], [], rest, fail)
      let closedNow := s'.closed ∨ ¬ clean
      let extra := if ¬ clean ∧ ¬ s'.closed then ["C"] else []
      ({ s' with closed := closedNow }, evs ++ evs' ++ extra, closedNow, tags ++ tags', rest'.drop extra.length, fail')) ({}, [], false, [], implEvs, none)
  let (sEnd, evs, _, tags, rest, fail) := run
  let out := " ".intercalate (evs ++ [s!"end={if sEnd.closed then "closed" else "open"}"])
  let implOut := " ".intercalate impl
  let fails := match fail with
    | some f => [f]
    | none =>
      if implOut = out then []
      else if rest.any (fun t => t.startsWith "A" ∧ t.endsWith ":nometa") then ["C10:application-handler-ran-before-handshake"]
      else if rest.any (·.startsWith "A") then ["C10:unexpected-application-handler"]
      else if rest.any (·.startsWith "W:") then ["C11:unexpected-answer-written"]
      else ["C11:connection-end-state-differs"]
  let fails := fails ++ (if keptBad then ["C06:message-kept-by-the-application-changed-after-later-reads"] else []) ++
    (if metaBad then ["C11:metadata-of-an-earlier-connection-changed"] else [])
  (i3, { model := out, fails := fails, tags := tags.eraseDups.take 12 })

end DV.Drv
