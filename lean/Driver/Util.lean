import Model.Basic
import Model.Codec
/-! Driver.Util — hex, tokens, canonical printing and parsing of AVP trees. Not part of any theorem. -/
namespace DV.Drv

def hexDigit (n : Nat) : Char := if n < 10 then Char.ofNat (48 + n) else Char.ofNat (87 + n)

def toHex (b : Bytes) : String :=
  String.mk (b.foldr (fun x acc => hexDigit (x.toNat / 16) :: hexDigit (x.toNat % 16) :: acc) [])

def hexVal (c : Char) : Option Nat :=
  if '0' ≤ c ∧ c ≤ '9' then some (c.toNat - 48)
  else if 'a' ≤ c ∧ c ≤ 'f' then some (c.toNat - 87)
  else if 'A' ≤ c ∧ c ≤ 'F' then some (c.toNat - 55)
  else none

partial def fromHexChars : List Char → Option Bytes
  | [] => some []
  | a :: b :: r => do
    let x ← hexVal a; let y ← hexVal b; let rest ← fromHexChars r
    pure (UInt8.ofNat (x * 16 + y) :: rest)
  | _ => none

def fromHex (s : String) : Option Bytes := if s = "-" then some [] else fromHexChars s.toList
def hexOrDash (b : Bytes) : String := if b.isEmpty then "-" else toHex b

/-- canonical printing -/
partial def showVal : Val → String
  | .str t b => s!"s{t}:{hexOrDash b}"
  | .addr b => s!"a:{hexOrDash b}"
  | .ip4 b => s!"4:{hexOrDash b}"
  | .ip6 b => s!"6:{hexOrDash b}"
  | .fix t n => s!"f{t}:{n}"
  | .time u => s!"t:{u}"
  | .group as => "g[" ++ ";".intercalate (as.map showAVP) ++ "]"
where showAVP : AVP → String
  | .mk c f l v d => s!"A({c},{f},{l},{v},{showVal d})"

def showAVP := showVal.showAVP
def showAVPs (as : List AVP) : String := "[" ++ ";".intercalate (as.map showAVP) ++ "]"
def showHdr (h : Header) : String := s!"H({h.version},{h.len},{h.flags},{h.cmd},{h.app},{h.hbh},{h.e2e})"

/-! parsing (recursive descent over a char list) -/
abbrev P := StateT (List Char) Option

def pchar (c : Char) : P Unit := do
  match (← get) with
  | x :: r => if x = c then set r else failure
  | [] => failure
def peek : P (Option Char) := do return (← get).head?
def pnat : P Nat := do
  let s ← get
  let ds := s.takeWhile Char.isDigit
  if ds.isEmpty then failure
  set (s.dropWhile Char.isDigit)
  return ds.foldl (fun a c => a * 10 + (c.toNat - 48)) 0
def pint : P Int := do
  match (← peek) with
  | some '-' => pchar '-'; let n ← pnat; return -(n : Int)
  | _ => let n ← pnat; return (n : Int)
def phex : P Bytes := do
  let s ← get
  match s with
  | '-' :: r => set r; return []
  | _ =>
    let hs := s.takeWhile (fun c => (hexVal c).isSome)
    set (s.dropWhile (fun c => (hexVal c).isSome))
    match fromHexChars hs with
    | some b => return b
    | none => failure

mutual
partial def pval : P Val := do
  match (← peek) with
  | some 's' => pchar 's'; let t ← pnat; pchar ':'; let b ← phex; return .str t b
  | some 'a' => pchar 'a'; pchar ':'; let b ← phex; return .addr b
  | some '4' => pchar '4'; pchar ':'; let b ← phex; return .ip4 b
  | some '6' => pchar '6'; pchar ':'; let b ← phex; return .ip6 b
  | some 'f' => pchar 'f'; let t ← pnat; pchar ':'; let n ← pnat; return .fix t n
  | some 't' => pchar 't'; pchar ':'; let u ← pint; return .time u
  | some 'g' => pchar 'g'; let as ← pavps; return .group as
  | _ => failure
partial def pavp : P AVP := do
  pchar 'A'; pchar '('
  let c ← pnat; pchar ','
  let f ← pnat; pchar ','
  let l ← pnat; pchar ','
  let v ← pnat; pchar ','
  let d ← pval; pchar ')'
  return .mk c f l v d
partial def pavps : P (List AVP) := do
  pchar '['
  match (← peek) with
  | some ']' => pchar ']'; return []
  | _ =>
    let a ← pavp
    let rec more (acc : List AVP) : P (List AVP) := do
      match (← peek) with
      | some ';' => pchar ';'; let x ← pavp; more (x :: acc)
      | _ => pchar ']'; return acc.reverse
    more [a]
end

def parseAVPs (s : String) : Option (List AVP) :=
  match pavps.run s.toList with
  | some (as, []) => some as
  | _ => none

def parseHdr (s : String) : Option Header :=
  let p : P Header := do
    pchar 'H'; pchar '('
    let v ← pnat; pchar ','
    let l ← pnat; pchar ','
    let f ← pnat; pchar ','
    let c ← pnat; pchar ','
    let a ← pnat; pchar ','
    let h ← pnat; pchar ','
    let e ← pnat; pchar ')'
    return { version := v, len := l, flags := f, cmd := c, app := a, hbh := h, e2e := e }
  match p.run s.toList with
  | some (h, []) => some h
  | _ => none

/-- key=value lookup among tokens -/
def kv (toks : List String) (k : String) : Option String :=
  toks.findSome? (fun t => if t.startsWith (k ++ "=") then some ((t.drop (k.length + 1)).toString) else none)

def kvNat (toks : List String) (k : String) : Option Nat := (kv toks k).bind String.toNat?

end DV.Drv
