import Driver.Util
import Driver.Codec
import Model.Reflect
import Spec.Canon
/-! Driver.Reflect — the `reflect` correspondence domain (C18). -/
namespace DV.Drv

def pword : P String := do
  let s ← get
  let w := s.takeWhile (fun c => c.isAlphanum)
  set (s.dropWhile (fun c => c.isAlphanum))
  return String.mk w

def goTOf (w : String) : Option GoT :=
  if w = "string" then some .string else if w = "int" then some .int else if w = "int32" then some .int32
  else if w = "int64" then some .int64 else if w = "uint32" then some .uint32 else if w = "uint64" then some .uint64
  else if w = "float32" then some .float32 else if w = "float64" then some .float64 else if w = "bytes" then some .bytes
  else if w = "ip" then some .netIP else if w = "time" then some .timeTime
  else if w.startsWith "d" then (w.drop 1).toString.toNat?.map GoT.dt else none

mutual
partial def pshape : P Shape := do
  match (← peek) with
  | some 'A' => pchar 'A'; return .avp
  | some 'L' => pchar 'L'; let w ← pword; (match goTOf w with | some t => return .leaf t | none => failure)
  | some 'P' => pchar 'P'; pchar '('; let s ← pshape; pchar ')'; return .ptr s
  | some 'S' => pchar 'S'; pchar '('; let s ← pshape; pchar ')'; return .slice s
  | some 'T' => pchar 'T'; pchar '['; let fs ← pfields []; return .struct fs
  | _ => failure
partial def pfields (acc : List SField) : P (List SField) := do
  match (← peek) with
  | some ']' => pchar ']'; return acc.reverse
  | some ';' => pchar ';'; pfields acc
  | _ =>
    pchar '('
    let n ← pnat; pchar ','
    let o ← pnat; pchar ','
    let e ← pnat; pchar ','
    let s ← pshape; pchar ')'
    pfields (SField.mk { name := n, omitE := o = 1, emb := e = 1 } s :: acc)
end

mutual
partial def prv : P RV := do
  match (← peek) with
  | some 'n' => pchar 'n'; return .nil
  | some 'l' =>
    pchar 'l'; pchar ':'
    let k ← peek
    match k with
    | some 's' => pchar 's'; pchar ':'; let b ← phex; return .leaf (.s b)
    | some 'i' => pchar 'i'; pchar ':'; let n ← pint; return .leaf (.i n)
    | some 'f' => pchar 'f'; pchar ':'; let n ← pnat; return .leaf (.f n)
    | some 'b' => pchar 'b'; pchar ':'; let b ← phex; return .leaf (.b b)
    | some 't' => pchar 't'; pchar ':'; let n ← pint; return .leaf (.t n)
    | _ => failure
  | some 'p' => pchar 'p'; pchar '('; let v ← prv; pchar ')'; return .ptr v
  | some 's' => pchar 's'; pchar '['; let vs ← prvs []; return .slice vs
  | some 't' => pchar 't'; pchar '['; let vs ← prvs []; return .struct vs
  | some 'a' => pchar 'a'; pchar ':'; let a ← pavp; return .avp a
  | _ => failure
partial def prvs (acc : List RV) : P (List RV) := do
  match (← peek) with
  | some ']' => pchar ']'; return acc.reverse
  | some ';' => pchar ';'; prvs acc
  | _ => let v ← prv; prvs (v :: acc)
end

def showGV : GV → String
  | .s b => s!"s:{hexOrDash b}"
  | .i n => s!"i:{n}"
  | .f n => s!"f:{n}"
  | .b b => s!"b:{hexOrDash b}"
  | .t u => s!"t:{u}"

partial def showRV : RV → String
  | .leaf v => "l:" ++ showGV v
  | .nil => "n"
  | .ptr v => "p(" ++ showRV v ++ ")"
  | .slice vs => "s[" ++ ";".intercalate (vs.map showRV) ++ "]"
  | .struct vs => "t[" ++ ";".intercalate (vs.map showRV) ++ "]"
  | .avp a => "a:" ++ showAVP a

def parseDict (tok : String) : FindFn :=
  let ents := if tok = "-" then [] else tok.splitOn ","
  fun name =>
    if name = 0 then none else
    match ents[name - 1]? with
    | some e =>
      (match (e.splitOn ":").map String.toNat? with
       | [some c, some v, some m, some t] => some (c, v, m = 1, t)
       | _ => none)
    | none => none

/-- expected flags / vendor of every AVP whose code the dictionary entries describe -/
partial def flagsOK (ents : List (Nat × Nat × Bool × Nat)) (viaAVPField : List Nat) : List AVP → Bool
  | [] => true
  | a :: r =>
    (match ents.find? (fun e => e.1 = a.code) with
     | some (_, v, m, _) =>
       viaAVPField.contains a.code || (a.vendor == v && a.flags == (if m then 64 else 0) + (if v > 0 then 128 else 0))
     | none => true) &&
    (match a.data with | .group kids => flagsOK ents viaAVPField kids | _ => true) && flagsOK ents viaAVPField r

/-- the typed value of every AVP the dictionary entries describe is of the entry's data type
    ("same code, vendor id, M and V flags and typed value" as a caller would build by hand) -/
partial def typesOK (ents : List (Nat × Nat × Bool × Nat)) (viaAVPField : List Nat) : List AVP → Bool
  | [] => true
  | a :: r =>
    (match ents.find? (fun e => e.1 = a.code) with
     | some (_, _, _, t) =>
       viaAVPField.contains a.code ||
       (match a.data with
        | .str t' _ => t' == t
        | .fix t' _ => t' == t
        | .addr _ => t == 1
        | .ip4 _ => t == 9
        | .ip6 _ => t == 18
        | .time _ => t == 14
        | .group _ => t == 7)
     | none => true) &&
    (match a.data with | .group kids => typesOK ents viaAVPField kids | _ => true) && typesOK ents viaAVPField r

/-- codes of fields whose Go type is diam.AVP / *AVP / []*AVP: those AVPs are the caller's own -/
partial def avpFieldCodes (find : FindFn) : Shape → List Nat
  | .struct fs => fs.flatMap (fun f =>
      let rec hasAVP : Shape → Bool
        | .avp => true | .ptr s => hasAVP s | .slice s => hasAVP s | _ => false
      (if hasAVP f.shape then (match entOf find f.tag.name with | some e => [e.code] | none => []) else []) ++ avpFieldCodes find f.shape)
  | .ptr s => avpFieldCodes find s
  | .slice s => avpFieldCodes find s
  | _ => []

partial def shapeHasAVP : Shape → Bool
  | .avp => true | .ptr s => shapeHasAVP s | .slice s => shapeHasAVP s
  | .struct fs => fs.any (fun f => shapeHasAVP f.shape) | _ => false

def nestDepth (s : String) : Nat := s.toList.foldl (fun (acc : Nat × Nat) c =>
  if c = '(' ∨ c = '[' then (acc.1 + 1, max acc.2 (acc.1 + 1)) else if c = ')' ∨ c = ']' then (acc.1 - 1, acc.2) else acc) (0, 0) |>.2

/-- `reflect rt ty=.. seed=.. => dict=.. sh=.. v=.. m=.. len=.. u=.. w=.. wire=..` -/
def judgeReflect (impl : List String) : Judged :=
  let dictTok := (kv impl "dict").getD "-"
  let find := parseDict dictTok
  let ents := (if dictTok = "-" then [] else dictTok.splitOn ",").filterMap (fun e =>
    match (e.splitOn ":").map String.toNat? with
    | [some c, some v, some m, some t] => some (c, v, decide (m = 1), t)
    | _ => none)
  let shO : Option Shape := (kv impl "sh").bind (fun s => (pshape.run s.toList).map (·.1))
  let vO : Option RV := (kv impl "v").bind (fun s => (prv.run s.toList).map (·.1))
  match shO, vO with
  | some (Shape.struct fs), some (RV.struct vs) =>
    let head := s!"dict={dictTok} sh={(kv impl "sh").getD ""} v={(kv impl "v").getD ""} "
    let iM := (kv impl "m").getD ""
    match marshalStruct find fs vs with
    | .ok as =>
      let z := zeroOf.zeroFields fs
      let u := RV.struct (scanFields find fs as z)
      -- wire: the implementation's own bytes, decoded by the codec model under the entries' typing
      let ty := fun (code _vendor : Nat) => match ents.find? (fun e => e.1 = code) with | some e => e.2.2.2 | none => 0
      let wireB := ((kv impl "wire").bind fromHex).getD []
      let w := match decodeAVPs ty (wireB.length + 1) wireB with
        | .ok was => showRV (RV.struct (scanFields find fs was z))
        | _ => "readerr"
      -- `again=`: the struct was used for a second message; the first one is a value of its own
      let again := kv impl "again"
      let model := head ++ s!"m={showAVPs as} len=ok u={showRV u} wire={hexOrDash wireB} w={w}" ++
        (if again.isSome then " again=same" else "")
      let canon := DV.Spec.canonL as
      let wf := wfStruct find fs vs && distinct (levelCodes find fs)
      let want := showRV (RV.struct (normFields fs vs))
      let norm := fun (tok : String) => match (prv.run tok.toList).map (·.1) with
        | some (.struct xs) => showRV (RV.struct (normFields fs xs))
        | _ => tok
      Id.run do
        let mut fails : List String := []
        if iM.startsWith "panic" ∨ ((kv impl "u").getD "").startsWith "panic" then fails := fails ++ ["C18:marshal-or-unmarshal-panics"]
        match parseAVPs iM with
        | some ias =>
          if ¬ flagsOK ents (avpFieldCodes find (.struct fs)) ias then
            fails := fails ++ ["C18:avp-flags-or-vendor-not-from-dictionary"]
          if ¬ typesOK ents (avpFieldCodes find (.struct fs)) ias then
            fails := fails ++ ["C18:typed-value-not-of-the-dictionary's-data-type"]
        | none => pure ()
        if (kv impl "len").getD "ok" ≠ "ok" then fails := fails ++ ["C02:header-length-after-marshal", "C18:header-length-after-marshal"]
        match again with
        | some "same" | none => pure ()
        | some "struct-changed" => fails := fails ++ ["C18:adding-to-the-message-changed-the-struct"]
        | some "changed-by-unmarshal" => fails := fails ++ ["C06:message-changed-by-unmarshalling-a-later-message", "C18:message-changed-by-unmarshalling-a-later-message"]
        | some _ => fails := fails ++ ["C18:earlier-message-changed-by-a-later-marshal"]
        if wf then
          if iM.startsWith "err" then fails := fails ++ ["C18:well-formed-struct-rejected"]
          else
            if norm ((kv impl "u").getD "") ≠ want then fails := fails ++ ["C18:unmarshal-of-marshal-differs"]
            if canon ∧ ¬ shapeHasAVP (.struct fs) ∧ norm ((kv impl "w").getD "") ≠ want then
              fails := fails ++ ["C18:wire-round-trip-differs"]
        return { model := model, fails := fails.eraseDups.take 3,
                 tags := [s!"reflect fields={fs.length} avps={as.length} wf={wf} canon={canon} depth={nestDepth ((kv impl "sh").getD "")}"] }
    | .err e =>
      { model := head ++ s!"m=err:{e}", fails := [], tags := [s!"reflect err:{e}"] }
    | .panic e => { model := head ++ s!"m=panic:{e}", fails := ["C18:marshal-or-unmarshal-panics"], tags := ["reflect panic"] }
  | _, _ => { model := "unparsed", fails := [], tags := ["reflect unparsed"] }

end DV.Drv
