import Driver.Util
import Driver.DictRt
import Driver.Codec
import Model.Stream
import Spec.Split
/-! Driver.Stream — the `stream` correspondence domain (C05). -/
namespace DV.Drv
open DV.Spec

def showRes : MsgRes → String
  | .msg m => s!"m:{showHdr m.hdr}{showAVPs m.avps}"
  | .eof => "eof"
  | .errHeader => "errHeader"
  | .errCommand => "errCommand"
  | .reject => "reject"
  | .errBody => "errBody"
  | .errDecode => "errDecode"

/-- cut `bs` into fragments of the given sizes (zero sizes skipped, remainder as a last fragment) -/
def cutFrags : List Nat → Bytes → List Bytes
  | _, [] => []
  | [], bs => [bs]
  | n :: r, bs => if n = 0 then cutFrags r bs else bs.take n :: cutFrags r (bs.drop n)
termination_by ns bs => ns.length

/-- `stream read fin=<eof|err> via=<direct|bufio> frags=<n,n,..> <hex> => <res> <res> .. consumed=<n|na>` -/
def judgeStream (d : DictRt) (fin : Fin) (via : String) (sizes : List Nat) (bs : Bytes) (impl : List String) : Judged :=
  let dfn := d.dictFn
  let src : Src := { frags := cutFrags sizes bs, fin }
  let fuel := bs.length / 20 + 3
  let (mres, mcons) := readAll dfn fuel src
  let (sres, scons) := split dfn fuel bs fin
  let render (rs : List MsgRes) (c : Nat) :=
    " ".intercalate (rs.map showRes) ++ s!" consumed={if via = "direct" then toString c else "na"}"
  let implStr := " ".intercalate impl
  let nmsgs := (sres.filter (fun r => match r with | .msg _ => true | _ => false)).length
  let last := match sres.getLast? with | some r => (showRes r).takeWhile (· ≠ ':') |>.toString | none => "none"
  { model := render mres mcons,
    fails := (if implStr ≠ render sres scons then
        [s!"C05:outcomes-differ-from-length-only-split:{last}"] else []) ++
      (if impl.any (·.startsWith "panic") then ["C03:panic-while-reading-a-stream"] else []),
    tags := [s!"msgs={nmsgs} end={last} frags={src.frags.length} via={via} len={if bs.length ≤ 64 then "le64" else if bs.length ≤ 1100 then "le1100" else "big"}"],
    nontrivial := bs.length ≥ 1 }

end DV.Drv
