import Driver.Util
import Driver.DictRt
import Driver.Codec
import Model.Alias
/-! Driver.Alias — the `alias` correspondence domain (C06). -/
namespace DV.Drv

/-- typing of the harness' alias dictionary: the base dictionary plus four AVPs of the data
    types the embedded dictionaries do not use -/
def aliasTy (d : DictRt) : Nat → Nat → Nat := fun code vendor =>
  if code = 99901 then T.ipv4 else if code = 99902 then T.ipv6 else if code = 99903 then T.octets
  else if code = 99904 then T.grouped else d.dictFn.avpType 0 code vendor

/-- `alias leaf t=<typeid> p=-<hex> => copy|view|err` -/
def judgeAliasLeaf (t : Nat) (p : Bytes) (impl : List String) : Judged :=
  let cfg := genAliasCfg
  let groupedAlias := (Gen.sliceKinded.find? (fun r => r.1 = "Grouped")).map (fun r => r.2.2) != some "copy"
  let model :=
    if t = T.grouped then (if groupedAlias ∧ ¬ p.isEmpty then "view" else "copy")
    else match decodeLeaf t p with
      | .ok _ => (match leafView cfg t p with
          | some v => if v.len > 0 then "view" else "copy"
          | none => "copy")
      | _ => "err"
  let implOut := impl.headD ""
  -- the intermediate datatype.Grouped value is consumed by DecodeGrouped (obligation C06_gen)
  let fails := if implOut = "view" ∧ t ≠ T.grouped then [s!"C06:decoder-returns-view-of-its-input:type{t}"] else []
  { model := model, fails := fails, tags := [s!"leaf t={t} len={p.length} {model}"] }

/-- `alias hist g=<mode> a=<hex> later=<hex,..> => same same changed ..` -/
def judgeAliasHist (d : DictRt) (a : Bytes) (nlater : Nat) (mode : String) (impl : List String) : Judged :=
  let cfg := genAliasCfg
  let body := a.drop 20
  let views := viewsAVPs cfg (aliasTy d) (body.length + 1) 0 body
  let safe := views.isEmpty || body.length > 1024 || !cfg.bodyPooled
  let implOut := " ".intercalate impl
  -- with views into a pooled buffer the outcome depends on sync.Pool's choice: the model admits both
  let model := if safe then " ".intercalate ("w:same" :: List.replicate nlater "same") else implOut
  -- (C01: a decoded message re-encodes to the bytes it was read from - also after other messages
  -- have been read; a retained message that changed no longer does)
  let fails := (if impl.any (· = "changed") then ["C06:retained-message-changed-after-later-reads", "C01:decoded-message-no-longer-re-encodes-to-its-bytes-after-later-reads"] else []) ++
    (if impl.any (· = "w:changed") then ["C06:retained-message-changed-by-writing-or-serialising-it"] else [])
  { model := model, fails := fails,
    tags := [s!"hist g={mode} later={nlater} views={views.length} big={decide (body.length > 1024)}"] }

end DV.Drv
