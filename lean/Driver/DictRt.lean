import Std.Data.HashMap
import Model.Dict
import Model.Codec
import Gen.Dict
import Gen.Tables
import Gen.Names
/-! Driver.DictRt — hash-indexed view of a `Model.Parser` for fast execution, string interning. -/
namespace DV.Drv
open Std

structure DictRt where
  parser : Parser
  parents : List (Nat × Nat)
  avpcode : HashMap (Nat × Nat × Nat) AvpDef
  avpname : HashMap (Nat × Nat × Nat) AvpDef
  command : HashMap (Nat × Nat) CmdDef

/-- association lists are newest-first; insert oldest first so the newest wins -/
def DictRt.ofParser (p : Parser) (parents : List (Nat × Nat)) : DictRt :=
  { parser := p, parents,
    avpcode := p.avpcode.reverse.foldl (fun m (k, v) => m.insert k v) {},
    avpname := p.avpname.reverse.foldl (fun m (k, v) => m.insert k v) {},
    command := p.command.reverse.foldl (fun m (k, v) => m.insert k v) {} }

def DictRt.findCode (d : DictRt) : Nat → Nat → Nat → Nat → Option AvpDef
  | 0, _, _, _ => none
  | fuel+1, app, code, vendor =>
    match d.avpcode[(app, code, vendor)]? with
    | some x => some x
    | none => if app = 0 then none else d.findCode fuel (parentOf d.parents app) code vendor

def DictRt.findName (d : DictRt) : Nat → Nat → Nat → Nat → Option AvpDef
  | 0, _, _, _ => none
  | fuel+1, app, name, vendor =>
    match d.avpname[(app, name, vendor)]? with
    | some x => some x
    | none => if app = 0 then none else d.findName fuel (parentOf d.parents app) name vendor

def DictRt.findCommand (d : DictRt) (app code : Nat) : Option CmdDef :=
  match d.command[(app, code)]? with
  | some c => some c
  | none => d.command[(0, code)]?

def DictRt.dictFn (d : DictRt) : DictFn :=
  { avpType := fun app code vendor =>
      match d.findCode (chainFuel d.parents) app code vendor with
      | some x => x.ty
      | none => 0
    cmdRules := fun app code => (d.findCommand app code).map (fun c => (c.nreq, c.nans)) }

def defaultDict : DictRt :=
  DictRt.ofParser (Parser.loadAll Gen.availableIds Gen.dictFiles) Gen.parentAppIds

structure Intern where
  ids : HashMap String Nat
  next : Nat

def Intern.init : Intern :=
  let m := Gen.names.foldl (fun (acc : HashMap String Nat × Nat) s => (acc.1.insert s acc.2, acc.2 + 1)) ({}, 0)
  { ids := m.1, next := m.2 }

def Intern.get (i : Intern) (s : String) : Intern × Nat :=
  match i.ids[s]? with
  | some n => (i, n)
  | none => ({ ids := i.ids.insert s i.next, next := i.next + 1 }, i.next)

end DV.Drv
