import Driver.Util
import Driver.DictRt
import Driver.Codec
import Driver.Stream
import Model.Sctp
import Model.Retry
import Spec.Split
/-! Driver.Sctp — the `sctp` correspondence domain (C19, C16 stream clause, C14 over SCTP). -/
namespace DV.Drv
open DV.Spec

def parseChunks (s : String) : List (Nat × Bytes) :=
  if s = "-" ∨ s = "" then [] else
  (s.splitOn ",").filterMap (fun t =>
    match t.splitOn ":" with
    | [st, hx] => (match st.toNat?, fromHex hx with
        | some n, some b => if b.isEmpty then none else some (n, b)
        | _, _ => none)
    | _ => none)

def endClass : MsgRes → String
  | .msg _ => "msg" | .eof => "eof" | .errHeader => "errHeader" | .errCommand => "errCommand"
  | .reject => "reject" | .errBody => "errBody" | .errDecode => "errDecode"

/-- streams with buffered data of maximal length: the candidates for the heap's top -/
def topStreams (s : SS) (ids : List Nat) : List Nat :=
  let m := ids.foldl (fun acc i => max acc (s.bufs i).length) 0
  if m = 0 then [] else ids.filter (fun i => (s.bufs i).length = m)

/-- run the model's reader loop, taking the heap's choice from the implementation's own output
    whenever that choice is one the heap may make (a buffered stream of maximal length) -/
partial def simulate (d : DictFn) (ids : List Nat) (s : SS) (implStreams : List Nat) (acc : List String) (fuel : Nat)
    (implEnd : String := "") : List String :=
  if fuel = 0 then acc.reverse else
  let tops := topStreams s ids
  let endOf := fun (r : MsgRes) (σ : Nat) =>
    let pinned := match r with | .errCommand | .reject | .errBody | .errDecode => true | _ => false
    endClass r ++ (if pinned then s!"@{σ}" else "")
  let pick : Option Nat :=
    match implStreams.head? with
    | some σ => if tops.contains σ then some σ else tops.head?
    | none =>
      -- the last, failing read: when several buffers are equally long the heap's choice is not
      -- determined and - the header not having been read completely - not observable either;
      -- any choice whose outcome is the implementation's is accepted
      match tops.find? (fun σ => match s.readMessage d (some σ) with
          | ((.msg _, _), _) => false
          | ((r, σ'), _) => endOf r σ' == implEnd) with
      | some σ => some σ
      | none => tops.head?
  match s.readMessage d pick with
  | ((.msg m, σ), s') => simulate d ids s' implStreams.tail (s!"{σ}:{m.hdr.hbh}" :: acc) (fuel - 1) implEnd
  | ((r, σ), _) =>
    -- the stream is reported only when the header was read completely (`SetCurrentStream`)
    let pinned := match r with | .errCommand | .reject | .errBody | .errDecode => true | _ => false
    ((endClass r ++ (if pinned then s!"@{σ}" else "")) :: acc).reverse

def streamIds (chunks : List (Nat × Bytes)) : List Nat := (chunks.map (·.1)).eraseDups

def bytesOf (chunks : List (Nat × Bytes)) (σ : Nat) : Bytes := ((chunks.filter (·.1 = σ)).map (·.2)).flatten

def parseTagged (t : String) : Option (Nat × Nat) :=
  match t.splitOn ":" with
  | [a, b] => (match a.toNat?, b.toNat? with | some x, some y => some (x, y) | _, _ => none)
  | _ => none

/-- Spec verdict on a delivered sequence `(stream, id)`: per stream exactly the first messages of
    the reference split of that stream's bytes; at a clean end, all of them -/
def perStreamVerdict (d : DictFn) (chunks : List (Nat × Bytes)) (fin : Fin) (delivered : List (Nat × Nat)) (cleanEnd : Bool) : List String :=
  let ids := streamIds chunks
  let bad := ids.filter (fun σ =>
    let got := (delivered.filter (·.1 = σ)).map (·.2)
    let want := (splitMsgs d got.length (bytesOf chunks σ) fin).map (·.hdr.hbh)
    got ≠ want)
  let foreign := delivered.filter (fun p => ¬ ids.contains p.1)
  let lost := if cleanEnd then ids.filter (fun σ =>
      let k := (delivered.filter (·.1 = σ)).length
      (splitMsgs d (k + 1) (bytesOf chunks σ) fin).length > k) else []
  (if bad.isEmpty then [] else [s!"C19:messages-of-a-stream-differ-from-its-own-bytes:stream{bad.headD 0}"]) ++
  (if foreign.isEmpty then [] else ["C19:message-tagged-with-a-stream-that-sent-nothing"]) ++
  (if lost.isEmpty then [] else [s!"C19:complete-message-not-delivered:stream{lost.headD 0}"])

/-- `sctp demux fin=<eof|err> chunks=<σ:hex,..> => σ:id σ:id .. <end>` -/
def judgeSctpDemux (d : DictRt) (fin : Fin) (chunkTok : String) (impl : List String) : Judged :=
  let dfn := d.dictFn
  let chunks := parseChunks chunkTok
  let ids := streamIds chunks
  let s0 : SS := { bufs := fun _ => [], chunks := chunks, fin := fin }
  let implMsgs := impl.filterMap parseTagged
  let endTok := impl.getLast?.getD ""
  let endAt := match endTok.splitOn "@" with | [_, x] => x.toNat?.toList | _ => []
  let model := simulate dfn ids s0 (implMsgs.map (·.1) ++ endAt) [] (chunks.length * 200 + 10) endTok
  let fails := perStreamVerdict dfn chunks fin implMsgs (endTok = "eof")
  -- a reader that stops with an error on stream σ: σ's own bytes, cut by length after the
  -- messages already delivered from it, do contain that error there
  let fails := fails ++ (match endTok.splitOn "@" with
    | [cls, x] =>
      (match x.toNat? with
       | some σ =>
         let k := (implMsgs.filter (·.1 = σ)).length
         let rest := splitRest dfn k (bytesOf chunks σ) fin
         let want := ((showRes (splitStep dfn rest fin).1).takeWhile (· ≠ ':')).toString
         if cls.startsWith "err" ∧ want ≠ cls ∧ ids.contains σ then
           [s!"C19:stream-reported-broken-where-its-own-bytes-are-not:stream{σ}"] else []
       | none => [])
    | _ => [])
  let endTok := (endTok.splitOn "@").headD ""
  { model := " ".intercalate model, fails := fails,
    tags := [s!"streams={ids.length} chunks={chunks.length} msgs={implMsgs.length} end={endTok}"],
    nontrivial := chunks.length ≥ 1 }

/-- `sctp serve cn=<mode> fin=.. chunks=.. => h:σ:id w:σ:id:ppid .. end=closed cn=<state>` -/
def judgeSctpServe (d : DictRt) (fin : Fin) (cn : String) (chunkTok : String) (impl : List String) : Judged :=
  let overlap := impl.contains "OVERLAP"
  let impl := impl.filter (· ≠ "OVERLAP")
  let dfn := d.dictFn
  let chunks := parseChunks chunkTok
  let ids := streamIds chunks
  let s0 : SS := { bufs := fun _ => [], chunks := chunks, fin := fin }
  let hs := impl.filterMap (fun t => if t.startsWith "h:" then parseTagged (t.drop 2).toString else none)
  let endAt := ((kvNat impl "at").map (fun x => [x])).getD []
  let model := simulate dfn ids s0 (hs.map (·.1) ++ endAt) [] (chunks.length * 200 + 10)
  -- every request is answered on the stream it arrived on, with the Diameter PPID
  let isReq := fun (σ id : Nat) =>
    match (splitMsgs dfn 1000 (bytesOf chunks σ) fin).find? (fun m => m.hdr.hbh = id) with
    | some m => isRequest m.hdr.flags
    | none => false
  let modelEvents := (model.dropLast).flatMap (fun t =>
    match parseTagged t with
    | some (σ, id) => if isReq σ id then [s!"h:{σ}:{id}", s!"w:{σ % 65536}:{id}:46"] else [s!"h:{σ}:{id}"]
    | none => [])
  let cnWant := if cn = "none" then "none" else "closed"
  -- the pinned stream at the end is the implementation's own report (the oracle value)
  let modelOut := " ".intercalate (modelEvents ++ ["end=closed", s!"cn={cnWant}"] ++ (impl.filter (·.startsWith "at=")))
  Id.run do
    let mut fails := perStreamVerdict dfn chunks fin hs false
    -- replies: each `w` follows its `h` with the same stream and id
    let evs := impl.filter (fun t => t.startsWith "h:" ∨ t.startsWith "w:")
    let mut lastH : Option (Nat × Nat) := none
    for t in evs do
      if t.startsWith "h:" then
        lastH := parseTagged (t.drop 2).toString
      else
        let parts := (t.drop 2).toString.splitOn ":"
        let a := parts.getD 0 ""
        let b := parts.getD 1 ""
        let p := parts.getD 2 ""
        let okStream : Bool := match lastH with
          | some (σ, id) => a.toNat? == some (σ % 65536) && b.toNat? == some id
          | none => false
        if ¬ okStream then
          fails := fails ++ ["C16:reply-written-to-another-stream"]
        if p ≠ "46" then
          fails := fails ++ ["C19:reply-without-diameter-ppid"]
    if ¬ impl.contains "end=closed" then
      fails := fails ++ ["C15:faulty-connection-not-closed"]
    if cn ≠ "none" ∧ ¬ impl.contains "cn=closed" then
      fails := fails ++ ["C14:close-notify-did-not-fire"]
    if overlap then
      fails := ["C08:two-handlers-active-on-one-connection"] ++ fails
    return { model := modelOut, fails := fails.eraseDups.take 4,
             tags := [s!"serve streams={ids.length} chunks={chunks.length} msgs={hs.length} cn={cn}"] }

/-- `sctp canswer streams=<s.s.s> rounds=<r> => a:<id>:<in>:<out> ...`: every answer leaves on
    the stream its request arrived on, whatever else is being written at the same time. -/
def judgeCAnswer (streamsTok : String) (rounds : Nat) (impl : List String) : Judged :=
  let streams := (streamsTok.splitOn ".").filterMap String.toNat?
  let rows := (List.range rounds).flatMap (fun r =>
    (List.range streams.length).map (fun i =>
      let s := streams.getD i 0
      let req : Msg := { hdr := { version := 1, len := 20, flags := 128, cmd := 280, app := 0, hbh := 1000 * (r + 1) + i, e2e := 1000 * (r + 1) + i }, avps := [], stream := s }
      let a := req.answer 2001 0 0
      s!"a:{a.hdr.hbh}:{s}:{sctpStreamOf a.writeStream}"))
  let out := if rows.isEmpty then "-" else " ".intercalate rows
  let implOut := " ".intercalate impl
  let bad := impl.filter (fun t => match t.splitOn ":" with
    | ["a", _, i, o] => i ≠ o
    | _ => false)
  { model := out,
    fails := (if bad.isEmpty then [] else ["C16:answer-written-on-a-different-stream"]) ++
             (if implOut = "stalled" then ["C16:concurrent-answers-stall"] else []),
    tags := [s!"canswer streams={streams.length} rounds={rounds}"] }

/-- `sctp wstall wt=.. stall=.. retries=<k> n=<msgs> .. => w:<id>:<times on the wire>:<nil|err> ...`:
    the transport takes every write in full after a delay, so the outcome script of each
    `writeRetry` is "everything accepted" (`Model.Retry`): one offered buffer, accepted whole, no
    error - whatever the Server's WriteTimeout is. A message seen twice, or a failed write whose
    bytes were delivered, is a C07 verdict. -/
def judgeWStall (retries n : Nat) (impl : List String) : Judged :=
  let res := writeRetry [0] retries []
  let rows := (List.range n).map (fun i =>
    s!"w:{7000 + i}:{res.accepted.length}:{if res.err.isNone then "nil" else "err"}")
  let dup := impl.filter (fun t => match t.splitOn ":" with
    | ["w", _, c, _] => (c.toNat?.getD 0) > 1
    | _ => false)
  let lost := impl.filter (fun t => match t.splitOn ":" with
    | ["w", _, c, e] => c = "0" ∨ (e = "err" ∧ c ≠ "0")
    | _ => false)
  { model := " ".intercalate rows,
    fails := (if dup.isEmpty then [] else ["C07:message-reached-the-transport-more-than-once"]) ++
             (if lost.isEmpty then [] else ["C07:write-reported-failed-or-lost-on-a-transport-that-took-every-byte"]) ++
             (if impl = ["stalled"] then ["C07:writers-stall-on-a-slow-multistream-transport"] else []),
    tags := [s!"wstall retries={retries} n={n}"] }

end DV.Drv
