import Driver.Util
import Driver.DictRt
import Driver.Codec
import Driver.Stream
import Driver.Retry
import Driver.Mux
import Driver.Dict
import Driver.SM
import Driver.Conn
import Driver.Alias
import Driver.Sctp
import Driver.Client
import Driver.Reflect
import Driver.Resource
/-!
  Driver — reads correspondence lines `domain op args… => impl-output` on stdin and prints,
  per line, tab-separated: index, agree|DISAGREE|BADLINE, Spec verdicts (comma separated or
  "holds"), nontrivial flag, branch tags, model output.
-/
open DV DV.Drv

structure St where
  dicts : Std.HashMap String DictRt
  intern : Intern
  defaultLog : DV.Spec.Log

def emit (idx : Nat) (impl : String) (j : Judged) : String :=
  let agree := if j.model = impl then "agree" else "DISAGREE"
  let v := if j.fails.isEmpty then "holds" else ",".intercalate (j.fails.map (fun f => "FAILS:" ++ f))
  s!"{idx}\t{agree}\t{v}\t{if j.nontrivial then 1 else 0}\t{" ".intercalate j.tags}\t{j.model}"

def parseCodes (s : String) : List Nat := (s.splitOn ".").filterMap String.toNat?

def handle (st : St) (idx : Nat) (line : String) : St × String :=
  match line.splitOn " => " with
  | [lhs, impl] =>
    let toks := (lhs.splitOn " ").filter (· ≠ "")
    let implToks := splitImpl impl
    let dict := st.dicts.getD ((kv toks "d").getD "default") defaultDict
    let bad := (st, s!"{idx}\tBADLINE\t-\t0\t-\t-")
    match toks with
    | "codec" :: "decode" :: rest =>
      (match fromHex (rest.getLast?.getD "") with
       | some bs => (st, emit idx impl (judgeDecode dict bs implToks))
       | none => bad)
    | "codec" :: "build" :: rest =>
      (match (rest.find? (·.startsWith "H(")).bind parseHdr, (rest.find? (·.startsWith "[")).bind parseAVPs with
       | some h, some as => (st, emit idx impl (judgeBuild dict ((kv rest "ops").getD "") h as implToks))
       | _, _ => bad)
    | "codec" :: "answer" :: rest =>
      (match (rest.find? (·.startsWith "H(")).bind parseHdr with
       | some h => (st, emit idx impl (judgeAnswer h ((kvNat rest "rc").getD 0) ((kvNat rest "stream").getD 0) implToks))
       | none => bad)
    | "codec" :: "find" :: rest =>
      (match (rest.find? (·.startsWith "[")).bind parseAVPs, kv rest "q" with
       | some as, some q =>
         (match q.splitOn ":" with
          | [mode, cs] => (st, emit idx impl (judgeFind dict ((kvNat rest "app").getD 0) as mode (parseCodes cs) implToks))
          | _ => bad)
       | _, _ => bad)
    | "mux" :: "dispatch" :: rest =>
      let (i', j) := judgeMux dict st.intern ((kv rest "regs").getD "-") ((kv rest "msg").getD "") implToks
      ({ st with intern := i' }, emit idx impl j)
    | "mux" :: "seq" :: rest =>
      let (i', j) := judgeMuxSeq dict st.intern ((kv rest "ops").getD "-") implToks
      ({ st with intern := i' }, emit idx impl j)
    | "codec" :: "findn" :: rest =>
      (match (rest.find? (·.startsWith "[")).bind parseAVPs with
       | some as =>
         let (i', j) := judgeFindN st.intern ((kvNat rest "app").getD 0) ((kv rest "sets").getD "") ((kv rest "name").getD "")
           ((kv rest "mode").getD "first") as implToks
         ({ st with intern := i' }, emit idx impl j)
       | none => bad)
    | "smserver" :: "multi" :: rest =>
      let locals := ((kv rest "locals").getD "").splitOn ","
      let segss := ((kv rest "segs").getD "").splitOn "^"
      -- the trailing META: token (metadata of earlier connections re-read at the end) belongs to no part
      let metaBad := implToks.any (·.startsWith "META:changed")
      let keptBadAll := (implToks.getLast?.getD "").startsWith "KEPT:changed"
      let implToks := if keptBadAll then implToks.dropLast else implToks
      let implToks := implToks.filter (fun t => ¬ t.startsWith "META:")
      let implParts := (" ".intercalate implToks).splitOn " || "
      let (i', outs, fails, tags) := (locals.zip segss).zipIdx.foldl (fun (acc : Intern × List String × List String × List String) x =>
        let ((l, sg), k) := x
        let (i2, j) := judgeSMServer dict acc.1 ((kvNat rest "cfg").getD 0) l ((kv rest "regs").getD "-") sg
          (((implParts.getD k "").splitOn " ").filter (· ≠ ""))
        (i2, acc.2.1 ++ [j.model], acc.2.2.1 ++ j.fails, acc.2.2.2 ++ j.tags)) (st.intern, [], [], [])
      let fails := fails ++ (if metaBad then ["C11:metadata-of-an-earlier-connection-changed"] else []) ++
        (if keptBadAll then ["C06:message-kept-by-the-application-changed-after-later-reads"] else [])
      ({ st with intern := i' }, emit idx impl { model := " || ".intercalate outs, fails := fails, tags := ("multi" :: tags).eraseDups.take 10 })
    | "smserver" :: "hist" :: rest =>
      let (i', j) := judgeSMServer dict st.intern ((kvNat rest "cfg").getD 0) ((kv rest "local").getD "v4")
        ((kv rest "regs").getD "-") ((kv rest "segs").getD "") implToks
      ({ st with intern := i' }, emit idx impl j)
    | "dict" :: "query" :: rest =>
      let (i', j) := judgeDict st.intern ((kv rest "set").getD "default") (kvNat rest "k") ((kv rest "qs").getD "-") implToks
        defaultDict.parser st.defaultLog
      ({ st with intern := i' }, emit idx impl j)
    | "dict" :: "types" :: _ =>
      let names := Gen.available.map (·.1)
      let model := ",".intercalate (names.map (fun n => n ++ "=ok"))
      let bad := ((implToks.headD "").splitOn ",").filter (fun t => ¬ t.endsWith "=ok")
      (st, emit idx impl { model := model, fails := bad.map (fun t => s!"C17:type-not-encodable-and-decodable:{t}"), tags := ["types"] })
    | "retry" :: "write" :: rest =>
      (match (kv rest "b").bind fromHex with
       | some b => (st, emit idx impl (judgeRetry ((kvNat rest "r").getD 0) (parseOutcomes ((kv rest "outs").getD "-")) b implToks (kvNat rest "s")))
       | none => bad)
    | "retry" :: "conn" :: rest =>
      (match (kv rest "b").bind fromHex with
       | some b => (st, emit idx impl (judgeRetryConn ((kvNat rest "r").getD 0) (parseOutcomes ((kv rest "outs").getD "-")) b implToks))
       | none => bad)
    | "resource" :: "claim" :: rest =>
      (st, emit idx impl (judgeClaim ((kvNat rest "declared").getD 0) ((kvNat rest "supplied").getD 0) implToks))
    | "resource" :: "buflen" :: rest =>
      -- MessageBufferLength is a variable the application may set; whatever its value was when a
      -- pooled buffer was made, a well-formed message is read (C03_message_nopanic has no such
      -- premise) and a message is written whole (C07: every size)
      let rd := (kv implToks "err").getD (implToks.headD "")
      let wr := (kv implToks "w").getD "-"
      let pd := (kv implToks "p").getD "-"
      (st, emit idx impl { model := "err=ok w=ok p=ok",
                           fails := (if rd = "ok" then [] else
                             (if rd.startsWith "panic" ∨ rd.startsWith "crash" then ["C03:panic-reading-a-well-formed-message-after-the-buffer-length-was-changed"]
                              else ["C03:well-formed-message-rejected-after-the-buffer-length-was-changed"])) ++
                            (if wr = "ok" then [] else ["C07:message-not-written-after-the-buffer-length-was-raised"]) ++
                            (if pd = "ok" then [] else
                              ["C05:message-lost-by-a-reader-that-was-waiting-when-the-buffer-length-changed",
                               "C03:panic-reading-a-well-formed-message-after-the-buffer-length-was-changed"]),
                           tags := [s!"buflen to={(kvNat rest "to").getD 0} body={(kvNat rest "body").getD 0}"] })
    | "resource" :: "retain" :: rest =>
      (st, emit idx impl (judgeRetain ((kvNat rest "msgs").getD 0) ((kvNat rest "per").getD 0) ((kvNat rest "g").getD 0) implToks))
    | "resource" :: "nest" :: rest =>
      (st, emit idx impl (judgeNest ((kvNat rest "depth").getD 0) ((kv rest "op").getD "") implToks))
    | "reflect" :: "rt" :: _ => (st, emit idx impl (judgeReflect implToks))
    | "conn" :: "lw" :: rest => (st, emit idx impl (judgeConnLW ((kv rest "ev").getD "") implToks))
    | "sctp" :: "canswer" :: rest => (st, emit idx impl (judgeCAnswer ((kv rest "streams").getD "") ((kvNat rest "rounds").getD 0) implToks))
    | "sctp" :: "wstall" :: rest => (st, emit idx impl (judgeWStall ((kvNat rest "retries").getD 0) ((kvNat rest "n").getD 0) implToks))
    | "conn" :: "tlscn" :: _ =>
      -- a connection whose TLS handshake fails is gone: the reader loop has ended, so a channel
      -- requested before or after is closed (C14_quiet / C14_late_request)
      (st, emit idx impl { model := "cn=closed",
                           fails := if implToks.headD "" = "cn=closed" then [] else ["C14:close-notify-did-not-fire"],
                           tags := ["tlscn"] })
    | "conn" :: "burst" :: rest =>
      -- every accepted connection has a serve loop of its own (C15_listener: accept spawns serve,
      -- Gen.acceptSpawnsServe), and each loop dispatches its connection's messages in order (C08_order)
      let k := (kvNat rest "k").getD 0
      let model := s!"served={k}/{k} order=ok"
      let implOut := " ".intercalate implToks
      (st, emit idx impl { model := model,
                           fails := if implOut = model then [] else
                             ["C08:connection-accepted-in-a-burst-not-served-in-order-by-one-loop", "C15:connection-accepted-in-a-burst-not-served"],
                           tags := [s!"burst k={k}"] })
    | "conn" :: "pipeline" :: rest =>
      -- every message a handler's Write returned success for is in the transport when the
      -- connection is quiescent (C07_quiescent; respWrite_healthy: Write flushes before it returns)
      let pat := (kv rest "pat").getD ""
      let nreq := (pat.toList.filter (· = 'R')).length
      let model := s!"answers={nreq}/{nreq}"
      let implOut := " ".intercalate implToks
      (st, emit idx impl { model := model,
                           fails := if implOut = model then [] else ["C07:message-reported-written-has-not-reached-the-transport"],
                           tags := [s!"pipeline n={pat.length}"] })
    | "conn" :: "wfail" :: rest =>
      -- a failed write is not the end of the connection: the channel closes only when the
      -- connection is gone (C14_only_when_gone), and then it does (C14_once)
      let model := "w=err early=quiet alive=1 end=fired"
      let early := (kv implToks "early").getD ""
      let alive := (kv implToks "alive").getD ""
      let fin := (kv implToks "end").getD ""
      (st, emit idx impl { model := model,
                           fails := (if early = "fired" then ["C14:close-notify-fired-while-the-connection-was-alive"] else []) ++
                                    (if alive = "1" then [] else ["C15:connection-lost-after-a-failed-write"]) ++
                                    (if fin = "fired" then [] else ["C14:close-notify-did-not-fire"]),
                           tags := [s!"wfail cn={(kvNat rest "cn").getD 0} kind={(kv rest "kind").getD "-"}"] })
    | "conn" :: "rdl" :: rest =>
      -- the same bytes, however they are cut into reads, give the same messages (C05_frag): with
      -- a ReadTimeout the second message arrives 0.7 T after it was begun, whether or not its first
      -- bytes came in the same read as the previous message
      let model := "a=1 b=1 end=open"
      let implOut := " ".intercalate implToks
      (st, emit idx impl { model := model,
                           fails := if implOut = model then [] else ["C05:outcome-depends-on-how-the-stream-was-cut-into-reads"],
                           tags := [s!"rdl cut={(kvNat rest "cut").getD 0}"] })
    | "conn" :: "slowh" :: rest =>
      -- handlers slower than the Server's ReadTimeout, the next messages already buffered: the
      -- reader loop is still "read, dispatch, wait for the handler" (C08_one_at_a_time, C08_order)
      let n := (kvNat rest "n").getD 0
      let evs := (List.range n).flatMap (fun i => [s!"s{i+1}", s!"e{i+1}"])
      let model := s!"ev={",".intercalate evs} max=1"
      let implOut := " ".intercalate implToks
      let mx := (kvNat implToks "max").getD 0
      (st, emit idx impl { model := model,
                           fails := (if mx > 1 then ["C08:two-handlers-active-on-one-connection"] else []) ++
                                    (if implOut ≠ model ∧ mx ≤ 1 then ["C08:handlers-not-run-in-arrival-order-to-completion"] else []),
                           tags := [s!"slowh n={n}"] })
    | "conn" :: "bigblock" :: rest =>
      -- a handler that has not returned holds up its own connection's reader and nobody else's
      -- (C08_frame: the connections' loops share nothing; sizes do not enter)
      let k := (kvNat rest "k").getD 0
      let model := s!"started={k}/{k} other=served"
      let implOut := " ".intercalate implToks
      (st, emit idx impl { model := model,
                           fails := if implOut = model then [] else ["C08:blocked-handlers-delay-dispatch-on-other-connections"],
                           tags := [s!"bigblock k={k}"] })
    | "conn" :: "fullrep" :: rest =>
      -- offering an error report never holds the reader up (C15_one_report: the channel has one
      -- slot and the offer is dropped when it is taken - Gen.channelSends), so the connection ends
      -- and its notification fires (C14_once)
      let model := "closed=1 cn=fired"
      let implOut := " ".intercalate implToks
      (st, emit idx impl { model := model,
                           fails := if implOut = model then [] else
                             ["C14:close-notify-did-not-fire", "C15:reader-held-up-by-an-unread-error-report"],
                           tags := [s!"fullrep cn={(kvNat rest "cn").getD 0}"] })
    | "conn" :: "stall" :: rest =>
      -- however a connection with a stuck writer ends, its transport is closed - which is what
      -- fails the stuck write (C15_write_contained / C15_late_write_fails) -, the notification
      -- fires (C14_once, C14_only_when_gone) and the listener carries on (C15_listener)
      let srv := (kvNat rest "srv").getD 0
      let cn := (kvNat rest "cn").getD 0
      let model := s!"closed=1 cn={if cn = 1 then "fired" else "-"} write=err b={if srv = 1 then "served" else "-"}"
      let closed := (kv implToks "closed").getD "" = "1"
      let cnOk := cn = 0 ∨ (kv implToks "cn").getD "" = "fired"
      let wOk := (kv implToks "write").getD "" = "err"
      let bOk := srv = 0 ∨ (kv implToks "b").getD "" = "served"
      (st, emit idx impl { model := model,
                           fails := (if closed then [] else ["C14:connection-with-a-stuck-writer-never-closed", "C15:connection-with-a-stuck-writer-never-closed"]) ++
                                    (if cnOk then [] else ["C14:close-notify-did-not-fire"]) ++
                                    (if wOk then [] else ["C15:stuck-write-not-released-when-the-connection-ended"]) ++
                                    (if bOk then [] else ["C15:fault-on-one-connection-stops-the-listener"]),
                           tags := [s!"stall how={(kv rest "how").getD "-"} srv={srv} cn={cn}"] })
    | "conn" :: "xtalk" :: rest =>
      -- every connection is handed its own messages (C15_frame); every faulty one is closed
      let k := (kvNat rest "k").getD 0
      let f := (kvNat rest "f").getD 0
      let rounds := (kvNat rest "rounds").getD 0
      let model := " ".intercalate ((List.range k).map (fun i => s!"c{i}=ok")) ++ s!" | faults={f * rounds}/{f * rounds}"
      let foreign := implToks.any (fun t => t.endsWith "=foreign")
      let lost := implToks.any (fun t => t.endsWith "=lost")
      let implOut := " ".intercalate implToks
      (st, emit idx impl { model := model,
                           fails := (if foreign then ["C15:handler-given-bytes-of-another-connection", "C05:message-bytes-are-not-those-of-its-own-stream"] else []) ++
                                    (if lost then ["C15:message-on-healthy-connection-lost-after-faults-elsewhere", "C05:message-of-a-healthy-stream-not-delivered"] else []) ++
                                    (if ¬ foreign ∧ ¬ lost ∧ implOut ≠ model then ["C15:faulty-connection-not-closed"] else []),
                           tags := [s!"xtalk fk={(kvNat rest "fk").getD 0} big={(kvNat rest "big").getD 0}"] })
    | "smserver" :: "tlscer" :: rest =>
      -- behind a TLS listener a CER is judged as anywhere else (C11_accept_iff has no transport in it)
      let (i', j) := judgeSMServer dict st.intern ((kvNat rest "cfg").getD 0) "empty" "-" ((kv rest "segs").getD "") implToks
      ({ st with intern := i' }, emit idx impl { j with tags := "tlscer" :: j.tags })
    | "smserver" :: "many" :: rest =>
      -- the k-th connection on a state machine is served like the first: the gate looks at the
      -- connection's own context (C10_gate / C10_after) and no handler waits for an application
      -- that does not read the optional channels (Gen.channelSends)
      let n := (kvNat rest "n").getD 0
      let model := s!"ok={n}/{n}"
      let implOut := " ".intercalate implToks
      (st, emit idx impl { model := model,
                           fails := if implOut = model then [] else
                             ["C10:later-connection-of-the-state-machine-not-served", "C11:later-connection-of-the-state-machine-not-served"],
                           tags := [s!"many n={n}"] })
    | "smclient" :: "redial" :: rest =>
      let n := (kvNat rest "n").getD 0
      let model := s!"ok={n}/{n}"
      let implOut := " ".intercalate implToks
      (st, emit idx impl { model := model,
                           fails := if implOut = model then [] else
                             ["C12:successful-handshake-reported-as-failure", "C10:later-connection-of-the-client-not-usable"],
                           tags := [s!"redial n={n}"] })
    | "smclient" :: "dialtcp" :: rest =>
      -- after a successful handshake the connection is open and carries the application's
      -- requests, whenever they are written (C12_stable: nothing closes it; the dial timeout
      -- bounds the dial, not the life of the connection)
      let model := "dial=ok w1=ok w2=ok recv=2"
      let implOut := " ".intercalate implToks
      (st, emit idx impl { model := model,
                           fails := if implOut = model then [] else
                             (if implOut = "no-loopback" then [] else ["C12:established-connection-not-usable-after-the-handshake"]),
                           tags := [s!"dialtcp via={(kv rest "via").getD "-"}"] })
    | "smclient" :: "cea" :: _ => (st, emit idx impl (judgeCEA dict implToks))
    | "smclient" :: "dial" :: rest =>
      (st, emit idx impl (judgeDial dict ((kvNat rest "r").getD 0) ((kvNat rest "cfg").getD 0) ((kvNat rest "wf").getD 0)
        ((kv rest "beh").getD "-") ((kv rest "post").getD "-")
        (match kvNat rest "la6" with
         | some k => [0x20, 0x01, 0x0d, 0xb8, 0, 0, 0, 0, 0, 0, 0, 0, 0, 0, 0, k]
         | none => (if (kv rest "la") = some "zone" then [] else
                     ((kv rest "la").getD "10.1.2.3").splitOn "." |>.map (fun t => t.toNat?.getD 0))) implToks
        ((kvNat rest "am").getD 0)))
    | "smclient" :: "wd" :: rest =>
      (st, emit idx impl (judgeWD dict ((kvNat rest "r").getD 0) ((kv rest "beh").getD "-") implToks))
    | "sctp" :: "demux" :: rest =>
      let fin := if kv rest "fin" = some "err" then Fin.err else Fin.eof
      (st, emit idx impl (judgeSctpDemux dict fin ((kv rest "chunks").getD "-") implToks))
    | "sctp" :: "serve" :: rest =>
      let fin := if kv rest "fin" = some "err" then Fin.err else Fin.eof
      (st, emit idx impl (judgeSctpServe dict fin ((kv rest "cn").getD "none") ((kv rest "chunks").getD "-") implToks))
    | "alias" :: "twin" :: _ =>
      -- two reads give two trees that share nothing (C06_owned: every value of a decoded message
      -- is its own copy), so editing one in place leaves the other as it was
      let implOut := " ".intercalate implToks
      (st, emit idx impl { model := "twin=same len=ok",
                           fails := if implOut = "twin=same len=ok" then [] else ["C06:message-changed-by-editing-another-message-with-the-same-group"],
                           tags := ["twin"] })
    | "alias" :: "leaf" :: rest =>
      (match (kv rest "p").bind (fun x => fromHex (x.drop 1).toString) with
       | some p => (st, emit idx impl (judgeAliasLeaf ((kvNat rest "t").getD 0) p implToks))
       | none => bad)
    | "alias" :: "hist" :: rest =>
      (match (kv rest "a").bind fromHex with
       | some a =>
         let nl := (((kv rest "later").getD "").splitOn ",").filter (· ≠ "") |>.length
         (st, emit idx impl (judgeAliasHist dict a nl ((kv rest "g").getD "same") implToks))
       | none => bad)
    | "conn" :: "serve" :: rest =>
      (st, emit idx impl (judgeConn dict ((kvNat rest "n").getD 1) (kv rest "h" == some "mux" || kv rest "h" == some "mux2") (kv rest "x" == some "1") ((kv rest "ev").getD "") implToks (kv rest "h" == some "mux2")))
    | "conn" :: "accept" :: rest => (st, emit idx impl (judgeAccept ((kv rest "ev").getD "") implToks ((kv rest "hold").getD "0" == "1")))
    | "conn" :: "cwrite" :: _ => (st, emit idx impl (judgeCwrite implToks))
    | "stream" :: "read" :: rest =>
      (match fromHex (rest.getLast?.getD "") with
       | some bs =>
         let fin := if kv rest "fin" = some "err" then Fin.err else Fin.eof
         let sizes := ((kv rest "frags").getD "").splitOn "," |>.filterMap String.toNat?
         (st, emit idx impl (judgeStream dict fin ((kv rest "via").getD "direct") sizes bs implToks))
       | none => bad)
    | _ => bad
  | _ => (st, s!"{idx}\tBADLINE\t-\t0\t-\t-")

partial def loop (h : IO.FS.Stream) (out : IO.FS.Stream) (st : St) (idx : Nat) : IO Unit := do
  let line ← h.getLine
  if line.isEmpty then return ()
  let line := String.ofList (line.toList.reverse.dropWhile (fun c => c = '\n' || c = '\r')).reverse
  if line.isEmpty || line.startsWith "#" then
    loop h out st (idx + 1)
  else
    let (st', o) := handle st idx line
    out.putStrLn o
    loop h out st' (idx + 1)

def main : IO Unit := do
  let stdin ← IO.getStdin
  let stdout ← IO.getStdout
  let st : St := { dicts := (({} : Std.HashMap String DictRt).insert "default" defaultDict), intern := Intern.init,
                   defaultLog := DV.Spec.logAll Gen.availableIds Gen.dictFiles }
  loop stdin stdout st 0
  stdout.flush
