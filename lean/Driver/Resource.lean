import Driver.Util
import Driver.Codec
import Model.Cost
/-! Driver.Resource — the `resource` correspondence domain (C03, third sentence). -/
namespace DV.Drv

def withinStr (b : Bool) : String := if b then "within" else "over"

/-- `resource claim declared=<L> supplied=<k> => err=<class> bytes=<n>` -/
def judgeClaim (declared supplied : Nat) (impl : List String) : Judged :=
  let implStr := " ".intercalate impl
  let chunk := if Gen.bodyChunkLength > 0 then Gen.bodyChunkLength else 65536
  -- allowance: a small multiple of what was supplied plus a constant (one piece read ahead,
  -- the pooled buffer, the message and reader objects)
  let bound := 6 * (supplied + chunk) + 65536
  let reserved := bodyReserved Gen.bodyChunkLength (declared - 20) (supplied - 20)
  -- the buffer is doubled when full: all buffers together stay below four times what is needed
  let factor := if Gen.bodyChunkLength = 0 ∨ declared - 20 ≤ Gen.bodyChunkLength then 1 else 4
  let modelWithin := decide (factor * reserved + 65536 ≤ bound)
  if (impl.headD "").startsWith "crash" then
    { model := s!"bytes-expected-{withinStr modelWithin}", fails := ["C03:process-crash:claimed-length"],
      tags := [s!"claim declared={declared} supplied={supplied} crash"] }
  else
    let n := (kvNat impl "bytes").getD 0
    let implWithin := decide (n ≤ bound)
    { model := if implWithin = modelWithin then implStr else s!"bytes-expected-{withinStr modelWithin}",
      fails := if implWithin then [] else ["C03:memory-follows-declared-length-not-bytes-supplied"],
      tags := [s!"claim declared={if declared ≤ 1044 then "pooled" else if declared ≤ 65556 then "onepiece" else "large"} ratio={if supplied = 0 then 0 else n / supplied} {withinStr implWithin}"] }

/-- `resource nest depth=<d> op=<..> => err=.. in=.. out=.. bytes=<n>` -/
def judgeNest (depth : Nat) (op : String) (impl : List String) : Judged :=
  let implStr := " ".intercalate impl
  if (impl.headD "").startsWith "crash" then
    let what := (impl.headD "").drop 6 |>.toString
    -- the model has no notion of a process running out of stack, memory or time: it makes no
    -- prediction here (agree); the Spec verdict judges the crash
    -- running out of time while rendering / serialising is the superlinear cost itself
    let cause := if what = "timeout" ∧ op ≠ "decode" then s!"C03:memory-superlinear-in-nesting-depth:{op}" else s!"C03:deep-nesting-{what}:{op}"
    { model := implStr, fails := [cause], tags := [s!"nest depth={depth} op={op} crash"] }
  else
    let n := (kvNat impl "bytes").getD 0
    let inp := (kvNat impl "in").getD 1
    let bound := 64 * inp + 1048576
    let implWithin := decide (n ≤ bound)
    -- only Serialize has a cost model (every grouped level copies its members once more)
    let modelWithin : Option Bool := if op = "serialize" then some (decide ((nest depth).copyCost + 16 * inp ≤ bound)) else none
    { model := (match modelWithin with
        | some mw => if mw = implWithin then implStr else s!"bytes-expected-{withinStr mw}"
        | none => implStr),
      fails := if implWithin then [] else [s!"C03:memory-superlinear-in-nesting-depth:{op}"],
      tags := [s!"nest depth={depth} op={op} ratio={n / inp} {withinStr implWithin}"] }

/-- `resource retain msgs=<n> per=<k> g=<g> => err=ok bad=<b> in=<bytes> retained=<bytes>`: decoding
    is a function of the bytes and the (read-only) dictionary (`Model.Codec.decodeMsg` has no state
    to grow), so once the messages are dropped nothing of them stays: a constant allowance -/
def judgeRetain (msgs per g : Nat) (impl : List String) : Judged :=
  let implStr := " ".intercalate impl
  if (impl.headD "").startsWith "crash" then
    { model := "err=ok bad=0 retained-within", fails := [s!"C03:process-crash:decoding-unknown-avps:{((impl.headD "").drop 6).toString.take 60}"],
      tags := [s!"retain g={g} crash"] }
  else
    let n := (kvNat impl "retained").getD 0
    let bad := (kvNat impl "bad").getD 0
    let bound := 2 * 1048576
    let within := decide (n ≤ bound)
    { model := if within ∧ bad = 0 then implStr else "err=ok bad=0 retained-within",
      fails := (if within then [] else ["C03:memory-retained-after-the-messages-were-dropped"]) ++
               (if bad = 0 then [] else ["C03:unknown-avp-not-decoded"]),
      tags := [s!"retain msgs={msgs} per={per} g={g} {withinStr within}"] }

end DV.Drv
