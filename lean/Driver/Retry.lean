import Driver.Util
import Driver.Codec
import Model.Retry
import Model.Bufio
/-! Driver.Retry — `retry write` (C07 A) and the summary line of `conn cwrite` (C07 B). -/
namespace DV.Drv

def parseOutcomes (s : String) : List Outcome :=
  if s = "-" then [] else
  (s.splitOn ",").filterMap (fun t =>
    match t.splitOn ":" with
    | [k, e] => (k.toNat?).map (fun n => { k := n, err := if e = "t" then some EK.temp else if e = "p" then some EK.perm else none })
    | _ => none)

def showEK : Option EK → String
  | none => "nil"
  | some .temp => "temp"
  | some .perm => "perm"

/-- `retry write r=<n> ms=<0|1> outs=<k:e,..> b=<hex> => off=<hex,..> acc=<hex> n=<n> err=<..>` -/
def judgeRetry (r : Nat) (outs : List Outcome) (b : Bytes) (impl : List String) (stream : Option Nat := none) : Judged :=
  let res := writeRetry b r outs
  -- every attempt of a write to a multistream writer names the stream the message leaves on
  let via := match stream with
    | some s => s!" via={".".intercalate (List.replicate res.offered.length (toString s))}"
    | none => ""
  let modelOut := s!"off={",".intercalate (res.offered.map hexOrDash)} acc={hexOrDash res.accepted.flatten} n={res.n} err={showEK res.err}{via}"
  Id.run do
    let mut fails : List String := []
    let acc := ((kv impl "acc").bind fromHex).getD []
    let n := (kvNat impl "n").getD 0
    let err := (kv impl "err").getD ""
    let offs := (((kv impl "off").getD "").splitOn ",").filterMap fromHex
    if acc ≠ b.take n then fails := "C07:accepted-bytes-not-a-prefix-of-message" :: fails
    if n ≠ acc.length then fails := "C07:returned-count-wrong" :: fails
    if err = "nil" ∧ acc ≠ b then fails := "C07:nil-error-but-message-incomplete" :: fails
    -- each attempt is offered exactly the not-yet-accepted suffix
    let accLens := res.accepted.map List.length
    let expOff := (List.range offs.length).map (fun i => b.drop ((accLens.take i).foldl (· + ·) 0))
    if offs ≠ expOff then fails := "C07:offered-bytes-not-the-remaining-suffix" :: fails
    if offs.length > r + 1 then fails := "C07:more-attempts-than-budget" :: fails
    match stream, kv impl "via" with
    | some s, some v =>
      if (v.splitOn ".").any (fun t => t ≠ toString s) then
        fails := "C19:retried-reply-leaves-on-another-stream" :: "C16:retried-write-leaves-on-another-stream" :: fails
    | _, _ => pure ()
    return { model := modelOut, fails := fails.reverse,
             tags := [s!"attempts={res.offered.length} err={showEK res.err} partial={decide (res.accepted.any (fun a => a.length > 0 ∧ a.length < b.length))}"] }

/-- the second message of `retry conn` (a DWA with Result-Code 2001) -/
def retryConnPost : Bytes :=
  [1,0,0,32, 0, 0,1,24, 0,0,0,0, 0,0,0,7, 0,0,0,7, 0,0,1,12, 0x40, 0,0,12, 0,0,7,0xd1]

/-- `retry conn r=<n> outs=<k:e,..> b=<hex> => acc=<hex> n=<n> err=<..> post=<nil|err>:<hex>` -/
def judgeRetryConn (r : Nat) (outs : List Outcome) (b : Bytes) (impl : List String) : Judged :=
  let res := connWriteRetry r {} b outs
  let ((_, pe), pw) := respWrite res.st retryConnPost res.os
  let modelOut := s!"acc={hexOrDash res.accepted.flatten} n={res.n} err={showEK res.err} post={if pe.isNone then "nil" else "err"}:{hexOrDash pw.acc.flatten}"
  Id.run do
    let mut fails : List String := []
    let acc := ((kv impl "acc").bind fromHex).getD []
    let n := (kvNat impl "n").getD 0
    let err := (kv impl "err").getD ""
    let postTok := (kv impl "post").getD "nil:-"
    let pacc := (((postTok.splitOn ":").getD 1 "-") |> fromHex).getD []
    if acc ≠ b.take acc.length then fails := "C07:transport-given-bytes-twice-or-out-of-order" :: fails
    if err = "nil" ∧ acc ≠ b then fails := "C07:nil-error-but-message-incomplete" :: fails
    if err = "nil" ∧ n ≠ b.length then fails := "C07:returned-count-wrong" :: fails
    -- the stream stays framed: after an incomplete message nothing more may follow it
    if acc.length ≠ 0 ∧ acc ≠ b ∧ pacc.length ≠ 0 then fails := "C07:stream-out-of-frame-after-failed-write" :: fails
    if pacc ≠ retryConnPost.take pacc.length then fails := "C07:transport-given-bytes-twice-or-out-of-order" :: fails
    return { model := modelOut, fails := fails.reverse.eraseDups,
             tags := [s!"retryconn len={b.length} attempts={res.attempts} err={showEK res.err} partial={decide (res.accepted.flatten.length > 0 ∧ res.accepted.flatten.length < b.length)} direct={decide (b.length > 4096)}"] }

/-- `conn cwrite ... => whole=<ok|..> multiset=<ok|..> order=<ok|..>` -/
def judgeCwrite (impl : List String) : Judged :=
  let bad := impl.filter (fun t => ¬ t.endsWith "=ok")
  { model := "whole=ok multiset=ok order=ok",
    fails := bad.map (fun t => s!"C07:concurrent-writes:{(t.splitOn "=").headD ""}"),
    tags := ["cwrite"] }

end DV.Drv
