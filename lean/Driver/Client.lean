import Driver.Util
import Driver.DictRt
import Driver.Codec
import Driver.SM
import Model.Client
import Gen.Consts
import Gen.Struct
/-! Driver.Client — the `smclient` correspondence domain (C12, C13). -/
namespace DV.Drv

def showCEAErr : CEAErr → String
  | .missingResultCode => "missingrc"
  | .missingHost => "missinghost"
  | .missingRealm => "missingrealm"
  | .failedResultCode rc => s!"failedrc:{rc}"
  | .application => "application"
  | .unexpected => "unexpected"

/-- the CEA the harness' scripted peer sends for a reaction letter: its class for the model -/
def reactionClass (b : String) (am : Nat := 0) : Option (Option String) :=   -- some none: success; some (some c): failing with class c
  -- Y: a success CEA sharing only application 16777999: common exactly when the connection's
  -- dictionary (the client's own, am=3) knows that application
  if b = "Y" then (if am = 3 then some none else some (some "application"))
  -- R: a success CEA that advertises only the relay application (0xffffffff): common with everything
  else if b = "R" then some none
  else if b = "S" ∨ b = "Z" ∨ b = "C" then some none   -- Z: success CEA with an application answer right behind it; C: the peer's own CER and an answer first
  else if b = "F" then some (some "failedrc:5012")
  else if b = "M" then some (some "missinghost")
  else if b = "A" then some (some "application")
  else if b = "U" then some (some "application")
  else if b = "X" then some (some "failedrc:5012")   -- the first CEA of the segment decides: it fails
  else none

/-- `smclient cea rc=.. host=.. realm=.. apps=.. => <class> [meta] msg=<hex>` -/
def judgeCEA (d : DictRt) (impl : List String) : Judged :=
  let dfn := d.dictFn
  let msgHex := (kv impl "msg").getD ""
  match (fromHex msgHex).map (decodeMsg dfn) with
  | some (.ok m) =>
    let r := ceaParse appOKDefault m.avps
    let model := match r with
      | .ok mt => s!"ok {showMeta mt}"
      | .error e => showCEAErr e
    let implOut := " ".intercalate (impl.filter (fun t => ¬ t.startsWith "msg="))
    -- Spec: accepted iff Result-Code 2001, identity present, an application shared
    let accImpl := implOut.startsWith "ok"
    let rc := u32Field C.resultCode m.avps
    let want := rc = 2001 ∧ ¬ (strField C.originHost m.avps).isEmpty ∧ ¬ (strField C.originRealm m.avps).isEmpty ∧
      (appParse appOKDefault (allOf C.acctApp m.avps) (allOf C.authApp m.avps) (allOf C.vsa m.avps)).1.isNone
    let fails := if accImpl ∧ ¬ want then ["C12:cea-accepted-without-success-identity-or-common-application"]
      else if ¬ accImpl ∧ want then ["C12:acceptable-cea-rejected"] else []
    { model := model ++ " msg=" ++ msgHex, fails := fails, tags := [s!"cea {(model.splitOn " ").headD ""}"] }
  | _ => { model := "undecodable", fails := [], tags := ["cea undecodable"] }

/-- `smclient dial r=<R> cfg=<k> beh=<..> post=<..> wf=<k> [la=<a.b.c.d> prev=<n>] => out=.. cers=.. same=.. gap=.. closed=.. post=.. cer=..` -/
def judgeDial (d : DictRt) (R cfgK wf : Nat) (behTok postTok : String) (la : List Nat) (impl : List String) (am : Nat := 0) : Judged :=
  let dfn := d.dictFn
  let beh := if behTok = "-" ∨ behTok = "" then [] else behTok.splitOn "."
  let post := if postTok = "-" ∨ postTok = "" then [] else postTok.splitOn "."
  -- run the model round by round
  let s0 : HS := HS.init R Gen.capErrc Gen.ceaHandlerOnce false
  let stepAll := fun (s : HS) (es : List HEv) => es.foldl (fun (acc : HS) e => (acc.step e).getD acc) s
  let rec go (fuel k : Nat) (s : HS) (cls : String) : HS × String :=
    match fuel with
    | 0 => (s, cls)
    | fuel+1 =>
      match s.pc with
      | .done _ => (s, cls)
      | _ =>
        -- round k (1-based): the write
        let s1 := if wf = k ∨ s.readerGone then stepAll s [.writeFail] else stepAll s [.writeOk]
        match s1.pc with
        | .done _ => (s1, cls)
        | _ =>
          let b := beh.getD (k - 1) "N"
          if b = "D" then go fuel (k + 1) (stepAll s1 [.peerClose, .timer]) cls
          else match reactionClass b am with
            | some none => (stepAll s1 [.cea .success, .takeErrc], cls)
            | some (some c) => (stepAll s1 [.cea .failing, .takeErrc], c)
            | none => go fuel (k + 1) (stepAll s1 [.timer]) cls
  let (sEnd, cls) := go (R + 3) 1 s0 ""
  let outClass := match sEnd.pc with
    | .done .ok => "ok" | .done .cea => cls | .done .write => "write" | .done .timeout => "timeout" | _ => "running"
  -- after the handshake: extra CEAs and application answers
  let sPost := post.foldl (fun (acc : HS) p =>
      match reactionClass p with
      | some none => (acc.step (.cea .success)).getD acc
      | some (some _) => (acc.step (.cea .failing)).getD acc
      | none => acc) sEnd
  -- Q: an application answer; D: a DWA from the peer on a client without watchdog - it belongs to
  -- the application's own "DWA" registration like any other answer
  let nq := (post.filter (fun p => p = "Q" ∨ p = "D")).length
  let postOut := if outClass = "ok" then
      (if nq = 0 then s!"{if sPost.libClosed ∨ sPost.readerGone then "closed" else "open"},0/0,-"
       else s!"{if sPost.libClosed ∨ sPost.readerGone then "closed" else "open"},{if sPost.hasMeta then nq else 0}/{nq},{if sPost.hasMeta then "meta" else "nometa"}")
    else "-"
  let gap := if sEnd.cers ≥ 2 then "ok" else "na"
  let closed := if sEnd.libClosed then 1 else 0
  -- the CER as the model builds it
  let cfg := settingsMenu cfgK
  -- (`la = []`: the local endpoint has no address that can be advertised - a zoned IPv6 one)
  let ips := if cfg.hostIPs.isEmpty then (if la.isEmpty then [] else [la.map UInt8.ofNat]) else cfg.hostIPs
  let u := fun (code v : Nat) => newAVP code 64 0 (.fix T.u32 v)
  let grp := fun (ms : List AVP) => newAVP C.vsa 64 0 (.group ms)
  let apps : ClientApps :=
    if am = 1 then {
      supportedVendor := [u C.supportedVendor 10415, u C.supportedVendor 13019]
      auth := [u C.authApp 4, u C.authApp 1]
      acct := [u C.acctApp 3]
      vsa := [grp [u C.vendorId 10415, u C.authApp 16777251], grp [u C.vendorId 10415, u C.authApp 16777238],
              grp [u C.vendorId 10415, u C.acctApp 16777251]] }
    else if am = 3 then {
      supportedVendor := [u C.supportedVendor 10415]
      auth := []
      acct := []
      vsa := [grp [u C.vendorId 10415, u C.authApp 16777999]] }
    else if am = 2 then {
      supportedVendor := []
      auth := [u C.authApp 4]
      acct := []
      vsa := [grp [u C.authApp 16777251, u C.vendorId 10415], grp [u C.authApp 16777251, u C.vendorId 10415],
              grp [u C.acctApp 3, u C.vendorId 13019]] }
    else {
      supportedVendor := [u C.supportedVendor 10415]
      auth := [u C.authApp 4]
      acct := [u C.acctApp 3]
      vsa := [grp [u C.vendorId 10415, u C.authApp 16777251]] }
  let cerAVPs := makeCER cfg ips apps
  let implCer := (kv impl "cer").getD ""
  -- header of the CER is taken from the implementation (random identifiers); the AVPs are the model's
  let cerModel := if sEnd.cers = 0 then "" else
    match implCer.splitOn ")[" with
    | [h, _] => h ++ ")" ++ showAVPs ((decodeAVPs (dfn.avpType 0) ((encL cerAVPs).length + 1) (encL cerAVPs)) |> fun r => match r with | .ok as => as | _ => cerAVPs)
    | _ => "?"
  let lateOut := if outClass = "ok" then "-" else "0"
  -- the answer that followed an accepted success CEA in its segment is dispatched (C10_client_first_cea_decides:
  -- the metadata is in the context when the CEA handler returns, before the reader takes the next message)
  let zOut := if beh.contains "Z" then (if outClass = "ok" then " z=1" else " z=0") else ""
  let modelOut := s!"out={outClass} cers={sEnd.cers} same=1 gap={gap} closed={closed} pre=0 post={postOut} late={lateOut}{zOut} cer={cerModel}"
  Id.run do
    let mut fails : List String := []
    let iOut := (kv impl "out").getD ""
    let iCers := (kvNat impl "cers").getD 0
    let iClosed := (kvNat impl "closed").getD 0
    let iPost := (kv impl "post").getD "-"
    if impl.headD "" = "hang" then fails := fails ++ ["C12:dial-never-returns"]
    if (kvNat impl "pre").getD 0 > 0 then fails := fails ++ ["C10:application-handler-ran-before-handshake"]
    if (kvNat impl "late").getD 0 > 0 then fails := fails ++ ["C10:application-handler-ran-after-failed-handshake"]
    if beh.contains "Z" ∧ outClass = "ok" ∧ (kvNat impl "z").getD 0 = 0 then
      fails := fails ++ ["C10:message-behind-the-success-cea-not-dispatched"]
    if beh.contains "Z" ∧ outClass ≠ "ok" ∧ (kvNat impl "z").getD 0 > 0 then
      fails := fails ++ ["C10:application-handler-ran-after-failed-handshake"]
    if iCers > R + 1 then fails := fails ++ ["C12:more-cers-than-budget"]
    if (kv impl "same").getD "1" ≠ "1" then fails := fails ++ ["C12:retransmitted-cer-differs"]
    if (kv impl "gap").getD "na" = "short" then fails := fails ++ ["C12:retransmission-before-interval"]
    if iOut = "ok" ∧ outClass ≠ "ok" then fails := fails ++ ["C12:connection-returned-without-successful-cea"]
    if iOut ≠ "ok" ∧ outClass = "ok" then fails := fails ++ ["C12:successful-handshake-reported-as-failure"]
    if iOut ≠ "ok" ∧ iOut ≠ "" ∧ iClosed = 0 then fails := fails ++ ["C12:failed-dial-leaves-transport-open"]
    if iOut = "ok" ∧ iClosed = 1 then fails := fails ++ ["C12:transport-closed-after-successful-handshake"]
    if iOut = "ok" ∧ outClass = "ok" then
      if iPost.startsWith "closed" then fails := fails ++ ["C12:connection-closed-by-later-cea"]
      else if iPost ≠ postOut then fails := fails ++ ["C12:answers-not-dispatched-after-handshake", "C10:matching-message-not-dispatched-after-the-handshake"]
    if iOut = outClass ∧ iCers ≠ sEnd.cers then fails := fails ++ ["C12:cer-count-differs"]
    if sEnd.cers > 0 ∧ implCer ≠ cerModel ∧ iCers > 0 then fails := fails ++ ["C12:cer-content-differs"]
    return { model := modelOut, fails := fails.eraseDups.take 5,
             tags := [s!"dial R={R} out={outClass} cers={sEnd.cers} post={post.length} wf={wf}"] }

/-- `smclient wd r=<R> beh=<cycle/cycle/..> => cycles=<n.n..> same=<0|1> closed=<0|1> dwr=[..]` -/
def judgeWD (d : DictRt) (R : Nat) (behTok : String) (impl : List String) : Judged :=
  let dfn := d.dictFn
  let cycles := (behTok.splitOn "/").map (fun c => c.toList.map (fun ch => String.singleton ch))
  let s0 : WD := WD.init R Gen.capDwac Gen.dwrDrainsFirst
  let stepAll := fun (s : WD) (es : List WdEv) => es.foldl (fun (acc : WD) e => (acc.step e).getD acc) s
  -- per cycle: wdTimer, then per DWR the reaction
  let (sEnd, counts) := cycles.foldl (fun (acc : WD × List Nat) cyc =>
      let (s, cs) := acc
      if s.gone then acc else
      let s1 := stepAll s [.wdTimer]
      let s2 := cyc.foldl (fun (st : WD) b =>
        match st.pc with
        | .writing _ =>
          let w := stepAll st [.writeOk]
          if b = "A" ∨ b = "E" ∨ b = "L" ∨ b = "V" ∨ b = "O" ∨ b = "K" then stepAll w [.dwaOk, .ack]
          else if b = "T" then stepAll w [.dwaOk, .dwaOk, .dwaOk, .ack]
          else if b = "F" then stepAll w [.dwaFail, .rtTimer]
          else stepAll w [.rtTimer]
        | _ => st) s1
      (s2, cs ++ [s2.cycleDwrs])) (s0, [])
  let cfg := settingsMenu 0
  let dwrAVPs := makeDWR cfg
  let dwrModel := showAVPs ((decodeAVPs (dfn.avpType 0) ((encL dwrAVPs).length + 1) (encL dwrAVPs)) |> fun r => match r with | .ok as => as | _ => dwrAVPs)
  let cyclesOut := if counts.isEmpty then "-" else ".".intercalate (counts.map toString)
  let modelOut := s!"cycles={cyclesOut} same=1 closed={if sEnd.closedByWD then 1 else 0} dwr={dwrModel}"
  Id.run do
    let mut fails : List String := []
    let iCycles := (((kv impl "cycles").getD "-").splitOn ".").filterMap String.toNat?
    let iClosed := (kvNat impl "closed").getD 0
    if iCycles.any (· > R + 1) then fails := fails ++ ["C13:more-dwrs-than-budget-in-one-cycle"]
    if (kv impl "same").getD "1" ≠ "1" then fails := fails ++ ["C13:dwr-identity-differs"]
    -- a cycle whose script contains an answer must not end in a close
    let anyAnswered := cycles.all (fun c => c.any (fun b => b = "A" ∨ b = "E" ∨ b = "L" ∨ b = "V" ∨ b = "O" ∨ b = "K" ∨ b = "T"))
    if anyAnswered ∧ iClosed = 1 then fails := fails ++ ["C13:responsive-peer-disconnected"]
    if ¬ anyAnswered ∧ sEnd.closedByWD ∧ iClosed = 0 then fails := fails ++ ["C13:silent-peer-not-disconnected"]
    if iCycles ≠ counts ∧ fails.isEmpty then fails := fails ++ ["C13:dwr-count-per-cycle-differs"]
    if (kv impl "dwr").getD "" ≠ dwrModel ∧ ¬ iCycles.isEmpty then fails := fails ++ ["C13:dwr-content-differs"]
    if impl.headD "" = "handshake-failed" then fails := ["C12:successful-handshake-reported-as-failure"]
    return { model := modelOut, fails := fails.eraseDups.take 4,
             tags := [s!"wd R={R} cycles={cycles.length} closed={sEnd.closedByWD}"] }

end DV.Drv
