import Driver.Util
import Driver.DictRt
import Driver.Codec
import Spec.DictSpec
import Model.Find
/-! Driver.Dict — the `dict` correspondence domain (C17): generated dictionary sets, queries. -/
namespace DV.Drv
open DV.Spec

def natOr (s : String) (d : Nat := 0) : Nat := s.toNat?.getD d

/-- parse `<id>/<type>/<v.v>/<cmd>+<cmd>/<avp>+<avp>` -/
def parseApp (i : Intern) (t : String) : Intern × Option AppRow :=
  match t.splitOn "/" with
  | [id, typ, vs, cs, as] =>
    let (i1, typId) := if typ = "-" then (i, 0) else i.get typ
    let vendors := if vs = "-" then [] else (vs.splitOn ".").filterMap String.toNat?
    let (i2, cmds) := (if cs = "-" then [] else cs.splitOn "+").foldl (fun (acc : Intern × List CmdRow) c =>
      match c.splitOn "." with
      | [code, short, nreq, nans] =>
        let (ix, s) := acc.1.get short
        (ix, acc.2 ++ [(natOr code, s, natOr nreq, natOr nans)])
      | _ => acc) (i1, [])
    let (i3, avps) := (if as = "-" then [] else as.splitOn "+").foldl (fun (acc : Intern × List AvpRow) a =>
      match a.splitOn "." with
      | [name, code, vendor, must, tyName] =>
        -- `Type#k`: the definition has k `<item>` / `<rule>` children
        let (tyS, items) := match tyName.splitOn "#" with
          | [t, k] => (t, natOr k)
          | _ => (tyName, 0)
        let (ix, n) := acc.1.get name
        let (iy, tn) := ix.get tyS
        (iy, acc.2 ++ [((n, natOr code, natOr vendor, decide (must = "M"), tn, items) : AvpRow)])
      | _ => acc) (i2, [])
    (i3, some (natOr id, typId, vendors, cmds, avps))
  | _ => (i, none)

def parseSpec (i : Intern) (spec : String) : Intern × List FileRow :=
  (spec.splitOn "!").foldl (fun (acc : Intern × List FileRow) f =>
    let (ix, apps) := (f.splitOn "@").foldl (fun (a : Intern × List AppRow) t =>
      match parseApp a.1 t with
      | (iy, some r) => (iy, a.2 ++ [r])
      | (iy, none) => (iy, a.2)) (acc.1, [])
    (ix, acc.2 ++ [apps])) (i, [])

/-- load files, reporting per file whether `Load` returned nil -/
def loadFiles (fs : List FileRow) : Parser × List Bool :=
  fs.foldl (fun (acc : Parser × List Bool) f =>
    let r := acc.1.load Gen.availableIds f
    (r.1, acc.2 ++ [r.2])) ({}, [])

def nameOf (names : Array String) (rev : Std.HashMap Nat String) (n : Nat) : String :=
  match rev[n]? with
  | some s => s
  | none => names.getD n s!"#{n}"

def showAvpDef (nm : Nat → String) : Option AvpDef → String
  | some d => s!"({d.app},{d.code},{nm d.name},{d.vendor},{d.ty},{d.items})"
  | none => "none"

/-- evaluate one query on the model parser and on the Spec log -/
def evalQuery (p : Parser) (l : Log) (parents : List (Nat × Nat)) (i : Intern) (nm : Nat → String) (q : String) : String × String :=
  let fuel := chainFuel parents
  match q.splitOn ":" with
  | ["c", a, c, v] =>
    let m := p.findCode parents fuel (natOr a) (natOr c) (natOr v)
    let s := Spec.findCode l parents fuel (natOr a) (natOr c) (natOr v)
    let r := fun (o : Option AvpDef) => match o with | some d => showAvpDef nm (some d) | none => s!"unk({natOr c},{natOr v})"
    (r m, r s)
  | ["i", a, c, v] =>
    (showAvpDef nm (p.findCode parents fuel (natOr a) (natOr c) (natOr v)),
     showAvpDef nm (Spec.findCode l parents fuel (natOr a) (natOr c) (natOr v)))
  | ["n", a, n, v] =>
    match i.ids[n]? with
    | some nid =>
      (showAvpDef nm (p.findName parents fuel (natOr a) nid (natOr v)),
       showAvpDef nm (Spec.findName l parents fuel (natOr a) nid (natOr v)))
    | none => ("none", "none")
  | ["k", a, c] =>
    let r := fun (o : Option CmdDef) => match o with | some d => s!"({d.code},{nm d.short},{d.nreq},{d.nans})" | none => "none"
    (r (p.findCommand (natOr a) (natOr c)), r (Spec.findCommand l (natOr a) (natOr c)))
  | ["a", id, t] =>
    let typ := if t = "-" then none else some ((i.ids[t]?).getD 4000000000)
    let r := fun (o : Option AppInfo) => match o with | some x => s!"({x.id},{nm x.typ})" | none => "none"
    (r (p.app (natOr id) typ), r (p.app (natOr id) typ))
  | _ => ("badquery", "badquery")

def resolved (r : String) : Bool := r ≠ "none" ∧ ¬ r.startsWith "unk("

def revNames (i : Intern) : Std.HashMap Nat String :=
  i.ids.fold (fun m k v => m.insert v k) {}

/-- `dict query set=<default|spec> [k=<n>] qs=<q;q..> => loads=<1,0,..> <r;r;..> [| <r;r;..>]` -/
def judgeDict (i : Intern) (setTok : String) (k : Option Nat) (qsTok : String) (impl : List String)
    (defaultP : Parser) (defaultL : Log) : Intern × Judged :=
  let (i', fs) := if setTok = "default" then (i, []) else parseSpec i setTok
  let rev := revNames i'
  let nm := fun n => if n = 0 then "-" else nameOf Gen.names rev n
  let qs := if qsTok = "-" then [] else qsTok.splitOn ";"
  let stage := fun (files : List FileRow) =>
    if setTok = "default" then ((defaultP, ([] : List Bool)), defaultL)
    else (loadFiles files, logAll Gen.availableIds files)
  let run := fun (files : List FileRow) =>
    let ((p, loads), l) := stage files
    let rs := qs.map (evalQuery p l Gen.parentAppIds i' nm)
    (loads, rs.map (·.1), rs.map (·.2))
  let showLoads := fun (ls : List Bool) => if ls.isEmpty then "-" else ",".intercalate (ls.map (fun b => if b then "1" else "0"))
  match k with
  | none =>
    let (loads, mr, sr) := run fs
    let modelOut := s!"loads={showLoads loads} {";".intercalate mr}"
    let specOut := s!"loads={showLoads loads} {";".intercalate sr}"
    let implOut := " ".intercalate impl
    (i', { model := modelOut,
           fails := if implOut ≠ specOut then ["C17:lookup-differs-from-log-resolution"] else [],
           tags := [s!"set={if setTok = "default" then "default" else "generated"} files={fs.length} queries={qs.length} resolved={(sr.filter resolved).length}"] })
  | some k =>
    let (l1, m1, s1) := run (fs.take k)
    let (l2, m2, s2) := run fs
    let modelOut := s!"loads={showLoads l2} {";".intercalate m1} | {";".intercalate m2}"
    -- monotonicity on the implementation's own answers
    let implParts := (" ".intercalate (impl.drop 1)).splitOn " | "
    let r1 := (implParts.getD 0 "").splitOn ";"
    let r2 := (implParts.getD 1 "").splitOn ";"
    let lost := (r1.zip r2).filter (fun (a, b) => resolved a ∧ ¬ resolved b)
    let _ := l1
    -- ... and both stages against the resolution defined on the list of loaded files
    let stale := r1 ≠ s1 ∨ r2 ≠ s2
    (i', { model := modelOut,
           fails := (if lost.isEmpty then [] else ["C17:resolvable-before-unresolvable-after-load"]) ++
                    (if stale then ["C17:lookup-differs-from-log-resolution-after-later-load",
                                    -- the decoder types every AVP by this very lookup (C01: for all dictionaries)
                                    "C01:typing-the-decoder-would-use-is-not-the-dictionary's-after-a-later-load"] else []),
           tags := [s!"mono files={fs.length} k={k} queries={qs.length}"] })

/-- `codec findn app=<a> sets=<specA>^<specB> name=<n> mode=<first|all> <tree> => <r1> | <r2>`:
    the same by-name search in two messages that differ only in their dictionary -/
def judgeFindN (i : Intern) (app : Nat) (setsTok name mode : String) (as : List AVP) (impl : List String) : Intern × Judged :=
  let specs := setsTok.splitOn "^"
  let step := fun (acc : Intern × List String) (spec : String) =>
    let (i1, fs) := parseSpec acc.1 spec
    let (i2, nid) := i1.get name
    let p := (loadFiles fs).1
    let r := match p.findName Gen.parentAppIds (chainFuel Gen.parentAppIds) app nid UndefinedVendorID with
      | none => "err"
      | some d =>
        if mode = "first" then (match findFirstL d.code as with | some a => showAVPs [a] | none => "err")
        else (let r := findAllL d.code as; if r.isEmpty then "err" else showAVPs r)
    (i2, acc.2 ++ [r])
  let (i', rs) := specs.foldl step (i, [])
  let out := " | ".intercalate rs
  (i', { model := out,
         fails := if " ".intercalate impl ≠ out then ["C20:name-not-resolved-through-the-message-dictionary"] else [],
         tags := [s!"findn mode={mode}"] })

end DV.Drv
