import Model.Basic
/-!
  Model.ConnWrite — which transport a write through a connection reaches.

  `Server.newConn` gives every connection a `bufio.Writer` of its own
  (`bufio.NewWriter(rwc)`); `response.Write` writes and flushes through it. The model keeps the
  writer *objects* apart from the connections that hold them, so that it can also describe a
  source in which writers are recycled (`pooled`): a connection that has ended would then still
  hold a pointer to a writer that a later connection has re-targeted to its own transport.
  Whether the source allocates per connection is the regenerated fact `Gen.connBufferSources`.
-/
namespace DV

structure OwConn where
  alive : Bool := true
  /-- the writer object this connection holds -/
  writer : Nat
  /-- what this connection's transport was given: (connection written through, message id) -/
  wire : List (Nat × Nat) := []
deriving Repr, DecidableEq

structure OwSys where
  conns : List OwConn := []
  /-- writer object ↦ the transport (connection index) it writes to -/
  target : List Nat := []
  /-- writer objects waiting to be reused -/
  pool : List Nat := []
deriving Repr, DecidableEq

inductive OwEv where
  | openConn
  | die (k : Nat)
  | write (k id : Nat)
deriving Repr, DecidableEq

/-- result of a write as the caller sees it -/
inductive OwRes where | ok | err | skip
deriving Repr, DecidableEq

def OwSys.step (pooled : Bool) (S : OwSys) : OwEv → OwSys × OwRes
  | .openConn =>
    let j := S.conns.length
    match pooled, S.pool with
    | true, w :: rest =>
      ({ conns := S.conns ++ [{ writer := w }], target := S.target.set w j, pool := rest }, .ok)
    | _, _ =>
      ({ S with conns := S.conns ++ [{ writer := S.target.length }], target := S.target ++ [j] }, .ok)
  | .die k =>
    match S.conns[k]? with
    | none => (S, .skip)
    | some c =>
      if ¬ c.alive then (S, .skip) else
      ({ S with conns := S.conns.set k { c with alive := false },
                pool := if pooled then c.writer :: S.pool else S.pool }, .ok)
  | .write k id =>
    match S.conns[k]? with
    | none => (S, .skip)
    | some c =>
      let t := S.target.getD c.writer 0
      match S.conns[t]? with
      | none => (S, .err)
      | some ct =>
        if ct.alive then ({ S with conns := S.conns.set t { ct with wire := ct.wire ++ [(k, id)] } }, .ok)
        else (S, .err)

def OwSys.run (pooled : Bool) (S : OwSys) : List OwEv → OwSys × List OwRes
  | [] => (S, [])
  | e :: es =>
    let (S1, r) := S.step pooled e
    let (S2, rs) := S1.run pooled es
    (S2, r :: rs)

end DV

/-! ### answers written concurrently on a multistream connection

  `response.WriteStream` hands the stream to `MultistreamConn.WriteStream` together with the
  bytes (`direct`). A source that first selects the association-wide writer stream and then
  writes (`SetWriterStream` … `Write`) is the other variant the model can describe: between the
  two steps another goroutine may select its own stream. Which one the source is: the
  regenerated fact `Gen.responseWriteStreamExits`. -/
namespace DV

structure SWState where
  /-- the association-wide writer stream (`SCTPConn.SetWriterStream`) -/
  cur : Nat := 0
  /-- goroutines that have selected their stream and not yet written -/
  selected : List Nat := []
  /-- what the association was given: (answer id, stream) -/
  log : List (Nat × Nat) := []
deriving Repr, DecidableEq

inductive SWEv where
  /-- goroutine writing answer `id` for a request that arrived on `stream` selects the stream -/
  | select (id stream : Nat)
  /-- ... and writes -/
  | write (id stream : Nat)
deriving Repr, DecidableEq

def SWState.step (direct : Bool) (s : SWState) : SWEv → SWState
  | .select id stream => if direct then s else { s with cur := stream, selected := id :: s.selected }
  | .write id stream =>
    if direct then { s with log := s.log ++ [(id, stream)] }
    else { s with log := s.log ++ [(id, s.cur)], selected := s.selected.erase id }

def SWState.run (direct : Bool) (s : SWState) (es : List SWEv) : SWState := es.foldl (SWState.step direct) s

/-- the stream the schedule says answer `id` belongs on -/
def SWEv.wants : SWEv → Nat × Nat
  | .select id stream => (id, stream)
  | .write id stream => (id, stream)

end DV

/-! ### answers of several connections of one client

  The client's CEA and DWA handlers sit on the state machine's `ServeMux`, which every connection
  made through one `sm.Client` shares. `byConn`: a handler finds the waiting handshake / watchdog
  in the context of the connection the answer arrived on (the repaired source,
  `Gen.handshakeAnswerHandlers`); otherwise it reports to the channels of the latest handshake. -/
namespace DV

structure ShareState where
  /-- acknowledgements waiting in each connection's channel -/
  acks : List Nat := []
  /-- the connection whose channels the registered handler closes over -/
  latest : Nat := 0
deriving Repr, DecidableEq

inductive ShareEv where
  /-- a further connection performs its handshake (and registers its handlers) -/
  | handshake
  /-- a successful answer arrives on connection `k` -/
  | answer (k : Nat)
deriving Repr, DecidableEq

def ShareState.step (byConn : Bool) (s : ShareState) : ShareEv → ShareState
  | .handshake => { acks := s.acks ++ [0], latest := s.acks.length }
  | .answer k =>
    let t := if byConn then k else s.latest
    if k < s.acks.length then { s with acks := s.acks.set t (s.acks.getD t 0 + 1) } else s

def ShareState.run (byConn : Bool) (s : ShareState) (es : List ShareEv) : ShareState :=
  es.foldl (ShareState.step byConn) s

/-- answers that arrived on connection `k` in a history -/
def answersOn (k : Nat) (es : List ShareEv) : Nat := (es.filter (· == .answer k)).length

end DV
