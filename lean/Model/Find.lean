import Model.Codec
/-! Model.Find — `findFromAVP` and `avpsWithPath` of diam/message.go. -/
namespace DV

mutual
/-- `findFromAVP(avps, code, true)` restricted to one AVP and its subtree -/
def findAll (c : Nat) : AVP → List AVP
  | .mk code f l v d =>
    (if code = c then [AVP.mk code f l v d] else []) ++
      (match d with
       | .group as => findAllL c as
       | _ => [])
def findAllL (c : Nat) : List AVP → List AVP
  | [] => []
  | a :: r => findAll c a ++ findAllL c r
end

mutual
/-- `findFromAVP(avps, code, false)`: the loop returns at the first match, looking at the AVP
    itself before descending into it -/
def findFirst (c : Nat) : AVP → Option AVP
  | .mk code f l v d =>
    if code = c then some (AVP.mk code f l v d) else
      (match d with
       | .group as => findFirstL c as
       | _ => none)
def findFirstL (c : Nat) : List AVP → Option AVP
  | [] => none
  | a :: r =>
    match findFirst c a with
    | some x => some x
    | none => findFirstL c r
end

/-- `avpsWithPath` -/
def withPath : List AVP → List Nat → List AVP
  | avps, [] => avps
  | avps, c :: rest =>
    (avps.map (fun a =>
      if a.code ≠ c then [] else
      if rest.isEmpty then [a] else
      match a.data with
      | .group as => withPath as rest
      | _ => [])).flatten

end DV
