import Model.Conn
/-!
  Model.Shared — several connections of one server, each with its own reader goroutine
  (`go c.serve()`), dispatching through one shared `ServeMux`:
  `ServeMux.ServeDIAM` holds the mux's `RWMutex` in read mode while the handler runs
  (`mux.mu.RLock(); defer mux.mu.RUnlock()`); registrations (`Handle*`) need the write lock.
  `deferred` says whether the read lock is released by `defer` (so also when the handler
  panics) - regenerated from the source as `Gen.muxServeRLockDeferred`.
-/
namespace DV

structure Sys where
  conns : List CN
  rlocks : Nat := 0     -- read locks currently held on the shared mux

/-- event `e` happens on connection `k` -/
def Sys.step (d : DictFn) (deferred : Bool) (S : Sys) (k : Nat) (e : CEv) : Option Sys :=
  match S.conns[k]? with
  | none => none
  | some c =>
    match c.step d e with
    | none => none
    | some c' =>
      let rl :=
        match e with
        | .readerStep => if c'.reader = .inHandler then S.rlocks + 1 else S.rlocks   -- dispatch: RLock
        | .handlerReturn => S.rlocks - 1                                              -- deferred RUnlock
        | .handlerPanic => if deferred then S.rlocks - 1 else S.rlocks                 -- only a deferred RUnlock runs
        | _ => S.rlocks
      some { conns := S.conns.set k c', rlocks := rl }

def Sys.run (d : DictFn) (deferred : Bool) (S : Sys) : List (Nat × CEv) → Option Sys
  | [] => some S
  | (k, e) :: es => match S.step d deferred k e with
    | some S' => S'.run d deferred es
    | none => none

/-- the events of connection `k` in a schedule of the whole system -/
def projEv (k : Nat) (es : List (Nat × CEv)) : List CEv :=
  es.filterMap (fun p => if p.1 = k then some p.2 else none)

/-- a handler registration (`ServeMux.Handle*`: write lock) can proceed -/
def Sys.canRegister (S : Sys) : Bool := S.rlocks = 0

def Sys.init (cs : List Bool) : Sys := { conns := cs.map (fun c => { coal := c }) }

end DV
