import Model.Codec
import Gen.Struct
import Gen.Consts
/-!
  Model.Cost — what the third sentence of C03 is about: memory reserved while reading a message
  body, and how deep / how costly the tree a body decodes to can be.
  * `bodyReserved`: `readBody` / `readBodyBytes` (message.go). A body of at most
    `MessageBufferLength` bytes is read into the pooled 1 KiB buffer. A larger body is read
    into a slice that - per the regenerated fact `Gen.bodyChunkLength` - is either allocated at
    its full declared size before any byte arrives (chunk = 0), or grown `chunk` bytes ahead of
    the bytes received.
  * `depth`, `renderCost`: nesting depth of a decoded tree and the bytes `Serialize` writes
    when every grouped level builds its own buffer (`GroupedAVP.Serialize`).
-/
namespace DV

/-- bytes of body buffer reserved when `l` body bytes are declared and the transport delivers
    `s` of them (s ≤ l) before it ends -/
def bodyReserved (chunk l s : Nat) : Nat :=
  if l ≤ 1024 then 1024                -- the pooled buffer
  else if chunk = 0 ∨ l ≤ chunk then l -- one slice of the declared size
  else min l ((s / chunk + 1) * chunk) -- grown one piece ahead of what arrived

mutual
/-- nesting depth of a value / a list of AVPs -/
def Val.depth : Val → Nat
  | .group as => depthL as + 1
  | _ => 0
def AVP.depth : AVP → Nat
  | .mk _ _ _ _ d => d.depth
def depthL : List AVP → Nat
  | [] => 0
  | a :: r => max a.depth (depthL r)
end

mutual
/-- bytes written by `Serialize` when every grouped level serialises its members into a buffer
    of its own which the enclosing level then copies (group.go `GroupedAVP.Serialize`,
    avp.go `SerializeTo`) -/
def Val.copyCost : Val → Nat
  | .group as => costL as + lenL as      -- the members, then the level's own buffer
  | _ => 0
def AVP.copyCost : AVP → Nat
  | .mk c f l v d => d.copyCost + (AVP.mk c f l v d).len
def costL : List AVP → Nat
  | [] => 0
  | a :: r => a.copyCost + costL r
end

/-- `n` grouped AVPs nested inside each other around one 12-byte AVP -/
def nest : Nat → AVP
  | 0 => .mk 268 64 12 0 (.fix T.u32 2001)
  | n+1 => .mk 279 64 0 0 (.group [nest n])

end DV
