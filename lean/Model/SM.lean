import Model.Codec
import Model.Dict
import Model.Mux
/-!
  Model.SM — the state machine of `diam/sm`: `CER.Parse` (smparser: Unmarshal by dictionary
  code, sanityCheck, in-band security, `Application.Parse` with validateAll / handleGroup /
  chooseErr / validate), `handleCER` with `successCEA` / `errorCEA`, `handleDWR`, the gate
  `handshakeOK`, and the mux `sm.New` builds plus application registrations.
-/
namespace DV

structure Settings where
  originHost : Bytes
  originRealm : Bytes
  vendorId : Nat
  productName : Bytes
  originStateId : Nat := 0
  firmware : Nat := 0
  hostIPs : List Bytes := []
deriving Repr

/-- `SupportedApp`: (id, type: 1 = auth, 2 = acct, 0 = none, vendor) -/
structure SApp where
  id : Nat
  typ : Nat
  vendor : Nat
deriving Repr, BEq, DecidableEq

inductive PErr where
  | missingHost | missingRealm | noCommonSecurity | noCommonApp | unexpected
deriving Repr, BEq, DecidableEq

namespace C
def resultCode := 268
def originHost := 264
def originRealm := 296
def originStateId := 278
def inband := 299
def acctApp := 259
def authApp := 258
def vsa := 260
def hostIP := 257
def vendorId := 266
def productName := 269
def supportedVendor := 265
def firmware := 267
end C

def allOf (code : Nat) (as : List AVP) : List AVP := as.filter (fun a => a.code = code)
def firstOf (code : Nat) (as : List AVP) : Option AVP := (allOf code as).head?

/-- UTF-8 of `string(rune(n))` as `reflect`'s int→string conversion does it -/
def runeBytes (n : Nat) : Bytes :=
  if n < 128 then [UInt8.ofNat n]
  else if n < 2048 then [UInt8.ofNat (192 + n / 64), UInt8.ofNat (128 + n % 64)]
  else if (n ≥ 55296 ∧ n < 57344) ∨ n > 1114111 then [239, 191, 189]
  else if n < 65536 then [UInt8.ofNat (224 + n / 4096), UInt8.ofNat (128 + n / 64 % 64), UInt8.ofNat (128 + n % 64)]
  else [UInt8.ofNat (240 + n / 262144), UInt8.ofNat (128 + n / 4096 % 64), UInt8.ofNat (128 + n / 64 % 64), UInt8.ofNat (128 + n % 64)]

/-- what `Unmarshal` stores into a string-kinded field (`dv.Type().ConvertibleTo(string)`):
    string and []byte kinds convert, integer kinds convert to a rune, everything else does not -/
def strOf : Val → Option Bytes
  | .str _ b => some b
  | .addr b => some b
  | .ip4 b => some b
  | .ip6 b => some b
  | .fix t n =>
    if t = T.u32 then some (runeBytes n)
    else if t = T.u64 then some (if n < 2147483648 then runeBytes n else [239, 191, 189])
    else if t = T.i32 ∨ t = T.enum then some (if n < 2147483648 then runeBytes n else [239, 191, 189])
    else if t = T.i64 then some (if n < 2147483648 then runeBytes n else [239, 191, 189])
    else none
  | _ => none

def strField (code : Nat) (as : List AVP) : Bytes :=
  match firstOf code as with
  | some a => (strOf a.data).getD []
  | none => []

/-- (failed AVP present, error) as `validate` / `handleGroup` / `validateAll` return them -/
abbrev VRes := Bool × Option PErr

/-- `Application.validate`; `appOK id typ` is `d.App(id, typ) == nil error` (typ 1 auth, 2 acct) -/
def validate (appOK : Nat → Nat → Bool) (typ : Nat) (a : AVP) : VRes × List Nat :=
  match a.data with
  | .fix t n =>
    if t = T.u32 then
      if n = 4294967295 then ((false, none), [n])
      else if appOK n typ then ((false, none), [n])
      else ((true, some .noCommonApp), [])
    else ((true, some .unexpected), [])
  | _ => ((true, some .unexpected), [])

/-- `chooseErr` -/
def chooseErr (cur : VRes) (found : Bool) (new : VRes) : VRes × Bool :=
  if new.2.isNone then (cur, true)
  else if cur.2.isNone ∨ (cur.1 = false ∧ new.1 = true) then (new, found)
  else (cur, found)

/-- the loop of `validateAll`: (failedAVP, err), oneFound, ids collected so far -/
def vaLoop (appOK : Nat → Nat → Bool) (typ : Nat) : List AVP → VRes → Bool → List Nat → VRes × Bool × List Nat
  | [], c, f, ids => (c, f, ids)
  | a :: r, c, f, ids =>
    vaLoop appOK typ r (chooseErr c f (validate appOK typ a).1).1 (chooseErr c f (validate appOK typ a).1).2
      (ids ++ (validate appOK typ a).2)

/-- `validateAll` (server role) -/
def validateAll (appOK : Nat → Nat → Bool) (typ : Nat) (avps : List AVP) : VRes × List Nat :=
  if avps.isEmpty then ((false, some .noCommonApp), []) else
  let r := vaLoop appOK typ avps (false, none) false []
  if r.2.1 then ((false, none), r.2.2) else (r.1, r.2.2)

/-- what one member of a Vendor-Specific-Application-Id group does to the named results
    `failedAVP, err` (a member that is not an application id leaves them as they are) -/
def memberRes (appOK : Nat → Nat → Bool) (cur : VRes) (a : AVP) : VRes × List Nat :=
  if a.code = C.acctApp then validate appOK 2 a
  else if a.code = C.authApp then validate appOK 1 a
  else (cur, [])

/-- the loop of `handleGroup`: the named results persist across the members (initially nil, nil) -/
def hgLoop (appOK : Nat → Nat → Bool) : List AVP → VRes → Bool → List Nat → VRes × Bool × List Nat
  | [], c, s, ids => (c, s, ids)
  | a :: r, c, s, ids =>
    hgLoop appOK r (memberRes appOK c a).1 (s || (memberRes appOK c a).1.2.isNone) (ids ++ (memberRes appOK c a).2)

/-- `handleGroup` -/
def handleGroup (appOK : Nat → Nat → Bool) (g : AVP) : VRes × List Nat :=
  match g.data with
  | .group kids =>
    let r := hgLoop appOK kids (false, none) false []
    if r.2.1 then ((false, none), r.2.2) else (r.1, r.2.2)
  | _ => ((true, some .unexpected), [])

/-- the loop over the Vendor-Specific-Application-Id AVPs in `Application.Parse` -/
def vsLoop (appOK : Nat → Nat → Bool) : List AVP → VRes → Bool → List Nat → VRes × Bool × List Nat
  | [], c, f, ids => (c, f, ids)
  | g :: r, c, f, ids =>
    vsLoop appOK r (chooseErr c f (handleGroup appOK g).1).1 (chooseErr c f (handleGroup appOK g).1).2
      (ids ++ (handleGroup appOK g).2)

/-- the end of `Application.Parse` (server role), given what the three parts returned -/
def appParseOf (r1 r2 : VRes × List Nat) (r3 : VRes × Bool × List Nat) : Option PErr × List Nat :=
  if ¬ r3.2.1 then (r3.1.2, r1.2 ++ r2.2 ++ r3.2.2)
  else if (r1.2 ++ r2.2 ++ r3.2.2).isEmpty then (some .noCommonApp, r1.2 ++ r2.2 ++ r3.2.2)
  else (none, r1.2 ++ r2.2 ++ r3.2.2)

/-- `Application.Parse` (server role): the error, if any, and the ids collected -/
def appParse (appOK : Nat → Nat → Bool) (acct auth vsas : List AVP) : Option PErr × List Nat :=
  appParseOf (validateAll appOK 2 acct) (validateAll appOK 1 auth)
    (vsLoop appOK vsas
      (chooseErr (validateAll appOK 2 acct).1 (validateAll appOK 2 acct).1.2.isNone (validateAll appOK 1 auth).1).1
      (chooseErr (validateAll appOK 2 acct).1 (validateAll appOK 2 acct).1.2.isNone (validateAll appOK 1 auth).1).2 [])

structure CERView where
  host : Bytes
  realm : Bytes
  osid : Option AVP
  ids : List Nat

/-- `CER.Parse(m, Server)` -/
def cerParse (appOK : Nat → Nat → Bool) (as : List AVP) : Except PErr CERView :=
  let host := strField C.originHost as
  let realm := strField C.originRealm as
  if host.isEmpty then .error .missingHost
  else if realm.isEmpty then .error .missingRealm
  else
    let inbandErr : Option PErr :=
      match firstOf C.inband as with
      | some a =>
        (match a.data with
         | .fix t n => if t = T.u32 then (if n ≠ 0 then some .noCommonSecurity else none) else some .unexpected
         | _ => some .unexpected)
      | none => none
    match inbandErr with
    | some e => .error e
    | none =>
      match appParse appOK (allOf C.acctApp as) (allOf C.authApp as) (allOf C.vsa as) with
      | (some e, _) => .error e
      | (none, ids) => .ok { host, realm, osid := firstOf C.originStateId as, ids }

/-- Result-Code of the failure CEA (`errorCEA`) -/
def rcOf : PErr → Nat
  | .noCommonSecurity => 5017
  | .noCommonApp => 5010
  | _ => 5012

/-- the identity part common to every CEA -/
def ceaCommon (cfg : Settings) (ips : List Bytes) (osid : Option AVP) : List AVP :=
  [newAVP C.originHost 64 0 (.str T.ident cfg.originHost), newAVP C.originRealm 64 0 (.str T.ident cfg.originRealm)]
    ++ ips.map (fun ip => newAVP C.hostIP 64 0 (.addr ip))
    ++ [newAVP C.vendorId 64 0 (.fix T.u32 cfg.vendorId), newAVP C.productName 0 0 (.str T.utf8 cfg.productName)]
    ++ (match osid with | some a => [a] | none => [])

def appAVPs (apps : List SApp) : List AVP :=
  (apps.map (fun a =>
    let typ := if a.typ = 1 then C.authApp else if a.typ = 2 then C.acctApp else 0
    if a.vendor ≠ 0 then
      [newAVP C.supportedVendor 64 0 (.fix T.u32 a.vendor),
       newAVP C.vsa 64 0 (.group [newAVP C.vendorId 64 0 (.fix T.u32 a.vendor), newAVP typ 64 0 (.fix T.u32 a.id)])]
    else [newAVP typ 64 0 (.fix T.u32 a.id)])).flatten

def fw (cfg : Settings) : List AVP :=
  if cfg.firmware ≠ 0 then [newAVP C.firmware 0 0 (.fix T.u32 cfg.firmware)] else []

/-- an answer header as `Message.Answer` + the explicit identifier copy build it -/
def answerHdr (h : Header) (extraFlags : Nat) : Header :=
  { version := 1, len := 20, flags := (if isRequest h.flags then h.flags - 128 else h.flags) + extraFlags,
    cmd := h.cmd, app := h.app, hbh := h.hbh, e2e := h.e2e }

def mkMsg (h : Header) (as : List AVP) : Msg :=
  as.foldl Msg.addAVP { hdr := h, avps := [] }

def successCEA (cfg : Settings) (apps : List SApp) (ips : List Bytes) (req : Header) (v : CERView) : Msg :=
  mkMsg (answerHdr req 0)
    ([newAVP C.resultCode 64 0 (.fix T.u32 2001)] ++ ceaCommon cfg ips v.osid ++ appAVPs apps ++ fw cfg)

def errorCEA (cfg : Settings) (ips : List Bytes) (req : Header) (osid : Option AVP) (e : PErr) : Msg :=
  let eflag := if req.flags / 32 % 2 = 1 then 0 else 32
  mkMsg (answerHdr req eflag)
    ([newAVP C.resultCode 64 0 (.fix T.u32 (rcOf e))] ++ ceaCommon cfg ips osid ++ fw cfg)

/-- `handleDWR`'s answer -/
def dwa (cfg : Settings) (req : Header) : Msg :=
  mkMsg (answerHdr req 0)
    ([newAVP C.resultCode 64 0 (.fix T.u32 2001),
      newAVP C.originHost 64 0 (.str T.ident cfg.originHost), newAVP C.originRealm 64 0 (.str T.ident cfg.originRealm)]
     ++ (if cfg.originStateId ≠ 0 then [newAVP C.originStateId 64 0 (.fix T.u32 cfg.originStateId)] else []))

/-! ### the connection-level state machine (server side) -/

structure Meta where
  host : Bytes
  realm : Bytes
  apps : List Nat
deriving Repr, BEq, DecidableEq

/-- what the state machine did for one inbound message -/
inductive Act where
  | wrote (m : Msg)         -- an answer handed to the transport (successfully)
  | writeFailed             -- an answer was built but the transport refused it
  | closed                  -- c.Close()
  | setMeta (m : Meta)      -- metadata stored in the connection's context
  | app (h : Nat)           -- application handler h invoked
  | report                  -- an error report offered
  | ignored                 -- nothing observable

structure ConnSt where
  peer : Option Meta := none
  closed : Bool := false

/-- how a message is handled: which registration the mux selects -/
inductive Target where
  | cer | dwrGated | dwr | cerClient | app (h : Nat) | none
deriving Repr, BEq, DecidableEq

/-- built-in registrations of `sm.New` get handler ids 1000.. ; application handlers keep theirs -/
def builtinRegs (shortCE shortDW : Nat) : List Reg :=
  [.name shortCE 0 1000, .name shortDW 0 1001, .idx 0 257 true 1002, .idx 0 280 true 1003]

def targetOf (h : Nat) : Target :=
  if h = 1000 ∨ h = 1002 then .cer else if h = 1001 then .dwrGated else if h = 1003 then .dwr else .app h

/-- `StateMachine.HandleFunc` / `HandleIdx` refuse to overwrite CER, CEA, DWR -/
def refused (shortCE shortDW : Nat) : Reg → Bool
  | .name s x _ => (s = shortCE ∧ x = 0) ∨ (s = shortCE ∧ x = 1) ∨ (s = shortDW ∧ x = 0)
  | .idx a c r _ => (a = 0 ∧ c = 257) ∨ (a = 0 ∧ c = 280 ∧ r = true)
  | .all _ => false

def smRegs (shortCE shortDW : Nat) (appRegs : List Reg) : List Reg :=
  builtinRegs shortCE shortDW ++ appRegs.filter (fun r => ¬ refused shortCE shortDW r)

structure SMEnv where
  cfg : Settings
  apps : List SApp
  appOK : Nat → Nat → Bool
  ips : Option (List Bytes)      -- configured or local-endpoint addresses; none = getLocalAddresses failed
  shortCE : Nat
  shortDW : Nat
  regs : List Reg                -- application registrations, in order

/-- one inbound message on a server-side connection -/
def smStep (env : SMEnv) (short : Option Nat) (s : ConnSt) (m : Msg) : ConnSt × List Act :=
  match (Mux.ofRegs (smRegs env.shortCE env.shortDW env.regs)).dispatch short m.hdr.app m.hdr.cmd (isRequest m.hdr.flags) with
  | .report => (s, [.report])
  | .handler h =>
    match targetOf h with
    | .cer =>
      if s.peer.isSome then (s, [.ignored]) else
      (match cerParse env.appOK m.avps with
       | .error e =>
         (match env.ips with
          | none => ({ s with closed := true }, [.report, .closed])
          | some ips =>
            if s.closed then ({ s with closed := true }, [.writeFailed, .report, .closed])
            else ({ s with closed := true }, [.wrote (errorCEA env.cfg ips m.hdr (firstOf C.originStateId m.avps) e), .closed]))
       | .ok v =>
         (match env.ips with
          | none => (s, [.report])
          | some ips =>
            if s.closed then (s, [.writeFailed, .report])
            else
              ({ s with peer := some { host := v.host, realm := v.realm, apps := v.ids } },
               [.wrote (successCEA env.cfg env.apps ips m.hdr v), .setMeta { host := v.host, realm := v.realm, apps := v.ids }])))
    | .dwrGated | .dwr =>
      if (targetOf h == .dwrGated) ∧ s.peer.isNone then (s, [.ignored]) else
      if (strField C.originHost m.avps).isEmpty ∨ (strField C.originRealm m.avps).isEmpty then (s, [.report])
      else if s.closed then (s, [.writeFailed, .report])
      else (s, [.wrote (dwa env.cfg m.hdr)])
    | .app k => if s.peer.isSome then (s, [.app k]) else (s, [.ignored])
    | _ => (s, [.ignored])

def smRun (env : SMEnv) (shortOf : Msg → Option Nat) : ConnSt → List Msg → List (List Act)
  | _, [] => []
  | s, m :: r =>
    let (s', acts) := smStep env (shortOf m) s m
    acts :: smRun env shortOf s' r

end DV
