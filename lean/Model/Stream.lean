import Model.Codec
/-!
  Model.Stream — `ReadMessage` over a plain `io.Reader` (`readHeader`, `readBody`,
  `io.ReadFull`), the reader being the list of fragments the transport will return.
-/
namespace DV

/-- how the byte stream ends: orderly EOF, or a transport read error -/
inductive Fin where
  | eof
  | err
deriving Repr, BEq, DecidableEq

/-- a transport: the non-empty fragments successive `Read` calls will return, then `fin` -/
structure Src where
  frags : List Bytes
  fin : Fin
deriving Repr

/-- what `io.ReadFull` reports besides the bytes -/
inductive RF where
  | full          -- n bytes read, err == nil
  | eof           -- 0 bytes read, io.EOF
  | unexpected    -- some but not all bytes, io.ErrUnexpectedEOF
  | ioerr         -- transport error (after any number of bytes)
deriving Repr, BEq, DecidableEq

/-- one `Read(p)` with `len(p) = want > 0`: a non-empty prefix of the head fragment -/
def Src.read (s : Src) (want : Nat) : Option Bytes × Src :=
  match s.frags with
  | [] => (none, s)
  | f :: r =>
    if f.length ≤ want then (some f, { s with frags := r })
    else (some (f.take want), { s with frags := f.drop want :: r })

/-- `io.ReadFull(r, buf[:n])`: loop until n bytes or an error. `fuel` bounds the loop (every
    Read returns at least one byte). -/
def readFull : Nat → Nat → Src → Bytes → (Bytes × RF) × Src
  | _, 0, s, acc => ((acc, .full), s)
  | 0, _, s, acc => ((acc, .ioerr), s)
  | fuel+1, n+1, s, acc =>
    match s.read (n+1) with
    | (none, s') =>
      ((acc, match s.fin with
             | .eof => if acc.isEmpty then RF.eof else RF.unexpected
             | .err => RF.ioerr), s')
    | (some got, s') => readFull fuel (n + 1 - got.length) s' (acc ++ got)

/-- outcome of one `ReadMessage` -/
inductive MsgRes where
  | msg (m : Msg)
  | eof                 -- io.EOF: the stream ended between messages
  | errHeader           -- stream ended / failed inside the 20-byte header
  | errCommand          -- command not in the dictionary
  | reject              -- declared length below the header length
  | errBody             -- stream ended / failed inside the body
  | errDecode           -- body read, AVPs undecodable (or command without rules)

/-- decode a complete message image whose header has already been validated -/
def decodeBody (d : DictFn) (h : Header) (body : Bytes) : MsgRes :=
  match d.cmdRules h.app h.cmd with
  | none => .errCommand
  | some (nreq, nans) =>
    if (if isRequest h.flags then nreq else nans) = 0 then .errDecode else
    match decodeAVPs (d.avpType h.app) (body.length + 1) body with
    | .ok as => .msg { hdr := h, avps := as }
    | _ => .errDecode

/-- `ReadMessage(r, dict)`; returns the outcome, the bytes consumed from the transport, the rest -/
def readMessage (d : DictFn) (s : Src) : MsgRes × Nat × Src :=
  let totalLen := (s.frags.map List.length).sum
  match readFull (totalLen + 1) 20 s [] with
  | ((hb, .full), s1) =>
    (match decodeHeader hb with
     | .ok h =>
       (match d.cmdRules h.app h.cmd with
        | none => (.errCommand, 20, s1)
        | some _ =>
          if h.len < 20 then (.reject, 20, s1) else
          match readFull (totalLen + 1) (h.len - 20) s1 [] with
          | ((body, .full), s2) => (decodeBody d h body, h.len, s2)
          | ((body, _), s2) => (.errBody, 20 + body.length, s2))
     | _ => (.errHeader, 20, s1))
  | ((hb, .eof), s1) => (.eof, hb.length, s1)
  | ((hb, _), s1) => (.errHeader, hb.length, s1)

/-- successive `ReadMessage` calls until the first that does not return a message
    (the connection's reader loop stops there) -/
def readAll (d : DictFn) : Nat → Src → List MsgRes × Nat
  | 0, _ => ([], 0)
  | fuel+1, s =>
    match readMessage d s with
    | (.msg m, n, s') => let (r, k) := readAll d fuel s'; (.msg m :: r, n + k)
    | (other, n, _) => ([other], n)

end DV
