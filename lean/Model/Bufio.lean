import Model.Retry
/-!
  Model.Bufio — `response.Write` (server.go) on a TCP-like connection: the message goes through
  the connection's `bufio.Writer` (`bufio.NewWriter(rwc)`: 4096 octets) and is flushed at once.
  `bufio.Writer.Write` / `Flush` follow the Go standard library (modelled, not verified),
  including the sticky error: after a failed transport write every later `Write` and `Flush`
  returns that error without touching the transport. `writeRetry` on top of it is the path of
  `Message.WriteToWithRetry(conn, n)` for a `diam.Conn`.
-/
namespace DV

/-- one `Write` of the transport under the `io.Writer` contract: a nil error means everything
    was accepted; an error comes with `min k len` octets accepted. A script that has run out
    accepts everything. Returns (octets accepted, error), the rest of the script. -/
def twrite (p : Bytes) : List Outcome → (Nat × Option EK) × List Outcome
  | [] => ((p.length, none), [])
  | o :: os =>
    match o.err with
    | none => ((p.length, none), os)
    | some e => ((min o.k p.length, some e), os)

/-- `bufio.Writer` -/
structure BW where
  size : Nat := 4096
  buf : Bytes := []
  err : Option EK := none
deriving Repr, DecidableEq

/-- result of an operation on the writer: what the transport accepted during it, in order -/
structure BWOut where
  st : BW
  os : List Outcome
  acc : List Bytes := []
deriving Repr

/-- `(*bufio.Writer).Flush` -/
def BW.flush (st : BW) (os : List Outcome) : BWOut :=
  match st.err with
  | some _ => { st := st, os := os }
  | none =>
    if st.buf.length = 0 then { st := st, os := os } else
    let ((k, e), os') := twrite st.buf os
    match e with
    | none => { st := { st with buf := [] }, os := os', acc := [st.buf] }
    | some e => { st := { st with buf := st.buf.drop k, err := some e }, os := os', acc := [st.buf.take k] }

/-- `(*bufio.Writer).Write`: returns the count `nn` as well (the error is `st.err`) -/
def BW.write : Nat → BW → Bytes → List Outcome → Nat × BWOut
  | 0, st, _, os => (0, { st := st, os := os })
  | fuel+1, st, p, os =>
    if p.length > st.size - st.buf.length ∧ st.err = none then
      if st.buf.length = 0 then
        -- large write, empty buffer: written directly from p
        let ((k, e), os') := twrite p os
        let (nn, r) := BW.write fuel { st with err := e } (p.drop k) os'
        (k + nn, { r with acc := p.take k :: r.acc })
      else
        let n := st.size - st.buf.length
        let f := BW.flush { st with buf := st.buf ++ p.take n } os
        let (nn, r) := BW.write fuel f.st (p.drop n) f.os
        (n + nn, { r with acc := f.acc ++ r.acc })
    else if st.err ≠ none then (0, { st := st, os := os })
    else (p.length, { st := { st with buf := st.buf ++ p }, os := os })

/-- `response.Write` for a connection that is not multistream: buffered write, then flush;
    any error is returned with a count of zero -/
def respWrite (st : BW) (p : Bytes) (os : List Outcome) : (Nat × Option EK) × BWOut :=
  let (n, w) := BW.write (p.length + 1) st p os
  match w.st.err with
  | some e => ((0, some e), w)
  | none =>
    let f := BW.flush w.st w.os
    match f.st.err with
    | some e => ((0, some e), { f with acc := w.acc ++ f.acc })
    | none => ((n, none), { f with acc := w.acc ++ f.acc })

structure ConnRetryRes where
  st : BW
  os : List Outcome
  accepted : List Bytes
  attempts : Nat
  n : Nat
  err : Option EK
deriving Repr

/-- `writeStreamRetry(conn, b, stream, retries)` with the connection's `response` as writer -/
def connWriteRetry : Nat → BW → Bytes → List Outcome → ConnRetryRes
  | retries, st, b, os =>
    let ((wn, e), w) := respWrite st b os
    match e with
    | none => { st := w.st, os := w.os, accepted := w.acc, attempts := 1, n := wn, err := none }
    | some ek =>
      match retries with
      | 0 => { st := w.st, os := w.os, accepted := w.acc, attempts := 1, n := wn, err := some ek }
      | r+1 =>
        if ek = .perm then { st := w.st, os := w.os, accepted := w.acc, attempts := 1, n := wn, err := some ek }
        else
          let rest := connWriteRetry r w.st (b.drop wn) w.os
          { rest with accepted := w.acc ++ rest.accepted, attempts := rest.attempts + 1, n := wn + rest.n }

end DV
