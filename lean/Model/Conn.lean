import Model.Stream
/-!
  Model.Conn — one connection of `diam/server.go` as a labelled transition system:
  the reader loop `conn.serve` (bufio over `liveSwitchReader`), handlers (entered / returned /
  panicking as external events), `CloseNotify` with its pipe and copy goroutine, termination
  (`rwc.Close(); sr.stop(); notifyClientGone()`), error reports.

  Internal events `readerStep` / `copierStep` are the goroutines' own progress; every other
  event is the environment (peer, handler code, application). A state is *quiescent* when no
  internal event is enabled.
-/
namespace DV

/-- what the reader finds at the front of its buffered bytes -/
inductive Next where
  | ready (m : Msg) (n : Nat)   -- a complete, decodable message of n bytes
  | bad                          -- undecodable input: unknown command, length < 20, bad AVPs
  | need                         -- more bytes are needed
deriving Inhabited

def nextMsg (d : DictFn) (b : Bytes) : Next :=
  if b.length < 20 then .need else
  match decodeHeader (b.take 20) with
  | .ok h =>
    (match d.cmdRules h.app h.cmd with
     | none => .bad
     | some _ =>
       if h.len < 20 then .bad else
       if b.length < h.len then .need else
       match decodeBody d h ((b.drop 20).take (h.len - 20)) with
       | .msg m => .ready m h.len
       | _ => .bad)
  | _ => .bad

inductive RSrc where
  | rwc | pipe
deriving Repr, BEq, DecidableEq

inductive RPc where
  | idle                  -- in the loop, not inside a Read call
  | blocked (src : RSrc)   -- inside `src.Read`, waiting
  | inHandler
  | exited
deriving Repr, BEq, DecidableEq

inductive CPc where
  | notStarted
  | reading               -- inside `readSource.Read`
  | writing               -- inside `pw.Write(chunk)`, chunk is `pipeData`
  | exited
deriving Repr, BEq, DecidableEq

inductive Chan where
  | none | open | closed
deriving Repr, BEq, DecidableEq

structure CN where
  -- transport
  multi : Bool := false      -- a `MultistreamConn` (SCTP): no bufio / pipe; `closeNotify` installs the
                             -- association's error handler instead of the copy goroutine. The
                             -- reader's bytes are those of the stream in use (demultiplexing: C19)
  coal : Bool := false       -- the transport hands over its last bytes together with the EOF / error
                             -- (`n > 0, err ≠ nil`: allowed by io.Reader, done by crypto/tls)
  inbox : List Bytes := []   -- fragments delivered by the peer, not yet read (one per Read)
  eof : Bool := false        -- peer closed its side
  rerr : Bool := false       -- transport read error pending
  closed : Bool := false     -- rwc.Close() was called
  tfail : Bool := false      -- a transport Read failed with a timeout
  -- reader
  rbuf : Bytes := []         -- bufio contents
  reader : RPc := .idle
  src : RSrc := .rwc          -- liveSwitchReader.r
  rEnd : Option Bool := none -- bufio's stored error (some true: an error, some false: EOF)
  pending : Bool := false    -- sr.pr / sr.pipeCopyF set, copier not started yet
  -- pipe and copier
  pipeData : Bytes := []     -- chunk the copier is writing, not yet consumed
  pipeW : Bool := false      -- write side closed (CloseWithError)
  pipeErr : Bool := false    -- ... with an error other than EOF
  pipeR : Bool := false      -- read side closed (sr.stop)
  copier : CPc := .notStarted
  cEnd : Option Bool := none -- io.Copy saw the end of the source together with its last chunk
  -- close notification
  chan : Chan := .none
  gone : Bool := false       -- c.clientGone
  closes : Nat := 0          -- how many times a channel was closed
  -- observations
  handed : List Msg := []    -- messages given to handlers, in order
  consumed : Bytes := []     -- bytes of those messages
  sent : Bytes := []         -- everything the peer delivered
  active : Nat := 0          -- handlers currently running (0 or 1)
  maxActive : Nat := 0
  reports : Nat := 0         -- error reports offered

inductive CEv where
  | deliver (b : Bytes)
  | peerEof
  | readErr
  | readTimeout         -- the transport Read in progress fails with a timeout (`Server.ReadTimeout`)
  | localClose
  | requestCN           -- CloseNotify() from anywhere (a handler, another goroutine, after the end)
  | handlerReturn
  | handlerPanic
  | readerStep
  | copierStep
deriving Repr, BEq, DecidableEq

/-- `notifyClientGone` -/
def CN.notify (s : CN) : CN :=
  if s.gone then s else
  { s with gone := true,
           chan := if s.chan = .open then .closed else s.chan,
           closes := if s.chan = .open then s.closes + 1 else s.closes }

/-- the reader loop ends: `rwc.Close(); sr.stop(); notifyClientGone()` -/
def CN.terminate (s : CN) (report : Bool) : CN :=
  CN.notify { s with closed := true, reader := .exited, pending := false,
                     pipeR := if s.src = .pipe then true else s.pipeR,
                     active := 0,
                     reports := if report then s.reports + 1 else s.reports }

/-- the transport has nothing more to give and says so -/
def CN.trDone (s : CN) : Bool := s.closed || s.eof || s.rerr

/-- a Read that finds the stream ended: is the resulting `ReadMessage` error reported?
    clean EOF between messages is not; EOF inside the header (`io.ErrUnexpectedEOF`) is not;
    anything else (read error, closed connection, EOF inside a body) is -/
def endReport (isErr : Bool) (rbuf : Bytes) : Bool :=
  if isErr then true else decide (rbuf.length ≥ 20)

/-- one attempt of the reader to obtain bytes from its current source -/
def CN.readFrom (s : CN) (src : RSrc) : CN :=
  match src with
  | .rwc =>
    match s.rEnd with
    | some e => s.terminate (endReport e s.rbuf)
    | none =>
    if s.closed then s.terminate true
    else if ¬ s.inbox.isEmpty then
      { s with rbuf := s.rbuf ++ s.inbox.headD [], inbox := s.inbox.tail, reader := .idle,
               rEnd := if s.coal && s.inbox.tail.isEmpty && (s.rerr || s.eof) then some s.rerr else none }
    else if s.rerr || s.eof then s.terminate (endReport s.rerr s.rbuf)
    else { s with reader := .blocked .rwc }
  | .pipe =>
    if ¬ s.pipeData.isEmpty then { s with rbuf := s.rbuf ++ s.pipeData, pipeData := [], reader := .idle }
    else if s.pipeW then s.terminate (endReport s.pipeErr s.rbuf)
    else { s with reader := .blocked .pipe }

def CN.step (d : DictFn) (s : CN) : CEv → Option CN
  | .deliver b =>
    if s.closed || s.eof || s.rerr || b.isEmpty then none
    else some { s with inbox := s.inbox ++ [b], sent := s.sent ++ b }
  | .peerEof => if s.closed || s.eof || s.rerr then none else some { s with eof := true }
  | .readErr => if s.closed || s.eof || s.rerr then none else some { s with rerr := true }
  | .readTimeout =>
    -- the transport Read in progress (the reader's, or the copier's) returns a timeout error:
    -- any failed Read ends the connection
    if s.inbox.isEmpty ∧ ¬ (s.closed || s.eof || s.rerr) then
      if s.reader = .blocked .rwc then some (CN.terminate { s with tfail := true } true)
      else if s.copier = .reading then
        some (CN.notify { s with tfail := true, copier := .exited, pipeW := true, pipeErr := true })
      else none
    else none
  | .localClose => if s.closed then none else some { s with closed := true }
  | .requestCN =>
    match s.chan with
    | .none =>
      if s.gone then some { s with chan := .closed, closes := s.closes + 1 }
      else if s.multi then some { s with chan := .open }
      else some { s with chan := .open, pending := true }
    | _ => some s
  | .handlerReturn =>
    if s.reader = .inHandler then some { s with reader := .idle, active := 0 } else none
  | .handlerPanic =>
    if s.reader = .inHandler then some (s.terminate false) else none
  | .readerStep =>
    match s.reader with
    | .idle =>
      (match nextMsg d s.rbuf with
       | .ready m n =>
         some { s with reader := .inHandler, rbuf := s.rbuf.drop n, handed := s.handed ++ [m],
                       consumed := s.consumed ++ s.rbuf.take n, active := s.active + 1,
                       maxActive := max s.maxActive (s.active + 1) }
       | .bad => some (s.terminate true)
       | .need =>
         -- `bufio.Reader` returns an error it has stored (the end of the stream, seen together with
         -- the last bytes) before it asks its source again - also when a close notifier has been
         -- requested in the meantime
         if let some e := s.rEnd then some (s.terminate (endReport e s.rbuf)) else
         -- `liveSwitchReader.Read`: start the copier if a close notifier is pending, then read
         if s.pending then
           some (CN.readFrom { s with pending := false, src := .pipe, copier := .reading } .pipe)
         else some (s.readFrom s.src))
    | .blocked src =>
      -- the Read call in progress can complete?
      (match src with
       | .rwc => if s.closed || ¬ s.inbox.isEmpty || s.rerr || s.eof then some (s.readFrom .rwc) else none
       | .pipe => if ¬ s.pipeData.isEmpty || s.pipeW then some (s.readFrom .pipe) else none)
    | _ => none
  | .copierStep =>
    match s.copier with
    | .reading =>
      if s.closed then some (CN.notify { s with copier := .exited, pipeW := true, pipeErr := true })
      else if ¬ s.inbox.isEmpty then
        some { s with copier := .writing, pipeData := s.inbox.headD [], inbox := s.inbox.tail,
                      cEnd := if s.coal && s.inbox.tail.isEmpty && (s.rerr || s.eof) then some s.rerr else none }
      else if s.rerr || s.eof then some (CN.notify { s with copier := .exited, pipeW := true, pipeErr := s.rerr })
      else none
    | .writing =>
      if s.pipeR then some (CN.notify { s with copier := .exited, pipeW := true, pipeErr := true, pipeData := [] })
      else if s.pipeData.isEmpty then
        (match s.cEnd with
         | some e => some (CN.notify { s with copier := .exited, pipeW := true, pipeErr := e })
         | none => some { s with copier := .reading })
      else none
    | _ => none

def CN.run (d : DictFn) (s : CN) : List CEv → Option CN
  | [] => some s
  | e :: es => match s.step d e with
    | some s' => s'.run d es
    | none => none

/-- no goroutine of the library can move -/
def CN.quiescent (d : DictFn) (s : CN) : Bool :=
  (s.step d .readerStep).isNone && (s.step d .copierStep).isNone

/-- the connection is gone: the peer closed, the transport failed, it was closed locally, or
    the reader loop ended -/
def CN.terminated (s : CN) : Bool := s.closed || s.eof || s.rerr || s.tfail || s.reader = .exited

/-- run internal steps until quiescent (reader first, then copier); `fuel` bounds the loop -/
def CN.settle (d : DictFn) : Nat → CN → CN
  | 0, s => s
  | fuel+1, s =>
    match s.step d .readerStep with
    | some s' => CN.settle d fuel s'
    | none =>
      match s.step d .copierStep with
      | some s' => CN.settle d fuel s'
      | none => s

end DV
