import Model.Basic
/-!
  Model.Retry — `writeRetry` / `writeStreamRetry` (message.go), literally. The transport is the
  list of outcomes its successive `Write` calls will have.
-/
namespace DV

/-- kind of error a `Write` reports -/
inductive EK where
  | temp   -- net.Error with Temporary() == true
  | perm   -- anything else
deriving Repr, BEq, DecidableEq

/-- outcome of one `Write(b)`: bytes accepted and the error, if any -/
structure Outcome where
  k : Nat
  err : Option EK
deriving Repr, BEq, DecidableEq

/-- the `io.Writer` contract for a call offered `n` bytes: `0 ≤ k ≤ n`, and `err == nil → k == n` -/
def Outcome.ok (o : Outcome) (n : Nat) : Prop := o.k ≤ n ∧ (o.err = none → o.k = n)

structure RetryRes where
  offered : List Bytes     -- the buffer handed to each Write call
  accepted : List Bytes    -- the bytes each call accepted
  n : Nat                  -- returned count
  err : Option EK          -- returned error
deriving Repr

/-- the loop of `writeRetry`. A script that runs out means the transport accepts everything. -/
def writeRetry : Bytes → Nat → List Outcome → RetryRes
  | b, _, [] => { offered := [b], accepted := [b], n := b.length, err := none }
  | b, retries, o :: os =>
    if o.err = none ∨ retries = 0 ∨ o.err = some .perm then
      { offered := [b], accepted := [b.take o.k], n := o.k, err := o.err }
    else
      let r := writeRetry (b.drop o.k) (retries - 1) os
      { offered := b :: r.offered, accepted := b.take o.k :: r.accepted, n := o.k + r.n, err := r.err }

/-- the script honours the `io.Writer` contract along the run -/
def contract : Bytes → Nat → List Outcome → Prop
  | _, _, [] => True
  | b, retries, o :: os =>
    o.ok b.length ∧
      (if o.err = none ∨ retries = 0 ∨ o.err = some .perm then True
       else contract (b.drop o.k) (retries - 1) os)

end DV
