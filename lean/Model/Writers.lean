import Model.Basic
/-!
  Model.Writers — N goroutines writing messages to one `diam.Conn` (`response.Write`:
  `w.mu.Lock(); defer w.mu.Unlock(); buf.Write(b); buf.Flush()`), as a labelled transition
  system. A transport write may accept any non-empty part of what the holder still has to
  deliver (bufio fills and flushes in pieces; the transport may stall between them - a stall is
  simply the absence of a `xfer` event while other events happen).
-/
namespace DV

inductive WPc where
  | idle
  | waiting (m : Bytes)                 -- serialised into its own buffer, blocked on / about to take w.mu
  | holding (m : Bytes) (rest : Bytes)  -- holds w.mu; `rest` not yet accepted by the transport
deriving Repr, BEq, DecidableEq

structure Writer where
  queue : List Bytes    -- messages this goroutine will still write, in program order
  pc : WPc
deriving Repr, BEq, DecidableEq

structure WSys where
  writers : Nat → Writer     -- goroutine id ↦ state
  lock : Option Nat          -- the goroutine holding w.mu
  wire : Bytes               -- everything the transport has accepted, in order
  done : List (Nat × Bytes)  -- completed writes (goroutine, message) in completion order

inductive WEv where
  | start (w : Nat)            -- next message serialised (pooled buffer is private between get and put)
  | acquire (w : Nat)          -- w.mu.Lock() succeeds
  | xfer (w : Nat) (k : Nat)   -- transport accepts k more bytes from the lock holder
  | release (w : Nat)          -- everything flushed: deferred Unlock, Write returns
deriving Repr, BEq, DecidableEq

def setW (ws : Nat → Writer) (i : Nat) (w : Writer) : Nat → Writer := fun j => if j = i then w else ws j

/-- one transition; `none` when the event is not enabled -/
def WSys.step (s : WSys) : WEv → Option WSys
  | .start i =>
    match s.writers i with
    | { queue := m :: q, pc := .idle } => some { s with writers := setW s.writers i { queue := q, pc := .waiting m } }
    | _ => none
  | .acquire i =>
    match s.lock, s.writers i with
    | none, { queue := q, pc := .waiting m } =>
      some { s with lock := some i, writers := setW s.writers i { queue := q, pc := .holding m m } }
    | _, _ => none
  | .xfer i k =>
    match s.lock, s.writers i with
    | some j, { queue := q, pc := .holding m rest } =>
      if j = i ∧ 0 < k ∧ k ≤ rest.length then
        some { s with wire := s.wire ++ rest.take k,
                      writers := setW s.writers i { queue := q, pc := .holding m (rest.drop k) } }
      else none
    | _, _ => none
  | .release i =>
    match s.lock, s.writers i with
    | some j, { queue := q, pc := .holding m [] } =>
      if j = i then
        some { s with lock := none, done := s.done ++ [(i, m)],
                      writers := setW s.writers i { queue := q, pc := .idle } }
      else none
    | _, _ => none

def WSys.run (s : WSys) : List WEv → Option WSys
  | [] => some s
  | e :: es => match s.step e with
    | some s' => s'.run es
    | none => none

def WSys.init (programs : Nat → List Bytes) : WSys :=
  { writers := fun i => { queue := programs i, pc := .idle }, lock := none, wire := [], done := [] }

end DV
