import Gen.Struct
/-!
  Model.Listener — the accept loop of `Server.Serve` (diam/server.go): temporary Accept errors
  are retried after a back-off that doubles up to a cap and is reset by a successful Accept; any
  other Accept error makes Serve return (the deferred `l.Close()` closes the listener); every
  accepted connection is handed to its own `serve` goroutine.
  The back-off constants are read from the source by the extractor (`Gen.Struct`).
-/
namespace DV

inductive LEv where
  | acceptOk      -- Accept returned a connection
  | acceptTemp    -- Accept failed, `net.Error` with `Temporary()`
  | acceptPerm    -- Accept failed with any other error
deriving Repr, BEq, DecidableEq

structure LS where
  running : Bool := true
  lclosed : Bool := false
  delay : Nat := 0           -- `tempDelay`, milliseconds
  spawned : Nat := 0         -- connections handed to `go c.serve()`
  slept : List Nat := []     -- every `time.Sleep(tempDelay)` so far
deriving Repr

def capDelay (x : Nat) : Nat := if x > Gen.acceptBackoffMaxMs then Gen.acceptBackoffMaxMs else x

def nextDelay (d : Nat) : Nat :=
  capDelay (if d = 0 then Gen.acceptBackoffFirstMs else d * Gen.acceptBackoffFactor)

def LS.step (s : LS) (e : LEv) : Option LS :=
  if ¬ s.running then none else
  match e with
  | .acceptOk => some { s with delay := 0, spawned := s.spawned + 1 }
  | .acceptTemp => some { s with delay := nextDelay s.delay, slept := s.slept ++ [nextDelay s.delay] }
  | .acceptPerm => some { s with running := false, lclosed := true }

def LS.run (s : LS) : List LEv → Option LS
  | [] => some s
  | e :: es => match s.step e with
    | some s' => s'.run es
    | none => none

end DV
