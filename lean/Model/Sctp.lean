import Model.Stream
/-!
  Model.Sctp — `diam.SCTPConn` as the connection's reader loop uses it (network_sctp.go,
  message.go readHeader/readBody, server.go conn.readMessage): per-stream buffers for data
  that arrived while another stream was being read, `ReadAny`, `ReadStream`, `ReadAtLeast`,
  `verifyStreamBuff`, `bufferStreamData`.

  The socket is the list of data chunks still to come, `(stream, bytes)` in arrival order;
  `SCTPRead(b)` returns at most `len(b)` bytes of the head chunk and leaves the rest of it at the
  head (the contract of the in-memory backend of the `verif` hook - an assumption about SCTP).
  The `container/heap` that orders the stream buffers only decides WHICH buffered stream
  `ReadAny` serves first; here that choice is an oracle argument (`pick`), and the theorems hold
  for every oracle - so they do not depend on the heap being maintained correctly.
-/
namespace DV

structure SS where
  bufs : Nat → Bytes               -- `streamMap[σ]` contents ([] when absent or empty)
  chunks : List (Nat × Bytes)      -- data chunks still in the socket
  fin : Fin                        -- how the association ends after the last chunk

def setBuf (f : Nat → Bytes) (σ : Nat) (b : Bytes) : Nat → Bytes := fun τ => if τ = σ then b else f τ

/-- `msc.SCTPRead(b)`, `len(b) = want` -/
def SS.sockRead (s : SS) (want : Nat) : Option (Nat × Bytes) × SS :=
  match s.chunks with
  | [] => (none, s)
  | (τ, d) :: r =>
    if d.length ≤ want then (some (τ, d), { s with chunks := r })
    else (some (τ, d.take want), { s with chunks := (τ, d.drop want) :: r })

/-- `sb.Read(b)` on stream σ's buffer (`bytes.Buffer.Read`), `len(b) = want` -/
def SS.bufRead (s : SS) (σ want : Nat) : Bytes × SS :=
  ((s.bufs σ).take want, { s with bufs := setBuf s.bufs σ ((s.bufs σ).drop want) })

/-- `bufferStreamData(b, σ)` -/
def SS.buffer (s : SS) (σ : Nat) (d : Bytes) : SS := { s with bufs := setBuf s.bufs σ (s.bufs σ ++ d) }

/-- `verifyStreamBuff(b, n, σ, err)`: data for σ arrived from the socket; if σ has buffered data
    the new data goes behind it and `b` is refilled from the front of the buffer -/
def SS.verify (s : SS) (σ : Nat) (d : Bytes) (want : Nat) : Bytes × SS :=
  if (s.bufs σ).isEmpty then (d, s) else (s.buffer σ d).bufRead σ want

/-- `ReadStream(b, σ)`, `len(b) = want > 0`: the bytes read, and whether the call succeeded -/
def readStream : Nat → Nat → Nat → SS → (Bytes × Bool) × SS
  | 0, _, _, s => (([], false), s)
  | fuel+1, want, σ, s =>
    if ¬ (s.bufs σ).isEmpty then
      let (d, s') := s.bufRead σ want
      ((d, true), s')
    else
      match s.sockRead want with
      | (none, s') => (([], false), s')
      | (some (τ, d), s') =>
        if τ = σ then
          let (d', s'') := s'.verify σ d want
          ((d', true), s'')
        else readStream fuel want σ (s'.buffer τ d)

/-- `ReadAny(b)`, `len(b) = want`: `pick = some σ` when the heap's top is stream σ with data
    buffered; otherwise the socket is read. Returns bytes, the stream, success. -/
def readAny (pick : Option Nat) (want : Nat) (s : SS) : (Bytes × Nat × Bool) × SS :=
  match (match pick with | some σ => if (s.bufs σ).isEmpty then none else some σ | none => none) with
  | some σ =>
    let (d, s') := s.bufRead σ want
    ((d, σ, true), s')
  | none =>
    match s.sockRead want with
    | (none, s') => (([], 0, false), s')
    | (some (τ, d), s') =>
      let (d', s'') := s'.verify τ d want
      ((d', τ, true), s'')

/-- bytes still in the socket -/
def SS.sockTotal (s : SS) : Nat := ((s.chunks.map (·.2)).flatten).length

/-- the loop of `ReadAtLeast`: `for n < min && err == nil { ReadStream(buf[n:], stream) }`,
    with `len(buf) = min`; `need` bytes are still missing -/
def readMore : Nat → Nat → Nat → Bytes → SS → (Bytes × Bool) × SS
  | _, 0, _, acc, s => ((acc, true), s)
  | 0, _, _, acc, s => ((acc, false), s)
  | fuel+1, need+1, σ, acc, s =>
    match readStream (s.sockTotal + 1) (need + 1) σ s with
    | ((d, true), s') => readMore fuel (need + 1 - d.length) σ (acc ++ d) s'
    | ((d, false), s') => ((acc ++ d, false), s')

/-- one iteration of the reader loop: `msc.ResetCurrentStream(); ReadMessage(msc, dict)`.
    Returns the outcome and the stream the message was read from. -/
def SS.readMessage (d : DictFn) (pick : Option Nat) (s : SS) : (MsgRes × Nat) × SS :=
  match readAny pick 20 s with
  | ((_, _, false), s1) => (((match s.fin with | .eof => MsgRes.eof | .err => MsgRes.errHeader), 0), s1)
  | ((h0, σ, true), s1) =>
    match readMore 20 (20 - h0.length) σ h0 s1 with
    | ((_, false), s2) => ((.errHeader, σ), s2)
    | ((hb, true), s2) =>
      match decodeHeader hb with
      | .ok h =>
        (match d.cmdRules h.app h.cmd with
         | none => ((.errCommand, σ), s2)
         | some _ =>
           if h.len < 20 then ((.reject, σ), s2) else
           match readMore (h.len - 20) (h.len - 20) σ [] s2 with
           | ((body, true), s3) => ((decodeBody d h body, σ), s3)
           | ((_, false), s3) => ((.errBody, σ), s3))
      | _ => ((.errHeader, σ), s2)

/-- the reader loop: successive messages until the first outcome that is not a message;
    `picks` is the heap's choice before each message -/
def SS.readLoop (d : DictFn) : List (Option Nat) → SS → List (MsgRes × Nat)
  | [], _ => []
  | p :: ps, s =>
    match s.readMessage d p with
    | ((.msg m, σ), s') => (.msg m, σ) :: SS.readLoop d ps s'
    | (other, _) => [other]

/-- the same loop, returning the messages delivered (with their stream) and the state in which
    the loop stopped: before the read that did not yield a message, or after the last pick -/
def SS.readLoopS (d : DictFn) : List (Option Nat) → SS → List (Msg × Nat) × SS
  | [], s => ([], s)
  | p :: ps, s =>
    match s.readMessage d p with
    | ((.msg m, σ), s') => let (r, sf) := SS.readLoopS d ps s'; ((m, σ) :: r, sf)
    | _ => ([], s)

/-- messages of one stream, in delivery order -/
def onStream (σ : Nat) (l : List (Msg × Nat)) : List Msg := l.filterMap (fun p => if p.2 = σ then some p.1 else none)

/-- unconsumed bytes of stream σ: what is buffered, then what is still in the socket -/
def SS.streamBytes (s : SS) (σ : Nat) : Bytes :=
  s.bufs σ ++ ((s.chunks.filter (fun c => c.1 = σ)).map (·.2)).flatten

def SS.wf (s : SS) : Prop := ∀ c ∈ s.chunks, 0 < c.2.length

end DV
