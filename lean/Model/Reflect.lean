import Model.SM
/-!
  Model.Reflect — `Message.Marshal` / `Message.Unmarshal` (diam/reflect.go): shapes of tagged
  Go structs, values of those shapes, `marshalStruct` / `marshal` and `scanStruct` / `unmarshal`
  branch by branch. Go's assignability / convertibility between the field types used here is
  the pair `toData` / `fromData`.
-/
namespace DV

/-- leaf Go types of struct fields -/
inductive GoT where
  | string | int | int32 | int64 | uint32 | uint64 | float32 | float64
  | bytes          -- []byte
  | netIP          -- net.IP
  | timeTime       -- time.Time
  | dt (t : Nat)   -- the datatype package's Go type for data type id `t`
deriving Repr, BEq, DecidableEq

/-- leaf Go values, by representation -/
inductive GV where
  | s (b : Bytes)      -- a string
  | i (n : Int)        -- an integer of the field's width / signedness
  | f (bits : Nat)     -- a float, as its IEEE bit pattern (width from the field type)
  | b (b : Bytes)      -- a byte slice
  | t (unix : Int)     -- a time
deriving Repr, BEq, DecidableEq

/-- representation class of a leaf type: 0 string, 1 integer, 2 float, 3 byte slice, 4 time -/
def isStrT (t : Nat) : Bool := t = T.ident ∨ t = T.uri ∨ t = T.ipfilter ∨ t = T.octets ∨ t = T.qos ∨ t = T.utf8
def isIntT (t : Nat) : Bool := t = T.enum ∨ t = T.i32 ∨ t = T.i64 ∨ t = T.u32 ∨ t = T.u64
def isFloatT (t : Nat) : Bool := t = T.f32 ∨ t = T.f64
def isBytesT (t : Nat) : Bool := t = T.unknown ∨ t = T.address ∨ t = T.ipv4 ∨ t = T.ipv6 ∨ t = T.grouped

def GoT.cls : GoT → Nat
  | .string => 0
  | .int | .int32 | .int64 | .uint32 | .uint64 => 1
  | .float32 | .float64 => 2
  | .bytes | .netIP => 3
  | .timeTime => 4
  | .dt t => if isStrT t then 0 else if isIntT t then 1 else if isFloatT t then 2 else if isBytesT t then 3 else 4

/-- range of an integer-kinded Go type: (lo, hi) inclusive -/
def intRange : GoT → Int × Int
  | .int | .int64 => (-9223372036854775808, 9223372036854775807)
  | .int32 => (-2147483648, 2147483647)
  | .uint32 => (0, 4294967295)
  | .uint64 => (0, 18446744073709551615)
  | .dt t => if t = T.u32 then (0, 4294967295) else if t = T.u64 then (0, 18446744073709551615)
             else if t = T.i64 then (-9223372036854775808, 9223372036854775807) else (-2147483648, 2147483647)
  | _ => (0, 0)

/-- two's-complement wrap of `n` into `w` bits, unsigned result -/
def wrapU (w : Nat) (n : Int) : Nat := (n % (2 ^ w : Nat)).toNat
/-- ... signed result -/
def wrapS (w : Nat) (n : Int) : Int :=
  let u := wrapU w n
  if u < 2 ^ (w - 1) then (u : Int) else (u : Int) - (2 ^ w : Nat)

/-- the `datatype` value a field value becomes when `marshal` assigns / converts it to the Go type of
    dictionary data type `ty` (`fieldType.AssignableTo(t)` / `ConvertibleTo(t)` / `Convert`);
    `none`: "AVP type mismatched" -/
def toData (ty : Nat) (ft : GoT) (v : GV) : Option Val :=
  if isStrT ty then
    match v with
    | .s b => some (.str ty b)
    | .b b => some (.str ty b)                       -- []byte → string
    | .i n => some (.str ty (runeBytes (if 0 ≤ n ∧ n ≤ 1114111 then n.toNat else 65533)))  -- integer → string: a rune
    | _ => none
  else if ty = T.u32 then (match v with | .i n => some (.fix ty (wrapU 32 n)) | _ => none)
  else if ty = T.u64 then (match v with | .i n => some (.fix ty (wrapU 64 n)) | _ => none)
  else if ty = T.i32 ∨ ty = T.enum then (match v with | .i n => some (.fix ty (wrapU 32 n)) | _ => none)
  else if ty = T.i64 then (match v with | .i n => some (.fix ty (wrapU 64 n)) | _ => none)
  else if ty = T.f32 ∨ ty = T.f64 then
    (match v with | .f bits => if ft = .dt ty ∨ (ty = T.f32 ∧ ft = .float32) ∨ (ty = T.f64 ∧ ft = .float64) then some (.fix ty bits) else none
                  | _ => none)   -- float width changes and int↔float conversions are not modelled
  else if ty = T.address then (match v with | .b b => some (.addr b) | .s b => some (.addr b) | _ => none)
  else if ty = T.ipv4 then (match v with | .b b => some (.ip4 b) | .s b => some (.ip4 b) | _ => none)
  else if ty = T.ipv6 then (match v with | .b b => some (.ip6 b) | .s b => some (.ip6 b) | _ => none)
  else if ty = T.time then (match v with | .t u => some (.time u) | _ => none)
  else none

/-- the field value `unmarshal` stores when the AVP's data converts to the field's type
    (`dv.Type().ConvertibleTo(fieldType)` / `Convert`); `none`: the field is left unchanged -/
def fromData (ft : GoT) (d : Val) : Option GV :=
  match d with
  | .str _ b => if ft.cls = 0 then some (.s b) else if ft.cls = 3 then some (.b b) else none
  | .addr b => if ft.cls = 3 then some (.b b) else if ft.cls = 0 then some (.s b) else none
  | .ip4 b => if ft.cls = 3 then some (.b b) else if ft.cls = 0 then some (.s b) else none
  | .ip6 b => if ft.cls = 3 then some (.b b) else if ft.cls = 0 then some (.s b) else none
  | .fix t n =>
    if isFloatT t then
      (if ft = .dt t ∨ (t = T.f32 ∧ ft = .float32) ∨ (t = T.f64 ∧ ft = .float64) then some (.f n) else none)
    else if ft.cls = 1 then
      -- the data's integer value, then wrapped into the field's type
      let w := if t = T.u64 ∨ t = T.i64 then 64 else 32
      let val : Int := if t = T.u32 ∨ t = T.u64 then (n : Int) else wrapS w n
      let fw := match ft with | .int32 | .uint32 => 32 | .dt t' => if t' = T.u64 ∨ t' = T.i64 then 64 else 32 | _ => 64
      let unsigned := match ft with | .uint32 | .uint64 => true | .dt t' => decide (t' = T.u32 ∨ t' = T.u64) | _ => false
      some (.i (if unsigned then (wrapU fw val : Int) else wrapS fw val))
    else if ft.cls = 0 then
      let w := if t = T.u64 ∨ t = T.i64 then 64 else 32
      let val : Int := if t = T.u32 ∨ t = T.u64 then (n : Int) else wrapS w n
      some (.s (runeBytes (if 0 ≤ val ∧ val ≤ 1114111 then val.toNat else 65533)))
    else none
  | .time u => if ft.cls = 4 then some (.t u) else none
  | .group _ => none

structure FieldTag where
  name : Nat          -- interned AVP name of the `avp:"…"` tag (0: no tag)
  omitE : Bool        -- `,omitempty`
  emb : Bool          -- anonymous struct field without a tag
deriving Repr, BEq, DecidableEq

mutual
inductive Shape where
  | leaf (t : GoT)
  | ptr (s : Shape)
  | slice (s : Shape)             -- a slice whose elements are not bytes
  | struct (fs : List SField)
  | avp                           -- diam.AVP
inductive SField where
  | mk (tag : FieldTag) (s : Shape)
end

def SField.tag : SField → FieldTag | .mk t _ => t
def SField.shape : SField → Shape | .mk _ s => s

inductive RV where
  | leaf (v : GV)
  | nil                           -- nil pointer / nil slice
  | ptr (v : RV)
  | slice (vs : List RV)
  | struct (fs : List RV)
  | avp (a : AVP)

/-- what `marshal` / `scanStruct` need from `Dictionary().FindAVP(app, name)` -/
abbrev FindFn := Nat → Option (Nat × Nat × Bool × Nat)   -- name ↦ (code, vendor, Must has M, data type)

structure DEnt where
  code : Nat
  vendor : Nat
  m : Bool
  ty : Nat

def entOf (find : FindFn) (name : Nat) : Option DEnt :=
  (find name).map (fun (c, v, m, t) => { code := c, vendor := v, m := m, ty := t })

/-- the AVP `marshal` builds: flags from the dictionary entry, Length left zero -/
def mkFieldAVP (e : DEnt) (d : Val) : AVP :=
  .mk e.code ((if e.m then 64 else 0) + (if e.vendor > 0 then 128 else 0)) 0 e.vendor d

/-- `isEmptyValue` -/
def RV.isEmpty : RV → Bool
  | .leaf (.s b) => b.isEmpty
  | .leaf (.i n) => n = 0
  | .leaf (.f bits) => bits = 0 ∨ bits = 2147483648 ∨ bits = 9223372036854775808   -- ±0
  | .leaf (.b b) => b.isEmpty
  | .leaf (.t _) => false
  | .nil => true
  | .ptr _ => false
  | .slice vs => vs.isEmpty
  | .struct _ => false
  | .avp _ => false

/-- `*diam.AVP` -/
def Shape.isPtrAVP : Shape → Bool
  | .ptr .avp => true
  | _ => false

mutual
/-- `marshal(m, field, fieldAVP)` -/
def marshalField (find : FindFn) : Shape → RV → DEnt → Res (List AVP)
  | .slice s, .slice vs, e =>
    if s.isPtrAVP then
      -- `[]*diam.AVP`: appended as they are
      .ok (vs.filterMap (fun v => match v with | .ptr (.avp a) => some a | _ => none))
    else marshalElems find s vs e
  | .slice _, .nil, _ => .ok []
  | .ptr _, .nil, _ => .ok []
  | .ptr s, .ptr v, e => marshalField find s v e
  | .leaf t, .leaf v, e =>
    if e.ty = T.grouped then
      (match v with
       | .b bs => .ok [mkFieldAVP e (.str T.grouped bs)]      -- a `[]byte`-like field for a Grouped AVP: datatype.Grouped
       | _ => .err "data-type-unknown")
    else (match toData e.ty t v with
       | some d => .ok [mkFieldAVP e d]
       | none => .err "type-mismatched")
  | .struct fs, .struct vs, e =>
    if e.ty = T.grouped then (marshalGroup find fs vs).mapR (fun kids => [mkFieldAVP e (.group kids)])
    else .err "type-mismatched"
  | .avp, .avp a, e => if e.ty = T.grouped then .ok [a] else .err "type-mismatched"
  | _, _, _ => .err "shape-value-mismatch"
def marshalElems (find : FindFn) : Shape → List RV → DEnt → Res (List AVP)
  | _, [], _ => .ok []
  | s, v :: r, e => (marshalField find s v e).bindR (fun a => (marshalElems find s r e).mapR (fun b => a ++ b))
/-- the field loop of `marshal`'s Grouped / struct case (no embedded-struct handling there) -/
def marshalGroup (find : FindFn) : List SField → List RV → Res (List AVP)
  | .mk tag s :: fs, v :: vs =>
    if tag.name = 0 ∨ (tag.omitE ∧ v.isEmpty) then marshalGroup find fs vs
    else match entOf find tag.name with
      | none => .err "avp-not-in-dictionary"
      | some e => (marshalField find s v e).bindR (fun a => (marshalGroup find fs vs).mapR (fun b => a ++ b))
  | _, _ => .ok []
end

/-- what `marshalStruct` / the group loop produce for one tagged (or untagged) field -/
def fieldOut (find : FindFn) (tag : FieldTag) (s : Shape) (v : RV) : Res (List AVP) :=
  if tag.name = 0 ∨ (tag.omitE ∧ v.isEmpty) then .ok []
  else match entOf find tag.name with
    | none => .err "avp-not-in-dictionary"
    | some e => marshalField find s v e

mutual
/-- `marshalStruct`: like the group loop, plus anonymous struct fields without a tag are
    marshalled in place -/
def marshalStruct (find : FindFn) : List SField → List RV → Res (List AVP)
  | .mk tag s :: fs, v :: vs =>
    (if tag.emb then marshalEmb find s v else fieldOut find tag s v).bindR
      (fun a => (marshalStruct find fs vs).mapR (fun b => a ++ b))
  | _, _ => .ok []
def marshalEmb (find : FindFn) : Shape → RV → Res (List AVP)
  | .struct efs, .struct evs => marshalStruct find efs evs
  | _, _ => .err "shape-value-mismatch"
end

/-- zero value of a shape -/
def zeroOf : Shape → RV
  | .leaf t => .leaf (match t.cls with | 0 => .s [] | 1 => .i 0 | 2 => .f 0 | 3 => .b [] | _ => .t zeroTimeUnix)
  | .ptr _ => .nil
  | .slice _ => .nil
  | .struct fs => .struct (zeroFields fs)
  | .avp => .avp (.mk 0 0 0 0 (.str 0 []))
where zeroFields : List SField → List RV
  | [] => []
  | .mk _ s :: r => zeroOf s :: zeroFields r

/-- an AVP's integer value converted to `uint8` (0 when it has none) -/
def lowByte (x : AVP) : UInt8 :=
  match x.data with
  | .fix ty n => if isFloatT ty then 0 else UInt8.ofNat (n % 256)
  | _ => 0

/-- the non-empty suffixes of a list: `unmarshal` fills element `n` of a slice from `avps[n:]` -/
def tailsNE {α : Type} : List α → List (List α)
  | [] => []
  | a :: r => (a :: r) :: tailsNE r

mutual
/-- `unmarshal(m, f, avps)`: `avps` are the message's AVPs with the field's code (non-empty),
    `cur` is the field's present value -/
def unmarshalField (find : FindFn) : Shape → List AVP → RV → RV
  | _, [], cur => cur
  | .slice s, a :: rest, _ =>
    -- no datatype value converts to a slice of non-byte elements: a new slice, one element per AVP
    .slice ((tailsNE (a :: rest)).map (fun t => unmarshalField find s t (zeroOf s)))
  | .ptr s, a :: rest, cur =>
    .ptr (unmarshalField find s (a :: rest) (match cur with | .ptr v => v | _ => zeroOf s))
  | .struct fs, a :: _, cur =>
    (match a.data, cur with
     | .group kids, .struct vs => .struct (scanFields find fs kids vs)
     | _, _ => cur)
  | .avp, a :: _, _ => .avp a
  | .leaf t, a :: rest, cur =>
    (match fromData t a.data with
     | some v => .leaf v
     | none =>
       -- a byte-slice field whose AVP data does not convert to it is a Go slice all the same:
       -- a new slice with one byte per AVP, each the AVP's integer value converted to uint8
       if t.cls = 3 then .leaf (.b ((a :: rest).map lowByte))
       else cur)
/-- `scanStruct`: every tagged field whose code occurs in `avps` is filled from the AVPs with
    that code; anonymous struct fields without a tag are scanned against the same AVPs -/
def scanFields (find : FindFn) : List SField → List AVP → List RV → List RV
  | .mk tag s :: fs, avps, v :: vs =>
    (if tag.emb then scanEmb find s avps v
     else if tag.name = 0 then v
     else match entOf find tag.name with
      | none => v        -- (scanStruct returns the lookup error; fields before it stay filled)
      | some e =>
        let mine := avps.filter (fun a => a.code = e.code)
        if mine.isEmpty then v else unmarshalField find s mine v) :: scanFields find fs avps vs
  | _, _, vs => vs
def scanEmb (find : FindFn) : Shape → List AVP → RV → RV
  | .struct efs, avps, .struct evs => .struct (scanFields find efs avps evs)
  | _, _, v => v
end

/-! ### well-formedness (the hypothesis of the round-trip theorem) and value equivalence -/

/-- shapes whose non-nil values marshal to exactly one AVP -/
def Shape.single : Shape → Bool
  | .leaf _ => true
  | .struct _ => true
  | .avp => true
  | .ptr s => s.single
  | .slice _ => false

mutual
/-- codes of the tagged fields of one struct level (embedded structs flattened) -/
def levelCodes (find : FindFn) : List SField → List Nat
  | [] => []
  | .mk tag s :: r =>
    (if tag.emb then embCodes find s
     else if tag.name = 0 then []
     else match entOf find tag.name with | some e => [e.code] | none => []) ++ levelCodes find r
def embCodes (find : FindFn) : Shape → List Nat
  | .struct efs => levelCodes find efs
  | _ => []
end

def distinct : List Nat → Bool
  | [] => true
  | a :: r => !r.contains a && distinct r

def RV.isNil : RV → Bool
  | .nil => true
  | _ => false

mutual
/-- the value `v` of shape `s`, for an AVP described by `e`, is inside the fragment on which
    marshalling and unmarshalling are inverse -/
def wfField (find : FindFn) : Shape → RV → DEnt → Bool
  | .leaf t, .leaf v, e => decide (e.ty ≠ T.grouped) && decide ((toData e.ty t v).bind (fromData t) = some v)
  | .ptr _, .nil, _ => true
  | .ptr s, .ptr v, e => s.single && !v.isNil && wfField find s v e
  | .slice _, .nil, _ => true
  | .slice s, .slice vs, e => s.single && wfElems find s vs e
  | .struct fs, .struct vs, e => e.ty = T.grouped && distinct (levelCodes find fs) && wfGroup find fs vs
  | .avp, .avp a, e => e.ty = T.grouped && a.code = e.code
  | _, _, _ => false
def wfElems (find : FindFn) : Shape → List RV → DEnt → Bool
  | _, [], _ => true
  | s, v :: r, e => !v.isNil && wfField find s v e && wfElems find s r e
def wfGroup (find : FindFn) : List SField → List RV → Bool
  | .mk tag s :: fs, v :: vs =>
    (if tag.emb then false        -- an anonymous struct inside a grouped struct is not marshalled
     else if tag.name = 0 then true
     else match entOf find tag.name with
       | none => false
       | some e => (tag.omitE && v.isEmpty) || wfField find s v e) && wfGroup find fs vs
  | [], [] => true
  | _, _ => false
end

mutual
def wfStruct (find : FindFn) : List SField → List RV → Bool
  | .mk tag s :: fs, v :: vs =>
    (if tag.emb then wfEmb find s v
     else if tag.name = 0 then true
     else match entOf find tag.name with
       | none => false
       | some e => (tag.omitE && v.isEmpty) || wfField find s v e) && wfStruct find fs vs
  | [], [] => true
  | _, _ => false
def wfEmb (find : FindFn) : Shape → RV → Bool
  | .struct efs, .struct evs => wfStruct find efs evs
  | _, _ => false
end

mutual
/-- normal form for comparing a value with what was read back: an empty slice is a nil slice;
    fields without a tag, and fields that were omitted because empty, count as their zero value -/
def normRV : Shape → RV → RV
  | .slice _, .slice [] => .nil
  | .slice s, .slice vs => .slice (normElems s vs)
  | .ptr s, .ptr v => .ptr (normRV s v)
  | .struct fs, .struct vs => .struct (normFields fs vs)
  | _, v => v
def normElems : Shape → List RV → List RV
  | _, [] => []
  | s, v :: r => normRV s v :: normElems s r
def normFields : List SField → List RV → List RV
  | .mk tag s :: fs, v :: vs =>
    (if tag.emb then normRV s v
     else if tag.name = 0 ∨ (tag.omitE ∧ v.isEmpty) then zeroOf s
     else normRV s v) :: normFields fs vs
  | _, vs => vs
end

mutual
/-- structural equality of values (the nested type has no derived `DecidableEq`) -/
def RV.beq : RV → RV → Bool
  | .leaf a, .leaf b => a == b
  | .nil, .nil => true
  | .ptr a, .ptr b => a.beq b
  | .slice a, .slice b => rvsBeq a b
  | .struct a, .struct b => rvsBeq a b
  | .avp a, .avp b => a.beq b
  | _, _ => false
def rvsBeq : List RV → List RV → Bool
  | [], [] => true
  | a :: r, b :: r' => a.beq b && rvsBeq r r'
  | _, _ => false
end

end DV
