import Model.Basic
/-!
  Model.LocalAddr — `getLocalAddresses` (sm/client.go): which Host-IP-Address values a CER / CEA
  carries when none are configured. The endpoint string `h1/h2/..:port` is described by its
  entries: each either parses as an IP address (`net.ParseIP` after the brackets of an IPv6 entry
  have been removed) or does not (empty, a zoned address `fe80::1%eth0`, garbage).
-/
namespace DV

inductive HostEntry where
  | ip (b : Bytes)      -- 4 or 16 octets, as net.ParseIP returns them (here: as they are advertised)
  | unparseable
deriving Repr, DecidableEq

/-- `net.IP.IsLoopback`: 127.0.0.0/8 (also in its IPv4-mapped form) or ::1 -/
def isLoopbackIP (b : Bytes) : Bool :=
  (b.length = 4 ∧ b.headD 0 = 127) ∨
  (b.length = 16 ∧ b.take 12 = [0,0,0,0,0,0,0,0,0,0,255,255] ∧ (b.drop 12).headD 0 = 127) ∨
  b = [0,0,0,0,0,0,0,0,0,0,0,0,0,0,0,1]

def HostEntry.addr? : HostEntry → Option Bytes
  | .ip b => some b
  | .unparseable => none

/-- `getLocalAddresses`: `none` when the port does not parse (the handshake / answer fails);
    otherwise every non-loopback address of the endpoint, or - if there is none - the last
    loopback address -/
def getLocalAddresses (portOk : Bool) (hosts : List HostEntry) : Option (List Bytes) :=
  if ¬ portOk then none else
  let ips := hosts.filterMap HostEntry.addr?
  let nonLoop := ips.filter (fun b => ¬ isLoopbackIP b)
  if nonLoop.isEmpty then
    match (ips.filter isLoopbackIP).getLast? with
    | some l => some [l]
    | none => some []
  else some nonLoop

end DV
