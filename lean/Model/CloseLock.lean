/-!
  Model.CloseLock — closing a connection while a writer is stuck in the transport.

  `response.Write` holds `w.mu` for the whole write (Model.Writers). When the peer has stopped
  reading, the transport write inside it blocks; the only thing that ends it is closing the
  transport, which makes the blocked write fail. Every way a connection ends closes the transport:
  `response.Close` (a local close from any goroutine) and the deferred function of `conn.serve`
  (peer gone, read error, undecodable input, handler panic). The model's parameter
  `closeTakesLock` says whether closing first takes the write mutex: the source does not
  (`Gen.closePathLocks = []`); the variant is the "don't close in the middle of a message" idea.
-/
namespace DV

inductive CLWriter where
  | idle
  | wantsLock
  | inTransport      -- holds w.mu, blocked in (or about to return from) rwc.Write
  | failed           -- the write returned an error; mutex released
  | done             -- the write returned successfully; mutex released
deriving Repr, DecidableEq

structure CLState where
  writer : CLWriter := .idle
  lockHeld : Bool := false          -- w.mu
  lockByCloser : Bool := false
  peerReads : Bool := true          -- false: the peer has stopped reading, the transport accepts nothing
  closeRequested : Bool := false
  closed : Bool := false            -- rwc.Close() has run
deriving Repr, DecidableEq

inductive CLEv where
  | write          -- a goroutine calls Write
  | acquire        -- it gets w.mu and enters the transport write
  | peerStops
  | xferDone       -- the transport accepts the bytes (only while the peer reads)
  | closeCall      -- Close() is called / serve's deferred function starts
  | closeLock      -- (variant) the closer gets w.mu
  | closeDo        -- rwc.Close()
  | writeFails     -- the blocked transport write returns "use of closed connection"
deriving Repr, DecidableEq

def CLState.step (closeTakesLock : Bool) (s : CLState) : CLEv → Option CLState
  | .write => if s.writer = .idle then some { s with writer := .wantsLock } else none
  | .acquire =>
    if s.writer = .wantsLock ∧ ¬ s.lockHeld then some { s with writer := .inTransport, lockHeld := true } else none
  | .peerStops => some { s with peerReads := false }
  | .xferDone =>
    if s.writer = .inTransport ∧ s.peerReads ∧ ¬ s.closed then some { s with writer := .done, lockHeld := false } else none
  | .closeCall => if s.closeRequested then none else some { s with closeRequested := true }
  | .closeLock =>
    if closeTakesLock ∧ s.closeRequested ∧ ¬ s.closed ∧ ¬ s.lockHeld then some { s with lockHeld := true, lockByCloser := true } else none
  | .closeDo =>
    if s.closeRequested ∧ ¬ s.closed ∧ (¬ closeTakesLock ∨ s.lockByCloser) then
      some { s with closed := true, lockHeld := if s.lockByCloser then false else s.lockHeld, lockByCloser := false }
    else none
  | .writeFails =>
    if s.writer = .inTransport ∧ s.closed then some { s with writer := .failed, lockHeld := false } else none

def CLState.run (closeTakesLock : Bool) : CLState → List CLEv → Option CLState
  | s, [] => some s
  | s, e :: es => match s.step closeTakesLock e with
    | some s' => CLState.run closeTakesLock s' es
    | none => none

/-- every event of the alphabet -/
def CLEv.all : List CLEv := [.write, .acquire, .peerStops, .xferDone, .closeCall, .closeLock, .closeDo, .writeFails]

end DV
