import Model.Basic
/-!
  Model.Dict — `dict.Parser`: `Load` (parser.go) and the lookups of util.go.
  Strings (AVP names, type names, application types, command short names) are
  interned to `Nat` by the extractor / the driver; `0` is the empty string.
  The five Go maps are association lists with the newest entry first, so that
  `lookup` returns the most recently stored value (map overwrite).
-/
namespace DV

/-- one `<avp>` of a dictionary file: (name, code, vendor-id, must contains "M", type name,
    number of `<item>` / `<rule>` children) -/
abbrev AvpRow := Nat × Nat × Nat × Bool × Nat × Nat
/-- one `<command>`: (code, short, #request rules, #answer rules) -/
abbrev CmdRow := Nat × Nat × Nat × Nat
/-- one `<application>`: (id, type, vendor ids, commands, avps) -/
abbrev AppRow := Nat × Nat × List Nat × List CmdRow × List AvpRow
/-- one dictionary file -/
abbrev FileRow := List AppRow

/-- a loaded `dict.AVP` -/
structure AvpDef where
  name : Nat
  code : Nat
  vendor : Nat
  must : Bool
  tyName : Nat
  /-- how many `<item>` / `<rule>` children the definition has (`Data.Enum`, `Data.Rule`) -/
  items : Nat := 0
  /-- `Data.Type` as set by `updateType` (0 = UnknownType when the type name is not available) -/
  ty : Nat
  /-- id of the application the AVP is linked to (`avp.App`) -/
  app : Nat
deriving Repr, BEq, DecidableEq

structure CmdDef where
  code : Nat
  short : Nat
  nreq : Nat
  nans : Nat
deriving Repr, BEq, DecidableEq

structure AppInfo where
  id : Nat
  typ : Nat
  vendors : List Nat
deriving Repr, BEq, DecidableEq

def UndefinedVendorID : Nat := 4294967295

structure Parser where
  /-- every application of every file handed to `Load`, in order (`Parser.Apps()`) -/
  apps : List AppInfo := []
  appcode : List (Nat × AppInfo) := []
  apptype : List ((Nat × Nat) × AppInfo) := []
  avpname : List ((Nat × Nat × Nat) × AvpDef) := []
  avpcode : List ((Nat × Nat × Nat) × AvpDef) := []
  command : List ((Nat × Nat) × CmdDef) := []
deriving Repr

def alookup [BEq κ] (k : κ) : List (κ × ν) → Option ν
  | [] => none
  | (k', v) :: r => if k' == k then some v else alookup k r

/-- `updateType`: resolve the type name in `datatype.Available` (given as interned ids). -/
def resolveType (available : List (Nat × Nat)) (tyName : Nat) : Option Nat := alookup tyName available

/-- index the AVPs of one application; stops at the first unsupported type name
    (after that AVP has been indexed), as `Load` does. -/
def loadAvps (available : List (Nat × Nat)) (app : Nat) : List AvpRow → Parser → Parser × Bool
  | [], p => (p, true)
  | (name, code, vendor, must, tyName, items) :: r, p =>
    let ty? := resolveType available tyName
    let d : AvpDef := { name, code, vendor, must, tyName, items, ty := ty?.getD 0, app }
    let p := { p with
      avpname := ((app, name, UndefinedVendorID), d) :: ((app, name, vendor), d) :: p.avpname
      avpcode := ((app, code, UndefinedVendorID), d) :: ((app, code, vendor), d) :: p.avpcode }
    match ty? with
    | none => (p, false)
    | some _ => loadAvps available app r p

/-- index the commands of one application; a duplicate (app, code) is an error. -/
def loadCmds (app : Nat) : List CmdRow → Parser → Parser × Bool
  | [], p => (p, true)
  | (code, short, nreq, nans) :: r, p =>
    match alookup (app, code) p.command with
    | some _ => (p, false)
    | none => loadCmds app r { p with command := ((app, code), { code, short, nreq, nans }) :: p.command }

def loadApps (available : List (Nat × Nat)) : List AppRow → Parser → Parser × Bool
  | [], p => (p, true)
  | (id, typ, vendors, cmds, avps) :: r, p =>
    let info : AppInfo := { id, typ, vendors }
    let p := { p with appcode := (id, info) :: p.appcode, apptype := ((id, typ), info) :: p.apptype }
    match loadCmds id cmds p with
    | (p, false) => (p, false)
    | (p, true) =>
      match loadAvps available id avps p with
      | (p, false) => (p, false)
      | (p, true) => loadApps available r p

/-- `Parser.Load` for one file. The file is appended to `p.file` before anything is indexed,
    so `Apps()` lists all its applications even when indexing stops with an error. -/
def Parser.load (available : List (Nat × Nat)) (p : Parser) (f : FileRow) : Parser × Bool :=
  let p := { p with apps := p.apps ++ f.map (fun (id, typ, vendors, _, _) => { id, typ, vendors }) }
  loadApps available f p

/-- load a list of files in order, ignoring errors (the partial load is kept, as in Go) -/
def Parser.loadAll (available : List (Nat × Nat)) (fs : List FileRow) : Parser :=
  fs.foldl (fun p f => (p.load available f).1) {}

/-- `parentAppIds[appid]`, else the base application -/
def parentOf (parents : List (Nat × Nat)) (app : Nat) : Nat := (alookup app parents).getD 0

/-- `FindAVPWithVendor` by numeric code: own application, parents, base. `fuel` bounds the
    `goto retry` loop (it terminates iff the parent table has no cycle). -/
def Parser.findCode (p : Parser) (parents : List (Nat × Nat)) : Nat → Nat → Nat → Nat → Option AvpDef
  | 0, _, _, _ => none
  | fuel+1, app, code, vendor =>
    match alookup (app, code, vendor) p.avpcode with
    | some d => some d
    | none => if app = 0 then none else p.findCode parents fuel (parentOf parents app) code vendor

/-- `FindAVPWithVendor` by name -/
def Parser.findName (p : Parser) (parents : List (Nat × Nat)) : Nat → Nat → Nat → Nat → Option AvpDef
  | 0, _, _, _ => none
  | fuel+1, app, name, vendor =>
    match alookup (app, name, vendor) p.avpname with
    | some d => some d
    | none => if app = 0 then none else p.findName parents fuel (parentOf parents app) name vendor

def chainFuel (parents : List (Nat × Nat)) : Nat := parents.length + 2

/-- data type the codec uses for (app, code, vendor): the dictionary's, or Unknown for the placeholder -/
def Parser.avpType (p : Parser) (parents : List (Nat × Nat)) (app code vendor : Nat) : Nat :=
  match p.findCode parents (chainFuel parents) app code vendor with
  | some d => d.ty
  | none => 0

/-- `FindCommand`: own application, else base -/
def Parser.findCommand (p : Parser) (app code : Nat) : Option CmdDef :=
  match alookup (app, code) p.command with
  | some c => some c
  | none => alookup (0, code) p.command

/-- `Parser.App(code, typ...)` -/
def Parser.app (p : Parser) (code : Nat) (typ : Option Nat) : Option AppInfo :=
  match typ with
  | some t =>
    (match alookup (code, t) p.apptype with
     | some a => some a
     | none =>
       match alookup code p.appcode with
       | some a => if a.typ = 0 ∨ a.typ = t then some a else alookup (code, 0) p.apptype
       | none => alookup (code, 0) p.apptype)
  | none => alookup code p.appcode

end DV
