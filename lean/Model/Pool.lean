/-!
  Model.Pool — the two buffer pools of `diam/message.go` (`readerBufferPool`, `writerBufferPool`,
  both `sync.Pool`) and the discipline of their users.

  A user (one call of `ReadMessage`, one call of `WriteToStreamWithRetry`) takes a buffer -
  a pooled one if the pool has one, a new one otherwise - works on it, and hands it back when the
  call returns. The model's parameter `puts` is the number of times a call hands its buffer back:
  the source does it once (`defer put…Buffer(buf)` right after the `new…Buffer()`; fact
  `Gen.poolUsers`); `puts = 2` is the "released on the error path *and* by the defer" variant.

  Buffers are numbers; `free` is what `sync.Pool` holds (a list: the pool does not care whether
  the same pointer is put twice), `next` the next buffer `bytes.NewBuffer` would create, `held u`
  the buffer call `u` is working on.
-/
namespace DV

structure Pool where
  free : List Nat := []
  next : Nat := 0
  held : List (Nat × Nat) := []      -- (user, buffer)
deriving Repr, DecidableEq

inductive PoolEv where
  | acquire (u : Nat)     -- `buf := new…Buffer()` in call u
  | release (u : Nat)     -- call u returns: its put(s) run
  | gc                    -- the garbage collector empties the pool (sync.Pool may drop anything)
deriving Repr, DecidableEq

def Pool.holds (p : Pool) (u : Nat) : Option Nat :=
  (p.held.find? (fun e => e.1 = u)).map (·.2)

/-- one step; `none` = not enabled (a call acquires once, and releases only what it holds) -/
def Pool.step (puts : Nat) (p : Pool) : PoolEv → Option Pool
  | .acquire u =>
    if (p.holds u).isSome then none
    else match p.free with
      | b :: rest => some { p with free := rest, held := (u, b) :: p.held }
      | [] => some { p with next := p.next + 1, held := (u, p.next) :: p.held }
  | .release u =>
    match p.holds u with
    | none => none
    | some b => some { p with free := List.replicate puts b ++ p.free, held := p.held.filter (fun e => e.1 ≠ u) }
  | .gc => some { p with free := [] }

def Pool.run (puts : Nat) : Pool → List PoolEv → Option Pool
  | p, [] => some p
  | p, e :: es => match p.step puts e with
    | some p' => Pool.run puts p' es
    | none => none

/-- the discipline the model assumes of a function that uses a pool (`Gen.poolUsers` lists, per
    call in source order: callee, deferred?, pool, Gets and Puts of the callee): exactly one call
    that gets, followed by exactly one call that puts into the same pool, deferred - so that it runs
    once on every way out of the function, panics included -/
def Pool.disciplined (calls : List (String × Bool × String × Nat × Nat)) : Bool :=
  match calls with
  | [(_, false, p1, 1, 0), (_, true, p2, 0, 1)] => p1 == p2
  | _ => false

/-- the buffers in use right now -/
def Pool.inUse (p : Pool) : List Nat := p.held.map (·.2)

end DV
