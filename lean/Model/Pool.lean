/-!
  Model.Pool — the two buffer pools of `diam/message.go` (`readerBufferPool`, `writerBufferPool`,
  both `sync.Pool`) and the discipline of their users.

  A user (one call of `ReadMessage`, one call of `WriteToStreamWithRetry`) takes a buffer -
  a pooled one if the pool has one, a new one otherwise - works on it, and hands it back when the
  call returns. The model's parameter `puts` is the number of times a call hands its buffer back:
  the source does it once (`defer put…Buffer(buf)` right after the `new…Buffer()`; fact
  `Gen.poolUsers`); `puts = 2` is the "released on the error path *and* by the defer" variant.

  Buffers are numbers; `free` is what `sync.Pool` holds (a list: the pool does not care whether
  the same pointer is put twice), `next` the next buffer `bytes.NewBuffer` would create, `held u`
  the buffer call `u` is working on.
-/
namespace DV

structure Pool where
  free : List Nat := []
  next : Nat := 0
  held : List (Nat × Nat) := []      -- (user, buffer)
deriving Repr, DecidableEq

inductive PoolEv where
  | acquire (u : Nat)     -- `buf := new…Buffer()` in call u
  | release (u : Nat)     -- call u returns: its put(s) run
  | gc                    -- the garbage collector empties the pool (sync.Pool may drop anything)
deriving Repr, DecidableEq

def Pool.holds (p : Pool) (u : Nat) : Option Nat :=
  (p.held.find? (fun e => e.1 = u)).map (·.2)

/-- one step; `none` = not enabled (a call acquires once, and releases only what it holds) -/
def Pool.step (puts : Nat) (p : Pool) : PoolEv → Option Pool
  | .acquire u =>
    if (p.holds u).isSome then none
    else match p.free with
      | b :: rest => some { p with free := rest, held := (u, b) :: p.held }
      | [] => some { p with next := p.next + 1, held := (u, p.next) :: p.held }
  | .release u =>
    match p.holds u with
    | none => none
    | some b => some { p with free := List.replicate puts b ++ p.free, held := p.held.filter (fun e => e.1 ≠ u) }
  | .gc => some { p with free := [] }

def Pool.run (puts : Nat) : Pool → List PoolEv → Option Pool
  | p, [] => some p
  | p, e :: es => match p.step puts e with
    | some p' => Pool.run puts p' es
    | none => none

/-- the discipline the model assumes of a function that uses a pool (`Gen.poolUsers` lists, per
    call in source order: callee, deferred?, pool, Gets and Puts of the callee): exactly one call
    that gets, followed by exactly one call that puts into the same pool, deferred - so that it runs
    once on every way out of the function, panics included -/
def Pool.disciplined (calls : List (String × Bool × String × Nat × Nat)) : Bool :=
  match calls with
  | [(_, false, p1, 1, 0), (_, true, p2, 0, 1)] => p1 == p2
  | _ => false

/-- the buffers in use right now -/
def Pool.inUse (p : Pool) : List Nat := p.held.map (·.2)

end DV

namespace DV

/-!
  Capacities. `MessageBufferLength` is an exported variable: the application may change it while
  buffers made under an earlier value sit in the pool. A call asks for `min` bytes:
  `newWriterBuffer(min)` makes an exact buffer when `min` exceeds the current length, otherwise takes
  a pooled one - if it is big enough (parameter `checksCap`; the source checks since 2ad7047, the
  reader side, `readerBufferSlice`, always did) - or makes one of the current length. A buffer goes
  back to the pool only if its capacity is the current length.
-/
structure CapPool where
  len : Nat                  -- MessageBufferLength now
  free : List Nat := []      -- capacities of the pooled buffers
deriving Repr, DecidableEq

inductive CapEv where
  | setLen (n : Nat)         -- the application assigns MessageBufferLength
  | use (min : Nat)          -- one call: acquire for `min` bytes, use, put back
deriving Repr, DecidableEq

/-- the capacity of the buffer a call asking for `min` bytes is given, and the pool afterwards -/
def CapPool.acquire (checksCap : Bool) (p : CapPool) (min : Nat) : Nat × CapPool :=
  if min > p.len then (min, p)
  else match p.free with
    | c :: rest => if checksCap ∧ c < min then (p.len, { p with free := rest }) else (c, { p with free := rest })
    | [] => (p.len, p)

def CapPool.put (p : CapPool) (c : Nat) : CapPool :=
  if c = p.len then { p with free := c :: p.free } else p

/-- one event; the Bool says whether the buffer handed out (if any) could hold what was asked for -/
def CapPool.step (checksCap : Bool) (p : CapPool) : CapEv → CapPool × Bool
  | .setLen n => ({ p with len := n }, true)
  | .use min =>
    let (c, p') := p.acquire checksCap min
    (p'.put c, decide (min ≤ c))

def CapPool.run (checksCap : Bool) : CapPool → List CapEv → CapPool × Bool
  | p, [] => (p, true)
  | p, e :: es =>
    let (p', ok) := p.step checksCap e
    let (p'', ok') := CapPool.run checksCap p' es
    (p'', ok && ok')

end DV
