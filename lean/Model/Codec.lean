import Model.Basic
/-!
  Model.Codec — what `diam/avp.go`, `diam/group.go`, `diam/header.go`,
  `diam/message.go` (codec part), `diam/uintconv.go` and `diam/datatype/*.go` do,
  branch by branch. Hand-written; tied to the source by the regenerated facts in
  `Gen.*` (obligations in `Props.*`) and by the correspondence check.
-/
namespace DV

/- `datatype.TypeID` values (Go `iota` order) and `diam.GroupedAVPType`. -/
namespace T
def unknown := 0
def address := 1
def ident := 2
def uri := 3
def enum := 4
def f32 := 5
def f64 := 6
def grouped := 7
def ipfilter := 8
def ipv4 := 9
def i32 := 10
def i64 := 11
def octets := 12
def qos := 13
def time := 14
def utf8 := 15
def u32 := 16
def u64 := 17
def ipv6 := 18
def groupedAVP := 50
end T

mutual
/-- The Go dynamic value held in `AVP.Data`. -/
inductive Val where
  /-- string- or slice-typed data kept as raw bytes: Unknown(0), DiameterIdentity(2),
      DiameterURI(3), datatype.Grouped(7), IPFilterRule(8), OctetString(12),
      QoSFilterRule(13), UTF8String(15). -/
  | str (t : Nat) (b : Bytes)
  /-- `datatype.Address` (the Go value: 4 or 16 raw IP bytes, or family-prefixed bytes). -/
  | addr (b : Bytes)
  | ip4 (b : Bytes)
  | ip6 (b : Bytes)
  /-- fixed-width numeric types, kept as their bit pattern: Enumerated(4), Float32(5),
      Integer32(10), Unsigned32(16): 4 bytes; Float64(6), Integer64(11), Unsigned64(17): 8 bytes. -/
  | fix (t : Nat) (n : Nat)
  /-- `datatype.Time`, as Unix seconds. -/
  | time (unix : Int)
  /-- `*diam.GroupedAVP`. -/
  | group (as : List AVP)
inductive AVP where
  | mk (code flags length vendor : Nat) (data : Val)
end

namespace AVP
def code : AVP → Nat | .mk c _ _ _ _ => c
def flags : AVP → Nat | .mk _ f _ _ _ => f
def length : AVP → Nat | .mk _ _ l _ _ => l
def vendor : AVP → Nat | .mk _ _ _ v _ => v
def data : AVP → Val | .mk _ _ _ _ d => d
@[simp] theorem code_mk (c f l v : Nat) (d : Val) : (AVP.mk c f l v d).code = c := rfl
@[simp] theorem flags_mk (c f l v : Nat) (d : Val) : (AVP.mk c f l v d).flags = f := rfl
@[simp] theorem length_mk (c f l v : Nat) (d : Val) : (AVP.mk c f l v d).length = l := rfl
@[simp] theorem vendor_mk (c f l v : Nat) (d : Val) : (AVP.mk c f l v d).vendor = v := rfl
@[simp] theorem data_mk (c f l v : Nat) (d : Val) : (AVP.mk c f l v d).data = d := rfl
end AVP

mutual
/-- structural equality test (the nested type has no derived `DecidableEq`) -/
def Val.beq : Val → Val → Bool
  | .str t b, .str t' b' => t == t' && b == b'
  | .addr b, .addr b' => b == b'
  | .ip4 b, .ip4 b' => b == b'
  | .ip6 b, .ip6 b' => b == b'
  | .fix t n, .fix t' n' => t == t' && n == n'
  | .time u, .time u' => u == u'
  | .group as, .group as' => beqL as as'
  | _, _ => false
def AVP.beq : AVP → AVP → Bool
  | .mk c f l v d, .mk c' f' l' v' d' => c == c' && f == f' && l == l' && v == v' && d.beq d'
def beqL : List AVP → List AVP → Bool
  | [], [] => true
  | a :: r, a' :: r' => a.beq a' && beqL r r'
  | _, _ => false
end

/-- `r` is a success carrying exactly the AVP list `as` -/
def okIs (r : Res (List AVP)) (as : List AVP) : Bool :=
  match r with
  | .ok x => beqL x as
  | _ => false

/-- `net.IP.To4`. -/
def to4 (b : Bytes) : Option Bytes :=
  if b.length = 4 then some b
  else if b.length = 16 ∧ b.take 12 = [0,0,0,0,0,0,0,0,0,0,255,255] then some (b.drop 12)
  else none

/-- `net.IP.To16` (only whether it is non-nil matters together with its value). -/
def to16 (b : Bytes) : Option Bytes :=
  if b.length = 4 then some ([0,0,0,0,0,0,0,0,0,0,255,255] ++ b)
  else if b.length = 16 then some b
  else none

def fixW (t : Nat) : Nat := if t = T.f64 ∨ t = T.i64 ∨ t = T.u64 then 8 else 4

/-- `a.Flags&avp.Vbit == avp.Vbit` with `Vbit = 0x80`. -/
def hasV (flags : Nat) : Bool := flags / 128 % 2 = 1

def hdrLen (flags : Nat) : Nat := if hasV flags then 12 else 8

/-- seconds between 1900-01-01 and 1970-01-01 (`rfc868offset`) -/
def rfc868 : Nat := 2208988800
/-- `rfc2030offset` -/
def rfc2030 : Nat := 2085978496
/-- `time.Time{}.Unix()` -/
def zeroTimeUnix : Int := -62135596800

/-- `Address.Len()` (also used by `Padding()`). -/
def addrLen (b : Bytes) : Nat :=
  match to4 b with
  | some _ => 6
  | none => match to16 b with
    | some _ => 18
    | none => b.length

mutual
/-- `Data.Len()` -/
def Val.len : Val → Nat
  | .str _ b => b.length
  | .addr b => addrLen b
  | .ip4 _ => 4
  | .ip6 _ => 16
  | .fix t _ => fixW t
  | .time _ => 4
  | .group as => lenL as
/-- `AVP.Len()`: header + data + padding -/
def AVP.len : AVP → Nat
  | .mk _ f _ _ d => hdrLen f + d.len + (match d with
      | .str t b => if t = T.grouped then 0 else pad4 b.length - b.length
      | .addr b => pad4 (addrLen b) - addrLen b
      | _ => 0)
def lenL : List AVP → Nat
  | [] => 0
  | a :: r => a.len + lenL r
end

/-- `Data.Padding()` -/
def Val.padding : Val → Nat
  | .str t b => if t = T.grouped then 0 else pad4 b.length - b.length
  | .addr b => pad4 (addrLen b) - addrLen b
  | _ => 0

theorem AVP.len_eq (c f l v : Nat) (d : Val) :
    (AVP.mk c f l v d).len = hdrLen f + d.len + d.padding := by
  cases d <;> simp [AVP.len, Val.padding]

def encTime (u : Int) : Bytes := be 4 (((u + (rfc868 : Int)) % 4294967296).toNat)

mutual
/-- `Data.Serialize()` -/
def Val.ser : Val → Bytes
  | .str _ b => b
  | .addr b => match to4 b with
      | some ip => [0, 1] ++ ip
      | none => match to16 b with
        | some _ => [0, 2] ++ b
        | none => b
  | .ip4 b => match to4 b with | some ip => ip | none => b
  | .ip6 b => match to16 b with | some ip => ip | none => b
  | .fix t n => be (fixW t) n
  | .time u => encTime u
  | .group as => encL as
/-- `AVP.SerializeTo` (as the bytes it writes into a buffer of `AVP.Len()` bytes). -/
def AVP.enc : AVP → Bytes
  | .mk c f _ v d =>
    be 4 c ++ [UInt8.ofNat f] ++ be 3 (hdrLen f + d.len)
      ++ (if hasV f then be 4 v else [])
      ++ d.ser
      ++ zeros (match d with
          | .str t b => if t = T.grouped then 0 else pad4 b.length - b.length
          | .addr b => pad4 (addrLen b) - addrLen b
          | _ => 0)
def encL : List AVP → Bytes
  | [] => []
  | a :: r => a.enc ++ encL r
end

/-- `diam.NewAVP`: fills in Length, sets the V bit when a vendor id is given. -/
def newAVP (code flags vendor : Nat) (d : Val) : AVP :=
  let l := hdrLen flags + d.len
  let flags' := if vendor > 0 ∧ ¬ hasV flags then flags + 128 else flags
  .mk code flags' l vendor d

/-! ### Decoding -/

/-- `datatype.Decode` for every type except Grouped (handled by the caller). -/
def decodeLeaf (t : Nat) (p : Bytes) : Res Val :=
  if t = T.unknown ∨ t = T.ident ∨ t = T.uri ∨ t = T.ipfilter ∨ t = T.octets ∨ t = T.qos ∨ t = T.utf8 then
    .ok (.str t p)
  else if t = T.address then
    if p.length < 3 then .err "address-short"
    else
      let fam := rd (p.take 2)
      if fam = 0 ∨ fam = 65535 then .err "address-family"
      else if fam = 1 then (if p.length - 2 ≠ 4 then .err "address-ipv4-len" else .ok (.addr (p.drop 2)))
      else if fam = 2 then (if p.length - 2 ≠ 16 then .err "address-ipv6-len" else .ok (.addr (p.drop 2)))
      else .ok (.addr p)
  else if t = T.enum ∨ t = T.f32 ∨ t = T.i32 ∨ t = T.u32 then
    .ok (.fix t (if p.length = 4 then rd p else 0))
  else if t = T.f64 ∨ t = T.i64 ∨ t = T.u64 then
    .ok (.fix t (if p.length = 8 then rd p else 0))
  else if t = T.ipv4 then
    .ok (.ip4 (if p.length = 4 then p else [0,0,0,0]))
  else if t = T.ipv6 then
    .ok (.ip6 (if p.length = 16 then p else zeros 16))
  else if t = T.time then
    if p.length ≠ 4 then .ok (.time zeroTimeUnix)
    else
      let n := rd p
      if n < 2147483648 then .ok (.time ((n : Int) + rfc2030)) else .ok (.time ((n : Int) - rfc868))
  else .err "unknown-data-type"

/-- the typed part of `AVP.DecodeFromBytes`: `datatype.Decode` on exactly the payload bytes,
    then `diam.DecodeGrouped` (given as `rec`) when the dictionary type is Grouped. -/
def decodePayloadWith (rec : Bytes → Res (List AVP)) (ty : Nat → Nat → Nat)
    (code flags length vendor : Nat) (payload : Bytes) : Res AVP :=
  if ty code vendor = T.grouped then
    (rec payload).mapR (fun as => AVP.mk code flags length vendor (.group as))
  else
    (decodeLeaf (ty code vendor) payload).mapR (fun v => AVP.mk code flags length vendor v)

mutual
/-- `AVP.DecodeFromBytes` (with `datatype.Decode` and `diam.DecodeGrouped`).
    `ty code vendor` is the data type the dictionary resolves for this application. -/
def decodeAVP (ty : Nat → Nat → Nat) : Nat → Bytes → Res AVP
  | 0, _ => .err "fuel"
  | fuel+1, data =>
    if data.length < 8 then .err "avp-header-short" else
    let code := rd (data.take 4)
    let flags := (data.getD 4 0).toNat
    let length := rd ((data.drop 5).take 3)
    if data.length < length then .err "avp-not-enough-data" else
    let data := data.take length
    if data.length < 8 then .err "avp-header-short" else
    if hasV flags then
      if data.length < 12 then .err "avp-vendor-short" else
      match slice data 8 12, sliceFrom data 12 with
      | .ok vb, .ok payload =>
        let vendor := rd vb
        decodePayloadWith (decodeAVPs ty fuel) ty code flags length vendor payload
      | .panic p, _ => .panic p
      | _, .panic p => .panic p
      | _, _ => .err "unreachable"
    else
      match sliceFrom data 8 with
      | .ok payload => decodePayloadWith (decodeAVPs ty fuel) ty code flags length 0 payload
      | .panic p => .panic p
      | .err e => .err e
/-- `Message.decodeAVPs` / `diam.DecodeGrouped`: the cursor advances by the declared
    Length rounded up to four (`AVP.wireLen`). -/
def decodeAVPs (ty : Nat → Nat → Nat) : Nat → Bytes → Res (List AVP)
  | 0, b => if b.isEmpty then .ok [] else .err "fuel"
  | fuel+1, b =>
    if b.isEmpty then .ok [] else
    (decodeAVP ty fuel b).bindR (fun a =>
      (decodeAVPs ty fuel (b.drop (pad4 a.length))).mapR (fun r => a :: r))
end

/-- payload decoding at a given remaining nesting fuel -/
def decodePayload (ty : Nat → Nat → Nat) (fuel code flags length vendor : Nat) (payload : Bytes) : Res AVP :=
  decodePayloadWith (decodeAVPs ty fuel) ty code flags length vendor payload

/-! ### Header and message -/

structure Header where
  version : Nat
  len : Nat
  flags : Nat
  cmd : Nat
  app : Nat
  hbh : Nat
  e2e : Nat
deriving Repr, BEq, DecidableEq

/-- `Header.SerializeTo` -/
def Header.enc (h : Header) : Bytes :=
  [UInt8.ofNat h.version] ++ be 3 h.len ++ [UInt8.ofNat h.flags] ++ be 3 h.cmd
    ++ be 4 h.app ++ be 4 h.hbh ++ be 4 h.e2e

/-- `Header.DecodeFromBytes` -/
def decodeHeader (b : Bytes) : Res Header :=
  if b.length < 20 then .err "header-short" else
  .ok { version := (b.getD 0 0).toNat
        len := rd ((b.drop 1).take 3)
        flags := (b.getD 4 0).toNat
        cmd := rd ((b.drop 5).take 3)
        app := rd ((b.drop 8).take 4)
        hbh := rd ((b.drop 12).take 4)
        e2e := rd ((b.drop 16).take 4) }

/-- `diam.InvalidStreamID` (`^uint(0)`) -/
def invalidStream : Nat := 18446744073709551615

structure Msg where
  hdr : Header
  avps : List AVP
  /-- the stream the message was received on (`Message.stream`) -/
  stream : Nat := invalidStream

/-- `Message.Len()` -/
def Msg.len (m : Msg) : Nat := 20 + lenL m.avps

/-- `Message.Serialize` -/
def Msg.enc (m : Msg) : Bytes := m.hdr.enc ++ encL m.avps

/-- What the codec needs from a dictionary (`dict.Parser`), as functions. -/
structure DictFn where
  /-- data type id of `FindAVPWithVendor(app, code, vendor)`; `T.unknown` for the placeholder -/
  avpType : Nat → Nat → Nat → Nat
  /-- `FindCommand(app, code)` (own application, else base): number of request / answer rules -/
  cmdRules : Nat → Nat → Option (Nat × Nat)

def isRequest (flags : Nat) : Bool := flags / 128 % 2 = 1

/-- `ReadMessage` applied to a reader holding exactly `bs` (trailing bytes beyond the
    declared length are left unread). -/
def decodeMsg (d : DictFn) (bs : Bytes) : Res Msg :=
  if bs.length < 20 then .err "eof-in-header" else
  match decodeHeader (bs.take 20) with
  | .err e => .err e
  | .panic p => .panic p
  | .ok h =>
    match d.cmdRules h.app h.cmd with
    | none => .err "command-not-found"
    | some (nreq, nans) =>
      if h.len < 20 then .err "message-length-short" else
      let body := (bs.drop 20).take (h.len - 20)
      if body.length < h.len - 20 then .err "eof-in-body" else
      let n := if isRequest h.flags then nreq else nans
      if n = 0 then .err "command-without-rules" else
      match decodeAVPs (d.avpType h.app) (body.length + 1) body with
      | .ok as => .ok { hdr := h, avps := as }
      | .err e => .err ("avp:" ++ e)
      | .panic p => .panic p

/-! ### Message assembly through the API (C02 bookkeeping, C16) -/

/-- `diam.NewMessage`; `rnd1`/`rnd2` are the values `rand.Uint32()` would return. -/
def newMessage (cmd flags app hbh e2e : Nat) (rnd1 rnd2 : Nat) : Msg :=
  { hdr := { version := 1, len := 20, flags := flags, cmd := cmd, app := app,
             hbh := if hbh = 0 then rnd1 else hbh,
             e2e := if e2e = 0 then rnd2 else e2e },
    avps := [] }

/-- `Message.AddAVP` / `Message.NewAVP` (after construction of the AVP): `uint32` length arithmetic. -/
def Msg.addAVP (m : Msg) (a : AVP) : Msg :=
  { m with hdr := { m.hdr with len := (m.hdr.len + a.len) % 4294967296 }, avps := m.avps ++ [a] }

/-- `Message.InsertAVP` -/
def Msg.insertAVP (m : Msg) (a : AVP) : Msg :=
  { m with hdr := { m.hdr with len := (m.hdr.len + a.len) % 4294967296 }, avps := a :: m.avps }

/-- `Message.Answer(resultCode)` — after the fix that copies the identifiers. -/
def Msg.answer (m : Msg) (rc : Nat) (rnd1 rnd2 : Nat) : Msg :=
  let flags := if isRequest m.hdr.flags then m.hdr.flags - 128 else m.hdr.flags
  let nm := newMessage m.hdr.cmd flags m.hdr.app m.hdr.hbh m.hdr.e2e rnd1 rnd2
  let nm := { nm with hdr := { nm.hdr with hbh := m.hdr.hbh, e2e := m.hdr.e2e } }
  let nm := if rc ≠ 0 then nm.addAVP (newAVP 268 64 0 (.fix T.u32 (rc % 4294967296))) else nm
  { nm with stream := m.stream }

/-- the stream `Message.WriteTo` hands to `MultistreamWriter.WriteStream` -/
def Msg.writeStream (m : Msg) : Nat := m.stream

/-- `SCTPConn.WriteStream`: the SCTP stream number put into `SndRcvInfo` (`uint16` conversion;
    `InvalidStreamID` leaves the default stream 0) -/
def sctpStreamOf (stream : Nat) : Nat := if stream = invalidStream then 0 else stream % 65536

end DV
