/-
  Model.Basic — bytes, big-endian integers, padding, outcomes.
  Core Lean only (no Mathlib): this file is linked into the driver executable.
-/
namespace DV

abbrev Bytes := List UInt8

/-- Outcome of a modelled Go operation. `panic` is a Go run-time panic
    (slice bounds, failed type assertion, nil dereference, close of closed channel). -/
inductive Res (α : Type) where
  | ok (a : α)
  | err (e : String)
  | panic (p : String)
deriving Repr, BEq, DecidableEq

namespace Res
def isPanic : Res α → Bool | .panic _ => true | _ => false
def isOk : Res α → Bool | .ok _ => true | _ => false
def isErr : Res α → Bool | .err _ => true | _ => false
def bind (r : Res α) (f : α → Res β) : Res β :=
  match r with
  | .ok a => f a
  | .err e => .err e
  | .panic p => .panic p
/-- success value, or the failure passed through -/
def mapR (g : α → β) : Res α → Res β
  | .ok a => .ok (g a)
  | .err e => .err e
  | .panic p => .panic p
def bindR (r : Res α) (f : α → Res β) : Res β :=
  match r with
  | .ok a => f a
  | .err e => .err e
  | .panic p => .panic p
instance : Monad Res where
  pure := .ok
  bind := Res.bind
@[simp] theorem bind_ok (a : α) (f : α → Res β) : (Res.ok a >>= f) = f a := rfl
@[simp] theorem bind_err (e : String) (f : α → Res β) : ((Res.err e : Res α) >>= f) = .err e := rfl
@[simp] theorem bind_panic (e : String) (f : α → Res β) : ((Res.panic e : Res α) >>= f) = .panic e := rfl
end Res

/-- `be k n`: the `k`-byte big-endian image of `n` (truncated to `k` bytes, as
    `binary.BigEndian.PutUintXX(uintXX(n))` and `uint32to24` do). -/
def be : Nat → Nat → Bytes
  | 0, _ => []
  | k+1, n => UInt8.ofNat (n / 256 ^ k) :: be k n

/-- `rd bs`: big-endian value of a byte string (`binary.BigEndian.UintXX`, `uint24to32`). -/
def rd (bs : Bytes) : Nat := bs.foldl (fun acc b => acc * 256 + b.toNat) 0

/-- Go: `func pad4(n int) int { return n + ((4 - n) & 3) }`, as a closed form on naturals. -/
def pad4 (n : Nat) : Nat := n + (4 - n % 4) % 4

def zeros (n : Nat) : Bytes := List.replicate n 0

/-- Go slicing `b[lo:hi]` with its bounds check (`0 ≤ lo ≤ hi ≤ len(b)`; cap = len in the model). -/
def slice (b : Bytes) (lo hi : Nat) : Res Bytes :=
  if lo ≤ hi ∧ hi ≤ b.length then .ok ((b.drop lo).take (hi - lo)) else .panic "slice-bounds"

/-- Go slicing `b[lo:]`. -/
def sliceFrom (b : Bytes) (lo : Nat) : Res Bytes :=
  if lo ≤ b.length then .ok (b.drop lo) else .panic "slice-bounds"

/-- Go indexing `b[i]`. -/
def index (b : Bytes) (i : Nat) : Res UInt8 :=
  match b[i]? with
  | some x => .ok x
  | none => .panic "index-out-of-range"

end DV
