import Model.Codec
import Gen.Struct
/-!
  Model.Alias — which parts of a decoded message are views into the buffer it was decoded from,
  and what later activity can do to that buffer (C06).

  `ReadMessage` reads a body of at most `MessageBufferLength` bytes into a pooled buffer, decodes
  from it and - when it returns - puts the buffer back (`defer putReaderBuffer(buf)`); the next
  `ReadMessage` anywhere in the process may get that buffer and overwrite it. A decoded value
  is therefore private exactly when it does not share memory with the buffer.
  `AliasCfg` says, per data type whose Go representation is a slice, whether its decoder
  returns a view of its argument; it is regenerated from the source (`Gen.sliceKinded`).
-/
namespace DV

structure AliasCfg where
  unknown : Bool       -- `datatype.DecodeUnknown` returns `Unknown(b)` (a view) rather than a copy
  address : Bool
  ipv4 : Bool
  ipv6 : Bool
  bodyPooled : Bool    -- the body buffer is handed back to the pool when ReadMessage returns
deriving Repr, BEq, DecidableEq

/-- a part of the body buffer that a decoded value still refers to -/
structure View where
  off : Nat
  len : Nat
deriving Repr, BEq, DecidableEq

/-- the view (relative to the payload) held by the value `datatype.Decode(t, payload)` returns -/
def leafView (cfg : AliasCfg) (t : Nat) (p : Bytes) : Option View :=
  if t = T.unknown then (if cfg.unknown then some ⟨0, p.length⟩ else none)
  else if t = T.address then
    if cfg.address then
      if p.length < 3 then none else
      let fam := rd (p.take 2)
      if fam = 0 ∨ fam = 65535 then none
      else if fam = 1 then (if p.length - 2 ≠ 4 then none else some ⟨2, 4⟩)
      else if fam = 2 then (if p.length - 2 ≠ 16 then none else some ⟨2, 16⟩)
      else some ⟨0, p.length⟩
    else none
  else if t = T.ipv4 then (if cfg.ipv4 ∧ p.length = 4 then some ⟨0, 4⟩ else none)
  else if t = T.ipv6 then (if cfg.ipv6 ∧ p.length = 16 then some ⟨0, 16⟩ else none)
  else none   -- strings are copied by the conversion to a Go string; numbers and times are values

mutual
/-- views retained by `AVP.DecodeFromBytes(data)`, `data` starting at offset `base` of the body
    buffer (same walk as `decodeAVP`; the intermediate `datatype.Grouped` view is consumed by
    `DecodeGrouped` and replaced by the decoded `*GroupedAVP`, which holds only `[]*AVP`) -/
def viewsAVP (cfg : AliasCfg) (ty : Nat → Nat → Nat) : Nat → Nat → Bytes → List View
  | 0, _, _ => []
  | fuel+1, base, data =>
    if data.length < 8 then [] else
    let code := rd (data.take 4)
    let flags := (data.getD 4 0).toNat
    let length := rd ((data.drop 5).take 3)
    if data.length < length then [] else
    let data := data.take length
    if data.length < hdrLen flags then [] else
    let vendor := if hasV flags then rd ((data.drop 8).take 4) else 0
    let payload := data.drop (hdrLen flags)
    if ty code vendor = T.grouped then viewsAVPs cfg ty fuel (base + hdrLen flags) payload
    else match leafView cfg (ty code vendor) payload with
      | some v => [⟨base + hdrLen flags + v.off, v.len⟩]
      | none => []
def viewsAVPs (cfg : AliasCfg) (ty : Nat → Nat → Nat) : Nat → Nat → Bytes → List View
  | 0, _, _ => []
  | fuel+1, base, b =>
    if b.isEmpty then [] else
    let length := rd ((b.drop 5).take 3)
    viewsAVP cfg ty fuel base b ++ viewsAVPs cfg ty fuel (base + pad4 length) (b.drop (pad4 length))
end

/-- process memory relevant to the question: the reader buffers that exist, and whether each is
    currently in the pool (available to the next `ReadMessage`) -/
structure Buf where
  data : Bytes
  pooled : Bool
deriving Repr, BEq, DecidableEq

abbrev Mem := List Buf

/-- a message a handler kept: the decoded tree (owned parts), the buffer it was decoded from
    and the views into it -/
structure Retained where
  hdr : Header
  tree : List AVP
  buf : Nat
  views : List View

def readView (mem : Mem) (buf : Nat) (v : View) : Bytes :=
  (((mem[buf]?.map (·.data)).getD []).drop v.off).take v.len

/-- everything observable about a retained message (`Serialize`, `String`, field access):
    the owned parts as decoded, and the current contents of the viewed parts -/
def observe (mem : Mem) (m : Retained) : Header × List AVP × List Bytes :=
  (m.hdr, m.tree, m.views.map (readView mem m.buf))

/-- what may happen after the message was returned -/
inductive AOp where
  /-- another `ReadMessage` (any connection, any goroutine): `sync.Pool` hands it the pooled
      buffer number `choice` if there is one, else a new buffer; a body of at most 1024 bytes
      is read into it; the buffer returns to the pool afterwards when `cfg.bodyPooled` -/
  | read (choice : Nat) (body : Bytes)
  /-- the garbage collector empties the pool (buffers still referenced stay alive, unpooled) -/
  | gc
  /-- a write: serialisation uses its own pool of writer buffers -/
  | write (b : Bytes)

def overwrite (old new : Bytes) : Bytes := new ++ old.drop new.length

def pooledIdx (mem : Mem) : List Nat := (List.range mem.length).filter (fun i => (mem[i]?.map (·.pooled)).getD false)

def AOp.apply (cfg : AliasCfg) (mem : Mem) : AOp → Mem
  | .read choice body =>
    if body.length > 1024 then mem   -- `readerBufferSlice` makes a private slice for large bodies
    else
      match (pooledIdx mem)[choice]? with
      | some i => mem.modify i (fun b => { data := overwrite b.data body, pooled := cfg.bodyPooled })
      | none => mem ++ [{ data := overwrite (zeros 1024) body, pooled := cfg.bodyPooled }]
  | .gc => mem.map (fun b => { b with pooled := false })
  | .write _ => mem

def runOps (cfg : AliasCfg) (mem : Mem) : List AOp → Mem
  | [] => mem
  | o :: os => runOps cfg (o.apply cfg mem) os

/-- `ReadMessage` of a message with body `body` (≤ 1024 bytes), decoded in buffer number `i`
    (which `ReadMessage` then releases): the retained message -/
def retain (cfg : AliasCfg) (ty : Nat → Nat → Nat) (h : Header) (tree : List AVP) (i : Nat) (body : Bytes) : Retained :=
  { hdr := h, tree := tree, buf := i, views := viewsAVPs cfg ty (body.length + 1) 0 body }

/-- the configuration the current source has: read off the regenerated table `Gen.sliceKinded` -/
def genAliasCfg : AliasCfg :=
  let cls := fun (n : String) => (Gen.sliceKinded.find? (fun r => r.1 = n)).map (fun r => r.2.2)
  { unknown := cls "Unknown" != some "copy"
    address := cls "Address" != some "copy"
    ipv4 := cls "IPv4" != some "copy"
    ipv6 := cls "IPv6" != some "copy"
    bodyPooled := Gen.bodyBuffer != "private" }

def AliasCfg.allCopy (cfg : AliasCfg) : Bool := !cfg.unknown && !cfg.address && !cfg.ipv4 && !cfg.ipv6

end DV
