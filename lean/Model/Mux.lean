import Model.Dict
/-!
  Model.Mux — `diam.ServeMux`: `Handle` / `HandleFunc` / `HandleIdx` and `ServeDIAM`.
  Handlers are numbered. A name key is the pair (interned command short name, suffix) where the
  suffix is 0 for "R", 1 for "A", 2 for anything else (a key `ServeDIAM` can never build).
  The two Go maps are association lists, newest first.
-/
namespace DV

inductive Reg where
  | name (short suffix : Nat) (h : Nat)      -- Handle("<short><R|A>", h)
  | idx (app code : Nat) (req : Bool) (h : Nat)  -- HandleIdx(CommandIndex{app, code, req}, h)
  | all (h : Nat)                             -- Handle("ALL", h)
deriving Repr, BEq, DecidableEq

structure Mux where
  m : List ((Nat × Nat) × Nat) := []
  idxMap : List ((Nat × Nat × Bool) × Nat) := []
deriving Repr

/-- `ALL_CMD_INDEX = CommandIndex{^uint32(0), ^uint32(0), false}` -/
def allIdx : Nat × Nat × Bool := (4294967295, 4294967295, false)

def Mux.reg (mux : Mux) : Reg → Mux
  | .name s x h => { mux with m := ((s, x), h) :: mux.m }
  | .idx a c r h => { mux with idxMap := ((a, c, r), h) :: mux.idxMap }
  | .all h => { mux with idxMap := (allIdx, h) :: mux.idxMap }

def Mux.ofRegs (rs : List Reg) : Mux := rs.foldl Mux.reg {}

/-- what `ServeDIAM` does: call handler `h`, or offer an error report -/
inductive Dispatch where
  | handler (h : Nat)
  | report
deriving Repr, BEq, DecidableEq

/-- `serveIdx` / `serve` tail: the catch-all, else an error report -/
def Mux.catchAll (mux : Mux) : Dispatch :=
  match alookup allIdx mux.idxMap with
  | some h => .handler h
  | none => .report

/-- `ServeMux.ServeDIAM` for a message with (app, code, request bit); `short` is what
    `FindCommand(app, code)` resolves (own application, else base), if anything -/
def Mux.dispatch (mux : Mux) (short : Option Nat) (app code : Nat) (req : Bool) : Dispatch :=
  match short with
  | none => mux.catchAll
  | some s =>
    match alookup (app, code, req) mux.idxMap with
    | some h => .handler h
    | none =>
      match alookup (s, if req then 0 else 1) mux.m with
      | some h => .handler h
      | none => mux.catchAll

/-- `ServeDIAM` with the dictionary lookup it performs itself: `FindCommand(app, code)` of the
    message's dictionary gives the short name -/
def Mux.serve (mux : Mux) (p : Parser) (app code : Nat) (req : Bool) : Dispatch :=
  mux.dispatch ((p.findCommand app code).map (·.short)) app code req

end DV
