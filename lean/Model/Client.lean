import Model.SM
/-!
  Model.Client — the client side of `diam/sm`: `Client.handshake` (CER transmission loop, `errc`,
  `handleCEA`), `Client.watchdog` / `dwr` (`dwac`, `handleDWA`), `makeCER`, `makeDWR`,
  `CEA.Parse`. Two labelled transition systems, one per protocol; time is logical (a timer
  event is the `time.After` branch of a `select` being taken).
  Parameters regenerated from the source: channel capacities (`Gen.capErrc`, `Gen.capDwac`),
  whether `handleCEA` runs its body once (`sync.Once`), whether `dwr` drains `dwac` first.
-/
namespace DV

/-! ### CER / DWR construction, CEA parsing -/

structure ClientApps where
  supportedVendor : List AVP := []
  auth : List AVP := []
  acct : List AVP := []
  vsa : List AVP := []

/-- `Client.makeCER` (AVPs in the order the code adds them) -/
def makeCER (cfg : Settings) (ips : List Bytes) (apps : ClientApps) : List AVP :=
  [newAVP C.originHost 64 0 (.str T.ident cfg.originHost), newAVP C.originRealm 64 0 (.str T.ident cfg.originRealm)]
    ++ ips.map (fun ip => newAVP C.hostIP 64 0 (.addr ip))
    ++ [newAVP C.vendorId 64 0 (.fix T.u32 cfg.vendorId), newAVP C.productName 0 0 (.str T.utf8 cfg.productName)]
    ++ (if cfg.originStateId ≠ 0 then [newAVP C.originStateId 64 0 (.fix T.u32 cfg.originStateId)] else [])
    ++ apps.supportedVendor ++ apps.auth
    ++ [newAVP C.inband 64 0 (.fix T.u32 0)]
    ++ apps.acct ++ apps.vsa
    ++ (if cfg.firmware ≠ 0 then [newAVP C.firmware 0 0 (.fix T.u32 cfg.firmware)] else [])

/-- `Client.makeDWR` -/
def makeDWR (cfg : Settings) : List AVP :=
  [newAVP C.originHost 64 0 (.str T.ident cfg.originHost), newAVP C.originRealm 64 0 (.str T.ident cfg.originRealm)]
    ++ (if cfg.originStateId ≠ 0 then [newAVP C.originStateId 64 0 (.fix T.u32 cfg.originStateId)] else [])

inductive CEAErr where
  | missingResultCode | missingHost | missingRealm | failedResultCode (rc : Nat) | application | unexpected
deriving Repr, BEq, DecidableEq

/-- `uint32` field filled by Unmarshal from an AVP (0 when absent or not convertible) -/
def u32Field (code : Nat) (as : List AVP) : Nat :=
  match firstOf code as with
  | some a => (match a.data with | .fix _ n => n % 4294967296 | _ => 0)
  | none => 0

/-- `CEA.Parse(m, Client)`: the peer's metadata on success -/
def ceaParse (appOK : Nat → Nat → Bool) (as : List AVP) : Except CEAErr Meta :=
  let rc := u32Field C.resultCode as
  let host := strField C.originHost as
  let realm := strField C.originRealm as
  if rc = 0 then .error .missingResultCode
  else if host.isEmpty then .error .missingHost
  else if realm.isEmpty then .error .missingRealm
  else if rc ≠ 2001 then .error (.failedResultCode rc)
  else match appParse appOK (allOf C.acctApp as) (allOf C.authApp as) (allOf C.vsa as) with
    | (some .unexpected, _) => .error .unexpected
    | (some _, _) => .error .application
    | (none, ids) => .ok { host, realm, apps := ids }

/-! ### the handshake -/

inductive HOutcome where
  | ok        -- a connection is returned
  | cea       -- the error the CEA handler reported
  | write     -- a transport write failed
  | timeout   -- ErrHandshakeTimeout
deriving Repr, BEq, DecidableEq

inductive HPc where
  | writing | selecting | done (o : HOutcome)
deriving Repr, BEq, DecidableEq

structure HS where
  R : Nat                       -- MaxRetransmits
  cap : Nat                     -- capacity of errc
  onceOnly : Bool                   -- handleCEA's body runs at most once
  wdog : Bool := false          -- EnableWatchdog
  round : Nat := 0              -- `i` of the transmission loop
  pc : HPc := .writing
  buf : List Bool := []         -- values buffered in errc (every value sent is an error)
  pending : Bool := false       -- the reader is blocked in `errc <- err` (buffer full, nobody receiving)
  errcClosed : Bool := false
  fired : Bool := false         -- the CEA handler body has run
  hasMeta : Bool := false          -- peer metadata stored in the connection's context
  libClosed : Bool := false     -- the handshake called c.Close()
  readerGone : Bool := false    -- the connection's reader loop has ended (transport closed)
  panics : Nat := 0             -- Go panics (close of a closed channel, send on a closed channel)
  cers : Nat := 0               -- CERs handed to the transport
  timers : Nat := 0             -- RetransmitInterval expiries taken
  wdStarted : Bool := false
deriving Repr, BEq, DecidableEq

inductive CEAKind where
  | success | failing
deriving Repr, BEq, DecidableEq

inductive HEv where
  | writeOk            -- m.WriteTo(c) succeeds
  | writeFail          -- m.WriteTo(c) fails
  | timer              -- `<-time.After(RetransmitInterval)` taken
  | takeErrc           -- `err, ok := <-errc` taken
  | cea (k : CEAKind)  -- the reader dispatches a CEA to handleCEA
  | leftover (k : CEAKind)  -- ... one that was still in the read buffer when the handshake closed the transport
  | peerClose          -- the peer disconnects / the transport fails: the reader loop ends
deriving Repr, BEq, DecidableEq

/-- the body of `handleCEA` for a CEA of kind `k` -/
def HS.handleCEA (s : HS) (k : CEAKind) : HS :=
  if s.onceOnly ∧ s.fired then s       -- duplicates and late answers are ignored
  else
    match k with
    | .failing =>
      if s.errcClosed then { s with fired := true, panics := s.panics + 1, readerGone := true }  -- send on closed channel
      else if s.buf.length < s.cap then { s with fired := true, buf := s.buf ++ [true] }
      else { s with fired := true, pending := true }
    | .success =>
      if s.errcClosed then { s with fired := true, hasMeta := true, panics := s.panics + 1, readerGone := true }  -- close of closed channel
      else { s with fired := true, hasMeta := true, errcClosed := true }

def HS.step (s : HS) : HEv → Option HS
  | .writeOk =>
    if s.pc = .writing ∧ ¬ s.readerGone ∧ ¬ s.libClosed then some { s with cers := s.cers + 1, pc := .selecting } else none
  | .writeFail =>
    if s.pc = .writing then some { s with libClosed := true, readerGone := true, pc := .done .write } else none
  | .timer =>
    if s.pc = .selecting then
      if s.round + 1 < s.R + 1 then some { s with timers := s.timers + 1, round := s.round + 1, pc := .writing }
      else some { s with timers := s.timers + 1, round := s.round + 1, libClosed := true, readerGone := true, pc := .done .timeout }
    else none
  | .takeErrc =>
    if s.pc = .selecting then
      match s.buf with
      | _ :: rest =>
        -- an error value: close(errc); c.Close(); return nil, err
        some { s with buf := if s.pending then rest ++ [true] else rest, pending := false,
                      panics := if s.errcClosed then s.panics + 1 else s.panics, errcClosed := true,
                      libClosed := true, readerGone := true, pc := .done .cea }
      | [] =>
        if s.pending then   -- unbuffered rendezvous with the blocked reader
          some { s with pending := false, panics := if s.errcClosed then s.panics + 1 else s.panics, errcClosed := true,
                        libClosed := true, readerGone := true, pc := .done .cea }
        else if s.errcClosed then some { s with pc := .done .ok, wdStarted := s.wdog }
        else none
    else none
  | .cea k =>
    if s.readerGone ∨ s.pending then none      -- no reader to dispatch it / reader stuck
    else some (s.handleCEA k)
  | .leftover k =>
    -- the transport was closed by the handshake, but the reader still dispatches what its read
    -- buffer held at that moment (a CEA that came in the same segment as an earlier message)
    if s.libClosed ∧ ¬ s.pending then some (s.handleCEA k) else none
  | .peerClose =>
    if s.readerGone then none else some { s with readerGone := true }

def HS.run (s : HS) : List HEv → Option HS
  | [] => some s
  | e :: es => match s.step e with
    | some s' => s'.run es
    | none => none

/-! ### the watchdog -/

inductive WdPc where
  | sleeping | writing (i : Nat) | selecting (i : Nat) | stopped
deriving Repr, BEq, DecidableEq

structure WD where
  R : Nat
  cap : Nat                    -- capacity of dwac
  drain : Bool                 -- dwr() discards one left-over ack (a non-blocking receive) before its first DWR
  pc : WdPc := .sleeping
  dwac : Nat := 0              -- acks buffered
  closedByWD : Bool := false   -- the watchdog called c.Close()
  gone : Bool := false         -- the connection has terminated (CloseNotify fires)
  cycleDwrs : Nat := 0         -- DWRs written by the current / last dwr() call
  cycleTimers : Nat := 0
  answered : Bool := false     -- a success DWA was handled since the current dwr() call wrote its first DWR
  answeredAtClose : Bool := false
  cycles : Nat := 0
deriving Repr, BEq, DecidableEq

inductive WdEv where
  | wdTimer        -- `<-time.After(WatchdogInterval)` taken: dwr() starts
  | wdStop         -- `<-disconnect` taken: the watchdog goroutine exits
  | writeOk | writeFail
  | rtTimer        -- `<-time.After(RetransmitInterval)` taken (only when no ack is waiting)
  | ack            -- `<-dwac` taken
  | dwaOk          -- the reader handles a success DWA while dwr() is not (yet) blocked in its select
  | dwaOkWaiting   -- ... while dwr() is blocked in its select
  | dwaFail        -- a DWA with a failure result code (or unparsable)
  | disconnect     -- the connection terminates for any other reason
deriving Repr, BEq, DecidableEq

def WD.step (s : WD) : WdEv → Option WD
  | .wdTimer =>
    if s.pc = .sleeping ∧ ¬ s.gone then
      some { s with pc := .writing 0, dwac := if s.drain then s.dwac - 1 else s.dwac, cycleDwrs := 0, cycleTimers := 0,
                    answered := false, cycles := s.cycles + 1 }
    else none
  | .wdStop => if s.pc = .sleeping ∧ s.gone then some { s with pc := .stopped } else none
  | .writeOk =>
    match s.pc with
    | .writing i => if s.gone then none else some { s with pc := .selecting i, cycleDwrs := s.cycleDwrs + 1 }
    | _ => none
  | .writeFail =>
    match s.pc with
    | .writing _ => some { s with pc := .sleeping }
    | _ => none
  | .rtTimer =>
    match s.pc with
    | .selecting i =>
      if s.dwac > 0 then none
      else if i + 1 < s.R + 1 then some { s with pc := .writing (i + 1), cycleTimers := s.cycleTimers + 1 }
      else some { s with pc := .sleeping, cycleTimers := s.cycleTimers + 1, closedByWD := true, gone := true,
                         answeredAtClose := s.answered }
    | _ => none
  | .ack =>
    match s.pc with
    | .selecting _ => if s.dwac > 0 then some { s with pc := .sleeping, dwac := s.dwac - 1 } else none
    | _ => none
  | .dwaOk =>
    if s.gone then none else
    let inCycle := match s.pc with | .selecting _ => true | .writing i => decide (i > 0) | _ => false
    some { s with dwac := if s.dwac < s.cap then s.dwac + 1 else s.dwac, answered := s.answered || inCycle }
  | .dwaOkWaiting =>
    if s.gone then none else
    match s.pc with
    | .selecting _ =>
      -- the receiver is waiting: even an unbuffered send succeeds
      if s.dwac = 0 ∧ s.cap = 0 then some { s with pc := .sleeping, answered := true }
      else some { s with dwac := if s.dwac < s.cap then s.dwac + 1 else s.dwac, answered := true }
    | _ => none
  | .dwaFail => if s.gone then none else some s
  | .disconnect => if s.gone then none else some { s with gone := true }

def WD.run (s : WD) : List WdEv → Option WD
  | [] => some s
  | e :: es => match s.step e with
    | some s' => s'.run es
    | none => none

def HS.init (R : Nat) (cap : Nat) (onceOnly wdog : Bool) : HS := { R := R, cap := cap, onceOnly := onceOnly, wdog := wdog }

def WD.init (R cap : Nat) (drain : Bool) : WD := { R := R, cap := cap, drain := drain }

end DV
