/-!
  Model.ReadFull — filling a buffer from an `io.Reader` whose `Read` may return bytes AND an error
  in the same call (the io.Reader contract allows it; crypto/tls does it when close_notify follows
  the data; bufio passes it through for large reads).

  `readFullStd` is `io.ReadFull` / `io.ReadAtLeast` as the standard library writes it: add what
  was read, then look at the error - and forget the error if the buffer got full. The parameter
  `errFirst` is the hand-written variant that returns on the error before looking at what it got.
  The source uses the standard function (`Gen.directReadCalls = []`: nothing in message.go calls
  `Read` itself).
-/
namespace DV

inductive RErr where
  | eof
  | other
deriving Repr, DecidableEq

/-- what one `Read` call returns: the bytes (possibly none) and possibly an error -/
abbrev ReadRes := List UInt8 × Option RErr

inductive RFOut where
  | ok (b : List UInt8)               -- the buffer, full
  | eof                               -- nothing read, io.EOF
  | unexpected (b : List UInt8)       -- some bytes, then the end
  | failed (b : List UInt8)           -- a transport error
deriving Repr, DecidableEq

/-- fill `want` bytes from the results successive Reads give (each Read is handed the space that is
    left and returns at most that much: a longer result is cut and the rest stays for the next call) -/
def readFullStd (errFirst : Bool) : Nat → List ReadRes → List UInt8 → RFOut × List ReadRes
  | 0, rs, acc => (.ok acc, rs)
  | _ + 1, [], acc => (if acc.isEmpty then .eof else .unexpected acc, [])
  | want + 1, (b, e) :: rs, acc =>
    if b.length > want + 1 then
      -- more than fits: the Read fills the buffer, the error (if any) belongs to a later call
      (.ok (acc ++ b.take (want + 1)), (b.drop (want + 1), e) :: rs)
    else
      let acc' := acc ++ b
      match e with
      | none => if b.isEmpty then readFullStd errFirst (want + 1) rs acc' else readFullStd errFirst (want + 1 - b.length) rs acc'
      | some err =>
        if errFirst then
          (match err with
           | .eof => if acc'.isEmpty then .eof else .unexpected acc'
           | .other => .failed acc', rs)
        else if b.length = want + 1 then (.ok acc', rs)      -- full: the error is dropped
        else (match err with
              | .eof => if acc'.isEmpty then .eof else .unexpected acc'
              | .other => .failed acc', rs)
termination_by want rs _ => (rs.length, want)
decreasing_by all_goals simp_wf <;> first | (apply Prod.Lex.left; omega) | (apply Prod.Lex.right; omega) | omega

end DV
