import Spec.Frame
import Spec.Rfc
import Spec.Find
import Spec.Wire
import Spec.Canon
import Spec.Split
import Spec.Dispatch
import Spec.DictSpec
