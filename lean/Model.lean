import Model.Basic
import Model.Codec
import Model.Dict
import Model.Find
import Model.Stream
import Model.Retry
import Model.Writers
import Model.Mux
