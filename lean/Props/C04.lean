import Model
import Spec
import Gen
import Proofs.Frame
/-!
  C04 — AVP boundaries are taken from the Length fields only.
  `Spec.decodeByFrames` walks a container by each AVP's declared Length rounded up to four,
  consulting nothing but AVP headers (and whether the dictionary calls an AVP grouped, to know
  where to descend), and only then hands each frame's payload bytes to the data-type decoder.
  The theorems say the library's decoder (`decodeAVPs`, used for the message body and for every
  grouped AVP) is exactly that, for every dictionary typing, every byte string, every depth.
-/
namespace DV.Props.C04
open DV DV.Spec

/-- The decoder succeeds exactly when the Length-only walk followed by typing each payload
    succeeds, and then reports the same AVPs: same count, order, codes, flags, vendor ids,
    Length fields, and values decoded from exactly the bytes `[header, Length)` of each AVP. -/
theorem C04_frames (ty : Nat → Nat → Nat) (fuel : Nat) (bs : Bytes) (as : List AVP) :
    decodeAVPs ty fuel bs = .ok as ↔ decodeByFrames ty fuel bs = .ok as := by
  have h := (frame_equiv ty fuel).2 bs
  have e : decodeByFrames ty fuel bs = (frames (isG ty) fuel bs).bindR (typedL ty) := rfl
  rw [e]
  constructor
  · intro h1
    rw [h1] at h
    generalize (frames (isG ty) fuel bs).bindR (typedL ty) = r at h
    cases r <;> simp [Res.toOpt] at h
    rw [h]
  · intro h1
    rw [h1] at h
    generalize decodeAVPs ty fuel bs = r at h
    cases r <;> simp [Res.toOpt] at h
    rw [h]

/-- Whatever the Length-only walk (or the typing of a payload) rejects, the decoder rejects with
    an error - never a panic, never a different AVP list. -/
theorem C04_rejects (ty : Nat → Nat → Nat) (fuel : Nat) (bs : Bytes)
    (h : ∀ as, decodeByFrames ty fuel bs ≠ .ok as) : ∃ e, decodeAVPs ty fuel bs = .err e := by
  have np := (decode_noPanic ty fuel).2 bs
  cases hd : decodeAVPs ty fuel bs with
  | ok as => exact absurd ((C04_frames ty fuel bs as).mp hd) (h as)
  | err e => exact ⟨e, rfl⟩
  | panic p => rw [hd] at np; simp [Res.isPanic] at np

/-- A declared Length shorter than the AVP header (8, or 12 with the V flag) or longer than the
    enclosing container is an error, whatever the data type. -/
theorem C04_bad_length (ty : Nat → Nat → Nat) (fuel : Nat) (data : Bytes) (h8 : 8 ≤ data.length)
    (hbad : rd ((data.drop 5).take 3) < hdrLen (data.getD 4 0).toNat ∨ data.length < rd ((data.drop 5).take 3)) :
    ∃ e, decodeAVP ty (fuel+1) data = .err e := by
  rw [decodeAVP_nf]
  dsimp only
  generalize (data.getD 4 0).toNat = flags at hbad ⊢
  generalize rd ((data.drop 5).take 3) = length at hbad ⊢
  have h1 : ¬ data.length < 8 := by omega
  simp only [h1, if_false]
  by_cases h2 : data.length < length
  · exact ⟨"avp-not-enough-data", by simp [h2]⟩
  simp only [h2, if_false]
  have hb : length < hdrLen flags := by
    cases hbad with
    | inl h => exact h
    | inr h => exact absurd h h2
  by_cases h3 : length < 8
  · exact ⟨"avp-header-short", by simp [h3]⟩
  simp only [h3, if_false]
  have : hasV flags = true ∧ length < 12 := by
    unfold hdrLen at hb
    by_cases hv : hasV flags = true
    · simp [hv] at hb; exact ⟨hv, hb⟩
    · simp [hv] at hb; omega
  exact ⟨"avp-vendor-short", by simp [this]⟩

/-- the next AVP starts at the declared Length rounded up to four - a statement about the
    cursor, for every decoded AVP list -/
theorem C04_cursor (ty : Nat → Nat → Nat) (fuel : Nat) (b : Bytes) (a : AVP) (r : List AVP)
    (hne : b.isEmpty = false) (h : decodeAVPs ty (fuel+1) b = .ok (a :: r)) :
    decodeAVP ty fuel b = .ok a ∧
    decodeAVPs ty fuel (b.drop (roundUp4 (rd ((b.drop 5).take 3)))) = .ok r := by
  rw [decodeAVPs_succ] at h
  simp only [hne, Bool.false_eq_true, if_false] at h
  cases hd : decodeAVP ty fuel b with
  | ok a' =>
    rw [hd] at h
    simp only [Res.bindR] at h
    have hl := decodeAVP_length ty fuel b a' hd
    rw [hl, pad4_eq_roundUp4] at h
    cases hr : decodeAVPs ty fuel (b.drop (roundUp4 (rd ((b.drop 5).take 3)))) with
    | ok r' =>
      rw [hr] at h
      simp only [Res.mapR, Res.ok.injEq, List.cons.injEq] at h
      rw [h.1, h.2]; exact ⟨rfl, rfl⟩
    | err e => rw [hr] at h; simp [Res.mapR] at h
    | panic p => rw [hr] at h; simp [Res.mapR] at h
  | err e => rw [hd] at h; simp [Res.bindR] at h
  | panic p => rw [hd] at h; simp [Res.bindR] at h

/-- regenerated facts the model hard-codes: the V bit, the grouped type ids -/
theorem C04_gen : Gen.Vbit = 128 ∧ (Gen.typeIds.lookup "GroupedType") = some T.grouped ∧
    Gen.avpLayoutDec = [("Code", 0, 4), ("Flags", 4, 5), ("Length", 5, 8), ("VendorID", 8, 12)] := by decide

/-- non-vacuity: an Unsigned32-typed AVP (code 266) with a 16-byte payload whose tail spells an
    Origin-Host AVP is ONE AVP for the walk and for the decoder. -/
example :
    let ty : Nat → Nat → Nat := fun c _ => if c = 266 then T.u32 else T.ident
    let inner : Bytes := [0,0,1,8, 0x40, 0,0,12, 101,118,105,108]
    let bs : Bytes := [0,0,1,10, 0x40, 0,0,24, 0,0,0,0] ++ inner
    okIs (decodeAVPs ty 3 bs) [.mk 266 64 24 0 (.fix T.u32 0)] = true := by
  decide

end DV.Props.C04
