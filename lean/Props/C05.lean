import Model
import Proofs.ReadFull
import Spec
import Gen
import Proofs.Stream
import Proofs.ApiMsg
/-!
  C05 — message boundaries in a byte stream follow the declared message length.
  A transport is the list of non-empty fragments its `Read` calls will return, followed by EOF
  or a read error. `readAll` is the connection's reader loop (successive `ReadMessage` calls,
  each an `io.ReadFull` of the header, then of the declared length minus 20).
-/
namespace DV.Props.C05
open DV DV.Spec

/-- For every dictionary, every byte stream and EVERY fragmentation of it into reads, the
    outcomes of the reader loop - messages, then eof / error / reject - and the number of bytes
    consumed are those of the reference split by declared length. -/
theorem C05_split (d : DictFn) (fuel : Nat) (s : Src) (hw : s.wf) :
    readAll d fuel s = split d fuel s.bytes s.fin := readAll_split d fuel s hw

/-- Hence the same sequence of messages is produced however the transport fragments the bytes
    (every split point, 1-byte reads, anything): two transports with the same bytes and the
    same ending are indistinguishable. A `bufio.Reader` in between is such a re-fragmentation. -/
theorem C05_frag (d : DictFn) (fuel : Nat) (s1 s2 : Src) (h1 : s1.wf) (h2 : s2.wf)
    (hb : s1.bytes = s2.bytes) (hf : s1.fin = s2.fin) :
    readAll d fuel s1 = readAll d fuel s2 := by
  rw [C05_split d fuel s1 h1, C05_split d fuel s2 h2, hb, hf]

/-- One `ReadMessage`: outcome and consumption depend on the bytes only, and the transport is
    left exactly after the consumed bytes (bytes of one message are never attributed to another). -/
theorem C05_one (d : DictFn) (s : Src) (hw : s.wf) :
    ∃ s', readMessage d s = ((splitStep d s.bytes s.fin).1, (splitStep d s.bytes s.fin).2, s') ∧
      s'.wf ∧ s'.fin = s.fin ∧ s'.bytes = s.bytes.drop (splitStep d s.bytes s.fin).2 :=
  readMessage_spec d s hw

/-- a stream ending between messages reports end-of-file, consuming nothing -/
theorem C05_eof (d : DictFn) : splitStep d [] .eof = (MsgRes.eof, 0) := by
  simp [splitStep]

/-- a stream ending inside the header is an error (not end-of-file) -/
theorem C05_in_header (d : DictFn) (bs : Bytes) (fin : Fin) (h0 : 0 < bs.length) (h : bs.length < 20) :
    splitStep d bs fin = (MsgRes.errHeader, bs.length) := by
  have : ¬ bs.isEmpty = true := by
    intro e; have := List.isEmpty_iff.mp e; rw [this] at h0; simp at h0
  simp [splitStep, this, h]

/-- a declared length below the 20-byte header is rejected having consumed exactly the header;
    a stream ending inside the body is an error; otherwise exactly the declared length is consumed -/
theorem C05_by_length (d : DictFn) (bs : Bytes) (fin : Fin) (h : Header) (r : Nat × Nat)
    (h20 : 20 ≤ bs.length) (hh : decodeHeader (bs.take 20) = .ok h) (hc : d.cmdRules h.app h.cmd = some r) :
    (h.len < 20 → splitStep d bs fin = (MsgRes.reject, 20)) ∧
    (20 ≤ h.len → bs.length < h.len → splitStep d bs fin = (MsgRes.errBody, bs.length)) ∧
    (20 ≤ h.len → h.len ≤ bs.length → (splitStep d bs fin).2 = h.len) := by
  have hne : ¬ bs.isEmpty = true := by
    intro e; have := List.isEmpty_iff.mp e; rw [this] at h20; simp at h20
  have hlt : ¬ bs.length < 20 := by omega
  refine ⟨?_, ?_, ?_⟩
  · intro hl; simp [splitStep, hne, hlt, hh, hc, hl]
  · intro hl hb
    have : ¬ h.len < 20 := by omega
    simp [splitStep, hne, hlt, hh, hc, this, hb]
  · intro hl hb
    have h1 : ¬ h.len < 20 := by omega
    have h2 : ¬ bs.length < h.len := by omega
    simp [splitStep, hne, hlt, hh, hc, h1, h2]

/-- `w` is the complete wire image of one message that decodes to `m`: a decodable header that
    declares exactly `w`'s length, a command the dictionary knows, a body that decodes -/
def Whole (d : DictFn) (w : Bytes) (m : Msg) : Prop :=
  20 ≤ w.length ∧ ∃ h r, decodeHeader (w.take 20) = .ok h ∧ d.cmdRules h.app h.cmd = some r ∧
    h.len = w.length ∧ decodeBody d h (w.drop 20) = .msg m

/-- a complete message at the front of a stream is cut off exactly at its own end, whatever
    follows it -/
theorem splitStep_whole (d : DictFn) (w rest : Bytes) (fin : Fin) (m : Msg) (hw : Whole d w m) :
    splitStep d (w ++ rest) fin = (MsgRes.msg m, w.length) := by
  obtain ⟨h20, h, r, hh, hc, hl, hb⟩ := hw
  have hne : ¬ (w ++ rest).isEmpty = true := by
    intro e; have := List.isEmpty_iff.mp e
    have : (w ++ rest).length = 0 := by rw [this]; rfl
    rw [List.length_append] at this; omega
  have ht : (w ++ rest).take 20 = w.take 20 := by
    rw [List.take_append_of_le_length h20]
  have hd : ((w ++ rest).drop 20).take (h.len - 20) = w.drop 20 := by
    rw [List.drop_append_of_le_length h20, hl]
    have : (w.drop 20).length = w.length - 20 := by simp
    rw [List.take_append_of_le_length (by omega)]
    exact List.take_of_length_le (by omega)
  have hlen : ¬ (w ++ rest).length < 20 := by rw [List.length_append]; omega
  have hlen2 : ¬ (w ++ rest).length < h.len := by rw [List.length_append]; omega
  have hl20 : ¬ h.len < 20 := by omega
  simp only [splitStep, hne, hlen, ht, hh, hc, hl20, hlen2, hd, hb, if_false]
  simp [hl]

/-- whatever `ReadMessage` decodes from a buffer holding exactly the declared length is `Whole`:
    in particular (C01_api_msg) every message the library serialises -/
theorem whole_of_decodeMsg (d : DictFn) (w : Bytes) (m : Msg)
    (hd : decodeMsg d w = .ok m) (hl : m.hdr.len = w.length) : Whole d w m := by
  unfold decodeMsg at hd
  split at hd
  · cases hd
  rename_i h20
  split at hd
  · cases hd
  · cases hd
  rename_i h hh
  split at hd
  · cases hd
  rename_i nreq nans hc
  split at hd
  · cases hd
  rename_i hs
  dsimp only at hd
  generalize hn' : (if isRequest h.flags = true then nreq else nans) = n at hd
  split at hd
  · cases hd
  split at hd
  · cases hd
  rename_i hn
  split at hd
  · rename_i as ha
    cases hd
    simp only at hl
    have hbody : (w.drop 20).take (h.len - 20) = w.drop 20 := by
      apply List.take_of_length_le; simp; omega
    rw [hbody] at ha
    refine ⟨by omega, h, (nreq, nans), hh, hc, hl, ?_⟩
    simp only [decodeBody, hc, hn', hn, if_false, ha]
  · cases hd
  · cases hd

/-- **No message of a stream is lost, merged with its neighbour or delivered twice.** The
    concatenation of any number of complete messages, followed by the end of the stream, is cut
    into exactly those messages, in order, then end-of-file; every byte is accounted for. With
    `C05_split` this holds for the reader loop over every fragmentation of that stream. -/
theorem C05_concat (d : DictFn) (wms : List (Bytes × Msg)) (hw : ∀ p ∈ wms, Whole d p.1 p.2) :
    split d (wms.length + 1) (wms.map Prod.fst).flatten .eof =
      (wms.map (fun p => MsgRes.msg p.2) ++ [MsgRes.eof], (wms.map Prod.fst).flatten.length) := by
  induction wms with
  | nil => simp [split, splitStep]
  | cons p ps ih =>
    have hp := hw p (List.mem_cons_self)
    have hps : ∀ q ∈ ps, Whole d q.1 q.2 := fun q hq => hw q (List.mem_cons_of_mem _ hq)
    have ih' := ih hps
    simp only [List.map_cons, List.flatten_cons, List.length_cons]
    rw [split, splitStep_whole d p.1 _ .eof p.2 hp]
    simp only [List.drop_left, ih', List.cons_append, List.length_append]

/-- the reader loop over any fragmentation of such a stream delivers exactly those messages -/
theorem C05_concat_reads (d : DictFn) (wms : List (Bytes × Msg)) (hw : ∀ p ∈ wms, Whole d p.1 p.2)
    (s : Src) (hs : s.wf) (hb : s.bytes = (wms.map Prod.fst).flatten) (hf : s.fin = .eof) :
    readAll d (wms.length + 1) s =
      (wms.map (fun p => MsgRes.msg p.2) ++ [MsgRes.eof], (wms.map Prod.fst).flatten.length) := by
  rw [C05_split d _ s hs, hb, hf, C05_concat d wms hw]

/-- a message the API can build and the dictionary can type (the hypotheses of `C01_api_msg`) -/
structure Sendable (d : DictFn) (m : Msg) : Prop where
  hv : m.hdr.version < 256
  hf : m.hdr.flags < 256
  hcmd : m.hdr.cmd < 16777216
  happ : m.hdr.app < 4294967296
  hh : m.hdr.hbh < 4294967296
  he : m.hdr.e2e < 4294967296
  hlen : m.hdr.len = m.len
  hsz : m.len < 16777216
  hrules : ∃ nreq nans, d.cmdRules m.hdr.app m.hdr.cmd = some (nreq, nans) ∧
    (if isRequest m.hdr.flags then nreq else nans) ≠ 0
  hc : canonL m.avps = true
  ht : typedOkL (d.avpType m.hdr.app) m.avps = true

/-- the wire image of a sendable message is `Whole` (C01 composed with C05) -/
theorem sendable_whole (d : DictFn) (m : Msg) (h : Sendable d m) :
    Whole d m.enc { hdr := m.hdr, avps := wireL m.avps } := by
  obtain ⟨nreq, nans, hr, hn⟩ := h.hrules
  apply whole_of_decodeMsg
  · exact api_msg_rt d m nreq nans h.hv h.hf h.hcmd h.happ h.hh h.he h.hlen h.hsz hr hn h.hc h.ht
  · simp only [Msg.enc, List.length_append, header_enc_length, encL_length m.avps h.hc, h.hlen, Msg.len]

/-- **End to end: what one side serialises, the other side's reader loop delivers.** Any number of
    sendable messages written one after another onto a byte stream that then ends - and cut by
    the transport into reads in any way whatever - are delivered as exactly those messages (in
    the tree-as-read form of C01), in order, followed by end-of-file. -/
theorem C05_sent_messages_arrive (d : DictFn) (ms : List Msg) (hm : ∀ m ∈ ms, Sendable d m)
    (s : Src) (hs : s.wf) (hb : s.bytes = (ms.map Msg.enc).flatten) (hf : s.fin = .eof) :
    (readAll d (ms.length + 1) s).1 =
      ms.map (fun m => MsgRes.msg { hdr := m.hdr, avps := wireL m.avps }) ++ [MsgRes.eof] := by
  have := C05_concat_reads d (ms.map (fun m => (m.enc, ({ hdr := m.hdr, avps := wireL m.avps } : Msg))))
    (by
      intro p hp
      obtain ⟨m, hmem, rfl⟩ := List.mem_map.mp hp
      exact sendable_whole d m (hm m hmem))
    s hs (by rw [hb]; simp [List.map_map, Function.comp_def]) hf
  simp only [List.length_map, List.map_map, Function.comp_def] at this
  rw [this]

/-- (reads that return bytes and an error together) `io.ReadFull`, which `readHeader` and
    `readBodyBytes` use (`C05_fill_gen`), adds what a Read returned before it looks at the error:
    whenever the bytes the transport delivers - up to and including the call that reports the end
    or an error - are at least what was asked for, the buffer is filled with exactly the first
    `want` of them. However the Reads are cut; whether or not the last bytes come with the end. -/
theorem C05_all_bytes_arrive (rs : List ReadRes) (want : Nat) (h : want ≤ (avail rs).length) :
    (readFullStd false want rs []).1 = .ok ((avail rs).take want) := by
  have := readFullStd_ok rs want [] h
  simpa using this

/-- a loop that returns on the error before looking at what it got loses a complete message whose
    last bytes arrive together with the end of the stream -/
theorem C05_error_first_counterexample :
    (readFullStd true 4 [([1, 2], none), ([3, 4], some .eof)] []).1 = .unexpected [1, 2, 3, 4] ∧
    (readFullStd false 4 [([1, 2], none), ([3, 4], some .eof)] []).1 = .ok [1, 2, 3, 4] := by
  constructor <;> simp [readFullStd]

theorem C05_fill_gen : Gen.directReadCalls = [] ∧
    Gen.readerFillCalls = ["Message.readHeader:msr.ReadAtLeast", "Message.readHeader:io.ReadFull",
      "readBodyBytes:msr.ReadAtLeast", "readBodyBytes:io.ReadFull"] := by decide

/-- regenerated constant -/
theorem C05_gen : Gen.HeaderLength = 20 ∧ Gen.MessageBufferLength = 1024 ∧
    -- one path for every kind of reader: header, then exactly (declared length - 20) body bytes,
    -- after the declared length was checked against the header's own 20
    Gen.readMessageCalls = ["readHeader", "readBody"] ∧
    Gen.readBodyGuard = "(m.Header.MessageLength<HeaderLength)" ∧
    Gen.readBodyLength = "int((m.Header.MessageLength-HeaderLength))" ∧
    -- with a ReadTimeout the deadline is set anew before every message, whatever is buffered
    Gen.readDeadlineArming = ["if c.server.ReadTimeout > 0 { c.rwc.SetReadDeadline(time.Now().Add(c.server.ReadTimeout)) }"] := by decide

/-- non-vacuity: two fragmentations of a 24-byte stream (a 20-byte message and 4 stray bytes) -/
example : (Src.mk [[1,0,0,20,0x80,0,1,1, 0,0,0,0, 0,0,0,1, 0,0,0,2, 9,9,9,9]] .eof).wf ∧
    (Src.mk [[1],[0,0,20,0x80,0,1,1, 0,0,0,0, 0,0,0,1, 0,0,0],[2, 9,9],[9,9]] .eof).wf := by
  constructor <;> (intro f hf; simp at hf; rcases hf with rfl | rfl | rfl | rfl <;> simp)


/-- non-vacuity of `C05_concat`: a 20-byte message is `Whole`, so two of them in a row are cut
    into two messages -/
example : ∃ m, Whole ⟨fun _ _ _ => 0, fun _ _ => some (1, 1)⟩
    [1,0,0,20,0x80,0,1,1, 0,0,0,0, 0,0,0,1, 0,0,0,2] m := by
  refine ⟨{ hdr := ⟨1, 20, 128, 257, 0, 1, 2⟩, avps := [] }, by decide,
    ⟨1, 20, 128, 257, 0, 1, 2⟩, (1, 1), ?_, rfl, rfl, ?_⟩
  · decide
  · simp [decodeBody, decodeAVPs, isRequest]

/-- non-vacuity of `C05_sent_messages_arrive`: an AVP-less request is `Sendable` -/
example : Sendable ⟨fun _ _ _ => 0, fun _ _ => some (1, 1)⟩ { hdr := ⟨1, 20, 128, 257, 0, 1, 2⟩, avps := [] } :=
  { hv := by decide, hf := by decide, hcmd := by decide, happ := by decide, hh := by decide,
    he := by decide, hlen := by decide, hsz := by decide,
    hrules := ⟨1, 1, rfl, by decide⟩, hc := by decide, ht := by decide }

end DV.Props.C05
