import Model
import Spec
import Gen
import Proofs.SM
import Props.C09
import Proofs.Client
/-!
  C10 — no application handler runs before the capabilities exchange succeeds.
  `smStep` is one inbound message on a server-side connection whose handler is a state machine
  (`sm.New` + application registrations through `StateMachine.Handle/HandleFunc/HandleIdx`);
  `smRun` a whole history. Also here: the server half of C13 (every well-formed DWR is answered)
  and the CEA/DWA half of C16.
-/
namespace DV.Props.C10
open DV DV.Spec

/-- (i) an application handler is invoked only on a connection whose context holds metadata -/
theorem C10_gate (env : SMEnv) (short : Option Nat) (s : ConnSt) (m : Msg) (k : Nat)
    (h : Act.app k ∈ (smStep env short s m).2) : s.peer.isSome = true := by
  unfold smStep at h
  cases hd : (Mux.ofRegs (smRegs env.shortCE env.shortDW env.regs)).dispatch short m.hdr.app m.hdr.cmd (isRequest m.hdr.flags) with
  | report => rw [hd] at h; simp at h
  | handler hh =>
    rw [hd] at h
    simp only [] at h
    cases ht : targetOf hh with
    | app k' =>
      rw [ht] at h
      simp only [] at h
      by_cases hp : s.peer.isSome = true
      · exact hp
      · simp [hp] at h
    | cer =>
      rw [ht] at h
      simp only [] at h
      by_cases hp : s.peer.isSome = true
      · exact hp
      · simp only [hp, Bool.false_eq_true, if_false] at h
        cases hc : cerParse env.appOK m.avps with
        | error e =>
          rw [hc] at h
          cases hi : env.ips with
          | none => rw [hi] at h; simp at h
          | some ips => rw [hi] at h; simp only [] at h; split at h <;> simp at h
        | ok v =>
          rw [hc] at h
          cases hi : env.ips with
          | none => rw [hi] at h; simp at h
          | some ips => rw [hi] at h; simp only [] at h; split at h <;> simp at h
    | dwrGated =>
      rw [ht] at h
      simp only [] at h
      repeat' split at h
      all_goals simp at h
    | dwr =>
      rw [ht] at h
      simp only [] at h
      repeat' split at h
      all_goals simp at h
    | cerClient => rw [ht] at h; simp at h
    | none => rw [ht] at h; simp at h

/-- (ii) once the metadata is set, a message that C09's decision maps to an application
    registration invokes exactly that handler -/
theorem C10_after (env : SMEnv) (short : Option Nat) (s : ConnSt) (m : Msg) (hh k : Nat)
    (hp : s.peer.isSome = true)
    (hd : Spec.dispatch (smRegs env.shortCE env.shortDW env.regs) short m.hdr.app m.hdr.cmd (isRequest m.hdr.flags) = .handler hh)
    (ht : targetOf hh = .app k) : smStep env short s m = (s, [.app k]) := by
  unfold smStep
  rw [C09.C09_decision, hd]
  simp only [ht, hp, if_true]

/-- (iv) metadata is stored only together with a success CEA that the transport accepted -/
theorem C10_meta_after_write (env : SMEnv) (short : Option Nat) (s : ConnSt) (m : Msg) (mt : Meta)
    (h : Act.setMeta mt ∈ (smStep env short s m).2) :
    s.closed = false ∧ ∃ ips v, env.ips = some ips ∧ cerParse env.appOK m.avps = .ok v ∧
      Act.wrote (successCEA env.cfg env.apps ips m.hdr v) ∈ (smStep env short s m).2 ∧
      mt = { host := v.host, realm := v.realm, apps := v.ids } := by
  unfold smStep at h ⊢
  cases hd : (Mux.ofRegs (smRegs env.shortCE env.shortDW env.regs)).dispatch short m.hdr.app m.hdr.cmd (isRequest m.hdr.flags) with
  | report => rw [hd] at h; simp at h
  | handler hh =>
    rw [hd] at h
    simp only [] at h ⊢
    cases ht : targetOf hh with
    | cer =>
      rw [ht] at h
      simp only [] at h ⊢
      by_cases hp : s.peer.isSome = true
      · simp [hp] at h
      · simp only [hp, Bool.false_eq_true, if_false] at h ⊢
        cases hc : cerParse env.appOK m.avps with
        | error e =>
          rw [hc] at h
          cases hi : env.ips with
          | none => rw [hi] at h; simp at h
          | some ips => rw [hi] at h; simp only [] at h; split at h <;> simp at h
        | ok v =>
          rw [hc] at h
          cases hi : env.ips with
          | none => rw [hi] at h; simp at h
          | some ips =>
            rw [hi] at h
            simp only [] at h ⊢
            by_cases hcl : s.closed = true
            · simp [hcl] at h
            · simp only [hcl, Bool.false_eq_true, if_false, List.mem_cons, Act.setMeta.injEq, List.mem_nil_iff, or_false, reduceCtorEq, false_or] at h
              simp only [hcl, Bool.false_eq_true, if_false]
              exact ⟨by simpa using hcl, ips, v, rfl, rfl, List.mem_cons_self, h⟩
    | app k' =>
      rw [ht] at h; simp only [] at h
      split at h <;> simp at h
    | dwrGated =>
      rw [ht] at h; simp only [] at h
      repeat' split at h
      all_goals simp at h
    | dwr =>
      rw [ht] at h; simp only [] at h
      repeat' split at h
      all_goals simp at h
    | cerClient => rw [ht] at h; simp at h
    | none => rw [ht] at h; simp at h

/-- the metadata appears only through such a step -/
theorem peer_set (env : SMEnv) (short : Option Nat) (s : ConnSt) (m : Msg)
    (h0 : s.peer = none) (h1 : (smStep env short s m).1.peer ≠ none) :
    ∃ mt, Act.setMeta mt ∈ (smStep env short s m).2 := by
  unfold smStep at h1 ⊢
  cases hd : (Mux.ofRegs (smRegs env.shortCE env.shortDW env.regs)).dispatch short m.hdr.app m.hdr.cmd (isRequest m.hdr.flags) with
  | report => rw [hd] at h1; simp [h0] at h1
  | handler hh =>
    rw [hd] at h1
    simp only [] at h1 ⊢
    cases ht : targetOf hh with
    | cer =>
      rw [ht] at h1
      simp only [] at h1 ⊢
      have hp : ¬ s.peer.isSome = true := by rw [h0]; simp
      simp only [hp, Bool.false_eq_true, if_false] at h1 ⊢
      cases hc : cerParse env.appOK m.avps with
      | error e =>
        rw [hc] at h1
        cases hi : env.ips with
        | none => rw [hi] at h1; simp [h0] at h1
        | some ips => rw [hi] at h1; simp only [] at h1; split at h1 <;> simp [h0] at h1
      | ok v =>
        rw [hc] at h1
        cases hi : env.ips with
        | none => rw [hi] at h1; simp [h0] at h1
        | some ips =>
          rw [hi] at h1
          simp only [] at h1 ⊢
          by_cases hcl : s.closed = true
          · simp [hcl, h0] at h1
          · simp only [hcl, Bool.false_eq_true, if_false]
            exact ⟨{ host := v.host, realm := v.realm, apps := v.ids }, by simp⟩
    | app k' =>
      rw [ht] at h1; simp only [] at h1
      split at h1 <;> simp [h0] at h1
    | dwrGated =>
      rw [ht] at h1; simp only [] at h1
      repeat' split at h1
      all_goals simp [h0] at h1
    | dwr =>
      rw [ht] at h1; simp only [] at h1
      repeat' split at h1
      all_goals simp [h0] at h1
    | cerClient => rw [ht] at h1; simp [h0] at h1
    | none => rw [ht] at h1; simp [h0] at h1

/-- (i), for whole histories: if application handler `k` is invoked for the i-th message of ANY
    sequence of messages on a fresh connection, then an earlier message of that sequence was a
    CER that was answered with a success CEA and set the metadata. -/
theorem C10_history (env : SMEnv) (shortOf : Msg → Option Nat) :
    ∀ (ms : List Msg) (s : ConnSt), s.peer = none → ∀ (i k : Nat),
      Act.app k ∈ (smRun env shortOf s ms).getD i [] →
      ∃ j, j < i ∧ ∃ mt, Act.setMeta mt ∈ (smRun env shortOf s ms).getD j []
  | [], s, _, i, k, h => by simp [smRun] at h
  | m :: r, s, h0, i, k, h => by
    simp only [smRun] at h ⊢
    cases i with
    | zero =>
      simp only [List.getD_cons_zero] at h
      have := C10_gate env (shortOf m) s m k h
      rw [h0] at this; simp at this
    | succ i' =>
      simp only [List.getD_cons_succ] at h
      by_cases hp : (smStep env (shortOf m) s m).1.peer = none
      · obtain ⟨j, hj, mt, hmt⟩ := C10_history env shortOf r _ hp i' k h
        exact ⟨j + 1, by omega, mt, by simpa [List.getD_cons_succ] using hmt⟩
      · obtain ⟨mt, hmt⟩ := peer_set env (shortOf m) s m h0 hp
        exact ⟨0, by omega, mt, by simpa using hmt⟩

/-! ### the built-in CER / DWR processing cannot be replaced -/

theorem lastReg_append (p : Reg → Option Nat) : ∀ (xs ys : List Reg),
    lastReg p (xs ++ ys) = (match lastReg p ys with | some h => some h | none => lastReg p xs)
  | [], ys => by simp [lastReg]; cases lastReg p ys <;> rfl
  | x :: xs, ys => by
    simp only [List.cons_append, lastReg, lastReg_append p xs ys]
    cases lastReg p ys with
    | some h => rfl
    | none => rfl

theorem lastReg_none (p : Reg → Option Nat) : ∀ (l : List Reg), (∀ r ∈ l, p r = none) → lastReg p l = none
  | [], _ => rfl
  | x :: xs, h => by
    simp only [lastReg, lastReg_none p xs (fun r hr => h r (by simp [hr])), h x (by simp)]

/-- (iii) whatever the application registers, a base-application CER (application 0, code 257,
    request) is processed by the built-in CER handler and a base DWR by the built-in DWR handler -/
theorem C10_builtin (ce dw : Nat) (regs : List Reg) (s : Nat) :
    Spec.dispatch (smRegs ce dw regs) (some s) 0 257 true = .handler 1002 ∧
    Spec.dispatch (smRegs ce dw regs) (some s) 0 280 true = .handler 1003 := by
  unfold smRegs Spec.dispatch
  have hf1 : lastReg (byIdx 0 257 true) (regs.filter (fun r => ¬ refused ce dw r)) = none := by
    apply lastReg_none
    intro r hr
    have hnr := (List.mem_filter.mp hr).2
    cases r with
    | name a b c => rfl
    | all c => simp [byIdx, allIdx]
    | idx a c q h' =>
      simp only [byIdx]
      by_cases e : (a, c, q) = (0, 257, true)
      · simp only [Prod.mk.injEq] at e; simp [refused, e.1, e.2.1] at hnr
      · simp [e]
  have hf2 : lastReg (byIdx 0 280 true) (regs.filter (fun r => ¬ refused ce dw r)) = none := by
    apply lastReg_none
    intro r hr
    have hnr := (List.mem_filter.mp hr).2
    cases r with
    | name a b c => rfl
    | all c => simp [byIdx, allIdx]
    | idx a c q h' =>
      simp only [byIdx]
      by_cases e : (a, c, q) = (0, 280, true)
      · simp only [Prod.mk.injEq] at e; simp [refused, e.1, e.2.1, e.2.2] at hnr
      · simp [e]
  constructor
  · simp only [lastReg_append, hf1]
    simp [builtinRegs, lastReg, byIdx]
  · simp only [lastReg_append, hf2]
    simp [builtinRegs, lastReg, byIdx]

/-- application registrations under the names CER, CEA and DWR are refused -/
theorem C10_names_refused (ce dw : Nat) (regs : List Reg) (r : Reg)
    (hr : r ∈ regs.filter (fun r => ¬ refused ce dw r)) :
    byName ce true r = none ∧ byName ce false r = none ∧ byName dw true r = none := by
  have hnr := (List.mem_filter.mp hr).2
  cases r with
  | idx a c q h => exact ⟨rfl, rfl, rfl⟩
  | all h => exact ⟨rfl, rfl, rfl⟩
  | name s x h =>
    simp only [byName]
    refine ⟨?_, ?_, ?_⟩
    · by_cases e : (s, x) = (ce, 0)
      · simp only [Prod.mk.injEq] at e; simp [refused, e.1, e.2] at hnr
      · simp [e]
    · by_cases e : (s, x) = (ce, 1)
      · simp only [Prod.mk.injEq] at e; simp [refused, e.1, e.2] at hnr
      · simp [e]
    · by_cases e : (s, x) = (dw, 0)
      · simp only [Prod.mk.injEq] at e; simp [refused, e.1, e.2] at hnr
      · simp [e]

/-! ### C13 (server side) and C16 (CEA / DWA) -/

/-- C13: a DWR carrying Origin-Host and Origin-Realm, dispatched to the state machine's DWR
    handler on an open connection of a peer that completed the handshake, is answered with a DWA -/
theorem C13_dwa_sent (env : SMEnv) (short : Option Nat) (s : ConnSt) (m : Msg) (hh : Nat)
    (hd : (Mux.ofRegs (smRegs env.shortCE env.shortDW env.regs)).dispatch short m.hdr.app m.hdr.cmd (isRequest m.hdr.flags) = .handler hh)
    (ht : targetOf hh = .dwr ∨ targetOf hh = .dwrGated) (hp : s.peer.isSome = true) (hc : s.closed = false)
    (h1 : (strField C.originHost m.avps).isEmpty = false) (h2 : (strField C.originRealm m.avps).isEmpty = false) :
    smStep env short s m = (s, [.wrote (dwa env.cfg m.hdr)]) := by
  unfold smStep
  rw [hd]
  simp only []
  have e1 : (Target.dwr == Target.dwrGated) = false := by decide
  have e2 : s.peer.isNone = false := by cases hs : s.peer <;> simp_all
  rcases ht with ht | ht <;> simp [ht, hc, h1, h2, e1, e2]

/-- C13 / C16: the DWA has Result-Code 2001, the local identity (and the configured Origin-State-Id), and the request's command code,
    application id, hop-by-hop and end-to-end identifiers with the request bit cleared -/
theorem C13_dwa_fields (cfg : Settings) (req : Header) (hf : req.flags < 256) :
    (dwa cfg req).hdr.hbh = req.hbh ∧ (dwa cfg req).hdr.e2e = req.e2e ∧ (dwa cfg req).hdr.cmd = req.cmd ∧
    (dwa cfg req).hdr.app = req.app ∧ isRequest (dwa cfg req).hdr.flags = false ∧
    (dwa cfg req).hdr.flags % 128 = req.flags % 128 ∧
    (dwa cfg req).avps = [newAVP C.resultCode 64 0 (.fix T.u32 2001),
      newAVP C.originHost 64 0 (.str T.ident cfg.originHost), newAVP C.originRealm 64 0 (.str T.ident cfg.originRealm)]
      ++ (if cfg.originStateId ≠ 0 then [newAVP C.originStateId 64 0 (.fix T.u32 cfg.originStateId)] else []) := by
  unfold dwa mkMsg
  have h := mkMsg_avps req ([newAVP C.resultCode 64 0 (.fix T.u32 2001),
      newAVP C.originHost 64 0 (.str T.ident cfg.originHost), newAVP C.originRealm 64 0 (.str T.ident cfg.originRealm)]
      ++ (if cfg.originStateId ≠ 0 then [newAVP C.originStateId 64 0 (.fix T.u32 cfg.originStateId)] else [])) [] (answerHdr req 0)
  simp only [List.nil_append] at h
  refine ⟨h.2.1, h.2.2.1, h.2.2.2.1, h.2.2.2.2.1, ?_, ?_, h.1⟩
  · rw [h.2.2.2.2.2]; unfold answerHdr isRequest; simp only []
    by_cases hr : req.flags / 128 % 2 = 1 <;> simp [hr, isRequest] <;> omega
  · rw [h.2.2.2.2.2]; unfold answerHdr isRequest; simp only []
    by_cases hr : req.flags / 128 % 2 = 1 <;> simp [hr] <;> omega

/-- Client side: the first CEA the connection handles decides whether the peer's metadata - the
    gate for application handlers - is ever stored. In every reachable state of the handshake in
    which a CEA has been handled, a further CEA changes nothing, whether it is dispatched
    normally or comes out of the read buffer after the handshake has closed the transport (a
    failing CEA, a valid one and application messages in one segment): in particular after a
    failing first CEA the gate stays shut for good. -/
theorem C10_client_first_cea_decides (R : Nat) (wd : Bool) (es : List HEv) (s : HS)
    (h : (HS.init R Gen.capErrc Gen.ceaHandlerOnce wd).run es = some s) (hf : s.fired = true) (k : CEAKind) :
    (∀ s', s.step (.cea k) = some s' → s' = s) ∧ (∀ s', s.step (.leftover k) = some s' → s' = s) := by
  have hc : Gen.capErrc = 1 := by decide
  have ho : Gen.ceaHandlerOnce = true := by decide
  rw [hc, ho] at h
  have inv := HInv_run es _ s (HInv_init R 1 wd (by omega)) h
  have hh := handleCEA_once s k inv hf
  constructor
  · intro s' hs
    simp only [HS.step] at hs
    split at hs
    · cases hs
    · cases hs; exact hh
  · intro s' hs
    simp only [HS.step] at hs
    split at hs
    · cases hs; exact hh
    · cases hs

/-- ... and metadata is only ever stored by a success CEA: while none has been handled the gate
    is shut -/
theorem C10_client_gate_needs_success (R : Nat) (wd : Bool) (es : List HEv) (s : HS)
    (h : (HS.init R Gen.capErrc Gen.ceaHandlerOnce wd).run es = some s) (hm : s.hasMeta = true) :
    s.fired = true ∧ s.errcClosed = true := by
  have hc : Gen.capErrc = 1 := by decide
  have ho : Gen.ceaHandlerOnce = true := by decide
  rw [hc, ho] at h
  exact (HInv_run es _ s (HInv_init R 1 wd (by omega)) h).metaFired hm

/-- regenerated facts: which registrations `sm.New` makes and which of them are gated -/
theorem C10_gen : Gen.smNewRegs = [("\"CER\"", "handleCER(sm)"), ("\"DWR\"", "handshakeOK(handleDWR(sm))"),
    ("baseCERIdx", "handleCER(sm)"), ("baseDWRIdx", "handleDWR(sm)")] ∧
    Gen.cmdCapabilitiesExchange = 257 ∧ Gen.cmdDeviceWatchdog = 280 := by decide

/-- the gate itself, regenerated from sm.go: `handshakeOK` is a plain function type (it has no
    state of its own to remember an earlier connection's handshake in) and its `ServeDIAM` looks
    the peer metadata up in the context of the connection the message came in on, every time -/
theorem C10_gate_gen : Gen.handshakeGateType = "diam.HandlerFunc" ∧
    Gen.handshakeGateBody = ["if _, ok := smpeer.FromContext(c.Context()); ok { f(c, m) }"] ∧
    -- the handlers run on the connection's reader: the only send that may block is the client's
    -- once-protected report into its own buffered `errc` (C12_noblock); notifications on channels
    -- nobody has to read (HandshakeNotify, error reports, the watchdog's ack) never block a reader
    Gen.channelSends = [("diam:ServeMux.Error", "mux.e", "select-default"),
      ("diam/sm:handleCEA", "errc", "blocking"), ("diam/sm:handleCEA", "sm.hsNotifyc", "select-default"),
      ("diam/sm:handleCER", "sm.hsNotifyc", "select-default"), ("diam/sm:handleDWA", "dwac", "select-default")] ∧
    -- a dialled connection is not a listener: the client takes over CER (by index and by name)
    -- before it sends its own, so that a CER of the peer's cannot open the gate
    Gen.handshakeRegistrations = ["HandleIdx:baseCERIdx", "HandleFunc:\"CER\"", "Handle:\"CEA\"", "Handle:\"DWA\""] := by decide

end DV.Props.C10
