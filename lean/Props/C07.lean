import Model
import Spec
import Gen
import Proofs.Pool
import Proofs.Retry
import Proofs.Bufio
/-!
  C07 — concurrent and retried writes deliver each message whole, exactly once.
  (A) `writeRetry` / `writeStreamRetry`: the transport is any script of (bytes accepted, error)
      outcomes obeying the `io.Writer` contract; theorem by induction over the script.
  (B) N goroutines writing through `response.Write` (mutex held across buffered Write and
      Flush): labelled transition system, invariant for every reachable state = every schedule.
-/
namespace DV.Props.C07
open DV

/-- (A) For every message image `b`, every retry budget `r` and every contract-abiding outcome
    script: the bytes the transport accepted, in order, are the prefix `b[:n]` where `n` is the
    returned count; a nil error means all of `b` was accepted; every attempt was offered exactly
    the not-yet-accepted suffix (no accepted byte is ever offered again, none is skipped); there
    are at most `r+1` attempts. -/
theorem C07_retry (b : Bytes) (r : Nat) (os : List Outcome) (hc : contract b r os) :
    (writeRetry b r os).accepted.flatten = b.take (writeRetry b r os).n ∧
    (writeRetry b r os).n ≤ b.length ∧
    ((writeRetry b r os).err = none → (writeRetry b r os).accepted.flatten = b) ∧
    (writeRetry b r os).offered = offeredSpec b (writeRetry b r os).accepted ∧
    (writeRetry b r os).offered.length ≤ r + 1 :=
  writeRetry_spec os b r hc

/-- a permanent error, or an exhausted budget, stops the loop at once -/
theorem C07_retry_stops (b : Bytes) (r : Nat) (o : Outcome) (os : List Outcome)
    (h : o.err = some .perm ∨ r = 0) :
    (writeRetry b r (o :: os)).offered = [b] ∧ (writeRetry b r (o :: os)).err = o.err := by
  have : o.err = none ∨ r = 0 ∨ o.err = some .perm := by
    rcases h with h | h
    · exact Or.inr (Or.inr h)
    · exact Or.inr (Or.inl h)
  simp [writeRetry, this]

/-- (B) In every reachable state - i.e. for every number of writers, every program, every
    interleaving of serialisations, lock acquisitions, partial transport writes (stalls
    included) and releases - the transport log is the concatenation of whole messages, each a
    completed write, followed by a prefix of the one message whose writer holds the lock. -/
theorem C07_whole (prog : Nat → List Bytes) (es : List WEv) (s : WSys)
    (h : (WSys.init prog).run es = some s) :
    s.wire = (s.done.map Prod.snd).flatten ++ holderPrefix s :=
  (winv_run prog es _ s (winv_init prog) h).wire

/-- ... nobody else holds a partially written message (mutual exclusion), ... -/
theorem C07_exclusive (prog : Nat → List Bytes) (es : List WEv) (s : WSys)
    (h : (WSys.init prog).run es = some s) (i j : Nat) (m r m' r' : Bytes)
    (hi : (s.writers i).pc = .holding m r) (hj : (s.writers j).pc = .holding m' r') : i = j := by
  have inv := winv_run prog es _ s (winv_init prog) h
  have a := inv.excl i m r hi
  have b := inv.excl j m' r' hj
  rw [a] at b; exact Option.some.inj b

/-- ... and each writer's completed messages, the one in flight and those still queued are its
    program, in program order: every message is written exactly once and in order. -/
theorem C07_once_ordered (prog : Nat → List Bytes) (es : List WEv) (s : WSys)
    (h : (WSys.init prog).run es = some s) (i : Nat) :
    ((s.done.filter (fun p => p.1 = i)).map Prod.snd) ++ cur (s.writers i).pc ++ (s.writers i).queue = prog i :=
  (winv_run prog es _ s (winv_init prog) h).order i

/-- at quiescence (nothing queued, nobody in flight) the wire is exactly the completed messages
    and every writer's messages appear in its own order -/
theorem C07_quiescent (prog : Nat → List Bytes) (es : List WEv) (s : WSys)
    (h : (WSys.init prog).run es = some s) (hl : s.lock = none)
    (hq : ∀ i, (s.writers i).pc = .idle ∧ (s.writers i).queue = []) :
    s.wire = (s.done.map Prod.snd).flatten ∧
    ∀ i, (s.done.filter (fun p => p.1 = i)).map Prod.snd = prog i := by
  have inv := winv_run prog es _ s (winv_init prog) h
  constructor
  · rw [inv.wire]; simp [holderPrefix, hl]
  · intro i
    have := inv.order i
    rw [(hq i).1, (hq i).2] at this
    simpa [cur] using this

/-- (A') The same through the library's own writer: `WriteToWithRetry(conn, r)` on a `diam.Conn`
    whose `response.Write` goes through the connection's `bufio.Writer` (buffered below 4096
    octets, written directly above). For every message image, retry budget and transport
    behaviour: the transport is given a prefix of the message, once; a nil error means all of it
    and the count is its length; after an error the writer is in bufio's sticky state, ... -/
theorem C07_retry_conn (b : Bytes) (r : Nat) (os : List Outcome) :
    let res := connWriteRetry r {} b os
    (∃ k, k ≤ b.length ∧ res.accepted.flatten = b.take k) ∧
    (res.err = none → res.accepted.flatten = b ∧ res.n = b.length ∧ res.st.healthy) ∧
    (res.err ≠ none → res.st.err ≠ none) :=
  connWriteRetry_spec r {} ⟨rfl, rfl⟩ b os

/-- ... in which nothing reaches the transport any more: an incomplete message is the last
    thing the peer receives from this connection, so the stream never goes out of frame -/
theorem C07_failed_write_is_final (st : BW) (e : EK) (he : st.err = some e) (p : Bytes) (os : List Outcome) :
    respWrite st p os = ((0, some e), { st := st, os := os, acc := [] }) :=
  respWrite_sticky st e he p os

/-- and a writer that has completed a message is ready for the next (induction step for any
    sequence of messages on one connection) -/
theorem C07_conn_next (st : BW) (h : st.healthy) (b : Bytes) (r : Nat) (os : List Outcome) :
    let res := connWriteRetry r st b os
    (∃ k, k ≤ b.length ∧ res.accepted.flatten = b.take k) ∧
    (res.err = none → res.accepted.flatten = b ∧ res.n = b.length ∧ res.st.healthy) ∧
    (res.err ≠ none → res.st.err ≠ none) :=
  connWriteRetry_spec r st h b os

/-- the structural facts the models stand on, regenerated from server.go: `response.Write` takes
    `w.mu` first, releases it by defer, and contains both the buffered Write and the Flush; on an
    error it returns a count of zero; nothing resets a buffered writer -/
theorem C07_gen : Gen.responseWriteLocked = true ∧ Gen.MessageBufferLength = 1024 ∧
    Gen.responseWriteReturns = ["return msc.Write(b)", "return 0,err", "return 0,err", "return n,nil"] ∧
    Gen.serverResetCalls = [] ∧
    Gen.connBufferSources = ["c.buf=bufio.NewReadWriter(bufio.NewReader(&c.sr),bufio.NewWriter(rwc))"] := by decide

/-- (pooled serialisation buffers) `WriteToStreamWithRetry` serialises into a buffer taken from
    `writerBufferPool` and hands it back when it returns. With one put per call - what the source
    does, `C07_pool_gen` - then for EVERY interleaving of any number of concurrent calls (and of
    the collector emptying the pool): no buffer is ever in the hands of two calls, and no buffer
    in use is in the pool where a third call could be given it. So the bytes one call hands to the
    transport are its own message's. -/
theorem C07_pool_exclusive (es : List PoolEv) (p : Pool) (h : Pool.run 1 {} es = some p) :
    (∀ u v b, (u, b) ∈ p.held → (v, b) ∈ p.held → u = v) ∧ (∀ u b, (u, b) ∈ p.held → b ∉ p.free) :=
  PoolInv_exclusive (PoolInv_run es {} p PoolInv_init h)

/-- the discipline is needed: a call that hands its buffer back twice (once on an error path and
    once more by the deferred put) leaves the buffer in the pool twice, and the next two calls
    are both given it -/
theorem C07_pool_double_put_counterexample :
    ((Pool.run 2 {} [.acquire 0, .release 0, .acquire 1, .acquire 2]).map (·.held)) = some [(2, 0), (1, 0)] := by
  decide

/-- regenerated from every non-test file under diam/: each function that uses a pool makes one
    getting call and defers one putting call into the same pool; the pool primitives get or put
    exactly once -/
theorem C07_pool_gen :
    Gen.poolUsers.all (fun u => Pool.disciplined u.2) = true ∧
    Gen.poolPrimitives.all (fun p => (p.2.2.1 = 1 ∧ p.2.2.2 = 0) ∨ (p.2.2.1 = 0 ∧ p.2.2.2 = 1)) = true ∧
    (Gen.poolUsers.map (·.1)).contains "diam:Message.WriteToStreamWithRetry" = true := by decide

/-- (capacities of pooled buffers) `MessageBufferLength` is a variable of the application's. With
    the capacity check in `newWriterBuffer` (`C07_pool_cap_gen`), for EVERY sequence of
    assignments to it and of writes of any sizes, every write is given a buffer that holds its
    message - so the message is serialised whole (C03_serialize_fits) and handed to the Conn -/
theorem C07_pool_capacity (es : List CapEv) (p : CapPool) : (CapPool.run true p es).2 = true :=
  CapPool_run_ok es p

/-- without the check (the source before 2ad7047, F23): a small write, the length is raised, a
    write between the two lengths is given the old, short buffer -/
theorem C07_pool_capacity_counterexample :
    (CapPool.run false { len := 1024 } [.use 100, .setLen 4096, .use 1500]).2 = false := by decide

theorem C07_pool_cap_gen : Gen.writerBufferReuseCond = "(cap(b.Bytes())>=min)" := by decide

/-- non-vacuity: three calls, the third reuses the buffer the first handed back -/
example : ((Pool.run 1 {} [.acquire 0, .acquire 1, .release 0, .acquire 2]).map (fun p => (p.held, p.free, p.next))) =
    some ([(2, 0), (1, 1)], [], 2) := by decide

/-- non-vacuity (A): 10 bytes, budget 2: 3 accepted + temporary error, 0 + temporary, then 7 -/
example : contract [1,2,3,4,5,6,7,8,9,10] 2 [⟨3, some .temp⟩, ⟨0, some .temp⟩, ⟨7, none⟩] ∧
    (writeRetry [1,2,3,4,5,6,7,8,9,10] 2 [⟨3, some .temp⟩, ⟨0, some .temp⟩, ⟨7, none⟩]).offered
      = [[1,2,3,4,5,6,7,8,9,10], [4,5,6,7,8,9,10], [4,5,6,7,8,9,10]] := by
  refine ⟨?_, by decide⟩
  simp [contract, Outcome.ok]

/-- non-vacuity (A'): a 5000-octet message written directly, 100 octets accepted with a temporary
    error, two retries: the transport holds those 100 octets and nothing else; the call fails -/
example :
    let b : Bytes := List.replicate 5000 7
    let res := connWriteRetry 2 {} b [⟨100, some .temp⟩]
    res.accepted.flatten.length = 100 ∧ res.err = some .temp ∧ res.attempts = 3 := by
  decide +kernel

/-- non-vacuity (B): two writers, the second blocked while the first's write is stalled half-way -/
example :
    let prog : Nat → List Bytes := fun i => if i = 0 then [[1,2,3,4]] else if i = 1 then [[9,9]] else []
    (((WSys.init prog).run [.start 0, .start 1, .acquire 0, .xfer 0 2, .acquire 1]).isNone) ∧
    (((WSys.init prog).run [.start 0, .start 1, .acquire 0, .xfer 0 2, .xfer 0 2, .release 0, .acquire 1, .xfer 1 2, .release 1]).map (·.wire)) = some [1,2,3,4,9,9] := by
  decide

end DV.Props.C07
