import Model
import Spec
import Gen
import Proofs.Client
import Proofs.SM
import Proofs.ConnWrite
/-!
  C13 — the watchdog detects a silent peer and spares a responsive one.
  `Model.Client.WD`: the watchdog goroutine (`select {disconnect, WatchdogInterval}`), `dwr()`
  (drain, then write DWR; `select {dwac, RetransmitInterval}`; MaxRetransmits+1 rounds; Close),
  the reader handling DWAs (`handleDWA`: non-blocking send on `dwac`). `rtTimer` - the
  retransmission timer branch - is enabled only when no ack is waiting: an answer that is there
  before the timer fires is taken. Server side: `handleDWR` of `Model.SM`.
-/
namespace DV.Props.C13
open DV

/-- the watchdog as the current source configures it -/
def cur (R : Nat) : WD := WD.init R Gen.capDwac Gen.dwrDrainsFirst

theorem cur_inv (R : Nat) : WdInv (cur R) := by
  have h1 : Gen.capDwac = 1 := by decide
  unfold cur; rw [h1]; exact WdInv_init R 1 _ (by omega)

theorem run_R : ∀ (es : List WdEv) (a b : WD), a.run es = some b → b.R = a.R := by
  intro es
  induction es with
  | nil => intro a b hr; simp [WD.run] at hr; subst hr; rfl
  | cons e es ih =>
    intro a b hr
    simp only [WD.run] at hr
    cases hst : a.step e with
    | none => simp [hst] at hr
    | some a1 =>
      simp only [hst] at hr
      rw [ih a1 b hr]
      cases e <;> simp only [WD.step] at hst <;> (repeat' split at hst) <;> simp_all <;> (try (subst hst; rfl))

/-- (i) one `dwr()` call writes at most MaxRetransmits+1 DWRs (all the same message: `makeDWR`
    is called once, before the loop - `C13_gen`) -/
theorem C13_bound (R : Nat) (es : List WdEv) (s : WD) (h : (cur R).run es = some s) : s.cycleDwrs ≤ R + 1 := by
  have inv := WdInv_run es _ s (cur_inv R) h
  have := inv.le
  rw [run_R es _ s h] at this
  exact this

/-- (ii) A responsive peer is spared: an answer is never lost - whenever a success DWA has been
    handled since the current `dwr()` call wrote its first DWR (however early: between the write
    returning and `dwr()` reaching its select included), the ack is waiting in `dwac` when
    `dwr()` selects, so the retransmission timer branch is not taken; -/
theorem C13_ack_not_lost (R : Nat) (es : List WdEv) (s : WD) (h : (cur R).run es = some s) (i : Nat)
    (hp : s.pc = .selecting i) (ha : s.answered = true) :
    (s.step .ack).isSome = true ∧ s.step .rtTimer = none := by
  have inv := WdInv_run es _ s (cur_inv R) h
  have hd := inv.ans ha ⟨i, Or.inr hp⟩
  have hpos : s.dwac > 0 := by omega
  simp [WD.step, hp, hpos]

/-- ... and the watchdog closes the connection only at the end of a `dwr()` call in which all
    MaxRetransmits+1 DWRs were written, MaxRetransmits+1 retransmission timers expired and no
    success answer was handled after its first DWR. -/
theorem C13_responsive (R : Nat) (es : List WdEv) (s : WD) (h : (cur R).run es = some s) (hc : s.closedByWD = true) :
    s.cycleDwrs = R + 1 ∧ s.cycleTimers = R + 1 ∧ s.answeredAtClose = false := by
  have inv := WdInv_run es _ s (cur_inv R) h
  have := inv.closed hc
  rw [run_R es _ s h] at this
  exact ⟨this.1, this.2.1, this.2.2.1⟩

/-- (iii) A silent peer is detected: from the start of a `dwr()` call, if no success DWA arrives,
    exactly MaxRetransmits+1 rounds of (DWR, timer expiry) follow - i.e. MaxRetransmits
    retransmissions - and the last expiry closes the connection. -/
theorem C13_silent (R : Nat) (s : WD) (hp : s.pc = .writing 0) (hd : s.dwac = 0) (hg : s.gone = false) (hR : s.R = R) :
    ∃ s', s.run (silentRounds (R + 1)) = some s' ∧ s'.closedByWD = true ∧
      s'.cycleDwrs = s.cycleDwrs + (R + 1) ∧ s'.cycleTimers = s.cycleTimers + (R + 1) := by
  obtain ⟨s', h1, h2, h3, h4, _⟩ := silent_run (R + 1) s 0 hp hd hg (by omega) (by omega)
  exact ⟨s', h1, h2, h3, h4⟩

/-- a DWA with a failure result code counts as no answer: it changes nothing -/
theorem C13_failure_dwa_ignored (s : WD) (hg : s.gone = false) : s.step .dwaFail = some s := by
  simp [WD.step, hg]

/-- every `dwr()` call starts without a left-over ack: the channel holds at most one value
    (its regenerated capacity) and `dwr()` discards one before its first DWR - so an answer that
    was late for the previous cycle, or one of several answers to the same DWR, cannot be mistaken
    for an answer to a request that has not been sent yet -/
theorem C13_drained (R : Nat) (es : List WdEv) (s s' : WD) (h : (cur R).run es = some s)
    (hs : s.step .wdTimer = some s') : s'.dwac = 0 ∧ s'.pc = .writing 0 ∧ s'.answered = false := by
  have inv := WdInv_run es _ s (cur_inv R) h
  have hle := inv.dwacLe
  have hcap : s.cap = 1 := by
    have : ∀ (es : List WdEv) (a b : WD), a.run es = some b → b.cap = a.cap ∧ b.drain = a.drain := by
      intro es
      induction es with
      | nil => intro a b hr; simp [WD.run] at hr; subst hr; exact ⟨rfl, rfl⟩
      | cons e es ih =>
        intro a b hr
        simp only [WD.run] at hr
        cases hst : a.step e with
        | none => simp [hst] at hr
        | some a1 =>
          simp only [hst] at hr
          obtain ⟨i1, i2⟩ := ih a1 b hr
          rw [i1, i2]
          cases e <;> simp only [WD.step] at hst <;> (repeat' split at hst) <;> simp_all <;> (try (subst hst; exact ⟨rfl, rfl⟩))
    rw [(this es _ s h).1]; show Gen.capDwac = 1; decide
  have hdr : s.drain = true := by
    have : ∀ (es : List WdEv) (a b : WD), a.run es = some b → b.drain = a.drain := by
      intro es
      induction es with
      | nil => intro a b hr; simp [WD.run] at hr; subst hr; rfl
      | cons e es ih =>
        intro a b hr
        simp only [WD.run] at hr
        cases hst : a.step e with
        | none => simp [hst] at hr
        | some a1 =>
          simp only [hst] at hr
          rw [ih a1 b hr]
          cases e <;> simp only [WD.step] at hst <;> (repeat' split at hst) <;> simp_all <;> (try (subst hst; rfl))
    rw [this es _ s h]; show Gen.dwrDrainsFirst = true; decide
  simp only [WD.step] at hs
  split at hs
  · cases hs; simp [hdr]; omega
  · cases hs

/-- The model distinguishes: with an unbuffered `dwac` (the code before the repair 0b4f180) a
    success DWA handled before `dwr()` reaches its select is dropped, and with MaxRetransmits 0
    a peer that answered is disconnected. -/
theorem C13_lost_ack_counterexample :
    ((WD.init 0 0 false).run [.wdTimer, .writeOk, .dwaOk, .rtTimer]).map
      (fun s => (s.closedByWD, s.answeredAtClose)) = some (true, true) := by decide

/-- (iv) server side: a DWR naming Origin-Host and Origin-Realm from a peer that completed the
    handshake is answered with Result-Code 2001, the local identity (with the configured
    Origin-State-Id) and the request's identifiers, application id and command (the answer header
    mirrors the request) -/
theorem C13_dwa (cfg : Settings) (req : Header) :
    (dwa cfg req).hdr.hbh = req.hbh ∧ (dwa cfg req).hdr.e2e = req.e2e ∧ (dwa cfg req).hdr.app = req.app ∧
    (dwa cfg req).hdr.cmd = req.cmd ∧
    (dwa cfg req).avps = [newAVP C.resultCode 64 0 (.fix T.u32 2001),
      newAVP C.originHost 64 0 (.str T.ident cfg.originHost), newAVP C.originRealm 64 0 (.str T.ident cfg.originRealm)]
      ++ (if cfg.originStateId ≠ 0 then [newAVP C.originStateId 64 0 (.fix T.u32 cfg.originStateId)] else []) := by
  by_cases h : cfg.originStateId = 0 <;> simp [dwa, mkMsg, answerHdr, Msg.addAVP, h]

/-- Several connections of one `sm.Client` share the state machine's mux and so its DWA handler.
    With the handler finding the watchdog in the context of the connection the answer arrived on
    (`Gen.handshakeAnswerHandlers`), every connection is credited exactly the answers that arrived
    on it - for every interleaving of handshakes and answers on any number of connections; the
    single-connection theorems above therefore apply to each of them. -/
theorem C13_answers_by_connection (es : List ShareEv) (s : ShareState) (k : Nat) (hk : k < s.acks.length) :
    (s.run true es).acks.getD k 0 = s.acks.getD k 0 + answersOn k es :=
  (share_byConn es s k hk).1

/-- ... whereas handlers bound to the channels of the latest handshake (the source before the
    repair 5fd1923) credit the first connection's answer to the second: a peer that answered is
    taken for silent -/
theorem C13_latest_handshake_counterexample :
    (({} : ShareState).run false [.handshake, .handshake, .answer 0]).acks = [0, 1] := by decide

/-- structural facts regenerated from client.go / dwa.go -/
theorem C13_gen : Gen.handshakeAnswerHandlers =
      ["\"CEA\"=handleCEA(cli.Handler,nil)", "\"DWA\"=handshakeOK(handleDWA(cli.Handler,nil))"] ∧
    Gen.capDwac = 1 ∧ Gen.dwrDrainsFirst = true ∧ Gen.dwaSendNonBlocking = true ∧
    Gen.dwrMakeDWR = ([], ["cli.makeDWR(osid)"]) ∧ Gen.dwrWrites = ["m.WriteToStream(c,cli.WatchdogStream)"] ∧
    Gen.dwrCloses = (0, 1) ∧ Gen.dwrLoopCond = "(i<((int(cli.MaxRetransmits)+1)))" ∧
    -- one watchdog cycle per WatchdogInterval; each DWR waits RetransmitInterval for its answer
    Gen.clientTimers.filter (fun t => t.1 ≠ "handshake") =
      [("watchdog", "cli.WatchdogInterval"), ("dwr", "cli.RetransmitInterval")] ∧
    -- `handleDWR` parses, answers from the request, writes; `handleDWA` parses and acknowledges to
    -- the connection's own state: no further condition on the message (`dwa`, `WD.step`)
    Gen.handleDWRCalls = ["new", "dwr.Parse", "sm.Error", "m.Answer", "a.NewAVP", "a.NewAVP", "datatype.Unsigned32",
      "a.NewAVP", "a.WriteTo", "sm.Error"] ∧
    Gen.handleDWACalls = ["new", "dwa.Parse", "sm.Error", "clientConnStateOf"] := by decide

/-- non-vacuity: budget 1; first cycle answered early (before the select), second cycle
    answered on the retransmission, third cycle silent: closed after two DWRs -/
example : ((cur 1).run [.wdTimer, .writeOk, .dwaOk, .ack, .wdTimer, .writeOk, .rtTimer, .writeOk, .dwaOkWaiting, .ack,
      .wdTimer, .writeOk, .dwaFail, .rtTimer, .writeOk, .rtTimer]).map
    (fun s => (s.closedByWD, s.cycles, s.cycleDwrs, s.answeredAtClose)) = some (true, 3, 2, false) := by
  decide

end DV.Props.C13
