import Model
import Spec
import Gen
import Model.Mux
import Spec.Dispatch
import Proofs.Dict
/-!
  C09 — dispatch selects the handler by index, then by name, then the catch-all.
-/
namespace DV.Props.C09
open DV DV.Spec

/-- an association list built by prepending answers a lookup with the LAST matching insertion -/
theorem idx_lookup (k : Nat × Nat × Bool) : ∀ (rs : List Reg) (mux : Mux),
    alookup k (rs.foldl Mux.reg mux).idxMap =
      (match lastReg (fun r => match r with
          | .idx a c q h => if (a, c, q) = k then some h else none
          | .all h => if allIdx = k then some h else none
          | _ => none) rs with
       | some h => some h
       | none => alookup k mux.idxMap) := by
  intro rs
  induction rs with
  | nil => intro mux; simp [lastReg]
  | cons r rs ih =>
    intro mux
    simp only [List.foldl_cons, lastReg]
    rw [ih]
    cases hl : lastReg (fun r => match r with
          | .idx a c q h => if (a, c, q) = k then some h else none
          | .all h => if allIdx = k then some h else none
          | _ => none) rs with
    | some h => rfl
    | none =>
      simp only []
      cases r with
      | name s x h => simp [Mux.reg]
      | idx a c q h =>
        simp only [Mux.reg, alookup]
        by_cases e : (a, c, q) = k <;> simp [e]
      | all h =>
        simp only [Mux.reg, alookup]
        by_cases e : allIdx = k <;> simp [e]

theorem name_lookup (k : Nat × Nat) : ∀ (rs : List Reg) (mux : Mux),
    alookup k (rs.foldl Mux.reg mux).m =
      (match lastReg (fun r => match r with
          | .name s x h => if (s, x) = k then some h else none
          | _ => none) rs with
       | some h => some h
       | none => alookup k mux.m) := by
  intro rs
  induction rs with
  | nil => intro mux; simp [lastReg]
  | cons r rs ih =>
    intro mux
    simp only [List.foldl_cons, lastReg]
    rw [ih]
    cases hl : lastReg (fun r => match r with
          | .name s x h => if (s, x) = k then some h else none
          | _ => none) rs with
    | some h => rfl
    | none =>
      simp only []
      cases r with
      | name s x h =>
        simp only [Mux.reg, alookup]
        by_cases e : (s, x) = k <;> simp [e]
      | idx a c q h => simp [Mux.reg]
      | all h => simp [Mux.reg]

theorem byIdx_eq (app code : Nat) (req : Bool) :
    byIdx app code req = (fun r => match r with
          | .idx a c q h => if (a, c, q) = (app, code, req) then some h else none
          | .all h => if allIdx = (app, code, req) then some h else none
          | _ => none) := by
  funext r; cases r <;> rfl

theorem byAll_eq :
    byAll = (fun r => match r with
          | .idx a c q h => if (a, c, q) = allIdx then some h else none
          | .all h => if allIdx = allIdx then some h else none
          | _ => none) := by
  funext r; cases r <;> simp [byAll]

theorem byName_eq (s : Nat) (req : Bool) :
    byName s req = (fun r => match r with
          | .name s' x h => if (s', x) = (s, if req then 0 else 1) then some h else none
          | _ => none) := by
  funext r; cases r <;> rfl

/-- For EVERY sequence of registrations (re-registrations included) and every message: the
    multiplexer calls the handler last registered for the exact (application, code, R bit);
    failing that the one last registered under the command's short name + R/A; failing that the
    last catch-all; failing that it offers an error report - and nothing else. A message whose
    command the dictionary does not resolve goes to the catch-all / report. -/
theorem C09_decision (rs : List Reg) (short : Option Nat) (app code : Nat) (req : Bool) :
    (Mux.ofRegs rs).dispatch short app code req = Spec.dispatch rs short app code req := by
  unfold Mux.dispatch Spec.dispatch Mux.catchAll Mux.ofRegs
  have hAll := idx_lookup allIdx rs {}
  rw [← byAll_eq] at hAll
  cases short with
  | none =>
    simp only []
    rw [hAll]
    cases lastReg byAll rs <;> simp [alookup]
  | some s =>
    simp only []
    have hI := idx_lookup (app, code, req) rs {}
    rw [← byIdx_eq] at hI
    have hN := name_lookup (s, if req then 0 else 1) rs {}
    rw [← byName_eq] at hN
    rw [hI, hN, hAll]
    cases lastReg (byIdx app code req) rs <;> cases lastReg (byName s req) rs <;> cases lastReg byAll rs <;> simp [alookup]

/-- no other handler is ever called: the handler dispatched was registered, by a registration
    that applies to the message -/
theorem lastReg_mem (p : Reg → Option Nat) : ∀ (rs : List Reg) (h : Nat), lastReg p rs = some h → ∃ r ∈ rs, p r = some h
  | [], h, hh => by simp [lastReg] at hh
  | r :: rs, h, hh => by
    simp only [lastReg] at hh
    cases hl : lastReg p rs with
    | some h' =>
      rw [hl] at hh
      simp only [Option.some.injEq] at hh
      obtain ⟨r', hr', hp⟩ := lastReg_mem p rs h' hl
      exact ⟨r', List.mem_cons_of_mem _ hr', by rw [hp, hh]⟩
    | none =>
      rw [hl] at hh
      exact ⟨r, List.mem_cons_self, hh⟩

theorem C09_only_registered (rs : List Reg) (short : Option Nat) (app code : Nat) (req : Bool) (h : Nat)
    (hd : (Mux.ofRegs rs).dispatch short app code req = .handler h) :
    ∃ r ∈ rs, (byIdx app code req r = some h ∨ (∃ s, short = some s ∧ byName s req r = some h) ∨ byAll r = some h) := by
  rw [C09_decision] at hd
  unfold Spec.dispatch at hd
  cases short with
  | none =>
    simp only [] at hd
    cases hl : lastReg byAll rs with
    | none => rw [hl] at hd; cases hd
    | some h' =>
      rw [hl] at hd; simp only [Dispatch.handler.injEq] at hd; subst hd
      obtain ⟨r, hr, hp⟩ := lastReg_mem _ rs h' hl
      exact ⟨r, hr, Or.inr (Or.inr hp)⟩
  | some s =>
    simp only [] at hd
    cases hi : lastReg (byIdx app code req) rs with
    | some h' =>
      rw [hi] at hd; simp only [Dispatch.handler.injEq] at hd; subst hd
      obtain ⟨r, hr, hp⟩ := lastReg_mem _ rs h' hi
      exact ⟨r, hr, Or.inl hp⟩
    | none =>
      rw [hi] at hd
      simp only [] at hd
      cases hn : lastReg (byName s req) rs with
      | some h' =>
        rw [hn] at hd; simp only [Dispatch.handler.injEq] at hd; subst hd
        obtain ⟨r, hr, hp⟩ := lastReg_mem _ rs h' hn
        exact ⟨r, hr, Or.inr (Or.inl ⟨s, rfl, hp⟩)⟩
      | none =>
        rw [hn] at hd
        simp only [] at hd
        cases hl : lastReg byAll rs with
        | none => rw [hl] at hd; cases hd
        | some h' =>
          rw [hl] at hd; simp only [Dispatch.handler.injEq] at hd; subst hd
          obtain ⟨r, hr, hp⟩ := lastReg_mem _ rs h' hl
          exact ⟨r, hr, Or.inr (Or.inr hp)⟩

/-- registering a key again replaces the earlier handler -/
theorem C09_lastwins (rs : List Reg) (app code : Nat) (req : Bool) (h : Nat) (s : Option Nat) (hs : s.isSome) :
    (Mux.ofRegs (rs ++ [.idx app code req h])).dispatch s app code req = .handler h := by
  rw [C09_decision]
  cases s with
  | none => simp at hs
  | some s =>
    have : lastReg (byIdx app code req) (rs ++ [.idx app code req h]) = some h := by
      induction rs with
      | nil => simp [lastReg, byIdx]
      | cons r rs ih => simp [lastReg, ih]
    simp [Spec.dispatch, this]

/-- end to end, dictionary included: for EVERY list of dictionary files loaded, every sequence of
    registrations and every message, what `ServeDIAM` does is the decision table applied to the
    short name that the *log* of definitions gives the command - the latest definition in the
    message's own application, else the latest in the base application (C17) -/
theorem C09_serve (available : List (Nat × Nat)) (fs : List FileRow) (rs : List Reg) (app code : Nat) (req : Bool) :
    (Mux.ofRegs rs).serve (Parser.loadAll available fs) app code req =
      Spec.dispatch rs ((Spec.findCommand (logAll available fs) app code).map (·.short)) app code req := by
  unfold Mux.serve
  rw [C09_decision, findCommand_refines _ _ (loadAll_refines available fs) app code]

/-- the catch-all has one key: registering it through `HandleIdx(ALL_CMD_INDEX, h)` or through
    `Handle("ALL", h)` is the same registration, so either replaces the other -/
theorem C09_all_one_key (mux : Mux) (h : Nat) :
    mux.reg (.idx allIdx.1 allIdx.2.1 allIdx.2.2 h) = mux.reg (.all h) := rfl

theorem C09_all_replaced_across_apis (rs : List Reg) (h h' : Nat) (short : Option Nat) (app code : Nat) (req : Bool)
    (hi : lastReg (byIdx app code req) (rs ++ [.all h, .idx allIdx.1 allIdx.2.1 allIdx.2.2 h']) = none)
    (hn : ∀ s, short = some s → lastReg (byName s req) (rs ++ [.all h, .idx allIdx.1 allIdx.2.1 allIdx.2.2 h']) = none) :
    (Mux.ofRegs (rs ++ [.all h, .idx allIdx.1 allIdx.2.1 allIdx.2.2 h'])).dispatch short app code req = .handler h' := by
  rw [C09_decision]
  have hall : lastReg byAll (rs ++ [.all h, .idx allIdx.1 allIdx.2.1 allIdx.2.2 h']) = some h' := by
    induction rs with
    | nil => simp [lastReg, byAll, allIdx]
    | cons r rs ih =>
      have ih' := ih (by
        simp only [List.cons_append, lastReg] at hi
        cases hl : lastReg (byIdx app code req) (rs ++ [Reg.all h, Reg.idx allIdx.1 allIdx.2.1 allIdx.2.2 h']) with
        | none => rfl
        | some x => rw [hl] at hi; cases hi) (by
        intro s hs
        have := hn s hs
        simp only [List.cons_append, lastReg] at this
        cases hl : lastReg (byName s req) (rs ++ [Reg.all h, Reg.idx allIdx.1 allIdx.2.1 allIdx.2.2 h']) with
        | none => rfl
        | some x => rw [hl] at this; cases this)
      simp only [List.cons_append, lastReg, ih']
  unfold Spec.dispatch
  cases short with
  | none => simp [hall]
  | some s => simp [hi, hn s rfl, hall]

theorem C09_gen : Gen.allCmdIndex = (4294967295, 4294967295, 0) ∧ Gen.capErrorReports = 1 ∧
    Gen.muxServeRLockDeferred = true ∧
    -- the dispatch consults exactly these maps with exactly these keys, in this order (`Mux.dispatch`):
    -- the index map with the message's own key, the name map, the index map with ALL_CMD_INDEX
    Gen.muxDispatchLookups = ["ServeDIAM:mux.idxMap[idx]", "serveIdx:mux.idxMap[cmd]", "serveIdx:mux.idxMap[ALL_CMD_INDEX]",
      "serve:mux.m[cmd]", "serve:mux.idxMap[ALL_CMD_INDEX]"] ∧
    Gen.muxStructFields = ["e chan *ErrorReport", "mu sync.RWMutex", "m map", "idxMap map"] := by decide

/-- non-vacuity: index beats name beats ALL; re-registration replaces -/
example :
    (Mux.ofRegs [.all 3, .name 7 0 2, .idx 4 272 true 1, .idx 4 272 true 9]).dispatch (some 7) 4 272 true = .handler 9 ∧
    (Mux.ofRegs [.all 3, .name 7 0 2]).dispatch (some 7) 4 272 true = .handler 2 ∧
    (Mux.ofRegs [.all 3, .name 7 0 2]).dispatch (some 7) 4 272 false = .handler 3 ∧
    (Mux.ofRegs [.name 7 0 2]).dispatch none 4 999 true = .report := by decide

end DV.Props.C09
