import Model
import Spec
import Gen
import Model.Mux
import Spec.Dispatch
/-!
  C09 — dispatch selects the handler by index, then by name, then the catch-all.
-/
namespace DV.Props.C09
open DV DV.Spec

/-- an association list built by prepending answers a lookup with the LAST matching insertion -/
theorem idx_lookup (k : Nat × Nat × Bool) : ∀ (rs : List Reg) (mux : Mux),
    alookup k (rs.foldl Mux.reg mux).idxMap =
      (match lastReg (fun r => match r with
          | .idx a c q h => if (a, c, q) = k then some h else none
          | .all h => if allIdx = k then some h else none
          | _ => none) rs with
       | some h => some h
       | none => alookup k mux.idxMap) := by
  intro rs
  induction rs with
  | nil => intro mux; simp [lastReg]
  | cons r rs ih =>
    intro mux
    simp only [List.foldl_cons, lastReg]
    rw [ih]
    cases hl : lastReg (fun r => match r with
          | .idx a c q h => if (a, c, q) = k then some h else none
          | .all h => if allIdx = k then some h else none
          | _ => none) rs with
    | some h => rfl
    | none =>
      simp only []
      cases r with
      | name s x h => simp [Mux.reg]
      | idx a c q h =>
        simp only [Mux.reg, alookup]
        by_cases e : (a, c, q) = k <;> simp [e]
      | all h =>
        simp only [Mux.reg, alookup]
        by_cases e : allIdx = k <;> simp [e]

theorem name_lookup (k : Nat × Nat) : ∀ (rs : List Reg) (mux : Mux),
    alookup k (rs.foldl Mux.reg mux).m =
      (match lastReg (fun r => match r with
          | .name s x h => if (s, x) = k then some h else none
          | _ => none) rs with
       | some h => some h
       | none => alookup k mux.m) := by
  intro rs
  induction rs with
  | nil => intro mux; simp [lastReg]
  | cons r rs ih =>
    intro mux
    simp only [List.foldl_cons, lastReg]
    rw [ih]
    cases hl : lastReg (fun r => match r with
          | .name s x h => if (s, x) = k then some h else none
          | _ => none) rs with
    | some h => rfl
    | none =>
      simp only []
      cases r with
      | name s x h =>
        simp only [Mux.reg, alookup]
        by_cases e : (s, x) = k <;> simp [e]
      | idx a c q h => simp [Mux.reg]
      | all h => simp [Mux.reg]

theorem byIdx_eq (app code : Nat) (req : Bool) :
    byIdx app code req = (fun r => match r with
          | .idx a c q h => if (a, c, q) = (app, code, req) then some h else none
          | .all h => if allIdx = (app, code, req) then some h else none
          | _ => none) := by
  funext r; cases r <;> rfl

theorem byAll_eq :
    byAll = (fun r => match r with
          | .idx a c q h => if (a, c, q) = allIdx then some h else none
          | .all h => if allIdx = allIdx then some h else none
          | _ => none) := by
  funext r; cases r <;> simp [byAll]

theorem byName_eq (s : Nat) (req : Bool) :
    byName s req = (fun r => match r with
          | .name s' x h => if (s', x) = (s, if req then 0 else 1) then some h else none
          | _ => none) := by
  funext r; cases r <;> rfl

/-- For EVERY sequence of registrations (re-registrations included) and every message: the
    multiplexer calls the handler last registered for the exact (application, code, R bit);
    failing that the one last registered under the command's short name + R/A; failing that the
    last catch-all; failing that it offers an error report - and nothing else. A message whose
    command the dictionary does not resolve goes to the catch-all / report. -/
theorem C09_decision (rs : List Reg) (short : Option Nat) (app code : Nat) (req : Bool) :
    (Mux.ofRegs rs).dispatch short app code req = Spec.dispatch rs short app code req := by
  unfold Mux.dispatch Spec.dispatch Mux.catchAll Mux.ofRegs
  have hAll := idx_lookup allIdx rs {}
  rw [← byAll_eq] at hAll
  cases short with
  | none =>
    simp only []
    rw [hAll]
    cases lastReg byAll rs <;> simp [alookup]
  | some s =>
    simp only []
    have hI := idx_lookup (app, code, req) rs {}
    rw [← byIdx_eq] at hI
    have hN := name_lookup (s, if req then 0 else 1) rs {}
    rw [← byName_eq] at hN
    rw [hI, hN, hAll]
    cases lastReg (byIdx app code req) rs <;> cases lastReg (byName s req) rs <;> cases lastReg byAll rs <;> simp [alookup]

/-- no other handler is ever called: the handler dispatched was registered, by a registration
    that applies to the message -/
theorem lastReg_mem (p : Reg → Option Nat) : ∀ (rs : List Reg) (h : Nat), lastReg p rs = some h → ∃ r ∈ rs, p r = some h
  | [], h, hh => by simp [lastReg] at hh
  | r :: rs, h, hh => by
    simp only [lastReg] at hh
    cases hl : lastReg p rs with
    | some h' =>
      rw [hl] at hh
      simp only [Option.some.injEq] at hh
      obtain ⟨r', hr', hp⟩ := lastReg_mem p rs h' hl
      exact ⟨r', List.mem_cons_of_mem _ hr', by rw [hp, hh]⟩
    | none =>
      rw [hl] at hh
      exact ⟨r, List.mem_cons_self, hh⟩

theorem C09_only_registered (rs : List Reg) (short : Option Nat) (app code : Nat) (req : Bool) (h : Nat)
    (hd : (Mux.ofRegs rs).dispatch short app code req = .handler h) :
    ∃ r ∈ rs, (byIdx app code req r = some h ∨ (∃ s, short = some s ∧ byName s req r = some h) ∨ byAll r = some h) := by
  rw [C09_decision] at hd
  unfold Spec.dispatch at hd
  cases short with
  | none =>
    simp only [] at hd
    cases hl : lastReg byAll rs with
    | none => rw [hl] at hd; cases hd
    | some h' =>
      rw [hl] at hd; simp only [Dispatch.handler.injEq] at hd; subst hd
      obtain ⟨r, hr, hp⟩ := lastReg_mem _ rs h' hl
      exact ⟨r, hr, Or.inr (Or.inr hp)⟩
  | some s =>
    simp only [] at hd
    cases hi : lastReg (byIdx app code req) rs with
    | some h' =>
      rw [hi] at hd; simp only [Dispatch.handler.injEq] at hd; subst hd
      obtain ⟨r, hr, hp⟩ := lastReg_mem _ rs h' hi
      exact ⟨r, hr, Or.inl hp⟩
    | none =>
      rw [hi] at hd
      simp only [] at hd
      cases hn : lastReg (byName s req) rs with
      | some h' =>
        rw [hn] at hd; simp only [Dispatch.handler.injEq] at hd; subst hd
        obtain ⟨r, hr, hp⟩ := lastReg_mem _ rs h' hn
        exact ⟨r, hr, Or.inr (Or.inl ⟨s, rfl, hp⟩)⟩
      | none =>
        rw [hn] at hd
        simp only [] at hd
        cases hl : lastReg byAll rs with
        | none => rw [hl] at hd; cases hd
        | some h' =>
          rw [hl] at hd; simp only [Dispatch.handler.injEq] at hd; subst hd
          obtain ⟨r, hr, hp⟩ := lastReg_mem _ rs h' hl
          exact ⟨r, hr, Or.inr (Or.inr hp)⟩

/-- registering a key again replaces the earlier handler -/
theorem C09_lastwins (rs : List Reg) (app code : Nat) (req : Bool) (h : Nat) (s : Option Nat) (hs : s.isSome) :
    (Mux.ofRegs (rs ++ [.idx app code req h])).dispatch s app code req = .handler h := by
  rw [C09_decision]
  cases s with
  | none => simp at hs
  | some s =>
    have : lastReg (byIdx app code req) (rs ++ [.idx app code req h]) = some h := by
      induction rs with
      | nil => simp [lastReg, byIdx]
      | cons r rs ih => simp [lastReg, ih]
    simp [Spec.dispatch, this]

theorem C09_gen : Gen.allCmdIndex = (4294967295, 4294967295, 0) ∧ Gen.capErrorReports = 1 ∧
    Gen.muxServeRLockDeferred = true := by decide

/-- non-vacuity: index beats name beats ALL; re-registration replaces -/
example :
    (Mux.ofRegs [.all 3, .name 7 0 2, .idx 4 272 true 1, .idx 4 272 true 9]).dispatch (some 7) 4 272 true = .handler 9 ∧
    (Mux.ofRegs [.all 3, .name 7 0 2]).dispatch (some 7) 4 272 true = .handler 2 ∧
    (Mux.ofRegs [.all 3, .name 7 0 2]).dispatch (some 7) 4 272 false = .handler 3 ∧
    (Mux.ofRegs [.name 7 0 2]).dispatch none 4 999 true = .report := by decide

end DV.Props.C09
