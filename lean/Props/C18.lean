import Model
import Spec
import Gen
import Proofs.Reflect
import Proofs.ReflectInv
import Proofs.ReflectWire
import Props.C01
/-!
  C18 — struct marshalling and unmarshalling are inverse and dictionary-faithful.
  `Model.Reflect`: shapes of tagged Go structs (leaf Go types, pointers, slices, nested /
  anonymous / embedded structs, `diam.AVP` fields, `omitempty`), values of those shapes,
  `marshalStruct` / `marshal` and `scanStruct` / `unmarshal` branch by branch, Go's
  convertibility between the field types as `toData` / `fromData`.
-/
namespace DV.Props.C18
open DV DV.Spec

/-- Dictionary-faithful: for every struct shape without `diam.AVP`-typed fields, every value and
    every dictionary in which a code determines its entry, every AVP that `Marshal` produces - at
    every nesting depth - carries the code's dictionary entry: the entry's vendor id, the M flag
    iff Must contains "M", the V flag iff the entry has a vendor id, and no other flag.
    (Mutual induction over the shape; `diam.AVP` fields are the caller's own AVPs, passed through.) -/
theorem C18_faithful (find : FindFn) (byCode : Nat → Option DEnt)
    (hB : ∀ n e, entOf find n = some e → byCode e.code = some e)
    (fs : List SField) (vs : List RV) (as : List AVP) (hn : noAVPFields fs = true)
    (h : marshalStruct find fs vs = .ok as) : dictOKL byCode as = true :=
  marshalStruct_faithful find byCode hB fs vs as hn h

/-- the AVP built for one leaf field is the hand-built one: code, vendor id and flags from the
    dictionary entry, the field's value converted to the entry's data type -/
theorem C18_leaf (find : FindFn) (t : GoT) (v : GV) (e : DEnt) (d : Val) (hg : e.ty ≠ T.grouped)
    (hd : toData e.ty t v = some d) :
    marshalField find (.leaf t) (.leaf v) e = .ok [AVP.mk e.code (flagsOf e) 0 e.vendor d] := by
  simp [marshalField, hg, hd, mkFieldAVP, flagsOf]

/-- nil pointers and nil slices produce no AVP; an `omitempty` field that is empty is skipped -/
theorem C18_optional (find : FindFn) (s : Shape) (e : DEnt) (tag : FieldTag) (v : RV) :
    marshalField find (.ptr s) .nil e = .ok [] ∧ marshalField find (.slice s) .nil e = .ok [] ∧
    (tag.omitE = true → v.isEmpty = true → fieldOut find tag s v = .ok []) := by
  refine ⟨by simp [marshalField], by simp [marshalField], ?_⟩
  intro h1 h2; simp [fieldOut, h1, h2]

/-- the conversions are inverse on the values the well-formedness predicate admits: what a leaf
    field is converted to on the way out converts back to the same value -/
theorem C18_leaf_inverse (find : FindFn) (t : GoT) (v : GV) (e : DEnt) (hw : wfField find (.leaf t) (.leaf v) e = true)
    (cur : RV) :
    ∃ d, marshalField find (.leaf t) (.leaf v) e = .ok [mkFieldAVP e d] ∧
      unmarshalField find (.leaf t) [mkFieldAVP e d] cur = .leaf v := by
  simp only [wfField, Bool.and_eq_true] at hw
  obtain ⟨hg, hc⟩ := hw
  have hg' : e.ty ≠ T.grouped := by simpa using hg
  cases hd : toData e.ty t v with
  | none => simp [hd] at hc
  | some d =>
    simp only [hd, Option.bind_some] at hc
    have hc' : fromData t d = some v := by simpa using hc
    refine ⟨d, by simp [marshalField, hg', hd], ?_⟩
    simp [unmarshalField, mkFieldAVP, hc']

/-- The round trip, at full strength: for every dictionary, every struct shape and every value
    inside the well-formed fragment - tags resolve; the codes of one struct level (embedded
    structs flattened) are pairwise distinct; each leaf value survives its conversion pair;
    pointees and slice elements are non-nil values of one-AVP shapes; grouped AVPs are structs or
    `diam.AVP`s with the entry's code - `Marshal` succeeds, and `Unmarshal` of its output into a
    fresh struct yields the value in normal form: nil and empty slices identified, untagged
    fields and fields omitted because empty read back as their zero value, everything else -
    scalars of every data type, pointers, slices, nested, anonymous and embedded structs, AVP /
    *AVP / []*AVP fields - exactly as it was.  (Mutual structural induction over the shape.) -/
theorem C18_inverse (find : FindFn) (fs : List SField) (vs : List RV) (hw : wfStruct find fs vs = true)
    (hd : distinct (levelCodes find fs) = true) :
    ∃ as, marshalStruct find fs vs = .ok as ∧ scanFields find fs as (zeroOf.zeroFields fs) = normFields fs vs :=
  marshal_unmarshal find fs vs hw hd

/-- ... and the same after a wire round trip: if the marshalled AVPs are canonical values of the
    types the dictionary typing assigns (C01's hypothesis) and the struct has no `diam.AVP`-typed
    field, then decoding the serialised AVPs and unmarshalling them gives the same struct
    (composition with C01_api_avps: the tree read back is `wireL as`, and `Unmarshal` does not
    look at Length fields). -/
theorem C18_wire (find : FindFn) (ty : Nat → Nat → Nat) (fs : List SField) (vs : List RV)
    (hw : wfStruct find fs vs = true) (hd : distinct (levelCodes find fs) = true) (hn : noAVPFields fs = true) :
    ∃ as, marshalStruct find fs vs = .ok as ∧
      (canonL as = true → typedOkL ty as = true → lenL as < 16777216 →
        ∃ as', decodeAVPs ty ((encL as).length + 1) (encL as) = .ok as' ∧
          scanFields find fs as' (zeroOf.zeroFields fs) = normFields fs vs) := by
  obtain ⟨as, h1, h2⟩ := marshal_unmarshal find fs vs hw hd
  refine ⟨as, h1, fun hc ht hsz => ⟨wireL as, DV.Props.C01.C01_api_avps ty as hc ht hsz, ?_⟩⟩
  rw [scan_wire find fs as _ hn]; exact h2

/-- the hypothesis about distinct codes is needed: two fields of one struct naming the same AVP
    both receive all AVPs with that code (kernel-evaluated) -/
theorem C18_duplicate_code_counterexample :
    let find : FindFn := fun n => if n = 1 then some (9007, 0, true, T.u32) else none
    let fs : List SField := [.mk ⟨1, false, false⟩ (.leaf .uint32), .mk ⟨1, false, false⟩ (.leaf .uint32)]
    let vs : List RV := [.leaf (.i 5), .leaf (.i 6)]
    (match marshalStruct find fs vs with
     | .ok as => rvsBeq (scanFields find fs as (zeroOf.zeroFields fs)) [.leaf (.i 5), .leaf (.i 5)]
     | _ => false) = true := by
  decide

/-- non-vacuity / a kernel-evaluated instance of the statement: a struct with a string, an
    omitted empty field, a pointer to a nested struct with a slice, round-tripped -/
example :
    let find : FindFn := fun n => if n = 1 then some (9001, 0, true, T.octets) else if n = 2 then some (9007, 0, true, T.u32)
      else if n = 3 then some (9018, 10415, true, T.grouped) else none
    let inner : Shape := .struct [.mk ⟨2, false, false⟩ (.slice (.leaf .uint32)), .mk ⟨1, true, false⟩ (.leaf .string)]
    let fs : List SField := [.mk ⟨1, false, false⟩ (.leaf .string), .mk ⟨3, false, false⟩ (.ptr inner)]
    let vs : List RV := [.leaf (.s [104, 105]), .ptr (.struct [.slice [.leaf (.i 7), .leaf (.i 9)], .leaf (.s [])])]
    wfStruct find fs vs = true ∧ distinct (levelCodes find fs) = true ∧
    (match marshalStruct find fs vs with
     | .ok as => as.length == 2 && rvsBeq (scanFields find fs as (zeroOf.zeroFields fs)) (normFields fs vs)
     | _ => false) = true := by
  decide

end DV.Props.C18
