import Model
import Spec
import Gen
import Proofs.Alias
/-!
  C06 — a decoded message never changes after it has been returned.
  Memory model (`Model.Alias`): reader buffers with a pooled flag; a retained message = its
  decoded tree (owned) + the views some values may keep into the buffer it was decoded from;
  later activity = any sequence of further `ReadMessage` calls (each given ANY pooled buffer the
  `sync.Pool` may choose, or a new one), garbage collections and writes.
  `Gen.sliceKinded` lists every data type whose Go representation could be a view, with the
  aliasing class of its decoder as read from the source.
-/
namespace DV.Props.C06
open DV

abbrev genCfg : AliasCfg := genAliasCfg

/-- Every value of every message decoded by a configuration whose slice-typed decoders all copy
    is owned: no view into the read buffer is retained - for every dictionary typing, every body,
    every nesting depth (mutual induction over the AVP walk). -/
theorem C06_owned (cfg : AliasCfg) (hc : cfg.allCopy = true) (ty : Nat → Nat → Nat) (h : Header) (tree : List AVP)
    (i : Nat) (body : Bytes) : (retain cfg ty h tree i body).views = [] :=
  viewsAVPs_nil cfg hc ty _ _ _

/-- Hence whatever happens later - any number of reads on any connection with any choice of
    pooled buffer, garbage collections, writes - everything observable about the retained
    message (header, tree, every byte of every value) is unchanged. -/
theorem C06_unchanged (cfg : AliasCfg) (hc : cfg.allCopy = true) (ty : Nat → Nat → Nat) (h : Header) (tree : List AVP)
    (i : Nat) (body : Bytes) (mem : Mem) (ops : List AOp) :
    observe (runOps cfg mem ops) (retain cfg ty h tree i body) = observe mem (retain cfg ty h tree i body) :=
  observe_noviews _ _ _ (C06_owned cfg hc ty h tree i body)

/-- The other sufficient condition: a message decoded from a buffer that is not handed back to
    the pool (a private body buffer, or a body above the pooled size) is safe even if values are
    views - later reads only ever write into pooled buffers. -/
theorem C06_private_buffer (cfg : AliasCfg) (mem : Mem) (m : Retained) (b : Buf) (hb : mem[m.buf]? = some b)
    (hp : b.pooled = false) (ops : List AOp) : observe (runOps cfg mem ops) m = observe mem m :=
  observe_samebuf _ _ _ (by rw [runOps_unpooled cfg ops mem m.buf b hb hp, hb])

/-- The current source satisfies the hypothesis: every slice-kinded data type's decoder copies
    (the intermediate `datatype.Grouped` view is consumed by `DecodeGrouped`: `GroupedAVP` holds
    only `[]*AVP`); every string-kinded data type's decoder returns conversions of its argument
    to string types only (Go copies) and no codec file imports `unsafe` (the only way to build a
    string sharing memory with a slice); so `C06_unchanged` applies to it. -/
theorem C06_gen : genCfg.allCopy = true ∧ Gen.groupedAVPFields = ["[]*AVP"] ∧
    (Gen.sliceKinded.map (·.1)) = ["Address", "Grouped", "IPv4", "IPv6", "Unknown"] ∧
    Gen.decoderAliasing.all (fun r => r.2 = "copy") = true ∧
    Gen.stringDecoders.all (fun r => r.2 = "conversion") = true ∧ Gen.unsafeImports = [] ∧
    Gen.bodyBuffer = "pooled" ∧
    Gen.syncPools = ["diam:readerBufferPool", "diam:writerBufferPool"] := by decide

theorem C06_current (ty : Nat → Nat → Nat) (h : Header) (tree : List AVP) (i : Nat) (body : Bytes) (mem : Mem) (ops : List AOp) :
    observe (runOps genCfg mem ops) (retain genCfg ty h tree i body) = observe mem (retain genCfg ty h tree i body) :=
  C06_unchanged genCfg C06_gen.1 ty h tree i body mem ops

/-- The model distinguishes: with a decoder that returns a view (as `DecodeUnknown` did before
    the repair d7a2fc9) one later read that is given the same pooled buffer changes the retained
    message - the hypothesis of `C06_unchanged` is needed. -/
theorem C06_alias_counterexample :
    let cfg : AliasCfg := { unknown := true, address := false, ipv4 := false, ipv6 := false, bodyPooled := true }
    let ty : Nat → Nat → Nat := fun _ _ => T.unknown
    let body : Bytes := [0,0,0,99, 0, 0,0,12, 1,2,3,4]
    let mem : Mem := [{ data := overwrite (zeros 1024) body, pooled := true }]
    let hd : Header := { version := 1, len := 32, flags := 0, cmd := 0, app := 0, hbh := 0, e2e := 0 }
    let m := retain cfg ty hd [] 0 body
    m.views = [⟨8, 4⟩] ∧
    (observe mem m).2.2 = [[1,2,3,4]] ∧
    (observe (runOps cfg mem [.read 0 [0,0,0,98, 0, 0,0,12, 9,9,9,9]]) m).2.2 = [[9,9,9,9]] := by
  decide

/-- non-vacuity of `C06_unchanged`: the same history with the current configuration -/
example :
    let ty : Nat → Nat → Nat := fun _ _ => T.unknown
    let body : Bytes := [0,0,0,99, 0, 0,0,12, 1,2,3,4]
    let mem : Mem := [{ data := overwrite (zeros 1024) body, pooled := true }]
    let hd : Header := { version := 1, len := 32, flags := 0, cmd := 0, app := 0, hbh := 0, e2e := 0 }
    (retain genCfg ty hd [] 0 body).views = [] ∧
    ((runOps genCfg mem [.read 0 [0,0,0,98, 0, 0,0,12, 9,9,9,9]])[0]?.map (fun b => b.data.take 12)) =
      some [0,0,0,98, 0, 0,0,12, 9,9,9,9] := by
  decide

end DV.Props.C06
