import Model
import Spec
import Gen
