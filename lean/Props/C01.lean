import Model
import Spec
import Gen
import Proofs.RoundTrip
import Proofs.Header
import Proofs.WireRT
import Proofs.ApiMsg
/-!
  C01 — messages survive a wire round trip in both directions.
  API direction: proved at full strength (`C01_api_*`), for every dictionary, every header,
  every canonical tree of every data type, any nesting, any size below 2^24.
  Wire direction: the full statement is FALSE of the code for three Address shapes (theorems
  `C01_wire_counterexample_*`; replayed on the implementation and recorded as known findings);
  the statement stays visible as `C01_wire_Statement`.
-/
namespace DV.Props.C01
open DV DV.Spec

/-- API direction, AVP level. For every typing `ty`, every tree `as` of canonical values whose
    types are those `ty` assigns (`typedOkL`), of total size below 2^24: decoding the encoded
    bytes returns the same ordered tree - code, flags, vendor id, typed value, nesting - with
    every Length field filled in (`wireL`). -/
theorem C01_api_avps (ty : Nat → Nat → Nat) (as : List AVP)
    (hc : canonL as = true) (ht : typedOkL ty as = true) (hsz : lenL as < 16777216) :
    decodeAVPs ty ((encL as).length + 1) (encL as) = .ok (wireL as) := by
  rw [encL_length as hc]
  exact rt_list ty as hc ht hsz _ (Nat.le_refl _)

/-- ... and serialising what was read yields identical bytes. -/
theorem C01_api_reserialise (as : List AVP) : encL (wireL as) = encL as := (encL_wire as).1

/-- the tree read back differs from the one written in nothing but the Length fields, and
    reading it again changes nothing -/
theorem C01_api_same_tree (as : List AVP) : wireL (wireL as) = wireL as := wireL_idem as

/-- API direction, message level (`ReadMessage (Serialize m)`): any flag byte, any command the
    dictionary defines with rules for that R bit, any application / hop-by-hop / end-to-end id. -/
theorem C01_api_msg (d : DictFn) (m : Msg) (nreq nans : Nat)
    (hv : m.hdr.version < 256) (hf : m.hdr.flags < 256) (hcmd : m.hdr.cmd < 16777216)
    (happ : m.hdr.app < 4294967296) (hh : m.hdr.hbh < 4294967296) (he : m.hdr.e2e < 4294967296)
    (hlen : m.hdr.len = m.len) (hsz : m.len < 16777216)
    (hcmdr : d.cmdRules m.hdr.app m.hdr.cmd = some (nreq, nans))
    (hrules : (if isRequest m.hdr.flags then nreq else nans) ≠ 0)
    (hc : canonL m.avps = true) (ht : typedOkL (d.avpType m.hdr.app) m.avps = true) :
    decodeMsg d m.enc = .ok { hdr := m.hdr, avps := wireL m.avps } :=
  api_msg_rt d m nreq nans hv hf hcmd happ hh he hlen hsz hcmdr hrules hc ht

/-! ### wire direction -/

/-- The full wire-direction statement: every well-formed body that is read re-serialises to
    exactly its bytes. -/
def C01_wire_Statement : Prop :=
  ∀ (ty : Nat → Nat → Nat) (bs : Bytes) (as : List AVP),
    wfBody ty bs = true → decodeAVPs ty (bs.length + 1) bs = .ok as → encL as = bs

mutual
theorem valbeq_eq : ∀ x y : Val, x.beq y = true → x = y
  | .str t b, .str t' b', h => by simp [Val.beq] at h; rw [h.1, h.2]
  | .addr b, .addr b', h => by simp [Val.beq] at h; rw [h]
  | .ip4 b, .ip4 b', h => by simp [Val.beq] at h; rw [h]
  | .ip6 b, .ip6 b', h => by simp [Val.beq] at h; rw [h]
  | .fix t n, .fix t' n', h => by simp [Val.beq] at h; rw [h.1, h.2]
  | .time u, .time u', h => by simp [Val.beq] at h; rw [h]
  | .group as, .group as', h => by simp only [Val.beq] at h; rw [beqL_eq as as' h]
  | .str _ _, .addr _, h | .str _ _, .ip4 _, h | .str _ _, .ip6 _, h | .str _ _, .fix _ _, h
  | .str _ _, .time _, h | .str _ _, .group _, h => by simp [Val.beq] at h
  | .addr _, .str _ _, h | .addr _, .ip4 _, h | .addr _, .ip6 _, h | .addr _, .fix _ _, h
  | .addr _, .time _, h | .addr _, .group _, h => by simp [Val.beq] at h
  | .ip4 _, .str _ _, h | .ip4 _, .addr _, h | .ip4 _, .ip6 _, h | .ip4 _, .fix _ _, h
  | .ip4 _, .time _, h | .ip4 _, .group _, h => by simp [Val.beq] at h
  | .ip6 _, .str _ _, h | .ip6 _, .addr _, h | .ip6 _, .ip4 _, h | .ip6 _, .fix _ _, h
  | .ip6 _, .time _, h | .ip6 _, .group _, h => by simp [Val.beq] at h
  | .fix _ _, .str _ _, h | .fix _ _, .addr _, h | .fix _ _, .ip4 _, h | .fix _ _, .ip6 _, h
  | .fix _ _, .time _, h | .fix _ _, .group _, h => by simp [Val.beq] at h
  | .time _, .str _ _, h | .time _, .addr _, h | .time _, .ip4 _, h | .time _, .ip6 _, h
  | .time _, .fix _ _, h | .time _, .group _, h => by simp [Val.beq] at h
  | .group _, .str _ _, h | .group _, .addr _, h | .group _, .ip4 _, h | .group _, .ip6 _, h
  | .group _, .fix _ _, h | .group _, .time _, h => by simp [Val.beq] at h
theorem avpbeq_eq : ∀ x y : AVP, x.beq y = true → x = y
  | .mk c f l v d, .mk c' f' l' v' d', h => by
    simp only [AVP.beq, Bool.and_eq_true, beq_iff_eq] at h
    obtain ⟨⟨⟨⟨h1, h2⟩, h3⟩, h4⟩, h5⟩ := h
    rw [h1, h2, h3, h4, valbeq_eq d d' h5]
theorem beqL_eq : ∀ x y : List AVP, beqL x y = true → x = y
  | [], [], _ => rfl
  | a :: r, a' :: r', h => by
    simp only [beqL, Bool.and_eq_true] at h
    rw [avpbeq_eq a a' h.1, beqL_eq r r' h.2]
  | [], _ :: _, h => by simp [beqL] at h
  | _ :: _, [], h => by simp [beqL] at h
end

theorem okIs_eq (r : Res (List AVP)) (as : List AVP) (h : okIs r as = true) : r = .ok as := by
  cases r with
  | ok x => simp only [okIs] at h; rw [beqL_eq x as h]
  | err e => simp [okIs] at h
  | panic p => simp [okIs] at h

/-- a typing that calls every code an Address -/
def tyAddr : Nat → Nat → Nat := fun _ _ => T.address

/-- Host-IP-Address, family 2 (IPv6), 16 octets that are an IPv4-mapped address -/
def witV4Mapped : Bytes := [0,0,1,1, 0x40, 0,0,26, 0,2, 0,0,0,0,0,0,0,0,0,0,255,255,10,1,2,3, 0,0]
/-- family 8 (E.164) with 14 octets: 16 octets in all -/
def witOther16 : Bytes := [0,0,1,1, 0x40, 0,0,24, 0,8, 49,50,51,52,53,54,55,56,57,48,49,50,51,52]
/-- family 8 with 2 octets: 4 octets in all -/
def witOther4 : Bytes := [0,0,1,1, 0x40, 0,0,12, 0,8, 49,50]

theorem refute (bs : Bytes) (as : List AVP) (hw : wfBody tyAddr bs = true)
    (hd : okIs (decodeAVPs tyAddr (bs.length + 1) bs) as = true) (hne : (encL as == bs) = false) :
    ¬ C01_wire_Statement := by
  intro hS
  have := hS tyAddr bs as hw (okIs_eq _ _ hd)
  rw [this] at hne
  simp at hne

/-- F1: the wire-direction statement is false: a family-2 Address holding an IPv4-mapped
    address re-serialises as family 1 with 4 octets. -/
theorem C01_wire_counterexample_v4mapped : ¬ C01_wire_Statement :=
  refute witV4Mapped [.mk 257 64 26 0 (.addr [0,0,0,0,0,0,0,0,0,0,255,255,10,1,2,3])]
    (by decide) (by decide) (by decide)

/-- F2: an Address of another family whose payload is 16 octets re-serialises as IPv6. -/
theorem C01_wire_counterexample_other16 : ¬ C01_wire_Statement :=
  refute witOther16 [.mk 257 64 24 0 (.addr [0,8, 49,50,51,52,53,54,55,56,57,48,49,50,51,52])]
    (by decide) (by decide) (by decide)

/-- F3: ... and one whose payload is 4 octets re-serialises as IPv4. -/
theorem C01_wire_counterexample_other4 : ¬ C01_wire_Statement :=
  refute witOther4 [.mk 257 64 12 0 (.addr [0,8,49,50])] (by decide) (by decide) (by decide)

/-! ### wire direction, proved part -/

/-- `C01_wire_Statement` restricted to bodies free of the three ambiguous Address shapes
    (`wfBodyX`): for every dictionary typing and every such well-formed body, of any size and
    nesting, what is read serialises to exactly the bytes that were read. Together with the three
    counterexamples this determines the wire direction completely: the statement holds exactly
    outside those shapes. -/
theorem C01_wire_partial (ty : Nat → Nat → Nat) (bs : Bytes) (as : List AVP)
    (hw : wfBodyX ty bs = true) (hd : decodeAVPs ty (bs.length + 1) bs = .ok as) : encL as = bs := by
  unfold wfBodyX at hw
  dsimp only at hw
  have hfe := (frame_equiv ty (bs.length + 1)).2 bs
  rw [hd] at hfe
  change _ = ((frames (isG ty) (bs.length + 1) bs).bindR (typedL ty)).toOpt at hfe
  cases hf : frames (isG ty) (bs.length + 1) bs with
  | ok fs =>
    change (match frames (isG ty) (bs.length + 1) bs with
      | .ok fs => wfFramesX ty fs && wfPadding (isG ty) (bs.length + 1) bs
      | _ => false) = true at hw
    rw [hf] at hw hfe
    simp only [Bool.and_eq_true] at hw
    have ht : typedL ty fs = .ok as := toOpt_some _ _ hfe.symm
    exact ((wire_rt ty (bs.length + 1)).2 (bs.length + 1) bs fs as hf hw.2 ht hw.1).1
  | err e =>
    change (match frames (isG ty) (bs.length + 1) bs with
      | .ok fs => wfFramesX ty fs && wfPadding (isG ty) (bs.length + 1) bs
      | _ => false) = true at hw
    rw [hf] at hw; cases hw
  | panic e =>
    change (match frames (isG ty) (bs.length + 1) bs with
      | .ok fs => wfFramesX ty fs && wfPadding (isG ty) (bs.length + 1) bs
      | _ => false) = true at hw
    rw [hf] at hw; cases hw

/-- ... and every well-formed body (ambiguous Address shapes included) is read without error. -/
theorem C01_wire_reads (ty : Nat → Nat → Nat) (bs : Bytes) (hw : wfBody ty bs = true) :
    ∃ as, decodeAVPs ty (bs.length + 1) bs = .ok as := by
  unfold wfBody at hw
  have hfe := (frame_equiv ty (bs.length + 1)).2 bs
  change (match frames (isG ty) (bs.length + 1) bs with
      | .ok fs => wfFrames ty fs && wfPadding (isG ty) (bs.length + 1) bs
      | _ => false) = true at hw
  cases hf : frames (isG ty) (bs.length + 1) bs with
  | ok fs =>
    rw [hf] at hw hfe
    simp only [Bool.and_eq_true] at hw
    obtain ⟨as, has⟩ := typedL_total ty fs hw.1
    refine ⟨as, toOpt_some _ _ ?_⟩
    rw [hfe]; simp only [Res.bindR, has]; rfl
  | err e => rw [hf] at hw; cases hw
  | panic e => rw [hf] at hw; cases hw

theorem wfBodyX_wfBody (ty : Nat → Nat → Nat) (bs : Bytes) (h : wfBodyX ty bs = true) : wfBody ty bs = true := by
  unfold wfBodyX at h
  unfold wfBody
  dsimp only at h ⊢
  cases hf : frames (fun c v => decide (ty c v = T.grouped)) (bs.length + 1) bs with
  | ok fs =>
    rw [hf] at h
    simp only [Bool.and_eq_true] at h ⊢
    exact ⟨wfFramesX_wfFrames ty fs h.1, h.2⟩
  | err e => rw [hf] at h; cases h
  | panic e => rw [hf] at h; cases h

/-- Message level (`ReadMessage` then `Serialize`): a well-formed wire message without those
    shapes is read, and serialising the result reproduces the message byte for byte. -/
theorem C01_wire_msg (d : DictFn) (bs : Bytes) (hw : wfWireX d bs = true) :
    ∃ m, decodeMsg d bs = .ok m ∧ m.enc = bs := by
  unfold wfWireX at hw
  by_cases h20 : bs.length < 20
  · simp [h20] at hw
  simp only [h20, if_false] at hw
  have htl : (bs.take 20).length = 20 := by rw [List.length_take]; omega
  cases hh : decodeHeader (bs.take 20) with
  | err e => rw [hh] at hw; cases hw
  | panic e => rw [hh] at hw; cases hw
  | ok h =>
    rw [hh] at hw
    simp only [Bool.and_eq_true, decide_eq_true_eq] at hw
    obtain ⟨⟨hlen, hcmd⟩, hbody⟩ := hw
    have himg := header_image (bs.take 20) htl h hh
    unfold cmdHasRules at hcmd
    cases hc : d.cmdRules h.app h.cmd with
    | none => rw [hc] at hcmd; cases hcmd
    | some nr =>
      obtain ⟨nreq, nans⟩ := nr
      rw [hc] at hcmd
      simp only [bne_iff_ne, ne_eq] at hcmd
      obtain ⟨as, has⟩ := C01_wire_reads _ _ (wfBodyX_wfBody _ _ hbody)
      have henc := C01_wire_partial _ _ as hbody has
      have hbd : (bs.drop 20).take (h.len - 20) = bs.drop 20 := by
        apply List.take_of_length_le; rw [List.length_drop]; omega
      refine ⟨{ hdr := h, avps := as }, ?_, ?_⟩
      · unfold decodeMsg
        simp only [h20, if_false, hh, hc]
        have h1 : ¬ h.len < 20 := by omega
        simp only [h1, if_false, hbd]
        have h2 : ¬ (bs.drop 20).length < h.len - 20 := by rw [List.length_drop]; omega
        simp only [h2, if_false, hcmd, has]
      · show h.enc ++ encL as = bs
        rw [himg, henc, List.take_append_drop]

/-- regenerated facts the codec model hard-codes -/
theorem C01_gen : Gen.HeaderLength = 20 ∧ Gen.Vbit = 128 ∧ Gen.rfc868offset = rfc868 ∧
    Gen.rfc2030offset = rfc2030 ∧ Gen.typeIds.map (·.2) = List.range 19 ∧
    Gen.hdrLayoutEnc = Gen.hdrLayoutDec ∧
    (Gen.available.all (fun p => Gen.decoderKeys.contains p.2)) = true := by decide

/-- non-vacuity of `C01_api_avps`: every data type, a group in a group, an empty group, an odd
    string, an unknown vendor-specific AVP, an E.164 address, times on both sides of 2036 -/
def demoTy : Nat → Nat → Nat := fun c v =>
  if v ≠ 0 then T.unknown else
  if c = 1 then T.grouped else if c = 2 then T.octets else if c = 3 then T.address else
  if c = 4 then T.time else if c = 5 then T.u64 else if c = 6 then T.ipv6 else T.f32

def demoTree : List AVP :=
  [.mk 1 64 0 0 (.group [.mk 1 0 0 0 (.group []), .mk 2 0 0 0 (.str 12 [1,2,3])]),
   .mk 9 192 0 77 (.str 0 [9]), .mk 3 64 0 0 (.addr [0,8,49,50,51]),
   .mk 4 0 0 0 (.time 2085978495), .mk 4 0 0 0 (.time 2085978496),
   .mk 5 0 0 0 (.fix 17 18446744073709551615), .mk 6 0 0 0 (.ip6 [1,2,3,4,5,6,7,8,9,10,11,12,13,14,15,16]),
   .mk 7 32 0 0 (.fix 5 2143289344)]

example : canonL demoTree = true ∧ typedOkL demoTy demoTree = true ∧ lenL demoTree < 16777216 := by decide

/-- non-vacuity of `C01_wire_partial`: the wire image of that tree (a group in a group, an empty
    group, an odd-length string with padding, a vendor-specific unknown AVP, an E.164 address,
    both time eras, IPv6, a float) is well formed, free of the ambiguous shapes, and is read. -/
example : wfBodyX demoTy (encL demoTree) = true ∧
    (decodeAVPs demoTy ((encL demoTree).length + 1) (encL demoTree)).isOk = true := by decide +kernel

end DV.Props.C01
