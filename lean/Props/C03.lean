import Model
import Spec
import Gen
import Proofs.Cost
import Proofs.Frame
import Proofs.SerFits
/-!
  C03 — decoding arbitrary bytes never panics (and what is decoded is bounded by what was
  supplied). The model keeps Go's panicking primitives (`slice`, `sliceFrom`: bounds checks of
  `data[8:12]`, `data[12:]`, `data[8:]`), so "never `panic`" is a statement that every such site
  is guarded on every path - for every dictionary typing and every byte string.
-/
namespace DV.Props.C03
open DV DV.Spec

/-- `DecodeAVP` / `AVP.DecodeFromBytes` (any nesting depth) never panics. -/
theorem C03_avp_nopanic (ty : Nat → Nat → Nat) (fuel : Nat) (data : Bytes) :
    (decodeAVP ty fuel data).isPanic = false := (decode_noPanic ty fuel).1 data

/-- the AVP loop of the message body and of every grouped AVP never panics -/
theorem C03_avps_nopanic (ty : Nat → Nat → Nat) (fuel : Nat) (b : Bytes) :
    (decodeAVPs ty fuel b).isPanic = false := (decode_noPanic ty fuel).2 b

/-- `DecodeHeader` never panics -/
theorem C03_header_nopanic (b : Bytes) : (decodeHeader b).isPanic = false := by
  unfold decodeHeader; split <;> rfl

theorem isPanic_ite {α : Type} (c : Prop) [Decidable c] (e : String) (r : Res α) :
    (if c then Res.err e else r).isPanic = (if c then false else r.isPanic) := by
  split <;> rfl

/-- `ReadMessage` on any byte string, under any dictionary: a message or an error. -/
theorem C03_message_nopanic (d : DictFn) (bs : Bytes) : (decodeMsg d bs).isPanic = false := by
  unfold decodeMsg
  by_cases h0 : bs.length < 20
  · simp [h0, Res.isPanic]
  simp only [h0, if_false]
  have hh := C03_header_nopanic (bs.take 20)
  cases hd : decodeHeader (bs.take 20) with
  | err e => rfl
  | panic p => rw [hd] at hh; simp [Res.isPanic] at hh
  | ok h =>
    dsimp only
    cases d.cmdRules h.app h.cmd with
    | none => rfl
    | some r =>
      obtain ⟨nreq, nans⟩ := r
      dsimp only
      rw [isPanic_ite, isPanic_ite, isPanic_ite]
      have := C03_avps_nopanic (d.avpType h.app) (((bs.drop 20).take (h.len - 20)).length + 1) ((bs.drop 20).take (h.len - 20))
      revert this
      cases decodeAVPs (d.avpType h.app) (((bs.drop 20).take (h.len - 20)).length + 1) ((bs.drop 20).take (h.len - 20)) <;>
        simp [Res.isPanic]

/-- a declared message length below the 20-byte header is rejected (no body is requested) -/
theorem C03_short_length_rejected (d : DictFn) (bs : Bytes) (h20 : 20 ≤ bs.length)
    (hl : rd ((bs.drop 1).take 3) < 20) : (decodeMsg d bs).isErr = true := by
  unfold decodeMsg
  have : ¬ bs.length < 20 := by omega
  simp only [this, if_false]
  have hlen : (bs.take 20).length = 20 := by rw [List.length_take]; omega
  unfold decodeHeader
  simp only [hlen, Nat.lt_irrefl, if_false]
  have e : rd (((bs.take 20).drop 1).take 3) = rd ((bs.drop 1).take 3) := by
    rw [take_drop_take bs 20 1 3 (by omega)]
  cases d.cmdRules (rd (((bs.take 20).drop 8).take 4)) (rd (((bs.take 20).drop 5).take 3)) with
  | none => rfl
  | some r =>
    obtain ⟨a, b⟩ := r
    simp only [e, hl, if_true]
    rfl

/-! ### Inspection: the type assertions of `dataValueToString` (PrettyDump) -/

/-- Go dynamic type of a decoded value -/
def dynType : Val → String
  | .str t _ =>
    if t = T.unknown then "datatype.Unknown" else if t = T.ident then "datatype.DiameterIdentity"
    else if t = T.uri then "datatype.DiameterURI" else if t = T.ipfilter then "datatype.IPFilterRule"
    else if t = T.octets then "datatype.OctetString" else if t = T.qos then "datatype.QoSFilterRule"
    else if t = T.utf8 then "datatype.UTF8String" else "datatype.Grouped"
  | .addr _ => "datatype.Address"
  | .ip4 _ => "datatype.IPv4"
  | .ip6 _ => "datatype.IPv6"
  | .fix _ _ => "numeric"
  | .time _ => "datatype.Time"
  | .group _ => "*diam.GroupedAVP"

/-- `Data.Type()` of a decoded value -/
def typeIdOf : Val → Nat
  | .str t _ => t
  | .addr _ => T.address
  | .ip4 _ => T.ipv4
  | .ip6 _ => T.ipv6
  | .fix t _ => t
  | .time _ => T.time
  | .group _ => T.groupedAVP

/-- every assertion `data.(X)` that `dataValueToString` makes for a value whose `Type()` is `t`
    names the value's dynamic type -/
def assertOK (table : List (Nat × String)) (v : Val) : Bool :=
  match table.lookup (typeIdOf v) with
  | some s => s == "" || s == dynType v
  | none => true

/-- For every data type id and every payload, the value the decoder returns satisfies every
    type assertion PrettyDump makes on it - checked against the assertion table regenerated
    from `pretty_dump.go`. (A `*Time` for a wrong-length Time payload would violate it.) -/
theorem C03_pretty_asserts (t : Nat) (p : Bytes) (v : Val) (h : decodeLeaf t p = .ok v) :
    assertOK Gen.prettyAsserts v = true := by
  rcases decodeLeaf_shape t p v h with ⟨rfl, ht⟩ | ⟨⟨b, rfl⟩, _⟩ | ⟨⟨n, rfl⟩, ht⟩ | ⟨⟨b, rfl, _⟩, _⟩ | ⟨⟨b, rfl, _⟩, _⟩ | ⟨⟨u, rfl⟩, _⟩
  · rcases ht with rfl | rfl | rfl | rfl | rfl | rfl | rfl <;> rfl
  · rfl
  · rcases ht with rfl | rfl | rfl | rfl | rfl | rfl | rfl <;> rfl
  · rfl
  · rfl
  · rfl

/-! ### Inspection: serialising what was decoded -/

/-- Whatever decodes - well formed or not: wrong-width fixed-size payloads (lenient zero values),
    Address payloads of any family and length, any nesting - every value of the result fills its
    `Len()` exactly when serialised, at every depth. `AVP.SerializeTo` is always handed a window of
    `Len()` octets (`make([]byte, m.Len())`, offsets advancing by `avp.Len()`), and its only
    panic sites are the slice `b[hl+len(payload):]` and the padding loop behind it: neither can
    be reached past the window, and no octet of the window is left unwritten. -/
theorem C03_serialize_fits (ty : Nat → Nat → Nat) (fuel : Nat) (b : Bytes) (as : List AVP)
    (h : decodeAVPs ty fuel b = .ok as) : fitsL as = true ∧ (encL as).length = lenL as :=
  ⟨(decode_fits ty fuel).2 b as h, fits_encL as ((decode_fits ty fuel).2 b as h)⟩

/-- ... for a whole message: `Serialize` of a message that was read fills `m.Len()` exactly -/
theorem C03_serialize_message_fits (d : DictFn) (bs : Bytes) (m : Msg) (h : decodeMsg d bs = .ok m) :
    m.enc.length = m.len := by
  unfold decodeMsg at h
  by_cases h0 : bs.length < 20
  · simp [h0] at h
  simp only [h0, if_false] at h
  cases hd : decodeHeader (bs.take 20) with
  | err e => rw [hd] at h; cases h
  | panic p => rw [hd] at h; cases h
  | ok hdr =>
    rw [hd] at h
    dsimp only at h
    cases hc : d.cmdRules hdr.app hdr.cmd with
    | none => rw [hc] at h; cases h
    | some r =>
      obtain ⟨nreq, nans⟩ := r
      rw [hc] at h
      dsimp only at h
      by_cases h1 : hdr.len < 20
      · simp [h1] at h
      simp only [h1, if_false] at h
      generalize hbody : (bs.drop 20).take (hdr.len - 20) = body at h
      by_cases h2 : body.length < hdr.len - 20
      · rw [if_pos h2] at h; cases h
      rw [if_neg h2] at h
      by_cases h3 : (if isRequest hdr.flags = true then nreq else nans) = 0
      · rw [if_pos h3] at h; cases h
      rw [if_neg h3] at h
      cases has : decodeAVPs (d.avpType hdr.app) (body.length + 1) body with
      | ok as =>
        rw [has] at h
        simp only [Res.ok.injEq] at h
        rw [← h]
        have := (C03_serialize_fits _ _ _ as has).2
        show (hdr.enc ++ encL as).length = 20 + lenL as
        rw [List.length_append, this]
        simp [Header.enc]
      | err e => rw [has] at h; cases h
      | panic p => rw [has] at h; cases h

/-- regenerated facts: every type the dictionary loader accepts has a decoder; constants -/
theorem C03_gen : Gen.HeaderLength = 20 ∧ Gen.Vbit = 128 ∧
    (Gen.available.all (fun p => Gen.decoderKeys.contains p.2)) = true ∧
    -- every reader type goes through readHeader and readBody, whose first statement rejects a
    -- declared length below the header's (`C03_short_length_rejected`)
    Gen.readMessageCalls = ["readHeader", "readBody"] ∧
    Gen.readBodyGuard = "(m.Header.MessageLength<HeaderLength)" ∧
    -- the pooled read buffer is sliced only if it is as long as the current MessageBufferLength
    Gen.readerBufferSliceCond = "((l<=MessageBufferLength)&&(cap(b)>=MessageBufferLength))" := by decide

/-! ### resources -/

/-- Memory reserved for a message body follows the bytes received, not the declared length: with
    large bodies read piecewise (`Gen.bodyChunkLength`, regenerated from `readBodyBytes`), for
    every declared length `l` and every amount `s` actually delivered, at most one piece beyond
    what arrived is reserved (or the pooled 1 KiB buffer). -/
theorem C03_body_bound (l s : Nat) :
    bodyReserved Gen.bodyChunkLength l s ≤ max 1024 (s + Gen.bodyChunkLength) :=
  bodyReserved_chunked Gen.bodyChunkLength l s (by decide)

/-- The model distinguishes: without piecewise reading (the code before the repair) a 20-byte
    header claiming the 24-bit maximum reserves 16 MiB before a single body byte arrives. -/
theorem C03_claimed_length_counterexample : bodyReserved 0 (16777215 - 20) 0 = 16777195 := by
  rw [bodyReserved_unchunked _ _ (by omega)]

/-- KNOWN FINDING, stated formally: nesting depth is bounded only by the input size, and the cost
    of serialising grows with depth x size. The input `nest n` (n grouped AVPs around one
    Result-Code) is 12 + 8n bytes long, decodes to depth n, and `Serialize` - every grouped level
    building its own buffer - writes at least 4n^2 bytes: no linear bound K * |input| holds.
    (String and PrettyDump have the same shape, see the measured costs in the evidence.) -/
theorem C03_nesting_cost_counterexample (n : Nat) :
    (nest n).len = 12 + 8 * n ∧ (nest n).depth = n ∧ 4 * n * n ≤ (nest n).copyCost :=
  ⟨nest_len n, nest_depth n, nest_copyCost n⟩

theorem C03_no_linear_bound (K : Nat) : ∃ a : AVP, K * a.len < a.copyCost := by
  refine ⟨nest (3 * K + 4), ?_⟩
  have h := C03_nesting_cost_counterexample (3 * K + 4)
  rw [h.1]
  have h2 := h.2.2
  generalize hm : 3 * K + 4 = m at *
  have e1 : 4 * m * m = 12 * (K * m) + 16 * m := by
    subst hm
    rw [Nat.mul_assoc 4, Nat.add_mul (3 * K) 4, Nat.mul_assoc 3 K, Nat.mul_add]
    omega
  have e2 : K * (12 + 8 * m) = 12 * K + 8 * (K * m) := by
    rw [Nat.mul_add, Nat.mul_left_comm K 8 m]; omega
  rw [e2]
  rw [e1] at h2
  omega

/-- non-vacuity: V flag with Length 8 is an error, not a panic -/
example :
    (decodeAVP (fun _ _ => 0) 2 [0,0,1,8, 0xc0, 0,0,8]).isErr = true := by decide

end DV.Props.C03
