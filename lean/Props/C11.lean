import Model
import Spec
import Gen
import Proofs.SM
import Proofs.LocalAddr
/-!
  C11 — a CER is accepted exactly when a common application exists.
  `cerParse` models `smparser.CER.Parse` (Unmarshal by dictionary code, sanityCheck, in-band
  security, `Application.Parse` with its order-sensitive error selection); `Spec.accept` is the
  property's condition stated on the AVPs. `appOK id typ` stands for "the local dictionary
  supports application id with that type" - quantified, so the theorems hold for every dictionary.
-/
namespace DV.Props.C11
open DV DV.Spec

theorem inband_cases (as : List AVP) :
    (inbandOK as = true ∨ inbandRequired as = true ∨ inbandMalformed as = true) := by
  unfold inbandOK inbandRequired inbandMalformed
  cases firstOf C.inband as with
  | none => simp
  | some a =>
    cases a with
    | mk c f l v d =>
      cases d with
      | fix t n =>
        simp only [AVP.data_mk, notU32]
        by_cases ht : t = T.u32 <;> by_cases hn : n = 0 <;> simp [ht, hn]
      | _ => simp [notU32]

/-- For every CER (any multiset of AVPs in any order) and every dictionary: the state machine's
    parser accepts exactly when the request names its origin host and realm, does not require
    in-band security, and advertises at least one accounting, authentication, vendor-specific or
    relay application the local dictionary supports with the same type. -/
theorem C11_accept_iff (appOK : Nat → Nat → Bool) (as : List AVP) :
    (∃ v, cerParse appOK as = .ok v) ↔ accept appOK as = true := by
  unfold cerParse accept hasHost hasRealm
  by_cases hh : (strField C.originHost as).isEmpty = true
  · simp [hh]
  by_cases hr : (strField C.originRealm as).isEmpty = true
  · simp [hh, hr]
  simp only [hh, hr, Bool.false_eq_true, if_false, Bool.not_false, Bool.true_and]
  have hsp := appParse_spec appOK as
  unfold inbandOK
  cases hi : firstOf C.inband as with
  | none =>
    simp only [Bool.true_and]
    cases hp : appParse appOK (allOf C.acctApp as) (allOf C.authApp as) (allOf C.vsa as) with
    | mk e ids =>
      rw [hp] at hsp
      cases e with
      | none => simp [hsp.1.mp rfl]
      | some e' =>
        have : ¬ hasCommonApp appOK as = true := fun h => by have := hsp.1.mpr h; simp at this
        simp [this]
  | some a =>
    cases a with
    | mk c f l v d =>
      cases d with
      | fix t n =>
        simp only [AVP.data_mk]
        by_cases ht : t = T.u32
        · by_cases hn : n = 0
          · simp only [ht, hn, if_true, ne_eq, not_true_eq_false, if_false, beq_self_eq_true, Bool.true_and]
            cases hp : appParse appOK (allOf C.acctApp as) (allOf C.authApp as) (allOf C.vsa as) with
            | mk e ids =>
              rw [hp] at hsp
              cases e with
              | none => simp [hsp.1.mp rfl]
              | some e' =>
                have : ¬ hasCommonApp appOK as = true := fun h => by have := hsp.1.mpr h; simp at this
                simp [this]
          · simp [ht, hn]
        · simp [ht]
      | _ => simp

/-- on acceptance the peer's identity and the shared application ids - at least one - become
    the connection's metadata -/
theorem C11_accept_meta (appOK : Nat → Nat → Bool) (as : List AVP) (v : CERView)
    (h : cerParse appOK as = .ok v) :
    v.host = strField C.originHost as ∧ v.realm = strField C.originRealm as ∧ v.ids ≠ [] ∧
    v.ids = (appParse appOK (allOf C.acctApp as) (allOf C.authApp as) (allOf C.vsa as)).2 := by
  have hacc := (C11_accept_iff appOK as).mp ⟨v, h⟩
  unfold cerParse at h
  by_cases hh : (strField C.originHost as).isEmpty = true
  · simp [hh] at h
  by_cases hr : (strField C.originRealm as).isEmpty = true
  · simp [hh, hr] at h
  simp only [hh, hr, Bool.false_eq_true, if_false] at h
  have hsp := appParse_spec appOK as
  have hca : hasCommonApp appOK as = true := by
    unfold accept at hacc; simp only [Bool.and_eq_true] at hacc; exact hacc.2
  have hids : (appParse appOK (allOf C.acctApp as) (allOf C.authApp as) (allOf C.vsa as)).2 ≠ [] := by
    intro e; have := hsp.2.mp e; rw [hca] at this; cases this
  split at h
  · cases h
  · rename_i hin
    cases hp : appParse appOK (allOf C.acctApp as) (allOf C.authApp as) (allOf C.vsa as) with
    | mk e ids =>
      rw [hp] at h hids
      cases e with
      | some e' => simp at h
      | none =>
        simp only [Except.ok.injEq] at h
        subst h
        exact ⟨rfl, rfl, hids, rfl⟩

/-- In every other case the failure Result-Code names a cause that applies: 5017 only when
    in-band security is required, 5010 only when there is no common application, 5012 only when
    origin host or realm is missing or an AVP of the exchange is malformed. -/
theorem C11_reject_code (appOK : Nat → Nat → Bool) (as : List AVP) (e : PErr)
    (h : cerParse appOK as = .error e) : applies appOK (rcOf e) as = true := by
  unfold cerParse at h
  by_cases hh : (strField C.originHost as).isEmpty = true
  · simp only [hh, if_true, Except.error.injEq] at h; subst h
    simp [applies, rcOf, hasHost, hh]
  by_cases hr : (strField C.originRealm as).isEmpty = true
  · simp only [hh, Bool.false_eq_true, if_false, hr, if_true, Except.error.injEq] at h; subst h
    simp [applies, rcOf, hasRealm, hr]
  simp only [hh, hr, Bool.false_eq_true, if_false] at h
  have herr := appParse_errOK appOK as
  have hsp := appParse_spec appOK as
  -- the in-band part
  cases hi : firstOf C.inband as with
  | none =>
    rw [hi] at h
    simp only [] at h
    cases hp : appParse appOK (allOf C.acctApp as) (allOf C.authApp as) (allOf C.vsa as) with
    | mk e' ids =>
      rw [hp] at h herr hsp
      cases e' with
      | none => simp at h
      | some e'' =>
        simp only [Except.error.injEq] at h; subst h
        have hnc : hasCommonApp appOK as = false := by
          cases hc : hasCommonApp appOK as with
          | false => rfl
          | true => have := hsp.1.mpr hc; simp at this
        rcases herr with h0 | h1 | ⟨h2, hm⟩
        · cases h0
        · simp only [Option.some.injEq] at h1; subst h1; simp [applies, rcOf, hnc]
        · simp only [Option.some.injEq] at h2; subst h2; simp [applies, rcOf, hm]
  | some a =>
    rw [hi] at h
    cases a with
    | mk c f l v d =>
      have hmal : ∀ (hd : notU32 d = true), malformed as = true := by
        intro hd; apply malformed_of_inband; unfold inbandMalformed; rw [hi]; exact hd
      have hreq : ∀ t n, d = .fix t n → t = T.u32 → n ≠ 0 → inbandRequired as = true := by
        intro t n hd ht hn; unfold inbandRequired; rw [hi, hd]; simp [ht, hn]
      cases d with
      | fix t n =>
        simp only [AVP.data_mk] at h
        by_cases ht : t = T.u32
        · by_cases hn : n = 0
          · simp only [ht, hn, if_true, ne_eq, not_true_eq_false, if_false] at h
            cases hp : appParse appOK (allOf C.acctApp as) (allOf C.authApp as) (allOf C.vsa as) with
            | mk e' ids =>
              rw [hp] at h herr hsp
              cases e' with
              | none => simp at h
              | some e'' =>
                simp only [Except.error.injEq] at h; subst h
                have hnc : hasCommonApp appOK as = false := by
                  cases hc : hasCommonApp appOK as with
                  | false => rfl
                  | true => have := hsp.1.mpr hc; simp at this
                rcases herr with h0 | h1 | ⟨h2, hm⟩
                · cases h0
                · simp only [Option.some.injEq] at h1; subst h1; simp [applies, rcOf, hnc]
                · simp only [Option.some.injEq] at h2; subst h2; simp [applies, rcOf, hm]
          · simp only [ht, hn, if_true, ne_eq, not_false_eq_true, Except.error.injEq] at h; subst h
            simp [applies, rcOf, hreq t n rfl ht hn]
        · simp only [ht, if_false, Except.error.injEq] at h; subst h
          have := hmal (by simp [notU32, ht])
          simp [applies, rcOf, this]
      | _ =>
        simp only [AVP.data_mk, Except.error.injEq] at h
        subst h
        have := hmal (by simp [notU32])
        simp [applies, rcOf, this]

/-- Every CEA - success or failure - carries the identity of the local settings, the given host
    addresses, the request's hop-by-hop and end-to-end identifiers (zero included), command and
    application; a success CEA starts with Result-Code 2001 and advertises every locally
    supported application; a failure CEA has the E bit and the Result-Code of its cause. -/
theorem C11_cea_fields (cfg : Settings) (apps : List SApp) (ips : List Bytes) (req : Header) (v : CERView) (e : PErr)
    (hf : req.flags < 256) :
    (successCEA cfg apps ips req v).hdr.hbh = req.hbh ∧ (successCEA cfg apps ips req v).hdr.e2e = req.e2e ∧
    (successCEA cfg apps ips req v).hdr.cmd = req.cmd ∧ (successCEA cfg apps ips req v).hdr.app = req.app ∧
    (successCEA cfg apps ips req v).avps =
      [newAVP C.resultCode 64 0 (.fix T.u32 2001)] ++ ceaCommon cfg ips v.osid ++ appAVPs apps ++ fw cfg ∧
    (errorCEA cfg ips req v.osid e).hdr.hbh = req.hbh ∧ (errorCEA cfg ips req v.osid e).hdr.e2e = req.e2e ∧
    (errorCEA cfg ips req v.osid e).hdr.flags / 32 % 2 = 1 ∧
    (errorCEA cfg ips req v.osid e).avps =
      [newAVP C.resultCode 64 0 (.fix T.u32 (rcOf e))] ++ ceaCommon cfg ips v.osid ++ fw cfg := by
  unfold successCEA errorCEA mkMsg
  have h1 := mkMsg_avps req ([newAVP C.resultCode 64 0 (.fix T.u32 2001)] ++ ceaCommon cfg ips v.osid ++ appAVPs apps ++ fw cfg) [] (answerHdr req 0)
  have h2 := mkMsg_avps req ([newAVP C.resultCode 64 0 (.fix T.u32 (rcOf e))] ++ ceaCommon cfg ips v.osid ++ fw cfg) []
    (answerHdr req (if req.flags / 32 % 2 = 1 then 0 else 32))
  simp only [List.nil_append] at h1 h2
  refine ⟨h1.2.1, h1.2.2.1, h1.2.2.2.1, h1.2.2.2.2.1, h1.1, h2.2.1, h2.2.2.1, ?_, h2.1⟩
  rw [h2.2.2.2.2.2]
  unfold answerHdr isRequest
  simp only []
  by_cases hr : req.flags / 128 % 2 = 1 <;> by_cases he : req.flags / 32 % 2 = 1 <;> simp [hr, he] <;> omega

/-- the identity AVPs of every CEA are the settings', and every host address is carried -/
theorem C11_cea_identity (cfg : Settings) (ips : List Bytes) (osid : Option AVP) :
    (ceaCommon cfg ips osid).take 2 =
      [newAVP C.originHost 64 0 (.str T.ident cfg.originHost), newAVP C.originRealm 64 0 (.str T.ident cfg.originRealm)] ∧
    (∀ ip ∈ ips, newAVP C.hostIP 64 0 (.addr ip) ∈ ceaCommon cfg ips osid) := by
  constructor
  · simp [ceaCommon]
  · intro ip hip
    unfold ceaCommon
    simp only [List.mem_append, List.mem_map]
    exact Or.inl (Or.inl (Or.inr ⟨ip, hip, rfl⟩))

/-- Host-IP-Address when none is configured (`getLocalAddresses`): for every local endpoint -
    single or multi-homed, IPv4 or IPv6, any mixture of parseable and unparseable entries - what
    is advertised are addresses of that endpoint; if the endpoint has any parseable address at all
    the CEA carries at least one Host-IP-Address; loopback addresses only as a last resort. -/
theorem C11_cea_local_address (cfg : Settings) (osid : Option AVP) (hosts : List HostEntry) :
    (∀ as, getLocalAddresses true hosts = some as →
      (∀ a ∈ as, HostEntry.ip a ∈ hosts) ∧
      (∀ a ∈ as, newAVP C.hostIP 64 0 (.addr a) ∈ ceaCommon cfg as osid) ∧
      (∀ a ∈ as, isLoopbackIP a = true → ∀ b, HostEntry.ip b ∈ hosts → isLoopbackIP b = true)) ∧
    (∀ b, HostEntry.ip b ∈ hosts → ∃ as, getLocalAddresses true hosts = some as ∧ as ≠ []) := by
  refine ⟨fun as h => ⟨localAddrs_sound hosts as h, (C11_cea_identity cfg as osid).2, ?_⟩,
          fun b hb => localAddrs_nonempty hosts b hb⟩
  intro a ha hl
  exact localAddrs_loopback_last_resort hosts as a h ha hl

/-- non-vacuity: the IPv6 endpoint of finding F21, and a multi-homed mixed one -/
example : getLocalAddresses true [.ip [0x20,0x01,0x0d,0xb8,0,0,0,0,0,0,0,0,0,0,0,7]] =
      some [[0x20,0x01,0x0d,0xb8,0,0,0,0,0,0,0,0,0,0,0,7]] ∧
    getLocalAddresses true [.ip [127,0,0,1], .unparseable, .ip [10,0,0,3]] = some [[10,0,0,3]] ∧
    getLocalAddresses true [.ip [127,0,0,1], .unparseable] = some [[127,0,0,1]] := by decide

theorem C11_gen : Gen.rcSuccess = 2001 ∧ Gen.rcNoCommonApplication = 5010 ∧ Gen.rcNoCommonSecurity = 5017 ∧
    Gen.rcUnableToComply = 5012 ∧ Gen.relayAppId = 4294967295 ∧ Gen.cmdCapabilitiesExchange = 257 ∧
    -- `handleCER` (`SMState.cer`): look for existing metadata, parse, on an error answer with the
    -- error CEA, report, close; else the success CEA and the metadata - nothing else consulted
    -- (not the transport, not a pool)
    Gen.handleCERCalls = ["c.Context", "smpeer.FromContext", "new", "cer.Parse", "errorCEA", "sm.Error", "c.Close",
      "successCEA", "sm.Error", "smpeer.FromCER", "c.SetContext", "smpeer.NewContext"] := by decide

/-- non-vacuity: a CER with a supported auth application is accepted; one whose only application
    AVP names an unsupported id is rejected with 5010 -/
example :
    let appOK : Nat → Nat → Bool := fun id typ => id = 4 ∧ typ = 1
    let base : List AVP := [.mk 264 64 0 0 (.str 2 [112]), .mk 296 64 0 0 (.str 2 [113])]
    accept appOK (base ++ [.mk 258 64 12 0 (.fix 16 4)]) = true ∧
    accept appOK (base ++ [.mk 258 64 12 0 (.fix 16 999)]) = false ∧
    applies appOK 5010 (base ++ [.mk 258 64 12 0 (.fix 16 999)]) = true := by decide

end DV.Props.C11
