import Model
import Spec
import Gen
/-!
  C20 — AVP search returns exactly what a reference tree walk finds.
  `findAllL` / `findFirstL` / `withPath` model `findFromAVP` and `avpsWithPath`;
  `Spec.preorderL` and `Spec.followPath` are the reference walk. All statements are for
  every tree (any depth, repeated codes, empty groups), every code and every path.
-/
namespace DV.Props.C20
open DV DV.Spec

mutual
theorem findAll_eq (c : Nat) : ∀ a : AVP, findAll c a = (preorder a).filter (fun x => x.code = c)
  | .mk code f l v d => by
    cases d with
    | group as =>
      simp only [findAll, preorder, List.filter_cons, AVP.code_mk]
      rw [findAllL_eq c as]
      by_cases h : code = c <;> simp [h]
    | _ =>
      simp only [findAll, preorder, List.filter_cons, AVP.code_mk]
      by_cases h : code = c <;> simp [h]
theorem findAllL_eq (c : Nat) : ∀ as : List AVP, findAllL c as = (preorderL as).filter (fun x => x.code = c)
  | [] => by simp [findAllL, preorderL]
  | a :: r => by
    simp only [findAllL, preorderL, List.filter_append]
    rw [findAll_eq c a, findAllL_eq c r]
end

/-- `FindAVPs`: every AVP with the requested code, in depth-first document order. -/
theorem C20_all (c : Nat) (as : List AVP) :
    findAllL c as = (preorderL as).filter (fun x => x.code = c) := findAllL_eq c as

mutual
theorem findFirst_eq (c : Nat) : ∀ a : AVP, findFirst c a = (preorder a).find? (fun x => x.code = c)
  | .mk code f l v d => by
    cases d with
    | group as =>
      simp only [findFirst, preorder, List.find?_cons, AVP.code_mk]
      by_cases h : code = c
      · simp [h]
      · simp only [h, if_false, decide_false]
        exact findFirstL_eq c as
    | _ =>
      simp only [findFirst, preorder, List.find?_cons, AVP.code_mk]
      by_cases h : code = c <;> simp [h]
theorem findFirstL_eq (c : Nat) : ∀ as : List AVP, findFirstL c as = (preorderL as).find? (fun x => x.code = c)
  | [] => by simp [findFirstL, preorderL]
  | a :: r => by
    simp only [findFirstL, preorderL, List.find?_append]
    rw [findFirst_eq c a, findFirstL_eq c r]
    cases (preorder a).find? (fun x => x.code = c) <;> simp
end

/-- `FindAVP`: the first AVP with the requested code in depth-first document order;
    `none` (an error) exactly when the tree has no such AVP. -/
theorem C20_first (c : Nat) (as : List AVP) :
    findFirstL c as = (preorderL as).find? (fun x => x.code = c) := findFirstL_eq c as

/-- never a different AVP: whatever is returned has the requested code and occurs in the tree -/
theorem C20_first_sound (c : Nat) (as : List AVP) (x : AVP) (h : findFirstL c as = some x) :
    x.code = c ∧ x ∈ preorderL as := by
  rw [C20_first] at h
  have h1 := List.find?_some h
  exact ⟨by simpa using h1, List.mem_of_find?_eq_some h⟩

theorem C20_all_sound (c : Nat) (as : List AVP) (x : AVP) (h : x ∈ findAllL c as) :
    x.code = c ∧ x ∈ preorderL as := by
  rw [C20_all] at h
  have := List.mem_filter.mp h
  exact ⟨by simpa using this.2, this.1⟩

theorem followPath_step (as : List AVP) (c c' : Nat) (rest : List Nat) :
    followPath as (c :: c' :: rest) =
      followPath (((as.filter (fun a => a.code = c)).map members).flatten) (c' :: rest) := by
  rw [followPath]
  intro h; cases h

theorem followPath_append : ∀ (p : List Nat) (xs ys : List AVP),
    followPath (xs ++ ys) p = followPath xs p ++ followPath ys p
  | [], xs, ys => by simp [followPath]
  | [c], xs, ys => by simp [followPath]
  | c :: c' :: rest, xs, ys => by
    rw [followPath_step, followPath_step xs, followPath_step ys]
    simp only [List.filter_append, List.map_append, List.flatten_append]
    exact followPath_append (c' :: rest) _ _

theorem followPath_nil : ∀ (p : List Nat), p ≠ [] → followPath [] p = []
  | [], h => absurd rfl h
  | [c], _ => by simp [followPath]
  | c :: c' :: rest, _ => by
    rw [followPath_step]; simp only [List.filter_nil, List.map_nil, List.flatten_nil]
    exact followPath_nil (c' :: rest) (List.cons_ne_nil _ _)

theorem followPath_cons (a : AVP) (r : List AVP) (c : Nat) (rest : List Nat) :
    followPath (a :: r) (c :: rest) =
      (if a.code = c then (if rest.isEmpty then [a] else followPath (members a) rest) else [])
        ++ followPath r (c :: rest) := by
  have := followPath_append (c :: rest) [a] r
  simp only [List.singleton_append] at this
  rw [this]
  congr 1
  cases rest with
  | nil => by_cases h : a.code = c <;> simp [followPath, h]
  | cons c' rest' =>
    rw [followPath_step]
    by_cases h : a.code = c
    · simp [h]
    · simp only [List.filter_cons, h, decide_false, Bool.false_eq_true, if_false, List.filter_nil,
        List.map_nil, List.flatten_nil]
      exact followPath_nil _ (List.cons_ne_nil _ _)

theorem withPath_cons (a : AVP) (r : List AVP) (c : Nat) (rest : List Nat) :
    withPath (a :: r) (c :: rest) =
      (if a.code ≠ c then [] else if rest.isEmpty then [a] else
        match a.data with
        | .group as => withPath as rest
        | _ => []) ++ withPath r (c :: rest) := by
  rw [withPath, withPath, List.map_cons, List.flatten_cons]
  rfl

theorem members_data (a : AVP) : members a = (match a.data with | .group as => as | _ => []) := by
  cases a with
  | mk c f l v d => cases d <;> simp [members]

/-- `FindAVPsWithPath`: exactly the AVPs reached by following the codes level by level
    through grouped AVPs (the empty path is the top level). -/
theorem C20_path : ∀ (p : List Nat) (as : List AVP), withPath as p = followPath as p
  | [], as => by simp [withPath, followPath]
  | c :: rest, as => by
    induction as with
    | nil =>
      rw [followPath_nil _ (by simp)]
      simp [withPath]
    | cons a r ih =>
      rw [withPath_cons, followPath_cons, ih]
      congr 1
      by_cases h : a.code = c
      · simp only [h, ne_eq, not_true_eq_false, if_false, if_true]
        by_cases hr : rest.isEmpty
        · simp [hr]
        · simp only [hr, if_false]
          rw [members_data]
          cases hd : a.data with
          | group kids => simp only []; exact C20_path rest kids
          | _ =>
            simp only []
            cases rest with
            | nil => simp at hr
            | cons c' rest' => exact (followPath_nil _ (List.cons_ne_nil _ _)).symm
      · simp [h]
termination_by p => p.length

/-- obligation on the regenerated constant: the model's grouped type id -/
theorem C20_gen : Gen.GroupedAVPType = T.groupedAVP ∧
    -- a search is a function of the tree as it is: the message holds no index of it
    Gen.messageStructFields = ["Header *Header", "AVP []*AVP", "dictionary *dict.Parser", "stream uint", "ctx context.Context"] ∧
    Gen.groupedStructFields = ["AVP []*AVP"] := by decide

/-- non-vacuity: a code repeated at three depths, a group inside a group, an empty group -/
example :
    let leaf (c n : Nat) : AVP := .mk c 64 12 0 (.fix 16 n)
    let t : List AVP := [leaf 264 1, .mk 260 64 0 0 (.group [leaf 264 2, .mk 260 0 0 0 (.group [leaf 264 3]), .mk 279 0 8 0 (.group [])])]
    (findAllL 264 t).length = 3 ∧ findFirstL 264 t = some (leaf 264 1) ∧ (withPath t [260, 260, 264]) = [leaf 264 3] ∧
    findFirstL 1 t = none := by
  refine ⟨by rfl, by rfl, by rfl, by rfl⟩

end DV.Props.C20
