import Model
import Spec
import Gen
import Proofs.ConnData
import Proofs.CloseLock
/-!
  C14 — CloseNotify fires exactly once when, and only when, the connection is gone.
  `Model.Conn` is the labelled transition system of one connection: transport (fragments, peer
  EOF, read error, read timeout, local Close), the reader loop over bufio and the
  `liveSwitchReader`, the close-notifier pipe and its copy goroutine, `closeNotifyc` /
  `clientGone`. Every theorem below is about EVERY event sequence from a fresh connection -
  every ordering of requests, deliveries, faults, handler returns and goroutine steps, of any
  length (induction over the event list).
-/
namespace DV.Props.C14
open DV DV.Spec

/-- Safety: a channel is closed at most once (a second `close` would be a Go panic), and the
    counter agrees with the channel state. -/
theorem C14_once (d : DictFn) (c : Bool) (es : List CEv) (s : CN) (h : CN.run d { coal := c } es = some s) :
    s.closes ≤ 1 ∧ (s.closes = 1 ↔ s.chan = .closed) := by
  have inv := (Inv_reach d c es s h).1
  rw [inv.closes]
  split <;> simp_all

/-- Safety: the channel is closed only when the connection is gone - the peer closed, the
    transport failed or timed out, it was closed locally, or the reader loop has ended. -/
theorem C14_only_when_gone (d : DictFn) (c : Bool) (es : List CEv) (s : CN)
    (h : CN.run d { coal := c } es = some s) (hc : s.chan = .closed) : s.terminated = true := by
  have inv := (Inv_reach d c es s h).1
  exact inv.goneTerm (inv.chanGone hc)

/-- Quiescence (the safety form of "fires"): whenever the connection is gone, no goroutine of the
    library can move and no handler is running, then the reader loop has ended, a requested
    channel is closed (requested before or after the end), and the copy goroutine was never
    started or has ended - nothing is left blocked. -/
theorem C14_quiet (d : DictFn) (c : Bool) (es : List CEv) (s : CN) (h : CN.run d { coal := c } es = some s)
    (hq : s.quiescent d = true) (ht : s.terminated = true) (hh : s.reader ≠ .inHandler) :
    s.chan ≠ .open ∧ s.reader = .exited ∧ (s.copier = .notStarted ∨ s.copier = .exited) := by
  have r := CInv_quiet d s (Inv_reach d c es s h).1 hq ht hh
  exact ⟨r.1, r.2.1, r.2.2.2⟩

/-- a channel requested after the connection has terminated is returned closed -/
theorem C14_late_request (d : DictFn) (c : Bool) (es : List CEv) (s s' : CN)
    (h : CN.run d { coal := c } es = some s) (hg : s.reader = .exited) (hn : s.chan = .none)
    (hs : s.step d .requestCN = some s') : s'.chan = .closed := by
  have inv := (Inv_reach d c es s h).1
  have := (inv.exGone hg).1
  simp [CN.step, hn, this] at hs
  subst hs; rfl

/-- Transparency: requesting the channel (which re-plumbs the reader through a pipe and a copy
    goroutine) never loses, duplicates or reorders a message: in every reachable state the
    messages handed to handlers are exactly the first messages of the reference split (by
    declared length, C05) of everything the peer delivered, and the split continues in the bytes
    still in flight (bufio ++ pipe ++ transport). -/
theorem C14_transparent (d : DictFn) (c : Bool) (es : List CEv) (s : CN) (h : CN.run d { coal := c } es = some s) :
    ∃ rest, s.sent = s.consumed ++ rest ∧ (s.reader ≠ .exited → rest = s.rbuf ++ s.pipeData ++ s.inbox.flatten) ∧
      ∀ (fin : Fin) (fuel : Nat),
        (split d (s.handed.length + fuel) s.sent fin).1 = s.handed.map MsgRes.msg ++ (split d fuel rest fin).1 := by
  obtain ⟨_, ⟨r, hr1, hr2⟩, hcut⟩ := Inv_reach d c es s h
  refine ⟨r, hr1, hr2, ?_⟩
  intro fin fuel
  rw [hr1, hcut r fin fuel]

/-- ... and nothing is held back: a quiescent live connection with no handler running has
    handed over every complete message delivered so far. -/
theorem C14_nothing_stuck (d : DictFn) (c : Bool) (es : List CEv) (s : CN) (h : CN.run d { coal := c } es = some s)
    (hq : s.quiescent d = true) (ht : s.terminated = false) (hh : s.reader ≠ .inHandler) :
    s.inbox = [] ∧ s.pipeData = [] ∧ nextMsg d s.rbuf = .need :=
  CInv_nothing_stuck d s (Inv_reach d c es s h).1 hq ht hh

/-- The same over a multistream (SCTP) association, where `closeNotify` installs the association's
    error handler instead of the pipe and its copy goroutine (`Gen.closeNotifyMultiCalls`; the
    bytes are those of the stream in use - demultiplexing is C19's subject): for every event
    sequence the channel is closed at most once and only when the connection is gone; at rest
    after the end it is closed and the reader has ended; a late request is answered with a closed
    channel; and requesting it changes nothing about what the handlers are given. -/
theorem C14_multistream (d : DictFn) (c : Bool) (es : List CEv) (s : CN)
    (h : CN.run d { multi := true, coal := c } es = some s) :
    (s.closes ≤ 1 ∧ (s.closes = 1 ↔ s.chan = .closed)) ∧
    (s.chan = .closed → s.terminated = true) ∧
    (s.quiescent d = true → s.terminated = true → s.reader ≠ .inHandler → s.chan ≠ .open ∧ s.reader = .exited) ∧
    (∀ s', s.reader = .exited → s.chan = .none → s.step d .requestCN = some s' → s'.chan = .closed) ∧
    (∃ rest, s.sent = s.consumed ++ rest ∧
      ∀ (fin : Fin) (fuel : Nat),
        (split d (s.handed.length + fuel) s.sent fin).1 = s.handed.map MsgRes.msg ++ (split d fuel rest fin).1) := by
  obtain ⟨inv, ⟨r, hr1, _⟩, hcut⟩ := Inv_reach' d true c es s h
  refine ⟨?_, ?_, ?_, ?_, ?_⟩
  · rw [inv.closes]; split <;> simp_all
  · intro hc; exact inv.goneTerm (inv.chanGone hc)
  · intro hq ht hh
    have r := CInv_quiet d s inv hq ht hh
    exact ⟨r.1, r.2.1⟩
  · intro s' hg hn hs
    have := (inv.exGone hg).1
    simp [CN.step, hn, this] at hs
    subst hs; rfl
  · exact ⟨r, hr1, fun fin fuel => by rw [hr1, hcut r fin fuel]⟩

/-- (a writer stuck in the transport) closing takes no lock (`C14_close_gen`), so in EVERY state
    reached by any interleaving of a writer, a peer that stops reading and a close request, a
    close that was asked for and has not happened yet can happen at once: nothing it waits for.
    The connection therefore does get "gone", and `C14_once` / `C14_only_when_gone` apply. -/
theorem C14_close_never_waits (es : List CLEv) (s : CLState) (_h : CLState.run false {} es = some s)
    (hr : s.closeRequested = true) (hc : s.closed = false) :
    ∃ s', s.step false .closeDo = some s' ∧ s'.closed = true :=
  CL_close_enabled s hr hc

/-- and once the transport is closed, a write that was stuck in it cannot complete, fails, and
    leaves the write mutex free -/
theorem C14_stuck_writer_released (s : CLState) (hw : s.writer = .inTransport) (hc : s.closed = true) :
    s.step false .xferDone = none ∧
    ∃ s', s.step false .writeFails = some s' ∧ s'.writer = .failed ∧ s'.lockHeld = false :=
  CL_writer_released s hw hc

/-- the variant in which closing first takes the write mutex: a writer enters the transport, the
    peer stops reading, Close is called - and no event other than "the peer stops reading" (which
    changes nothing) is enabled ever again: the connection is never closed, the notification
    never fires, the writer never returns -/
theorem C14_close_behind_write_lock_counterexample :
    ∃ s, CLState.run true {} [.write, .acquire, .peerStops, .closeCall] = some s ∧
      s.closeRequested = true ∧ s.closed = false ∧ s.writer = .inTransport ∧
      ∀ e ∈ CLEv.all, s.step true e = none ∨ s.step true e = some s :=
  ⟨_, rfl, rfl, rfl, rfl, by decide⟩

/-- regenerated from server.go: `response.Close` and the deferred function of `conn.serve` reach
    `rwc.Close()` without acquiring any mutex on the way (calls into functions of the same file
    followed) -/
theorem C14_close_gen : Gen.closePaths = [("response.Close", [], true), ("conn.serve.defer1", [], true)] := by decide

/-- non-vacuity: the same schedule with the source's parameter ends closed, writer failed, mutex free -/
example : ((CLState.run false {} [.write, .acquire, .peerStops, .closeCall, .closeDo, .writeFails]).map
    (fun s => (s.closed, s.writer, s.lockHeld))) = some (true, .failed, false) := by decide

/-- structural facts the model stands on, regenerated from server.go: the reader loop's deferred
    exit path closes the transport and notifies; the handler is called synchronously -/
theorem C14_gen : Gen.serveDeferClose = true ∧ Gen.serveDeferNotify = true ∧ Gen.serveDispatchSync = true ∧
    Gen.closeNotifyMultiCalls = ["SetErrorHandler", "Close", "notifyClientGone"] := by decide

/-- non-vacuity: CloseNotify requested while the reader is blocked in Read, then the peer
    closes: the channel is closed, reader and copier have exited (the schedule F15 failed on) -/
example :
    let d : DictFn := { cmdRules := fun _ _ => some (1, 1), avpType := fun _ _ _ => 0 }
    ((CN.run d {} [.readerStep, .requestCN, .peerEof, .readerStep]).map
      (fun s => (s.chan, s.reader, s.copier, s.closes, s.quiescent d, s.terminated))) =
      some (.closed, .exited, .notStarted, 1, true, true) := by
  decide

/-- non-vacuity (multistream): requested while the reader is blocked, then a read error -/
example :
    let d : DictFn := { cmdRules := fun _ _ => some (1, 1), avpType := fun _ _ _ => 0 }
    ((CN.run d { multi := true } [.readerStep, .requestCN, .readErr, .readerStep]).map
      (fun s => (s.chan, s.reader, s.copier, s.closes, s.quiescent d, s.terminated))) =
      some (.closed, .exited, .notStarted, 1, true, true) := by
  decide

end DV.Props.C14
