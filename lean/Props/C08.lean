import Model
import Spec
import Gen
import Proofs.ConnData
import Proofs.Shared
/-!
  C08 — one connection: handlers one at a time, in arrival order; connections do not wait for
  each other. `Model.Conn` is one connection's reader loop (handler entered / returned as
  events); `Model.Shared` is any number of such connections sharing one `ServeMux`.
  All theorems are about every event sequence (every schedule), of any length.
-/
namespace DV.Props.C08
open DV DV.Spec

/-- Never two handlers active on one connection: the number of running handlers is 1 exactly
    while the reader goroutine is inside `ServeDIAM`, else 0, and it never exceeded 1. -/
theorem C08_one_at_a_time (d : DictFn) (c : Bool) (es : List CEv) (s : CN) (h : CN.run d { coal := c } es = some s) :
    s.active ≤ 1 ∧ s.maxActive ≤ 1 ∧ (s.active = 1 ↔ s.reader = .inHandler) := by
  have inv := (Inv_reach d c es s h).1
  refine ⟨?_, inv.maxAct, ?_⟩
  · rw [inv.act]; split <;> omega
  · rw [inv.act]; split <;> simp_all

/-- the next message is read only after the handler of the previous one has returned: a reader
    step is not enabled while a handler runs -/
theorem C08_next_after_return (d : DictFn) (s : CN) (h : s.reader = .inHandler) : s.step d .readerStep = none := by
  simp [CN.step, h]

/-- Arrival order: in every reachable state the messages handed to handlers, in the order they
    were handed over, are exactly the first messages of the reference split - by declared length -
    of the bytes the peer delivered, however they were fragmented; the rest of the split comes
    from the bytes still in flight. No message is skipped, repeated or reordered. -/
theorem C08_order (d : DictFn) (c : Bool) (es : List CEv) (s : CN) (h : CN.run d { coal := c } es = some s) :
    ∃ rest, s.sent = s.consumed ++ rest ∧
      ∀ (fin : Fin) (fuel : Nat),
        (split d (s.handed.length + fuel) s.sent fin).1 = s.handed.map MsgRes.msg ++ (split d fuel rest fin).1 := by
  obtain ⟨_, ⟨r, hr1, _⟩, hcut⟩ := Inv_reach d c es s h
  exact ⟨r, hr1, fun fin fuel => by rw [hr1, hcut r fin fuel]⟩

/-- ... and a live connection whose handler has returned and whose goroutines cannot move has
    dispatched every complete message that arrived. -/
theorem C08_all_dispatched (d : DictFn) (c : Bool) (es : List CEv) (s : CN) (h : CN.run d { coal := c } es = some s)
    (hq : s.quiescent d = true) (ht : s.terminated = false) (hh : s.reader ≠ .inHandler) :
    s.inbox = [] ∧ s.pipeData = [] ∧ nextMsg d s.rbuf = .need :=
  CInv_nothing_stuck d s (Inv_reach d c es s h).1 hq ht hh

/-- Non-interference: in every schedule of a server with any number of connections, what
    connection `j` does is what it would do alone on its own events. A handler held forever on
    another connection is just the absence of its return event - it cannot delay `j`. -/
theorem C08_frame (d : DictFn) (df : Bool) (es : List (Nat × CEv)) (S S' : Sys) (j : Nat) (cj : CN)
    (h : S.run d df es = some S') (hj : S.conns[j]? = some cj) :
    ∃ cj', S'.conns[j]? = some cj' ∧ cj.run d (projEv j es) = some cj' :=
  Sys.frame d df es S S' j cj h hj

/-- an event enabled on connection `j` alone is enabled in the system, whatever state the other
    connections are in -/
theorem C08_enabled (d : DictFn) (df : Bool) (S : Sys) (j : Nat) (cj cj' : CN) (e : CEv)
    (hj : S.conns[j]? = some cj) (he : cj.step d e = some cj') : (S.step d df j e).isSome = true := by
  simp [Sys.step, hj, he]

/-- structural facts regenerated from the source: the handler call in `conn.serve` is a plain
    statement inside the read loop (not `go`, not a channel send); every connection gets its own
    `go c.serve()`; `ServeMux.ServeDIAM` takes the mux lock in read mode -/
theorem C08_gen : Gen.serveDispatchSync = true ∧ Gen.goServeSites = 4 ∧ Gen.muxServeRLockDeferred = true ∧
    Gen.acceptSpawnsServe = true ∧
    -- what the connections of `Sys` share is the handler, the mux's read lock and the byte-buffer
    -- pools: package diam has no package-level channel, mutex, condition or wait group, `Server`
    -- has no such field, and `serverHandler.ServeDIAM` only hands the message to the handler -
    -- nothing one connection's loop could wait for another connection's handler on (`C08_frame`)
    Gen.sharedBlockingState = [] ∧ Gen.serverHandlerCalls = ["handler.ServeDIAM"] := by decide

/-- non-vacuity: two connections; a handler is held on connection 0 while connection 1 receives,
    dispatches and finishes a message -/
example :
    let d : DictFn := { cmdRules := fun _ _ => some (1, 1), avpType := fun _ _ _ => 0 }
    let m1 : Bytes := [1,0,0,20,0x80,0,1,1, 0,0,0,0, 0,0,0,1, 0,0,0,1]
    let m2 : Bytes := [1,0,0,20,0x80,0,1,1, 0,0,0,0, 0,0,0,2, 0,0,0,2]
    (((Sys.init [false, false]).run d true
        [(0, .deliver m1), (0, .readerStep), (0, .readerStep), (1, .deliver m2), (1, .readerStep), (1, .readerStep),
         (1, .handlerReturn)]).map
      (fun S => (S.conns.map (fun c => (c.handed.map (·.hdr.hbh), c.active)), S.rlocks))) =
      some ([([1], 1), ([2], 0)], 1) := by
  decide

end DV.Props.C08
