import Model
import Spec
import Gen
import Proofs.Client
import Proofs.ConnWrite
/-!
  C12 — client handshake: bounded retransmission, definite outcome, stable afterwards.
  `Model.Client.HS`: the handshake goroutine (write CER; select {errc, RetransmitInterval};
  MaxRetransmits+1 rounds; Close on every failure path), the connection's reader dispatching
  CEAs to `handleCEA` (send on / close of `errc`), the transport. Time is logical: `timer` is
  the `time.After` branch being taken, so consecutive CERs are separated by at least one
  RetransmitInterval by construction of `select`. All theorems: every event sequence, any length.
-/
namespace DV.Props.C12
open DV

/-- the handshake as the current source configures it: capacity of `errc` and the once-only CEA
    handler are regenerated facts -/
def cur (R : Nat) (wd : Bool) : HS := HS.init R Gen.capErrc Gen.ceaHandlerOnce wd

theorem cur_inv (R : Nat) (wd : Bool) : HInv (cur R wd) := by
  have h1 : Gen.capErrc = 1 := by decide
  have h2 : Gen.ceaHandlerOnce = true := by decide
  unfold cur; rw [h1, h2]; exact HInv_init R 1 wd (by omega)

/-- (i) At most MaxRetransmits+1 CERs are ever written, and between two consecutive writes a
    retransmission timer expired: #CER ≤ #expiries + 1. -/
theorem C12_bound (R : Nat) (wd : Bool) (es : List HEv) (s : HS) (h : (cur R wd).run es = some s) :
    s.cers ≤ R + 1 ∧ s.cers ≤ s.timers + 1 := by
  have inv := HInv_run es _ s (cur_inv R wd) h
  have hR : s.R = R := by
    have : ∀ (es : List HEv) (a b : HS), a.run es = some b → b.R = a.R := by
      intro es
      induction es with
      | nil => intro a b hr; simp [HS.run] at hr; subst hr; rfl
      | cons e es ih =>
        intro a b hr
        simp only [HS.run] at hr
        cases hst : a.step e with
        | none => simp [hst] at hr
        | some a1 =>
          simp only [hst] at hr
          rw [ih a1 b hr]
          cases e <;> simp only [HS.step] at hst <;> (repeat' split at hst) <;> simp_all <;> (try (subst hst; first | rfl | simp))
    exact this es _ s h
  have := inv.cersLe
  rw [hR] at this
  exact ⟨this.1, this.2.1⟩

/-- (iii) Definite outcome. The dial returns a connection only if a success CEA was processed
    (peer metadata stored), and then the library has not closed the transport; every other
    outcome - error reported by the CEA handler, write failure, timeout - has closed it. -/
theorem C12_outcome (R : Nat) (wd : Bool) (es : List HEv) (s : HS) (h : (cur R wd).run es = some s) :
    (s.pc = .done .ok → s.hasMeta = true ∧ s.libClosed = false) ∧
    (∀ o, s.pc = .done o → o ≠ .ok → s.libClosed = true) ∧
    (s.libClosed = true → ∃ o, s.pc = .done o ∧ o ≠ .ok) := by
  have inv := HInv_run es _ s (cur_inv R wd) h
  exact ⟨inv.okMeta, inv.failClosed, inv.libDone⟩

/-- the timeout outcome only after all MaxRetransmits+1 timers expired -/
theorem C12_timeout_last (s s' : HS) (h : s.step .timer = some s') (ht : s'.pc = .done .timeout) :
    s.round + 1 = s.R + 1 ∨ s.R + 1 ≤ s.round := by
  simp only [HS.step] at h
  split at h
  · split at h
    · cases h; simp at ht
    · cases h; omega
  · cases h

/-- (iv) Stable afterwards: once the dial has returned a connection, whatever the peer sends
    next - duplicates of the success CEA, late failing CEAs, anything - the outcome stays, the
    library never closes the transport, the metadata stays, nothing panics. -/
theorem C12_stable (R : Nat) (wd : Bool) (es es' : List HEv) (s s' : HS) (h : (cur R wd).run es = some s)
    (hok : s.pc = .done .ok) (h' : s.run es' = some s') :
    s'.pc = .done .ok ∧ s'.hasMeta = true ∧ s'.libClosed = false ∧ s'.panics = 0 := by
  have inv := HInv_run es _ s (cur_inv R wd) h
  have : ∀ (es' : List HEv) (a b : HS), HInv a → a.pc = .done .ok → a.run es' = some b → b.pc = .done .ok ∧ HInv b := by
    intro es'
    induction es' with
    | nil => intro a b ha hp hr; simp [HS.run] at hr; subst hr; exact ⟨hp, ha⟩
    | cons e es ih =>
      intro a b ha hp hr
      simp only [HS.run] at hr
      cases hst : a.step e with
      | none => simp [hst] at hr
      | some a1 =>
        simp only [hst] at hr
        have ha1 := HInv_step a a1 e ha hst
        have hp1 : a1.pc = .done .ok := by
          cases e <;> simp only [HS.step, hp] at hst <;> (repeat' split at hst) <;> simp_all <;> (try (subst hst; simp [hp]))
        exact ih a1 b ha1 hp1 hr
  obtain ⟨hp, hi⟩ := this es' s s' inv hok h'
  exact ⟨hp, (hi.okMeta hp).1, (hi.okMeta hp).2, hi.noPanic⟩

/-- (v) In no reachable state is the reader blocked on `errc`, and no channel operation panics
    (no close of a closed channel, no send on a closed channel). -/
theorem C12_noblock (R : Nat) (wd : Bool) (es : List HEv) (s : HS) (h : (cur R wd).run es = some s) :
    s.pending = false ∧ s.panics = 0 := by
  have inv := HInv_run es _ s (cur_inv R wd) h
  exact ⟨inv.noBlock, inv.noPanic⟩

/-- The model distinguishes: with an unbuffered `errc` and a CEA handler that runs every time
    (the code before the repair 1626f84), a duplicate success CEA after the handshake closes
    `errc` a second time - a panic that `conn.serve` turns into a closed connection. -/
theorem C12_duplicate_cea_counterexample :
    ((HS.init 0 0 false false).run [.writeOk, .cea .success, .takeErrc, .cea .success]).map
      (fun s => (s.pc, s.panics, s.readerGone)) = some (.done .ok, 1, true) := by decide

/-- ... and a failing CEA whose handler reaches its (unbuffered) send just as the last timer
    branch is taken leaves the reader blocked forever -/
theorem C12_late_failure_counterexample :
    ((HS.init 0 0 false false).run [.writeOk, .cea .failing, .timer]).map
      (fun s => (s.pc, s.pending)) = some (.done .timeout, true) := by decide

/-- (ii) The CER carries the configured identity, every host address, every Supported-Vendor-Id,
    Auth / Acct / Vendor-Specific application AVP it was given, and Inband-Security-Id 0. -/
theorem C12_cer (cfg : Settings) (ips : List Bytes) (apps : ClientApps) :
    newAVP C.originHost 64 0 (.str T.ident cfg.originHost) ∈ makeCER cfg ips apps ∧
    newAVP C.originRealm 64 0 (.str T.ident cfg.originRealm) ∈ makeCER cfg ips apps ∧
    (∀ ip ∈ ips, newAVP C.hostIP 64 0 (.addr ip) ∈ makeCER cfg ips apps) ∧
    (∀ a ∈ apps.supportedVendor ++ apps.auth ++ apps.acct ++ apps.vsa, a ∈ makeCER cfg ips apps) ∧
    newAVP C.inband 64 0 (.fix T.u32 0) ∈ makeCER cfg ips apps := by
  refine ⟨by simp [makeCER], by simp [makeCER], ?_, ?_, by simp [makeCER]⟩
  · intro ip hip
    simp only [makeCER, List.mem_append, List.mem_map]
    exact Or.inl (Or.inl (Or.inl (Or.inl (Or.inl (Or.inl (Or.inl (Or.inl (Or.inr ⟨ip, hip, rfl⟩))))))))
  · intro a ha
    simp only [List.mem_append] at ha
    simp only [makeCER, List.mem_append]
    rcases ha with ((h | h) | h) | h
    · exact Or.inl (Or.inl (Or.inl (Or.inl (Or.inl (Or.inr h)))))
    · exact Or.inl (Or.inl (Or.inl (Or.inl (Or.inr h))))
    · exact Or.inl (Or.inl (Or.inr h))
    · exact Or.inl (Or.inr h)

/-- the CEA decides: accepted exactly when Result-Code is 2001, Origin-Host and Origin-Realm are
    present and an application is shared (the same application check as C11) -/
theorem C12_cea_accept (appOK : Nat → Nat → Bool) (as : List AVP) (m : Meta) (h : ceaParse appOK as = .ok m) :
    u32Field C.resultCode as = 2001 ∧ m.host = strField C.originHost as ∧ m.host.isEmpty = false ∧
    m.realm = strField C.originRealm as ∧ m.realm.isEmpty = false ∧
    (appParse appOK (allOf C.acctApp as) (allOf C.authApp as) (allOf C.vsa as)).1 = none := by
  unfold ceaParse at h
  simp only [] at h
  split at h
  · cases h
  · split at h
    · cases h
    · split at h
      · cases h
      · split at h
        · cases h
        · split at h
          · cases h
          · cases h
          · rename_i ids hp
            cases h
            refine ⟨by omega, rfl, by simp_all, rfl, by simp_all, by rw [hp]⟩

/-- Several handshakes through one `sm.Client` (concurrent dials, or a dial while other
    connections live) share the state machine's CEA handler; with the handler finding the waiting
    handshake in the context of the connection the CEA arrived on (`Gen.handshakeAnswerHandlers`),
    each handshake is credited exactly the CEAs of its own connection, in every interleaving - so
    the single-connection theorems above hold for each of them. -/
theorem C12_answers_by_connection (es : List ShareEv) (s : ShareState) (k : Nat) (hk : k < s.acks.length) :
    (s.run true es).acks.getD k 0 = s.acks.getD k 0 + answersOn k es :=
  (share_byConn es s k hk).1

/-- structural facts regenerated from client.go / cea.go -/
theorem C12_gen : Gen.handshakeAnswerHandlers =
      ["\"CEA\"=handleCEA(cli.Handler,nil)", "\"DWA\"=handshakeOK(handleDWA(cli.Handler,nil))"] ∧
    Gen.capErrc = 1 ∧ Gen.ceaHandlerOnce = true ∧
    Gen.handshakeMakeCER = ([], ["cli.makeCER(hostAddresses)"]) ∧ Gen.handshakeWrites = ["m.WriteTo(c)"] ∧
    Gen.handshakeCloses = (2, 2) ∧ Gen.handshakeLoopCond = "(i<((int(cli.MaxRetransmits)+1)))" ∧
    -- the handshake waits RetransmitInterval per transmission, and the state machine package sets
    -- no deadline on the transport (one left behind would outlive the handshake)
    Gen.clientTimers.filter (fun t => t.1 = "handshake") = [("handshake", "cli.RetransmitInterval")] ∧
    Gen.smDeadlineCalls = [] ∧
    (Gen.channelSends.filter (fun r => r.2.2 = "blocking")) = [("diam/sm:handleCEA", "errc", "blocking")] := by decide

/-- non-vacuity: budget 2; silence, silence, then a success CEA: three CERs, two expiries, ok -/
example : ((cur 2 false).run [.writeOk, .timer, .writeOk, .timer, .writeOk, .cea .success, .takeErrc, .cea .failing, .cea .success]).map
    (fun s => (s.pc, s.cers, s.timers, s.hasMeta, s.libClosed, s.panics)) = some (.done .ok, 3, 2, true, false, 0) := by
  decide

end DV.Props.C12
