import Model
import Spec
import Gen
import Proofs.Encode
import Proofs.Header
import Props.C01
/-!
  C02 — wire images match an independent RFC 6733 reference codec; header length bookkeeping;
  closed forms for the arithmetic kernels regenerated from the source (`Gen.Arith`), for ALL
  arguments (these replace the 2^24 / 2^32 sweeps by theorems).
-/
namespace DV.Props.C02
open DV DV.Spec

/-! ### arithmetic kernels, as translated from the Go source by the extractor -/

/-- `datatype.pad4`: `n + ((4 - n) & 3)` rounds every non-negative n up to a multiple of four -/
theorem C02_pad4 (n : Nat) : Gen.pad4 (n : Int) = ((DV.pad4 n : Nat) : Int) := by
  unfold Gen.pad4 DV.pad4; omega

theorem C02_pad4_spec (n : Nat) : DV.pad4 n % 4 = 0 ∧ n ≤ DV.pad4 n ∧ DV.pad4 n < n + 4 := by
  unfold DV.pad4; omega

theorem bor_disjoint (a b k : Nat) (hb : b < 2 ^ k) : (a * 2 ^ k) ||| b = a * 2 ^ k + b := by
  rw [← Nat.shiftLeft_eq, Nat.shiftLeft_add_eq_or_of_lt hb]

/-- `uint24to32`: `uint32(b[0])<<16 | uint32(b[1])<<8 | uint32(b[2])` is the big-endian value -/
theorem C02_uint24to32 (b0 b1 b2 : Nat) (h0 : b0 < 256) (h1 : b1 < 256) (h2 : b2 < 256) :
    Gen.uint24to32 b0 b1 b2 = ((b0 * 65536 + b1 * 256 + b2 : Nat) : Int) := by
  unfold Gen.uint24to32 Gen.bor
  have e0 : ((b0 : Int) % 4294967296 * 65536).toNat = b0 * 2 ^ 16 := by omega
  have e1 : ((b1 : Int) % 4294967296 * 256).toNat = b1 * 2 ^ 8 := by omega
  have e2 : ((b2 : Int) % 4294967296).toNat = b2 := by omega
  rw [e0, e1, e2]
  have s1 : b0 * 2 ^ 16 ||| b1 * 2 ^ 8 = (b0 * 2 ^ 8 + b1) * 2 ^ 8 := by
    have : b0 * 2 ^ 16 = (b0 * 2 ^ 8) * 2 ^ 8 := by omega
    rw [this, ← Nat.shiftLeft_eq, ← Nat.shiftLeft_eq (b1), ← Nat.shiftLeft_eq (b0 * 2 ^ 8 + b1)]
    rw [← Nat.shiftLeft_or_distrib]
    congr 1
    exact bor_disjoint b0 b1 8 (by omega)
  simp only [s1]
  have e3 : (Int.ofNat ((b0 * 2 ^ 8 + b1) * 2 ^ 8)).toNat = (b0 * 2 ^ 8 + b1) * 2 ^ 8 := rfl
  rw [e3, bor_disjoint _ b2 8 (by omega)]
  exact congrArg Int.ofNat (by omega)

/-- `uint32to24` emits the three low-order bytes, most significant first -/
theorem C02_uint32to24 (n : Nat) :
    Gen.uint32to24 n = [((n / 65536 % 256 : Nat) : Int), ((n / 256 % 256 : Nat) : Int), ((n % 256 : Nat) : Int)] := by
  unfold Gen.uint32to24
  simp only [List.cons.injEq, and_true]
  refine ⟨by omega, by omega, by omega⟩

/-- the 24-bit conversion is a bijection on [0, 2^24): decode ∘ encode = id, for every n -/
theorem C02_uint24_roundtrip (n : Nat) (h : n < 16777216) :
    Gen.uint24to32 (n / 65536 % 256 : Nat) (n / 256 % 256 : Nat) (n % 256 : Nat) = (n : Int) := by
  rw [C02_uint24to32 _ _ _ (by omega) (by omega) (by omega)]
  omega

/-- the model's `be 3` / `rd` agree with it -/
theorem C02_be3_rd (n : Nat) : rd (be 3 n) = n % 16777216 := by rw [rd_be]

/-- `Time.Serialize`: the value written is (unix + 2208988800) mod 2^32 -/
theorem C02_time_enc (u : Int) :
    Gen.timeEnc u Gen.rfc868offset % 4294967296 = (u + 2208988800) % 4294967296 := by
  unfold Gen.timeEnc Gen.rfc868offset; omega

/-- `DecodeTime` inverts it on the whole two-era window, for every second -/
theorem C02_time_roundtrip (u : Int) (h1 : -61505152 ≤ u) (h2 : u < 4233462144) :
    let n := (u + 2208988800) % 4294967296
    (if n < 2147483648 then Gen.timeDecLow n Gen.rfc868offset Gen.rfc2030offset
     else Gen.timeDecHigh n Gen.rfc868offset Gen.rfc2030offset) = u := by
  unfold Gen.timeDecLow Gen.timeDecHigh Gen.rfc868offset Gen.rfc2030offset
  simp only
  split <;> omega

/-- the model's time codec is the regenerated one -/
theorem C02_time_model (u : Int) :
    encTime u = be 4 ((Gen.timeEnc u Gen.rfc868offset % 4294967296).toNat) := by
  unfold encTime; rw [C02_time_enc]; rfl

/-! ### the wire image is the RFC 6733 image -/

/-- For every tree of canonical values (every data type, any nesting, any flags, vendor ids):
    the bytes the library emits for the AVPs are exactly those of the independent RFC encoder,
    and `Len()` is their number. -/
theorem C02_ref_enc_avps (as : List AVP) (h : canonL as = true) :
    encL as = emitL as ∧ lenL as = sizeL as := encL_eq as h

/-- Header: version, 24-bit length, flags, 24-bit code, application, hop-by-hop, end-to-end. -/
theorem C02_ref_enc_msg (m : Msg) (h : canonL m.avps = true) (hv : m.hdr.version = 1)
    (hl : m.hdr.len = m.len) :
    m.enc = Spec.encode m.hdr.flags m.hdr.cmd m.hdr.app m.hdr.hbh m.hdr.e2e m.avps := by
  have := encL_eq m.avps h
  unfold Msg.enc Header.enc Spec.encode
  rw [hv, hl, Msg.len, this.1, this.2]
  simp

/-- Decode direction: the wire image the *reference* encoder produces for a message is read by
    the library into the same header and the same ordered tree of typed values (Length fields
    filled in) - for every dictionary, header and canonical tree below the 24-bit limit. -/
theorem C02_ref_dec (d : DictFn) (m : Msg) (nreq nans : Nat)
    (hv : m.hdr.version = 1) (hf : m.hdr.flags < 256) (hcmd : m.hdr.cmd < 16777216)
    (happ : m.hdr.app < 4294967296) (hh : m.hdr.hbh < 4294967296) (he : m.hdr.e2e < 4294967296)
    (hlen : m.hdr.len = m.len) (hsz : m.len < 16777216)
    (hcmdr : d.cmdRules m.hdr.app m.hdr.cmd = some (nreq, nans))
    (hrules : (if isRequest m.hdr.flags then nreq else nans) ≠ 0)
    (hc : canonL m.avps = true) (ht : typedOkL (d.avpType m.hdr.app) m.avps = true) :
    decodeMsg d (Spec.encode m.hdr.flags m.hdr.cmd m.hdr.app m.hdr.hbh m.hdr.e2e m.avps) =
      .ok { hdr := m.hdr, avps := wireL m.avps } := by
  rw [← C02_ref_enc_msg m hc hv hlen]
  exact DV.Props.C01.C01_api_msg d m nreq nans (by omega) hf hcmd happ hh he hlen hsz hcmdr hrules hc ht

/-- message length = 20 + the padded AVPs, each a multiple of four -/
theorem C02_len_mod4 (as : List AVP) (h : canonL as = true) : (20 + lenL as) % 4 = 0 := by
  have := (encL_eq as h).2
  have := sizeL_mod as
  omega

theorem lenL_append : ∀ (xs ys : List AVP), lenL (xs ++ ys) = lenL xs + lenL ys
  | [], ys => by simp [lenL]
  | x :: r, ys => by simp [lenL, lenL_append r ys, Nat.add_assoc]

/-- one assembly operation of the message API -/
inductive Op where
  | add (a : AVP)      -- Message.NewAVP / Message.AddAVP
  | insert (a : AVP)   -- Message.InsertAVP
  | marshal (as : List AVP) -- Message.Marshal (replaces the AVPs, recomputes the length)

def Op.apply (m : Msg) : Op → Msg
  | .add a => m.addAVP a
  | .insert a => m.insertAVP a
  | .marshal as => { m with hdr := { m.hdr with len := (20 + lenL as) % 4294967296 }, avps := as }

/-- Bookkeeping: after ANY sequence of add / insert / marshal operations on a message whose
    header length was right, the header length equals the serialised size (as long as that
    size fits the uint32 field). Induction over the operation list. -/
theorem C02_length (ops : List Op) (m : Msg) (h0 : m.hdr.len = m.len)
    (hfit : ∀ k, ((ops.take k).foldl Op.apply m).len < 4294967296) :
    (ops.foldl Op.apply m).hdr.len = (ops.foldl Op.apply m).len := by
  induction ops generalizing m with
  | nil => simpa using h0
  | cons op r ih =>
    simp only [List.foldl_cons]
    apply ih
    · have h1 := hfit 1
      simp only [List.take_succ_cons, List.take_zero, List.foldl_cons, List.foldl_nil] at h1
      cases op with
      | add a =>
        simp only [Op.apply, Msg.addAVP, Msg.len, lenL_append, lenL] at h1 ⊢
        rw [h0, Msg.len]; omega
      | insert a =>
        simp only [Op.apply, Msg.insertAVP, Msg.len, lenL] at h1 ⊢
        rw [h0, Msg.len]; omega
      | marshal as =>
        simp only [Op.apply, Msg.len] at h1 ⊢
        omega
    · intro k
      have := hfit (k + 1)
      simpa [List.take_succ_cons] using this

/-- a fresh message (`NewMessage`) satisfies the premise -/
theorem C02_new_message (cmd flags app hbh e2e r1 r2 : Nat) :
    (newMessage cmd flags app hbh e2e r1 r2).hdr.len = (newMessage cmd flags app hbh e2e r1 r2).len ∧
    (newMessage cmd flags app hbh e2e r1 r2).hdr.version = 1 := by
  simp [newMessage, Msg.len, lenL]

/-! ### header layout -/

/-- the field offsets read off `Header.SerializeTo` and `Header.DecodeFromBytes` are the RFC's -/
theorem C02_layout : Gen.hdrLayoutEnc = rfcHeaderLayout ∧ Gen.hdrLayoutDec = rfcHeaderLayout ∧
    Gen.avpLayoutEnc = [("Code", 0, 4), ("Flags", 4, 5), ("Data", 5, 8), ("VendorID", 8, 12)] ∧
    Gen.avpLayoutDec = [("Code", 0, 4), ("Flags", 4, 5), ("Length", 5, 8), ("VendorID", 8, 12)] := by
  decide

theorem C02_gen : Gen.rfc868offset = rfc868 ∧ Gen.rfc2030offset = rfc2030 ∧ Gen.HeaderLength = 20 ∧
    Gen.Vbit = 128 ∧ Gen.typeIds.map (·.2) = List.range 19 ∧
    -- lengths are functions of the tree (`Len`, `C02_length`): the value types carry no remembered size
    -- (AVP.Length is the one cached number; C01-b / C02-e: it is not what is written)
    Gen.groupedStructFields = ["AVP []*AVP"] ∧
    Gen.avpStructFields = ["Code uint32", "Flags uint8", "Length int", "VendorID uint32", "Data datatype.Type"] := by decide

/-- `DecodeHeader (Header.Serialize h) = h` for every in-range header -/
theorem C02_header_roundtrip (h : Header) (hv : h.version < 256) (hl : h.len < 16777216) (hf : h.flags < 256)
    (hc : h.cmd < 16777216) (ha : h.app < 4294967296) (hh : h.hbh < 4294967296) (he : h.e2e < 4294967296) :
    decodeHeader h.enc = .ok h := header_roundtrip h hv hl hf hc ha hh he

/-- non-vacuity: a message with a vendor-specific grouped AVP, an odd-length string, an IPv6
    address and a pre-epoch time satisfies the hypotheses of `C02_ref_enc_msg` -/
example :
    canonL [.mk 260 192 0 10415 (.group [.mk 264 64 0 0 (.str 2 [104, 105, 33]), .mk 55 0 0 0 (.time (-1))]),
            .mk 257 64 0 0 (.addr [32,1,13,184,0,0,0,0,0,0,0,0,0,0,0,1])] = true := by decide

end DV.Props.C02
