import Model
import Spec
import Gen
import Props.C10
import Props.C11
import Proofs.ConnWrite
/-!
  C16 — answers mirror the request they answer. Theorems about `Msg.answer`
  (`Message.Answer`); `r1 r2` stand for whatever `rand.Uint32()` would return inside
  `NewMessage`, so "mirrors zero" is a statement for all oracle values.
-/
namespace DV.Props.C16
open DV

/-- Every answer built by `Message.Answer` has the request's command code, application id and
    both identifiers (zero included), for every header, result code and random oracle. -/
theorem C16_answer_ids (m : Msg) (rc r1 r2 : Nat) :
    (m.answer rc r1 r2).hdr.cmd = m.hdr.cmd ∧
    (m.answer rc r1 r2).hdr.app = m.hdr.app ∧
    (m.answer rc r1 r2).hdr.hbh = m.hdr.hbh ∧
    (m.answer rc r1 r2).hdr.e2e = m.hdr.e2e := by
  unfold Msg.answer newMessage Msg.addAVP
  by_cases h : rc ≠ 0 <;> simp [h]

/-- The request bit is cleared, every other flag bit (P, E, T, reserved) is unchanged. -/
theorem C16_answer_flags (m : Msg) (rc r1 r2 : Nat) (hf : m.hdr.flags < 256) :
    isRequest (m.answer rc r1 r2).hdr.flags = false ∧
    (m.answer rc r1 r2).hdr.flags % 128 = m.hdr.flags % 128 := by
  unfold Msg.answer newMessage Msg.addAVP isRequest
  by_cases h : rc ≠ 0 <;> by_cases hr : m.hdr.flags / 128 % 2 = 1 <;> simp [h, hr] <;> omega

/-- A Result-Code AVP (code 268, M flag, Unsigned32) is the only AVP iff a result code was asked for. -/
theorem C16_answer_result_code (m : Msg) (rc r1 r2 : Nat) :
    (rc ≠ 0 → (m.answer rc r1 r2).avps = [newAVP 268 64 0 (.fix T.u32 (rc % 4294967296))]) ∧
    (rc = 0 → (m.answer rc r1 r2).avps = []) := by
  unfold Msg.answer newMessage Msg.addAVP
  by_cases h : rc ≠ 0 <;> simp [h]

/-- The answer carries the stream the request arrived on, and `WriteTo` writes it there. -/
theorem C16_answer_stream (m : Msg) (rc r1 r2 : Nat) :
    (m.answer rc r1 r2).stream = m.stream ∧ (m.answer rc r1 r2).writeStream = m.stream := by
  unfold Msg.writeStream Msg.answer
  simp

/-- `SCTPConn.WriteStream` maps every stream number below 2^16 to itself. -/
theorem C16_sctp_stream (s : Nat) (h : s < 65536) : sctpStreamOf s = s := by
  unfold sctpStreamOf invalidStream
  have : s ≠ 18446744073709551615 := by omega
  simp [this]; omega

/-- the header length kept by the answer equals its serialised size -/
theorem C16_answer_len (m : Msg) (rc r1 r2 : Nat) :
    (m.answer rc r1 r2).hdr.len = (m.answer rc r1 r2).len := by
  unfold Msg.answer newMessage Msg.addAVP Msg.len
  by_cases h : rc ≠ 0 <;> simp [h, lenL, newAVP, AVP.len, hdrLen, hasV, Val.len, fixW, T.u32, T.f64, T.i64, T.u64]

/-- the state machine's CEA (success and failure) mirrors the request: identifiers (zero
    included), command code, application id -/
theorem C16_cea (cfg : Settings) (apps : List SApp) (ips : List Bytes) (req : Header) (v : CERView) (e : PErr)
    (hf : req.flags < 256) :
    (successCEA cfg apps ips req v).hdr.hbh = req.hbh ∧ (successCEA cfg apps ips req v).hdr.e2e = req.e2e ∧
    (successCEA cfg apps ips req v).hdr.cmd = req.cmd ∧ (successCEA cfg apps ips req v).hdr.app = req.app ∧
    (errorCEA cfg ips req v.osid e).hdr.hbh = req.hbh ∧ (errorCEA cfg ips req v.osid e).hdr.e2e = req.e2e := by
  have h := DV.Props.C11.C11_cea_fields cfg apps ips req v e hf
  exact ⟨h.1, h.2.1, h.2.2.1, h.2.2.2.1, h.2.2.2.2.2.1, h.2.2.2.2.2.2.1⟩

/-- the state machine's DWA mirrors the request -/
theorem C16_dwa (cfg : Settings) (req : Header) (hf : req.flags < 256) :
    (dwa cfg req).hdr.hbh = req.hbh ∧ (dwa cfg req).hdr.e2e = req.e2e ∧ (dwa cfg req).hdr.cmd = req.cmd ∧
    (dwa cfg req).hdr.app = req.app ∧ isRequest (dwa cfg req).hdr.flags = false ∧
    (dwa cfg req).hdr.flags % 128 = req.flags % 128 := by
  have h := DV.Props.C10.C13_dwa_fields cfg req hf
  exact ⟨h.1, h.2.1, h.2.2.1, h.2.2.2.1, h.2.2.2.2.1, h.2.2.2.2.2.1⟩

/-- Answers written at the same time keep their streams: `response.WriteStream` hands the stream
    to the association together with the bytes (`Gen.responseWriteStreamExits`), so in every
    interleaving of any number of writing goroutines each message the association is given
    carries the stream of the write that produced it. -/
theorem C16_concurrent_streams (es : List SWEv) :
    ∀ p ∈ (({} : SWState).run true es).log, SWEv.write p.1 p.2 ∈ es := by
  intro p hp
  rcases SW_direct es {} p hp with h | h
  · simp at h
  · exact h

/-- ... whereas selecting the association's writer stream first and writing afterwards lets
    another goroutine's selection in between: answer 1, for stream 3, leaves on stream 9 -/
theorem C16_select_then_write_counterexample :
    (({} : SWState).run false [.select 1 3, .select 2 9, .write 1 3, .write 2 9]).log = [(1, 9), (2, 9)] := by
  decide

/-- obligations on the regenerated constants the model hard-codes, and on the shape of
    `response.WriteStream` -/
theorem C16_gen : Gen.RequestFlag = 128 ∧ Gen.InvalidStreamID = invalidStream ∧ Gen.Mbit = 64 ∧
    Gen.responseWriteStreamExits = ["return msc.WriteStream(b,stream)", "return w.Write(b)"] ∧
    -- an answer inherits its request's stream, and WriteTo / WriteToWithRetry write to the message's
    -- own stream - not to whatever stream is pinned on the connection (`Msg.answer`, `Msg.writeStream`)
    Gen.writeStreamArgs = ["WriteTo:WriteToStream:m.stream", "WriteToWithRetry:WriteToStreamWithRetry:m.stream",
      "WriteToStream:WriteToStreamWithRetry:stream", "Answer:stream:m.stream"] := by decide

/-- non-vacuity: a request with both identifiers zero, P bit set, on stream 3 -/
example :
    let m : Msg := { hdr := { version := 1, len := 20, flags := 192, cmd := 272, app := 4, hbh := 0, e2e := 0 }, avps := [], stream := 3 }
    (m.answer 2001 77 88).hdr.hbh = 0 ∧ (m.answer 2001 77 88).hdr.flags = 64 ∧ (m.answer 2001 77 88).stream = 3 := by
  decide

end DV.Props.C16
