import Model
import Spec
import Gen
import Proofs.Dict
import Proofs.DictMono
import Proofs.Codec
/-!
  C17 — dictionary lookups resolve through the application, its parents, then base.
  `Parser` is the indexed model of `dict.Parser` (maps with overwrite, wildcard entries, partial
  loads kept on error); `Spec.Log` is the plain chronological record of definitions. All
  theorems are for every list of dictionary files (the embedded ones and any generated ones).
-/
namespace DV.Props.C17
open DV DV.Spec

/-- (a) Looking up an AVP by code for an application yields the most recently loaded definition
    for that application with the exact vendor id - or any vendor for the wildcard - else the
    parent applications' one by one, else the base application's. -/
theorem C17_resolution_code (available : List (Nat × Nat)) (fs : List FileRow) (parents : List (Nat × Nat))
    (fuel app code vendor : Nat) :
    (Parser.loadAll available fs).findCode parents fuel app code vendor =
      Spec.findCode (logAll available fs) parents fuel app code vendor :=
  findCode_refines _ _ parents (loadAll_refines available fs) fuel app code vendor

/-- ... and by name. -/
theorem C17_resolution_name (available : List (Nat × Nat)) (fs : List FileRow) (parents : List (Nat × Nat))
    (fuel app name vendor : Nat) :
    (Parser.loadAll available fs).findName parents fuel app name vendor =
      Spec.findName (logAll available fs) parents fuel app name vendor :=
  findName_refines _ _ parents (loadAll_refines available fs) fuel app name vendor

/-- (b) A command resolves in the message's own application, else in the base application. -/
theorem C17_command (available : List (Nat × Nat)) (fs : List FileRow) (app code : Nat) :
    (Parser.loadAll available fs).findCommand app code = Spec.findCommand (logAll available fs) app code :=
  findCommand_refines _ _ (loadAll_refines available fs) app code

/-- an undefined numeric code yields the opaque placeholder type, so decoding can proceed -/
theorem C17_placeholder (p : Parser) (parents : List (Nat × Nat)) (app code vendor : Nat)
    (h : p.findCode parents (chainFuel parents) app code vendor = none) :
    p.avpType parents app code vendor = T.unknown := by
  simp [Parser.avpType, h, T.unknown]

/-- (c) Loading one more dictionary never makes a resolvable AVP (by code or by name), command
    or application id unresolvable - for every earlier file list and every further file. -/
theorem C17_monotone (available : List (Nat × Nat)) (fs : List FileRow) (f : FileRow) (parents : List (Nat × Nat)) :
    (∀ fuel app code vendor, ((Parser.loadAll available fs).findCode parents fuel app code vendor).isSome →
        ((Parser.loadAll available (fs ++ [f])).findCode parents fuel app code vendor).isSome) ∧
    (∀ fuel app name vendor, ((Parser.loadAll available fs).findName parents fuel app name vendor).isSome →
        ((Parser.loadAll available (fs ++ [f])).findName parents fuel app name vendor).isSome) ∧
    (∀ app code, ((Parser.loadAll available fs).findCommand app code).isSome →
        ((Parser.loadAll available (fs ++ [f])).findCommand app code).isSome) ∧
    (∀ id typ, ((Parser.loadAll available fs).app id typ).isSome →
        ((Parser.loadAll available (fs ++ [f])).app id typ).isSome) := by
  rw [loadAll_snoc]
  have he := load_ext available (Parser.loadAll available fs) f
  refine ⟨?_, ?_, ?_, ?_⟩
  · intro fuel app code vendor h; exact findCode_mono _ _ he parents fuel app code vendor h
  · intro fuel app name vendor h; exact findName_mono _ _ he parents fuel app name vendor h
  · intro app code h; exact findCommand_mono _ _ he app code h
  · intro id typ h; exact app_mono _ _ he (loadAll_cons available fs) id typ h

/-- the parent table regenerated from util.go has no cycle: from every application id the
    chain reaches the base application within three steps, so the `goto retry` loop terminates
    and `chainFuel` (= table size + 2) iterations are enough -/
theorem C17_chain (app : Nat) :
    parentOf Gen.parentAppIds (parentOf Gen.parentAppIds (parentOf Gen.parentAppIds app)) = 0 := by
  unfold parentOf Gen.parentAppIds
  simp only [alookup]
  by_cases h1 : app = 16777251
  · subst h1; decide
  by_cases h2 : app = 16777238
  · subst h2; decide
  by_cases h3 : app = 4
  · subst h3; decide
  have e1 : ((16777251 : Nat) == app) = false := by simp; exact fun e => h1 e.symm
  have e2 : ((16777238 : Nat) == app) = false := by simp; exact fun e => h2 e.symm
  have e3 : ((4 : Nat) == app) = false := by simp; exact fun e => h3 e.symm
  simp [e1, e2, e3]

/-- (d) every data type name a dictionary may declare has a decoder: `datatype.Available`
    (what `Load` accepts) maps into the keys of `datatype.Decoder`, and the codec model decodes
    every one of those type ids (never "unknown data type") -/
theorem C17_types :
    (Gen.available.all (fun p => Gen.decoderKeys.contains p.2)) = true ∧
    (Gen.available.all (fun p => Gen.marshalCases.contains p.2)) = true ∧
    (Gen.available.map (·.2)).all (fun t => t = T.grouped || (decodeLeaf t [0, 8, 1, 2]).isOk) = true := by
  decide

/-- (e) the exported code constants equal the codes in the embedded dictionaries: for every
    distinct (name, code) of every embedded dictionary for which a constant of the derived Go
    name (autogen.sh naming) exists, the constant has that value; same for commands and
    applications. (The Rx dictionary's AVPs have no constants at this commit - they are the
    entries marked `unrecognised`; that more than 700 AVP names ARE covered is part of the statement.) -/
theorem C17_consts :
    (Gen.avpCodeJoin.all (fun r => r.2.2 == Gen.unrecognised || r.2.1 == r.2.2)) = true ∧
    (Gen.avpCodeJoin.filter (fun r => r.2.2 != Gen.unrecognised)).length ≥ 700 ∧
    (Gen.cmdCodeJoin.all (fun r => r.2.1 == r.2.2)) = true ∧
    (Gen.appCodeJoin.all (fun r => r.2.2 == Gen.unrecognised || r.2.1 == r.2.2)) = true := by
  decide +kernel

/-- the embedded dictionaries load without error, in the order `dict.init()` loads them -/
theorem C17_default_loads :
    (Gen.dictFiles.foldl (fun (acc : Parser × Bool) f =>
        let r := acc.1.load Gen.availableIds f; (r.1, acc.2 && r.2)) ({}, true)).2 = true := by
  decide +kernel

theorem C17_gen : Gen.UndefinedVendorID = UndefinedVendorID ∧ Gen.dictLoadOrder.length = Gen.dictFiles.length := by
  decide

/-- non-vacuity: two files; the second redefines code 1 for application 9 under another vendor -/
example :
    let av : List (Nat × Nat) := [(5, 16), (6, 15)]
    let f1 : FileRow := [(0, 0, [], [(257, 1, 2, 3)], [(10, 1, 0, true, 5, 0)]), (9, 0, [], [], [(11, 1, 77, false, 5, 0)])]
    let f2 : FileRow := [(9, 0, [], [], [(12, 1, 78, false, 6, 2)])]
    let p := Parser.loadAll av [f1, f2]
    (p.findCode [] 3 9 1 77).map (·.name) = some 11 ∧ (p.findCode [] 3 9 1 UndefinedVendorID).map (·.name) = some 12 ∧
    (p.findCode [] 3 9 1 5).map (·.name) = none ∧ (p.findCode [] 3 9 1 0).map (·.name) = some 10 := by
  decide

end DV.Props.C17
