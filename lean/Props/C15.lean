import Model
import Proofs.Pool
import Proofs.CloseLock
import Spec
import Gen
import Proofs.ConnData
import Proofs.Shared
import Proofs.Listener
import Proofs.ConnWrite
/-!
  C15 — faults on one connection stay on that connection.
  Faults: a handler panic, undecodable input, an abrupt disconnect / read error on a
  connection; temporary and permanent `Accept` errors on the listener.
  Theorems about every event sequence of `Model.Conn` / `Model.Shared` / `Model.Listener`.
-/
namespace DV.Props.C15
open DV DV.Spec

/-- A panicking handler ends its own connection: the transport is closed, the reader loop has
    ended, the close notification is given, no handler is left running, no error is reported. -/
theorem C15_panic_contained (d : DictFn) (c : Bool) (es : List CEv) (s s' : CN)
    (h : CN.run d { coal := c } es = some s) (hs : s.step d .handlerPanic = some s') :
    s'.closed = true ∧ s'.reader = .exited ∧ s'.gone = true ∧ s'.active = 0 ∧ s'.reports = s.reports := by
  have inv' := CInv_step d s s' _ (Inv_reach d c es s h).1 hs
  simp only [CN.step] at hs
  split at hs
  · cases hs
    have hr : (s.terminate false).reader = .exited := by simp
    exact ⟨(inv'.exGone hr).2, hr, (inv'.exGone hr).1, by rw [inv'.act]; simp, by simp [CN.terminate]; unfold CN.notify; split <;> rfl⟩
  · cases hs

/-- Undecodable input (unknown command, declared length below 20, malformed AVPs) ends that
    connection and offers exactly one error report. -/
theorem C15_bad_input_contained (d : DictFn) (c : Bool) (es : List CEv) (s s' : CN)
    (h : CN.run d { coal := c } es = some s) (hr : s.reader = .idle) (hb : nextMsg d s.rbuf = .bad)
    (hs : s.step d .readerStep = some s') :
    s'.closed = true ∧ s'.reader = .exited ∧ s'.reports = s.reports + 1 ∧ s.reports = 0 := by
  have inv := (Inv_reach d c es s h).1
  have inv' := CInv_step d s s' _ inv hs
  simp only [CN.step, hr, hb] at hs
  cases hs
  have hx : (s.terminate true).reader = .exited := by simp
  have hrep : (s.terminate true).reports = s.reports + 1 := by
    simp [CN.terminate]; unfold CN.notify; split <;> rfl
  refine ⟨(inv'.exGone hx).2, hx, hrep, ?_⟩
  have := inv.rep
  rcases Nat.lt_or_ge s.reports 1 with h0 | h1
  · omega
  · have : s.reports = 1 := by omega
    have := inv.rep.2 this
    simp [hr] at this

/-- at most one error report per connection, and only from a connection whose reader has ended:
    the (capacity-limited, non-blocking) report channel cannot be flooded by one peer -/
theorem C15_one_report (d : DictFn) (c : Bool) (es : List CEv) (s : CN) (h : CN.run d { coal := c } es = some s) :
    s.reports ≤ 1 ∧ (s.reports = 1 → s.reader = .exited) :=
  (Inv_reach d c es s h).1.rep

/-- After any fault - disconnect, read error, read timeout, local Close - once the goroutines have
    come to rest and the handler has returned, the connection is closed and its reader loop and
    copy goroutine have ended: nothing of the faulty connection is left behind. -/
theorem C15_fault_cleanup (d : DictFn) (c : Bool) (es : List CEv) (s : CN) (h : CN.run d { coal := c } es = some s)
    (hq : s.quiescent d = true) (ht : s.terminated = true) (hh : s.reader ≠ .inHandler) :
    s.closed = true ∧ s.reader = .exited ∧ s.active = 0 ∧ (s.copier = .notStarted ∨ s.copier = .exited) := by
  have inv := (Inv_reach d c es s h).1
  have r := CInv_quiet d s inv hq ht hh
  exact ⟨(inv.exGone r.2.1).2, r.2.1, by rw [inv.act]; simp [r.2.1], r.2.2.2⟩

/-- Non-interference: whatever happens on other connections - panics, garbage, disconnects -
    connection `j` behaves as it would alone on its own events. -/
theorem C15_frame (d : DictFn) (df : Bool) (es : List (Nat × CEv)) (S S' : Sys) (j : Nat) (cj : CN)
    (h : S.run d df es = some S') (hj : S.conns[j]? = some cj) :
    ∃ cj', S'.conns[j]? = some cj' ∧ cj.run d (projEv j es) = some cj' :=
  Sys.frame d df es S S' j cj h hj

/-- The shared ServeMux is left usable: with the read lock released by `defer`
    (`Gen.muxServeRLockDeferred`), after ANY history the number of read locks held equals the
    number of connections currently inside a handler; in particular once no handler runs a
    registration (write lock) can proceed, however many handlers have panicked before. -/
theorem C15_mux_lock (d : DictFn) (cs : List Bool) (es : List (Nat × CEv)) (S : Sys)
    (h : (Sys.init cs).run d Gen.muxServeRLockDeferred es = some S) :
    S.rlocks = S.inHandlers ∧ (S.inHandlers = 0 → S.canRegister = true) := by
  have hg : Gen.muxServeRLockDeferred = true := by decide
  rw [hg] at h
  have := Sys.rlocks_run d es _ S (Sys.init_rlocks cs) h
  exact ⟨this, fun h0 => by simp [Sys.canRegister, this, h0]⟩

/-- ... whereas without `defer` one panicking handler would leave the read lock held forever
    (the model distinguishes the two: this is what the regenerated fact protects against) -/
theorem C15_mux_lock_needs_defer :
    let d : DictFn := { cmdRules := fun _ _ => some (1, 1), avpType := fun _ _ _ => 0 }
    let m1 : Bytes := [1,0,0,20,0x80,0,1,1, 0,0,0,0, 0,0,0,1, 0,0,0,1]
    (((Sys.init [false]).run d false [(0, .deliver m1), (0, .readerStep), (0, .readerStep), (0, .handlerPanic)]).map
      (fun S => (S.inHandlers, S.canRegister))) = some (0, false) := by
  decide

/-- The listener: through any number of temporary Accept errors and accepted connections the
    accept loop is still running with its listener open, has handed every accepted connection
    to its own serve goroutine, and every back-off sleep lies between the first delay and the cap. -/
theorem C15_listener (es : List LEv) (hp : LEv.acceptPerm ∉ es) :
    ∃ s, ({} : LS).run es = some s ∧ s.running = true ∧ s.lclosed = false ∧ s.spawned = countOk es ∧
      ∀ x ∈ s.slept, Gen.acceptBackoffFirstMs ≤ x ∧ x ≤ Gen.acceptBackoffMaxMs := by
  have h0 : LInv ({} : LS) 0 := ⟨rfl, rfl, rfl, by decide, by simp⟩
  obtain ⟨s, h1, h2, _⟩ := LS_run_noperm (by decide) (by decide) es {} 0 h0 (Or.inl rfl) hp
  exact ⟨s, h1, h2.running, h2.open_, by simpa using h2.spawned, h2.sleeps⟩

/-- only a permanent Accept error stops the server, and then the listener is closed -/
theorem C15_listener_perm (s : LS) (h : s.running = true) :
    s.step .acceptPerm = some { s with running := false, lclosed := true } := by
  simp [LS.step, h]

/-- Writes stay on their connection too: whatever is written through connection `k`'s `Conn` -
    by a handler or by the application, while it lives or long after a fault has ended it, with
    any number of connections opened and ended in between - reaches transport `k` or none; no
    transport ever holds a message written through another connection. (Each connection owns its
    buffered writer: `Gen.connBufferSources`.) -/
theorem C15_write_contained (es : List OwEv) (j : Nat) (c : OwConn)
    (h : ((({} : OwSys).run false es).1).conns[j]? = some c) : ∀ p ∈ c.wire, p.1 = j :=
  (WInvOwn_run es {} WInvOwn_init).own j c h

/-- ... and a write through a connection that has ended reaches nothing at all -/
theorem C15_late_write_fails (S : OwSys) (h : WInvOwn S) (k id : Nat) (c : OwConn)
    (hk : S.conns[k]? = some c) (hd : c.alive = false) : S.step false (.write k id) = (S, .err) := by
  have hw := h.wr k c hk
  have hkl : k < S.conns.length := by
    by_cases hl : k < S.conns.length
    · exact hl
    · rw [List.getElem?_eq_none (by omega)] at hk; cases hk
  have ht : S.target.getD c.writer 0 = k := by rw [hw]; exact h.tg k (by rw [h.len]; exact hkl)
  simp only [OwSys.step, hk, ht, hd, Bool.false_eq_true, if_false]

/-- were writers recycled between connections, a write on an ended connection could land on a
    later, healthy one (the model distinguishes the two sources) -/
theorem C15_write_needs_own_writer :
    (((({} : OwSys).run true [.openConn, .die 0, .openConn, .write 0 7]).1).conns.map (·.wire)) = [[], [(0, 7)]] := by
  decide

/-- (pooled read buffers) every `ReadMessage` - one per connection at a time, any number of
    connections - takes its header / small-body buffer from `readerBufferPool` and hands it back
    when it returns, however it returns (the put is deferred: `C15_pool_gen`). For EVERY
    interleaving: two reads never hold the same buffer, so what one connection's peer sends -
    well-formed or not, complete or cut off - is never seen through another connection's buffer -/
theorem C15_pool_exclusive (es : List PoolEv) (p : Pool) (h : Pool.run 1 {} es = some p) :
    (∀ u v b, (u, b) ∈ p.held → (v, b) ∈ p.held → u = v) ∧ (∀ u b, (u, b) ∈ p.held → b ∉ p.free) :=
  PoolInv_exclusive (PoolInv_run es {} p PoolInv_init h)

/-- an extra put on a fault path breaks it: connection 0's read fails and its buffer goes back
    twice; the reads of connections 1 and 2 then share it -/
theorem C15_pool_double_put_counterexample :
    ∃ p, Pool.run 2 {} [.acquire 0, .release 0, .acquire 1, .acquire 2] = some p ∧ (1, 0) ∈ p.held ∧ (2, 0) ∈ p.held :=
  ⟨_, rfl, by decide, by decide⟩

theorem C15_pool_gen :
    Gen.poolUsers.all (fun u => Pool.disciplined u.2) = true ∧
    (Gen.poolUsers.map (·.1)).contains "diam:ReadMessage" = true := by decide

/-- (a fault on a connection whose writer is stuck in the transport) the deferred function of the
    reader loop closes the transport without waiting for any mutex (`C15_close_gen`): whatever the
    writer is doing, the close is enabled, and it is what ends the stuck write and frees the write
    mutex - the fault costs this connection, and nothing is left behind that another goroutine
    could wait for -/
theorem C15_fault_closes_despite_stuck_writer (es : List CLEv) (s : CLState) (_h : CLState.run false {} es = some s)
    (hr : s.closeRequested = true) (hc : s.closed = false) :
    ∃ s', s.step false .closeDo = some s' ∧ s'.closed = true ∧
      (s'.writer = .inTransport → ∃ s'', s'.step false .writeFails = some s'' ∧ s''.writer = .failed ∧ s''.lockHeld = false) := by
  obtain ⟨s', hs, hc'⟩ := CL_close_enabled s hr hc
  exact ⟨s', hs, hc', fun hw => (CL_writer_released s' hw hc').2⟩

theorem C15_close_gen : Gen.closePaths = [("response.Close", [], true), ("conn.serve.defer1", [], true)] := by decide

/-- structural facts regenerated from server.go -/
theorem C15_gen : Gen.serveDeferRecover = true ∧ Gen.serveDeferClose = true ∧ Gen.serveDeferNotify = true ∧
    Gen.muxServeRLockDeferred = true ∧ Gen.acceptRetryCond = "(ok&&ne.Temporary())" ∧
    Gen.acceptResetsDelay = true ∧ Gen.acceptSpawnsServe = true ∧ Gen.serveDefersListenerClose = true ∧
    Gen.capErrorReports = 1 ∧
    Gen.connBufferSources = ["c.buf=bufio.NewReadWriter(bufio.NewReader(&c.sr),bufio.NewWriter(rwc))"] ∧
    Gen.tlsHandshakeSites = ["conn.serve"] ∧
    -- a failed read is reported unless it IS the end of the stream (identity, not `errors.Is`:
    -- a decode error that wraps ErrUnexpectedEOF is still reported)
    Gen.serveReportCond = "((err!=io.EOF)&&(err!=io.ErrUnexpectedEOF))" ∧
    -- no process-wide channel, mutex or semaphore, and none in `Server`, that a fault on one
    -- connection could leave taken (`C15_frame`)
    Gen.sharedBlockingState = [] := by decide

/-- non-vacuity: a handler panic on connection 0 while connection 1 is mid-message; connection 1
    completes and dispatches its message afterwards -/
example :
    let d : DictFn := { cmdRules := fun _ _ => some (1, 1), avpType := fun _ _ _ => 0 }
    let m1 : Bytes := [1,0,0,20,0x80,0,1,1, 0,0,0,0, 0,0,0,1, 0,0,0,1]
    (((Sys.init [false, false]).run d true
        [(0, .deliver m1), (0, .readerStep), (0, .readerStep), (1, .deliver (m1.take 7)), (1, .readerStep), (1, .readerStep),
         (0, .handlerPanic), (1, .deliver (m1.drop 7)), (1, .readerStep), (1, .readerStep)]).map
      (fun S => (S.conns.map (fun c => (c.closed, c.handed.length, c.active)), S.rlocks))) =
      some ([(true, 1, 0), (false, 1, 1)], 1) := by
  decide

end DV.Props.C15
