import Model
import Spec
import Gen
import Proofs.Sctp
import Props.C05
/-!
  C19 — SCTP multistream: every message is assembled from one stream, in order.
  `Model.Sctp`: the association is the list of data chunks `(stream, bytes)` still to come, in
  any interleaving and any chunking; `SCTPConn` keeps per-stream buffers for data that arrived
  while another stream was being read. The connection's single reader loop calls
  `ResetCurrentStream; ReadMessage` repeatedly. Which buffered stream `ReadAny` serves first is
  the heap's choice - an oracle here, universally quantified.
-/
namespace DV.Props.C19
open DV DV.Spec

/-- For every number of streams, every chunking of each stream's bytes, every interleaving of
    the chunks and every choice of the buffer heap: the messages delivered from stream σ (the
    ones tagged σ) are, in order, exactly the first messages of the reference split - by declared
    length - of σ's own byte sequence; none is lost, duplicated or contains a byte of another
    stream; what is left of σ is exactly what follows them. -/
theorem C19_perstream (d : DictFn) (picks : List (Option Nat)) (s : SS) (hw : s.wf) (σ : Nat) :
    onStream σ (s.readLoopS d picks).1 =
      splitMsgs d (onStream σ (s.readLoopS d picks).1).length (s.streamBytes σ) s.fin ∧
    (s.readLoopS d picks).2.streamBytes σ =
      splitRest d (onStream σ (s.readLoopS d picks).1).length (s.streamBytes σ) s.fin :=
  ⟨(readLoopS_perstream d picks s hw σ).1, (readLoopS_perstream d picks s hw σ).2.1⟩

/-- `splitMsgs` is the message part of C05's reference split -/
theorem C19_reference (d : DictFn) (k : Nat) (bs : Bytes) (fin : Fin) :
    splitMsgs d k bs fin = (split d k bs fin).1.filterMap (fun r => match r with | .msg m => some m | _ => none) :=
  splitMsgs_eq d k bs fin

/-- One message: its outcome is the reference outcome on the chosen stream's bytes alone, its
    tag is that stream, no other stream loses or gains a byte, and after a message exactly its
    declared length is gone from the stream. -/
theorem C19_one_message (d : DictFn) (pick : Option Nat) (s : SS) (hw : s.wf)
    (hany : (readAny pick 20 s).1.2.2 = true) :
    (s.readMessage d pick).1.1 = (splitStep d (s.streamBytes (s.readMessage d pick).1.2) s.fin).1 ∧
    (∀ τ, τ ≠ (s.readMessage d pick).1.2 → (s.readMessage d pick).2.streamBytes τ = s.streamBytes τ) ∧
    (∀ m n, splitStep d (s.streamBytes (s.readMessage d pick).1.2) s.fin = (.msg m, n) →
      (s.readMessage d pick).2.streamBytes (s.readMessage d pick).1.2 =
        (s.streamBytes (s.readMessage d pick).1.2).drop n) :=
  (SS.readMessage_spec d pick s hw).2.2.1 hany

theorem splitMsgs_done (d : DictFn) (fin : Fin) : ∀ (k : Nat) (bs : Bytes), splitRest d k bs fin = [] →
    ∀ j, splitMsgs d (k + j) bs fin = splitMsgs d k bs fin
  | 0, bs, h, j => by
    simp only [splitRest] at h
    subst h
    cases j with
    | zero => rfl
    | succ j => simp only [Nat.zero_add, splitMsgs, splitStep]; cases fin <;> simp
  | k+1, bs, h, j => by
    have e : k + 1 + j = (k + j) + 1 := by omega
    rw [e]
    simp only [splitMsgs, splitRest] at h ⊢
    cases hs : splitStep d bs fin with
    | mk r n =>
      rw [hs] at h
      cases r <;> simp_all
      exact splitMsgs_done d fin k _ h j

/-- Completeness: if, when the loop stops, nothing of stream σ is left (buffered or in the
    socket), then every message of σ's byte sequence has been delivered. -/
theorem C19_complete (d : DictFn) (picks : List (Option Nat)) (s : SS) (hw : s.wf) (σ : Nat)
    (hdone : (s.readLoopS d picks).2.streamBytes σ = []) (j : Nat) :
    splitMsgs d ((onStream σ (s.readLoopS d picks).1).length + j) (s.streamBytes σ) s.fin =
      onStream σ (s.readLoopS d picks).1 := by
  obtain ⟨h1, h2⟩ := C19_perstream d picks s hw σ
  rw [h2] at hdone
  rw [splitMsgs_done d s.fin _ _ hdone j]
  exact h1.symm

/-- the reference split of a concatenation of complete messages (`C05.Whole`) is that list of
    messages, however many more it is asked for -/
theorem splitMsgs_whole (d : DictFn) (fin : Fin) (wms : List (Bytes × Msg))
    (hw : ∀ p ∈ wms, C05.Whole d p.1 p.2) (j : Nat) :
    splitMsgs d (wms.length + j) (wms.map Prod.fst).flatten fin = wms.map Prod.snd := by
  induction wms with
  | nil =>
    cases j with
    | zero => simp [splitMsgs]
    | succ j => cases fin <;> simp [splitMsgs, splitStep]
  | cons p ps ih =>
    have hp := hw p (List.mem_cons_self)
    have hps : ∀ q ∈ ps, C05.Whole d q.1 q.2 := fun q hq => hw q (List.mem_cons_of_mem _ hq)
    have e : (p :: ps).length + j = (ps.length + j) + 1 := by simp; omega
    rw [e]
    simp only [List.map_cons, List.flatten_cons]
    rw [splitMsgs, C05.splitStep_whole d p.1 _ fin p.2 hp]
    simp only [List.drop_left, ih hps]

/-- **Every stream's messages, whole and in order.** If the bytes of stream σ - in whatever
    chunks, interleaved in whatever way with the chunks of other streams, served in whatever order
    by the buffer heap - are the concatenation of complete messages, and nothing of σ is left
    when the reader loop stops, then the messages delivered with tag σ are exactly those messages,
    in that order: none lost, duplicated or mixed with another stream's bytes. -/
theorem C19_whole_streams (d : DictFn) (picks : List (Option Nat)) (s : SS) (hw : s.wf) (σ : Nat)
    (wms : List (Bytes × Msg)) (hwm : ∀ p ∈ wms, C05.Whole d p.1 p.2)
    (hb : s.streamBytes σ = (wms.map Prod.fst).flatten)
    (hdone : (s.readLoopS d picks).2.streamBytes σ = []) :
    onStream σ (s.readLoopS d picks).1 = wms.map Prod.snd := by
  have h1 := C19_complete d picks s hw σ hdone wms.length
  have h2 := splitMsgs_whole d s.fin wms hwm (onStream σ (s.readLoopS d picks).1).length
  rw [hb] at h1
  rw [Nat.add_comm] at h2
  rw [← h1, h2]

/-- how the source uses the streams, regenerated: the header is read from ANY stream and the
    stream is pinned; the body is read from that stream; `ReadAtLeast` = one `ReadAny` (only when
    no stream is given) then `ReadStream` on the same stream; the reader loop resets the stream
    before every message; `WriteStream` hands the stream to the socket -/
theorem C19_gen :
    Gen.sctpHeaderReads = ["msr.ReadAtLeast(b,HeaderLength,InvalidStreamID)"] ∧
    Gen.sctpHeaderPins = ["msr.SetCurrentStream(stream)"] ∧
    Gen.sctpBodyReads = ["msr.ReadAtLeast(p,len(p),stream)"] ∧
    Gen.sctpAtLeastReads = ["msc.ReadAny(buf)", "msc.ReadStream(buf[n:],stream)"] ∧
    Gen.connResetsStream = ["msc.ResetCurrentStream()"] ∧
    Gen.sctpWriteStreamCalls = ["msc.SCTPWrite(b,info)"] ∧ Gen.HeaderLength = 20 := by decide

/-- non-vacuity: two streams; stream 7's message arrives in three chunks (one ending inside the
    header) interleaved with a whole message on stream 3; both are delivered whole, each tagged
    with its stream -/
example :
    let d : DictFn := { cmdRules := fun _ _ => some (1, 1), avpType := fun _ _ _ => 0 }
    let m1 : Bytes := [1,0,0,20,0x80,0,1,1, 0,0,0,0, 0,0,0,1, 0,0,0,1]
    let m2 : Bytes := [1,0,0,20,0x80,0,1,1, 0,0,0,0, 0,0,0,2, 0,0,0,2]
    let s : SS := { bufs := fun _ => [], chunks := [(7, m1.take 5), (3, m2), (7, (m1.drop 5).take 10), (7, m1.drop 15)], fin := .eof }
    ((s.readLoopS d [none, some 3, none]).1.map (fun p => (p.1.hdr.hbh, p.2))) = [(1, 7), (2, 3)] := by
  decide

/-- non-vacuity of `C19_whole_streams`: in the schedule above stream 7's bytes are one complete
    message and nothing of stream 7 is left when the loop stops -/
example :
    let d : DictFn := { cmdRules := fun _ _ => some (1, 1), avpType := fun _ _ _ => 0 }
    let m1 : Bytes := [1,0,0,20,0x80,0,1,1, 0,0,0,0, 0,0,0,1, 0,0,0,1]
    let m2 : Bytes := [1,0,0,20,0x80,0,1,1, 0,0,0,0, 0,0,0,2, 0,0,0,2]
    let s : SS := { bufs := fun _ => [], chunks := [(7, m1.take 5), (3, m2), (7, (m1.drop 5).take 10), (7, m1.drop 15)], fin := .eof }
    s.streamBytes 7 = m1 ∧ (s.readLoopS d [none, some 3, none]).2.streamBytes 7 = [] := by
  decide

end DV.Props.C19
