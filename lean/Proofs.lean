import Proofs.Basic
import Proofs.Codec
