import Proofs.Basic
