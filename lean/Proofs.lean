import Proofs.Basic
import Proofs.Codec
import Proofs.Pool
import Proofs.CloseLock
import Proofs.ReadFull
import Proofs.ApiMsg
