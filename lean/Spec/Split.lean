import Model.Stream
/-!
  Spec.Split — C05's reference: cut a byte stream into messages by the declared 24-bit
  length only; no notion of fragments.
-/
namespace DV.Spec

/-- the next message of the stream `bs` (which ends with `fin`), by the declared length only:
    outcome and number of bytes it accounts for -/
def splitStep (d : DictFn) (bs : Bytes) (fin : Fin) : MsgRes × Nat :=
  if bs.isEmpty then ((match fin with | .eof => MsgRes.eof | .err => MsgRes.errHeader), 0) else
  if bs.length < 20 then (MsgRes.errHeader, bs.length) else
  match decodeHeader (bs.take 20) with
  | .ok h =>
    (match d.cmdRules h.app h.cmd with
     | none => (MsgRes.errCommand, 20)
     | some _ =>
       if h.len < 20 then (MsgRes.reject, 20) else
       if bs.length < h.len then (MsgRes.errBody, bs.length) else
       (decodeBody d h ((bs.drop 20).take (h.len - 20)), h.len))
  | _ => (MsgRes.errHeader, 20)

/-- outcome list for the whole stream `bs` that ends with `fin`, and the bytes accounted for:
    messages are cut one after another until the first outcome that is not a message -/
def split (d : DictFn) : Nat → Bytes → Fin → List MsgRes × Nat
  | 0, _, _ => ([], 0)
  | fuel+1, bs, fin =>
    match splitStep d bs fin with
    | (.msg m, n) => let (r, k) := split d fuel (bs.drop n) fin; (MsgRes.msg m :: r, n + k)
    | (other, n) => ([other], n)

/-- the first `k` messages of the stream `bs`, cut by declared length (the message part of `split`) -/
def splitMsgs (d : DictFn) : Nat → Bytes → Fin → List Msg
  | 0, _, _ => []
  | k+1, bs, fin =>
    match splitStep d bs fin with
    | (.msg m, n) => m :: splitMsgs d k (bs.drop n) fin
    | _ => []

/-- what is left of the stream after its first `k` messages -/
def splitRest (d : DictFn) : Nat → Bytes → Fin → Bytes
  | 0, bs, _ => bs
  | k+1, bs, fin =>
    match splitStep d bs fin with
    | (.msg _, n) => splitRest d k (bs.drop n) fin
    | _ => bs

end DV.Spec
