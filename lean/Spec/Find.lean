import Model.Codec
/-!
  Spec.Find — C20's reference: document-order (pre-order) listing of an AVP tree and
  level-by-level path following.
-/
namespace DV.Spec

mutual
/-- every AVP of the tree in depth-first document order, a grouped AVP before its members -/
def preorder : AVP → List AVP
  | .mk c f l v d => AVP.mk c f l v d :: (match d with | .group as => preorderL as | _ => [])
def preorderL : List AVP → List AVP
  | [] => []
  | a :: r => preorder a ++ preorderL r
end

def members : AVP → List AVP
  | .mk _ _ _ _ (.group as) => as
  | _ => []

/-- AVPs reached by following `path` level by level, descending through grouped AVPs only -/
def followPath : List AVP → List Nat → List AVP
  | as, [] => as
  | as, [c] => as.filter (fun a => a.code = c)
  | as, c :: rest =>
      followPath (((as.filter (fun a => a.code = c)).map members).flatten) rest
termination_by _ p => p.length

end DV.Spec
