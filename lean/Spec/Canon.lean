import Model.Codec
import Spec.Wire
/-!
  Spec.Canon — dictionary-independent shape conditions on API values ("valid for their data
  types", in the canonical form a read returns), and the typing condition relating a tree to a
  dictionary typing. `wfAVPs` (Spec.Wire) = `canonL` ∧ `typedOkL`.
-/
namespace DV.Spec

mutual
def canonVal : Val → Bool
  | .str t _ => t = T.unknown ∨ t = T.ident ∨ t = T.uri ∨ t = T.ipfilter ∨ t = T.octets ∨ t = T.qos ∨ t = T.utf8
  | .addr b =>
      b.length = 4 ∨ (b.length = 16 ∧ ¬ isV4Mapped b) ∨
       (b.length ≥ 3 ∧ b.length ≠ 4 ∧ b.length ≠ 16 ∧
         (rd (b.take 2) ≠ 0 ∧ rd (b.take 2) ≠ 1 ∧ rd (b.take 2) ≠ 2 ∧ rd (b.take 2) ≠ 65535))
  | .ip4 b => b.length = 4
  | .ip6 b => b.length = 16
  | .fix t n => (t = T.enum ∨ t = T.f32 ∨ t = T.i32 ∨ t = T.u32 ∨ t = T.f64 ∨ t = T.i64 ∨ t = T.u64) ∧
      n < 256 ^ (if t = T.f64 ∨ t = T.i64 ∨ t = T.u64 then 8 else 4)
  | .time u => (-61505152 : Int) ≤ u ∧ u < 4233462144
  | .group as => canonL as
def canonAVP : AVP → Bool
  | .mk c f _ v d =>
    c < 4294967296 ∧ f < 256 ∧ v < 4294967296 ∧ (f / 128 % 2 = 1 ∨ v = 0) ∧ canonVal d
def canonL : List AVP → Bool
  | [] => true
  | a :: r => canonAVP a && canonL r
end

/-- the data type id a value presents (`Data.Type()`, with `T.grouped` for `*GroupedAVP` since
    that is the dictionary type under which it is decoded) -/
def dictTypeOf : Val → Nat
  | .str t _ => t
  | .addr _ => T.address
  | .ip4 _ => T.ipv4
  | .ip6 _ => T.ipv6
  | .fix t _ => t
  | .time _ => T.time
  | .group _ => T.grouped

mutual
/-- every AVP's value has the type the dictionary typing assigns to its (code, vendor) -/
def typedOk (ty : Nat → Nat → Nat) : AVP → Bool
  | .mk c _ _ v d => decide (ty c v = dictTypeOf d) && (match d with | .group as => typedOkL ty as | _ => true)
def typedOkL (ty : Nat → Nat → Nat) : List AVP → Bool
  | [] => true
  | a :: r => typedOk ty a && typedOkL ty r
end

mutual
/-- the tree as a read returns it: every Length field is header + unpadded data -/
def wire : AVP → AVP
  | .mk c f _ v d => .mk c f (hdrLen f + d.len) v (match d with | .group as => .group (wireL as) | x => x)
def wireL : List AVP → List AVP
  | [] => []
  | a :: r => wire a :: wireL r
end

end DV.Spec
