import Model.Dict
/-!
  Spec.DictSpec — C17's reference: what is defined, as plain chronological LOGS of the
  definitions made by loading a list of dictionary files (no indexes, no overwriting), and
  resolution stated on those logs: own application, then its parents, then base; exact vendor
  or the any-vendor wildcard; the most recent definition wins.
-/
namespace DV.Spec

structure Log where
  apps : List AppInfo := []            -- every `<application>` seen, in order
  cmds : List (Nat × CmdDef) := []     -- (application, command) definitions in effect, oldest first
  avps : List AvpDef := []             -- AVP definitions in effect, oldest first
deriving Repr

/-- does a definition answer a query for (app, code, vendor)? -/
def defMatchesCode (app code vendor : Nat) (d : AvpDef) : Bool :=
  d.app = app ∧ d.code = code ∧ (vendor = UndefinedVendorID ∨ d.vendor = vendor)

def defMatchesName (app name vendor : Nat) (d : AvpDef) : Bool :=
  d.app = app ∧ d.name = name ∧ (vendor = UndefinedVendorID ∨ d.vendor = vendor)

/-- the most recent element of a chronological list satisfying `p` -/
def lastSome (p : α → Bool) : List α → Option α
  | [] => none
  | x :: r => match lastSome p r with
    | some y => some y
    | none => if p x then some x else none

/-- AVPs of one application, up to and including the first whose type name is not available -/
def logAvps (available : List (Nat × Nat)) (app : Nat) : List AvpRow → Log → Log × Bool
  | [], l => (l, true)
  | (name, code, vendor, must, tyName, items) :: r, l =>
    let known := (available.find? (fun p => p.1 = tyName)).map (·.2)
    let d : AvpDef := { name, code, vendor, must, tyName, items, ty := known.getD 0, app }
    let l := { l with avps := l.avps ++ [d] }
    if known.isNone then (l, false) else logAvps available app r l

/-- commands of one application; a second definition of (app, code) stops the load -/
def logCmds (app : Nat) : List CmdRow → Log → Log × Bool
  | [], l => (l, true)
  | (code, short, nreq, nans) :: r, l =>
    if l.cmds.any (fun p => p.1 = app ∧ p.2.code = code) then (l, false)
    else logCmds app r { l with cmds := l.cmds ++ [(app, { code, short, nreq, nans })] }

def logApps (available : List (Nat × Nat)) : List AppRow → Log → Log × Bool
  | [], l => (l, true)
  | (id, _, _, cmds, avps) :: r, l =>
    match logCmds id cmds l with
    | (l, false) => (l, false)
    | (l, true) =>
      match logAvps available id avps l with
      | (l, false) => (l, false)
      | (l, true) => logApps available r l

def logFile (available : List (Nat × Nat)) (l : Log) (f : FileRow) : Log × Bool :=
  let l := { l with apps := l.apps ++ f.map (fun (id, typ, vendors, _, _) => { id, typ, vendors }) }
  logApps available f l

def logAll (available : List (Nat × Nat)) (fs : List FileRow) : Log :=
  fs.foldl (fun l f => (logFile available l f).1) {}

/-- resolution of an AVP code: the application itself, then parent by parent, then base -/
def findCode (l : Log) (parents : List (Nat × Nat)) : Nat → Nat → Nat → Nat → Option AvpDef
  | 0, _, _, _ => none
  | fuel+1, app, code, vendor =>
    match lastSome (defMatchesCode app code vendor) l.avps with
    | some d => some d
    | none => if app = 0 then none else findCode l parents fuel (parentOf parents app) code vendor

def findName (l : Log) (parents : List (Nat × Nat)) : Nat → Nat → Nat → Nat → Option AvpDef
  | 0, _, _, _ => none
  | fuel+1, app, name, vendor =>
    match lastSome (defMatchesName app name vendor) l.avps with
    | some d => some d
    | none => if app = 0 then none else findName l parents fuel (parentOf parents app) name vendor

/-- a command: the application's own definition, else the base application's -/
def findCommand (l : Log) (app code : Nat) : Option CmdDef :=
  match lastSome (fun p => p.1 = app ∧ p.2.code = code) l.cmds with
  | some p => some p.2
  | none => (lastSome (fun p => p.1 = 0 ∧ p.2.code = code) l.cmds).map (·.2)

end DV.Spec
