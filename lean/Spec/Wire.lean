import Model.Codec
import Spec.Frame
/-!
  Spec.Wire — decidable well-formedness of a wire message (C01, wire direction) and of a
  message assembled through the API (C01/C02, API direction).
-/
namespace DV.Spec

/-- IPv4-mapped IPv6 form of a 16-byte address -/
def isV4Mapped (b : Bytes) : Bool := b.length = 16 ∧ b.take 12 = [0,0,0,0,0,0,0,0,0,0,255,255]

/-- a payload is a well-formed value of data type `t` (RFC 6733 §4.2–4.4) -/
def wfPayload (t : Nat) (p : Bytes) : Bool :=
  if t = T.enum ∨ t = T.f32 ∨ t = T.i32 ∨ t = T.u32 ∨ t = T.time ∨ t = T.ipv4 then p.length = 4
  else if t = T.f64 ∨ t = T.i64 ∨ t = T.u64 then p.length = 8
  else if t = T.ipv6 then p.length = 16
  else if t = T.address then
    p.length ≥ 3 ∧
      (let fam := rd (p.take 2)
       fam ≠ 0 ∧ fam ≠ 65535 ∧ (fam = 1 → p.length = 6) ∧ (fam = 2 → p.length = 18))
  else if t = T.unknown ∨ t = T.ident ∨ t = T.uri ∨ t = T.ipfilter ∨ t = T.octets ∨ t = T.qos ∨ t = T.utf8 then true
  else false

mutual
/-- every leaf carries a well-formed payload, every Length ≥ its header size is implied by framing -/
def wfFrame (ty : Nat → Nat → Nat) : Frame → Bool
  | .leaf c _ _ v p => wfPayload (ty c v) p
  | .group _ _ _ _ kids => wfFrames ty kids
def wfFrames (ty : Nat → Nat → Nat) : List Frame → Bool
  | [] => true
  | f :: r => wfFrame ty f && wfFrames ty r
end

/-- padding octets are present and zero: walking by padded length never leaves the container,
    and the octets between Length and its round-up are 0 (checked at every level) -/
def wfPadding (isGrouped : Nat → Nat → Bool) : Nat → Bytes → Bool
  | 0, bs => bs.isEmpty
  | fuel+1, bs =>
    if bs.isEmpty then true else
    let code := rd (bs.take 4)
    let flags := (bs.getD 4 0).toNat
    let length := rd ((bs.drop 5).take 3)
    let hl := if flags ≥ 128 then 12 else 8
    let vendor := if flags ≥ 128 then rd ((bs.drop 8).take 4) else 0
    let padded := roundUp4 length
    padded ≤ bs.length ∧ ((bs.take padded).drop length).all (· == 0) ∧
      (if isGrouped code vendor then wfPadding isGrouped fuel ((bs.take length).drop hl) else true) ∧
      wfPadding isGrouped fuel (bs.drop padded)

/-- the command is defined (own application, else base) and has rules for the R bit of `flags` -/
def cmdHasRules (d : DictFn) (app cmd flags : Nat) : Bool :=
  match d.cmdRules app cmd with
  | some (nreq, nans) => (if isRequest flags then nreq else nans) != 0
  | none => false

/-- a container (message body or grouped payload) is well formed for the typing `ty`: the
    Length-only walk succeeds, every leaf payload is a well-formed value of its type, padding
    octets are present and zero -/
def wfBody (ty : Nat → Nat → Nat) (body : Bytes) : Bool :=
  let isG : Nat → Nat → Bool := fun c v => ty c v = T.grouped
  match frames isG (body.length + 1) body with
  | .ok fs => wfFrames ty fs && wfPadding isG (body.length + 1) body
  | _ => false

/-- C01 (wire direction): the byte string is a well-formed Diameter message for dictionary `d` -/
def wfWire (d : DictFn) (bs : Bytes) : Bool :=
  if bs.length < 20 then false else
  match decodeHeader (bs.take 20) with
  | .ok h =>
    decide (h.len = bs.length) && cmdHasRules d h.app h.cmd h.flags && wfBody (d.avpType h.app) (bs.drop 20)
  | _ => false

/-! ### wire direction without the three Address shapes of the known findings

  `datatype.Address` holds 4 raw octets for IPv4, 16 for IPv6 and family-prefixed octets for any
  other family, and re-derives the form from the length alone. Three well-formed wire shapes are
  therefore not reproduced (`C01_wire_counterexample_*`): family 2 holding an IPv4-mapped
  address, and another family whose family-prefixed image is 4 or 16 octets long. -/

/-- the Address payload is one of those three shapes -/
def addrAmbiguous (p : Bytes) : Bool :=
  let fam := rd (p.take 2)
  (fam = 2 ∧ isV4Mapped (p.drop 2)) ∨ (fam ≠ 1 ∧ fam ≠ 2 ∧ (p.length = 4 ∨ p.length = 16))

/-- well-formed payload that is not an ambiguous Address -/
def wfPayloadX (t : Nat) (p : Bytes) : Bool :=
  wfPayload t p && !(decide (t = T.address) && addrAmbiguous p)

mutual
def wfFrameX (ty : Nat → Nat → Nat) : Frame → Bool
  | .leaf c _ _ v p => wfPayloadX (ty c v) p
  | .group _ _ _ _ kids => wfFramesX ty kids
def wfFramesX (ty : Nat → Nat → Nat) : List Frame → Bool
  | [] => true
  | f :: r => wfFrameX ty f && wfFramesX ty r
end

/-- `wfBody` with `wfPayloadX` at the leaves -/
def wfBodyX (ty : Nat → Nat → Nat) (body : Bytes) : Bool :=
  let isG : Nat → Nat → Bool := fun c v => ty c v = T.grouped
  match frames isG (body.length + 1) body with
  | .ok fs => wfFramesX ty fs && wfPadding isG (body.length + 1) body
  | _ => false

/-- `wfWire` with `wfBodyX` -/
def wfWireX (d : DictFn) (bs : Bytes) : Bool :=
  if bs.length < 20 then false else
  match decodeHeader (bs.take 20) with
  | .ok h =>
    decide (h.len = bs.length) && cmdHasRules d h.app h.cmd h.flags && wfBodyX (d.avpType h.app) (bs.drop 20)
  | _ => false

/-! API direction -/

mutual
/-- value `v` is a valid value of dictionary type `t`, in the canonical form the decoder returns -/
def wfVal (ty : Nat → Nat → Nat) (t : Nat) : Val → Bool
  | .str t' _ => t' = t ∧ (t = T.unknown ∨ t = T.ident ∨ t = T.uri ∨ t = T.ipfilter ∨ t = T.octets ∨ t = T.qos ∨ t = T.utf8)
  | .addr b => t = T.address ∧
      (b.length = 4 ∨ (b.length = 16 ∧ ¬ isV4Mapped b) ∨
       (b.length ≥ 3 ∧ b.length ≠ 4 ∧ b.length ≠ 16 ∧
         (let fam := rd (b.take 2); fam ≠ 0 ∧ fam ≠ 1 ∧ fam ≠ 2 ∧ fam ≠ 65535)))
  | .ip4 b => t = T.ipv4 ∧ b.length = 4
  | .ip6 b => t = T.ipv6 ∧ b.length = 16
  | .fix t' n => t' = t ∧ (t = T.enum ∨ t = T.f32 ∨ t = T.i32 ∨ t = T.u32 ∨ t = T.f64 ∨ t = T.i64 ∨ t = T.u64) ∧
      n < 256 ^ (if t = T.f64 ∨ t = T.i64 ∨ t = T.u64 then 8 else 4)
  /- whole seconds inside the two-era window [1968-01-20 03:14:08Z, 2104-02-25 21:42:24Z) -/
  | .time u => t = T.time ∧ (-61505152 : Int) ≤ u ∧ u < 4233462144
  | .group as => t = T.grouped ∧ wfAVPs ty as
def wfAVP (ty : Nat → Nat → Nat) : AVP → Bool
  | .mk c f _ v d =>
    c < 4294967296 ∧ f < 256 ∧ v < 4294967296 ∧
    /- V flag and vendor id go together -/
    (f / 128 % 2 = 1 ∨ v = 0) ∧
    wfVal ty (ty c v) d
def wfAVPs (ty : Nat → Nat → Nat) : List AVP → Bool
  | [] => true
  | a :: r => wfAVP ty a && wfAVPs ty r
end

/-- C01/C02 (API direction): header fields in range, command resolvable with rules for its R
    bit, every AVP valid for the type the dictionary gives its (code, vendor), total < 2^24 -/
def wfMsg (d : DictFn) (flags cmd app hbh e2e : Nat) (as : List AVP) : Bool :=
  decide (flags < 256 ∧ cmd < 16777216 ∧ app < 4294967296 ∧ 0 < hbh ∧ hbh < 4294967296 ∧ 0 < e2e ∧ e2e < 4294967296) &&
  cmdHasRules d app cmd flags &&
  wfAVPs (d.avpType app) as && decide (20 + lenL as < 16777216)

end DV.Spec
