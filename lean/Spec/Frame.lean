import Model.Codec
/-!
  Spec.Frame — C04's reference: walk a byte string by each AVP's declared Length
  rounded up to four, looking at nothing but the AVP headers (and, to know where to
  descend, whether the dictionary calls the AVP grouped). No data type size is consulted.
-/
namespace DV.Spec

inductive Frame where
  | leaf (code flags length vendor : Nat) (payload : Bytes)
  | group (code flags length vendor : Nat) (kids : List Frame)

/-- round up to a multiple of four (written independently of `DV.pad4`) -/
def roundUp4 (n : Nat) : Nat := (n + 3) / 4 * 4

mutual
/-- one AVP at the head of `bs` -/
def frameOne (isGrouped : Nat → Nat → Bool) : Nat → Bytes → Res Frame
  | 0, _ => .err "fuel"
  | fuel+1, bs =>
    if bs.length < 8 then .err "avp-header-short" else
    let code := rd (bs.take 4)
    let flags := (bs.getD 4 0).toNat
    let length := rd ((bs.drop 5).take 3)
    let hl := if flags ≥ 128 then 12 else 8
    if length < hl then .err "length-shorter-than-header" else
    if bs.length < length then .err "length-longer-than-container" else
    let vendor := if flags ≥ 128 then rd ((bs.drop 8).take 4) else 0
    let payload := (bs.take length).drop hl
    if isGrouped code vendor then
      (frames isGrouped fuel payload).mapR (fun kids => Frame.group code flags length vendor kids)
    else .ok (.leaf code flags length vendor payload)
/-- all AVPs of a container -/
def frames (isGrouped : Nat → Nat → Bool) : Nat → Bytes → Res (List Frame)
  | 0, bs => if bs.isEmpty then .ok [] else .err "fuel"
  | fuel+1, bs =>
    if bs.isEmpty then .ok [] else
    (frameOne isGrouped fuel bs).bindR (fun f =>
      (frames isGrouped fuel (bs.drop (roundUp4 (rd ((bs.drop 5).take 3))))).mapR (fun r => f :: r))
end

mutual
/-- the typed value of a frame: decode exactly the payload bytes with the dictionary's type -/
def typed (ty : Nat → Nat → Nat) : Frame → Res AVP
  | .leaf c f l v p => (decodeLeaf (ty c v) p).mapR (fun d => AVP.mk c f l v d)
  | .group c f l v kids => (typedL ty kids).mapR (fun as => AVP.mk c f l v (.group as))
def typedL (ty : Nat → Nat → Nat) : List Frame → Res (List AVP)
  | [] => .ok []
  | f :: r => (typed ty f).bindR (fun a => (typedL ty r).mapR (fun as => a :: as))
end

/-- the reference decoder: frame by Length only, then type each payload -/
def decodeByFrames (ty : Nat → Nat → Nat) (fuel : Nat) (bs : Bytes) : Res (List AVP) :=
  (frames (fun c v => ty c v = T.grouped) fuel bs).bindR (typedL ty)

end DV.Spec
