import Model.Codec
/-!
  Spec.Rfc — an independent RFC 6733 encoder (§3 header, §4.1 AVP header, §4.2–4.4 data
  formats), written top-down: sizes first, then bytes. It shares only `be`, `List` and the
  value types with `Model.Codec`.
-/
namespace DV.Spec

/-- RFC 6733 §4.3.1 Address: AddressType (2 octets, IANA address family) followed by the address.
    The API value holds a bare 4-byte (IPv4) or 16-byte (IPv6) address, or - for any other
    family - the family-prefixed octets as received. -/
def addrOctets (b : Bytes) : Bytes :=
  if b.length = 4 then 0 :: 1 :: b
  else if b.length = 16 then 0 :: 2 :: b
  else b

mutual
/-- number of data octets (unpadded) -/
def dataSize : Val → Nat
  | .str _ b => b.length
  | .addr b => (addrOctets b).length
  | .ip4 _ => 4
  | .ip6 _ => 16
  | .fix t _ => if t = 6 ∨ t = 11 ∨ t = 17 then 8 else 4
  | .time _ => 4
  | .group as => sizeL as
/-- octets an AVP occupies, padding included -/
def avpSize : AVP → Nat
  | .mk _ f _ _ d =>
    let n := (if f / 128 % 2 = 1 then 12 else 8) + dataSize d
    n + (4 - n % 4) % 4
def sizeL : List AVP → Nat
  | [] => 0
  | a :: r => avpSize a + sizeL r
end

mutual
def dataOctets : Val → Bytes
  | .str _ b => b
  | .addr b => addrOctets b
  | .ip4 b => b
  | .ip6 b => b
  | .fix t n => if t = 6 ∨ t = 11 ∨ t = 17 then be 8 n else be 4 n
  /- §4.3.1 Time: seconds since 1900-01-01 00:00 UTC, low 32 bits (RFC 5905 era wrap) -/
  | .time u => be 4 ((u + 2208988800) % 4294967296).toNat
  | .group as => emitL as
/-- §4.1: code(4) flags(1) length(3, header + data, no padding) [vendor(4) iff V] data pad -/
def emit : AVP → Bytes
  | .mk c f _ v d =>
    let vbit := f / 128 % 2 = 1
    let n := (if vbit then 12 else 8) + dataSize d
    be 4 c ++ UInt8.ofNat f :: be 3 n ++ (if vbit then be 4 v else []) ++ dataOctets d
      ++ List.replicate ((4 - n % 4) % 4) 0
def emitL : List AVP → Bytes
  | [] => []
  | a :: r => emit a ++ emitL r
end

/-- §3: version(1)=1 length(3) flags(1) code(3) application(4) hop-by-hop(4) end-to-end(4) -/
def encode (flags cmd app hbh e2e : Nat) (as : List AVP) : Bytes :=
  1 :: be 3 (20 + sizeL as) ++ UInt8.ofNat flags :: be 3 cmd ++ be 4 app ++ be 4 hbh ++ be 4 e2e ++ emitL as

/-- the RFC header layout as (field, first octet, one past last) -/
def rfcHeaderLayout : List (String × Nat × Nat) :=
  [("Version", 0, 1), ("MessageLength", 1, 4), ("CommandFlags", 4, 5), ("CommandCode", 5, 8),
   ("ApplicationID", 8, 12), ("HopByHopID", 12, 16), ("EndToEndID", 16, 20)]

end DV.Spec
