import Model.Mux
/-!
  Spec.Dispatch — C09's decision stated directly on the list of registrations, in the order
  they were made: the LAST registration of the most specific applicable kind wins.
-/
namespace DV.Spec

/-- handler of the last registration in `rs` satisfying `p` -/
def lastReg (p : Reg → Option Nat) : List Reg → Option Nat
  | [] => none
  | r :: rs => match lastReg p rs with
    | some h => some h
    | none => p r

def byIdx (app code : Nat) (req : Bool) : Reg → Option Nat
  | .idx a c r h => if (a, c, r) = (app, code, req) then some h else none
  | .all h => if allIdx = (app, code, req) then some h else none
  | _ => none

def byName (short : Nat) (req : Bool) : Reg → Option Nat
  | .name s x h => if (s, x) = (short, if req then 0 else 1) then some h else none
  | _ => none

def byAll : Reg → Option Nat
  | .all h => some h
  | .idx a c r h => if (a, c, r) = allIdx then some h else none
  | _ => none

/-- exactly one thing happens: index, else name, else catch-all, else report -/
def dispatch (rs : List Reg) (short : Option Nat) (app code : Nat) (req : Bool) : Dispatch :=
  match short with
  | none => (match lastReg byAll rs with | some h => .handler h | none => .report)
  | some s =>
    match lastReg (byIdx app code req) rs with
    | some h => .handler h
    | none =>
      match lastReg (byName s req) rs with
      | some h => .handler h
      | none => (match lastReg byAll rs with | some h => .handler h | none => .report)

end DV.Spec
