import Model.SM
/-!
  Spec.SMSpec — what C10 / C11 / C13 demand of a server-side state machine, stated directly on
  the AVPs of the request (no parser state, no error plumbing).
-/
namespace DV.Spec

/-- an application-id AVP that names the relay application or an application the local
    dictionary supports with that type (typ 1 = auth, 2 = acct) -/
def validApp (appOK : Nat → Nat → Bool) (typ : Nat) (a : AVP) : Bool :=
  match a.data with
  | .fix t n => t == T.u32 && (n == 4294967295 || appOK n typ)
  | _ => false

/-- the CER advertises at least one accounting, authentication, vendor-specific or relay
    application the local dictionary supports with the same type -/
def hasCommonApp (appOK : Nat → Nat → Bool) (as : List AVP) : Bool :=
  (allOf C.acctApp as).any (validApp appOK 2) ||
  (allOf C.authApp as).any (validApp appOK 1) ||
  (allOf C.vsa as).any (fun g => match g.data with
    | .group kids => kids.any (fun k => (k.code == C.acctApp && validApp appOK 2 k) || (k.code == C.authApp && validApp appOK 1 k))
    | _ => false)

def hasHost (as : List AVP) : Bool := ! (strField C.originHost as).isEmpty
def hasRealm (as : List AVP) : Bool := ! (strField C.originRealm as).isEmpty

/-- in-band security is not required: the AVP is absent or is Unsigned32 0 -/
def inbandOK (as : List AVP) : Bool :=
  match firstOf C.inband as with
  | none => true
  | some a => (match a.data with | .fix t n => t == T.u32 && n == 0 | _ => false)

/-- in-band security is required -/
def inbandRequired (as : List AVP) : Bool :=
  match firstOf C.inband as with
  | some a => (match a.data with | .fix t n => t == T.u32 && n != 0 | _ => false)
  | none => false

/-- C11: accept exactly when ... -/
def accept (appOK : Nat → Nat → Bool) (as : List AVP) : Bool :=
  hasHost as && hasRealm as && inbandOK as && hasCommonApp appOK as

def notU32 : Val → Bool
  | .fix t _ => t != T.u32
  | _ => true

/-- a Vendor-Specific-Application-Id that is not grouped, or holds an application id that is not Unsigned32 -/
def vsaMalformed (g : AVP) : Bool :=
  match g.data with
  | .group kids => kids.any (fun k => (k.code == C.acctApp || k.code == C.authApp) && notU32 k.data)
  | _ => true

def inbandMalformed (as : List AVP) : Bool :=
  match firstOf C.inband as with
  | some a => notU32 a.data
  | none => false

/-- some AVP the exchange depends on is malformed (not of its type) -/
def malformed (as : List AVP) : Bool :=
  inbandMalformed as ||
  (allOf C.acctApp as ++ allOf C.authApp as).any (fun a => notU32 a.data) ||
  (allOf C.vsa as).any vsaMalformed

/-- a failure Result-Code names a cause that applies to this CER -/
def applies (appOK : Nat → Nat → Bool) (rc : Nat) (as : List AVP) : Bool :=
  if rc = 5017 then inbandRequired as
  else if rc = 5010 then ! hasCommonApp appOK as
  else if rc = 5012 then ! hasHost as || ! hasRealm as || malformed as
  else false

end DV.Spec
