import Props.C01
import Props.C02
import Props.C03
import Props.C04
import Props.C16
import Props.C20
import Props.C05
import Props.C07
