import Gen.Consts
import Gen.Tables
import Gen.Layout
import Gen.Arith
import Gen.Dict
import Gen.Struct
import Gen.Names
import Gen.Pools
