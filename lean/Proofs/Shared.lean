import Model.Shared
import Proofs.ConnData
/-! Proofs.Shared — non-interference between connections and the shared mux lock. -/
namespace DV

theorem Sys.step_conns (d : DictFn) (df : Bool) (S S' : Sys) (k : Nat) (e : CEv) (h : S.step d df k e = some S') :
    ∃ c c', S.conns[k]? = some c ∧ c.step d e = some c' ∧ S'.conns = S.conns.set k c' := by
  unfold Sys.step at h
  cases hk : S.conns[k]? with
  | none => simp [hk] at h
  | some c =>
    simp only [hk] at h
    cases hc : c.step d e with
    | none => simp [hc] at h
    | some c' =>
      simp only [hc] at h
      cases h
      exact ⟨c, c', rfl, hc, rfl⟩

/-- Non-interference: in any schedule of the whole system, what connection `j` does is what
    it would do alone on its own events; the events of other connections - a handler that never
    returns included - have no influence on it. -/
theorem Sys.frame (d : DictFn) (df : Bool) : ∀ (es : List (Nat × CEv)) (S S' : Sys) (j : Nat) (c : CN),
    S.run d df es = some S' → S.conns[j]? = some c →
    ∃ c', S'.conns[j]? = some c' ∧ c.run d (projEv j es) = some c'
  | [], S, S', j, c, h, hc => by
    simp [Sys.run] at h; subst h; exact ⟨c, hc, by simp [projEv, CN.run]⟩
  | (k, e) :: es, S, S', j, c, h, hc => by
    simp only [Sys.run] at h
    cases hst : S.step d df k e with
    | none => simp [hst] at h
    | some S1 =>
      simp only [hst] at h
      obtain ⟨ck, ck', hk, hstep, hset⟩ := Sys.step_conns d df S S1 k e hst
      by_cases hjk : k = j
      · subst hjk
        have hcc : ck = c := by rw [hk] at hc; exact Option.some.inj hc
        subst hcc
        have hj1 : S1.conns[k]? = some ck' := by
          rw [hset]
          have : k < S.conns.length := by
            rcases Nat.lt_or_ge k S.conns.length with h | h
            · exact h
            · rw [List.getElem?_eq_none h] at hk; cases hk
          simp [this]
        obtain ⟨c', h1, h2⟩ := Sys.frame d df es S1 S' k ck' h hj1
        refine ⟨c', h1, ?_⟩
        simp only [projEv, List.filterMap_cons, if_true]
        simp only [CN.run, hstep]
        exact h2
      · have hj1 : S1.conns[j]? = some c := by
          rw [hset, List.getElem?_set_ne hjk]; exact hc
        obtain ⟨c', h1, h2⟩ := Sys.frame d df es S1 S' j c h hj1
        refine ⟨c', h1, ?_⟩
        simp only [projEv, List.filterMap_cons, hjk, if_false]
        exact h2

/-- 1 while the connection's reader goroutine is inside a handler -/
def inH (c : CN) : Nat := if c.reader = .inHandler then 1 else 0

def Sys.inHandlers (S : Sys) : Nat := (S.conns.map inH).sum

theorem sum_set (l : List CN) (k : Nat) (c c' : CN) (hk : l[k]? = some c) :
    ((l.set k c').map inH).sum + inH c = (l.map inH).sum + inH c' := by
  induction l generalizing k with
  | nil => simp at hk
  | cons a r ih =>
    cases k with
    | zero => simp at hk; subst hk; simp; omega
    | succ k =>
      simp at hk
      have := ih k hk
      simp only [List.set_cons_succ, List.map_cons, List.sum_cons]
      omega

theorem inH_readFrom (s : CN) (src : RSrc) : inH (s.readFrom src) = 0 := by
  unfold CN.readFrom inH
  cases src <;> simp only [] <;> (repeat' split) <;> simp_all [CN.terminate]

/-- how one step changes whether the connection is inside a handler -/
theorem inH_step (d : DictFn) (c c' : CN) (e : CEv) (h : c.step d e = some c') :
    (e = .readerStep → inH c = 0 ∧ inH c' = if c'.reader = .inHandler then 1 else 0) ∧
    (e = .handlerReturn → inH c = 1 ∧ inH c' = 0) ∧
    (e = .handlerPanic → inH c = 1 ∧ inH c' = 0) ∧
    (e ≠ .readerStep → e ≠ .handlerReturn → e ≠ .handlerPanic → inH c' = inH c) := by
  cases e with
  | readerStep =>
    refine ⟨fun _ => ?_, by simp, by simp, by simp⟩
    cases hr : c.reader with
    | inHandler => simp [CN.step, hr] at h
    | exited => simp [CN.step, hr] at h
    | idle => exact ⟨by simp [inH, hr], by simp [inH]⟩
    | blocked src => exact ⟨by simp [inH, hr], by simp [inH]⟩
  | handlerReturn =>
    refine ⟨by simp, fun _ => ?_, by simp, by simp⟩
    simp only [CN.step] at h
    split at h
    · rename_i hr; cases h; simp [inH, hr]
    · cases h
  | handlerPanic =>
    refine ⟨by simp, by simp, fun _ => ?_, by simp⟩
    simp only [CN.step] at h
    split at h
    · rename_i hr; cases h; simp [inH, hr, CN.terminate]
    · cases h
  | deliver b =>
    refine ⟨by simp, by simp, by simp, fun _ _ _ => ?_⟩
    simp only [CN.step] at h; split at h <;> cases h; simp [inH]
  | peerEof =>
    refine ⟨by simp, by simp, by simp, fun _ _ _ => ?_⟩
    simp only [CN.step] at h; split at h <;> cases h; simp [inH]
  | readErr =>
    refine ⟨by simp, by simp, by simp, fun _ _ _ => ?_⟩
    simp only [CN.step] at h; split at h <;> cases h; simp [inH]
  | localClose =>
    refine ⟨by simp, by simp, by simp, fun _ _ _ => ?_⟩
    simp only [CN.step] at h; split at h <;> cases h; simp [inH]
  | requestCN =>
    refine ⟨by simp, by simp, by simp, fun _ _ _ => ?_⟩
    simp only [CN.step] at h
    split at h
    · split at h
      · cases h; simp [inH]
      · split at h <;> (cases h; simp [inH])
    · cases h; rfl
  | readTimeout =>
    refine ⟨by simp, by simp, by simp, fun _ _ _ => ?_⟩
    simp only [CN.step] at h
    split at h
    · split at h
      · rename_i hr; cases h; simp [inH, hr, CN.terminate]
      · split at h
        · cases h; simp [inH]
        · cases h
    · cases h
  | copierStep =>
    refine ⟨by simp, by simp, by simp, fun _ _ _ => ?_⟩
    simp only [CN.step] at h
    split at h
    · repeat' split at h
      all_goals (first | cases h; simp [inH] | cases h)
    · repeat' split at h
      all_goals (first | cases h; simp [inH] | cases h)
    · cases h

/-- With the read lock released by `defer`, the number of read locks held on the shared mux is
    always the number of connections currently inside a handler - whatever happened before:
    handler panics, undecodable input, disconnects. -/
theorem Sys.rlocks_step (d : DictFn) (S S' : Sys) (k : Nat) (e : CEv) (hinv : S.rlocks = S.inHandlers)
    (h : S.step d true k e = some S') : S'.rlocks = S'.inHandlers := by
  unfold Sys.step at h
  cases hk : S.conns[k]? with
  | none => simp [hk] at h
  | some c =>
    simp only [hk] at h
    cases hc : c.step d e with
    | none => simp [hc] at h
    | some c' =>
      simp only [hc] at h
      cases h
      have hsum := sum_set S.conns k c c' hk
      obtain ⟨h1, h2, h3, h4⟩ := inH_step d c c' e hc
      simp only [Sys.inHandlers] at hinv ⊢
      cases e with
      | readerStep =>
        obtain ⟨a, b⟩ := h1 rfl
        simp only []
        split <;> simp_all <;> omega
      | handlerReturn => obtain ⟨a, b⟩ := h2 rfl; simp only []; omega
      | handlerPanic => obtain ⟨a, b⟩ := h3 rfl; simp only [if_true]; omega
      | deliver b => have := h4 (by simp) (by simp) (by simp); simp only []; omega
      | peerEof => have := h4 (by simp) (by simp) (by simp); simp only []; omega
      | readErr => have := h4 (by simp) (by simp) (by simp); simp only []; omega
      | readTimeout => have := h4 (by simp) (by simp) (by simp); simp only []; omega
      | localClose => have := h4 (by simp) (by simp) (by simp); simp only []; omega
      | requestCN => have := h4 (by simp) (by simp) (by simp); simp only []; omega
      | copierStep => have := h4 (by simp) (by simp) (by simp); simp only []; omega

theorem Sys.rlocks_run (d : DictFn) : ∀ (es : List (Nat × CEv)) (S S' : Sys), S.rlocks = S.inHandlers →
    S.run d true es = some S' → S'.rlocks = S'.inHandlers
  | [], S, S', hi, h => by simp [Sys.run] at h; subst h; exact hi
  | (k, e) :: es, S, S', hi, h => by
    simp only [Sys.run] at h
    cases hst : S.step d true k e with
    | none => simp [hst] at h
    | some S1 =>
      simp only [hst] at h
      exact Sys.rlocks_run d es S1 S' (Sys.rlocks_step d S S1 k e hi hst) h

theorem Sys.init_rlocks (cs : List Bool) : (Sys.init cs).rlocks = (Sys.init cs).inHandlers := by
  simp only [Sys.init, Sys.inHandlers, List.map_map]
  induction cs with
  | nil => rfl
  | cons a r ih => simp only [List.map_cons, List.sum_cons, ← ih]; simp [inH]

end DV
