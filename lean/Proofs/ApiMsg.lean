import Proofs.RoundTrip
import Proofs.Header
/-!
  Proofs.ApiMsg — `ReadMessage (Serialize m)` at message level (the body of `C01_api_msg`), kept
  here so that C05's end-to-end theorem can use it without importing C01's regenerated
  obligations (a change that breaks `C01_gen` must not make C05 fail to build).
-/
namespace DV
open DV.Spec

theorem api_msg_rt (d : DictFn) (m : Msg) (nreq nans : Nat)
    (hv : m.hdr.version < 256) (hf : m.hdr.flags < 256) (hcmd : m.hdr.cmd < 16777216)
    (happ : m.hdr.app < 4294967296) (hh : m.hdr.hbh < 4294967296) (he : m.hdr.e2e < 4294967296)
    (hlen : m.hdr.len = m.len) (hsz : m.len < 16777216)
    (hcmdr : d.cmdRules m.hdr.app m.hdr.cmd = some (nreq, nans))
    (hrules : (if isRequest m.hdr.flags then nreq else nans) ≠ 0)
    (hc : canonL m.avps = true) (ht : typedOkL (d.avpType m.hdr.app) m.avps = true) :
    decodeMsg d m.enc = .ok { hdr := m.hdr, avps := wireL m.avps } := by
  have hel := encL_length m.avps hc
  have hhl := header_enc_length m.hdr
  unfold decodeMsg Msg.enc
  have h1 : ¬ (m.hdr.enc ++ encL m.avps).length < 20 := by simp [hhl]
  simp only [h1, if_false]
  rw [List.take_left' hhl, header_roundtrip m.hdr hv (by rw [hlen]; exact hsz) hf hcmd happ hh he]
  simp only [hcmdr]
  have hl20 : ¬ m.hdr.len < 20 := by rw [hlen, Msg.len]; omega
  simp only [hl20, if_false]
  rw [List.drop_left' hhl]
  have htake : (encL m.avps).take (m.hdr.len - 20) = encL m.avps := by
    apply List.take_of_length_le; rw [hlen, Msg.len, hel]; omega
  rw [htake]
  have hb : ¬ (encL m.avps).length < m.hdr.len - 20 := by rw [hlen, Msg.len, hel]; omega
  simp only [hb, if_false, hrules]
  have hrt : decodeAVPs (d.avpType m.hdr.app) ((encL m.avps).length + 1) (encL m.avps) = .ok (wireL m.avps) := by
    rw [encL_length m.avps hc]
    exact rt_list (d.avpType m.hdr.app) m.avps hc ht (by rw [Msg.len] at hsz; omega) _ (Nat.le_refl _)
  rw [hrt]

end DV
