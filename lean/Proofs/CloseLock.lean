import Model.CloseLock
/-! Proofs.CloseLock — a close that takes no lock is never held up, and releases the stuck writer. -/
namespace DV

/-- without the lock, the closer never holds it -/
theorem CL_noLock_step {s s' : CLState} {e : CLEv} (h : s.lockByCloser = false) (hs : s.step false e = some s') :
    s'.lockByCloser = false := by
  cases e <;> simp only [CLState.step] at hs
  case closeLock => simp at hs
  all_goals (first
    | (split at hs <;> first | (simp only [Option.some.injEq] at hs; subst hs; simp [h]) | cases hs)
    | (simp only [Option.some.injEq] at hs; subst hs; simp [h]))

theorem CL_noLock_run : ∀ (es : List CLEv) (s s' : CLState), s.lockByCloser = false → CLState.run false s es = some s' →
    s'.lockByCloser = false
  | [], s, s', h, hr => by simp only [CLState.run, Option.some.injEq] at hr; subst hr; exact h
  | e :: es, s, s', h, hr => by
    simp only [CLState.run] at hr
    cases hs : s.step false e with
    | none => simp [hs] at hr
    | some q => rw [hs] at hr; exact CL_noLock_run es q s' (CL_noLock_step h hs) hr

/-- (source's parameter) in EVERY state, a requested close that has not happened yet can happen
    now: nothing it waits for -/
theorem CL_close_enabled (s : CLState) (hr : s.closeRequested = true) (hc : s.closed = false) :
    ∃ s', s.step false .closeDo = some s' ∧ s'.closed = true := by
  simp [CLState.step, hr, hc]

/-- once closed, a writer stuck in the transport can only fail, does, and the mutex is free again -/
theorem CL_writer_released (s : CLState) (hw : s.writer = .inTransport) (hc : s.closed = true) :
    s.step false .xferDone = none ∧
    ∃ s', s.step false .writeFails = some s' ∧ s'.writer = .failed ∧ s'.lockHeld = false := by
  simp [CLState.step, hw, hc]

end DV
