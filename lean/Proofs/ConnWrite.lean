import Model.ConnWrite
/-! Every connection owns its writer: a write through connection `k` reaches transport `k` only. -/
namespace DV

/-- without recycling: writer `k` belongs to connection `k` and writes to transport `k`; a
    transport holds only what was written through its own connection -/
structure WInvOwn (S : OwSys) : Prop where
  len : S.target.length = S.conns.length
  wr : ∀ (k : Nat) (c : OwConn), S.conns[k]? = some c → c.writer = k
  tg : ∀ k : Nat, k < S.target.length → S.target.getD k 0 = k
  own : ∀ (j : Nat) (c : OwConn), S.conns[j]? = some c → ∀ p ∈ c.wire, p.1 = j

theorem WInvOwn_init : WInvOwn {} :=
  ⟨rfl, by intro k c h; simp at h, by intro k h; simp at h, by intro j c h; simp at h⟩

theorem getElem?_set_cases {α : Type} (l : List α) (i j : Nat) (a b : α) (h : (l.set i a)[j]? = some b) :
    (j = i ∧ i < l.length ∧ b = a) ∨ (j ≠ i ∧ l[j]? = some b) := by
  by_cases hji : j = i
  · subst hji
    by_cases hl : j < l.length
    · rw [List.getElem?_set_self hl] at h
      simp only [Option.some.injEq] at h
      exact Or.inl ⟨rfl, hl, h.symm⟩
    · rw [List.getElem?_eq_none (by simp; omega)] at h; cases h
  · rw [List.getElem?_set_ne (by omega)] at h
    exact Or.inr ⟨hji, h⟩

theorem WInvOwn_step (S : OwSys) (e : OwEv) (h : WInvOwn S) : WInvOwn (S.step false e).1 := by
  cases e with
  | openConn =>
    simp only [OwSys.step]
    refine ⟨by simp [h.len], ?_, ?_, ?_⟩
    · intro k c hk
      by_cases hl : k < S.conns.length
      · rw [List.getElem?_append_left hl] at hk; exact h.wr k c hk
      · by_cases he : k = S.conns.length
        · subst he
          simp only [List.getElem?_concat_length, Option.some.injEq] at hk
          rw [← hk]; exact h.len
        · rw [List.getElem?_eq_none (by simp; omega)] at hk; cases hk
    · intro k hk
      simp only [List.length_append, List.length_cons, List.length_nil] at hk
      by_cases hl : k < S.target.length
      · rw [List.getD_eq_getElem?_getD, List.getElem?_append_left hl, ← List.getD_eq_getElem?_getD]
        exact h.tg k hl
      · have he : k = S.target.length := by omega
        subst he
        rw [List.getD_eq_getElem?_getD, List.getElem?_concat_length]
        simp [h.len]
    · intro j c hj
      by_cases hl : j < S.conns.length
      · rw [List.getElem?_append_left hl] at hj; exact h.own j c hj
      · by_cases he : j = S.conns.length
        · subst he
          simp only [List.getElem?_concat_length, Option.some.injEq] at hj
          rw [← hj]; intro p hp; simp at hp
        · rw [List.getElem?_eq_none (by simp; omega)] at hj; cases hj
  | die k =>
    simp only [OwSys.step]
    cases hk : S.conns[k]? with
    | none => exact h
    | some c =>
      by_cases ha : c.alive = true
      · simp only [ha, not_true_eq_false, if_false, Bool.false_eq_true]
        refine ⟨by simp [h.len], ?_, h.tg, ?_⟩
        · intro j cj hj
          rcases getElem?_set_cases _ _ _ _ _ hj with ⟨e1, _, e3⟩ | ⟨_, e2⟩
          · subst e1; rw [e3]; exact h.wr j c hk
          · exact h.wr j cj e2
        · intro j cj hj
          rcases getElem?_set_cases _ _ _ _ _ hj with ⟨e1, _, e3⟩ | ⟨_, e2⟩
          · subst e1; rw [e3]; exact h.own j c hk
          · exact h.own j cj e2
      · simp only [ha, not_false_eq_true, if_true]; exact h
  | write k id =>
    simp only [OwSys.step]
    cases hk : S.conns[k]? with
    | none => exact h
    | some c =>
      have hw := h.wr k c hk
      have hkl : k < S.conns.length := by
        by_cases hl : k < S.conns.length
        · exact hl
        · rw [List.getElem?_eq_none (by omega)] at hk; cases hk
      have ht : S.target.getD c.writer 0 = k := by rw [hw]; exact h.tg k (by rw [h.len]; exact hkl)
      simp only [ht, hk]
      by_cases ha : c.alive = true
      · simp only [ha, if_true]
        refine ⟨by simp [h.len], ?_, h.tg, ?_⟩
        · intro j cj hj
          rcases getElem?_set_cases _ _ _ _ _ hj with ⟨e1, _, e3⟩ | ⟨_, e2⟩
          · subst e1; rw [e3]; exact hw
          · exact h.wr j cj e2
        · intro j cj hj
          rcases getElem?_set_cases _ _ _ _ _ hj with ⟨e1, _, e3⟩ | ⟨_, e2⟩
          · subst e1; rw [e3]
            intro p hp
            simp only [List.mem_append, List.mem_singleton] at hp
            rcases hp with hp | hp
            · exact h.own j c hk p hp
            · rw [hp]
          · exact h.own j cj e2
      · simp only [ha, Bool.false_eq_true, if_false]; exact h

theorem WInvOwn_run (es : List OwEv) (S : OwSys) (h : WInvOwn S) : WInvOwn (S.run false es).1 := by
  induction es generalizing S with
  | nil => exact h
  | cons e es ih =>
    simp only [OwSys.run]
    exact ih _ (WInvOwn_step S e h)

end DV

namespace DV

/-- with the stream handed over together with the bytes, every entry of the log is a write the
    schedule contains, with that write's own stream -/
theorem SW_direct (es : List SWEv) (s : SWState) :
    ∀ p ∈ (s.run true es).log, p ∈ s.log ∨ SWEv.write p.1 p.2 ∈ es := by
  induction es generalizing s with
  | nil => intro p hp; exact Or.inl hp
  | cons e es ih =>
    intro p hp
    have := ih (s.step true e) p hp
    rcases this with h | h
    · cases e with
      | select id st => simp only [SWState.step, if_true] at h; exact Or.inl h
      | write id st =>
        simp only [SWState.step, if_true, List.mem_append, List.mem_singleton] at h
        rcases h with h | h
        · exact Or.inl h
        · right; rw [h]; exact List.mem_cons_self
    · exact Or.inr (List.mem_cons_of_mem _ h)

end DV

namespace DV

theorem getD_set_self (l : List Nat) (i v : Nat) (h : i < l.length) : (l.set i v).getD i 0 = v := by
  rw [List.getD_eq_getElem?_getD, List.getElem?_set_self h]; rfl

theorem getD_set_ne (l : List Nat) (i j v : Nat) (h : i ≠ j) : (l.set i v).getD j 0 = l.getD j 0 := by
  rw [List.getD_eq_getElem?_getD, List.getD_eq_getElem?_getD, List.getElem?_set_ne h]

/-- with answers routed by connection, each connection is credited exactly the answers that
    arrived on it after its handshake - whatever happens on the other connections -/
theorem share_byConn (es : List ShareEv) (s : ShareState) (k : Nat) (hk : k < s.acks.length) :
    (s.run true es).acks.getD k 0 = s.acks.getD k 0 + answersOn k es ∧ k < (s.run true es).acks.length := by
  induction es generalizing s with
  | nil => simp [ShareState.run, answersOn, hk]
  | cons e es ih =>
    have hrun : s.run true (e :: es) = (s.step true e).run true es := rfl
    rw [hrun]
    cases e with
    | handshake =>
      have hk' : k < (s.step true .handshake).acks.length := by
        simp only [ShareState.step, List.length_append, List.length_cons, List.length_nil]; omega
      obtain ⟨h1, h2⟩ := ih (s.step true .handshake) hk'
      refine ⟨?_, h2⟩
      rw [h1]
      have : (s.step true .handshake).acks.getD k 0 = s.acks.getD k 0 := by
        simp only [ShareState.step]
        rw [List.getD_eq_getElem?_getD, List.getElem?_append_left hk, ← List.getD_eq_getElem?_getD]
      rw [this]
      simp [answersOn]
    | answer j =>
      by_cases hj : j < s.acks.length
      · have hlen : (s.step true (.answer j)).acks.length = s.acks.length := by
          simp [ShareState.step, hj]
        obtain ⟨h1, h2⟩ := ih (s.step true (.answer j)) (by rw [hlen]; exact hk)
        refine ⟨?_, h2⟩
        rw [h1]
        by_cases hjk : j = k
        · subst hjk
          have : (s.step true (.answer j)).acks.getD j 0 = s.acks.getD j 0 + 1 := by
            simp only [ShareState.step, hj, if_true]
            exact getD_set_self _ _ _ hj
          rw [this]
          simp [answersOn]; omega
        · have : (s.step true (.answer j)).acks.getD k 0 = s.acks.getD k 0 := by
            simp only [ShareState.step, hj, if_true]
            exact getD_set_ne _ _ _ _ hjk
          rw [this]
          have hne : (ShareEv.answer j == ShareEv.answer k) = false := by
            simp [hjk]
          simp [answersOn, hne]
      · have hst : s.step true (.answer j) = s := by simp [ShareState.step, hj]
        rw [hst]
        obtain ⟨h1, h2⟩ := ih s hk
        refine ⟨?_, h2⟩
        rw [h1]
        have hjk : j ≠ k := by omega
        have hne : (ShareEv.answer j == ShareEv.answer k) = false := by simp [hjk]
        simp [answersOn, hne]

end DV
