import Model.Sctp
import Spec.Split
import Proofs.Stream
/-! Proofs.Sctp — per-stream correctness of the SCTP demultiplexer (C19). -/
namespace DV
open DV.Spec

def SS.sockBytes (s : SS) (σ : Nat) : Bytes := ((s.chunks.filter (fun c => c.1 = σ)).map (·.2)).flatten

theorem SS.streamBytes_eq (s : SS) (σ : Nat) : s.streamBytes σ = s.bufs σ ++ s.sockBytes σ := rfl

@[simp] theorem setBuf_same (f : Nat → Bytes) (σ : Nat) (b : Bytes) : setBuf f σ b σ = b := by simp [setBuf]
theorem setBuf_other (f : Nat → Bytes) (σ τ : Nat) (b : Bytes) (h : τ ≠ σ) : setBuf f σ b τ = f τ := by simp [setBuf, h]

/-- `SCTPRead`: a non-empty piece of the head chunk -/
theorem sockRead_none (s : SS) (want : Nat) (h : (s.sockRead want).1 = none) :
    s.chunks = [] ∧ (s.sockRead want).2 = s := by
  unfold SS.sockRead at h ⊢
  cases hc : s.chunks with
  | nil => simp
  | cons c r =>
    obtain ⟨τ, d⟩ := c
    simp only [hc] at h
    split at h <;> simp at h

theorem sockRead_some (s : SS) (want : Nat) (hw : s.wf) (hwant : 0 < want) (τ : Nat) (d : Bytes) (s' : SS)
    (h : s.sockRead want = (some (τ, d), s')) :
    s'.bufs = s.bufs ∧ s'.fin = s.fin ∧ s'.wf ∧ 0 < d.length ∧ d.length ≤ want ∧
    s.sockBytes τ = d ++ s'.sockBytes τ ∧ (∀ υ, υ ≠ τ → s'.sockBytes υ = s.sockBytes υ) ∧
    s.sockTotal = d.length + s'.sockTotal := by
  unfold SS.sockRead at h
  cases hc : s.chunks with
  | nil => simp [hc] at h
  | cons c r =>
    obtain ⟨τ0, d0⟩ := c
    simp only [hc] at h
    have hd0 : 0 < d0.length := hw (τ0, d0) (by simp [hc])
    have hr : ∀ c ∈ r, 0 < c.2.length := fun c hcm => hw c (by simp [hc, hcm])
    split at h
    · rename_i hle
      simp only [Prod.mk.injEq, Option.some.injEq] at h
      obtain ⟨⟨rfl, rfl⟩, rfl⟩ := h
      refine ⟨rfl, rfl, hr, hd0, hle, ?_, ?_, ?_⟩
      · simp [SS.sockBytes, hc]
      · intro υ hυ
        have : ¬ (τ0 = υ) := fun e => hυ e.symm
        simp [SS.sockBytes, hc, this]
      · simp [SS.sockTotal, hc]
    · rename_i hgt
      simp only [Prod.mk.injEq, Option.some.injEq] at h
      obtain ⟨⟨rfl, rfl⟩, rfl⟩ := h
      have hlt : want < d0.length := by omega
      refine ⟨rfl, rfl, ?_, ?_, ?_, ?_, ?_, ?_⟩
      · intro c hcm
        simp at hcm
        rcases hcm with rfl | hcm
        · simp; omega
        · exact hr c hcm
      · rw [List.length_take]; omega
      · rw [List.length_take]; omega
      · simp only [SS.sockBytes, hc, List.filter_cons, if_true, decide_true, List.map_cons, List.flatten_cons]
        rw [← List.append_assoc, List.take_append_drop]
      · intro υ hυ
        have : ¬ (τ0 = υ) := fun e => hυ e.symm
        simp [SS.sockBytes, hc, this]
      · simp only [SS.sockTotal, hc, List.map_cons, List.flatten_cons, List.length_append, List.length_take, List.length_drop]
        omega

/-- what a read for stream σ into a buffer of `want` bytes guarantees -/
structure RdSpec (s : SS) (σ want : Nat) (d : Bytes) (ok : Bool) (s' : SS) : Prop where
  wf : s'.wf
  fin : s'.fin = s.fin
  others : ∀ τ, τ ≠ σ → s'.streamBytes τ = s.streamBytes τ
  mine : s.streamBytes σ = d ++ s'.streamBytes σ
  le : d.length ≤ want
  okpos : ok = true → 0 < d.length
  fail : ok = false → d = [] ∧ s.streamBytes σ = []
  total : s'.sockTotal ≤ s.sockTotal

theorem bufRead_spec (s : SS) (σ want : Nat) (hw : s.wf) (hwant : 0 < want) (hne : ¬ (s.bufs σ).isEmpty = true) :
    RdSpec s σ want (s.bufRead σ want).1 true (s.bufRead σ want).2 := by
  have hpos : 0 < (s.bufs σ).length := by
    cases hb : s.bufs σ with
    | nil => simp [hb] at hne
    | cons a r => simp
  refine ⟨hw, rfl, ?_, ?_, ?_, ?_, by simp, Nat.le_refl _⟩
  · intro τ hτ
    simp [SS.bufRead, SS.streamBytes, setBuf_other _ _ _ _ hτ]
  · simp only [SS.bufRead, SS.streamBytes, setBuf_same]
    rw [← List.append_assoc, List.take_append_drop]
  · simp only [SS.bufRead, List.length_take]; omega
  · intro _; simp only [SS.bufRead, List.length_take]; omega

theorem buffer_streamBytes (s : SS) (τ : Nat) (d : Bytes) :
    (s.buffer τ d).streamBytes τ = s.bufs τ ++ d ++ s.sockBytes τ ∧
    ∀ υ, υ ≠ τ → (s.buffer τ d).streamBytes υ = s.streamBytes υ := by
  constructor
  · simp [SS.buffer, SS.streamBytes, SS.sockBytes]
  · intro υ hυ
    simp [SS.buffer, SS.streamBytes, setBuf_other _ _ _ _ hυ]

theorem verify_spec (s0 s : SS) (σ want : Nat) (d : Bytes) (hw0 : s0.wf) (hwant : 0 < want)
    (h : s0.sockRead want = (some (σ, d), s)) :
    RdSpec s0 σ want (s.verify σ d want).1 true (s.verify σ d want).2 := by
  obtain ⟨hb, hf, hw, hd0, hdle, hmine, hoth, htot⟩ := sockRead_some s0 want hw0 hwant σ d s h
  unfold SS.verify
  split
  · rename_i hemp
    have he : s.bufs σ = [] := List.isEmpty_iff.mp hemp
    refine ⟨hw, hf, ?_, ?_, hdle, fun _ => hd0, by simp, by show s.sockTotal ≤ s0.sockTotal; omega⟩
    · intro τ hτ
      simp only [SS.streamBytes_eq, hb, hoth τ hτ]
    · simp only [SS.streamBytes_eq, hmine, ← hb, he, List.nil_append]
  · rename_i hne
    have hne' : ¬ ((s.buffer σ d).bufs σ).isEmpty = true := by
      simp only [SS.buffer, setBuf_same]
      intro e
      have := List.isEmpty_iff.mp e
      simp at this
      exact hne (by simp [this.1])
    have hwb : (s.buffer σ d).wf := hw
    have r := bufRead_spec (s.buffer σ d) σ want hwb hwant hne'
    obtain ⟨b1, b2⟩ := buffer_streamBytes s σ d
    refine ⟨r.wf, by rw [r.fin]; exact hf, ?_, ?_, r.le, r.okpos, by simp, ?_⟩
    · intro τ hτ
      rw [r.others τ hτ, b2 τ hτ]
      simp only [SS.streamBytes_eq, hb, hoth τ hτ]
    · rw [← r.mine, b1]
      simp only [SS.streamBytes_eq, hmine, hb, List.append_assoc]
    · have : (s.buffer σ d).sockTotal = s.sockTotal := rfl
      have := r.total
      omega

theorem readStream_spec : ∀ (fuel want σ : Nat) (s : SS), s.wf → 0 < want → s.sockTotal + 1 ≤ fuel →
    RdSpec s σ want (readStream fuel want σ s).1.1 (readStream fuel want σ s).1.2 (readStream fuel want σ s).2
  | 0, _, _, s, _, _, hf => by omega
  | fuel+1, want, σ, s, hw, hwant, hf => by
    unfold readStream
    by_cases hne : (s.bufs σ).isEmpty = true
    · simp only [hne, not_true_eq_false, if_false]
      have he : s.bufs σ = [] := List.isEmpty_iff.mp hne
      cases hsr : s.sockRead want with
      | mk o s' =>
        cases o with
        | none =>
          simp only []
          have := sockRead_none s want (by rw [hsr])
          rw [hsr] at this
          obtain ⟨hc, hs'⟩ := this
          simp only [] at hs'
          subst hs'
          refine ⟨hw, rfl, fun _ _ => rfl, ?_, by simp, by simp, ?_, Nat.le_refl _⟩
          · simp
          · intro _; simp [SS.streamBytes, he, hc]
        | some td =>
          obtain ⟨τ, d⟩ := td
          simp only []
          by_cases hτ : τ = σ
          · subst hτ
            simp only [if_true]
            exact verify_spec s s' τ want d hw hwant hsr
          · simp only [hτ, if_false]
            obtain ⟨hb, hfin, hw', hd0, hdle, hmine, hoth, htot⟩ := sockRead_some s want hw hwant τ d s' hsr
            have hwb : (s'.buffer τ d).wf := hw'
            have htb : (s'.buffer τ d).sockTotal = s'.sockTotal := rfl
            have ih := readStream_spec fuel want σ (s'.buffer τ d) hwb hwant (by omega)
            obtain ⟨b1, b2⟩ := buffer_streamBytes s' τ d
            have hστ : σ ≠ τ := fun e => hτ e.symm
            refine ⟨ih.wf, by rw [ih.fin]; exact hfin, ?_, ?_, ih.le, ih.okpos, ?_, by have := ih.total; omega⟩
            · intro υ hυ
              rw [ih.others υ hυ]
              by_cases hυτ : υ = τ
              · subst hυτ
                rw [b1]
                simp only [SS.streamBytes_eq, hmine, hb, List.append_assoc]
              · rw [b2 υ hυτ]
                simp only [SS.streamBytes_eq, hb, hoth υ hυτ]
            · rw [← ih.mine, b2 σ hστ]
              simp only [SS.streamBytes_eq, hb, hoth σ hστ]
            · intro hfalse
              have := ih.fail hfalse
              refine ⟨this.1, ?_⟩
              rw [← this.2, b2 σ hστ]
              simp only [SS.streamBytes_eq, hb, hoth σ hστ]
    · simp only [hne, not_false_eq_true, if_true]
      exact bufRead_spec s σ want hw hwant hne

/-- what the `ReadAtLeast` loop guarantees: exactly the next `need` bytes of stream σ, or the
    stream ran dry -/
structure MoreSpec (s : SS) (σ need : Nat) (acc res : Bytes) (ok : Bool) (s' : SS) : Prop where
  wf : s'.wf
  fin : s'.fin = s.fin
  others : ∀ τ, τ ≠ σ → s'.streamBytes τ = s.streamBytes τ
  okcase : ok = true → res = acc ++ (s.streamBytes σ).take need ∧ s'.streamBytes σ = (s.streamBytes σ).drop need ∧
      need ≤ (s.streamBytes σ).length
  failcase : ok = false → (s.streamBytes σ).length < need

theorem readMore_spec : ∀ (fuel need σ : Nat) (acc : Bytes) (s : SS), s.wf → need ≤ fuel →
    MoreSpec s σ need acc (readMore fuel need σ acc s).1.1 (readMore fuel need σ acc s).1.2 (readMore fuel need σ acc s).2
  | fuel, 0, σ, acc, s, hw, _ => by
    have : readMore fuel 0 σ acc s = ((acc, true), s) := by cases fuel <;> rfl
    rw [this]
    exact ⟨hw, rfl, fun _ _ => rfl, fun _ => by simp, by simp⟩
  | 0, need+1, σ, acc, s, _, hf => by omega
  | fuel+1, need+1, σ, acc, s, hw, hf => by
    have r := readStream_spec (s.sockTotal + 1) (need + 1) σ s hw (by omega) (Nat.le_refl _)
    unfold readMore
    cases hrs : readStream (s.sockTotal + 1) (need + 1) σ s with
    | mk dr s' =>
      obtain ⟨d, ok⟩ := dr
      rw [hrs] at r
      simp only [] at r
      cases ok with
      | false =>
        simp only []
        obtain ⟨hd, hsb⟩ := r.fail rfl
        exact ⟨r.wf, r.fin, r.others, by simp, fun _ => by rw [hsb]; simp⟩
      | true =>
        simp only []
        have hdpos := r.okpos rfl
        have hdle := r.le
        have ih := readMore_spec fuel (need + 1 - d.length) σ (acc ++ d) s' r.wf (by omega)
        refine ⟨ih.wf, by rw [ih.fin, r.fin], ?_, ?_, ?_⟩
        · intro τ hτ; rw [ih.others τ hτ, r.others τ hτ]
        · intro hok
          obtain ⟨h1, h2, h3⟩ := ih.okcase hok
          rw [r.mine]
          refine ⟨?_, ?_, ?_⟩
          · rw [h1, take_app_sub d _ _ hdle, List.append_assoc]
          · rw [h2, drop_app_sub d _ _ hdle]
          · rw [List.length_append]; omega
        · intro hfail
          have := ih.failcase hfail
          rw [r.mine, List.length_append]; omega

theorem readAny_spec (pick : Option Nat) (want : Nat) (s : SS) (hw : s.wf) (hwant : 0 < want) :
    ((readAny pick want s).1.2.2 = true →
      RdSpec s (readAny pick want s).1.2.1 want (readAny pick want s).1.1 true (readAny pick want s).2) ∧
    ((readAny pick want s).1.2.2 = false → (readAny pick want s).2 = s ∧ s.chunks = []) := by
  unfold readAny
  split
  · rename_i σ hp
    have hne : ¬ (s.bufs σ).isEmpty = true := by
      cases pick with
      | none => simp at hp
      | some σ' =>
        simp only [] at hp
        split at hp
        · cases hp
        · rename_i hh; cases hp; exact hh
    simp only []
    exact ⟨fun _ => bufRead_spec s σ want hw hwant hne, by simp⟩
  · cases hsr : s.sockRead want with
    | mk o s' =>
      cases o with
      | none =>
        simp only []
        have := sockRead_none s want (by rw [hsr])
        rw [hsr] at this
        exact ⟨by simp, fun _ => ⟨this.2, this.1⟩⟩
      | some td =>
        obtain ⟨τ, d⟩ := td
        simp only []
        exact ⟨fun _ => verify_spec s s' τ want d hw hwant hsr, by simp⟩

/-- One iteration of the reader loop, when a stream could be chosen: the outcome is the outcome
    of the reference split (by declared length) applied to THAT stream's unconsumed bytes; no
    other stream's bytes are touched; after a message exactly its bytes are gone from the stream. -/
theorem SS.readMessage_spec (d : DictFn) (pick : Option Nat) (s : SS) (hw : s.wf) :
    (s.readMessage d pick).2.wf ∧ (s.readMessage d pick).2.fin = s.fin ∧
    ((readAny pick 20 s).1.2.2 = true →
      (s.readMessage d pick).1.1 = (splitStep d (s.streamBytes (s.readMessage d pick).1.2) s.fin).1 ∧
      (∀ τ, τ ≠ (s.readMessage d pick).1.2 → (s.readMessage d pick).2.streamBytes τ = s.streamBytes τ) ∧
      (∀ m n, splitStep d (s.streamBytes (s.readMessage d pick).1.2) s.fin = (.msg m, n) →
        (s.readMessage d pick).2.streamBytes (s.readMessage d pick).1.2 =
          (s.streamBytes (s.readMessage d pick).1.2).drop n)) ∧
    ((readAny pick 20 s).1.2.2 = false → ∀ m, (s.readMessage d pick).1.1 ≠ .msg m) := by
  obtain ⟨ra1, ra2⟩ := readAny_spec pick 20 s hw (by omega)
  unfold SS.readMessage
  cases hra : readAny pick 20 s with
  | mk r1 s1 =>
    obtain ⟨h0, σ, ok⟩ := r1
    rw [hra] at ra1 ra2
    simp only [] at ra1 ra2
    cases ok with
    | false =>
      simp only []
      obtain ⟨e1, _⟩ := ra2 rfl
      subst e1
      refine ⟨hw, rfl, by simp, fun _ m => ?_⟩
      cases s1.fin <;> simp
    | true =>
      simp only []
      have r := ra1 rfl
      have h0pos := r.okpos rfl
      have h0le := r.le
      have rm := readMore_spec 20 (20 - h0.length) σ h0 s1 r.wf (by omega)
      cases hrm : readMore 20 (20 - h0.length) σ h0 s1 with
      | mk r2 s2 =>
        obtain ⟨hb, ok2⟩ := r2
        rw [hrm] at rm
        simp only [] at rm
        have hsb : s.streamBytes σ = h0 ++ s1.streamBytes σ := r.mine
        have hne : (s.streamBytes σ).isEmpty = false := by
          rw [hsb]; cases h0 with
          | nil => simp at h0pos
          | cons a t => rfl
        cases ok2 with
        | false =>
          simp only []
          have hlt := rm.failcase rfl
          have hshort : (s.streamBytes σ).length < 20 := by rw [hsb, List.length_append]; omega
          refine ⟨rm.wf, by rw [rm.fin, r.fin], fun _ => ⟨?_, ?_, ?_⟩, by simp⟩
          · simp [splitStep, hne, hshort]
          · intro τ hτ; rw [rm.others τ hτ, r.others τ hτ]
          · intro m n hsp; simp [splitStep, hne, hshort] at hsp
        | true =>
          simp only []
          obtain ⟨e1, e2, e3⟩ := rm.okcase rfl
          have hlen20 : 20 ≤ (s.streamBytes σ).length := by rw [hsb, List.length_append]; omega
          have hnot : ¬ (s.streamBytes σ).length < 20 := by omega
          have hbe : hb = (s.streamBytes σ).take 20 := by
            rw [e1, hsb, take_app_sub h0 _ _ h0le]
          have hs2 : s2.streamBytes σ = (s.streamBytes σ).drop 20 := by
            rw [e2, hsb, drop_app_sub h0 _ _ h0le]
          have hoth2 : ∀ τ, τ ≠ σ → s2.streamBytes τ = s.streamBytes τ := by
            intro τ hτ; rw [rm.others τ hτ, r.others τ hτ]
          have hfin2 : s2.fin = s.fin := by rw [rm.fin, r.fin]
          cases hdh : decodeHeader hb with
          | ok h =>
            simp only []
            rw [hbe] at hdh
            cases hcr : d.cmdRules h.app h.cmd with
            | none =>
              simp only []
              refine ⟨rm.wf, hfin2, fun _ => ⟨?_, hoth2, ?_⟩, by simp⟩
              · simp [splitStep, hne, hnot, hdh, hcr]
              · intro m n hsp; simp [splitStep, hne, hnot, hdh, hcr] at hsp
            | some rules =>
              simp only []
              by_cases hl : h.len < 20
              · simp only [hl, if_true]
                refine ⟨rm.wf, hfin2, fun _ => ⟨?_, hoth2, ?_⟩, by simp⟩
                · simp [splitStep, hne, hnot, hdh, hcr, hl]
                · intro m n hsp; simp [splitStep, hne, hnot, hdh, hcr, hl] at hsp
              · simp only [hl, if_false]
                have rb := readMore_spec (h.len - 20) (h.len - 20) σ [] s2 rm.wf (Nat.le_refl _)
                cases hrb : readMore (h.len - 20) (h.len - 20) σ [] s2 with
                | mk r3 s3 =>
                  obtain ⟨body, ok3⟩ := r3
                  rw [hrb] at rb
                  simp only [] at rb
                  have hoth3 : ∀ τ, τ ≠ σ → s3.streamBytes τ = s.streamBytes τ := by
                    intro τ hτ; rw [rb.others τ hτ, hoth2 τ hτ]
                  cases ok3 with
                  | false =>
                    simp only []
                    have hlt := rb.failcase rfl
                    rw [hs2, List.length_drop] at hlt
                    have hshort : (s.streamBytes σ).length < h.len := by omega
                    refine ⟨rb.wf, by rw [rb.fin, hfin2], fun _ => ⟨?_, hoth3, ?_⟩, by simp⟩
                    · simp [splitStep, hne, hnot, hdh, hcr, hl, hshort]
                    · intro m n hsp; simp [splitStep, hne, hnot, hdh, hcr, hl, hshort] at hsp
                  | true =>
                    simp only []
                    obtain ⟨b1, b2, b3⟩ := rb.okcase rfl
                    rw [hs2] at b1 b2 b3
                    rw [List.length_drop] at b3
                    have hfull : ¬ (s.streamBytes σ).length < h.len := by omega
                    simp only [List.nil_append] at b1
                    refine ⟨rb.wf, by rw [rb.fin, hfin2], fun _ => ⟨?_, hoth3, ?_⟩, by simp⟩
                    · simp [splitStep, hne, hnot, hdh, hcr, hl, hfull, b1]
                    · intro m n hsp
                      simp [splitStep, hne, hnot, hdh, hcr, hl, hfull] at hsp
                      rw [b2, List.drop_drop, ← hsp.2]
                      congr 1; omega
          | err e =>
            simp only []
            rw [hbe] at hdh
            refine ⟨rm.wf, hfin2, fun _ => ⟨?_, hoth2, ?_⟩, by simp⟩
            · simp [splitStep, hne, hnot, hdh]
            · intro m n hsp; simp [splitStep, hne, hnot, hdh] at hsp
          | panic e =>
            simp only []
            rw [hbe] at hdh
            refine ⟨rm.wf, hfin2, fun _ => ⟨?_, hoth2, ?_⟩, by simp⟩
            · simp [splitStep, hne, hnot, hdh]
            · intro m n hsp; simp [splitStep, hne, hnot, hdh] at hsp

/-- the message part of `split` -/
theorem splitMsgs_eq (d : DictFn) : ∀ (k : Nat) (bs : Bytes) (fin : Fin),
    splitMsgs d k bs fin = (split d k bs fin).1.filterMap (fun r => match r with | .msg m => some m | _ => none)
  | 0, _, _ => by simp [splitMsgs, split]
  | k+1, bs, fin => by
    unfold splitMsgs split
    cases hs : splitStep d bs fin with
    | mk r n =>
      cases r <;> simp [splitMsgs_eq d k]

/-- Per stream: the messages the reader loop delivers from stream σ are, in order, exactly the
    first messages of the reference split of σ's own byte sequence, and what is left of σ is what
    follows them - for every chunking, every interleaving and every choice the buffer heap makes. -/
theorem readLoopS_perstream (d : DictFn) : ∀ (picks : List (Option Nat)) (s : SS), s.wf → ∀ σ,
    onStream σ (s.readLoopS d picks).1 = splitMsgs d (onStream σ (s.readLoopS d picks).1).length (s.streamBytes σ) s.fin ∧
    (s.readLoopS d picks).2.streamBytes σ = splitRest d (onStream σ (s.readLoopS d picks).1).length (s.streamBytes σ) s.fin ∧
    (s.readLoopS d picks).2.fin = s.fin
  | [], s, _, σ => by simp [SS.readLoopS, onStream, splitMsgs, splitRest]
  | p :: ps, s, hw, σ => by
    obtain ⟨hw', hfin', hok, hfail⟩ := SS.readMessage_spec d p s hw
    unfold SS.readLoopS
    cases hrm : s.readMessage d p with
    | mk rt s' =>
      obtain ⟨r, τ⟩ := rt
      rw [hrm] at hw' hfin' hok hfail
      simp only [] at hw' hfin' hok hfail
      cases r with
      | msg m =>
        simp only []
        have hany : (readAny p 20 s).1.2.2 = true := by
          cases h : (readAny p 20 s).1.2.2 with
          | true => rfl
          | false => exact absurd rfl (hfail h m)
        obtain ⟨h1, h2, h3⟩ := hok hany
        have hsp : splitStep d (s.streamBytes τ) s.fin = (.msg m, (splitStep d (s.streamBytes τ) s.fin).2) := by
          rw [Prod.ext_iff]; exact ⟨h1.symm, rfl⟩
        have hdrop := h3 m _ hsp
        obtain ⟨ih1, ih2, ih3⟩ := readLoopS_perstream d ps s' hw' σ
        cases hrl : SS.readLoopS d ps s' with
        | mk rest sf =>
          rw [hrl] at ih1 ih2 ih3
          simp only [] at ih1 ih2 ih3 ⊢
          by_cases hστ : τ = σ
          · subst hστ
            have e : onStream τ ((m, τ) :: rest) = m :: onStream τ rest := by simp [onStream]
            rw [e, List.length_cons]
            refine ⟨?_, ?_, by rw [ih3, hfin']⟩
            · rw [splitMsgs, hsp]; simp only []
              rw [← hdrop, ← hfin']; rw [← ih1]
            · rw [splitRest, hsp]; simp only []
              rw [← hdrop, ← hfin']; exact ih2
          · have e : onStream σ ((m, τ) :: rest) = onStream σ rest := by simp [onStream, hστ]
            have hne : σ ≠ τ := fun e => hστ e.symm
            rw [e, ← h2 σ hne, ← hfin']
            exact ⟨ih1, ih2, ih3⟩
      | eof => simp [onStream, splitMsgs, splitRest]
      | errHeader => simp [onStream, splitMsgs, splitRest]
      | errCommand => simp [onStream, splitMsgs, splitRest]
      | reject => simp [onStream, splitMsgs, splitRest]
      | errBody => simp [onStream, splitMsgs, splitRest]
      | errDecode => simp [onStream, splitMsgs, splitRest]

end DV
