import Model.Conn
import Spec.Split
/-!
  Proofs.Conn — invariants of the connection LTS (`Model.Conn`), for every event sequence:
  control invariants (reader / copier / channel / flags), the data invariant (bytes delivered =
  bytes consumed ++ bytes still in flight), and the cut invariant (messages handed to handlers =
  the first messages of the reference split of everything the peer sent).
-/
namespace DV
open DV.Spec

/-- control invariant of one connection -/
structure CInv (d : DictFn) (s : CN) : Prop where
  srcCop : s.src = .rwc ↔ s.copier = .notStarted
  copW : s.copier = .exited ↔ s.pipeW = true
  blk : ∀ r, s.reader = .blocked r → r = s.src ∧ nextMsg d s.rbuf = .need
  chanNone : s.chan = .none → s.src = .rwc
  pend : s.pending = true → s.chan = .open ∧ s.src = .rwc ∧ s.reader ≠ .exited
  goneChan : s.gone = true → s.chan ≠ .open
  chanGone : s.chan = .closed → s.gone = true
  exGone : s.reader = .exited → s.gone = true ∧ s.closed = true
  copGone : s.copier = .exited → s.gone = true
  closes : s.closes = if s.chan = .closed then 1 else 0
  goneTerm : s.gone = true → s.terminated = true
  pipeR : s.pipeR = true → s.reader = .exited
  exPipe : s.reader = .exited → s.src = .pipe → s.pipeR = true
  cEnd : s.cEnd.isSome = true → (s.rerr || s.eof) = true
  tfail : s.tfail = true → s.reader = .exited ∨ s.copier = .exited
  act : s.active = if s.reader = .inHandler then 1 else 0
  maxAct : s.maxActive ≤ 1
  rep : s.reports ≤ 1 ∧ (s.reports = 1 → s.reader = .exited)
  pdata : s.pipeData ≠ [] → s.copier = .writing

theorem CInv_init (d : DictFn) (c : Bool) : CInv d { coal := c } := by
  constructor <;> simp [CN.terminated]

/-- a fresh connection of either kind (TCP-like, or a multistream association) -/
theorem CInv_init' (d : DictFn) (m c : Bool) : CInv d { multi := m, coal := c } := by
  constructor <;> simp [CN.terminated]

macro "cinv_close" h:ident : tactic => `(tactic| (
  obtain ⟨h1, h2, h3, h4, h5, h6, h7, h8, h9, h10, h11, h12, h13, h14, h15, h16, h17, h18, h19⟩ := $h
  constructor <;> simp_all [CN.terminated] <;> grind))

theorem CInv_notify (d : DictFn) (s : CN) (h : CInv d s) (ht : s.terminated = true) (hp : s.pending = false) : CInv d s.notify := by
  unfold CN.notify
  by_cases hg : s.gone = true
  · simp only [hg, if_true]; exact h
  · simp only [hg]
    obtain ⟨h1, h2, h3, h4, h5, h6, h7, h8, h9, h10, h11, h12, h13, h14, h15, h16, h17, h18, h19⟩ := h
    constructor <;> simp_all [CN.terminated] <;> grind

theorem CInv_terminate (d : DictFn) (s : CN) (rep : Bool) (h : CInv d s) (hr : s.reader ≠ .exited) :
    CInv d (s.terminate rep) := by
  unfold CN.terminate CN.notify
  obtain ⟨h1, h2, h3, h4, h5, h6, h7, h8, h9, h10, h11, h12, h13, h14, h15, h16, h17, h18, h19⟩ := h
  by_cases hg : s.gone = true
  · simp only [hg, if_true]
    constructor <;> simp_all [CN.terminated] <;> grind
  · simp only [hg]
    constructor <;> simp_all [CN.terminated] <;> grind

theorem CInv_readFrom (d : DictFn) (s : CN) (src : RSrc) (h : CInv d s) (hsrc : src = s.src)
    (hrd : s.reader = .idle ∨ s.reader = .blocked src) (hneed : nextMsg d s.rbuf = .need) :
    CInv d (s.readFrom src) := by
  have hne : s.reader ≠ .exited := by rcases hrd with h | h <;> simp [h]
  unfold CN.readFrom
  cases src with
  | rwc =>
    simp only []
    split
    · exact CInv_terminate d s _ h hne
    · split
      · exact CInv_terminate d s _ h hne
      · split
        · obtain ⟨h1, h2, h3, h4, h5, h6, h7, h8, h9, h10, h11, h12, h13, h14, h15, h16, h17, h18, h19⟩ := h
          constructor <;> simp_all [CN.terminated] <;> grind
        · split
          · exact CInv_terminate d s _ h hne
          · obtain ⟨h1, h2, h3, h4, h5, h6, h7, h8, h9, h10, h11, h12, h13, h14, h15, h16, h17, h18, h19⟩ := h
            constructor <;> simp_all [CN.terminated] <;> grind
  | pipe =>
    simp only []
    split
    · obtain ⟨h1, h2, h3, h4, h5, h6, h7, h8, h9, h10, h11, h12, h13, h14, h15, h16, h17, h18, h19⟩ := h
      constructor <;> simp_all [CN.terminated] <;> grind
    · split
      · exact CInv_terminate d s _ h hne
      · obtain ⟨h1, h2, h3, h4, h5, h6, h7, h8, h9, h10, h11, h12, h13, h14, h15, h16, h17, h18, h19⟩ := h
        constructor <;> simp_all [CN.terminated] <;> grind

theorem CInv_terminate_tfail (d : DictFn) (s : CN) (rep : Bool) (h : CInv d s) (hr : s.reader ≠ .exited) :
    CInv d (CN.terminate { s with tfail := true } rep) := by
  unfold CN.terminate CN.notify
  by_cases hg : s.gone = true
  · simp only [hg, if_true]; cinv_close h
  · simp only [hg]; cinv_close h

/-- the copy goroutine ends: `pw.CloseWithError(err); c.notifyClientGone()` -/
theorem CInv_copierExit (d : DictFn) (s : CN) (tf pe : Bool) (pd : Bytes) (h : CInv d s)
    (hc : s.copier = .reading ∨ s.copier = .writing) (hpd : pd = [])
    (hterm : tf = true ∨ s.terminated = true) :
    CInv d (CN.notify { s with tfail := tf, copier := .exited, pipeW := true, pipeErr := pe, pipeData := pd }) := by
  have hpend : s.pending = false := by
    cases hp : s.pending with
    | false => rfl
    | true =>
      have h1 := (h.pend hp).2.1
      have h2 := h.srcCop.mp h1
      rcases hc with hc | hc <;> simp [hc] at h2
  unfold CN.notify
  by_cases hg : s.gone = true
  · simp only [hg, if_true]; cinv_close h
  · simp only [hg]; cinv_close h

theorem CInv_step_deliver (d : DictFn) (s s' : CN) (b : Bytes) (h : CInv d s) (hs : s.step d (.deliver b) = some s') : CInv d s' := by
  simp only [CN.step] at hs
  split at hs
  · cases hs
  · cases hs; cinv_close h

theorem CInv_step_peerEof (d : DictFn) (s s' : CN) (h : CInv d s) (hs : s.step d .peerEof = some s') : CInv d s' := by
  simp only [CN.step] at hs
  split at hs
  · cases hs
  · cases hs; cinv_close h

theorem CInv_step_readErr (d : DictFn) (s s' : CN) (h : CInv d s) (hs : s.step d .readErr = some s') : CInv d s' := by
  simp only [CN.step] at hs
  split at hs
  · cases hs
  · cases hs; cinv_close h

theorem CInv_step_readTimeout (d : DictFn) (s s' : CN) (h : CInv d s) (hs : s.step d .readTimeout = some s') : CInv d s' := by
  simp only [CN.step] at hs
  split at hs
  · split at hs
    · cases hs
      exact CInv_terminate_tfail d s _ h (by simp_all)
    · split at hs
      · cases hs
        have hpd : s.pipeData = [] := by
          have := h.pdata; simp_all
        exact CInv_copierExit d s true true s.pipeData h (by simp_all) hpd (by simp)
      · cases hs
  · cases hs

theorem CInv_step_localClose (d : DictFn) (s s' : CN) (h : CInv d s) (hs : s.step d .localClose = some s') : CInv d s' := by
  simp only [CN.step] at hs
  split at hs
  · cases hs
  · cases hs; cinv_close h

theorem CInv_step_requestCN (d : DictFn) (s s' : CN) (h : CInv d s) (hs : s.step d .requestCN = some s') : CInv d s' := by
  cases hc : s.chan with
  | none =>
    simp only [CN.step, hc] at hs
    by_cases hg : s.gone = true
    · simp only [hg, if_true] at hs
      cases hs; cinv_close h
    · simp only [hg] at hs
      by_cases hm : s.multi = true
      · simp only [hm, if_true] at hs
        cases hs; cinv_close h
      · simp only [hm] at hs
        cases hs; cinv_close h
  | «open» => simp only [CN.step, hc] at hs; cases hs; exact h
  | closed => simp only [CN.step, hc] at hs; cases hs; exact h

theorem CInv_step_handlerReturn (d : DictFn) (s s' : CN) (h : CInv d s) (hs : s.step d .handlerReturn = some s') : CInv d s' := by
  simp only [CN.step] at hs
  split at hs
  · cases hs; cinv_close h
  · cases hs

theorem CInv_step_handlerPanic (d : DictFn) (s s' : CN) (h : CInv d s) (hs : s.step d .handlerPanic = some s') : CInv d s' := by
  simp only [CN.step] at hs
  split at hs
  · cases hs; exact CInv_terminate d s _ h (by simp_all)
  · cases hs

theorem CInv_step_readerStep (d : DictFn) (s s' : CN) (h : CInv d s) (hs : s.step d .readerStep = some s') : CInv d s' := by
  cases hr : s.reader with
  | idle =>
    cases hn : nextMsg d s.rbuf with
    | ready m n =>
      simp only [CN.step, hr, hn] at hs
      cases hs; cinv_close h
    | bad =>
      simp only [CN.step, hr, hn] at hs
      cases hs; exact CInv_terminate d s _ h (by simp [hr])
    | need =>
      simp only [CN.step, hr, hn] at hs
      cases hre : s.rEnd with
      | some e =>
        simp only [hre] at hs
        cases hs; exact CInv_terminate d s _ h (by simp [hr])
      | none =>
      simp only [hre] at hs
      by_cases hp : s.pending = true
      · simp only [hp, if_true] at hs
        cases hs
        refine CInv_readFrom d _ .pipe ?_ rfl (Or.inl rfl) hn
        cinv_close h
      · simp only [hp] at hs
        cases hs
        exact CInv_readFrom d s s.src h rfl (Or.inl hr) hn
  | blocked src =>
    have hb := h.blk src hr
    cases src with
    | rwc =>
      simp only [CN.step, hr] at hs
      split at hs
      · cases hs; exact CInv_readFrom d s .rwc h hb.1 (Or.inr hr) hb.2
      · cases hs
    | pipe =>
      simp only [CN.step, hr] at hs
      split at hs
      · cases hs; exact CInv_readFrom d s .pipe h hb.1 (Or.inr hr) hb.2
      · cases hs
  | inHandler => simp [CN.step, hr] at hs
  | exited => simp [CN.step, hr] at hs

theorem CInv_step_copierStep (d : DictFn) (s s' : CN) (h : CInv d s) (hs : s.step d .copierStep = some s') : CInv d s' := by
  cases hc : s.copier with
  | notStarted => simp [CN.step, hc] at hs
  | exited => simp [CN.step, hc] at hs
  | reading =>
    have hpd : s.pipeData = [] := by
      have := h.pdata; simp_all
    simp only [CN.step, hc] at hs
    split at hs
    · cases hs
      exact CInv_copierExit d s s.tfail true s.pipeData h (by simp [hc]) hpd (by simp_all [CN.terminated] <;> grind)
    · split at hs
      · cases hs; cinv_close h
      · split at hs
        · cases hs
          exact CInv_copierExit d s s.tfail s.rerr s.pipeData h (by simp [hc]) hpd (by simp_all [CN.terminated] <;> grind)
        · cases hs
  | writing =>
    simp only [CN.step, hc] at hs
    split at hs
    · cases hs
      have := h.pipeR (by assumption)
      exact CInv_copierExit d s s.tfail true [] h (by simp [hc]) rfl (by simp_all [CN.terminated])
    · split at hs
      · rename_i hpe
        have hpd : s.pipeData = [] := by simpa using hpe
        split at hs
        case h_2 hce => cases hs; cinv_close h
        case h_1 e hce =>
          cases hs
          have := h.cEnd (by simp [hce])
          exact CInv_copierExit d s s.tfail e s.pipeData h (by simp [hc]) hpd (by simp_all [CN.terminated] <;> grind)
      · cases hs

theorem CInv_step (d : DictFn) (s s' : CN) (e : CEv) (h : CInv d s) (hs : s.step d e = some s') : CInv d s' := by
  cases e with
  | deliver b => exact CInv_step_deliver d s s' b h hs
  | peerEof => exact CInv_step_peerEof d s s' h hs
  | readErr => exact CInv_step_readErr d s s' h hs
  | readTimeout => exact CInv_step_readTimeout d s s' h hs
  | localClose => exact CInv_step_localClose d s s' h hs
  | requestCN => exact CInv_step_requestCN d s s' h hs
  | handlerReturn => exact CInv_step_handlerReturn d s s' h hs
  | handlerPanic => exact CInv_step_handlerPanic d s s' h hs
  | readerStep => exact CInv_step_readerStep d s s' h hs
  | copierStep => exact CInv_step_copierStep d s s' h hs

theorem CInv_run (d : DictFn) : ∀ (es : List CEv) (s s' : CN), CInv d s → s.run d es = some s' → CInv d s'
  | [], s, s', h, hr => by simp [CN.run] at hr; subst hr; exact h
  | e :: es, s, s', h, hr => by
    simp only [CN.run] at hr
    cases hst : s.step d e with
    | none => simp [hst] at hr
    | some s1 =>
      simp only [hst] at hr
      exact CInv_run d es s1 s' (CInv_step d s s1 e h hst) hr

/-- in a quiescent state whose connection is gone and whose handler (if any) has returned, the
    reader loop has ended, the close-notify channel - if one was requested - is closed, and the
    copy goroutine was never started or has ended -/
theorem CInv_quiet (d : DictFn) (s : CN) (h : CInv d s) (hq : s.quiescent d = true)
    (ht : s.terminated = true) (hh : s.reader ≠ .inHandler) :
    s.chan ≠ .open ∧ s.reader = .exited ∧ s.gone = true ∧ (s.copier = .notStarted ∨ s.copier = .exited) := by
  simp only [CN.quiescent, Bool.and_eq_true, Option.isNone_iff_eq_none] at hq
  obtain ⟨hq1, hq2⟩ := hq
  have hrd : s.reader = .exited := by
    cases hr : s.reader with
    | exited => rfl
    | inHandler => exact absurd hr hh
    | idle =>
      simp only [CN.step, hr] at hq1
      split at hq1 <;> (try split at hq1) <;> (try split at hq1) <;> simp at hq1
    | blocked src =>
      exfalso
      have hb := h.blk src hr
      cases src with
      | rwc =>
        simp only [CN.step, hr] at hq1
        have := h.tfail; have := h.srcCop; have := h.copW
        simp_all [CN.terminated] <;> grind
      | pipe =>
        simp only [CN.step, hr] at hq1
        have := h.tfail; have := h.srcCop; have := h.copW; have := h.pdata
        cases hc : s.copier <;> simp_all [CN.terminated, CN.step] <;> grind
  have hg := h.exGone hrd
  refine ⟨h.goneChan hg.1, hrd, hg.1, ?_⟩
  have hp := h.exPipe hrd
  cases hc : s.copier with
  | notStarted => simp
  | exited => simp
  | reading => simp_all [CN.step]
  | writing =>
    have := h.srcCop
    cases hsrc : s.src <;> simp_all [CN.step]

end DV
