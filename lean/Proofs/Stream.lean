import Model.Stream
import Spec.Split
/-! `ReadMessage` over any fragmentation = the length-only split of the concatenated bytes (C05). -/
namespace DV
open DV.Spec

def Src.wf (s : Src) : Prop := ∀ f ∈ s.frags, 0 < f.length
def Src.bytes (s : Src) : Bytes := s.frags.flatten

/-- what `io.ReadFull` reports when the stream is exhausted after `got` bytes -/
def rfEnd (fin : Fin) (got : Bytes) : RF :=
  match fin with
  | .eof => if got.isEmpty then RF.eof else RF.unexpected
  | .err => RF.ioerr

theorem readFull_zero (fuel : Nat) (s : Src) (acc : Bytes) : readFull fuel 0 s acc = ((acc, .full), s) := by
  cases fuel <;> simp [readFull]

theorem readFull_succ (fuel n : Nat) (s : Src) (acc : Bytes) :
    readFull (fuel+1) (n+1) s acc =
      match s.read (n+1) with
      | (none, s') => ((acc, rfEnd s.fin acc), s')
      | (some got, s') => readFull fuel (n + 1 - got.length) s' (acc ++ got) := by
  rw [readFull]
  cases h : s.read (n+1) with
  | mk o s' =>
    cases o with
    | none => simp only [rfEnd]; cases s.fin <;> rfl
    | some g => rfl

theorem take_app_sub (f g : Bytes) (k : Nat) (h : f.length ≤ k) :
    (f ++ g).take k = f ++ g.take (k - f.length) := by
  rw [List.take_append, List.take_of_length_le h]

theorem drop_app_sub (f g : Bytes) (k : Nat) (h : f.length ≤ k) :
    (f ++ g).drop k = g.drop (k - f.length) := by
  rw [List.drop_append, List.drop_of_length_le h]; simp

/-- `io.ReadFull` over any fragmentation: the first `n` bytes of the stream if there are that
    many, else all of them with the end-of-stream class; the rest of the stream is what follows. -/
theorem readFull_frags : ∀ (fuel n : Nat) (frags : List Bytes) (fin : Fin) (acc : Bytes),
    (∀ f ∈ frags, 0 < f.length) → frags.length + 1 ≤ fuel →
    ∃ frags', readFull fuel n ⟨frags, fin⟩ acc =
        (if n ≤ frags.flatten.length then ((acc ++ frags.flatten.take n, RF.full), ⟨frags', fin⟩)
         else ((acc ++ frags.flatten, rfEnd fin (acc ++ frags.flatten)), ⟨frags', fin⟩)) ∧
      (∀ f ∈ frags', 0 < f.length) ∧ frags'.flatten = frags.flatten.drop n ∧ frags'.length ≤ frags.length
  | fuel, 0, frags, fin, acc, hw, _ => by
    refine ⟨frags, ?_, hw, by simp, Nat.le_refl _⟩
    rw [readFull_zero]; simp
  | 0, n+1, frags, fin, acc, _, hf => by omega
  | fuel+1, n+1, [], fin, acc, _, _ => by
    refine ⟨[], ?_, by simp, by simp, Nat.le_refl _⟩
    rw [readFull_succ]
    simp [Src.read]
  | fuel+1, n+1, f :: r, fin, acc, hw, hf => by
    rw [readFull_succ]
    have hfpos : 0 < f.length := hw f (by simp)
    have hw' : ∀ g ∈ r, 0 < g.length := fun g hg => hw g (by simp [hg])
    by_cases hle : f.length ≤ n + 1
    · have hread : (Src.mk (f :: r) fin).read (n+1) = (some f, ⟨r, fin⟩) := by simp [Src.read, hle]
      rw [hread]
      simp only []
      obtain ⟨frags', hs', hwf', hby', hlen'⟩ :=
        readFull_frags fuel (n + 1 - f.length) r fin (acc ++ f) hw' (by simp at hf; omega)
      refine ⟨frags', ?_, hwf', ?_, by simp; omega⟩
      · rw [hs']
        simp only [List.flatten_cons, List.length_append]
        by_cases hc : n + 1 ≤ f.length + r.flatten.length
        · have hc' : n + 1 - f.length ≤ r.flatten.length := by omega
          simp only [hc, hc', if_true]
          rw [take_app_sub f _ _ hle, List.append_assoc]
        · have hc' : ¬ (n + 1 - f.length ≤ r.flatten.length) := by omega
          simp only [hc, hc', if_false, List.append_assoc]
      · rw [hby']; simp only [List.flatten_cons]; rw [drop_app_sub f _ _ hle]
    · have hread : (Src.mk (f :: r) fin).read (n+1) = (some (f.take (n+1)), ⟨f.drop (n+1) :: r, fin⟩) := by
        simp [Src.read, hle]
      rw [hread]
      simp only []
      have hl : (f.take (n+1)).length = n + 1 := by rw [List.length_take]; omega
      rw [hl, Nat.sub_self, readFull_zero]
      refine ⟨f.drop (n+1) :: r, ?_, ?_, ?_, by simp⟩
      · simp only [List.flatten_cons]
        rw [if_pos (by simp; omega), List.take_append_of_le_length (by omega)]
      · intro g hg
        simp at hg
        rcases hg with rfl | hg
        · rw [List.length_drop]; omega
        · exact hw' g hg
      · simp only [List.flatten_cons]
        rw [List.drop_append_of_le_length (by omega)]

theorem readFull_spec (fuel n : Nat) (s : Src) (acc : Bytes) (hw : s.wf) (hf : s.frags.length + 1 ≤ fuel) :
    ∃ s', readFull fuel n s acc =
        (if n ≤ s.bytes.length then ((acc ++ s.bytes.take n, RF.full), s')
         else ((acc ++ s.bytes, rfEnd s.fin (acc ++ s.bytes)), s')) ∧
      s'.wf ∧ s'.fin = s.fin ∧ s'.bytes = s.bytes.drop n ∧ s'.frags.length ≤ s.frags.length := by
  cases s with
  | mk frags fin =>
    obtain ⟨frags', h1, h2, h3, h4⟩ := readFull_frags fuel n frags fin acc hw hf
    exact ⟨⟨frags', fin⟩, h1, h2, rfl, h3, h4⟩

theorem sum_ge_length (l : List Bytes) (h : ∀ f ∈ l, 0 < f.length) : l.length ≤ (l.map List.length).sum := by
  induction l with
  | nil => simp
  | cons a r ih =>
    simp only [List.map_cons, List.sum_cons, List.length_cons]
    have := h a (by simp)
    have := ih (fun f hf => h f (by simp [hf]))
    omega

theorem sum_eq_bytes (s : Src) : (s.frags.map List.length).sum = s.bytes.length := by
  simp [Src.bytes, List.length_flatten]

/-- `ReadMessage` depends on the transport only through its bytes and the way it ends:
    outcome and bytes consumed are those of the reference step, and what is left of the
    transport is the stream after the consumed bytes. -/
theorem readMessage_spec (d : DictFn) (s : Src) (hw : s.wf) :
    ∃ s', readMessage d s = ((splitStep d s.bytes s.fin).1, (splitStep d s.bytes s.fin).2, s') ∧
      s'.wf ∧ s'.fin = s.fin ∧ s'.bytes = s.bytes.drop (splitStep d s.bytes s.fin).2 := by
  unfold readMessage
  have hfuel : s.frags.length + 1 ≤ (s.frags.map List.length).sum + 1 := by
    have := sum_ge_length s.frags hw; omega
  obtain ⟨s1, h1, hw1, hfin1, hb1, hl1⟩ := readFull_spec _ 20 s [] hw hfuel
  simp only []
  rw [h1]
  by_cases h20 : 20 ≤ s.bytes.length
  · simp only [h20, if_true, List.nil_append]
    have hne : ¬ s.bytes.isEmpty = true := by
      intro h; have := List.isEmpty_iff.mp h; rw [this] at h20; simp at h20
    have hlt : ¬ s.bytes.length < 20 := by omega
    unfold splitStep
    simp only [hne, hlt, if_false, Bool.false_eq_true]
    cases hh : decodeHeader (s.bytes.take 20) with
    | err e => exact ⟨s1, rfl, hw1, hfin1, hb1⟩
    | panic p => exact ⟨s1, rfl, hw1, hfin1, hb1⟩
    | ok h =>
      simp only []
      cases hc : d.cmdRules h.app h.cmd with
      | none => exact ⟨s1, rfl, hw1, hfin1, hb1⟩
      | some rr =>
        simp only []
        by_cases hl : h.len < 20
        · simp only [hl, if_true]; exact ⟨s1, rfl, hw1, hfin1, hb1⟩
        simp only [hl, if_false]
        have hfuel1 : s1.frags.length + 1 ≤ (s.frags.map List.length).sum + 1 := by omega
        obtain ⟨s2, h2, hw2, hfin2, hb2, _⟩ := readFull_spec _ (h.len - 20) s1 [] hw1 hfuel1
        rw [h2]
        have hb1len : s1.bytes.length = s.bytes.length - 20 := by rw [hb1]; simp
        by_cases hbody : s.bytes.length < h.len
        · have hn : ¬ (h.len - 20 ≤ s1.bytes.length) := by omega
          simp only [hn, if_false, hbody, if_true, List.nil_append]
          have e : 20 + s1.bytes.length = s.bytes.length := by omega
          have hr : rfEnd s1.fin s1.bytes ≠ RF.full := by
            unfold rfEnd; cases s1.fin <;> simp; split <;> simp
          refine ⟨s2, ?_, hw2, by rw [hfin2, hfin1], ?_⟩
          · cases hr' : rfEnd s1.fin s1.bytes with
            | full => exact absurd hr' hr
            | _ => simp only [e]
          · rw [hb2, hb1, List.drop_drop, List.drop_of_length_le (by omega), List.drop_of_length_le (Nat.le_refl _)]
        · have : h.len - 20 ≤ s1.bytes.length := by omega
          simp only [this, if_true, hbody, if_false, List.nil_append]
          refine ⟨s2, ?_, hw2, by rw [hfin2, hfin1], ?_⟩
          · rw [hb1]
          · rw [hb2, hb1, List.drop_drop]; congr 1; omega
  · have hlt : s.bytes.length < 20 := by omega
    have hnle : ¬ 20 ≤ s.bytes.length := h20
    simp only [hnle, if_false, List.nil_append]
    unfold splitStep
    by_cases hemp : s.bytes.isEmpty = true
    · have hnil : s.bytes = [] := List.isEmpty_iff.mp hemp
      simp only [hemp, if_true, hnil]
      cases hf : s.fin with
      | eof => exact ⟨s1, by simp [rfEnd, hf], hw1, by rw [hfin1, hf], by rw [hb1, hnil]; simp⟩
      | err => exact ⟨s1, by simp [rfEnd, hf], hw1, by rw [hfin1, hf], by rw [hb1, hnil]; simp⟩
    · simp only [hemp, Bool.false_eq_true, if_false, hlt, if_true]
      refine ⟨s1, ?_, hw1, hfin1, by rw [hb1]; rw [List.drop_of_length_le (by omega), List.drop_of_length_le (Nat.le_refl _)]⟩
      cases hf : s.fin <;> simp [rfEnd, hemp]

theorem split_unfold (d : DictFn) (fuel : Nat) (bs : Bytes) (fin : Fin) :
    split d (fuel+1) bs fin =
      match splitStep d bs fin with
      | (.msg m, n) => let (r, k) := split d fuel (bs.drop n) fin; (MsgRes.msg m :: r, n + k)
      | (other, n) => ([other], n) := by
  rw [split]
  rfl

/-- C05, core: reading messages one after another from ANY fragmentation of a byte stream gives
    the outcomes, and consumes the bytes, of the length-only reference split. -/
theorem readAll_split (d : DictFn) : ∀ (fuel : Nat) (s : Src), s.wf →
    readAll d fuel s = split d fuel s.bytes s.fin
  | 0, s, _ => by simp [readAll, split]
  | fuel+1, s, hw => by
    obtain ⟨s', hrm, hw', hfin', hb'⟩ := readMessage_spec d s hw
    rw [readAll, split_unfold, hrm]
    cases hst : splitStep d s.bytes s.fin with
    | mk res n =>
      rw [hst] at hb'
      simp only []
      cases res with
      | msg m =>
        simp only []
        rw [readAll_split d fuel s' hw', hb', hfin']
      | _ => rfl

end DV
