import Model.Retry
import Model.Writers
/-! C07: the retry loop and the writers LTS. -/
namespace DV

/-- what each attempt must be offered: the not-yet-accepted suffix -/
def offeredSpec : Bytes → List Bytes → List Bytes
  | _, [] => []
  | b, a :: as => b :: offeredSpec (b.drop a.length) as

theorem writeRetry_spec : ∀ (os : List Outcome) (b : Bytes) (r : Nat), contract b r os →
    (writeRetry b r os).accepted.flatten = b.take (writeRetry b r os).n ∧
    (writeRetry b r os).n ≤ b.length ∧
    ((writeRetry b r os).err = none → (writeRetry b r os).accepted.flatten = b) ∧
    (writeRetry b r os).offered = offeredSpec b (writeRetry b r os).accepted ∧
    (writeRetry b r os).offered.length ≤ r + 1
  | [], b, r, _ => by simp [writeRetry, offeredSpec]
  | o :: os, b, r, hc => by
    simp only [contract] at hc
    obtain ⟨⟨hk, hfull⟩, hrest⟩ := hc
    by_cases hstop : o.err = none ∨ r = 0 ∨ o.err = some .perm
    · simp only [writeRetry, hstop, if_true]
      refine ⟨by simp, hk, ?_, ?_, by simp⟩
      · intro he; simp [hfull he]
      · simp [offeredSpec]
    · simp only [hstop, if_false] at hrest
      have hr : 0 < r := by
        rcases Nat.eq_zero_or_pos r with h | h
        · exact absurd (Or.inr (Or.inl h)) hstop
        · exact h
      obtain ⟨h1, h2, h3, h4, h5⟩ := writeRetry_spec os (b.drop o.k) (r - 1) hrest
      simp only [writeRetry, hstop, if_false]
      have hlen : (b.drop o.k).length = b.length - o.k := by simp
      refine ⟨?_, by omega, ?_, ?_, by simp; omega⟩
      · simp only [List.flatten_cons]
        rw [h1, ← List.take_add]
      · intro he
        simp only [List.flatten_cons]
        rw [h3 he, List.take_append_drop]
      · simp only [offeredSpec]
        have : (b.take o.k).length = o.k := by rw [List.length_take]; omega
        rw [this, h4]

/-! ### writers LTS -/

def cur : WPc → List Bytes
  | .idle => []
  | .waiting m => [m]
  | .holding m _ => [m]

/-- what the lock holder has put on the wire of its current message -/
def holderPrefix (s : WSys) : Bytes :=
  match s.lock with
  | none => []
  | some i => match (s.writers i).pc with
    | .holding m rest => m.take (m.length - rest.length)
    | _ => []

structure WInv (prog : Nat → List Bytes) (s : WSys) : Prop where
  wire : s.wire = (s.done.map Prod.snd).flatten ++ holderPrefix s
  excl : ∀ i m rest, (s.writers i).pc = .holding m rest → s.lock = some i
  held : ∀ i, s.lock = some i → ∃ m rest, (s.writers i).pc = .holding m rest
  suffix : ∀ i m rest, (s.writers i).pc = .holding m rest → ∃ pre, m = pre ++ rest
  order : ∀ i, ((s.done.filter (fun p => p.1 = i)).map Prod.snd) ++ cur (s.writers i).pc ++ (s.writers i).queue = prog i

theorem winv_init (prog : Nat → List Bytes) : WInv prog (WSys.init prog) := by
  refine ⟨by simp [WSys.init, holderPrefix], ?_, ?_, ?_, ?_⟩
  · intro i m rest h; simp [WSys.init] at h
  · intro i h; simp [WSys.init] at h
  · intro i m rest h; simp [WSys.init] at h
  · intro i; simp [WSys.init, cur]

theorem setW_same (ws : Nat → Writer) (i : Nat) (w : Writer) : setW ws i w i = w := by simp [setW]
theorem setW_other (ws : Nat → Writer) (i j : Nat) (w : Writer) (h : j ≠ i) : setW ws i w j = ws j := by
  simp [setW, h]

theorem winv_step (prog : Nat → List Bytes) (s s' : WSys) (e : WEv) (hi : WInv prog s)
    (hs : s.step e = some s') : WInv prog s' := by
  cases e with
  | start i =>
    simp only [WSys.step] at hs
    cases hw : s.writers i with
    | mk queue pc =>
      rw [hw] at hs
      cases queue with
      | nil => cases pc <;> simp at hs
      | cons m q =>
        cases pc with
        | waiting _ => simp at hs
        | holding _ _ => simp at hs
        | idle =>
          simp only [Option.some.injEq] at hs
          subst hs
          have hnl : s.lock ≠ some i := by
            intro hl; obtain ⟨m', r', hh⟩ := hi.held i hl; rw [hw] at hh; cases hh
          refine ⟨?_, ?_, ?_, ?_, ?_⟩
          · show s.wire = (s.done.map Prod.snd).flatten ++ holderPrefix _
            rw [hi.wire]; congr 1
            unfold holderPrefix; dsimp only
            cases hl : s.lock with
            | none => rfl
            | some j =>
              have hj : j ≠ i := by intro e; rw [e] at hl; exact hnl hl
              simp only [setW_other _ _ _ _ hj]
          · intro j m' r' h
            by_cases hj : j = i
            · subst hj; simp [setW_same] at h
            · simp only [setW_other _ _ _ _ hj] at h; exact hi.excl j m' r' h
          · intro j hl
            have hj : j ≠ i := by intro e; rw [e] at hl; exact hnl hl
            simp only [setW_other _ _ _ _ hj]; exact hi.held j hl
          · intro j m' r' h
            by_cases hj : j = i
            · subst hj; simp [setW_same] at h
            · simp only [setW_other _ _ _ _ hj] at h; exact hi.suffix j m' r' h
          · intro j
            by_cases hj : j = i
            · subst hj
              have := hi.order j; rw [hw] at this
              simp only [setW_same, cur] at this ⊢
              simpa using this
            · simp only [setW_other _ _ _ _ hj]; exact hi.order j
  | acquire i =>
    simp only [WSys.step] at hs
    cases hl : s.lock with
    | some j => rw [hl] at hs; simp at hs
    | none =>
      rw [hl] at hs
      cases hw : s.writers i with
      | mk queue pc =>
        rw [hw] at hs
        cases pc with
        | idle => simp at hs
        | holding _ _ => simp at hs
        | waiting m =>
          simp only [Option.some.injEq] at hs
          subst hs
          have hnone : ∀ j m' r', (s.writers j).pc ≠ .holding m' r' := by
            intro j m' r' h; have := hi.excl j m' r' h; rw [hl] at this; cases this
          refine ⟨?_, ?_, ?_, ?_, ?_⟩
          · show s.wire = (s.done.map Prod.snd).flatten ++ holderPrefix _
            rw [hi.wire]
            simp [holderPrefix, hl, setW_same]
          · intro j m' r' h
            by_cases hj : j = i
            · subst hj; rfl
            · simp only [setW_other _ _ _ _ hj] at h; exact absurd h (hnone j m' r')
          · intro j hlj
            simp only [Option.some.injEq] at hlj
            subst hlj
            exact ⟨m, m, by simp [setW_same]⟩
          · intro j m' r' h
            by_cases hj : j = i
            · subst hj; simp only [setW_same, WPc.holding.injEq] at h; exact ⟨[], by rw [← h.1, ← h.2]; rfl⟩
            · simp only [setW_other _ _ _ _ hj] at h; exact hi.suffix j m' r' h
          · intro j
            by_cases hj : j = i
            · subst hj
              have := hi.order j; rw [hw] at this
              simp only [setW_same, cur] at this ⊢
              exact this
            · simp only [setW_other _ _ _ _ hj]; exact hi.order j
  | xfer i k =>
    simp only [WSys.step] at hs
    cases hl : s.lock with
    | none => rw [hl] at hs; simp at hs
    | some j =>
      rw [hl] at hs
      cases hw : s.writers i with
      | mk queue pc =>
        rw [hw] at hs
        cases pc with
        | idle => simp at hs
        | waiting _ => simp at hs
        | holding m rest =>
          simp only [] at hs
          by_cases hc : j = i ∧ 0 < k ∧ k ≤ rest.length
          · simp only [hc, and_self, if_true, Option.some.injEq] at hs
            obtain ⟨hji, hk0, hk⟩ := hc
            subst hji
            subst hs
            obtain ⟨pre, hpre⟩ := hi.suffix j m rest (by rw [hw])
            refine ⟨?_, ?_, ?_, ?_, ?_⟩
            · show s.wire ++ rest.take k = (s.done.map Prod.snd).flatten ++ holderPrefix _
              rw [hi.wire]
              simp only [holderPrefix, hl, hw, setW_same, hpre, List.length_append, List.length_drop]
              have e1 : pre.length + rest.length - rest.length = pre.length := by omega
              have e2 : pre.length + rest.length - (rest.length - k) = pre.length + k := by omega
              have t1 : (pre ++ rest).take (pre.length + rest.length - rest.length) = pre := by
                rw [e1]; exact List.take_left' rfl
              have t2 : (pre ++ rest).take (pre.length + rest.length - (rest.length - k)) = pre ++ rest.take k := by
                rw [e2]; exact List.take_length_add_append k
              rw [t1, t2]; simp [List.append_assoc]
            · intro j' m' r' h
              by_cases hj : j' = j
              · subst hj; rfl
              · simp only [setW_other _ _ _ _ hj] at h
                have := hi.excl j' m' r' h; rw [hl] at this; exact this
            · intro j' hlj
              have hlj' : some j = some j' := hlj
              cases hlj'
              exact ⟨m, rest.drop k, by simp [setW_same]⟩
            · intro j' m' r' h
              by_cases hj : j' = j
              · subst hj
                simp only [setW_same, WPc.holding.injEq] at h
                refine ⟨pre ++ rest.take k, ?_⟩
                rw [← h.1, ← h.2, hpre, List.append_assoc, List.take_append_drop]
              · simp only [setW_other _ _ _ _ hj] at h; exact hi.suffix j' m' r' h
            · intro j'
              by_cases hj : j' = j
              · subst hj
                have := hi.order j'; rw [hw] at this
                simp only [setW_same, cur] at this ⊢
                exact this
              · simp only [setW_other _ _ _ _ hj]; exact hi.order j'
          · simp [hc] at hs
  | release i =>
    simp only [WSys.step] at hs
    cases hl : s.lock with
    | none => rw [hl] at hs; simp at hs
    | some j =>
      rw [hl] at hs
      cases hw : s.writers i with
      | mk queue pc =>
        rw [hw] at hs
        cases pc with
        | idle => simp at hs
        | waiting _ => simp at hs
        | holding m rest =>
          cases rest with
          | cons x xs => simp at hs
          | nil =>
            simp only [] at hs
            by_cases hc : j = i
            · simp only [hc, if_true, Option.some.injEq] at hs
              subst hc
              subst hs
              refine ⟨?_, ?_, ?_, ?_, ?_⟩
              · show s.wire = ((s.done ++ [(j, m)]).map Prod.snd).flatten ++ holderPrefix _
                rw [hi.wire]
                simp [holderPrefix, hl, hw]
              · intro j' m' r' h
                by_cases hj : j' = j
                · subst hj; simp [setW_same] at h
                · simp only [setW_other _ _ _ _ hj] at h
                  have := hi.excl j' m' r' h; rw [hl] at this
                  simp only [Option.some.injEq] at this; exact absurd this.symm hj
              · intro j' hlj; cases hlj
              · intro j' m' r' h
                by_cases hj : j' = j
                · subst hj; simp [setW_same] at h
                · simp only [setW_other _ _ _ _ hj] at h; exact hi.suffix j' m' r' h
              · intro j'
                by_cases hj : j' = j
                · subst hj
                  have := hi.order j'; rw [hw] at this
                  simp only [setW_same, cur, List.filter_append, List.map_append] at this ⊢
                  simpa using this
                · simp only [setW_other _ _ _ _ hj, List.filter_append, List.map_append]
                  have : List.filter (fun p : Nat × Bytes => decide (p.1 = j')) [(j, m)] = [] := by
                    simp [Ne.symm hj]
                  rw [this]; simpa using hi.order j'
            · simp [hc] at hs

theorem winv_run (prog : Nat → List Bytes) : ∀ (es : List WEv) (s s' : WSys), WInv prog s →
    s.run es = some s' → WInv prog s'
  | [], s, s', hi, h => by simp [WSys.run] at h; rw [← h]; exact hi
  | e :: es, s, s', hi, h => by
    simp only [WSys.run] at h
    cases hs : s.step e with
    | none => rw [hs] at h; cases h
    | some s1 => rw [hs] at h; exact winv_run prog es s1 s' (winv_step prog s s1 e hi hs) h

end DV
