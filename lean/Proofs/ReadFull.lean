import Model.ReadFull
/-! Proofs.ReadFull — a buffer whose bytes all arrive is filled, however the Reads are cut and
    whether or not the last bytes come together with the end of the stream. -/
namespace DV

/-- the bytes the reader delivers up to and including the call that reports an error -/
def avail : List ReadRes → List UInt8
  | [] => []
  | (b, none) :: rs => b ++ avail rs
  | (b, some _) :: _ => b

theorem readFullStd_ok : ∀ (rs : List ReadRes) (want : Nat) (acc : List UInt8),
    want ≤ (avail rs).length → (readFullStd false want rs acc).1 = .ok (acc ++ (avail rs).take want)
  | [], want, acc, h => by
    simp only [avail, List.length_nil, Nat.le_zero_eq] at h
    subst h
    simp [readFullStd]
  | (b, e) :: rs, 0, acc, _ => by simp [readFullStd]
  | (b, e) :: rs, want + 1, acc, h => by
    rw [readFullStd]
    by_cases hlong : b.length > want + 1
    · simp only [hlong, ↓reduceIte]
      cases e with
      | none =>
        simp only [avail]
        rw [List.take_append_of_le_length (Nat.le_of_lt hlong)]
      | some err => simp only [avail]
    · simp only [hlong, ↓reduceIte]
      have hle : b.length ≤ want + 1 := Nat.le_of_not_gt hlong
      cases e with
      | none =>
        simp only [avail, List.length_append] at h
        simp only [avail]
        by_cases hb : b = []
        · subst hb
          simp only [List.isEmpty_nil, ↓reduceIte, List.append_nil, List.nil_append]
          have := readFullStd_ok rs (want + 1) acc (by simpa using h)
          simpa using this
        · have hne : b.isEmpty = false := by cases b <;> simp_all
          simp only [hne, Bool.false_eq_true, ↓reduceIte]
          have := readFullStd_ok rs (want + 1 - b.length) (acc ++ b) (by omega)
          rw [this, List.take_append, List.take_of_length_le hle, List.append_assoc]
      | some err =>
        simp only [avail] at h
        have heq : b.length = want + 1 := Nat.le_antisymm hle h
        simp only [avail, heq, ↓reduceIte, Bool.false_eq_true]
        rw [List.take_of_length_le (Nat.le_of_eq heq)]

end DV
