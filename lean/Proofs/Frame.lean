import Proofs.Codec
/-! The decoder is the Length-only frame walk followed by typing each payload (C04). -/
namespace DV
open DV.Spec

/-- success value of an outcome (errors and panics both fail; `decode_noPanic` separately shows
    the decoder never panics) -/
def Res.toOpt : Res α → Option α
  | .ok a => some a
  | _ => none

@[simp] theorem Res.toOpt_mapR (g : α → β) (r : Res α) : (r.mapR g).toOpt = r.toOpt.map g := by
  cases r <;> rfl
@[simp] theorem Res.toOpt_bindR (r : Res α) (f : α → Res β) :
    (r.bindR f).toOpt = r.toOpt.bind (fun a => (f a).toOpt) := by
  cases r <;> rfl
@[simp] theorem Res.toOpt_ok (a : α) : (Res.ok a).toOpt = some a := rfl
@[simp] theorem Res.toOpt_err (e : String) : (Res.err e : Res α).toOpt = none := rfl

def isG (ty : Nat → Nat → Nat) : Nat → Nat → Bool := fun c v => decide (ty c v = T.grouped)

theorem pad4_eq_roundUp4 (n : Nat) : pad4 n = roundUp4 n := by
  unfold pad4 roundUp4; omega

theorem decodePayload_mapR (ty : Nat → Nat → Nat) (fuel c f l v : Nat) (p : Bytes) :
    decodePayload ty fuel c f l v p =
      if ty c v = T.grouped then (decodeAVPs ty fuel p).mapR (fun as => AVP.mk c f l v (.group as))
      else (decodeLeaf (ty c v) p).mapR (fun d => AVP.mk c f l v d) := decodePayload_unfold ty fuel c f l v p

theorem decodeAVPs_bindR (ty : Nat → Nat → Nat) (fuel : Nat) (b : Bytes) :
    decodeAVPs ty (fuel+1) b =
      if b.isEmpty then .ok [] else
      (decodeAVP ty fuel b).bindR (fun a => (decodeAVPs ty fuel (b.drop (pad4 a.length))).mapR (fun r => a :: r)) :=
  decodeAVPs_succ ty fuel b

theorem frameOne_zero (g : Nat → Nat → Bool) (b : Bytes) : frameOne g 0 b = .err "fuel" := by
  rw [frameOne]
theorem frames_zero (g : Nat → Nat → Bool) (b : Bytes) :
    frames g 0 b = if b.isEmpty then .ok [] else .err "fuel" := by
  rw [frames]

theorem frameOne_succ (g : Nat → Nat → Bool) (fuel : Nat) (bs : Bytes) :
    frameOne g (fuel+1) bs =
      if bs.length < 8 then .err "avp-header-short" else
      let code := rd (bs.take 4)
      let flags := (bs.getD 4 0).toNat
      let length := rd ((bs.drop 5).take 3)
      let hl := if flags ≥ 128 then 12 else 8
      if length < hl then .err "length-shorter-than-header" else
      if bs.length < length then .err "length-longer-than-container" else
      let vendor := if flags ≥ 128 then rd ((bs.drop 8).take 4) else 0
      let payload := (bs.take length).drop hl
      if g code vendor then (frames g fuel payload).mapR (fun kids => Frame.group code flags length vendor kids)
      else .ok (.leaf code flags length vendor payload) := by
  rw [frameOne]

theorem frames_succ (g : Nat → Nat → Bool) (fuel : Nat) (bs : Bytes) :
    frames g (fuel+1) bs =
      if bs.isEmpty then .ok [] else
      (frameOne g fuel bs).bindR (fun f =>
        (frames g fuel (bs.drop (roundUp4 (rd ((bs.drop 5).take 3))))).mapR (fun r => f :: r)) := by
  rw [frames]

theorem typed_leaf (ty : Nat → Nat → Nat) (c f l v : Nat) (p : Bytes) :
    typed ty (.leaf c f l v p) = (decodeLeaf (ty c v) p).mapR (fun d => AVP.mk c f l v d) := by
  rw [typed]
theorem typed_group (ty : Nat → Nat → Nat) (c f l v : Nat) (kids : List Frame) :
    typed ty (.group c f l v kids) = (typedL ty kids).mapR (fun as => AVP.mk c f l v (.group as)) := by
  rw [typed]
theorem typedL_nil (ty : Nat → Nat → Nat) : typedL ty [] = .ok [] := by rw [typedL]
theorem typedL_cons (ty : Nat → Nat → Nat) (f : Frame) (r : List Frame) :
    typedL ty (f :: r) = (typed ty f).bindR (fun a => (typedL ty r).mapR (fun as => a :: as)) := by
  rw [typedL]

/-- the Length field of a decoded AVP is the one on the wire -/
theorem decodeAVP_length (ty : Nat → Nat → Nat) (fuel : Nat) (b : Bytes) (a : AVP)
    (h : decodeAVP ty fuel b = .ok a) : a.length = rd ((b.drop 5).take 3) := by
  cases fuel with
  | zero => rw [decodeAVP_zero] at h; cases h
  | succ fuel =>
    rw [decodeAVP_nf] at h
    dsimp only at h
    generalize (b.getD 4 0).toNat = flags at h
    generalize rd ((b.drop 5).take 3) = length at h ⊢
    generalize rd (b.take 4) = code at h
    generalize (if hasV flags = true then rd ((b.drop 8).take 4) else 0) = vendor at h
    split at h; · cases h
    split at h; · cases h
    split at h; · cases h
    split at h; · cases h
    rw [decodePayload_mapR] at h
    split at h
    · cases hd : decodeAVPs ty fuel (payloadOf b flags length) <;> rw [hd] at h <;> simp [Res.mapR] at h
      rw [← h]; rfl
    · cases hd : decodeLeaf (ty code vendor) (payloadOf b flags length) <;> rw [hd] at h <;> simp [Res.mapR] at h
      rw [← h]; rfl

theorem bindR_length_congr (ty : Nat → Nat → Nat) (fuel : Nat) (b : Bytes) (g : Nat → AVP → Res β) :
    (decodeAVP ty fuel b).bindR (fun a => g a.length a) =
    (decodeAVP ty fuel b).bindR (fun a => g (rd ((b.drop 5).take 3)) a) := by
  cases h : decodeAVP ty fuel b with
  | ok a => simp only [Res.bindR]; rw [decodeAVP_length ty fuel b a h]
  | err e => rfl
  | panic p => rfl

theorem opt_comm {α β γ : Type} (t : Option α) (F : Option γ) (G : γ → Option (List α)) :
    t.bind (fun a => (F.bind G).map (fun r => a :: r)) =
    F.bind (fun r => t.bind (fun a => (G r).map (fun as => a :: as))) := by
  cases t <;> cases F <;> simp

/-- C04, core: for every dictionary typing `ty`, every fuel and every byte string, decoding a
    container succeeds exactly when the Length-only frame walk followed by typing each frame's
    payload succeeds, with the same AVPs. -/
theorem frame_equiv (ty : Nat → Nat → Nat) : ∀ fuel : Nat,
    (∀ data, (decodeAVP ty fuel data).toOpt = ((frameOne (isG ty) fuel data).bindR (typed ty)).toOpt) ∧
    (∀ b, (decodeAVPs ty fuel b).toOpt = ((frames (isG ty) fuel b).bindR (typedL ty)).toOpt)
  | 0 => by
    constructor
    · intro data; rw [decodeAVP_zero, frameOne_zero]; rfl
    · intro b
      rw [decodeAVPs_zero, frames_zero]
      by_cases he : b.isEmpty = true
      · simp [he, Res.bindR, typedL_nil]
      · simp [he, Res.bindR]
  | fuel+1 => by
    have ih := frame_equiv ty fuel
    constructor
    · intro data
      rw [decodeAVP_nf, frameOne_succ]
      dsimp only
      have hf : (data.getD 4 0).toNat < 256 := byte_lt data 4
      generalize (data.getD 4 0).toNat = flags at hf ⊢
      generalize rd ((data.drop 5).take 3) = length
      generalize rd (data.take 4) = code
      have hv := hasV_iff flags hf
      by_cases h1 : data.length < 8
      · simp [h1, Res.bindR]
      simp only [h1, if_false]
      by_cases hV : flags ≥ 128
      · have hV' : hasV flags = true := hv.mpr hV
        simp only [hV, hV', if_true, true_and]
        by_cases h2 : data.length < length
        · by_cases h3 : length < 12 <;> by_cases h3' : length < 8 <;> simp [h2, h3, h3', Res.bindR]
        by_cases h3 : length < 12
        · by_cases h3' : length < 8 <;> simp [h2, h3, h3', Res.bindR]
        have h3' : ¬ length < 8 := by omega
        simp only [h2, h3, h3', if_false]
        rw [decodePayload_mapR]
        simp only [isG, payloadOf, hdrLen, hV', if_true]
        by_cases hg : ty code (rd ((data.drop 8).take 4)) = T.grouped
        · simp only [hg, decide_true, if_true]
          simp only [Res.toOpt_mapR, Res.toOpt_bindR, typed_group]
          rw [ih.2]
          simp only [Res.toOpt_bindR, Res.toOpt_mapR]
          cases (frames (isG ty) fuel ((data.take length).drop 12)).toOpt <;> simp [typed_group]
        · simp only [hg, decide_false, Bool.false_eq_true, if_false]
          simp only [Res.bindR, typed_leaf]
      · have hV' : ¬ hasV flags = true := fun h => hV (hv.mp h)
        simp only [hV, hV', if_false, false_and, Bool.false_eq_true]
        by_cases h2 : data.length < length
        · by_cases h3' : length < 8 <;> simp [h2, h3', Res.bindR]
        by_cases h3' : length < 8
        · simp [h2, h3', Res.bindR]
        simp only [h2, h3', if_false]
        rw [decodePayload_mapR]
        simp only [isG, payloadOf, hdrLen, hV', Bool.false_eq_true, if_false]
        by_cases hg : ty code 0 = T.grouped
        · simp only [hg, decide_true, if_true]
          simp only [Res.toOpt_mapR, Res.toOpt_bindR, typed_group]
          rw [ih.2]
          simp only [Res.toOpt_bindR, Res.toOpt_mapR]
          cases (frames (isG ty) fuel ((data.take length).drop 8)).toOpt <;> simp [typed_group]
        · simp only [hg, decide_false, Bool.false_eq_true, if_false]
          simp only [Res.bindR, typed_leaf]
    · intro b
      rw [decodeAVPs_bindR, frames_succ]
      by_cases he : b.isEmpty = true
      · simp [he, Res.bindR, typedL_nil]
      simp only [he, Bool.false_eq_true, if_false]
      rw [bindR_length_congr ty fuel b (fun n a => (decodeAVPs ty fuel (b.drop (pad4 n))).mapR (fun r => a :: r))]
      simp only [Res.toOpt_bindR, Res.toOpt_mapR, typedL_cons, pad4_eq_roundUp4]
      rw [ih.1, ih.2]
      simp only [Res.toOpt_bindR, Res.toOpt_mapR]
      cases (frameOne (isG ty) fuel b).toOpt with
      | none => simp
      | some fr =>
        simp only [Option.bind_some]
        generalize (frames (isG ty) fuel _).toOpt = F
        cases F with
        | none => cases (typed ty fr).toOpt <;> simp
        | some r => simp [typedL_cons]

end DV
