import Model.Reflect
import Proofs.Reflect
/-! Proofs.ReflectInv — `Unmarshal ∘ Marshal` is the identity on the well-formed fragment (C18). -/
namespace DV

section
variable (find : FindFn)

/-- the `[]*diam.AVP` case: the AVPs are taken as they are -/
def ptrAVPs (vs : List RV) : List AVP := vs.filterMap (fun v => match v with | .ptr (.avp a) => some a | _ => none)

theorem isPtrAVP_eq (s : Shape) (h : s.isPtrAVP = true) : s = .ptr .avp := by
  cases s with
  | ptr s' => cases s' <;> simp_all [Shape.isPtrAVP]
  | _ => simp [Shape.isPtrAVP] at h

/-- well-formed elements of a `[]*diam.AVP` are non-nil pointers to AVPs with the field's code -/
theorem wfElems_ptrAVP : ∀ (vs : List RV) (e : DEnt), wfElems find (.ptr .avp) vs e = true →
    (∀ a ∈ ptrAVPs vs, a.code = e.code) ∧ vs = (ptrAVPs vs).map (fun a => RV.ptr (.avp a))
  | [], _, _ => by simp [ptrAVPs]
  | v :: r, e, h => by
    simp only [wfElems, Bool.and_eq_true] at h
    obtain ⟨⟨hnil, hw⟩, hr⟩ := h
    have ih := wfElems_ptrAVP r e hr
    cases v with
    | ptr x =>
      cases x with
      | avp a =>
        simp only [wfField, Bool.and_eq_true, decide_eq_true_eq] at hw
        constructor
        · intro b hb
          simp only [ptrAVPs, List.filterMap_cons, List.mem_cons] at hb
          rcases hb with rfl | hb
          · exact hw.2.2
          · exact ih.1 b hb
        · simp only [ptrAVPs, List.filterMap_cons, List.map_cons]
          congr 1
          exact ih.2
      | _ => simp [wfField] at hw
    | nil => simp [RV.isNil] at hnil
    | _ => simp [wfField] at hw

mutual
/-- every AVP marshalled for a well-formed field carries the field's code -/
theorem codesField : ∀ (s : Shape) (v : RV) (e : DEnt) (as : List AVP), wfField find s v e = true →
    marshalField find s v e = .ok as → ∀ a ∈ as, a.code = e.code
  | .leaf t, .leaf v, e, as, hw, h => by
    simp only [wfField, Bool.and_eq_true, decide_eq_true_eq] at hw
    simp only [marshalField, hw.1, if_false] at h
    split at h
    · cases h; intro a ha; simp at ha; subst ha; rfl
    · cases h
  | .ptr _, .nil, _, as, _, h => by simp [marshalField] at h; subst h; simp
  | .ptr s, .ptr v, e, as, hw, h => by
    simp only [wfField, Bool.and_eq_true] at hw
    simp only [marshalField] at h
    exact codesField s v e as hw.2 h
  | .slice _, .nil, _, as, _, h => by simp [marshalField] at h; subst h; simp
  | .slice s, .slice vs, e, as, hw, h => by
    simp only [wfField, Bool.and_eq_true] at hw
    simp only [marshalField] at h
    split at h
    · rename_i hp
      have := isPtrAVP_eq s hp
      subst this
      cases h
      exact (wfElems_ptrAVP find vs e hw.2).1
    · exact codesElems s vs e as hw.2 h
  | .struct fs, .struct vs, e, as, hw, h => by
    simp only [wfField, Bool.and_eq_true, decide_eq_true_eq] at hw
    simp only [marshalField, hw.1.1, if_true] at h
    cases hg : marshalGroup find fs vs with
    | ok kids => simp only [hg, Res.mapR] at h; cases h; intro a ha; simp at ha; subst ha; rfl
    | err x => simp [hg, Res.mapR] at h
    | panic x => simp [hg, Res.mapR] at h
  | .avp, .avp a, e, as, hw, h => by
    simp only [wfField, Bool.and_eq_true, decide_eq_true_eq] at hw
    simp only [marshalField, hw.1, if_true] at h
    cases h; intro b hb; simp at hb; subst hb; exact hw.2
  | .leaf _, .nil, _, _, hw, _ => by simp [wfField] at hw
  | .leaf _, .ptr _, _, _, hw, _ => by simp [wfField] at hw
  | .leaf _, .slice _, _, _, hw, _ => by simp [wfField] at hw
  | .leaf _, .struct _, _, _, hw, _ => by simp [wfField] at hw
  | .leaf _, .avp _, _, _, hw, _ => by simp [wfField] at hw
  | .ptr _, .leaf _, _, _, hw, _ => by simp [wfField] at hw
  | .ptr _, .slice _, _, _, hw, _ => by simp [wfField] at hw
  | .ptr _, .struct _, _, _, hw, _ => by simp [wfField] at hw
  | .ptr _, .avp _, _, _, hw, _ => by simp [wfField] at hw
  | .slice _, .leaf _, _, _, hw, _ => by simp [wfField] at hw
  | .slice _, .ptr _, _, _, hw, _ => by simp [wfField] at hw
  | .slice _, .struct _, _, _, hw, _ => by simp [wfField] at hw
  | .slice _, .avp _, _, _, hw, _ => by simp [wfField] at hw
  | .struct _, .leaf _, _, _, hw, _ => by simp [wfField] at hw
  | .struct _, .nil, _, _, hw, _ => by simp [wfField] at hw
  | .struct _, .ptr _, _, _, hw, _ => by simp [wfField] at hw
  | .struct _, .slice _, _, _, hw, _ => by simp [wfField] at hw
  | .struct _, .avp _, _, _, hw, _ => by simp [wfField] at hw
  | .avp, .leaf _, _, _, hw, _ => by simp [wfField] at hw
  | .avp, .nil, _, _, hw, _ => by simp [wfField] at hw
  | .avp, .ptr _, _, _, hw, _ => by simp [wfField] at hw
  | .avp, .slice _, _, _, hw, _ => by simp [wfField] at hw
  | .avp, .struct _, _, _, hw, _ => by simp [wfField] at hw
theorem codesElems : ∀ (s : Shape) (vs : List RV) (e : DEnt) (as : List AVP), wfElems find s vs e = true →
    marshalElems find s vs e = .ok as → ∀ a ∈ as, a.code = e.code
  | _, [], _, as, _, h => by simp [marshalElems] at h; subst h; simp
  | s, v :: r, e, as, hw, h => by
    simp only [wfElems, Bool.and_eq_true] at hw
    simp only [marshalElems] at h
    cases h1 : marshalField find s v e with
    | ok a =>
      simp only [h1, Res.bindR] at h
      cases h2 : marshalElems find s r e with
      | ok b =>
        simp only [h2, Res.mapR] at h
        cases h
        intro x hx
        simp only [List.mem_append] at hx
        rcases hx with hx | hx
        · exact codesField s v e a hw.1.2 h1 x hx
        · exact codesElems s r e b hw.2 h2 x hx
      | err x => simp [h2, Res.mapR] at h
      | panic x => simp [h2, Res.mapR] at h
    | err x => simp [h1, Res.bindR] at h
    | panic x => simp [h1, Res.bindR] at h
end

/-! ### list facts -/

theorem distinct_cons (a : Nat) (r : List Nat) : distinct (a :: r) = true ↔ a ∉ r ∧ distinct r = true := by
  simp [distinct]

theorem distinct_append : ∀ (l1 l2 : List Nat), distinct (l1 ++ l2) = true →
    distinct l1 = true ∧ distinct l2 = true ∧ ∀ x ∈ l1, x ∉ l2
  | [], l2, h => by simp [distinct] at *; exact h
  | a :: r, l2, h => by
    rw [List.cons_append, distinct_cons] at h
    obtain ⟨h1, h2⟩ := h
    obtain ⟨i1, i2, i3⟩ := distinct_append r l2 h2
    simp only [List.mem_append, not_or] at h1
    refine ⟨(distinct_cons a r).mpr ⟨h1.1, i1⟩, i2, ?_⟩
    intro x hx
    simp only [List.mem_cons] at hx
    rcases hx with rfl | hx
    · exact h1.2
    · exact i3 x hx

theorem filter_code_all (c : Nat) : ∀ (l : List AVP), (∀ a ∈ l, a.code = c) → l.filter (fun a => a.code = c) = l
  | [], _ => rfl
  | a :: r, h => by
    have h1 : a.code = c := h a (by simp)
    have h2 := filter_code_all c r (fun x hx => h x (by simp [hx]))
    simp [List.filter, h1, h2]

theorem filter_code_none (c : Nat) : ∀ (l : List AVP), (∀ a ∈ l, a.code ≠ c) → l.filter (fun a => a.code = c) = []
  | [], _ => rfl
  | a :: r, h => by
    have h1 : a.code ≠ c := h a (by simp)
    have h2 := filter_code_none c r (fun x hx => h x (by simp [hx]))
    simp [List.filter, h1, h2]

/-- AVPs of one tagged field -/
theorem fieldOut_codes (tag : FieldTag) (s : Shape) (v : RV) (as : List AVP) (hne : tag.name ≠ 0)
    (e : DEnt) (he : entOf find tag.name = some e) (hw : (tag.omitE && v.isEmpty) = true ∨ wfField find s v e = true)
    (h : fieldOut find tag s v = .ok as) : ∀ a ∈ as, a.code = e.code := by
  unfold fieldOut at h
  split at h
  · cases h; simp
  · rename_i hskip
    simp only [he] at h
    rcases hw with hw | hw
    · exfalso; apply hskip; right; simpa using hw
    · exact codesField find s v e as hw h

mutual
theorem codesStruct : ∀ (fs : List SField) (vs : List RV) (out : List AVP), wfStruct find fs vs = true →
    marshalStruct find fs vs = .ok out → ∀ x ∈ out, x.code ∈ levelCodes find fs
  | [], _, out, _, h => by simp [marshalStruct] at h; subst h; simp
  | .mk tag s :: fs, [], out, hw, _ => by simp [wfStruct] at hw
  | .mk tag s :: fs, v :: vs, out, hw, h => by
    simp only [wfStruct, Bool.and_eq_true] at hw
    simp only [marshalStruct] at h
    generalize hx : (if tag.emb = true then marshalEmb find s v else fieldOut find tag s v) = x at h
    cases x with
    | ok a =>
      simp only [Res.bindR] at h
      cases h2 : marshalStruct find fs vs with
      | ok b =>
        simp only [h2, Res.mapR] at h
        cases h
        intro y hy
        simp only [levelCodes, List.mem_append]
        simp only [List.mem_append] at hy
        rcases hy with hy | hy
        · left
          by_cases hemb : tag.emb = true
          · simp only [hemb, if_true] at hx hw ⊢
            exact codesEmb s v a hw.1 hx y hy
          · simp only [hemb] at hx hw ⊢
            simp only [Bool.false_eq_true, if_false] at hx hw ⊢
            by_cases hn : tag.name = 0
            · simp [fieldOut, hn] at hx; subst hx; simp at hy
            · simp only [hn, if_false] at hw ⊢
              cases he : entOf find tag.name with
              | none => simp [he] at hw
              | some e =>
                simp only [he] at hw ⊢
                have := fieldOut_codes find tag s v a hn e he (by simpa [Bool.or_eq_true] using hw.1) hx y hy
                simp [this]
        · right; exact codesStruct fs vs b hw.2 h2 y hy
      | err x => simp [h2, Res.mapR] at h
      | panic x => simp [h2, Res.mapR] at h
    | err x => simp [Res.bindR] at h
    | panic x => simp [Res.bindR] at h
theorem codesEmb : ∀ (s : Shape) (v : RV) (out : List AVP), wfEmb find s v = true →
    marshalEmb find s v = .ok out → ∀ x ∈ out, x.code ∈ embCodes find s
  | .struct efs, .struct evs, out, hw, h => by
    simp only [wfEmb] at hw
    simp only [marshalEmb] at h
    simp only [embCodes]
    exact codesStruct efs evs out hw h
  | .struct _, .leaf _, _, hw, _ => by simp [wfEmb] at hw
  | .struct _, .nil, _, hw, _ => by simp [wfEmb] at hw
  | .struct _, .ptr _, _, hw, _ => by simp [wfEmb] at hw
  | .struct _, .slice _, _, hw, _ => by simp [wfEmb] at hw
  | .struct _, .avp _, _, hw, _ => by simp [wfEmb] at hw
  | .leaf _, _, _, hw, _ => by simp [wfEmb] at hw
  | .ptr _, _, _, hw, _ => by simp [wfEmb] at hw
  | .slice _, _, _, hw, _ => by simp [wfEmb] at hw
  | .avp, _, _, hw, _ => by simp [wfEmb] at hw
end

/-! ### the group loop on well-formed input is `marshalStruct` -/

theorem group_as_struct : ∀ (fs : List SField) (vs : List RV), wfGroup find fs vs = true →
    marshalGroup find fs vs = marshalStruct find fs vs ∧ wfStruct find fs vs = true
  | [], [], _ => by simp [marshalGroup, marshalStruct, wfStruct]
  | [], _ :: _, h => by simp [wfGroup] at h
  | .mk tag s :: fs, [], h => by simp [wfGroup] at h
  | .mk tag s :: fs, v :: vs, h => by
    simp only [wfGroup, Bool.and_eq_true] at h
    obtain ⟨h1, h2⟩ := h
    obtain ⟨i1, i2⟩ := group_as_struct fs vs h2
    have hemb : tag.emb = false := by
      cases he : tag.emb with
      | false => rfl
      | true => simp [he] at h1
    simp only [hemb, Bool.false_eq_true, if_false] at h1
    constructor
    · simp only [marshalGroup, marshalStruct, hemb, Bool.false_eq_true, if_false, fieldOut, i1]
      split
      · simp [Res.bindR, Res.mapR]
        cases marshalStruct find fs vs <;> rfl
      · cases entOf find tag.name with
        | none => rfl
        | some e => rfl
    · simp only [wfStruct, hemb, Bool.false_eq_true, if_false, i2, Bool.and_true]
      exact h1

/-- zero values are in normal form -/
theorem tailsNE_cons {α : Type} (a : α) (r : List α) : tailsNE (a :: r) = (a :: r) :: tailsNE r := rfl

/-- under well-formedness the `[]*diam.AVP` shortcut is what the element loop would produce -/
theorem ptrAVP_elems : ∀ (vs : List RV) (e : DEnt), wfElems find (.ptr .avp) vs e = true →
    marshalElems find (.ptr .avp) vs e = .ok (ptrAVPs vs)
  | [], _, _ => by simp [marshalElems, ptrAVPs]
  | v :: r, e, h => by
    simp only [wfElems, Bool.and_eq_true] at h
    obtain ⟨⟨hnil, hw⟩, hr⟩ := h
    have ih := ptrAVP_elems r e hr
    cases v with
    | ptr x =>
      cases x with
      | avp a =>
        simp only [wfField, Bool.and_eq_true, decide_eq_true_eq] at hw
        simp [marshalElems, marshalField, hw.2.1, ih, Res.bindR, Res.mapR, ptrAVPs]
      | _ => simp [wfField] at hw
    | nil => simp [RV.isNil] at hnil
    | _ => simp [wfField] at hw

/-- the slice case of `marshalField`, shortcut or not, is the element loop -/
theorem slice_marshal (s : Shape) (vs : List RV) (e : DEnt) (hw : wfElems find s vs e = true) :
    marshalField find (.slice s) (.slice vs) e = marshalElems find s vs e := by
  simp only [marshalField]
  split
  · rename_i hp
    have := isPtrAVP_eq s hp
    subst this
    rw [ptrAVP_elems find vs e hw]; rfl
  · rfl

theorem single_not_slice (s : Shape) (h : (Shape.slice s).single = true) : False := by simp [Shape.single] at h

mutual
/-- a non-nil value of a single-AVP shape: exactly one AVP, and unmarshalling from it (whatever
    follows it in the list) gives the value back in normal form -/
theorem invSingle : ∀ (s : Shape) (v : RV) (e : DEnt) (as : List AVP), s.single = true → v.isNil = false →
    wfField find s v e = true → marshalField find s v e = .ok as →
    ∃ a, as = [a] ∧ ∀ rest, unmarshalField find s (a :: rest) (zeroOf s) = normRV s v
  | .leaf t, .leaf v, e, as, _, _, hw, h => by
    simp only [wfField, Bool.and_eq_true, decide_eq_true_eq] at hw
    simp only [marshalField, hw.1, if_false] at h
    cases hd : toData e.ty t v with
    | none => simp [hd] at h
    | some d =>
      simp only [hd] at h
      cases h
      have hb := hw.2
      simp only [hd, Option.bind_some] at hb
      exact ⟨_, rfl, fun rest => by simp [unmarshalField, mkFieldAVP, hb, normRV]⟩
  | .ptr s, .ptr v, e, as, hs, _, hw, h => by
    simp only [wfField, Bool.and_eq_true, Bool.not_eq_true'] at hw
    simp only [Shape.single] at hs
    simp only [marshalField] at h
    obtain ⟨a, ha, hr⟩ := invSingle s v e as hs hw.1.2 hw.2 h
    refine ⟨a, ha, fun rest => ?_⟩
    simp only [unmarshalField, zeroOf, normRV, hr rest]
  | .struct fs, .struct vs, e, as, _, _, hw, h => by
    simp only [wfField, Bool.and_eq_true, decide_eq_true_eq] at hw
    obtain ⟨⟨hg, hdist⟩, hwg⟩ := hw
    simp only [marshalField, hg, if_true] at h
    obtain ⟨e1, e2⟩ := group_as_struct find fs vs hwg
    rw [e1] at h
    cases hk : marshalStruct find fs vs with
    | ok kids =>
      simp only [hk, Res.mapR] at h
      cases h
      refine ⟨_, rfl, fun rest => ?_⟩
      have := invStructAux fs vs kids kids e2 hk (fun _ _ => rfl) hdist
      simp only [unmarshalField, mkFieldAVP, AVP.data_mk, zeroOf, normRV, this]
    | err x => simp [hk, Res.mapR] at h
    | panic x => simp [hk, Res.mapR] at h
  | .avp, .avp a, e, as, _, _, hw, h => by
    simp only [wfField, Bool.and_eq_true, decide_eq_true_eq] at hw
    simp only [marshalField, hw.1, if_true] at h
    cases h
    exact ⟨a, rfl, fun rest => by simp [unmarshalField, normRV]⟩
  | .slice s, _, _, _, hs, _, _, _ => by simp [Shape.single] at hs
  | .leaf _, .nil, _, _, _, hn, _, _ => by simp [RV.isNil] at hn
  | .leaf _, .ptr _, _, _, _, _, hw, _ => by simp [wfField] at hw
  | .leaf _, .slice _, _, _, _, _, hw, _ => by simp [wfField] at hw
  | .leaf _, .struct _, _, _, _, _, hw, _ => by simp [wfField] at hw
  | .leaf _, .avp _, _, _, _, _, hw, _ => by simp [wfField] at hw
  | .ptr _, .nil, _, _, _, hn, _, _ => by simp [RV.isNil] at hn
  | .ptr _, .leaf _, _, _, _, _, hw, _ => by simp [wfField] at hw
  | .ptr _, .slice _, _, _, _, _, hw, _ => by simp [wfField] at hw
  | .ptr _, .struct _, _, _, _, _, hw, _ => by simp [wfField] at hw
  | .ptr _, .avp _, _, _, _, _, hw, _ => by simp [wfField] at hw
  | .struct _, .leaf _, _, _, _, _, hw, _ => by simp [wfField] at hw
  | .struct _, .nil, _, _, _, _, hw, _ => by simp [wfField] at hw
  | .struct _, .ptr _, _, _, _, _, hw, _ => by simp [wfField] at hw
  | .struct _, .slice _, _, _, _, _, hw, _ => by simp [wfField] at hw
  | .struct _, .avp _, _, _, _, _, hw, _ => by simp [wfField] at hw
  | .avp, .leaf _, _, _, _, _, hw, _ => by simp [wfField] at hw
  | .avp, .nil, _, _, _, _, hw, _ => by simp [wfField] at hw
  | .avp, .ptr _, _, _, _, _, hw, _ => by simp [wfField] at hw
  | .avp, .slice _, _, _, _, _, hw, _ => by simp [wfField] at hw
  | .avp, .struct _, _, _, _, _, hw, _ => by simp [wfField] at hw
/-- the elements of a slice: one AVP each; element `n` is read back from `avps[n:]` -/
theorem invElems : ∀ (s : Shape) (vs : List RV) (e : DEnt) (as : List AVP), s.single = true →
    wfElems find s vs e = true → marshalElems find s vs e = .ok as →
    (tailsNE as).map (fun t => unmarshalField find s t (zeroOf s)) = normElems s vs ∧ as.length = vs.length
  | _, [], _, as, _, _, h => by simp [marshalElems] at h; subst h; simp [tailsNE, normElems]
  | s, v :: r, e, as, hs, hw, h => by
    simp only [wfElems, Bool.and_eq_true, Bool.not_eq_true'] at hw
    simp only [marshalElems] at h
    cases h1 : marshalField find s v e with
    | ok a =>
      simp only [h1, Res.bindR] at h
      cases h2 : marshalElems find s r e with
      | ok b =>
        simp only [h2, Res.mapR] at h
        cases h
        obtain ⟨a0, ha, hr⟩ := invSingle s v e a hs hw.1.1 hw.1.2 h1
        obtain ⟨i1, i2⟩ := invElems s r e b hs hw.2 h2
        subst ha
        simp [tailsNE_cons, normElems, hr b, i1, i2]
      | err x => simp [h2, Res.mapR] at h
      | panic x => simp [h2, Res.mapR] at h
    | err x => simp [h1, Res.bindR] at h
    | panic x => simp [h1, Res.bindR] at h
/-- one struct level: if, for every code of the level, the AVP list `all` being scanned contains
    exactly the AVPs the level marshalled with that code, scanning it into a zero struct gives the
    normal form of the value -/
theorem invStructAux : ∀ (fs : List SField) (vs : List RV) (out all : List AVP), wfStruct find fs vs = true →
    marshalStruct find fs vs = .ok out →
    (∀ c ∈ levelCodes find fs, all.filter (fun a => a.code = c) = out.filter (fun a => a.code = c)) →
    distinct (levelCodes find fs) = true →
    scanFields find fs all (zeroOf.zeroFields fs) = normFields fs vs
  | [], [], _, _, _, _, _, _ => by simp [scanFields, zeroOf.zeroFields, normFields]
  | [], _ :: _, _, _, hw, _, _, _ => by simp [wfStruct] at hw
  | .mk tag s :: fs, [], _, _, hw, _, _, _ => by simp [wfStruct] at hw
  | .mk tag s :: fs, v :: vs, out, all, hw, h, hall, hdist => by
    simp only [wfStruct, Bool.and_eq_true] at hw
    obtain ⟨hwh, hwt⟩ := hw
    simp only [marshalStruct] at h
    generalize hx : (if tag.emb = true then marshalEmb find s v else fieldOut find tag s v) = x at h
    cases x with
    | err x => simp [Res.bindR] at h
    | panic x => simp [Res.bindR] at h
    | ok a =>
      simp only [Res.bindR] at h
      cases h2 : marshalStruct find fs vs with
      | err x => simp [h2, Res.mapR] at h
      | panic x => simp [h2, Res.mapR] at h
      | ok b =>
        simp only [h2, Res.mapR] at h
        cases h
        simp only [levelCodes] at hall hdist
        obtain ⟨dh, dt, ddisj⟩ := distinct_append _ _ hdist
        have hbcodes := codesStruct find fs vs b hwt h2
        -- codes of the head field's AVPs
        have hacodes : ∀ x ∈ a, x.code ∈ (if tag.emb = true then embCodes find s else if tag.name = 0 then []
            else match entOf find tag.name with | some e => [e.code] | none => []) := by
          intro y hy
          by_cases hemb : tag.emb = true
          · simp only [hemb, if_true] at hx hwh ⊢
            exact codesEmb find s v a hwh hx y hy
          · simp only [hemb] at hx hwh ⊢
            simp only [Bool.false_eq_true, if_false] at hx hwh ⊢
            by_cases hn : tag.name = 0
            · simp [fieldOut, hn] at hx; subst hx; simp at hy
            · simp only [hn, if_false] at hwh ⊢
              cases he : entOf find tag.name with
              | none => simp [he] at hwh
              | some e =>
                simp only [he] at hwh ⊢
                have := fieldOut_codes find tag s v a hn e he (by simpa [Bool.or_eq_true] using hwh) hx y hy
                simp [this]
        -- the tail
        have htail : scanFields find fs all (zeroOf.zeroFields fs) = normFields fs vs := by
          apply invStructAux fs vs b all hwt h2 _ dt
          intro c hc
          rw [hall c (List.mem_append_right _ hc), List.filter_append]
          have : a.filter (fun x => x.code = c) = [] := by
            apply filter_code_none
            intro x hxa hcx
            exact ddisj x.code (hacodes x hxa) (hcx ▸ hc)
          rw [this]; rfl
        -- what the head field's codes select from `all`
        have hsel : ∀ c ∈ (if tag.emb = true then embCodes find s else if tag.name = 0 then []
            else match entOf find tag.name with | some e => [e.code] | none => []),
            all.filter (fun x => x.code = c) = a.filter (fun x => x.code = c) := by
          intro c hc
          rw [hall c (List.mem_append_left _ hc), List.filter_append]
          have : b.filter (fun x => x.code = c) = [] := by
            apply filter_code_none
            intro x hxb hcx
            exact ddisj c hc (hcx ▸ hbcodes x hxb)
          rw [this]; simp
        simp only [scanFields, zeroOf.zeroFields, normFields, htail]
        congr 1
        by_cases hemb : tag.emb = true
        · simp only [hemb, if_true] at hx hwh hsel dh ⊢
          exact invEmb s v a all hwh hx hsel dh
        · simp only [hemb] at hx hwh hsel ⊢
          simp only [Bool.false_eq_true, if_false] at hx hwh hsel ⊢
          by_cases hn : tag.name = 0
          · simp [hn]
          · simp only [hn, if_false] at hwh hsel ⊢
            cases he : entOf find tag.name with
            | none => simp [he] at hwh
            | some e =>
              simp only [he] at hwh hsel ⊢
              have hmine := hsel e.code (by simp)
              simp only [hmine]
              by_cases hskip : tag.omitE = true ∧ v.isEmpty = true
              · -- omitted because empty: nothing was marshalled, the field stays zero
                have : a = [] := by
                  simp only [fieldOut, hn, false_or, hskip, and_self, if_true] at hx
                  cases hx; rfl
                subst this
                simp [hskip]
              · have hwf : wfField find s v e = true := by
                  rcases Bool.or_eq_true _ _ |>.mp hwh with h1 | h1
                  · exfalso; apply hskip; simpa using h1
                  · exact h1
                have hm : marshalField find s v e = .ok a := by
                  simp only [fieldOut, hn, false_or, hskip, if_false, he] at hx
                  exact hx
                have hall_a : a.filter (fun x => x.code = e.code) = a :=
                  filter_code_all e.code a (codesField find s v e a hwf hm)
                simp only [hall_a, hskip, or_false, hn, if_false]
                -- by the shape of the field
                cases s with
                | slice s' =>
                  cases v with
                  | nil =>
                    simp only [marshalField] at hm; cases hm
                    simp [normRV, zeroOf]
                  | slice vs' =>
                    simp only [wfField, Bool.and_eq_true] at hwf
                    rw [slice_marshal find s' vs' e hwf.2] at hm
                    obtain ⟨i1, i2⟩ := invElems s' vs' e a hwf.1 hwf.2 hm
                    cases vs' with
                    | nil =>
                      have : a = [] := by simpa using i2
                      subst this; simp [normRV, zeroOf]
                    | cons x r =>
                      cases a with
                      | nil => simp at i2
                      | cons a1 rest =>
                        simp only [List.isEmpty_cons, Bool.false_eq_true, if_false, unmarshalField, normRV, i1]
                  | leaf _ => simp [wfField] at hwf
                  | ptr _ => simp [wfField] at hwf
                  | struct _ => simp [wfField] at hwf
                  | avp _ => simp [wfField] at hwf
                | ptr s' =>
                  cases v with
                  | nil =>
                    simp only [marshalField] at hm; cases hm
                    simp [normRV, zeroOf]
                  | ptr v' =>
                    have hs : (Shape.ptr s').single = true := by
                      simp only [wfField, Bool.and_eq_true] at hwf
                      simpa [Shape.single] using hwf.1.1
                    obtain ⟨a0, ha, hr⟩ := invSingle (.ptr s') (.ptr v') e a hs (by simp [RV.isNil]) hwf hm
                    subst ha
                    simp [hr []]
                  | leaf _ => simp [wfField] at hwf
                  | slice _ => simp [wfField] at hwf
                  | struct _ => simp [wfField] at hwf
                  | avp _ => simp [wfField] at hwf
                | leaf t =>
                  have hnn : v.isNil = false := by cases v <;> simp_all [wfField, RV.isNil]
                  obtain ⟨a0, ha, hr⟩ := invSingle (.leaf t) v e a (by simp [Shape.single]) hnn hwf hm
                  subst ha
                  simp [hr []]
                | struct fs' =>
                  have hnn : v.isNil = false := by cases v <;> simp_all [wfField, RV.isNil]
                  obtain ⟨a0, ha, hr⟩ := invSingle (.struct fs') v e a (by simp [Shape.single]) hnn hwf hm
                  subst ha
                  simp [hr []]
                | avp =>
                  have hnn : v.isNil = false := by cases v <;> simp_all [wfField, RV.isNil]
                  obtain ⟨a0, ha, hr⟩ := invSingle .avp v e a (by simp [Shape.single]) hnn hwf hm
                  subst ha
                  simp [hr []]
theorem invEmb : ∀ (s : Shape) (v : RV) (out all : List AVP), wfEmb find s v = true →
    marshalEmb find s v = .ok out →
    (∀ c ∈ embCodes find s, all.filter (fun a => a.code = c) = out.filter (fun a => a.code = c)) →
    distinct (embCodes find s) = true →
    scanEmb find s all (zeroOf s) = normRV s v
  | .struct efs, .struct evs, out, all, hw, h, hall, hdist => by
    simp only [wfEmb] at hw
    simp only [marshalEmb] at h
    simp only [embCodes] at hall hdist
    simp only [scanEmb, zeroOf, normRV, invStructAux efs evs out all hw h hall hdist]
  | .struct _, .leaf _, _, _, hw, _, _, _ => by simp [wfEmb] at hw
  | .struct _, .nil, _, _, hw, _, _, _ => by simp [wfEmb] at hw
  | .struct _, .ptr _, _, _, hw, _, _, _ => by simp [wfEmb] at hw
  | .struct _, .slice _, _, _, hw, _, _, _ => by simp [wfEmb] at hw
  | .struct _, .avp _, _, _, hw, _, _, _ => by simp [wfEmb] at hw
  | .leaf _, _, _, _, hw, _, _, _ => by simp [wfEmb] at hw
  | .ptr _, _, _, _, hw, _, _, _ => by simp [wfEmb] at hw
  | .slice _, _, _, _, hw, _, _, _ => by simp [wfEmb] at hw
  | .avp, _, _, _, hw, _, _, _ => by simp [wfEmb] at hw
end

/-! ### well-formed values marshal without error -/

mutual
theorem totalField : ∀ (s : Shape) (v : RV) (e : DEnt), wfField find s v e = true → ∃ as, marshalField find s v e = .ok as
  | .leaf t, .leaf v, e, hw => by
    simp only [wfField, Bool.and_eq_true, decide_eq_true_eq] at hw
    cases hd : toData e.ty t v with
    | none => simp [hd] at hw
    | some d => exact ⟨[mkFieldAVP e d], by simp [marshalField, hw.1, hd]⟩
  | .ptr _, .nil, _, _ => ⟨[], by simp [marshalField]⟩
  | .ptr s, .ptr v, e, hw => by
    simp only [wfField, Bool.and_eq_true] at hw
    obtain ⟨as, h⟩ := totalField s v e hw.2
    exact ⟨as, by simp [marshalField, h]⟩
  | .slice _, .nil, _, _ => ⟨[], by simp [marshalField]⟩
  | .slice s, .slice vs, e, hw => by
    simp only [wfField, Bool.and_eq_true] at hw
    obtain ⟨as, h⟩ := totalElems s vs e hw.2
    exact ⟨as, by rw [slice_marshal find s vs e hw.2, h]⟩
  | .struct fs, .struct vs, e, hw => by
    simp only [wfField, Bool.and_eq_true, decide_eq_true_eq] at hw
    obtain ⟨e1, e2⟩ := group_as_struct find fs vs hw.2
    obtain ⟨kids, h⟩ := totalStruct fs vs e2
    exact ⟨[mkFieldAVP e (.group kids)], by simp [marshalField, hw.1.1, e1, h, Res.mapR]⟩
  | .avp, .avp a, e, hw => by
    simp only [wfField, Bool.and_eq_true, decide_eq_true_eq] at hw
    exact ⟨[a], by simp [marshalField, hw.1]⟩
  | .leaf _, .nil, _, hw => by simp [wfField] at hw
  | .leaf _, .ptr _, _, hw => by simp [wfField] at hw
  | .leaf _, .slice _, _, hw => by simp [wfField] at hw
  | .leaf _, .struct _, _, hw => by simp [wfField] at hw
  | .leaf _, .avp _, _, hw => by simp [wfField] at hw
  | .ptr _, .leaf _, _, hw => by simp [wfField] at hw
  | .ptr _, .slice _, _, hw => by simp [wfField] at hw
  | .ptr _, .struct _, _, hw => by simp [wfField] at hw
  | .ptr _, .avp _, _, hw => by simp [wfField] at hw
  | .slice _, .leaf _, _, hw => by simp [wfField] at hw
  | .slice _, .ptr _, _, hw => by simp [wfField] at hw
  | .slice _, .struct _, _, hw => by simp [wfField] at hw
  | .slice _, .avp _, _, hw => by simp [wfField] at hw
  | .struct _, .leaf _, _, hw => by simp [wfField] at hw
  | .struct _, .nil, _, hw => by simp [wfField] at hw
  | .struct _, .ptr _, _, hw => by simp [wfField] at hw
  | .struct _, .slice _, _, hw => by simp [wfField] at hw
  | .struct _, .avp _, _, hw => by simp [wfField] at hw
  | .avp, .leaf _, _, hw => by simp [wfField] at hw
  | .avp, .nil, _, hw => by simp [wfField] at hw
  | .avp, .ptr _, _, hw => by simp [wfField] at hw
  | .avp, .slice _, _, hw => by simp [wfField] at hw
  | .avp, .struct _, _, hw => by simp [wfField] at hw
theorem totalElems : ∀ (s : Shape) (vs : List RV) (e : DEnt), wfElems find s vs e = true → ∃ as, marshalElems find s vs e = .ok as
  | _, [], _, _ => ⟨[], by simp [marshalElems]⟩
  | s, v :: r, e, hw => by
    simp only [wfElems, Bool.and_eq_true] at hw
    obtain ⟨a, h1⟩ := totalField s v e hw.1.2
    obtain ⟨b, h2⟩ := totalElems s r e hw.2
    exact ⟨a ++ b, by simp [marshalElems, h1, h2, Res.bindR, Res.mapR]⟩
theorem totalStruct : ∀ (fs : List SField) (vs : List RV), wfStruct find fs vs = true → ∃ as, marshalStruct find fs vs = .ok as
  | [], _, _ => ⟨[], by simp [marshalStruct]⟩
  | .mk tag s :: fs, [], hw => by simp [wfStruct] at hw
  | .mk tag s :: fs, v :: vs, hw => by
    simp only [wfStruct, Bool.and_eq_true] at hw
    obtain ⟨b, h2⟩ := totalStruct fs vs hw.2
    have : ∃ a, (if tag.emb = true then marshalEmb find s v else fieldOut find tag s v) = .ok a := by
      by_cases hemb : tag.emb = true
      · simp only [hemb, if_true] at hw ⊢
        exact totalEmb s v hw.1
      · simp only [hemb] at hw ⊢
        simp only [Bool.false_eq_true, if_false] at hw ⊢
        by_cases hn : tag.name = 0
        · exact ⟨[], by simp [fieldOut, hn]⟩
        · simp only [hn, if_false] at hw
          cases he : entOf find tag.name with
          | none => simp [he] at hw
          | some e =>
            simp only [he] at hw
            by_cases hskip : tag.omitE = true ∧ v.isEmpty = true
            · exact ⟨[], by simp [fieldOut, hskip]⟩
            · have hwf : wfField find s v e = true := by
                rcases Bool.or_eq_true _ _ |>.mp hw.1 with h1 | h1
                · exfalso; apply hskip; simpa using h1
                · exact h1
              obtain ⟨a, h1⟩ := totalField s v e hwf
              exact ⟨a, by simp [fieldOut, hn, hskip, he, h1]⟩
    obtain ⟨a, h1⟩ := this
    exact ⟨a ++ b, by simp only [marshalStruct, h1, h2, Res.bindR, Res.mapR]⟩
theorem totalEmb : ∀ (s : Shape) (v : RV), wfEmb find s v = true → ∃ as, marshalEmb find s v = .ok as
  | .struct efs, .struct evs, hw => by
    simp only [wfEmb] at hw
    obtain ⟨a, h⟩ := totalStruct efs evs hw
    exact ⟨a, by simp [marshalEmb, h]⟩
  | .struct _, .leaf _, hw => by simp [wfEmb] at hw
  | .struct _, .nil, hw => by simp [wfEmb] at hw
  | .struct _, .ptr _, hw => by simp [wfEmb] at hw
  | .struct _, .slice _, hw => by simp [wfEmb] at hw
  | .struct _, .avp _, hw => by simp [wfEmb] at hw
  | .leaf _, _, hw => by simp [wfEmb] at hw
  | .ptr _, _, hw => by simp [wfEmb] at hw
  | .slice _, _, hw => by simp [wfEmb] at hw
  | .avp, _, hw => by simp [wfEmb] at hw
end

/-- `Unmarshal ∘ Marshal` on the well-formed fragment: marshalling succeeds and scanning the
    result into a fresh (zero) struct yields the value in normal form -/
theorem marshal_unmarshal (fs : List SField) (vs : List RV) (hw : wfStruct find fs vs = true)
    (hd : distinct (levelCodes find fs) = true) :
    ∃ as, marshalStruct find fs vs = .ok as ∧ scanFields find fs as (zeroOf.zeroFields fs) = normFields fs vs := by
  obtain ⟨as, h⟩ := totalStruct find fs vs hw
  exact ⟨as, h, invStructAux find fs vs as as hw h (fun _ _ => rfl) hd⟩

end
end DV
