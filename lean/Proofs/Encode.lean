import Proofs.Basic
import Model.Codec
import Spec.Rfc
import Spec.Canon
/-! The model encoder equals the independent RFC 6733 reference encoder on canonical values. -/
namespace DV
open DV.Spec

theorem to4_len4 (b : Bytes) (h : b.length = 4) : to4 b = some b := by simp [to4, h]
theorem to4_len16 (b : Bytes) (h : b.length = 16) (hm : ¬ isV4Mapped b = true) : to4 b = none := by
  have : ¬ (b.take 12 = [0,0,0,0,0,0,0,0,0,0,255,255]) := by
    intro e; apply hm; simp [isV4Mapped, h, e]
  simp [to4, h, this]
theorem to4_other (b : Bytes) (h4 : b.length ≠ 4) (h16 : b.length ≠ 16) : to4 b = none := by
  simp [to4, h4, h16]
theorem to16_len16 (b : Bytes) (h : b.length = 16) : to16 b = some b := by simp [to16, h]
theorem to16_other (b : Bytes) (h4 : b.length ≠ 4) (h16 : b.length ≠ 16) : to16 b = none := by
  simp [to16, h4, h16]

theorem pad_eq (hl l : Nat) (h : hl = 8 ∨ hl = 12) : pad4 l - l = (4 - (hl + l) % 4) % 4 := by
  unfold pad4; rcases h with h | h <;> omega

theorem hdrLen_cases (f : Nat) : hdrLen f = 8 ∨ hdrLen f = 12 := by
  unfold hdrLen; split <;> simp

theorem hdrLen_spec (f : Nat) : hdrLen f = (if f / 128 % 2 = 1 then 12 else 8) := by
  unfold hdrLen hasV; by_cases h : f / 128 % 2 = 1 <;> simp [h]

theorem hasV_spec (f : Nat) : (hasV f = true) ↔ (f / 128 % 2 = 1) := by unfold hasV; simp

theorem fixW_spec (t : Nat) : fixW t = (if t = 6 ∨ t = 11 ∨ t = 17 then 8 else 4) := by
  unfold fixW T.f64 T.i64 T.u64; rfl

theorem avpSize_mod (a : AVP) : avpSize a % 4 = 0 := by
  cases a with
  | mk c f l v d => simp only [avpSize]; omega

theorem sizeL_mod : ∀ as : List AVP, sizeL as % 4 = 0
  | [] => by simp [sizeL]
  | a :: r => by
    simp only [sizeL]
    have := avpSize_mod a
    have := sizeL_mod r
    omega

theorem addr_canon_cases (b : Bytes)
    (h : b.length = 4 ∨ (b.length = 16 ∧ ¬ isV4Mapped b = true) ∨
       (b.length ≥ 3 ∧ b.length ≠ 4 ∧ b.length ≠ 16 ∧
         (rd (b.take 2) ≠ 0 ∧ rd (b.take 2) ≠ 1 ∧ rd (b.take 2) ≠ 2 ∧ rd (b.take 2) ≠ 65535))) :
    (Val.addr b).ser = addrOctets b ∧ addrLen b = (addrOctets b).length := by
  rcases h with h | ⟨h, hm⟩ | ⟨_, h4, h16, _⟩
  · simp [Val.ser, addrLen, addrOctets, to4_len4 b h, h]
  · have h4 : b.length ≠ 4 := by omega
    simp [Val.ser, addrLen, addrOctets, to4_len16 b h hm, to16_len16 b h, h, h4]
  · simp [Val.ser, addrLen, addrOctets, to4_other b h4 h16, to16_other b h4 h16, h4, h16]

theorem AVP.enc_padding (c f l v : Nat) (d : Val) :
    (AVP.mk c f l v d).enc =
      be 4 c ++ [UInt8.ofNat f] ++ be 3 (hdrLen f + d.len) ++ (if hasV f then be 4 v else [])
        ++ d.ser ++ zeros d.padding := by
  cases d <;> simp [AVP.enc, Val.padding]

/-- padding of a canonical value, in RFC terms, for a header of 8 or 12 octets -/
theorem padding_spec (d : Val) (hd : canonVal d = true) (hlen : d.len = dataSize d)
    (hl : Nat) (hc : hl = 8 ∨ hl = 12) : d.padding = (4 - (hl + dataSize d) % 4) % 4 := by
  cases d with
  | str t b =>
    simp only [canonVal, decide_eq_true_eq] at hd
    have : ¬ t = T.grouped := by
      rcases hd with h | h | h | h | h | h | h <;> simp [h, T.grouped, T.unknown, T.ident, T.uri, T.ipfilter, T.octets, T.qos, T.utf8]
    simp only [Val.padding, this, if_false, dataSize]
    exact pad_eq _ _ hc
  | addr b =>
    simp only [Val.len, dataSize] at hlen
    simp only [Val.padding, dataSize, hlen]
    exact pad_eq _ _ hc
  | ip4 b => simp only [Val.padding, dataSize]; rcases hc with h | h <;> simp [h]
  | ip6 b => simp only [Val.padding, dataSize]; rcases hc with h | h <;> simp [h]
  | fix t n =>
    simp only [Val.padding, dataSize]
    by_cases ht : t = 6 ∨ t = 11 ∨ t = 17 <;> rcases hc with h | h <;> simp [ht, h]
  | time u => simp only [Val.padding, dataSize]; rcases hc with h | h <;> simp [h]
  | group as =>
    simp only [Val.padding, dataSize]
    have := sizeL_mod as
    rcases hc with h | h <;> rw [h] <;> omega

mutual
/-- on canonical values the library's `Serialize`/`Len` are the RFC data octets and their count -/
theorem ser_eq : ∀ v : Val, canonVal v = true → v.ser = dataOctets v ∧ v.len = dataSize v
  | .str t b, _ => by simp [Val.ser, dataOctets, Val.len, dataSize]
  | .addr b, h => by
    simp only [canonVal, decide_eq_true_eq] at h
    have := addr_canon_cases b (by simpa using h)
    simp only [dataOctets, dataSize, Val.len]
    exact this
  | .ip4 b, h => by
    simp only [canonVal, decide_eq_true_eq] at h
    simp [Val.ser, dataOctets, Val.len, dataSize, to4_len4 b h]
  | .ip6 b, h => by
    simp only [canonVal, decide_eq_true_eq] at h
    simp [Val.ser, dataOctets, Val.len, dataSize, to16_len16 b h]
  | .fix t n, _ => by
    simp only [Val.ser, dataOctets, Val.len, dataSize, fixW_spec]
    constructor
    · split <;> rfl
    · trivial
  | .time u, _ => by
    simp [Val.ser, dataOctets, Val.len, dataSize, encTime, rfc868]
  | .group as, h => by
    simp only [canonVal] at h
    have := encL_eq as h
    simp only [Val.ser, dataOctets, Val.len, dataSize]
    exact this
/-- the AVP image is the RFC image, and `AVP.Len()` its size -/
theorem enc_eq : ∀ a : AVP, canonAVP a = true → a.enc = emit a ∧ a.len = avpSize a
  | .mk c f l v d, h => by
    simp only [canonAVP, Bool.and_eq_true, decide_eq_true_eq, Bool.decide_and] at h
    obtain ⟨_, _, _, _, hd⟩ := h
    have hs := ser_eq d hd
    have hh := hdrLen_spec f
    have hc : hdrLen f = 8 ∨ hdrLen f = 12 := hdrLen_cases f
    have hp := padding_spec d hd hs.2 (hdrLen f) hc
    constructor
    · rw [AVP.enc_padding, hp, hs.1, hs.2]
      simp only [emit, zeros]
      have hv : (hasV f = true) = (f / 128 % 2 = 1) := propext (hasV_spec f)
      simp only [hv, hh]
      simp [List.append_assoc]
    · rw [AVP.len_eq, hp, hs.2]
      simp only [avpSize, hh]
theorem encL_eq : ∀ as : List AVP, canonL as = true → encL as = emitL as ∧ lenL as = sizeL as
  | [], _ => by simp [encL, emitL, lenL, sizeL]
  | a :: r, h => by
    simp only [canonL, Bool.and_eq_true] at h
    have h1 := enc_eq a h.1
    have h2 := encL_eq r h.2
    simp only [encL, emitL, lenL, sizeL]
    rw [h1.1, h1.2, h2.1, h2.2]
    exact ⟨rfl, rfl⟩
end

end DV
