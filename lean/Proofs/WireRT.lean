import Proofs.Frame
import Proofs.Encode
import Spec.Wire
/-!
  Wire direction of C01: a well-formed container that is not one of the three ambiguous Address
  shapes is read, and what is read serialises to exactly the bytes that were read.
-/
namespace DV
open DV.Spec

/-! ### list surgery -/

theorem take_split {α : Type} (l : List α) (n m : Nat) (h : n ≤ m) :
    l.take m = l.take n ++ (l.take m).drop n := by
  have := (List.take_append_drop n (l.take m)).symm
  rw [List.take_take, Nat.min_eq_left h] at this
  exact this

theorem take1_drop (l : Bytes) (i : Nat) (h : i < l.length) : (l.drop i).take 1 = [l.getD i 0] := by
  rw [List.drop_eq_getElem_cons h]
  simp only [List.take_succ_cons, List.take_zero]
  congr 1
  simp [List.getD_eq_getElem?_getD, h]

theorem all_zero_eq (l : Bytes) (h : l.all (· == 0) = true) : l = zeros l.length := by
  induction l with
  | nil => rfl
  | cons b r ih =>
    simp only [List.all_cons, Bool.and_eq_true, beq_iff_eq] at h
    simp only [zeros, List.length_cons, List.replicate_succ]
    rw [h.1]
    congr 1
    exact ih h.2

/-- the first eight octets of an AVP, cut into its header fields -/
theorem take8 (data : Bytes) (h : 8 ≤ data.length) :
    data.take 8 = data.take 4 ++ [data.getD 4 0] ++ (data.drop 5).take 3 := by
  have e1 : data.take 8 = data.take (4 + 4) := rfl
  rw [e1, List.take_add]
  have e2 : (data.drop 4).take 4 = (data.drop 4).take (1 + 3) := rfl
  rw [e2, List.take_add, take1_drop data 4 (by omega), List.drop_drop]
  simp [List.append_assoc]

theorem take12 (data : Bytes) (h : 12 ≤ data.length) :
    data.take 12 = data.take 4 ++ [data.getD 4 0] ++ (data.drop 5).take 3 ++ (data.drop 8).take 4 := by
  have e1 : data.take 12 = data.take (8 + 4) := rfl
  rw [e1, List.take_add, take8 data (by omega)]

/-! ### leaves -/

theorem time_back (n : Nat) (h : n < 4294967296) :
    (if n < 2147483648 then encTime ((n : Int) + rfc2030) else encTime ((n : Int) - rfc868)) = be 4 n := by
  unfold encTime
  split
  · have : ((((n : Int) + (rfc2030 : Nat)) + ((rfc868 : Nat) : Int)) % 4294967296).toNat = n := by
      simp only [rfc2030, rfc868]; omega
    rw [this]
  · have : ((((n : Int) - (rfc868 : Nat)) + ((rfc868 : Nat) : Int)) % 4294967296).toNat = n := by
      simp only [rfc868]; omega
    rw [this]

theorem rd_lt4 (p : Bytes) (h : p.length = 4) : rd p < 4294967296 := by
  have := rd_lt p; rw [h] at this; exact this

/-- a well-formed, unambiguous payload is decoded to a value that serialises to the payload,
    reports its length and asks for the padding that brings it to a multiple of four -/
theorem leaf_wire_rt (t : Nat) (p : Bytes) (d : Val)
    (hw : wfPayloadX t p = true) (hd : decodeLeaf t p = .ok d) :
    d.ser = p ∧ d.len = p.length ∧ d.padding = pad4 p.length - p.length := by
  unfold wfPayloadX wfPayload at hw
  unfold decodeLeaf at hd
  by_cases h1 : (t = T.unknown ∨ t = T.ident ∨ t = T.uri ∨ t = T.ipfilter ∨ t = T.octets ∨ t = T.qos ∨ t = T.utf8)
  · simp only [h1, if_true, Res.ok.injEq] at hd
    subst hd
    refine ⟨rfl, rfl, ?_⟩
    have : t ≠ T.grouped := by
      rcases h1 with h | h | h | h | h | h | h <;> rw [h] <;> decide
    simp [Val.padding, this]
  simp only [h1, if_false] at hd
  by_cases h2 : t = T.address
  · subst h2
    simp only [if_true] at hd
    have hne : ¬ (T.address = T.enum ∨ T.address = T.f32 ∨ T.address = T.i32 ∨ T.address = T.u32 ∨
        T.address = T.time ∨ T.address = T.ipv4) := by decide
    have hne2 : ¬ (T.address = T.f64 ∨ T.address = T.i64 ∨ T.address = T.u64) := by decide
    have hne3 : ¬ (T.address = T.ipv6) := by decide
    simp only [hne, hne2, hne3, if_false, if_true, decide_true, Bool.true_and, Bool.and_eq_true,
      Bool.not_eq_true', decide_eq_true_eq] at hw
    obtain ⟨⟨hl3, hf0, hf65, hf1, hf2⟩, hamb⟩ := hw
    unfold addrAmbiguous at hamb
    simp only [Bool.decide_or, Bool.decide_and, Bool.or_eq_false_iff, Bool.and_eq_false_imp,
      decide_eq_true_eq, decide_eq_false_iff_not] at hamb
    obtain ⟨hm, ho⟩ := hamb
    have hl3' : ¬ p.length < 3 := by omega
    simp only [hl3', if_false] at hd
    have hfam : ¬ (rd (p.take 2) = 0 ∨ rd (p.take 2) = 65535) := by
      intro h; rcases h with h | h
      · exact hf0 h
      · exact hf65 h
    simp only [hfam, if_false] at hd
    have hp2 : p = p.take 2 ++ p.drop 2 := (List.take_append_drop 2 p).symm
    have hfamlt : rd (p.take 2) < 65536 := by
      have := rd_lt (p.take 2)
      have hl : (p.take 2).length = 2 := by rw [List.length_take]; omega
      rw [hl] at this; exact this
    have hbe : be 2 (rd (p.take 2)) = p.take 2 := by
      have hl : (p.take 2).length = 2 := by rw [List.length_take]; omega
      have := be_rd (p.take 2); rw [hl] at this; exact this
    by_cases hF1 : rd (p.take 2) = 1
    · have hlen := hf1 hF1
      have h4 : ¬ (p.length - 2 ≠ 4) := by omega
      simp only [hF1, if_true, h4, if_false, Res.ok.injEq] at hd
      subst hd
      have hd4 : (p.drop 2).length = 4 := by rw [List.length_drop]; omega
      have e1 : p.take 2 = [0, 1] := by rw [← hbe, hF1]; rfl
      simp only [Val.ser, Val.len, Val.padding, addrLen, to4_len4 _ hd4]
      refine ⟨?_, by omega, by rw [hlen]⟩
      rw [← e1]; exact hp2.symm
    simp only [hF1, if_false] at hd
    by_cases hF2 : rd (p.take 2) = 2
    · have hlen := hf2 hF2
      have h16 : ¬ (p.length - 2 ≠ 16) := by omega
      simp only [hF2, if_true, h16, if_false, Res.ok.injEq] at hd
      subst hd
      have hd16 : (p.drop 2).length = 16 := by rw [List.length_drop]; omega
      have hnm : ¬ isV4Mapped (p.drop 2) = true := by
        intro h; exact absurd h (by simpa using hm hF2)
      have e1 : p.take 2 = [0, 2] := by rw [← hbe, hF2]; rfl
      simp only [Val.ser, Val.len, Val.padding, addrLen, to4_len16 _ hd16 hnm, to16_len16 _ hd16]
      refine ⟨?_, by omega, by rw [hlen]⟩
      rw [← e1]; exact hp2.symm
    simp only [hF2, if_false, Res.ok.injEq] at hd
    subst hd
    have hno := ho hF1 hF2
    have hn4 : p.length ≠ 4 := fun h => by simp [h] at hno
    have hn16 : p.length ≠ 16 := fun h => by simp [h] at hno
    simp [Val.ser, Val.len, Val.padding, addrLen, to4_other _ hn4 hn16, to16_other _ hn4 hn16]
  simp only [h2, if_false] at hd
  by_cases h3 : (t = T.enum ∨ t = T.f32 ∨ t = T.i32 ∨ t = T.u32)
  · have hw1 : (t = T.enum ∨ t = T.f32 ∨ t = T.i32 ∨ t = T.u32 ∨ t = T.time ∨ t = T.ipv4) := by
      rcases h3 with h | h | h | h <;> simp [h]
    simp only [hw1, if_true, Bool.and_eq_true, decide_eq_true_eq] at hw
    have hl := hw.1
    simp only [h3, if_true, hl, Res.ok.injEq] at hd
    subst hd
    have hW : fixW t = 4 := by
      rcases h3 with h | h | h | h <;> rw [h] <;> decide
    refine ⟨?_, ?_, ?_⟩
    · show be (fixW t) (rd p) = p
      rw [hW]; have := be_rd p; rw [hl] at this; exact this
    · show fixW t = p.length
      rw [hW, hl]
    · show 0 = pad4 p.length - p.length
      rw [hl]; decide
  simp only [h3, if_false] at hd
  by_cases h4 : (t = T.f64 ∨ t = T.i64 ∨ t = T.u64)
  · have hw1 : ¬ (t = T.enum ∨ t = T.f32 ∨ t = T.i32 ∨ t = T.u32 ∨ t = T.time ∨ t = T.ipv4) := by
      rcases h4 with h | h | h <;> rw [h] <;> decide
    simp only [hw1, if_false, h4, if_true, Bool.and_eq_true, decide_eq_true_eq] at hw
    have hl := hw.1
    simp only [h4, if_true, hl, Res.ok.injEq] at hd
    subst hd
    have hW : fixW t = 8 := by
      rcases h4 with h | h | h <;> rw [h] <;> decide
    refine ⟨?_, ?_, ?_⟩
    · show be (fixW t) (rd p) = p
      rw [hW]; have := be_rd p; rw [hl] at this; exact this
    · show fixW t = p.length
      rw [hW, hl]
    · show 0 = pad4 p.length - p.length
      rw [hl]; decide
  simp only [h4, if_false] at hd
  by_cases h5 : t = T.ipv4
  · have hw1 : (t = T.enum ∨ t = T.f32 ∨ t = T.i32 ∨ t = T.u32 ∨ t = T.time ∨ t = T.ipv4) := by
      rw [h5]; decide
    simp only [hw1, if_true, Bool.and_eq_true, decide_eq_true_eq] at hw
    have hl := hw.1
    simp only [h5, if_true, hl, Res.ok.injEq] at hd
    subst hd
    refine ⟨?_, ?_, ?_⟩
    · show (match to4 p with | some ip => ip | none => p) = p
      rw [to4_len4 _ hl]
    · show 4 = p.length
      rw [hl]
    · show 0 = pad4 p.length - p.length
      rw [hl]; decide
  simp only [h5, if_false] at hd
  by_cases h6 : t = T.ipv6
  · have hw1 : ¬ (t = T.enum ∨ t = T.f32 ∨ t = T.i32 ∨ t = T.u32 ∨ t = T.time ∨ t = T.ipv4) := by
      rw [h6]; decide
    have hw2 : ¬ (t = T.f64 ∨ t = T.i64 ∨ t = T.u64) := by rw [h6]; decide
    simp only [hw1, hw2, if_false] at hw
    simp only [h6, if_true, Bool.and_eq_true, decide_eq_true_eq] at hw
    have hl := hw.1
    simp only [h6, if_true, hl, Res.ok.injEq] at hd
    subst hd
    refine ⟨?_, ?_, ?_⟩
    · show (match to16 p with | some ip => ip | none => p) = p
      rw [to16_len16 _ hl]
    · show 16 = p.length
      rw [hl]
    · show 0 = pad4 p.length - p.length
      rw [hl]; decide
  simp only [h6, if_false] at hd
  by_cases h7 : t = T.time
  · have hw1 : (t = T.enum ∨ t = T.f32 ∨ t = T.i32 ∨ t = T.u32 ∨ t = T.time ∨ t = T.ipv4) := by
      rw [h7]; decide
    simp only [hw1, if_true, Bool.and_eq_true, decide_eq_true_eq] at hw
    have hl := hw.1
    have hl' : ¬ p.length ≠ 4 := by omega
    simp only [h7, if_true, hl', if_false] at hd
    have hb := time_back (rd p) (rd_lt4 p hl)
    have hbe : be 4 (rd p) = p := by have := be_rd p; rw [hl] at this; exact this
    split at hd
    · rename_i hlt
      simp only [Res.ok.injEq] at hd
      subst hd
      simp only [hlt, if_true] at hb
      refine ⟨?_, ?_, ?_⟩
      · show encTime _ = p
        rw [hb, hbe]
      · show 4 = p.length
        rw [hl]
      · show 0 = pad4 p.length - p.length
        rw [hl]; decide
    · rename_i hlt
      simp only [Res.ok.injEq] at hd
      subst hd
      simp only [hlt, if_false] at hb
      refine ⟨?_, ?_, ?_⟩
      · show encTime _ = p
        rw [hb, hbe]
      · show 4 = p.length
        rw [hl]
      · show 0 = pad4 p.length - p.length
        rw [hl]; decide
  simp only [h7, if_false] at hd
  cases hd

/-- a well-formed payload is accepted by the data decoder -/
theorem leaf_wf_decodes (t : Nat) (p : Bytes) (hw : wfPayload t p = true) : ∃ d, decodeLeaf t p = .ok d := by
  unfold wfPayload at hw
  unfold decodeLeaf
  by_cases h1 : (t = T.unknown ∨ t = T.ident ∨ t = T.uri ∨ t = T.ipfilter ∨ t = T.octets ∨ t = T.qos ∨ t = T.utf8)
  · simp only [h1, if_true]; exact ⟨_, rfl⟩
  simp only [h1, if_false]
  by_cases h2 : t = T.address
  · subst h2
    have hne : ¬ (T.address = T.enum ∨ T.address = T.f32 ∨ T.address = T.i32 ∨ T.address = T.u32 ∨
        T.address = T.time ∨ T.address = T.ipv4) := by decide
    have hne2 : ¬ (T.address = T.f64 ∨ T.address = T.i64 ∨ T.address = T.u64) := by decide
    have hne3 : ¬ (T.address = T.ipv6) := by decide
    simp only [hne, hne2, hne3, if_false, if_true, decide_eq_true_eq] at hw
    obtain ⟨hl3, hf0, hf65, hf1, hf2⟩ := hw
    have hl3' : ¬ p.length < 3 := by omega
    have hfam : ¬ (rd (p.take 2) = 0 ∨ rd (p.take 2) = 65535) := by
      intro h; rcases h with h | h
      · exact hf0 h
      · exact hf65 h
    simp only [if_true, hl3', if_false, hfam]
    by_cases hF1 : rd (p.take 2) = 1
    · have := hf1 hF1
      have h4 : ¬ (p.length - 2 ≠ 4) := by omega
      simp only [hF1, if_true, h4, if_false]; exact ⟨_, rfl⟩
    simp only [hF1, if_false]
    by_cases hF2 : rd (p.take 2) = 2
    · have := hf2 hF2
      have h16 : ¬ (p.length - 2 ≠ 16) := by omega
      simp only [hF2, if_true, h16, if_false]; exact ⟨_, rfl⟩
    simp only [hF2, if_false]; exact ⟨_, rfl⟩
  simp only [h2, if_false]
  by_cases h3 : (t = T.enum ∨ t = T.f32 ∨ t = T.i32 ∨ t = T.u32)
  · simp only [h3, if_true]; exact ⟨_, rfl⟩
  simp only [h3, if_false]
  by_cases h4 : (t = T.f64 ∨ t = T.i64 ∨ t = T.u64)
  · simp only [h4, if_true]; exact ⟨_, rfl⟩
  simp only [h4, if_false]
  by_cases h5 : t = T.ipv4
  · simp only [h5, if_true]; exact ⟨_, rfl⟩
  simp only [h5, if_false]
  by_cases h6 : t = T.ipv6
  · simp only [h6, if_true]; exact ⟨_, rfl⟩
  simp only [h6, if_false]
  by_cases h7 : t = T.time
  · simp only [h7, if_true]
    split
    · exact ⟨_, rfl⟩
    · split <;> exact ⟨_, rfl⟩
  exfalso
  have e1 : ¬ (t = T.enum ∨ t = T.f32 ∨ t = T.i32 ∨ t = T.u32 ∨ t = T.time ∨ t = T.ipv4) := by
    intro h; rcases h with h | h | h | h | h | h
    · exact h3 (Or.inl h)
    · exact h3 (Or.inr (Or.inl h))
    · exact h3 (Or.inr (Or.inr (Or.inl h)))
    · exact h3 (Or.inr (Or.inr (Or.inr h)))
    · exact h7 h
    · exact h5 h
  simp [e1, h4, h6, h2, h1] at hw

/-! ### padding -/

theorem wfPadding_zero (g : Nat → Nat → Bool) (bs : Bytes) : wfPadding g 0 bs = bs.isEmpty := by
  rw [wfPadding]

theorem wfPadding_succ (g : Nat → Nat → Bool) (fuel : Nat) (bs : Bytes) :
    wfPadding g (fuel+1) bs =
      if bs.isEmpty then true else
      let code := rd (bs.take 4)
      let flags := (bs.getD 4 0).toNat
      let length := rd ((bs.drop 5).take 3)
      let hl := if flags ≥ 128 then 12 else 8
      let vendor := if flags ≥ 128 then rd ((bs.drop 8).take 4) else 0
      let padded := roundUp4 length
      decide (padded ≤ bs.length ∧ ((bs.take padded).drop length).all (· == 0) ∧
        (if g code vendor then wfPadding g fuel ((bs.take length).drop hl) else true) ∧
        wfPadding g fuel (bs.drop padded)) := by
  rw [wfPadding]

/-- a container whose padding is in place has a length that is a multiple of four -/
theorem wfPadding_mod4 (g : Nat → Nat → Bool) : ∀ (fuel : Nat) (bs : Bytes),
    wfPadding g fuel bs = true → bs.length % 4 = 0
  | 0, bs, h => by
    rw [wfPadding_zero] at h
    simp only [List.isEmpty_iff] at h
    rw [h]; rfl
  | fuel+1, bs, h => by
    rw [wfPadding_succ] at h
    by_cases he : bs.isEmpty = true
    · simp only [List.isEmpty_iff] at he
      rw [he]; rfl
    simp only [he, Bool.false_eq_true, if_false, decide_eq_true_eq] at h
    obtain ⟨h1, _, _, h4⟩ := h
    have ih := wfPadding_mod4 g fuel _ h4
    rw [List.length_drop] at ih
    have : roundUp4 (rd ((bs.drop 5).take 3)) % 4 = 0 := by unfold roundUp4; omega
    omega

/-- the padding condition of the AVP at the head of `data` (one conjunct of `wfPadding`) -/
def padOne (g : Nat → Nat → Bool) (fuel : Nat) (data : Bytes) : Prop :=
  let code := rd (data.take 4)
  let flags := (data.getD 4 0).toNat
  let length := rd ((data.drop 5).take 3)
  let hl := if flags ≥ 128 then 12 else 8
  let vendor := if flags ≥ 128 then rd ((data.drop 8).take 4) else 0
  let padded := roundUp4 length
  padded ≤ data.length ∧ ((data.take padded).drop length).all (· == 0) = true ∧
    (if g code vendor then wfPadding g fuel ((data.take length).drop hl) else true) = true

theorem wfFramesX_cons (ty : Nat → Nat → Nat) (f : Frame) (r : List Frame) :
    wfFramesX ty (f :: r) = (wfFrameX ty f && wfFramesX ty r) := by rw [wfFramesX]
theorem wfFrameX_leaf (ty : Nat → Nat → Nat) (c f l v : Nat) (p : Bytes) :
    wfFrameX ty (.leaf c f l v p) = wfPayloadX (ty c v) p := by rw [wfFrameX]
theorem wfFrameX_group (ty : Nat → Nat → Nat) (c f l v : Nat) (kids : List Frame) :
    wfFrameX ty (.group c f l v kids) = wfFramesX ty kids := by rw [wfFrameX]

theorem mapR_ok {α β : Type} (g : α → β) (r : Res α) (b : β) (h : r.mapR g = .ok b) :
    ∃ a, r = .ok a ∧ b = g a := by
  cases r with
  | ok a => simp only [Res.mapR, Res.ok.injEq] at h; exact ⟨a, rfl, h.symm⟩
  | err e => cases h
  | panic p => cases h

theorem bindR_ok {α β : Type} (r : Res α) (f : α → Res β) (b : β) (h : r.bindR f = .ok b) :
    ∃ a, r = .ok a ∧ f a = .ok b := by
  cases r with
  | ok a => exact ⟨a, rfl, h⟩
  | err e => cases h
  | panic p => cases h

theorem encL_cons (a : AVP) (r : List AVP) : encL (a :: r) = a.enc ++ encL r := by rw [encL]
theorem lenL_cons (a : AVP) (r : List AVP) : lenL (a :: r) = a.len + lenL r := by rw [lenL]

/-- the octets `AVP.SerializeTo` writes for an AVP whose value serialises to `S`, reports the
    length `S.length` and asks for `pad` octets of padding -/
theorem enc_of (c f l v : Nat) (d : Val) (pad : Nat) (hp : d.padding = pad) :
    (AVP.mk c f l v d).enc = be 4 c ++ [UInt8.ofNat f] ++ be 3 (hdrLen f + d.len)
      ++ (if hasV f then be 4 v else []) ++ d.ser ++ zeros pad ∧
    (AVP.mk c f l v d).len = hdrLen f + d.len + pad := by
  constructor
  · rw [AVP.enc_padding, hp]
  · rw [AVP.len_eq, hp]

/-- reassembly: an AVP image is its header fields, its payload and its padding -/
theorem avp_image (data : Bytes) (L padded : Nat) (f : Nat) (hf : f = (data.getD 4 0).toNat)
    (hL : L = rd ((data.drop 5).take 3)) (h8 : 8 ≤ data.length) (hhl : hdrLen f ≤ L)
    (hLp : L ≤ padded) (hpd : padded ≤ data.length) :
    data.take padded =
      be 4 (rd (data.take 4)) ++ [UInt8.ofNat f] ++ be 3 L
        ++ (if hasV f then be 4 (rd ((data.drop 8).take 4)) else [])
        ++ (data.take L).drop (hdrLen f) ++ (data.take padded).drop L := by
  have e4 : be 4 (rd (data.take 4)) = data.take 4 := by
    have hl : (data.take 4).length = 4 := by rw [List.length_take]; omega
    have := be_rd (data.take 4); rw [hl] at this; exact this
  have e3 : be 3 L = (data.drop 5).take 3 := by
    have hl : ((data.drop 5).take 3).length = 3 := by rw [List.length_take, List.length_drop]; omega
    have := be_rd ((data.drop 5).take 3); rw [hl, ← hL] at this; exact this
  have ef : UInt8.ofNat f = data.getD 4 0 := by rw [hf]; simp
  rw [e4, e3, ef]
  refine (take_split data L padded hLp).trans ?_
  congr 1
  refine (take_split data (hdrLen f) L hhl).trans ?_
  congr 1
  by_cases hv : hasV f = true
  · have h12 : hdrLen f = 12 := by simp [hdrLen, hv]
    have hl12 : 12 ≤ data.length := by omega
    have ev : be 4 (rd ((data.drop 8).take 4)) = (data.drop 8).take 4 := by
      have hl : ((data.drop 8).take 4).length = 4 := by rw [List.length_take, List.length_drop]; omega
      have := be_rd ((data.drop 8).take 4); rw [hl] at this; exact this
    simp only [hv, if_true, h12, ev]
    exact take12 data hl12
  · have h8' : hdrLen f = 8 := by simp [hdrLen, hv]
    simp only [hv, Bool.false_eq_true, if_false, h8', List.append_nil]
    exact take8 data h8

theorem typedL_ok_cons (ty : Nat → Nat → Nat) (f : Frame) (r : List Frame) (as : List AVP)
    (h : typedL ty (f :: r) = .ok as) :
    ∃ a ar, typed ty f = .ok a ∧ typedL ty r = .ok ar ∧ as = a :: ar := by
  rw [typedL_cons] at h
  obtain ⟨a, ha, h⟩ := bindR_ok _ _ _ h
  obtain ⟨ar, har, h⟩ := mapR_ok _ _ _ h
  exact ⟨a, ar, ha, har, h⟩

/-- C01, wire direction, core: for every typing, every fuel and every container, if the
    Length-only walk succeeds, padding is in place and zero, and every leaf payload is a
    well-formed, unambiguous value of its type, then what the decoder returns serialises to the
    container's bytes and reports their number. -/
theorem wire_rt (ty : Nat → Nat → Nat) : ∀ fuel : Nat,
    (∀ (F2 : Nat) (data : Bytes) (f : Frame) (a : AVP),
      frameOne (isG ty) fuel data = .ok f → padOne (isG ty) F2 data →
      typed ty f = .ok a → wfFrameX ty f = true →
      a.enc = data.take (roundUp4 (rd ((data.drop 5).take 3))) ∧
      a.len = roundUp4 (rd ((data.drop 5).take 3))) ∧
    (∀ (F2 : Nat) (bs : Bytes) (fs : List Frame) (as : List AVP),
      frames (isG ty) fuel bs = .ok fs → wfPadding (isG ty) F2 bs = true →
      typedL ty fs = .ok as → wfFramesX ty fs = true →
      encL as = bs ∧ lenL as = bs.length)
  | 0 => by
    constructor
    · intro F2 data f a h; rw [frameOne_zero] at h; cases h
    · intro F2 bs fs as h _ ht _
      rw [frames_zero] at h
      by_cases he : bs.isEmpty = true
      · simp only [he, if_true, Res.ok.injEq] at h
        subst h
        rw [typedL_nil] at ht
        simp only [Res.ok.injEq] at ht
        subst ht
        simp only [List.isEmpty_iff] at he
        subst he
        exact ⟨by rw [encL], by rw [lenL]; rfl⟩
      · simp [he] at h
  | fuel+1 => by
    have ih := wire_rt ty fuel
    constructor
    · intro F2 data f a hfr hpad hty hwf
      rw [frameOne_succ] at hfr
      unfold padOne at hpad
      dsimp only at hfr hpad
      have hfl : (data.getD 4 0).toNat < 256 := byte_lt data 4
      generalize hfdef : (data.getD 4 0).toNat = flags at hfr hpad hfl
      generalize hLdef : rd ((data.drop 5).take 3) = L at hfr hpad ⊢
      generalize hcdef : rd (data.take 4) = code at hfr hpad
      have hv := hasV_iff flags hfl
      have hhl : (if flags ≥ 128 then 12 else 8) = hdrLen flags := by
        unfold hdrLen
        by_cases hV : flags ≥ 128
        · simp [hV, hv.mpr hV]
        · have : ¬ hasV flags = true := fun h => hV (hv.mp h)
          simp [hV, this]
      have hvend : (if flags ≥ 128 then rd ((data.drop 8).take 4) else 0) =
          (if hasV flags then rd ((data.drop 8).take 4) else 0) := by
        by_cases hV : flags ≥ 128
        · simp [hV, hv.mpr hV]
        · have : ¬ hasV flags = true := fun h => hV (hv.mp h)
          simp [hV, this]
      rw [hhl] at hfr hpad
      generalize hvdef : (if flags ≥ 128 then rd ((data.drop 8).take 4) else 0) = vendor at hfr hpad
      by_cases h1 : data.length < 8
      · simp [h1] at hfr
      simp only [h1, if_false] at hfr
      by_cases h2 : L < hdrLen flags
      · simp [h2] at hfr
      simp only [h2, if_false] at hfr
      by_cases h3 : data.length < L
      · simp [h3] at hfr
      simp only [h3, if_false] at hfr
      obtain ⟨hpd, hzero, hinner⟩ := hpad
      have hLp : L ≤ roundUp4 L := by unfold roundUp4; omega
      have himg := avp_image data L (roundUp4 L) flags hfdef.symm hLdef.symm (by omega) (by omega) hLp hpd
      have hplen : ((data.take L).drop (hdrLen flags)).length = L - hdrLen flags := by
        rw [List.length_drop, List.length_take]; omega
      have hzl : ((data.take (roundUp4 L)).drop L).length = roundUp4 L - L := by
        rw [List.length_drop, List.length_take]; omega
      have hzeros := all_zero_eq _ hzero
      rw [hzl] at hzeros
      by_cases hg : isG ty code vendor = true
      · -- grouped: the payload is a container of its own
        simp only [hg, if_true] at hfr hinner
        obtain ⟨kids, hk, hf⟩ := mapR_ok _ _ _ hfr
        subst hf
        rw [typed_group] at hty
        obtain ⟨kas, hkas, ha⟩ := mapR_ok _ _ _ hty
        subst ha
        rw [wfFrameX_group] at hwf
        obtain ⟨he, hl⟩ := ih.2 F2 _ kids kas hk hinner hkas hwf
        have hm4 := wfPadding_mod4 _ _ _ hinner
        rw [hplen] at hm4
        have hh := hdrLen_cases flags
        have hr : roundUp4 L = L := by unfold roundUp4; omega
        obtain ⟨e1, e2⟩ := enc_of code flags L vendor (.group kas) 0 rfl
        have hdl : (Val.group kas).len = L - hdrLen flags := by
          show lenL kas = _
          rw [hl, hplen]
        have hser : (Val.group kas).ser = (data.take L).drop (hdrLen flags) := by
          show encL kas = _
          exact he
        rw [e1, e2, hdl, hser, himg, hzeros, ← hvdef, hvend, hcdef, hr]
        have : hdrLen flags + (L - hdrLen flags) = L := by omega
        rw [this]
        refine ⟨?_, by omega⟩
        by_cases hV : hasV flags = true <;> simp [hV, zeros]
      · -- leaf
        simp only [hg, Bool.false_eq_true, if_false, Res.ok.injEq] at hfr
        subst hfr
        rw [typed_leaf] at hty
        obtain ⟨d, hd, ha⟩ := mapR_ok _ _ _ hty
        subst ha
        rw [wfFrameX_leaf] at hwf
        obtain ⟨hs, hl, hp⟩ := leaf_wire_rt _ _ d hwf hd
        rw [hplen] at hl hp
        have hh := hdrLen_cases flags
        have hpe : pad4 (L - hdrLen flags) - (L - hdrLen flags) = roundUp4 L - L := by
          unfold pad4 roundUp4; omega
        obtain ⟨e1, e2⟩ := enc_of code flags L vendor d _ hp
        rw [e1, e2, hl, hs, himg, hzeros, ← hvdef, hvend, hcdef, hpe]
        have : hdrLen flags + (L - hdrLen flags) = L := by omega
        rw [this]
        refine ⟨?_, by omega⟩
        by_cases hV : hasV flags = true <;> simp [hV]
    · intro F2 bs fs as hfr hpad hty hwf
      rw [frames_succ] at hfr
      by_cases he : bs.isEmpty = true
      · simp only [he, if_true, Res.ok.injEq] at hfr
        subst hfr
        rw [typedL_nil] at hty
        simp only [Res.ok.injEq] at hty
        subst hty
        simp only [List.isEmpty_iff] at he
        subst he
        exact ⟨by rw [encL], by rw [lenL]; rfl⟩
      simp only [he, Bool.false_eq_true, if_false] at hfr
      obtain ⟨f, hf, hrest⟩ := bindR_ok _ _ _ hfr
      obtain ⟨fr, hfrs, hfs⟩ := mapR_ok _ _ _ hrest
      subst hfs
      obtain ⟨a, ar, hta, htr, has⟩ := typedL_ok_cons ty f fr as hty
      subst has
      rw [wfFramesX_cons, Bool.and_eq_true] at hwf
      cases F2 with
      | zero => rw [wfPadding_zero] at hpad; exact absurd hpad he
      | succ F2 =>
        rw [wfPadding_succ] at hpad
        simp only [he, Bool.false_eq_true, if_false, decide_eq_true_eq] at hpad
        obtain ⟨hp1, hp2, hp3, hp4⟩ := hpad
        have hone : padOne (isG ty) F2 bs := by
          unfold padOne
          exact ⟨hp1, hp2, hp3⟩
        obtain ⟨ea, la⟩ := ih.1 F2 bs f a hf hone hta hwf.1
        obtain ⟨er, lr⟩ := ih.2 F2 _ fr ar hfrs hp4 htr hwf.2
        rw [encL_cons, lenL_cons, ea, er, la, lr, List.take_append_drop, List.length_drop]
        exact ⟨rfl, by omega⟩

theorem wfFrames_cons (ty : Nat → Nat → Nat) (f : Frame) (r : List Frame) :
    wfFrames ty (f :: r) = (wfFrame ty f && wfFrames ty r) := by rw [wfFrames]

mutual
/-- every well-formed frame is typed without error -/
theorem typed_total (ty : Nat → Nat → Nat) : ∀ f : Frame, wfFrame ty f = true → ∃ a, typed ty f = .ok a
  | .leaf c fl l v p, h => by
    rw [wfFrame] at h
    obtain ⟨d, hd⟩ := leaf_wf_decodes _ _ h
    exact ⟨_, by rw [typed_leaf, hd]; rfl⟩
  | .group c fl l v kids, h => by
    rw [wfFrame] at h
    obtain ⟨as, ha⟩ := typedL_total ty kids h
    exact ⟨_, by rw [typed_group, ha]; rfl⟩
theorem typedL_total (ty : Nat → Nat → Nat) : ∀ fs : List Frame, wfFrames ty fs = true → ∃ as, typedL ty fs = .ok as
  | [], _ => ⟨[], typedL_nil ty⟩
  | f :: r, h => by
    rw [wfFrames_cons, Bool.and_eq_true] at h
    obtain ⟨a, ha⟩ := typed_total ty f h.1
    obtain ⟨as, has⟩ := typedL_total ty r h.2
    exact ⟨a :: as, by rw [typedL_cons, ha, Res.bindR, has]; rfl⟩
end

theorem toOpt_some {α : Type} (r : Res α) (a : α) (h : r.toOpt = some a) : r = .ok a := by
  cases r with
  | ok x => simp only [Res.toOpt, Option.some.injEq] at h; rw [h]
  | err e => cases h
  | panic p => cases h

/-- the header image: decoding 20 octets and serialising the result gives them back -/
theorem header_image (b : Bytes) (h20 : b.length = 20) (h : Header) (hd : decodeHeader b = .ok h) :
    h.enc = b := by
  unfold decodeHeader at hd
  have : ¬ b.length < 20 := by omega
  simp only [this, if_false, Res.ok.injEq] at hd
  subst hd
  unfold Header.enc
  dsimp only
  have e (i k : Nat) (hik : i + k ≤ 20) : be k (rd ((b.drop i).take k)) = (b.drop i).take k := by
    have hl : ((b.drop i).take k).length = k := by rw [List.length_take, List.length_drop]; omega
    have := be_rd ((b.drop i).take k); rw [hl] at this; exact this
  have g (i : Nat) (hi : i < 20) : [UInt8.ofNat (b.getD i 0).toNat] = (b.drop i).take 1 := by
    rw [take1_drop b i (by omega)]; simp
  rw [e 1 3 (by omega), e 5 3 (by omega), e 8 4 (by omega), e 12 4 (by omega), e 16 4 (by omega),
    g 0 (by omega), g 4 (by omega)]
  have t1 : b = b.take 20 := by rw [List.take_of_length_le (by omega)]
  have d20 : b.take 20 = b.take (1 + 3 + 1 + 3 + 4 + 4 + 4) := rfl
  conv => rhs; rw [t1, d20]
  simp only [List.take_add, List.drop_zero]

theorem wfPayloadX_wfPayload (t : Nat) (p : Bytes) (h : wfPayloadX t p = true) : wfPayload t p = true := by
  unfold wfPayloadX at h
  rw [Bool.and_eq_true] at h
  exact h.1

mutual
theorem wfFrameX_wfFrame (ty : Nat → Nat → Nat) : ∀ f : Frame, wfFrameX ty f = true → wfFrame ty f = true
  | .leaf c fl l v p, h => by
    rw [wfFrameX] at h; rw [wfFrame]; exact wfPayloadX_wfPayload _ _ h
  | .group c fl l v kids, h => by
    rw [wfFrameX] at h; rw [wfFrame]; exact wfFramesX_wfFrames ty kids h
theorem wfFramesX_wfFrames (ty : Nat → Nat → Nat) : ∀ fs : List Frame, wfFramesX ty fs = true → wfFrames ty fs = true
  | [], _ => by rw [wfFrames]
  | f :: r, h => by
    rw [wfFramesX_cons, Bool.and_eq_true] at h
    rw [wfFrames_cons, Bool.and_eq_true]
    exact ⟨wfFrameX_wfFrame ty f h.1, wfFramesX_wfFrames ty r h.2⟩
end

end DV
