import Model.Pool
/-!
  Proofs.Pool — with one put per call, no buffer is ever in two hands, nor in the pool while in
  use; for every interleaving of any number of calls.
-/
namespace DV

/-- all buffers known (pooled or in use) are distinct and below `next`; users hold at most one -/
structure PoolInv (p : Pool) : Prop where
  nodup : (p.free ++ p.inUse).Nodup
  bound : ∀ b ∈ p.free ++ p.inUse, b < p.next
  users : (p.held.map (·.1)).Nodup

theorem PoolInv_init : PoolInv {} := ⟨by simp [Pool.inUse], by simp [Pool.inUse], by simp⟩

theorem holds_none {p : Pool} {u : Nat} (h : p.holds u = none) : u ∉ p.held.map (·.1) := by
  unfold Pool.holds at h
  simp only [Option.map_eq_none_iff, List.find?_eq_none, decide_eq_true_eq] at h
  intro hm
  obtain ⟨e, he, hu⟩ := List.mem_map.1 hm
  exact h e he hu

theorem holds_some {p : Pool} {u b : Nat} (h : p.holds u = some b) : (u, b) ∈ p.held := by
  unfold Pool.holds at h
  simp only [Option.map_eq_some_iff] at h
  obtain ⟨e, he, hb⟩ := h
  have hm := List.mem_of_find?_eq_some he
  have hu := List.find?_some he
  simp only [decide_eq_true_eq] at hu
  cases e with
  | mk a c => simp only at hu hb; subst hu; subst hb; exact hm

theorem filter_inUse_sub (held : List (Nat × Nat)) (u : Nat) :
    ∀ b ∈ (held.filter (fun e => e.1 ≠ u)).map (·.2), b ∈ held.map (·.2) := by
  intro b hb
  obtain ⟨e, he, hb⟩ := List.mem_map.1 hb
  exact List.mem_map.2 ⟨e, (List.mem_filter.1 he).1, hb⟩

/-- removing user `u`'s entry removes its buffer from the in-use list when buffers are distinct -/
theorem filter_removes (held : List (Nat × Nat)) (u b : Nat)
    (hu : (held.map (·.1)).Nodup) (hb : (held.map (·.2)).Nodup) (hm : (u, b) ∈ held) :
    b ∉ (held.filter (fun e => e.1 ≠ u)).map (·.2) := by
  induction held with
  | nil => simp
  | cons e rest ih =>
    simp only [List.map_cons, List.nodup_cons] at hu hb
    rcases List.mem_cons.1 hm with h | h
    · subst h
      simp only [ne_eq, not_true_eq_false, decide_false, List.filter_cons_of_neg, Bool.false_eq_true,
        not_false_eq_true]
      intro hc
      exact hb.1 (filter_inUse_sub rest u b hc)
    · have hne : e.1 ≠ u := by
        intro heq
        apply hu.1
        exact List.mem_map.2 ⟨(u, b), h, heq.symm⟩
      simp only [ne_eq, hne, not_false_eq_true, decide_true, List.filter_cons_of_pos, List.map_cons,
        List.mem_cons, not_or]
      refine ⟨?_, ih hu.2 hb.2 h⟩
      intro heq
      apply hb.1
      exact List.mem_map.2 ⟨(u, b), h, heq⟩

theorem filter_nodup_map {α β : Type} (f : α → β) (p : α → Bool) :
    ∀ (l : List α), (l.map f).Nodup → ((l.filter p).map f).Nodup
  | [], _ => by simp
  | a :: l, h => by
    simp only [List.map_cons, List.nodup_cons] at h
    by_cases hp : p a
    · simp only [List.filter_cons_of_pos hp, List.map_cons, List.nodup_cons]
      refine ⟨?_, filter_nodup_map f p l h.2⟩
      intro hc
      obtain ⟨x, hx, hfx⟩ := List.mem_map.1 hc
      exact h.1 (List.mem_map.2 ⟨x, (List.mem_filter.1 hx).1, hfx⟩)
    · simp only [List.filter_cons_of_neg hp]
      exact filter_nodup_map f p l h.2

/-- one put per call preserves the invariant -/
theorem PoolInv_step {p p' : Pool} {e : PoolEv} (hi : PoolInv p) (hs : p.step 1 e = some p') : PoolInv p' := by
  obtain ⟨free, next, held⟩ := p
  obtain ⟨hnd, hbd, hus⟩ := hi
  simp only [Pool.inUse] at hnd hbd
  cases e with
  | gc =>
    simp only [Pool.step, Option.some.injEq] at hs
    subst hs
    refine ⟨?_, ?_, hus⟩
    · simp only [Pool.inUse, List.nil_append]
      exact (List.nodup_append.1 hnd).2.1
    · intro b hb
      simp only [Pool.inUse, List.nil_append] at hb
      exact hbd b (List.mem_append_right _ hb)
  | acquire u =>
    simp only [Pool.step] at hs
    cases hh : Pool.holds ⟨free, next, held⟩ u with
    | some b => simp [hh] at hs
    | none =>
      have hnu := holds_none hh
      simp only [hh, Option.isSome_none, Bool.false_eq_true, ↓reduceIte] at hs
      cases free with
      | nil =>
        simp only [Option.some.injEq] at hs
        subst hs
        simp only [List.nil_append] at hnd hbd
        refine ⟨?_, ?_, ?_⟩
        · simp only [Pool.inUse, List.nil_append, List.map_cons, List.nodup_cons]
          refine ⟨?_, hnd⟩
          intro hc
          exact Nat.lt_irrefl _ (hbd next hc)
        · intro b hb
          simp only [Pool.inUse, List.nil_append, List.map_cons, List.mem_cons] at hb
          rcases hb with h | h
          · subst h; exact Nat.lt_succ_self _
          · exact Nat.lt_succ_of_lt (hbd b h)
        · simp only [List.map_cons, List.nodup_cons]
          exact ⟨hnu, hus⟩
      | cons b rest =>
        simp only [Option.some.injEq] at hs
        subst hs
        refine ⟨?_, ?_, ?_⟩
        · simp only [Pool.inUse, List.map_cons]
          have : (b :: (rest ++ held.map (·.2))).Nodup := by simpa using hnd
          simp only [List.nodup_cons, List.mem_append, not_or] at this
          rw [List.nodup_append] at this ⊢
          refine ⟨this.2.1, ?_, ?_⟩
          · simp only [List.nodup_cons]
            exact ⟨this.1.2, this.2.2.1⟩
          · intro x hx y hy
            rcases List.mem_cons.1 hy with h | h
            · subst h
              intro heq; subst heq
              exact this.1.1 hx
            · exact this.2.2.2 x hx y h
        · intro x hx
          apply hbd x
          simp only [Pool.inUse, List.map_cons, List.mem_append, List.mem_cons] at hx ⊢
          rcases hx with h | h | h
          · exact Or.inl (Or.inr h)
          · exact Or.inl (Or.inl h)
          · exact Or.inr h
        · simp only [List.map_cons, List.nodup_cons]
          exact ⟨hnu, hus⟩
  | release u =>
    simp only [Pool.step] at hs
    cases hh : Pool.holds ⟨free, next, held⟩ u with
    | none => simp [hh] at hs
    | some b =>
      have hm := holds_some hh
      simp only at hm
      simp only [hh, List.replicate_one, List.singleton_append, Option.some.injEq] at hs
      subst hs
      have hnd' := List.nodup_append.1 hnd
      have hbu : b ∈ held.map (·.2) := List.mem_map.2 ⟨(u, b), hm, rfl⟩
      refine ⟨?_, ?_, filter_nodup_map _ _ held hus⟩
      · simp only [Pool.inUse, List.cons_append, List.nodup_cons, List.mem_append, not_or]
        refine ⟨⟨?_, filter_removes held u b hus hnd'.2.1 hm⟩, ?_⟩
        · intro hc
          exact hnd'.2.2 b hc b hbu rfl
        · rw [List.nodup_append]
          refine ⟨hnd'.1, filter_nodup_map _ _ held hnd'.2.1, ?_⟩
          intro x hx y hy
          exact hnd'.2.2 x hx y (filter_inUse_sub held u y hy)
      · intro x hx
        simp only [Pool.inUse, List.cons_append, List.mem_cons, List.mem_append] at hx
        rcases hx with h | h | h
        · subst h; exact hbd _ (List.mem_append_right _ hbu)
        · exact hbd x (List.mem_append_left _ h)
        · exact hbd x (List.mem_append_right _ (filter_inUse_sub held u x h))

theorem PoolInv_run : ∀ (es : List PoolEv) (p p' : Pool), PoolInv p → Pool.run 1 p es = some p' → PoolInv p'
  | [], p, p', hi, hr => by simp only [Pool.run, Option.some.injEq] at hr; subst hr; exact hi
  | e :: es, p, p', hi, hr => by
    simp only [Pool.run] at hr
    cases hs : p.step 1 e with
    | none => simp [hs] at hr
    | some q =>
      rw [hs] at hr
      exact PoolInv_run es q p' (PoolInv_step hi hs) hr

end DV

namespace DV

theorem nodup_map_inj {α β : Type} (f : α → β) : ∀ (l : List α), (l.map f).Nodup → ∀ a ∈ l, ∀ b ∈ l, f a = f b → a = b
  | [], _, a, ha, _, _, _ => by cases ha
  | x :: l, h, a, ha, b, hb, hab => by
    simp only [List.map_cons, List.nodup_cons] at h
    rcases List.mem_cons.1 ha with ha | ha <;> rcases List.mem_cons.1 hb with hb | hb
    · rw [ha, hb]
    · rw [ha] at hab; exact absurd (List.mem_map.2 ⟨b, hb, hab.symm⟩) h.1
    · rw [hb] at hab; exact absurd (List.mem_map.2 ⟨a, ha, hab⟩) h.1
    · exact nodup_map_inj f l h.2 a ha b hb hab

/-- what the invariant means for the users of the pool -/
theorem PoolInv_exclusive {p : Pool} (hi : PoolInv p) :
    (∀ u v b, (u, b) ∈ p.held → (v, b) ∈ p.held → u = v) ∧ (∀ u b, (u, b) ∈ p.held → b ∉ p.free) := by
  have hnd := List.nodup_append.1 hi.nodup
  refine ⟨?_, ?_⟩
  · intro u v b hu hv
    have h2 : (p.held.map (fun e : Nat × Nat => e.2)).Nodup := hnd.2.1
    have := nodup_map_inj (fun e : Nat × Nat => e.2) p.held h2 (u, b) hu (v, b) hv rfl
    exact congrArg Prod.fst this
  · intro u b hu hf
    exact hnd.2.2 b hf b (List.mem_map.2 ⟨(u, b), hu, rfl⟩) rfl

end DV

namespace DV

/-- with the capacity check every buffer handed out holds what was asked for - whatever values
    MessageBufferLength takes in between, whatever is in the pool -/
theorem CapPool_step_ok (p : CapPool) (e : CapEv) : (p.step true e).2 = true := by
  cases e with
  | setLen n => rfl
  | use min =>
    simp only [CapPool.step, CapPool.acquire]
    by_cases h : min > p.len
    · simp [h]
    · have hle : min ≤ p.len := Nat.le_of_not_gt h
      simp only [h, ↓reduceIte]
      cases hf : p.free with
      | nil => simp [hle]
      | cons c rest =>
        by_cases hc : c < min
        · simp [hc, hle]
        · simp [hc, Nat.le_of_not_gt hc]

theorem CapPool_run_ok : ∀ (es : List CapEv) (p : CapPool), (CapPool.run true p es).2 = true
  | [], _ => rfl
  | e :: es, p => by
    simp only [CapPool.run]
    rw [CapPool_step_ok p e, CapPool_run_ok es]
    rfl

end DV
