import Proofs.Conn
/-!
  Proofs.ConnData — the data side of the connection LTS: bytes delivered = bytes consumed ++
  bytes in flight; messages handed to handlers = the first messages of the reference split.
-/
namespace DV
open DV.Spec

/-! ### messages handed over = the reference split of the bytes delivered -/

/-- what `nextMsg` finds at the front of the buffer is what the reference split finds at the
    front of any stream that starts with those bytes -/
theorem nextMsg_ready (d : DictFn) (b : Bytes) (m : Msg) (n : Nat) (h : nextMsg d b = .ready m n) :
    20 ≤ n ∧ n ≤ b.length ∧ ∀ (tail : Bytes) (fin : Fin), splitStep d (b.take n ++ tail) fin = (.msg m, n) := by
  unfold nextMsg at h
  split at h
  · cases h
  · rename_i h20
    split at h
    · rename_i hd hh
      split at h
      · cases h
      · rename_i r hc
        split at h
        · cases h
        · rename_i hl
          split at h
          · cases h
          · rename_i hb
            split at h
            · rename_i m' hm
              cases h
              have hn20 : 20 ≤ hd.len := by omega
              have hnb : hd.len ≤ b.length := by omega
              refine ⟨hn20, hnb, ?_⟩
              intro tail fin
              have hlen : (b.take hd.len).length = hd.len := by rw [List.length_take]; omega
              have ht20 : (b.take hd.len ++ tail).take 20 = b.take 20 := by
                have h1 : 20 ≤ (b.take hd.len).length := by rw [hlen]; exact hn20
                rw [List.take_append_of_le_length h1, List.take_take]
                congr 1; omega
              have hbody : ((b.take hd.len ++ tail).drop 20).take (hd.len - 20) = (b.drop 20).take (hd.len - 20) := by
                have h1 : 20 ≤ (b.take hd.len).length := by rw [hlen]; exact hn20
                have h2 : hd.len - 20 ≤ ((b.take hd.len).drop 20).length := by rw [List.length_drop, hlen]; omega
                rw [List.drop_append_of_le_length h1, List.take_append_of_le_length h2]
                rw [List.drop_take, List.take_take]
                congr 1; omega
              have hne : (b.take hd.len ++ tail).isEmpty = false := by
                cases hx : (b.take hd.len ++ tail) with
                | nil =>
                  have := congrArg List.length hx
                  rw [List.length_append, hlen, List.length_nil] at this
                  omega
                | cons a r => rfl
              unfold splitStep
              simp only [hne, List.length_append, hlen, ht20, hh, hc, hbody, hm]
              have e1 : ¬ (hd.len + tail.length < 20) := by omega
              have e2 : ¬ (hd.len + tail.length < hd.len) := by omega
              simp [e1, e2, hl]
            · cases h
    · cases h

/-- `handed` are exactly the first messages of the reference split of any stream that starts
    with `consumed`, and the split continues with what follows -/
def Cut (d : DictFn) (handed : List Msg) (consumed : Bytes) : Prop :=
  ∀ (tail : Bytes) (fin : Fin) (fuel : Nat),
    split d (handed.length + fuel) (consumed ++ tail) fin =
      (handed.map MsgRes.msg ++ (split d fuel tail fin).1, consumed.length + (split d fuel tail fin).2)

theorem Cut_nil (d : DictFn) : Cut d [] [] := by
  intro tail fin fuel; simp

theorem Cut_snoc (d : DictFn) (handed : List Msg) (consumed c : Bytes) (m : Msg)
    (hc : Cut d handed consumed) (hm : ∀ (tail : Bytes) (fin : Fin), splitStep d (c ++ tail) fin = (.msg m, c.length)) :
    Cut d (handed ++ [m]) (consumed ++ c) := by
  intro tail fin fuel
  have h1 := hc (c ++ tail) fin (fuel + 1)
  have e : (handed ++ [m]).length + fuel = handed.length + (fuel + 1) := by simp; omega
  rw [e, List.append_assoc, h1]
  have h2 : split d (fuel + 1) (c ++ tail) fin =
      (MsgRes.msg m :: (split d fuel tail fin).1, c.length + (split d fuel tail fin).2) := by
    rw [split]
    simp only [hm tail fin, List.drop_left]
  rw [h2]
  simp
  omega

/-- bytes delivered by the peer and not yet handed over, in order: buffered by bufio, held by
    the close-notifier pipe, still in the transport -/
def CN.rest (s : CN) : Bytes := s.rbuf ++ s.pipeData ++ s.inbox.flatten

/-- data invariant -/
structure DInv (d : DictFn) (s : CN) : Prop where
  data : ∃ r, s.sent = s.consumed ++ r ∧ (s.reader ≠ .exited → r = s.rest)
  cut : Cut d s.handed s.consumed

theorem DInv_init (d : DictFn) (c : Bool) : DInv d { coal := c } :=
  ⟨⟨[], by simp [CN.rest]⟩, Cut_nil d⟩

/-- a step that neither delivers nor hands over anything, and keeps the bytes in flight in order -/
theorem DInv_same (d : DictFn) (s s' : CN) (h : DInv d s) (h1 : s'.sent = s.sent) (h2 : s'.consumed = s.consumed)
    (h3 : s'.handed = s.handed) (h4 : s'.reader ≠ .exited → s.reader ≠ .exited ∧ s'.rest = s.rest) : DInv d s' := by
  obtain ⟨⟨r, hr1, hr2⟩, hc⟩ := h
  refine ⟨⟨r, by rw [h1, h2]; exact hr1, ?_⟩, by rw [h3, h2]; exact hc⟩
  intro hne
  obtain ⟨ha, hb⟩ := h4 hne
  rw [hb]; exact hr2 ha

@[simp] theorem notify_sent (s : CN) : s.notify.sent = s.sent := by unfold CN.notify; split <;> rfl
@[simp] theorem notify_consumed (s : CN) : s.notify.consumed = s.consumed := by unfold CN.notify; split <;> rfl
@[simp] theorem notify_handed (s : CN) : s.notify.handed = s.handed := by unfold CN.notify; split <;> rfl
@[simp] theorem notify_reader (s : CN) : s.notify.reader = s.reader := by unfold CN.notify; split <;> rfl
@[simp] theorem notify_rbuf (s : CN) : s.notify.rbuf = s.rbuf := by unfold CN.notify; split <;> rfl
@[simp] theorem notify_pipeData (s : CN) : s.notify.pipeData = s.pipeData := by unfold CN.notify; split <;> rfl
@[simp] theorem notify_inbox (s : CN) : s.notify.inbox = s.inbox := by unfold CN.notify; split <;> rfl
@[simp] theorem notify_rest (s : CN) : s.notify.rest = s.rest := by unfold CN.notify; split <;> rfl
@[simp] theorem terminate_sent (s : CN) (r : Bool) : (s.terminate r).sent = s.sent := by simp [CN.terminate]
@[simp] theorem terminate_consumed (s : CN) (r : Bool) : (s.terminate r).consumed = s.consumed := by simp [CN.terminate]
@[simp] theorem terminate_handed (s : CN) (r : Bool) : (s.terminate r).handed = s.handed := by simp [CN.terminate]
@[simp] theorem terminate_reader (s : CN) (r : Bool) : (s.terminate r).reader = .exited := by simp [CN.terminate]

theorem DInv_notify (d : DictFn) (s : CN) (h : DInv d s) : DInv d s.notify := by
  apply DInv_same d s _ h <;> simp

theorem DInv_terminate (d : DictFn) (s : CN) (rep : Bool) (h : DInv d s) : DInv d (s.terminate rep) := by
  apply DInv_same d s _ h <;> simp

theorem CInv_pipeData_nil (d : DictFn) (s : CN) (hc : CInv d s) (hsrc : s.src = .rwc) : s.pipeData = [] := by
  have h1 := hc.srcCop.mp hsrc
  have h2 := hc.pdata
  cases hp : s.pipeData with
  | nil => rfl
  | cons a r => have := h2 (by simp [hp]); simp [h1] at this

theorem DInv_readFrom (d : DictFn) (s : CN) (src : RSrc) (h : DInv d s) (hpd' : src = .rwc → s.pipeData = [])
    (hx : s.reader ≠ .exited) : DInv d (s.readFrom src) := by
  unfold CN.readFrom
  cases src with
  | rwc =>
    have hpd : s.pipeData = [] := hpd' rfl
    simp only []
    split
    · exact DInv_terminate d s _ h
    · split
      · exact DInv_terminate d s _ h
      · split
        · rename_i hne
          apply DInv_same d s _ h <;> simp [CN.rest, hpd]
          refine ⟨hx, ?_⟩
          cases hi : s.inbox with
          | nil => simp [hi] at hne
          | cons a r => simp
        · split
          · exact DInv_terminate d s _ h
          · apply DInv_same d s _ h <;> simp [CN.rest]
            exact hx
  | pipe =>
    simp only []
    split
    · apply DInv_same d s _ h <;> simp [CN.rest]
      exact hx
    · split
      · exact DInv_terminate d s _ h
      · apply DInv_same d s _ h <;> simp [CN.rest]
        exact hx

theorem DInv_step (d : DictFn) (s s' : CN) (e : CEv) (h : DInv d s) (hc : CInv d s)
    (hs : s.step d e = some s') : DInv d s' := by
  cases e with
  | deliver b =>
    simp only [CN.step] at hs
    split at hs
    · cases hs
    · rename_i hcond
      cases hs
      obtain ⟨⟨r, hr1, hr2⟩, hcut⟩ := h
      have hne : s.reader ≠ .exited := by
        intro he
        have := (hc.exGone he).2
        simp [this] at hcond
      refine ⟨⟨r ++ b, ?_, ?_⟩, hcut⟩
      · simp [hr1]
      · intro _
        rw [hr2 hne]; simp [CN.rest]
  | peerEof =>
    simp only [CN.step] at hs
    split at hs
    · cases hs
    · cases hs; apply DInv_same d s _ h <;> simp [CN.rest]
  | readErr =>
    simp only [CN.step] at hs
    split at hs
    · cases hs
    · cases hs; apply DInv_same d s _ h <;> simp [CN.rest]
  | readTimeout =>
    simp only [CN.step] at hs
    split at hs
    · split at hs
      · cases hs; apply DInv_same d s _ h <;> simp
      · split at hs
        · cases hs; apply DInv_same d s _ h <;> simp [CN.rest]
        · cases hs
    · cases hs
  | localClose =>
    simp only [CN.step] at hs
    split at hs
    · cases hs
    · cases hs; apply DInv_same d s _ h <;> simp [CN.rest]
  | requestCN =>
    cases hch : s.chan with
    | none =>
      simp only [CN.step, hch] at hs
      split at hs
      · cases hs; apply DInv_same d s _ h <;> simp [CN.rest]
      · split at hs <;> (cases hs; apply DInv_same d s _ h <;> simp [CN.rest])
    | «open» => simp only [CN.step, hch] at hs; cases hs; exact h
    | closed => simp only [CN.step, hch] at hs; cases hs; exact h
  | handlerReturn =>
    simp only [CN.step] at hs
    split at hs
    · cases hs; apply DInv_same d s _ h <;> simp_all [CN.rest]
    · cases hs
  | handlerPanic =>
    simp only [CN.step] at hs
    split at hs
    · cases hs; exact DInv_terminate d s _ h
    · cases hs
  | readerStep =>
    cases hr : s.reader with
    | idle =>
      cases hn : nextMsg d s.rbuf with
      | ready m n =>
        simp only [CN.step, hr, hn] at hs
        cases hs
        obtain ⟨⟨r, hr1, hr2⟩, hcut⟩ := h
        obtain ⟨h20, hnb, hsp⟩ := nextMsg_ready d s.rbuf m n hn
        have hrest := hr2 (by simp [hr])
        refine ⟨⟨s.rbuf.drop n ++ s.pipeData ++ s.inbox.flatten, ?_, ?_⟩, ?_⟩
        · simp only []
          rw [hr1, hrest, CN.rest]
          simp only [List.append_assoc]
          congr 1
          conv => rhs; rw [← List.append_assoc, List.take_append_drop]
        · intro _; simp [CN.rest]
        · simp only []
          apply Cut_snoc d _ _ _ _ hcut
          intro tail fin
          have := hsp tail fin
          rw [List.length_take, Nat.min_eq_left hnb]
          exact this
      | bad =>
        simp only [CN.step, hr, hn] at hs
        cases hs; exact DInv_terminate d s _ h
      | need =>
        simp only [CN.step, hr, hn] at hs
        cases hre : s.rEnd with
        | some e =>
          simp only [hre] at hs
          cases hs; exact DInv_terminate d s _ h
        | none =>
        simp only [hre] at hs
        by_cases hp : s.pending = true
        · simp only [hp, if_true] at hs
          cases hs
          refine DInv_readFrom d _ .pipe ?_ (by simp) (by simp)
          apply DInv_same d s _ h <;> simp [CN.rest, hr]
        · simp only [hp] at hs
          cases hs
          exact DInv_readFrom d s s.src h (fun e => CInv_pipeData_nil d s hc e) (by simp [hr])
    | blocked src =>
      have hb := hc.blk src hr
      cases src with
      | rwc =>
        simp only [CN.step, hr] at hs
        split at hs
        · cases hs; exact DInv_readFrom d s .rwc h (fun _ => CInv_pipeData_nil d s hc hb.1.symm) (by simp [hr])
        · cases hs
      | pipe =>
        simp only [CN.step, hr] at hs
        split at hs
        · cases hs; exact DInv_readFrom d s .pipe h (by simp) (by simp [hr])
        · cases hs
    | inHandler => simp [CN.step, hr] at hs
    | exited => simp [CN.step, hr] at hs
  | copierStep =>
    cases hcp : s.copier with
    | notStarted => simp [CN.step, hcp] at hs
    | exited => simp [CN.step, hcp] at hs
    | reading =>
      have hpd : s.pipeData = [] := by
        have := hc.pdata
        cases hp : s.pipeData with
        | nil => rfl
        | cons a r => have := this (by simp [hp]); simp [hcp] at this
      simp only [CN.step, hcp] at hs
      split at hs
      · cases hs; apply DInv_same d s _ h <;> simp [CN.rest]
      · split at hs
        · rename_i hne
          cases hs; apply DInv_same d s _ h <;> simp [CN.rest, hpd]
          cases hi : s.inbox with
          | nil => simp [hi] at hne
          | cons a r => simp
        · split at hs
          · cases hs; apply DInv_same d s _ h <;> simp [CN.rest]
          · cases hs
    | writing =>
      simp only [CN.step, hcp] at hs
      split at hs
      · rename_i hpr
        cases hs
        have hex := hc.pipeR hpr
        apply DInv_same d s _ h <;> simp [hex]
      · split at hs
        · split at hs
          · cases hs; apply DInv_same d s _ h <;> simp [CN.rest]
          · cases hs; apply DInv_same d s _ h <;> simp [CN.rest]
        · cases hs

theorem Inv_run (d : DictFn) : ∀ (es : List CEv) (s s' : CN), CInv d s → DInv d s → s.run d es = some s' →
    CInv d s' ∧ DInv d s'
  | [], s, s', h, h2, hr => by simp [CN.run] at hr; subst hr; exact ⟨h, h2⟩
  | e :: es, s, s', h, h2, hr => by
    simp only [CN.run] at hr
    cases hst : s.step d e with
    | none => simp [hst] at hr
    | some s1 =>
      simp only [hst] at hr
      exact Inv_run d es s1 s' (CInv_step d s s1 e h hst) (DInv_step d s s1 e h2 h hst) hr

/-- every state reachable from a fresh connection satisfies both invariants -/
theorem Inv_reach (d : DictFn) (c : Bool) (es : List CEv) (s : CN) (hr : CN.run d { coal := c } es = some s) :
    CInv d s ∧ DInv d s :=
  Inv_run d es _ s (CInv_init d c) (DInv_init d c) hr

theorem DInv_init' (d : DictFn) (m c : Bool) : DInv d { multi := m, coal := c } :=
  ⟨⟨[], by simp [CN.rest]⟩, Cut_nil d⟩

/-- ... of either kind -/
theorem Inv_reach' (d : DictFn) (m c : Bool) (es : List CEv) (s : CN)
    (hr : CN.run d { multi := m, coal := c } es = some s) : CInv d s ∧ DInv d s :=
  Inv_run d es _ s (CInv_init' d m c) (DInv_init' d m c) hr

/-- a quiescent, live connection with no handler running has handed over every complete
    message the peer delivered: nothing is stuck in the transport, the pipe or the buffer -/
theorem CInv_nothing_stuck (d : DictFn) (s : CN) (h : CInv d s) (hq : s.quiescent d = true)
    (ht : s.terminated = false) (hh : s.reader ≠ .inHandler) :
    s.inbox = [] ∧ s.pipeData = [] ∧ nextMsg d s.rbuf = .need := by
  simp only [CN.quiescent, Bool.and_eq_true, Option.isNone_iff_eq_none] at hq
  obtain ⟨hq1, hq2⟩ := hq
  cases hr : s.reader with
  | exited => simp [CN.terminated, hr] at ht
  | inHandler => exact absurd hr hh
  | idle =>
    exfalso
    simp only [CN.step, hr] at hq1
    split at hq1 <;> (try split at hq1) <;> (try split at hq1) <;> simp at hq1
  | blocked src =>
    have hb := h.blk src hr
    cases src with
    | rwc =>
      have hpd := CInv_pipeData_nil d s h hb.1.symm
      simp only [CN.step, hr] at hq1
      refine ⟨?_, hpd, hb.2⟩
      cases hi : s.inbox with
      | nil => rfl
      | cons a r => simp [hi] at hq1
    | pipe =>
      simp only [CN.step, hr] at hq1
      have h1 := h.srcCop; have h2 := h.copW; have h3 := h.pdata
      cases hc : s.copier with
      | notStarted => simp_all
      | exited => simp_all
      | reading =>
        simp only [CN.step, hc] at hq2
        simp_all [CN.terminated]
      | writing =>
        exfalso
        simp only [CN.step, hc] at hq2
        simp_all [CN.terminated]
        have := h.pipeR
        split at hq2
        · simp_all
        · split at hq2 <;> simp at hq2

end DV
